(* C28 proofs, part 3: the object namespace under the bucket — PUT then GET, single and
   batch DELETE remove exactly the named keys (outside the triggers), ranged GET. *)
From Coq Require Import List NArith ZArith Bool String Arith Lia.
From SW Require Import model.HttpRange proof.HttpRangeProofs model.S3Multipart
  proof.S3MultipartNames proof.S3MultipartParts.
Import ListNotations.
Local Open Scope N_scope.
Local Open Scope list_scope.
Local Notation length := List.length.

(* the object (file entry) at a path, as bytes *)
Definition obj_at (s : store) (p : path) : option bytes :=
  match find s p with
  | Some (File f) => Some (file_bytes f)
  | _ => None
  end.

(* ---------- paths ---------- *)
Lemma path_eqb_eq : forall p q, path_eqb p q = true <-> p = q.
Proof.
  induction p as [|a p IH]; destruct q as [|b q]; simpl; split; intros H; try discriminate; auto.
  - apply andb_prop in H. destruct H as [H1 H2]. apply String.eqb_eq in H1. apply IH in H2. congruence.
  - inversion H; subst. rewrite String.eqb_refl. simpl. apply IH. reflexivity.
Qed.

Lemma path_eqb_refl : forall p, path_eqb p p = true.
Proof. intros. apply path_eqb_eq. reflexivity. Qed.

Lemma path_eqb_neq : forall p q, path_eqb p q = false <-> p <> q.
Proof.
  intros p q. split; intros H.
  - intros E. apply path_eqb_eq in E. congruence.
  - destruct (path_eqb p q) eqn:E; auto. apply path_eqb_eq in E. contradiction.
Qed.

Lemma path_eqb_sym : forall p q, path_eqb p q = path_eqb q p.
Proof.
  intros p q. destruct (path_eqb p q) eqn:E.
  - apply path_eqb_eq in E. subst. symmetry. apply path_eqb_refl.
  - symmetry. apply path_eqb_neq. apply path_eqb_neq in E. congruence.
Qed.

Lemma is_prefix_refl : forall p, is_prefix p p = true.
Proof. induction p as [|a p IH]; simpl; auto. rewrite String.eqb_refl. exact IH. Qed.

Lemma is_prefix_length : forall p q, is_prefix p q = true -> (length p <= length q)%nat.
Proof.
  induction p as [|a p IH]; destruct q as [|b q]; simpl; intros H; try discriminate; try lia.
  apply andb_prop in H. destruct H as [_ H]. apply IH in H. lia.
Qed.

Lemma removelast_length : forall {A} (l : list A), length (removelast l) = (length l - 1)%nat.
Proof.
  induction l as [|a l IH]; simpl; auto. destruct l as [|b l]; simpl in *; auto. rewrite IH. lia.
Qed.

Lemma is_prefix_removelast : forall p q, is_prefix p (removelast q) = true -> is_prefix p q = true.
Proof.
  induction p as [|a p IH]; intros q H; simpl; auto.
  destruct q as [|b q]; simpl in H; try discriminate.
  destruct q as [|c q]; try discriminate.
  simpl in H. apply andb_prop in H. destruct H as [H1 H2]. simpl. rewrite H1. simpl.
  apply (IH (c :: q)). exact H2.
Qed.

(* an ancestor-or-self of the parent is a proper ancestor *)
Lemma prefix_of_parent : forall q p, p <> [] -> is_prefix q (parent p) = true -> is_proper_prefix q p = true.
Proof.
  intros q p Hp H. unfold is_proper_prefix, parent in *.
  rewrite (is_prefix_removelast _ _ H). simpl. apply negb_true_iff. apply path_eqb_neq.
  intros E. subst q. apply is_prefix_length in H. rewrite removelast_length in H.
  destruct p; [congruence|]. simpl in H. lia.
Qed.

Lemma proper_prefix_trans_parent : forall d p, d <> [] -> is_proper_prefix d p = true ->
  is_proper_prefix (parent d) p = true.
Proof.
  intros d p Hd H. unfold is_proper_prefix in *. apply andb_prop in H. destruct H as [H1 H2].
  assert (G : forall d p, is_prefix d p = true -> is_prefix (removelast d) p = true).
  { induction d0 as [|a d0 IH]; intros p0 H0; simpl; auto.
    destruct d0 as [|b d0]; auto.
    destruct p0 as [|c p0]; simpl in H0; try discriminate.
    apply andb_prop in H0. destruct H0 as [E1 E2]. simpl. rewrite E1. simpl.
    apply (IH p0). exact E2. }
  unfold parent. rewrite (G d p H1). simpl. apply negb_true_iff. apply path_eqb_neq.
  intros E. apply is_prefix_length in H1. rewrite <- E in H1. rewrite removelast_length in H1.
  apply negb_true_iff in H2. apply path_eqb_neq in H2.
  destruct d; [congruence|]. simpl in H1.
  (* length d <= length (removelast d) is impossible unless d is empty *)
  lia.
Qed.

(* ---------- the store as a finite map ---------- *)
Lemma find_filter_key : forall (g : path -> bool) s q,
  find (filter (fun kv => g (fst kv)) s) q = if g q then find s q else None.
Proof.
  intros g. induction s as [|[k n] s IH]; intros q; simpl.
  - destruct (g q); reflexivity.
  - destruct (g k) eqn:Eg; simpl.
    + destruct (path_eqb k q) eqn:E.
      * apply path_eqb_eq in E. subst. rewrite Eg. reflexivity.
      * apply IH.
    + destruct (path_eqb k q) eqn:E.
      * apply path_eqb_eq in E. subst. rewrite IH, Eg. reflexivity.
      * apply IH.
Qed.

Lemma find_remove : forall s p q, find (remove s p) q = if path_eqb q p then None else find s q.
Proof.
  intros s p q. unfold remove. rewrite (find_filter_key (fun k => negb (path_eqb k p))).
  destruct (path_eqb q p); reflexivity.
Qed.

Lemma find_set : forall s p n q, find (set_node s p n) q = if path_eqb p q then Some n else find s q.
Proof.
  intros s p n q. unfold set_node. simpl. destruct (path_eqb p q) eqn:E; auto.
  rewrite find_remove. rewrite path_eqb_sym, E. reflexivity.
Qed.

Lemma find_in : forall s q n, find s q = Some n -> In (q, n) s.
Proof.
  induction s as [|[k m] s IH]; simpl; intros q n H; try discriminate.
  destruct (path_eqb k q) eqn:E.
  - apply path_eqb_eq in E. inversion H; subst. left. reflexivity.
  - right. apply IH. exact H.
Qed.

Lemma obj_at_remove : forall s p q, obj_at (remove s p) q = if path_eqb q p then None else obj_at s q.
Proof. intros. unfold obj_at. rewrite find_remove. destruct (path_eqb q p); reflexivity. Qed.

Lemma obj_at_set_file : forall s p f q,
  obj_at (set_node s p (File f)) q = if path_eqb p q then Some (file_bytes f) else obj_at s q.
Proof. intros. unfold obj_at. rewrite find_set. destruct (path_eqb p q); reflexivity. Qed.

Lemma obj_at_set_dir : forall s p q, obj_at s p = None ->
  obj_at (set_node s p Dir) q = obj_at s q.
Proof.
  intros s p q H. unfold obj_at in *. rewrite find_set. destruct (path_eqb p q) eqn:E; auto.
  apply path_eqb_eq in E. subst. symmetry. exact H.
Qed.

(* ---------- PUT ---------- *)
Definition no_file_on (s : store) (d : path) : Prop :=
  forall q f, is_prefix q d = true -> find s q <> Some (File f).

(* every file entry of s1 is a file entry of s *)
Definition files_sub (s1 s : store) : Prop := forall q g, find s1 q = Some (File g) -> find s q = Some (File g).

Lemma ensure_dirs_spec : forall fuel s d, (length d < fuel)%nat -> no_file_on s d ->
  exists s', ensure_dirs fuel s d = Some s' /\ (forall q, obj_at s' q = obj_at s q) /\ files_sub s' s.
Proof.
  induction fuel as [|fuel IH]; intros s d Hf Hn; [lia|].
  destruct d as [|a d'].
  - exists s. split; [reflexivity|]. split; [reflexivity|]. intros q g H; exact H.
  - cbn [ensure_dirs]. remember (a :: d') as d eqn:Ed.
    assert (Hd : d <> []) by (rewrite Ed; discriminate).
    destruct (find s d) as [[|f]|] eqn:Efind.
    + exists s. split; auto. split; auto. intros q g H; exact H.
    + exfalso. apply (Hn d f (is_prefix_refl d)). exact Efind.
    + assert (Hl : (length (parent d) < fuel)%nat).
      { assert (Hlen : (1 <= length d)%nat) by (rewrite Ed; simpl; lia).
        unfold parent. rewrite removelast_length. lia. }
      assert (Hp : no_file_on s (parent d)).
      { intros q f Hq. apply Hn. apply is_prefix_removelast. exact Hq. }
      destruct (IH s (parent d) Hl Hp) as [s' [E1 [E2 E3]]]. rewrite E1.
      exists (set_node s' d Dir). split; auto. split.
      * intros q. rewrite obj_at_set_dir.
        -- apply E2.
        -- rewrite E2. unfold obj_at. rewrite Efind. reflexivity.
      * intros q g H. rewrite find_set in H. destruct (path_eqb d q); [discriminate|]. apply E3. exact H.
Qed.

Lemma file_ancestor_false : forall s p, file_ancestor s p = false ->
  forall q f, is_proper_prefix q p = true -> find s q <> Some (File f).
Proof.
  intros s p H q f Hq Hf. apply find_in in Hf. unfold file_ancestor in H.
  assert (existsb (fun kv => is_proper_prefix (fst kv) p && negb (is_dir (snd kv))) s = true).
  { apply existsb_exists. exists (q, File f). split; auto. simpl. rewrite Hq. reflexivity. }
  congruence.
Qed.

(* C28: an object PUT to a key that is neither a directory nor below a file is stored
   under that key and leaves every other object alone *)
Lemma create_file_spec : forall s p f, p <> [] -> trig_write s p = false ->
  exists s', create_entry s p (File f) = (s', true) /\
             obj_at s' p = Some (file_bytes f) /\
             (forall q, q <> p -> obj_at s' q = obj_at s q) /\
             (forall q g, find s' q = Some (File g) -> (q = p /\ g = f) \/ find s q = Some (File g)).
Proof.
  intros s p f Hp T. unfold trig_write in T. apply orb_false_elim in T. destruct T as [T1 T2].
  unfold is_dir_at in T1.
  assert (Hfn : find_node s p = find s p) by (destruct p; [congruence|reflexivity]).
  unfold create_entry. rewrite Hfn.
  assert (Hset : forall s0, (forall q, obj_at s0 q = obj_at s q) -> files_sub s0 s ->
            obj_at (set_node s0 p (File f)) p = Some (file_bytes f) /\
            (forall q, q <> p -> obj_at (set_node s0 p (File f)) q = obj_at s q) /\
            (forall q g, find (set_node s0 p (File f)) q = Some (File g) -> (q = p /\ g = f) \/ find s q = Some (File g))).
  { intros s0 E2 E3. split; [|split].
    - rewrite obj_at_set_file, path_eqb_refl. reflexivity.
    - intros q Hq. rewrite obj_at_set_file. apply not_eq_sym in Hq. apply path_eqb_neq in Hq.
      rewrite Hq. apply E2.
    - intros q g H. rewrite find_set in H. destruct (path_eqb p q) eqn:E.
      + apply path_eqb_eq in E. inversion H; subst. left; auto.
      + right. apply E3. exact H. }
  destruct (find s p) as [[|g]|] eqn:Ef.
  - rewrite Hfn in T1. discriminate.
  - simpl. exists (set_node s p (File f)). split; auto. apply Hset; [reflexivity|intros q h H; exact H].
  - assert (Hn : no_file_on s (parent p)).
    { intros q g Hq. apply (file_ancestor_false s p T2). apply prefix_of_parent; auto. }
    assert (Hl : (length (parent p) < length p)%nat).
    { unfold parent. rewrite removelast_length. destruct p; [congruence|simpl; lia]. }
    destruct (ensure_dirs_spec (length p) s (parent p) Hl Hn) as [s' [E1 [E2 E3]]]. rewrite E1.
    exists (set_node s' p (File f)). split; auto.
Qed.

Lemma http_put_is_create : forall s p f, trig_write s p = false -> http_put s p f = create_entry s p (File f).
Proof.
  intros s p f T. unfold trig_write in T. apply orb_false_elim in T. destruct T as [T1 _].
  unfold http_put, is_dir_at in *. destruct (find_node s p) as [[|g]|]; auto. discriminate.
Qed.

Theorem put_then_get : forall s p f, p <> [] -> trig_write s p = false ->
  exists s', http_put s p f = (s', true) /\
             obj_at s' p = Some (file_bytes f) /\
             forall q, q <> p -> obj_at s' q = obj_at s q.
Proof.
  intros s p f Hp T. rewrite (http_put_is_create s p f T).
  destruct (create_file_spec s p f Hp T) as [s' [E1 [E2 [E3 _]]]]. exists s'. auto.
Qed.

(* the defects behind trigger 4 *)
Theorem put_then_get_refuted :
  (* PUT a/b then PUT a: the second object lands under a/a *)
  (exists s p f, p <> [] /\ trig_write s p = true /\ fst (http_put s p f) <> s /\
                 obj_at (fst (http_put s p f)) p = None) /\
  (* PUT a then PUT a/b: refused, a/b is not stored *)
  (exists s p f, p <> [] /\ trig_write s p = true /\ snd (http_put s p f) = false).
Proof.
  split.
  - exists [(["a"%string; "b"%string], File {| f_inline := [1]; f_chunks := [] |}); (["a"%string], Dir)],
           ["a"%string], {| f_inline := [2]; f_chunks := [] |}.
    split; [discriminate|]. split; [reflexivity|]. split; [discriminate|reflexivity].
  - exists [(["a"%string], File {| f_inline := [1]; f_chunks := [] |})],
           ["a"%string; "b"%string], {| f_inline := [2]; f_chunks := [] |}.
    split; [discriminate|]. split; reflexivity.
Qed.

(* ---------- single DELETE ---------- *)
Lemma has_file_below_false : forall s p, has_file_below s p = false ->
  forall q f, is_proper_prefix p q = true -> find s q <> Some (File f).
Proof.
  intros s p H q f Hq Hf. apply find_in in Hf. unfold has_file_below in H.
  assert (existsb (fun kv => is_proper_prefix p (fst kv) && negb (is_dir (snd kv))) s = true).
  { apply existsb_exists. exists (q, File f). split; auto. simpl. rewrite Hq. reflexivity. }
  congruence.
Qed.

(* C28: DELETE of a key under which no object lives removes exactly that key *)
Theorem delete_exact : forall s p, has_file_below s p = false ->
  forall q, obj_at (delete_recursive s p) q = if path_eqb q p then None else obj_at s q.
Proof.
  intros s p H q. unfold delete_recursive.
  destruct (find s p) as [[|f]|] eqn:Ef.
  - unfold obj_at at 1. rewrite (find_filter_key (fun k => negb (is_prefix p k))).
    destruct (path_eqb q p) eqn:E.
    + apply path_eqb_eq in E. subst. rewrite is_prefix_refl. reflexivity.
    + destruct (is_prefix p q) eqn:Ep; simpl.
      * unfold obj_at. destruct (find s q) as [[|g]|] eqn:Eq; auto.
        exfalso. apply (has_file_below_false s p H q g); auto.
        unfold is_proper_prefix. rewrite Ep. rewrite path_eqb_sym, E. reflexivity.
      * reflexivity.
  - apply obj_at_remove.
  - destruct (path_eqb q p) eqn:E; auto.
    apply path_eqb_eq in E. subst. unfold obj_at. rewrite Ef. reflexivity.
Qed.

Theorem delete_exact_refuted : exists s p q, q <> p /\ obj_at s q <> None /\
  obj_at (delete_recursive s p) q = None.
Proof.
  exists [(["a"%string; "b"%string], File {| f_inline := [1]; f_chunks := [] |}); (["a"%string], Dir)],
         ["a"%string], ["a"%string; "b"%string].
  split; [discriminate|]. split; [discriminate|reflexivity].
Qed.

(* ---------- batch DELETE ---------- *)
Lemma grpc_delete_obj : forall s k q, k <> [] ->
  obj_at (fst (grpc_delete s k)) q = if path_eqb q k then None else obj_at s q.
Proof.
  intros s k q Hk. unfold grpc_delete. destruct k as [|a k']; [congruence|].
  set (k := a :: k') in *.
  destruct (find s k) as [[|f]|] eqn:Ef.
  - destruct (has_children s k); simpl.
    + destruct (path_eqb q k) eqn:E; auto. apply path_eqb_eq in E. subst.
      unfold obj_at. rewrite Ef. reflexivity.
    + rewrite obj_at_remove. reflexivity.
  - simpl. apply obj_at_remove.
  - simpl. destruct (path_eqb q k) eqn:E; auto. apply path_eqb_eq in E. subst.
    unfold obj_at. rewrite Ef. reflexivity.
Qed.

(* deletes only remove entries *)
Definition sub_store (s1 s : store) : Prop := forall q n, find s1 q = Some n -> find s q = Some n.

Lemma sub_store_refl : forall s, sub_store s s.
Proof. intros s q n H. exact H. Qed.

Lemma sub_store_trans : forall a b c, sub_store a b -> sub_store b c -> sub_store a c.
Proof. intros a b c H1 H2 q n H. apply H2, H1, H. Qed.

Lemma remove_sub : forall s p, sub_store (remove s p) s.
Proof. intros s p q n H. rewrite find_remove in H. destruct (path_eqb q p); [discriminate|exact H]. Qed.

Lemma grpc_delete_sub : forall s k, sub_store (fst (grpc_delete s k)) s.
Proof.
  intros s k. unfold grpc_delete. destruct k as [|a k']; [apply sub_store_refl|].
  destruct (find s (a :: k')) as [[|f]|]; simpl; try apply sub_store_refl; try apply remove_sub.
  destruct (has_children s (a :: k')); simpl; [apply sub_store_refl|apply remove_sub].
Qed.

(* the purge only removes empty directories: objects are untouched, whatever the store *)
Lemma purge_up_spec : forall fuel s d,
  sub_store (purge_up fuel s d) s /\ forall q, obj_at (purge_up fuel s d) q = obj_at s q.
Proof.
  induction fuel as [|fuel IH]; intros s d.
  - cbn [purge_up]. split; [apply sub_store_refl|reflexivity].
  - destruct d as [|a d']; [cbn [purge_up]; split; [apply sub_store_refl|reflexivity]|].
    cbn [purge_up]. remember (a :: d') as d eqn:Ed.
    destruct (find s d) as [[|f]|] eqn:Ef; try (split; [apply sub_store_refl|reflexivity]).
    destruct (has_children s d); [split; [apply sub_store_refl|reflexivity]|].
    destruct (IH (remove s d) (parent d)) as [I1 I2]. split.
    + eapply sub_store_trans; [exact I1|apply remove_sub].
    + intros q. rewrite I2, obj_at_remove. destruct (path_eqb q d) eqn:E; auto.
      apply path_eqb_eq in E. subst q. unfold obj_at. rewrite Ef. reflexivity.
Qed.

Lemma purge_fold_spec : forall dirs s,
  forall q, obj_at (fold_left (fun s0 d => purge_up (S (length d)) s0 d) dirs s) q = obj_at s q.
Proof.
  induction dirs as [|d dirs IH]; intros s q; cbn [fold_left]; auto.
  rewrite IH. apply (purge_up_spec (S (length d)) s d).
Qed.

Definition batch_step (acc : store * list path) (k : path) : store * list path :=
  let '(s0, ds) := acc in
  let (s', ok) := grpc_delete s0 k in
  (s', if ok then parent k :: ds else ds).

Lemma batch_fold_spec : forall ks s ds,
  (forall k, In k ks -> k <> []) ->
  let r := fold_left batch_step ks (s, ds) in
  sub_store (fst r) s /\
  (forall q, obj_at (fst r) q = if existsb (path_eqb q) ks then None else obj_at s q).
Proof.
  induction ks as [|k ks IH]; intros s ds Hne; simpl.
  - split; [apply sub_store_refl|auto].
  - pose proof (grpc_delete_sub s k) as Hsub.
    pose proof (fun q => grpc_delete_obj s k q (Hne k (or_introl eq_refl))) as Hobj.
    destruct (grpc_delete s k) as [s' ok] eqn:Eg. simpl in Hsub, Hobj.
    destruct (IH s' (if ok then parent k :: ds else ds) (fun x Hx => Hne x (or_intror Hx))) as [I1 I2].
    split; [eapply sub_store_trans; eauto|].
    intros q. rewrite I2. rewrite Hobj.
    destruct (path_eqb q k); simpl; destruct (existsb (path_eqb q) ks); reflexivity.
Qed.

(* C28, c28_delete_exact (batch): DeleteMultipleObjects — including the purge of emptied
   directories — removes exactly the named keys, on every store *)
Theorem batch_delete_exact : forall s ks, (forall k, In k ks -> k <> []) ->
  forall q, obj_at (batch_delete s ks) q = if existsb (path_eqb q) ks then None else obj_at s q.
Proof.
  intros s ks Hne q. unfold batch_delete.
  change (fold_left _ ks (s, [])) with (fold_left batch_step ks (s, [])).
  destruct (batch_fold_spec ks s [] Hne) as [B1 B2].
  destruct (fold_left batch_step ks (s, [])) as [s1 dirs] eqn:E. simpl in B1, B2.
  rewrite purge_fold_spec. apply B2.
Qed.

(* ---------- GET, whole and ranged ---------- *)
Definition file_ok (f : file) : Prop :=
  f_chunks f = [] \/ (f_inline f = [] /\ seq_from 0 (f_chunks f)).

Lemma store_body_ok : forall c b, 0 < c_chunk c -> file_ok (store_body c b).
Proof.
  intros c b Hc. destruct (is_inline (store_body c b)) eqn:Hi.
  - left. rewrite store_body_inline in Hi. unfold store_body.
    apply andb_prop in Hi. destruct Hi as [Hi H3]. apply andb_prop in Hi. destruct Hi as [H1 H2].
    apply negb_true_iff in H1. rewrite H1, H2, H3. reflexivity.
  - right. destruct (store_body_chunks c b Hc Hi) as [S0 [S1 _]]. auto.
Qed.

Lemma completed_file_ok : forall d,
  (forall e, In e (sort_by_number (listed d)) -> has_part_suffix (fst e) = true) -> file_ok (completed_file d).
Proof.
  intros d H. right. split; [reflexivity|]. apply (complete_is_listing_concat d H).
Qed.

Lemma file_ok_size : forall f, file_ok f -> file_size f = blen (file_bytes f).
Proof.
  intros [inl cs] [H|[H1 H2]]; simpl in *; subst.
  - unfold file_bytes, file_size, read_file. cbn [f_inline f_chunks]. unfold chunks_size. cbn [fold_left].
    rewrite N.max_0_r, N.add_0_l, N.leb_refl. unfold slice. rewrite dropN_0.
    rewrite takeN_all; [reflexivity|]. unfold nlen, blen. lia.
  - rewrite file_bytes_seq by exact H2. unfold file_size. cbn [f_inline f_chunks].
    change (blen []) with 0. rewrite N.max_r by lia. apply chunks_size_seq. exact H2.
Qed.

Lemma read_file_slice : forall f off len, file_ok f -> off + len <= file_size f ->
  read_file f off len = slice (file_bytes f) off len.
Proof.
  intros [inl cs] off len [H|[H1 H2]] Hle; simpl in *; subst.
  - unfold file_size in Hle. cbn [f_inline f_chunks] in Hle. unfold chunks_size in Hle. cbn [fold_left] in Hle.
    rewrite N.max_0_r in Hle.
    assert (E : file_bytes {| f_inline := inl; f_chunks := [] |} = inl).
    { unfold file_bytes, file_size, read_file. cbn [f_inline f_chunks]. unfold chunks_size. cbn [fold_left].
      rewrite N.max_0_r, N.add_0_l, N.leb_refl. unfold slice. rewrite dropN_0.
      apply takeN_all. unfold nlen, blen. lia. }
    rewrite E. unfold read_file. cbn [f_inline f_chunks].
    destruct (off + len <=? blen inl) eqn:E1; [reflexivity|]. apply N.leb_gt in E1. lia.
  - rewrite file_bytes_seq by exact H2. unfold read_file. cbn [f_inline f_chunks].
    rewrite layout_seq by exact H2. change (blen []) with 0.
    destruct (off + len <=? 0) eqn:E1; [|reflexivity].
    apply N.leb_le in E1. assert (off = 0) by lia. assert (len = 0) by lia. subst.
    unfold slice. rewrite !takeN_0. reflexivity.
Qed.

Lemma ref_spec_bounds : forall sp (size o l : Z), (0 <= size)%Z -> ref_spec sp size = Some (o, l) ->
  (0 <= o /\ 0 <= l /\ o + l <= size)%Z.
Proof.
  intros sp size o l Hs H. destruct sp as [a b|a|n]; simpl in H.
  - destruct ((Z.of_N a <=? Z.of_N b) && (Z.of_N a <? size))%Z eqn:E; try discriminate.
    inversion H; subst. apply andb_prop in E. destruct E as [E1 E2].
    apply Z.leb_le in E1. apply Z.ltb_lt in E2. lia.
  - destruct (Z.of_N a <? size)%Z eqn:E; try discriminate. inversion H; subst.
    apply Z.ltb_lt in E. lia.
  - destruct ((0 <? Z.of_N n) && (0 <? size))%Z eqn:E; try discriminate. inversion H; subst.
    apply andb_prop in E. destruct E as [E1 E2]. apply Z.ltb_lt in E1. apply Z.ltb_lt in E2. lia.
Qed.

(* C28: GET returns the object's bytes; GET with a satisfiable byte range returns exactly
   that slice of them.  Range parsing is C32's (parse_spec_ref). *)
Theorem get_whole : forall s k f, k <> [] -> find s k = Some (File f) ->
  get_obj s k None = RData (file_bytes f).
Proof.
  intros s k f Hk Hf. unfold get_obj. destruct k; [congruence|]. cbn [find_node]. rewrite Hf. reflexivity.
Qed.

Theorem get_range : forall s k f sp o l, k <> [] -> find s k = Some (File f) -> file_ok f ->
  ref_spec sp (Z.of_N (blen (file_bytes f))) = Some (o, l) ->
  get_obj s k (Some sp) = RData (slice (file_bytes f) (Z.to_N o) (Z.to_N l)).
Proof.
  intros s k f sp o l Hk Hf Hok Hr. unfold get_obj. destruct k; [congruence|]. cbn [find_node]. rewrite Hf.
  rewrite (file_ok_size f Hok).
  rewrite (parse_spec_ref sp _ (o, l) Hr).
  destruct (ref_spec_bounds sp _ o l (N2Z.is_nonneg _) Hr) as [B1 [B2 B3]].
  rewrite read_file_slice; auto. rewrite (file_ok_size f Hok). lia.
Qed.
