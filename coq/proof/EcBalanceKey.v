(* Per-key conservation for the ec.balance model (C16).
   The two known findings are about ONE (volume, shard) each: a shard that is on two
   nodes in the snapshot (finding 1) and a picked shard that is abandoned (finding 0).
   This file proves that nothing else is affected: for every key (v0, s0) that is on at
   most one node in the snapshot, whatever happens to other keys (duplicates, drops),
   the number of copies of (v0, s0) never grows, is conserved unless (v0, s0) itself is
   abandoned, and no move of (v0, s0) targets a node that already holds it. *)
From Coq Require Import List NArith ZArith Bool Lia Arith.
From SW Require Import model.EcBalance proof.EcBalanceBase proof.EcBalanceInv.
Import ListNotations.
Local Open Scope N_scope.

(* generic facts, any key *)
Lemma unique_other_key : forall ns src v s x, wf_ids ns -> (total ns v s <= 1)%nat ->
  hb ns src v s = true -> x <> src -> hb ns x v s = false.
Proof.
  intros ns src v s x Hwf U Hs Hne.
  pose proof (total_del ns src v s v s Hwf) as T. unfold same in T. rewrite !N.eqb_refl, Hs in T. simpl in T.
  assert (T0 : total (upd_node ns src (del_shard v s)) v s = 0%nat) by lia.
  pose proof (hb_false_of_total0 _ x _ _ T0) as X. rewrite hb_del in X.
  destruct (N.eqb_spec x src); [contradiction|]. simpl in X. rewrite andb_true_r in X. exact X.
Qed.

Lemma same_false : forall v s v' s', (v' =? v) && (s' =? s) = false -> same v s v' s' = false.
Proof. intros v s v' s' H. unfold same. rewrite (N.eqb_sym s s'). exact H. Qed.

Lemma move_other_key : forall ns src v c s dst nd v' s', wf_ids ns -> get_node ns dst = Some nd -> src <> dst ->
  (v' =? v) && (s' =? s) = false ->
  total (move_shard ns src v c s dst) v' s' = total ns v' s'.
Proof.
  intros ns src v c s dst nd v' s' Hwf G Hne K.
  pose proof (move_total ns src v c s dst nd v' s' Hwf G Hne) as M.
  rewrite (same_false _ _ _ _ K) in M. simpl in M. lia.
Qed.

Section Key.
Variables v0 s0 : N.

Definition is_key (v s : N) : bool := (v0 =? v) && (s0 =? s).

Definition key_move_ok (i : item) : Prop :=
  match i with
  | IMove _ m => m_vid m = v0 -> m_shard m = s0 -> m_dst_held m = false
  | _ => True
  end.
Definition kmoves_ok (its : list item) : Prop := Forall key_move_ok its.
Definition uk (ns : list node) : Prop := (total ns v0 s0 <= 1)%nat.

Definition key_ok (ns ns' : list node) (its : list item) : Prop :=
  wf ns' /\ (total ns' v0 s0 <= total ns v0 s0)%nat /\
  (drops_key its v0 s0 = false -> total ns' v0 s0 = total ns v0 s0) /\ kmoves_ok its.

Lemma drops_key_app : forall a b, drops_key (a ++ b) v0 s0 = drops_key a v0 s0 || drops_key b v0 s0.
Proof. intros. unfold drops_key. apply existsb_app. Qed.

Lemma drops_key_has_drop : forall its, has_drop its = false -> drops_key its v0 s0 = false.
Proof.
  induction its as [|i its IH]; intros H; [reflexivity|].
  unfold has_drop in H. simpl in H. apply orb_false_iff in H. destruct H as [H1 H2].
  unfold drops_key. simpl. fold (drops_key its v0 s0). rewrite (IH H2).
  destruct i; simpl in *; try reflexivity; discriminate.
Qed.

Lemma key_ok_refl : forall ns, wf ns -> key_ok ns ns [].
Proof. intros. split; auto. split; [lia|]. split; [intros; reflexivity|constructor]. Qed.

Lemma key_ok_trans : forall a b c i1 i2, key_ok a b i1 -> key_ok b c i2 -> key_ok a c (i1 ++ i2).
Proof.
  intros a b c i1 i2 [A1 [B1 [C1 D1]]] [A2 [B2 [C2 D2]]]. split; auto. split; [lia|]. split.
  - rewrite drops_key_app. intros X. apply orb_false_iff in X. destruct X as [X1 X2].
    rewrite (C2 X2), (C1 X1). reflexivity.
  - apply Forall_app. auto.
Qed.

Lemma key_ok_uk : forall a b i, key_ok a b i -> uk a -> uk b.
Proof. intros a b i [_ [B _]] U. unfold uk in *. lia. Qed.
Lemma key_ok_wf : forall a b i, key_ok a b i -> wf b.
Proof. intros a b i [W _]. exact W. Qed.

Lemma moves_ok_kmoves : forall its, moves_ok its -> kmoves_ok its.
Proof.
  intros its H. unfold moves_ok, kmoves_ok in *. eapply Forall_impl; [|exact H].
  intros i Hi. destruct i; simpl in *; auto. intros _ _. apply Hi.
Qed.

Lemma quiet_key : forall a b i, quiet_ok a b i -> key_ok a b i.
Proof.
  intros a b i [[W [L [E M]]] D]. split; auto. split; [apply L|]. split; [intros _; apply E; exact D|].
  apply moves_ok_kmoves. exact M.
Qed.

(* ---------- picks: copies of the key in the books + pending in the picked map ---------- *)
Definition phik (ns : list node) (picked : list (N * N)) (v : N) : nat :=
  (total ns v0 s0 + (if N.eqb v0 v then b2n (pin picked s0) else 0))%nat.

Lemma pick_step_key : forall ns picked v id s, wf ns -> (phik ns picked v <= 1)%nat -> hb ns id v s = true ->
  phik (upd_node ns id (del_shard v s)) (pset picked s id) v = phik ns picked v.
Proof.
  intros ns picked v id s Hwf Hphi Hb. unfold phik in *.
  pose proof (total_del ns id v s v0 s0 (proj1 Hwf)) as T. unfold same in T. rewrite Hb, andb_true_r in T.
  rewrite pin_pset. destruct (N.eqb_spec v0 v) as [E|E].
  - subst v. destruct (N.eqb_spec s s0) as [E2|E2].
    + subst s. rewrite N.eqb_refl. simpl in T. rewrite orb_true_r.
      pose proof (hb_total _ _ _ _ Hb) as T1. destruct (pin picked s0); simpl in *; lia.
    + simpl in T. destruct (N.eqb_spec s0 s); [congruence|]. rewrite orb_false_r. lia.
  - simpl in T. lia.
Qed.

Lemma pick_n_key : forall n v cands ns picked ns' picked',
  pick_n n v cands ns picked = (ns', picked') ->
  wf ns -> NoDup (map fst picked) -> (phik ns picked v <= 1)%nat ->
  wf ns' /\ NoDup (map fst picked') /\ phik ns' picked' v = phik ns picked v.
Proof.
  induction n as [|n IH]; intros v cands ns picked ns' picked' H Hwf Hnd Hphi; simpl in H.
  - inv H. auto.
  - destruct (first_nonzero ns v cands 0) as [[[i id] b]|] eqn:F; [|inv H; auto].
    destruct (shard_ids b) as [|s rest] eqn:S; [inv H; auto|].
    assert (Hb : hb ns id v s = true).
    { unfold hb. rewrite <- (first_nonzero_spec _ _ _ _ _ _ _ F). apply shard_ids_has. rewrite S. left. reflexivity. }
    pose proof (pick_step_key ns picked v id s Hwf Hphi Hb) as C.
    apply IH in H.
    + destruct H as [A' [B' C']]. split; auto. split; auto. rewrite C', C. reflexivity.
    + apply wf_del; auto.
    + apply keys_pset_nodup; auto.
    + rewrite C. exact Hphi.
Qed.

Lemma pick_racks_key : forall ro ns v avg rsc locs picked ns' picked',
  pick_racks ns v avg rsc locs ro picked = Some (ns', picked') ->
  wf ns -> NoDup (map fst picked) -> (phik ns picked v <= 1)%nat ->
  wf ns' /\ NoDup (map fst picked') /\ phik ns' picked' v = phik ns picked v.
Proof.
  induction ro as [|[r cands] ro IH]; intros ns v avg rsc locs picked ns' picked' H Hwf Hnd Hphi; simpl in H.
  - inv H. auto.
  - destruct (alookup rsc r >? avg)%Z.
    + destruct (valid_cands ns (filter (fun id => node_rack ns id =? r) locs) v cands); [|discriminate].
      destruct (pick_n (Z.to_nat (alookup rsc r - avg)) v
                  (map (fun id => (id, count (node_bits ns id v))) cands) ns picked) as [ns1 picked1] eqn:P.
      destruct (pick_n_key _ _ _ _ _ _ _ P Hwf Hnd Hphi) as [A [B C]].
      apply IH in H; auto.
      * destruct H as [A' [B' C']]. split; auto. split; auto. rewrite C', C. reflexivity.
      * rewrite C. exact Hphi.
    + eapply IH; eauto.
Qed.

(* ---------- second loop of doBalanceEcShardsAcrossRacks ---------- *)
Lemma across_moves_key : forall ms c v avg st rsc picked st' its,
  across_moves c v avg st rsc picked ms = Some (st', its) ->
  wf (nodes st) -> NoDup (map fst picked) -> (phik (nodes st) picked v <= 1)%nat ->
  wf (nodes st') /\
  (total (nodes st') v0 s0 <= phik (nodes st) picked v)%nat /\
  (drops_key its v0 s0 = false -> total (nodes st') v0 s0 = phik (nodes st) picked v) /\
  kmoves_ok its.
Proof.
  induction ms as [|[s ch] ms IH]; intros c v avg st rsc picked st' its H Hwf Hnd Hphi; simpl in H.
  - destruct picked; [|discriminate]. inv H. unfold phik, pin. simpl.
    destruct (v0 =? v); simpl; (split; [auto|]; split; [lia|]; split; [intros; lia|constructor]).
  - destruct (ptake picked s) as [[src picked']|] eqn:T; [|discriminate].
    destruct (ptake_spec _ _ _ _ T Hnd) as [Pin [Pin' Pnd]].
    assert (Hle : (phik (nodes st) picked' v <= phik (nodes st) picked v)%nat).
    { unfold phik. rewrite Pin'. destruct (v0 =? v), (pin picked s0), (s0 =? s); simpl; lia. }
    assert (Heq : (v =? v0) && (s =? s0) = false -> phik (nodes st) picked' v = phik (nodes st) picked v).
    { unfold phik. rewrite Pin'. rewrite (N.eqb_sym v v0), (N.eqb_sym s s0).
      destruct (v0 =? v), (s0 =? s); simpl; intros X; try discriminate; try lia;
        destruct (pin picked s0); simpl; lia. }
    destruct ch as [|r d].
    + (* NoRack: dropped *)
      destruct (existsb (rack_ok st rsc avg) (rack_ids st)); [discriminate|].
      destruct (across_moves c v avg st rsc picked' ms) as [[st1 its1]|] eqn:R; [|discriminate]. inv H.
      destruct (IH _ _ _ _ _ _ _ _ R Hwf Pnd) as [A [B [C D]]]; [lia|].
      split; auto. split; [lia|]. split.
      * unfold drops_key. simpl. fold (drops_key its1 v0 s0). intros X.
        apply orb_false_iff in X. destruct X as [X1 X2]. rewrite (C X2). apply Heq. exact X1.
      * constructor; simpl; auto.
    + destruct (mem r (rack_ids st) && rack_ok st rsc avg r); [|discriminate].
      destruct (valid_dest (nodes st) src v avg (rack_node_ids (nodes st) r) d) eqn:V; [|discriminate].
      destruct d as [dst|].
      * (* moved *)
        match type of H with context [across_moves c v avg ?S ?R picked' ms] =>
          destruct (across_moves c v avg S R picked' ms) as [[st1 its1]|] eqn:R1; [|discriminate] end.
        inv H.
        destruct (valid_dest_some _ _ _ _ _ _ V) as [Hin [Hne _]].
        destruct (rack_node_ids_get _ _ _ Hin) as [nd G].
        assert (Hne' : src <> dst) by congruence.
        assert (Hk : phik (move_shard (nodes st) src v c s dst) picked' v = phik (nodes st) picked v /\
                     ((v =? v0) && (s =? s0) = true -> hb (nodes st) dst v s = false)).
        { destruct ((v =? v0) && (s =? s0)) eqn:K.
          - apply andb_true_iff in K. destruct K as [K1 K2]. apply N.eqb_eq in K1. apply N.eqb_eq in K2. subst v s.
            unfold phik in *. rewrite N.eqb_refl in *. rewrite Pin in Hphi. simpl in Hphi.
            assert (T0 : total (nodes st) v0 s0 = 0%nat) by lia.
            assert (Hd : hb (nodes st) dst v0 s0 = false) by (apply hb_false_of_total0; auto).
            assert (Hs : hb (nodes st) src v0 s0 = false) by (apply hb_false_of_total0; auto).
            pose proof (move_total (nodes st) src v0 c s0 dst nd v0 s0 (proj1 Hwf) G Hne') as M.
            unfold same in M. rewrite !N.eqb_refl, Hd, Hs in M. simpl in M.
            rewrite Pin', Pin, N.eqb_refl. simpl. split; [lia|auto].
          - split; [|discriminate]. unfold phik.
            rewrite (move_other_key _ _ _ _ _ _ nd v0 s0 (proj1 Hwf) G Hne')
              by (rewrite (N.eqb_sym v0 v), (N.eqb_sym s0 s); exact K).
            rewrite Pin'. rewrite (N.eqb_sym v v0), (N.eqb_sym s s0) in K.
            destruct (v0 =? v); simpl in *; [|reflexivity]. rewrite K. rewrite andb_true_r. reflexivity. }
        destruct Hk as [Hk Hheld].
        destruct (IH _ _ _ _ _ _ _ _ R1) as [A [B [C D]]]; simpl.
        { apply wf_move; auto. }
        { auto. }
        { rewrite Hk. exact Hphi. }
        simpl in *. rewrite Hk in B, C. split; auto. split; auto. split.
        { unfold drops_key. simpl. exact C. }
        constructor; auto. simpl. intros Ev Es. subst v s. unfold hb in Hheld. apply Hheld.
        rewrite !N.eqb_refl. reflexivity.
      * (* rack found, no node: dropped *)
        match type of H with context [across_moves c v avg ?S ?R picked' ms] =>
          destruct (across_moves c v avg S R picked' ms) as [[st1 its1]|] eqn:R1; [|discriminate] end.
        inv H.
        destruct (IH _ _ _ _ _ _ _ _ R1) as [A [B [C D]]]; simpl; auto; [simpl; lia|].
        simpl in *. split; auto. split; [lia|]. split.
        -- unfold drops_key. simpl. fold (drops_key its1 v0 s0). intros X.
           apply orb_false_iff in X. destruct X as [X1 X2]. rewrite (C X2). apply Heq. exact X1.
        -- constructor; simpl; auto.
Qed.

Lemma across_vid_key : forall c st o st' its,
  across_vid c st o = Some (st', its) -> wf (nodes st) -> uk (nodes st) ->
  key_ok (nodes st) (nodes st') its.
Proof.
  intros c st o st' its H Hwf U. unfold across_vid in H.
  destruct (perm_eqb _ _); [|discriminate].
  destruct (pick_racks _ _ _ _ _ _ _) as [[ns1 picked]|] eqn:P; [|discriminate].
  assert (Hphi0 : phik (nodes st) [] (av_vid o) = total (nodes st) v0 s0).
  { unfold phik, pin. simpl. destruct (v0 =? av_vid o); simpl; lia. }
  destruct (pick_racks_key _ _ _ _ _ _ _ _ _ P Hwf (NoDup_nil _)) as [A [B C]].
  { rewrite Hphi0. exact U. }
  apply across_moves_key in H; simpl; auto.
  - simpl in H. rewrite C, Hphi0 in H. exact H.
  - rewrite C, Hphi0. exact U.
Qed.

Lemma across_vids_key : forall os c st st' its,
  across_vids c st os = Some (st', its) -> wf (nodes st) -> uk (nodes st) ->
  key_ok (nodes st) (nodes st') its.
Proof.
  induction os as [|o os IH]; intros c st st' its H Hwf U; simpl in H.
  - inv H. apply key_ok_refl; auto.
  - destruct (across_vid c st o) as [[st1 i1]|] eqn:A; [|discriminate].
    destruct (across_vids c st1 os) as [[st2 i2]|] eqn:B; [|discriminate]. inv H.
    pose proof (across_vid_key _ _ _ _ _ A Hwf U) as P1.
    eapply key_ok_trans; [exact P1|]. eapply IH; eauto.
    + eapply key_ok_wf; eauto.
    + eapply key_ok_uk; eauto.
Qed.

(* ---------- phases that abandon nothing ---------- *)
Definition kquiet (ns ns' : list node) (its : list item) : Prop :=
  wf ns' /\ total ns' v0 s0 = total ns v0 s0 /\ kmoves_ok its /\ has_drop its = false.

Lemma kquiet_refl : forall ns, wf ns -> kquiet ns ns [].
Proof. intros. split; auto. split; auto. split; [constructor|reflexivity]. Qed.
Lemma kquiet_trans : forall a b c i1 i2, kquiet a b i1 -> kquiet b c i2 -> kquiet a c (i1 ++ i2).
Proof.
  intros a b c i1 i2 [A1 [B1 [C1 D1]]] [A2 [B2 [C2 D2]]]. split; auto. split; [lia|]. split.
  - apply Forall_app. auto.
  - rewrite has_drop_app, D1, D2. reflexivity.
Qed.
Lemma kquiet_key : forall a b i, kquiet a b i -> key_ok a b i.
Proof.
  intros a b i [A [B [C D]]]. split; auto. split; [lia|]. split; auto.
Qed.
Lemma kquiet_uk : forall a b i, kquiet a b i -> uk a -> uk b.
Proof. intros a b i [_ [B _]] U. unfold uk in *. lia. Qed.

Lemma within_shards_key : forall ss c v avgn nracks ns src dests over ch ns' its ch',
  within_shards c v avgn nracks ns src dests ss over ch = Some (ns', its, ch') ->
  wf ns -> uk ns -> NoDup ss -> (forall s, In s ss -> hb ns src v s = true) ->
  (forall x, In x dests -> present ns x) ->
  kquiet ns ns' its /\ (forall x, present ns x -> present ns' x).
Proof.
  induction ss as [|s ss IH]; intros c v avgn nracks ns src dests over ch ns' its ch' H Hwf U Hnd Hh Hp; simpl in H.
  - inv H. split; [apply kquiet_refl; auto|auto].
  - destruct (over <=? 0)%Z; [inv H; split; [apply kquiet_refl; auto|auto]|].
    destruct ch as [|d ch1]; [discriminate|].
    destruct (valid_dest ns src v avgn dests d) eqn:V; [|discriminate].
    inv Hnd.
    destruct d as [dst|].
    + destruct (within_shards c v avgn nracks (move_shard ns src v c s dst) src dests ss (over - 1) ch1)
        as [[[ns2 its2] ch2]|] eqn:R; [|discriminate]. inv H.
      destruct (valid_dest_some _ _ _ _ _ _ V) as [Hin [Hne _]].
      assert (Hne' : src <> dst) by congruence.
      assert (Hs : hb ns src v s = true) by (apply Hh; left; reflexivity).
      destruct (Hp _ Hin) as [nd G].
      assert (Hk : total (move_shard ns src v c s dst) v0 s0 = total ns v0 s0 /\
                   ((v0 =? v) && (s0 =? s) = true -> hb ns dst v s = false)).
      { destruct ((v0 =? v) && (s0 =? s)) eqn:K.
        - apply andb_true_iff in K. destruct K as [K1 K2]. apply N.eqb_eq in K1. apply N.eqb_eq in K2. subst v s.
          assert (Hd : hb ns dst v0 s0 = false) by (eapply unique_other_key; eauto; apply Hwf).
          split; auto.
          pose proof (move_total ns src v0 c s0 dst nd v0 s0 (proj1 Hwf) G Hne') as M.
          unfold same in M. rewrite !N.eqb_refl, Hd, Hs in M. simpl in M. lia.
        - split; [|discriminate]. eapply move_other_key; eauto. apply Hwf. }
      destruct Hk as [MT Hheld].
      apply IH in R; auto.
      * destruct R as [Q Pr]. split.
        -- match goal with |- kquiet _ _ (?a :: ?b :: its2) => change (a :: b :: its2) with ([a; b] ++ its2) end.
           eapply kquiet_trans; [|exact Q].
           split; [apply wf_move; auto|]. split; [exact MT|]. split; [|reflexivity].
           constructor; [simpl; auto|]. constructor; [|constructor].
           simpl. intros Ev Es. subst v s. unfold hb in Hheld. apply Hheld. rewrite !N.eqb_refl. reflexivity.
        -- intros x Px. apply Pr. apply present_move. exact Px.
      * apply wf_move; auto.
      * unfold uk. rewrite MT. exact U.
      * intros s' Hs'. rewrite hb_move_src; [|exists nd; auto|auto]. rewrite Hh by (right; exact Hs').
        destruct (N.eqb_spec s s'); [subst; contradiction|reflexivity].
      * intros x Hx. apply present_move. auto.
    + destruct (within_shards c v avgn nracks ns src dests ss (over - 1) ch1)
        as [[[ns2 its2] ch2]|] eqn:R; [|discriminate]. inv H.
      apply IH in R; auto.
      * destruct R as [Q Pr]. split; auto.
        match goal with |- kquiet _ _ (?a :: its2) => change (a :: its2) with ([a] ++ its2) end.
        eapply kquiet_trans; [|exact Q].
        split; auto. split; auto. split; [constructor; [simpl; auto|constructor]|reflexivity].
      * intros s' Hs'. apply Hh. right. exact Hs'.
Qed.

Lemma within_sources_key : forall srcs c v avgn nracks ns dests ch ns' its ch',
  within_sources c v avgn nracks ns srcs dests ch = Some (ns', its, ch') ->
  wf ns -> uk ns -> (forall x, In x dests -> present ns x) ->
  kquiet ns ns' its /\ (forall x, present ns x -> present ns' x).
Proof.
  induction srcs as [|src srcs IH]; intros c v avgn nracks ns dests ch ns' its ch' H Hwf U Hp; simpl in H.
  - inv H. split; [apply kquiet_refl; auto|auto].
  - destruct (within_shards c v avgn nracks ns src dests (shard_ids (node_bits ns src v))
                (count (node_bits ns src v) - avgn) ch) as [[[ns1 i1] ch1]|] eqn:A; [|discriminate].
    destruct (within_sources c v avgn nracks ns1 srcs dests ch1) as [[[ns2 i2] ch2]|] eqn:B; [|discriminate].
    inv H.
    apply within_shards_key in A; auto.
    + destruct A as [Q Pr]. apply IH in B.
      * destruct B as [Q2 Pr2]. split; [eapply kquiet_trans; eauto|auto].
      * apply Q.
      * eapply kquiet_uk; eauto.
      * intros x Hx. apply Pr. apply Hp. exact Hx.
    + apply shard_ids_NoDup.
    + intros s Hs. unfold hb. apply shard_ids_has. exact Hs.
Qed.

Lemma within_racks_key : forall ros c v nracks rsc locs ns ns' its,
  within_racks c v nracks rsc locs ns ros = Some (ns', its) ->
  wf ns -> uk ns -> kquiet ns ns' its.
Proof.
  induction ros as [|ro ros IH]; intros c v nracks rsc locs ns ns' its H Hwf U; simpl in H.
  - inv H. apply kquiet_refl; auto.
  - match type of H with context [within_sources ?a ?b ?c0 ?d ?e ?f ?g ?h] =>
      destruct (within_sources a b c0 d e f g h) as [[[ns1 i1] ch1]|] eqn:A; [|discriminate] end.
    destruct ch1; [|discriminate].
    destruct (within_racks c v nracks rsc locs ns1 ros) as [[ns2 i2]|] eqn:B; [|discriminate]. inv H.
    apply within_sources_key in A; auto.
    + destruct A as [A _]. eapply kquiet_trans; [exact A|]. eapply IH; eauto.
      * apply A.
      * eapply kquiet_uk; eauto.
    + intros x Hx. apply filter_In in Hx. destruct Hx as [Hx _]. eapply rack_node_ids_get; eauto.
Qed.

Lemma within_vids_key : forall os c nracks ns ns' its,
  within_vids c nracks ns os = Some (ns', its) -> wf ns -> uk ns -> kquiet ns ns' its.
Proof.
  induction os as [|o os IH]; intros c nracks ns ns' its H Hwf U; simpl in H.
  - inv H. apply kquiet_refl; auto.
  - destruct (within_vid c nracks ns o) as [[ns1 i1]|] eqn:A; [|discriminate].
    destruct (within_vids c nracks ns1 os) as [[ns2 i2]|] eqn:B; [|discriminate]. inv H.
    unfold within_vid in A. destruct (perm_eqb _ _); [|discriminate].
    apply within_racks_key in A; auto.
    eapply kquiet_trans; [exact A|]. eapply IH; eauto.
    + apply A.
    + eapply kquiet_uk; eauto.
Qed.

(* ---------- balanceEcVolumes, EcBalance (dry run) ---------- *)
Lemma round_key : forall st o st' its,
  round false st o = Some (st', its) -> wf (nodes st) -> uk (nodes st) ->
  key_ok (nodes st) (nodes st') its.
Proof.
  intros st o st' its H Hwf U. unfold round in H.
  destruct (dedup_phase false st (ro_dedup o)) as [[st1 i1]|] eqn:A; [|discriminate].
  destruct (across_phase (ro_coll o) st1 (ro_across o)) as [[st2 i2]|] eqn:B; [|discriminate].
  destruct (within_phase (ro_coll o) st2 (ro_within o)) as [[st3 i3]|] eqn:C; [|discriminate]. inv H.
  apply dedup_phase_dry in A. destruct A as [A1 [A2 A3]]. subst st1.
  unfold across_phase in B. destruct (perm_eqb _ _); [|discriminate].
  pose proof (across_vids_key _ _ _ _ _ B Hwf U) as PB.
  unfold within_phase in C. destruct (perm_eqb _ _); [|discriminate].
  destruct (within_vids _ _ _ _) as [[ns3 its3]|] eqn:D; [|discriminate]. inv C. simpl.
  apply within_vids_key in D; [|eapply key_ok_wf; eauto|eapply key_ok_uk; eauto].
  match goal with |- key_ok _ _ (?a :: i1 ++ ?rest) => change (a :: i1 ++ rest) with ((a :: i1) ++ rest) end.
  eapply key_ok_trans with (b := nodes st).
  - split; auto. split; [lia|]. split; [intros; reflexivity|].
    constructor; [simpl; auto|apply moves_ok_kmoves; exact A3].
  - eapply key_ok_trans; [exact PB|apply kquiet_key; exact D].
Qed.

Lemma rounds_key : forall os st st' its,
  rounds false st os = Some (st', its) -> wf (nodes st) -> uk (nodes st) ->
  key_ok (nodes st) (nodes st') its.
Proof.
  induction os as [|o os IH]; intros st st' its H Hwf U; simpl in H.
  - inv H. apply key_ok_refl; auto.
  - destruct (round false st o) as [[st1 i1]|] eqn:A; [|discriminate].
    destruct (rounds false st1 os) as [[st2 i2]|] eqn:B; [|discriminate]. inv H.
    pose proof (round_key _ _ _ _ A Hwf U) as P1.
    eapply key_ok_trans; [exact P1|]. eapply IH; eauto.
    + eapply key_ok_wf; eauto.
    + eapply key_ok_uk; eauto.
Qed.

Lemma run_plan_key : forall st o st' its,
  run_plan false st o = Some (st', its) -> wf (nodes st) -> uk (nodes st) ->
  key_ok (nodes st) (nodes st') its.
Proof.
  intros st o st' its H Hwf U. unfold run_plan in H.
  destruct (rounds false st (po_rounds o)) as [[st1 i1]|] eqn:A; [|discriminate].
  pose proof (rounds_key _ _ _ _ A Hwf U) as P1.
  destruct (po_racks o) as [rbs|].
  - destruct (balance_racks st1 rbs) as [[st2 i2]|] eqn:B; [|discriminate]. inv H.
    eapply key_ok_trans; [exact P1|]. apply quiet_key. eapply balance_racks_ok; eauto. eapply key_ok_wf; eauto.
  - inv H. exact P1.
Qed.

End Key.

(* The per-key statement: whatever happens to other shards (duplicates in the snapshot, picks
   that are abandoned), a shard that is on at most one node in the snapshot
   - is never on more nodes afterwards,
   - is on exactly as many nodes afterwards unless the run abandoned a pick of THAT shard,
   - is never planned onto a node that already holds it. *)
Theorem plan_conserves_key : forall st o st' its,
  run_plan false st o = Some (st', its) -> wf (nodes st) ->
  forall v s, (total (nodes st) v s <= 1)%nat ->
    (total (nodes st') v s <= total (nodes st) v s)%nat /\
    (drops_key its v s = false -> total (nodes st') v s = total (nodes st) v s) /\
    (forall e m, In (IMove e m) its -> m_vid m = v -> m_shard m = s -> m_dst_held m = false).
Proof.
  intros st o st' its H Hwf v s U.
  destruct (run_plan_key v s _ _ _ _ H Hwf U) as [_ [A [B C]]].
  split; auto. split; auto. intros e m Hin.
  unfold kmoves_ok in C. rewrite Forall_forall in C. apply (C _ Hin).
Qed.
