(* Proofs about model/FilerNS.v (C18): insertion, CreateEntry, UpdateEntry. *)
From Coq Require Import List NArith Bool String Arith Lia Permutation.
From SW Require Import model.FilerNS proof.FilerNSBase.
Import ListNotations.
Local Open Scope list_scope.

(* ================= inserting / removing while keeping the tree shape ================= *)
Lemma snoc_neq_self : forall (d : path) n, d ++ [n] <> d.
Proof.
  intros d n H. assert (L : List.length (d ++ [n]) = List.length d) by congruence.
  rewrite app_length in L. simpl in L. lia.
Qed.

Lemma tree_ok_insert : forall s p e, tree_ok s ->
  (forall d n, p = d ++ [n] -> d = [] \/ exists de, find s d = Some de /\ e_dir de = true) ->
  (e_dir e = true \/ forall m, find s (p ++ [m]) = None) ->
  tree_ok (insert s p e).
Proof.
  intros s p e Hs Hpar Hch d0 n0 e0 Hf. rewrite find_insert in Hf.
  destruct (path_eqb_spec p (d0 ++ [n0])) as [Heq|Hne].
  - destruct (Hpar _ _ Heq) as [|[de [H1 H2]]]; auto. right. exists de. split; auto.
    rewrite find_insert_other; auto. subst p. apply snoc_neq_self.
  - destruct (Hs _ _ _ Hf) as [|[de [H1 H2]]]; auto. right.
    rewrite find_insert. destruct (path_eqb_spec p d0) as [Hpd|Hpd].
    + subst d0. exists e. split; auto. destruct Hch as [|Hch]; auto. rewrite Hch in Hf. discriminate.
    + eauto.
Qed.

(* replacing an entry by one of the same type *)
Lemma tree_ok_replace : forall s p old e, tree_ok s -> p <> [] ->
  find s p = Some old -> e_dir e = e_dir old -> tree_ok (insert s p e).
Proof.
  intros s p old e Hs Hp Hf Ht. apply tree_ok_insert; auto.
  - intros d n Hdn. subst p. eapply Hs; eauto.
  - destruct (e_dir e) eqn:E; auto. right. intro m.
    eapply wf_file_below; eauto; congruence.
Qed.

(* removing a set of paths: every kept entry keeps its parent *)
Lemma tree_ok_filter : forall (f : path -> bool) s, tree_ok s ->
  (forall d n e, find s (d ++ [n]) = Some e -> f (d ++ [n]) = true -> d = [] \/ f d = true) ->
  tree_ok (filter (fun kv => f (fst kv)) s).
Proof.
  intros f s Hs Hf d n e H. rewrite find_filter_key in H.
  destruct (f (d ++ [n])) eqn:E; [|discriminate].
  destruct (Hs _ _ _ H) as [|[de [H1 H2]]]; auto.
  destruct (Hf _ _ _ H E) as [|Hfd]; auto.
  right. exists de. rewrite find_filter_key, Hfd. auto.
Qed.

(* ================= CreateEntry ================= *)
Lemma find_entry_nonroot : forall s p, p <> [] -> find_entry s p = find s p.
Proof. intros s p H. destruct p; [congruence|reflexivity]. Qed.

Definition nonroot (q : path) : bool := match q with [] => false | _ => true end.

Lemma is_prefix_snoc : forall q p n,
  is_prefix q (p ++ [n]) = is_prefix q p || path_eqb q (p ++ [n]).
Proof.
  intros q p n. destruct (is_prefix q (p ++ [n])) eqn:E.
  - apply is_prefix_true in E. destruct E as [r Hr]. symmetry. apply orb_true_iff.
    destruct (path_cases r) as [->|[r' [m ->]]].
    + right. rewrite app_nil_r in Hr. subst. apply path_eqb_refl.
    + left. rewrite app_assoc in Hr. apply app_inj_tail in Hr. destruct Hr as [Hr _].
      apply is_prefix_true. eauto.
  - symmetry. apply orb_false_iff. split.
    + apply is_prefix_false. intros r Hr. rewrite is_prefix_false in E.
      apply (E (r ++ [n])). rewrite app_assoc. congruence.
    + destruct (path_eqb_spec q (p ++ [n])); auto. subst. rewrite is_prefix_refl in E. discriminate.
Qed.

Lemma is_prefix_longer : forall (p : path) n, is_prefix (p ++ [n]) p = false.
Proof.
  intros p n. apply is_prefix_false. intros r H.
  assert (L : List.length p = List.length ((p ++ [n]) ++ r)) by congruence.
  rewrite !app_length in L. simpl in L. lia.
Qed.

(* what ensureParentDirecotryEntry does to a well-formed namespace *)
Lemma ensure_dir_spec : forall rd s tmpl s1 r, wf s -> ensure_dir s rd tmpl = (s1, r) ->
  (r = OK /\ wf s1 /\
   (forall q, find s1 q = match find s q with
                         | Some x => Some x
                         | None => if nonroot q && is_prefix q (rev rd) then Some (implicit_dir tmpl) else None
                         end) /\
   (forall a f, nonroot a = true -> is_prefix a (rev rd) = true -> find s a = Some f -> e_dir f = true))
  \/
  (r = ENotDir /\ s1 = s /\
   exists a f, nonroot a = true /\ is_prefix a (rev rd) = true /\ find s a = Some f /\ e_dir f = false).
Proof.
  induction rd as [|n rd IH]; intros s tmpl s1 r Hwf H.
  - simpl in H. inversion H; subst. left. repeat split; auto; try apply Hwf.
    + intro q. destruct (find s1 q); auto. destruct q; simpl; auto.
    + intros a f Ha Hp. apply is_prefix_true in Hp. destruct Hp as [r Hr].
      symmetry in Hr. apply app_eq_nil in Hr. destruct Hr; subst. discriminate.
  - simpl in H. assert (Hne : rev rd ++ [n] <> []) by (intro E; apply app_eq_nil in E; destruct E; discriminate).
    rewrite find_entry_nonroot in H by assumption.
    destruct (find s (rev rd ++ [n])) as [d|] eqn:Ef.
    + destruct (e_dir d) eqn:Ed; inversion H; subst.
      * left. repeat split; auto; try apply Hwf.
        -- intro q. destruct (find s1 q) eqn:Eq; auto.
           destruct (nonroot q) eqn:Nq; auto. simpl.
           destruct (is_prefix q (rev rd ++ [n])) eqn:Pq; auto.
           apply is_prefix_true in Pq. destruct Pq as [t Ht]. simpl in Ht.
           rewrite Ht in Ef. rewrite (wf_absent_below s1 (proj2 Hwf) q t) in Ef; [discriminate| |auto].
           destruct q; [discriminate|congruence].
        -- intros a f Ha Hp Hf. simpl in Hp. apply is_prefix_true in Hp. destruct Hp as [t Ht].
           destruct t as [|m t].
           ++ rewrite app_nil_r in Ht. congruence.
           ++ destruct (e_dir f) eqn:Edf; auto.
              rewrite Ht in Ef. rewrite (wf_file_below s1 (proj2 Hwf) a (m :: t) f) in Ef; try discriminate; auto.
              destruct a; [discriminate|congruence].
      * right. repeat split; auto. exists (rev rd ++ [n]), d. simpl. repeat split; auto.
        -- destruct (rev rd ++ [n]); [congruence|reflexivity].
        -- apply is_prefix_refl.
    + destruct (ensure_dir s rd tmpl) as [s1' r'] eqn:Er.
      destruct (IH s tmpl s1' r' Hwf Er) as [[Hr [Hwf1 [Hfind Hnof]]]|[Hr [Hs1 [a [f [Ha [Hp [Hf Hd]]]]]]]].
      * subst r'. simpl in H. inversion H; subst. clear H.
        assert (Habs : find s1' (rev rd ++ [n]) = None).
        { rewrite Hfind, Ef. rewrite is_prefix_longer. rewrite andb_false_r. reflexivity. }
        left. split; [reflexivity|]. split; [|split].
        -- split; [apply insert_NoDup, Hwf1|]. apply tree_ok_insert; [apply Hwf1| |].
           ++ intros d0 n0 E. apply app_inj_tail in E. destruct E as [E _]. subst d0.
              destruct (nonroot (rev rd)) eqn:Nr; [|destruct (rev rd); [auto|discriminate]].
              right. rewrite Hfind. destruct (find s (rev rd)) as [x0|] eqn:E0.
              ** exists x0. split; auto. eapply Hnof; eauto. apply is_prefix_refl.
              ** rewrite Nr, is_prefix_refl. simpl. eauto.
           ++ left. reflexivity.
        -- intro q. rewrite find_insert. simpl. destruct (path_eqb_spec (rev rd ++ [n]) q) as [Hq|Hq].
           ++ subst q. rewrite Ef, is_prefix_refl.
              destruct (rev rd ++ [n]); [congruence|reflexivity].
           ++ rewrite Hfind. destruct (find s q); auto. rewrite is_prefix_snoc.
              destruct (path_eqb_spec q (rev rd ++ [n])); [congruence|]. now rewrite orb_false_r.
        -- intros a f Ha Hp Hf. simpl in Hp. rewrite is_prefix_snoc in Hp. apply orb_true_iff in Hp.
           destruct Hp as [Hp|Hp]; [eapply Hnof; eauto|].
           destruct (path_eqb_spec a (rev rd ++ [n])); [congruence|discriminate].
      * subst. simpl in H. inversion H; subst. right. repeat split; auto.
        exists a, f. repeat split; auto. simpl. rewrite is_prefix_snoc, Hp. reflexivity.
Qed.

Lemma nonroot_rev_cons : forall (n : name) rd, nonroot (rev (n :: rd)) = true.
Proof. intros. simpl. destruct (rev rd); reflexivity. Qed.

Lemma ensure_dir_parent : forall rd s tmpl s1, wf s -> ensure_dir s rd tmpl = (s1, OK) ->
  rd <> [] -> exists de, find s1 (rev rd) = Some de /\ e_dir de = true.
Proof.
  intros rd s tmpl s1 Hwf H Hrd.
  destruct (ensure_dir_spec _ _ _ _ _ Hwf H) as [[_ [_ [Hfind Hnof]]]|[Hr _]]; [|discriminate].
  assert (Nr : nonroot (rev rd) = true) by (destruct rd; [congruence|apply nonroot_rev_cons]).
  rewrite Hfind. destruct (find s (rev rd)) as [x|] eqn:E.
  - exists x. split; auto. eapply Hnof; eauto. apply is_prefix_refl.
  - rewrite Nr, is_prefix_refl. simpl. eauto.
Qed.

(* ----- the proper non-root ancestors ----- *)
Lemma ancestors_from_spec : forall p acc q,
  In q (ancestors_from acc p) <-> exists t r, t <> [] /\ r <> [] /\ p = t ++ r /\ q = acc ++ t.
Proof.
  induction p as [|n p IH]; intros acc q.
  - simpl. split; [tauto|]. intros [t [r [Ht [_ [H _]]]]]. destruct t; [congruence|discriminate].
  - destruct p as [|m p'].
    + simpl. split; [tauto|]. intros [t [r [Ht [Hr [H _]]]]].
      destruct t as [|a t]; [congruence|]. simpl in H. injection H as _ H.
      destruct t; destruct r; simpl in H; try congruence; discriminate.
    + change (ancestors_from acc (n :: m :: p')) with ((acc ++ [n]) :: ancestors_from (acc ++ [n]) (m :: p')).
      split.
      * intros [H|H].
        -- exists [n], (m :: p'). repeat split; auto; discriminate.
        -- apply IH in H. destruct H as [t [r [Ht [Hr [Hp Hq]]]]].
           exists (n :: t), r. repeat split; auto; try discriminate.
           ++ simpl. congruence.
           ++ rewrite Hq, <- app_assoc. reflexivity.
      * intros [t [r [Ht [Hr [Hp Hq]]]]]. destruct t as [|a t]; [congruence|].
        simpl in Hp. injection Hp as Ha Hp. subst a.
        destruct t as [|b t].
        -- left. subst q. reflexivity.
        -- right. apply IH. exists (b :: t), r. repeat split; auto; try discriminate.
           subst q. rewrite <- app_assoc. reflexivity.
Qed.

Lemma ancestors_mem : forall d n q,
  existsb (path_eqb q) (ancestors (d ++ [n])) = nonroot q && is_prefix q d.
Proof.
  intros d n q. apply eq_true_iff_eq. rewrite existsb_exists, andb_true_iff, is_prefix_true. split.
  - intros [x [Hin Hx]]. destruct (path_eqb_spec q x); [subst x|discriminate].
    apply ancestors_from_spec in Hin. destruct Hin as [t [r [Ht [Hr [Hp Hq]]]]]. simpl in Hq. subst q.
    split; [destruct t; [congruence|reflexivity]|].
    destruct (path_cases r) as [->|[r' [m ->]]]; [congruence|].
    rewrite app_assoc in Hp. apply app_inj_tail in Hp. destruct Hp as [Hp _]. eauto.
  - intros [Hq [r Hr]]. exists q. split; [|apply path_eqb_refl].
    apply ancestors_from_spec. exists q, (r ++ [n]). repeat split.
    + destruct q; [discriminate|congruence].
    + destruct r; discriminate.
    + subst d. now rewrite app_assoc.
Qed.

Lemma has_file_ancestor_spec : forall s d n,
  has_file_ancestor s (d ++ [n]) = true <->
  exists a f, nonroot a = true /\ is_prefix a d = true /\ find s a = Some f /\ e_dir f = false.
Proof.
  intros s d n. unfold has_file_ancestor. rewrite existsb_exists. split.
  - intros [a [Hin H]]. destruct (find s a) as [f|] eqn:E; [|discriminate].
    assert (M : existsb (path_eqb a) (ancestors (d ++ [n])) = true)
      by (apply existsb_exists; exists a; split; auto; apply path_eqb_refl).
    rewrite ancestors_mem in M. apply andb_true_iff in M. destruct M.
    exists a, f. repeat split; auto. now apply negb_true_iff.
  - intros [a [f [Ha [Hp [Hf Hd]]]]]. exists a. rewrite Hf, Hd. split; auto.
    assert (M : existsb (path_eqb a) (ancestors (d ++ [n])) = true) by (rewrite ancestors_mem, Ha, Hp; reflexivity).
    apply existsb_exists in M. destruct M as [x [Hin Hx]].
    destruct (path_eqb_spec a x); [subst; auto|discriminate].
Qed.

Lemma same_type : forall a b : bool, a && negb b = false -> negb a && b = false -> b = a.
Proof. destruct a, b; simpl; congruence. Qed.

(* ----- CreateEntry on a well-formed namespace ----- *)
Lemma create_entry_spec : forall s p e x s1 r, wf s -> p <> [] -> create_entry s p e x = (s1, r) ->
  wf s1 /\
  match find s p with
  | Some old =>
      if x then r = EExist /\ s1 = s
      else if e_dir old && negb (e_dir e) then r = EIsDir /\ s1 = s
      else if negb (e_dir old) && e_dir e then r = EIsFile /\ s1 = s
      else r = OK /\ s1 = insert s p e
  | None =>
      (r = ENotDir /\ s1 = s /\ has_file_ancestor s p = true) \/
      (r = OK /\ has_file_ancestor s p = false /\
       forall q, find s1 q =
         if path_eqb p q then Some e
         else match find s q with
              | Some y => Some y
              | None => if existsb (path_eqb q) (ancestors p) then Some (implicit_dir e) else None
              end)
  end.
Proof.
  intros s p e x s1 r Hwf Hp H. unfold create_entry in H.
  destruct p as [|a0 p0] eqn:Ep; [congruence|]. rewrite <- Ep in *. clear Ep a0 p0.
  rewrite find_entry_nonroot in H by assumption.
  destruct (find s p) as [old|] eqn:Ef.
  - destruct x; [inversion H; subst; auto|].
    unfold update_entry_raw in H.
    destruct (e_dir old && negb (e_dir e)) eqn:E1; [inversion H; subst; auto|].
    destruct (negb (e_dir old) && e_dir e) eqn:E2; [inversion H; subst; auto|].
    inversion H; subst. split; auto. split; [apply insert_NoDup, Hwf|].
    eapply tree_ok_replace; eauto; [apply Hwf|]. apply same_type; auto.
  - destruct (path_cases p) as [|[d [n Hdn]]]; [congruence|]. subst p.
    rewrite parent_child in H.
    destruct (ensure_dir s (rev d) e) as [s1' r'] eqn:Ee.
    destruct (ensure_dir_spec _ _ _ _ _ Hwf Ee) as [[Hr [Hwf1 [Hfind Hnof]]]|[Hr [Hs1 [a [f [Ha [Hpa [Hf Hd]]]]]]]].
    + subst r'. simpl in H. inversion H; subst. clear H. rewrite rev_involutive in *.
      assert (Habs : find s1' (d ++ [n]) = None).
      { rewrite Hfind, Ef, is_prefix_longer, andb_false_r. reflexivity. }
      split.
      * split; [apply insert_NoDup, Hwf1|]. apply tree_ok_insert; [apply Hwf1| |].
        -- intros d0 n0 E. apply app_inj_tail in E. destruct E as [E _]. subst d0.
           destruct d as [|a d]; auto. right.
           assert (Hrd : rev (a :: d) <> []) by (simpl; intro E; apply app_eq_nil in E; destruct E; discriminate).
           destruct (ensure_dir_parent _ _ _ _ Hwf Ee Hrd) as [de Hde]. rewrite rev_involutive in Hde. eauto.
        -- right. intro m. apply (wf_absent_below s1' (proj2 Hwf1)); auto;
             try (intro E; apply app_eq_nil in E; destruct E; discriminate).
      * right. split; auto. split.
        -- destruct (has_file_ancestor s (d ++ [n])) eqn:Eh; auto.
           apply has_file_ancestor_spec in Eh. destruct Eh as [a [f [Ha [Hpa [Hf Hd]]]]].
           rewrite (Hnof a f Ha Hpa Hf) in Hd. discriminate.
        -- intro q. rewrite find_insert. destruct (path_eqb (d ++ [n]) q); auto.
           rewrite Hfind, ancestors_mem. reflexivity.
    + subst. simpl in H. inversion H; subst. split; auto. left. repeat split; auto.
      rewrite rev_involutive in Hpa. apply has_file_ancestor_spec. eauto 6.
Qed.

Lemma create_entry_wf : forall s p e x, wf s -> wf (fst (create_entry s p e x)).
Proof.
  intros s p e x Hwf. destruct (path_eqb_spec p []) as [->|Hp]; [assumption|].
  destruct (create_entry s p e x) as [s1 r] eqn:E.
  apply create_entry_spec in E; auto. apply E.
Qed.

(* ----- the reference create ----- *)
Lemma add_missing_find : forall tmpl l s q,
  find (fold_left (fun s0 a => match find s0 a with Some _ => s0 | None => insert s0 a (implicit_dir tmpl) end) l s) q =
  match find s q with
  | Some x => Some x
  | None => if existsb (path_eqb q) l then Some (implicit_dir tmpl) else None
  end.
Proof.
  intros tmpl l. induction l as [|a l IH]; intros s q; simpl.
  - destruct (find s q); reflexivity.
  - rewrite IH. destruct (find s a) as [y|] eqn:Ea.
    + destruct (find s q) eqn:Eq; auto.
      destruct (path_eqb_spec q a); [congruence|reflexivity].
    + rewrite find_insert. rewrite (path_eqb_sym q a).
      destruct (path_eqb_spec a q); [subst; now rewrite Ea|].
      destruct (find s q); reflexivity.
Qed.

Lemma find_add_missing_ancestors : forall s p tmpl q,
  find (add_missing_ancestors s p tmpl) q =
  match find s q with
  | Some x => Some x
  | None => if existsb (path_eqb q) (ancestors p) then Some (implicit_dir tmpl) else None
  end.
Proof. intros. unfold add_missing_ancestors. apply add_missing_find. Qed.

Theorem create_entry_ref : forall s p e x, wf s ->
  snd (create_entry s p e x) = snd (ref_create s p e x) /\
  equiv (fst (create_entry s p e x)) (fst (ref_create s p e x)).
Proof.
  intros s p e x Hwf. destruct (path_eqb_spec p []) as [->|Hp]; [split; [reflexivity|apply equiv_refl]|].
  destruct (create_entry s p e x) as [s1 r] eqn:E.
  apply create_entry_spec in E; auto. destruct E as [_ E].
  unfold ref_create. destruct p as [|a' p'] eqn:Ep; [congruence|]. rewrite <- Ep in *.
  destruct (find s p) as [old|] eqn:Ef.
  - destruct x; [destruct E; subst; split; [reflexivity|apply equiv_refl]|].
    destruct (e_dir old && negb (e_dir e)); [destruct E; subst; split; [reflexivity|apply equiv_refl]|].
    destruct (negb (e_dir old) && e_dir e); destruct E; subst; split; try reflexivity; apply equiv_refl.
  - destruct E as [[Hr [Hs Hh]]|[Hr [Hh Hfind]]]; rewrite Hh; subst; simpl.
    + split; [reflexivity|apply equiv_refl].
    + split; [reflexivity|]. intro q. rewrite Hfind, find_insert, find_add_missing_ancestors. reflexivity.
Qed.

(* ================= UpdateEntry ================= *)
Lemma update_entry_is_ref : forall s p e, update_entry s p e = ref_update s p e.
Proof.
  intros. unfold update_entry, ref_update, update_entry_raw, update.
  destruct (find_entry s p); reflexivity.
Qed.

Lemma update_entry_wf : forall s p e, wf s -> wf (fst (update_entry s p e)).
Proof.
  intros s p e Hwf. unfold update_entry.
  destruct (find_entry s p) as [o|] eqn:Ef; [|assumption].
  unfold update_entry_raw.
  destruct (e_dir o && negb (e_dir e)) eqn:E1; [assumption|].
  destruct (negb (e_dir o) && e_dir e) eqn:E2; [assumption|].
  simpl. unfold update. split; [apply insert_NoDup, Hwf|].
  assert (Ht : e_dir e = e_dir o) by (apply same_type; auto).
  destruct (path_eqb_spec p []) as [->|Hp].
  - simpl in Ef. inversion Ef; subst o. simpl in Ht.
    apply tree_ok_insert; [apply Hwf| |auto].
    intros d n E. destruct d; discriminate.
  - rewrite find_entry_nonroot in Ef by assumption.
    eapply tree_ok_replace; eauto. apply Hwf.
Qed.
