(* C30: reads issued while the saves started by a Write are still in flight (model/DirtyPages.v, XRun).
   - an extended history that meets no trigger (in particular: no WriteRead whose Write started a save)
     is observationally the flattened history Write; Read, so every theorem about plain histories applies;
   - the full statement is refuted for the in-memory buffer (finding 2);
   - the temp-file buffer never starts a save inside Write: trigger 2 cannot fire there. *)
From Coq Require Import List ZArith NArith Bool Lia.
From SW Require Import model.DirtyPages proof.DirtyPagesBase proof.DirtyPagesIntervals proof.DirtyPagesState
                       proof.DirtyPagesMem proof.DirtyPagesTemp proof.DirtyPagesRead.
Import ListNotations.
Local Open Scope Z_scope.

Lemma with_chunks_same : forall m cs, cs = f_chunks m -> with_chunks m cs = m.
Proof. intros [a c p] cs H. cbn in H. subst. reflexivity. Qed.

Lemma bytes_eqb_refl : forall l : list N, forallb (fun p => N.eqb (fst p) (snd p)) (combine l l) = true.
Proof. induction l as [|x l IH]; cbn; auto. rewrite N.eqb_refl. auto. Qed.

Lemma chunks_eqb_refl : forall cs, chunks_eqb cs cs = true.
Proof.
  induction cs as [|c cs IH]; cbn; auto. rewrite IH. unfold chunk_eqb.
  rewrite !Z.eqb_refl, bytes_eqb_refl. reflexivity.
Qed.

Lemma trig_at_write : forall ends m off data, trig_at ends m (Write off data) = None.
Proof. reflexivity. Qed.

Lemma trig_at_not_2 : forall ends m o, trig_at ends m o <> Some 2%N.
Proof.
  intros ends m o. destruct o; cbn; try discriminate.
  - destruct (n <? file_size (f_attr m) (f_chunks m)); [|discriminate].
    destruct (existsb (fun e => n <? e) ends); discriminate.
  - destruct (f_pin m) as [[cs fsz]|]; [|discriminate].
    destruct (chunks_eqb cs (live_chunks (f_chunks m)) && (fsz =? file_size (f_attr m) (f_chunks m))); discriminate.
Qed.

Lemma trigger_app_intro : forall {S} step ends_of meta_of a b (s : S),
  trigger S step ends_of meta_of s a = None ->
  trigger S step ends_of meta_of (exec S step s a) b = None ->
  trigger S step ends_of meta_of s (a ++ b) = None.
Proof.
  intros S step ends_of meta_of a. induction a as [|o a IH]; intros b s H1 H2; simpl in *; auto.
  destruct (trig_at (ends_of s) (meta_of s) o); [discriminate|]. apply IH; auto.
Qed.

Section XRefine.
  Variable S : Type.
  Variable step : S -> op -> S * obs.
  Variable meta_of : S -> fmeta.
  Variable set_meta : S -> fmeta -> S.
  Variable ends_of : S -> list Z.
  Hypothesis set_get : forall s, set_meta s (meta_of s) = s.
  Hypothesis read_step : forall s off len,
    fst (step s (Read off len)) =
    set_meta s (with_pin (meta_of s) (f_pin (meta_of (fst (step s (Read off len)))))).

  Notation xstep' := (xstep S step meta_of set_meta).
  Notation xtrigger' := (xtrigger S step meta_of set_meta ends_of).

  (* a WriteRead whose Write starts no save is Write followed by Read *)
  Lemma xstep_quiet : forall s off data roff rlen,
    inflight S meta_of s (fst (step s (Write off data))) = false ->
    xstep' s (WriteRead off data roff rlen) =
    (fst (step (fst (step s (Write off data))) (Read roff rlen)),
     XWriteRead (snd (step s (Write off data))) (snd (step (fst (step s (Write off data))) (Read roff rlen)))
                (f_attr (meta_of (fst (step s (Write off data)))))).
  Proof.
    intros s off data roff rlen H. unfold xstep.
    destruct (step s (Write off data)) as [s1 ow] eqn:E1. cbn [fst snd] in *.
    unfold inflight in H. apply negb_false_iff in H. apply chunks_eqb_eq in H.
    unfold inflight_view. rewrite (with_chunks_same (meta_of s1) _ H), set_get.
    pose proof (read_step s1 roff rlen) as R.
    destruct (step s1 (Read roff rlen)) as [s2 ord] eqn:E2. cbn [fst snd] in *.
    rewrite <- R. reflexivity.
  Qed.

  Lemma xtrigger_app : forall a b s, xtrigger' s (a ++ b) = None ->
    xtrigger' s a = None /\ xtrigger' (exec_x S xstep' s a) b = None.
  Proof.
    induction a as [|xo a IH]; intros b s H; [simpl in *; auto|].
    rewrite <- app_comm_cons in H. cbn [xtrigger exec_x] in *. destruct xo as [o|off data roff rlen|].
    - destruct (trig_at (ends_of s) (meta_of s) o); [discriminate|]. apply IH; auto.
    - destruct (inflight S meta_of s (fst (step s (Write off data)))); [discriminate|].
      destruct (trig_at (ends_of (fst (step s (Write off data)))) (meta_of (fst (step s (Write off data)))) (Read roff rlen));
        [discriminate|].
      apply IH; auto.
    - apply IH; auto.
  Qed.

  Theorem x_refines : forall xs s, xtrigger' s xs = None ->
    trigger S step ends_of meta_of s (xflat xs) = None /\
    xobs_flat (run_x S xstep' s xs) = run S step s (xflat xs) /\
    exec_x S xstep' s xs = exec S step s (xflat xs).
  Proof.
    induction xs as [|xo xs IH]; intros s H; [simpl; auto|].
    cbn [xtrigger] in H. destruct xo as [o|off data roff rlen|].
    - destruct (trig_at (ends_of s) (meta_of s) o) eqn:Et; [discriminate|].
      cbn [xflat flat_map xflat1 app trigger run exec run_x exec_x]. rewrite Et.
      change (flat_map xflat1 xs) with (xflat xs).
      assert (Hs : fst (xstep' s (XOp o)) = fst (step s o)).
      { unfold xstep. destruct (step s o); reflexivity. }
      rewrite Hs in *. destruct (IH _ H) as [I1 [I2 I3]].
      split; [exact I1|]. split; [|exact I3].
      unfold xstep at 1. destruct (step s o) as [s' ob] eqn:E. cbn [fst] in *.
      cbn [xobs_flat flat_map xobs_flat1 app]. f_equal. exact I2.
    - destruct (inflight S meta_of s (fst (step s (Write off data)))) eqn:Ei; [discriminate|].
      destruct (trig_at (ends_of (fst (step s (Write off data)))) (meta_of (fst (step s (Write off data)))) (Read roff rlen)) eqn:Et;
        [discriminate|].
      pose proof (xstep_quiet s off data roff rlen Ei) as Q.
      cbn [xflat flat_map xflat1 app trigger run exec run_x exec_x]. rewrite trig_at_write, Et.
      change (flat_map xflat1 xs) with (xflat xs).
      rewrite Q in *. cbn [fst snd] in *.
      destruct (IH _ H) as [I1 [I2 I3]].
      split; [exact I1|]. split; [|exact I3].
      destruct (step s (Write off data)) as [s1 ow]. cbn [fst snd] in *.
      destruct (step s1 (Read roff rlen)) as [s2 ord]. cbn [fst snd] in *.
      cbn [xobs_flat flat_map xobs_flat1 app]. f_equal. f_equal. exact I2.
    - cbn [xflat flat_map xflat1 app trigger run exec run_x exec_x trig_at].
      change (flat_map xflat1 xs) with (xflat xs).
      assert (Hs : fst (xstep' s FlushClose) = fst (step s Flush)).
      { unfold xstep. destruct (step s Flush); reflexivity. }
      rewrite Hs in *. destruct (IH _ H) as [I1 [I2 I3]].
      split; [exact I1|]. split; [|exact I3].
      unfold xstep at 1. destruct (step s Flush) as [s' ob] eqn:E. cbn [fst] in *.
      cbn [xobs_flat flat_map xobs_flat1 app]. f_equal. exact I2.
  Qed.

  (* when Write never starts a save, trigger 2 never fires *)
  Lemma xtrigger_never_2 : (forall s off data, inflight S meta_of s (fst (step s (Write off data))) = false) ->
    forall xs s, xtrigger' s xs <> Some 2%N.
  Proof.
    intros Hq. induction xs as [|xo xs IH]; intros s; cbn [xtrigger]; [discriminate|].
    destruct xo as [o|off data roff rlen|].
    - destruct (trig_at (ends_of s) (meta_of s) o) eqn:Et; [|apply IH].
      rewrite <- Et. apply trig_at_not_2.
    - rewrite Hq.
      destruct (trig_at (ends_of (fst (step s (Write off data)))) (meta_of (fst (step s (Write off data)))) (Read roff rlen)) eqn:Et;
        [|apply IH].
      rewrite <- Et. apply trig_at_not_2.
    - apply IH.
  Qed.
End XRefine.

(* ---------- the two instances ---------- *)
Lemma m_set_get : forall s, m_set_meta s (m_meta s) = s.
Proof. intros [iv m]. reflexivity. Qed.
Lemma t_set_get : forall s, t_set_meta s (t_meta s) = s.
Proof. intros [iv tf m]. reflexivity. Qed.

Lemma handle_read_meta : forall m dirty off len,
  snd (handle_read m dirty off len) = with_pin m (f_pin (snd (handle_read m dirty off len))).
Proof.
  intros m dirty off len. unfold handle_read.
  destruct (read_chunks m off len) as [[buf total] pin].
  destruct (dirty buf off) as [buf' ms]. reflexivity.
Qed.

Lemma m_read_step : forall limit s off len,
  fst (m_step limit s (Read off len)) =
  m_set_meta s (with_pin (m_meta s) (f_pin (m_meta (fst (m_step limit s (Read off len)))))).
Proof.
  intros limit s off len. cbn [m_step].
  destruct (m_dirty_read s (repeat 0%N (Z.to_nat len)) off) as [d ms].
  pose proof (handle_read_meta (m_meta s) (m_dirty_read s) off len) as H.
  destruct (handle_read (m_meta s) (m_dirty_read s) off len) as [data m']. cbn [fst snd m_meta] in *.
  unfold m_set_meta. rewrite <- H. reflexivity.
Qed.

Lemma t_read_step : forall limit s off len,
  fst (t_step limit s (Read off len)) =
  t_set_meta s (with_pin (t_meta s) (f_pin (t_meta (fst (t_step limit s (Read off len)))))).
Proof.
  intros limit s off len. cbn [t_step].
  destruct (t_dirty_read s (repeat 0%N (Z.to_nat len)) off) as [d ms].
  pose proof (handle_read_meta (t_meta s) (t_dirty_read s) off len) as H.
  destruct (handle_read (t_meta s) (t_dirty_read s) off len) as [data m']. cbn [fst snd t_meta] in *.
  unfold t_set_meta. rewrite <- H. reflexivity.
Qed.

Definition m_ends_of (s : mstate) : list Z := map (tail_end (list N)) (m_iv s).
Definition t_ends_of (s : tstate) : list Z := map (tail_end Z) (t_iv s).

(* PARTIAL (refinement): an extended history meeting no trigger is the flattened plain history *)
Theorem m_x_refines : forall limit xs, m_xtrigger limit xs = None ->
  m_trigger limit (xflat xs) = None /\ xobs_flat (m_xrun limit xs) = m_run limit (xflat xs).
Proof.
  intros limit xs H.
  destruct (x_refines mstate (m_step limit) m_meta m_set_meta m_ends_of m_set_get (m_read_step limit) xs mstate0 H)
    as [H1 [H2 _]]. split; assumption.
Qed.

Theorem t_x_refines : forall limit xs, t_xtrigger limit xs = None ->
  t_trigger limit (xflat xs) = None /\ xobs_flat (t_xrun limit xs) = t_run limit (xflat xs).
Proof.
  intros limit xs H.
  destruct (x_refines tstate (t_step limit) t_meta t_set_meta t_ends_of t_set_get (t_read_step limit) xs tstate0 H)
    as [H1 [H2 _]]. split; assumption.
Qed.

Lemma xflat_app : forall a b, xflat (a ++ b) = xflat a ++ xflat b.
Proof. intros. unfold xflat. apply flat_map_app. Qed.

(* PARTIAL: on a trigger-free extended history the Read of every WriteRead returns the POSIX bytes *)
Theorem m_inflight_read_posix : forall limit xpre off data roff rlen xpost,
  Forall op_ok (xflat (xpre ++ WriteRead off data roff rlen :: xpost)) -> 0 <= roff -> 0 < rlen ->
  m_xtrigger limit (xpre ++ WriteRead off data roff rlen :: xpost) = None ->
  exists ow d ms a,
    snd (m_xstep limit (exec_x mstate (m_xstep limit) mstate0 xpre) (WriteRead off data roff rlen)) =
    XWriteRead ow (ORead d ms (pread (pfile (xflat xpre ++ [Write off data])) roff rlen)) a.
Proof.
  intros limit xpre off data roff rlen xpost Hok Hoff Hlen Htr.
  unfold m_xtrigger in Htr.
  change (xpre ++ WriteRead off data roff rlen :: xpost) with (xpre ++ [WriteRead off data roff rlen] ++ xpost) in *.
  rewrite app_assoc in Htr, Hok.
  apply (xtrigger_app mstate (m_step limit) m_meta m_set_meta m_ends_of) in Htr. destruct Htr as [Htr _].
  rewrite xflat_app in Hok. apply Forall_app in Hok. destruct Hok as [Hok _].
  destruct (x_refines mstate (m_step limit) m_meta m_set_meta m_ends_of m_set_get (m_read_step limit) _ mstate0 Htr)
    as [T1 _].
  apply (xtrigger_app mstate (m_step limit) m_meta m_set_meta m_ends_of) in Htr. destruct Htr as [Hpre Hwr].
  destruct (x_refines mstate (m_step limit) m_meta m_set_meta m_ends_of m_set_get (m_read_step limit) _ mstate0 Hpre)
    as [_ [_ E]].
  unfold m_xstep. rewrite E in Hwr |- *.
  cbn [xtrigger] in Hwr.
  set (s := exec mstate (m_step limit) mstate0 (xflat xpre)) in *.
  destruct (inflight mstate m_meta s (fst (m_step limit s (Write off data)))) eqn:Ei; [discriminate|].
  rewrite (xstep_quiet mstate (m_step limit) m_meta m_set_meta m_set_get (m_read_step limit) s off data roff rlen Ei).
  cbn [snd].
  rewrite xflat_app in T1, Hok. cbn [xflat flat_map xflat1 app] in T1, Hok.
  change (xflat xpre ++ [Write off data; Read roff rlen]) with (xflat xpre ++ [Write off data] ++ [Read roff rlen]) in T1, Hok.
  rewrite app_assoc in T1, Hok.
  destruct (m_read_is_posix_history limit (xflat xpre ++ [Write off data]) roff rlen [] Hok Hoff Hlen T1) as [d [ms Hr]].
  rewrite exec_app in Hr. fold s in Hr. cbn [exec] in Hr.
  exists (snd (m_step limit s (Write off data))), d, ms, (f_attr (m_meta (fst (m_step limit s (Write off data))))).
  rewrite Hr. reflexivity.
Qed.

(* the temp-file buffer saves only inside FlushData (which waits): Write never starts a save *)
Lemma t_write_quiet : forall limit s off data,
  inflight tstate t_meta s (fst (t_step limit s (Write off data))) = false.
Proof.
  intros limit s off data. unfold inflight. cbn [t_step fst t_add_page t_meta set_attr f_chunks].
  rewrite chunks_eqb_refl. reflexivity.
Qed.

Theorem t_never_inflight : forall limit xs, t_xtrigger limit xs <> Some 2%N.
Proof.
  intros limit xs. unfold t_xtrigger.
  apply (xtrigger_never_2 tstate (t_step limit) t_meta t_set_meta t_ends_of (t_write_quiet limit)).
Qed.

Theorem t_inflight_read_posix : forall limit xpre off data roff rlen xpost, 0 < limit ->
  Forall op_ok (xflat (xpre ++ WriteRead off data roff rlen :: xpost)) -> 0 <= roff -> 0 < rlen ->
  t_xtrigger limit (xpre ++ WriteRead off data roff rlen :: xpost) = None ->
  exists ow d ms a,
    snd (t_xstep limit (exec_x tstate (t_xstep limit) tstate0 xpre) (WriteRead off data roff rlen)) =
    XWriteRead ow (ORead d ms (pread (pfile (xflat xpre ++ [Write off data])) roff rlen)) a.
Proof.
  intros limit xpre off data roff rlen xpost Hlim Hok Hoff Hlen Htr.
  unfold t_xtrigger in Htr.
  change (xpre ++ WriteRead off data roff rlen :: xpost) with (xpre ++ [WriteRead off data roff rlen] ++ xpost) in *.
  rewrite app_assoc in Htr, Hok.
  apply (xtrigger_app tstate (t_step limit) t_meta t_set_meta t_ends_of) in Htr. destruct Htr as [Htr _].
  rewrite xflat_app in Hok. apply Forall_app in Hok. destruct Hok as [Hok _].
  destruct (x_refines tstate (t_step limit) t_meta t_set_meta t_ends_of t_set_get (t_read_step limit) _ tstate0 Htr)
    as [T1 _].
  apply (xtrigger_app tstate (t_step limit) t_meta t_set_meta t_ends_of) in Htr. destruct Htr as [Hpre Hwr].
  destruct (x_refines tstate (t_step limit) t_meta t_set_meta t_ends_of t_set_get (t_read_step limit) _ tstate0 Hpre)
    as [_ [_ E]].
  unfold t_xstep. rewrite E.
  set (s := exec tstate (t_step limit) tstate0 (xflat xpre)) in *.
  rewrite (xstep_quiet tstate (t_step limit) t_meta t_set_meta t_set_get (t_read_step limit) s off data roff rlen
             (t_write_quiet limit s off data)).
  cbn [snd].
  rewrite xflat_app in T1, Hok. cbn [xflat flat_map xflat1 app] in T1, Hok.
  change (xflat xpre ++ [Write off data; Read roff rlen]) with (xflat xpre ++ [Write off data] ++ [Read roff rlen]) in T1, Hok.
  rewrite app_assoc in T1, Hok.
  destruct (t_read_is_posix_history limit (xflat xpre ++ [Write off data]) roff rlen [] Hlim Hok Hoff Hlen T1) as [d [ms Hr]].
  rewrite exec_app in Hr. fold s in Hr. cbn [exec] in Hr.
  exists (snd (t_step limit s (Write off data))), d, ms, (f_attr (t_meta (fst (t_step limit s (Write off data))))).
  rewrite Hr. reflexivity.
Qed.

(* ---------- finding 2: the full statement fails for the in-memory buffer ---------- *)
Definition w3 : list xop := [WriteRead 0 [1;2;3;4]%N 0 4].
Definition xread_data (xb : xobs) : list N :=
  match xb with XWriteRead _ (ORead _ _ d) _ => d | XObs (ORead _ _ d) _ => d | _ => [] end.

(* the closing flush on a history that overwrites a stored chunk completely: CompactFileChunks drops it and
   the entry the filer receives still resolves to the POSIX file *)
Definition w_close : list xop :=
  [XOp (Write 0 [1;2;3;4]%N); XOp Flush; XOp (Write 0 [5;6;7;8;9;9;9;9]%N); XOp Flush; XOp (Write 2 [7;7]%N); FlushClose].
Definition xcreated (xb : xobs) : list N := match xb with XClose _ c _ => c | _ => [] end.
Lemma w_close_values :
  xcreated (last (m_xrun 16 w_close) (XObs (OTrunc [] 0) 0)) = pfile (xflat w_close) /\
  xcreated (last (t_xrun 16 w_close) (XObs (OTrunc [] 0) 0)) = pfile (xflat w_close) /\
  pfile (xflat w_close) = [5;6;7;7;9;9;9;9]%N /\
  length (compact_chunks (f_chunks (m_meta (exec_x mstate (m_xstep 16) mstate0 w_close)))) = 2%nat /\
  length (f_chunks (m_meta (exec_x mstate (m_xstep 16) mstate0 w_close))) = 3%nat /\
  m_xtrigger 16 w_close = None /\ t_xtrigger 16 w_close = None.
Proof. vm_compute. repeat split; reflexivity. Qed.

Lemma inflight_read_refuted : exists limit xs, 0 < limit /\ Forall op_ok (xflat xs) /\
  m_xtrigger limit xs = Some 2%N /\
  xread_data (last (m_xrun limit xs) (XObs (OTrunc [] 0) 0)) <> pread (pfile (xflat xs)) 0 4.
Proof.
  exists 4, w3. split; [lia|]. split; [repeat constructor; cbn; try lia; discriminate|].
  split; [vm_compute; reflexivity|]. intro H. vm_compute in H. discriminate.
Qed.

Lemma w3_values :
  xread_data (last (m_xrun 4 w3) (XObs (OTrunc [] 0) 0)) = [0;0;0;0]%N /\ pread (pfile (xflat w3)) 0 4 = [1;2;3;4]%N /\
  xread_data (last (t_xrun 4 w3) (XObs (OTrunc [] 0) 0)) = [1;2;3;4]%N.
Proof. vm_compute. repeat split; reflexivity. Qed.
