(* C01, per-key refinement, part 3: one step of a history, whole histories, cookies. *)
From Coq Require Import List NArith ZArith Bool Lia.
From SW Require Import model.Volume proof.VolumeProofs proof.VolumeKeyProofs proof.VolumeKeyOps.
Import ListNotations.
Local Open Scope N_scope.

(* the invariant over a set of keys *)
Definition RC (C : N -> Prop) (st : vol) (sp : spec) (seen : list needle) : Prop :=
  flags_eq st sp /\ bounded st /\ forall id, C id -> K st sp seen id.

Definition cleanD (D : dirt) (id : N) : Prop := dirt_get D id = None.

Lemma RC_init : forall C, RC C init spec_init [].
Proof.
  intro C. split; [split; reflexivity|]. split.
  - split; [reflexivity|]. intros off r H. discriminate.
  - intros id _. reflexivity.
Qed.

Lemma RC_frame : forall (C C' : N -> Prop) ks st st' sp sp' seen seen',
  RC C st sp seen -> vframe ks st st' -> bounded st' -> sframe ks sp sp' -> incl seen seen' ->
  (forall id, C' id -> C id) ->
  (forall id, memN id ks = true -> C' id -> K st' sp' seen' id) ->
  RC C' st' sp' seen'.
Proof.
  intros C C' ks st st' sp sp' seen seen' ([F1 F2] & HB & HK) HV HB' HS Hi HC Hks.
  pose proof HV as (V1 & V2 & _). pose proof HS as (S1 & S2 & _).
  split; [split; congruence|]. split; [exact HB'|].
  intros id Hc. destruct (memN id ks) eqn:Hm.
  - apply Hks; assumption.
  - eapply K_frame; eauto.
Qed.

(* ---------- the soiled keys ---------- *)
Lemma self_trig_keys : forall seen o f, self_trig seen o = Some f -> xkeys o <> [].
Proof.
  intros seen o f H. unfold self_trig in H. destruct o as [b|id c rd g|fids skip]; cbn [xop_needle] in H; try discriminate.
  destruct b; cbn [op_needle] in H; try discriminate; cbn [xkeys]; discriminate.
Qed.

Lemma dirt_of_keys_nil : forall D, dirt_of_keys D [] = None.
Proof. reflexivity. Qed.

Lemma dirty_step_spec : forall D seen o,
  (self_trig seen o = None /\ dirt_of_keys D (xkeys o) = None /\ dirty_step D seen o = D) \/
  (exists f, dirty_step D seen o = map (fun k => (k, f)) (xkeys o) ++ D /\ xkeys o <> []).
Proof.
  intros D seen o. unfold dirty_step. destruct (self_trig seen o) as [f|] eqn:E.
  - right. exists f. split; [reflexivity | eapply self_trig_keys; eauto].
  - destruct (dirt_of_keys D (xkeys o)) as [f|] eqn:E2.
    + right. exists f. split; [reflexivity|]. intro H. rewrite H in E2. discriminate.
    + left. auto.
Qed.

Lemma step_close : forall D seen o st st' sp sp' seen' (m : bool),
  RC (cleanD D) st sp seen ->
  vframe (xkeys o) st st' -> bounded st' -> sframe (xkeys o) sp sp' -> incl seen seen' ->
  (self_trig seen o = None -> (forall id, memN id (xkeys o) = true -> cleanD D id) ->
     m = true /\ forall id, memN id (xkeys o) = true -> K st' sp' seen' id) ->
  RC (cleanD (dirty_step D seen o)) st' sp' seen' /\
  (dirt_of_keys (dirty_step D seen o) (xkeys o) = None -> m = true).
Proof.
  intros D seen o st st' sp sp' seen' m HR HV HB HS Hi Hclean.
  destruct (dirty_step_spec D seen o) as [(E1 & E2 & E3)|(f & E & Hne)]; rewrite ?E3, ?E.
  - destruct (Hclean E1 (proj1 (dirt_of_keys_none D (xkeys o)) E2)) as [Hm HK].
    split; [|intros _; exact Hm].
    eapply RC_frame; eauto.
  - split.
    + eapply RC_frame; eauto.
      * intros id Hc. unfold cleanD in *. rewrite dirt_get_app_map in Hc.
        destruct (memN id (xkeys o)); [discriminate | exact Hc].
      * intros id Hm Hc. unfold cleanD in Hc. rewrite dirt_get_app_map, Hm in Hc. discriminate.
    + intro Hn. exfalso. destruct (xkeys o) as [|k ks] eqn:Ek; [apply Hne; reflexivity|].
      pose proof (proj1 (dirt_of_keys_none _ _) Hn k) as Hk.
      rewrite dirt_get_app_map in Hk. cbn [memN] in Hk. rewrite N.eqb_refl in Hk. cbn [orb] in Hk.
      specialize (Hk eq_refl). discriminate.
Qed.

(* ---------- the shape of one step ---------- *)
Section Steps.
Variable gun : bytes -> bytes.

Lemma xstep_write : forall st t n,
  xstep gun st (t, XBase (Write n)) =
  (fst (store_write st n t),
   XO (OWrite (w_err (snd (store_write st n t))) (w_unchanged (snd (store_write st n t))) (w_size (snd (store_write st n t))))).
Proof. intros. unfold xstep, step. destruct (store_write st n t). reflexivity. Qed.

Lemma xstep_post : forall st t u,
  xstep gun st (t, XBase (Post u)) =
  (fst (store_write st (needle_of_upload u) t),
   XO (OPost (post_status (snd (store_write st (needle_of_upload u) t))) (w_err (snd (store_write st (needle_of_upload u) t))))).
Proof. intros. unfold xstep, step. destruct (store_write st (needle_of_upload u) t). reflexivity. Qed.

Lemma xstep_get : forall st t id c rd,
  xstep gun st (t, XBase (Get id c rd)) = (st, XO (OGet (fst (http_get st id c rd t)) (snd (http_get st id c rd t)))).
Proof. intros. unfold xstep, step. destruct (http_get st id c rd t). reflexivity. Qed.

Lemma xstep_del : forall st t id c,
  xstep gun st (t, XBase (Del id c)) =
  (fst (fst (http_delete st id c t)), XO (ODel (snd (fst (http_delete st id c t))) (snd (http_delete st id c t)))).
Proof. intros. unfold xstep, step. destruct (http_delete st id c t) as [[a b] d]. reflexivity. Qed.

Lemma xstep_rawread : forall st t id c rd,
  xstep gun st (t, XBase (RawRead id c rd)) =
  (st, XO (ORead (fst (fst (store_read st id c rd t))) (snd (fst (store_read st id c rd t))) (snd (store_read st id c rd t)))).
Proof. intros. unfold xstep, step. destruct (store_read st id c rd t) as [[a b] d]. reflexivity. Qed.

Lemma xstep_rawdelete : forall st t id c,
  xstep gun st (t, XBase (RawDelete id c)) =
  (fst (fst (store_delete st id c t)), XO (ODelete (snd (fst (store_delete st id c t))) (snd (store_delete st id c t)))).
Proof. intros. unfold xstep, step. destruct (store_delete st id c t) as [[a b] d]. reflexivity. Qed.

Lemma xstep_xget : forall st t id c rd g,
  xstep gun st (t, XGet id c rd g) =
  (st, XOGet (fst (fst (http_get_x gun st id c rd g t))) (snd (fst (http_get_x gun st id c rd g t))) (snd (http_get_x gun st id c rd g t))).
Proof. intros. unfold xstep. destruct (http_get_x gun st id c rd g t) as [[a b] d]. reflexivity. Qed.

Lemma xstep_batch : forall st t fids skip,
  xstep gun st (t, XBatch fids skip) = (fst (batch_delete st fids skip t), XOBatch (snd (batch_delete st fids skip t))).
Proof. intros. unfold xstep. destruct (batch_delete st fids skip t). reflexivity. Qed.

Lemma xspec_batch : forall sp t fids skip,
  xspec_step gun sp (t, XBatch fids skip) = (fst (spec_batch sp fids skip t), XEBatch (snd (spec_batch sp fids skip t))).
Proof. intros. unfold xspec_step. destruct (spec_batch sp fids skip t). reflexivity. Qed.

(* ---------- reads of a clean key ---------- *)
Lemma get_k : forall st sp seen id c t,
  K st sp seen id ->
  http_get st id c false t =
  match s_lookup sp id t with
  | Some (c', n) => if c' =? c then (200, hproj (exp_view n)) else (404, blank_hview)
  | None => (404, blank_hview)
  end.
Proof.
  intros st sp seen id c t HK. pose proof (read_k st sp seen id c t HK) as RS.
  unfold http_get. destruct (s_lookup sp id t) as [[c' n]|].
  - destruct RS as [Hc Hrd]. rewrite Hrd. cbv beta iota. cbn [err_eqb negb orb].
    rewrite count_nonneg. cbn [exp_view v_cookie]. subst c'.
    destruct (n_cookie n =? c); reflexivity.
  - destruct RS as (e & v0 & [He|He] & Hrd); rewrite Hrd; subst e; reflexivity.
Qed.

Lemma xget_k : forall st sp seen id c g t,
  K st sp seen id ->
  http_get_x gun st id c false g t =
  match s_lookup sp id t with
  | Some (c', n) =>
      if c' =? c then (200, (if g_head g then drop_body (hproj_x gun g (exp_view n)) else hproj_x gun g (exp_view n)),
                       blen (h_data (hproj_x gun g (exp_view n))))
      else (404, blank_hview, 0)
  | None => (404, blank_hview, 0)
  end.
Proof.
  intros st sp seen id c g t HK. pose proof (read_k st sp seen id c t HK) as RS.
  unfold http_get_x. destruct (s_lookup sp id t) as [[c' n]|].
  - destruct RS as [Hc Hrd]. rewrite Hrd. cbv beta iota. cbn [err_eqb negb orb].
    rewrite count_nonneg. cbn [exp_view v_cookie]. subst c'.
    destruct (n_cookie n =? c); reflexivity.
  - destruct RS as (e & v0 & [He|He] & Hrd); rewrite Hrd; subst e; reflexivity.
Qed.

(* ---------- DELETE of a clean key ---------- *)
Lemma del_k : forall st sp seen id c t,
  flags_eq st sp -> bounded st -> K st sp seen id ->
  xmatch (xexpect sp t (Del id c))
         (XO (ODel (snd (fst (http_delete st id c t))) (snd (http_delete st id c t)))) = true /\
  K (fst (fst (http_delete st id c t))) (fst (spec_step sp (t, Del id c))) seen id.
Proof.
  intros st sp seen id c t [F1 F2] HB HK. pose proof (read_k st sp seen id c t HK) as RS.
  unfold http_delete, spec_step, xexpect. destruct (s_lookup sp id t) as [[c' n]|] eqn:Hl.
  - destruct RS as [Hc Hrd]. rewrite Hrd. cbv beta iota. cbn [err_eqb negb].
    cbn [exp_view v_cookie v_size]. subst c'.
    destruct (n_cookie n =? c) eqn:E; cbn [negb].
    + destruct (s_nwod sp) eqn:Hro.
      * unfold store_delete. rewrite F1. cbv beta iota. cbn [fst snd xmatch].
        rewrite ?N.eqb_refl. split; [reflexivity | exact HK].
      * assert (Hro' : no_write_or_delete st = false) by congruence.
        destruct (delete_k st sp seen id (n_cookie n) t HB HK Hro') as (st' & Hd & HK').
        rewrite Hd. cbv beta iota. cbn [fst snd xmatch]. rewrite ?N.eqb_refl.
        split; [reflexivity | exact HK'].
    + cbn [fst snd xmatch]. rewrite ?N.eqb_refl. split; [reflexivity | exact HK].
  - destruct RS as (e & v0 & [He|He] & Hrd); rewrite Hrd; subst e; cbv beta iota; cbn [err_eqb negb fst snd xmatch];
      rewrite ?N.eqb_refl; (split; [reflexivity | exact HK]).
Qed.

Lemma del_spec_frame : forall sp id c t, sframe [id] sp (fst (spec_step sp (t, Del id c))).
Proof.
  intros sp id c t. unfold spec_step. destruct (s_lookup sp id t) as [[c' n]|]; [|apply sframe_refl].
  destruct (negb (c' =? c)); [apply sframe_refl|]. destruct (s_nwod sp); [apply sframe_refl | apply spec_kill_frame].
Qed.

(* ---------- Store.DeleteVolumeNeedle on a clean key ---------- *)
Lemma rawdelete_k : forall st sp seen id c t,
  flags_eq st sp -> bounded st -> K st sp seen id ->
  xmatch (xexpect sp t (RawDelete id c))
         (XO (ODelete (snd (fst (store_delete st id c t))) (snd (store_delete st id c t)))) = true /\
  K (fst (fst (store_delete st id c t))) (fst (spec_step sp (t, RawDelete id c))) seen id.
Proof.
  intros st sp seen id c t [F1 F2] HB HK. unfold spec_step, xexpect. destruct (s_nwod sp) eqn:Hro.
  - unfold store_delete. rewrite F1. cbn [fst snd xmatch err_eqb Bool.eqb andb]. split; [reflexivity | exact HK].
  - assert (Hro' : no_write_or_delete st = false) by congruence.
    destruct (delete_k st sp seen id c t HB HK Hro') as (st' & Hd & HK').
    rewrite Hd. cbn [fst snd xmatch err_eqb Bool.eqb andb]. rewrite Z.eqb_refl. split; [reflexivity | exact HK'].
Qed.

Lemma rawdelete_spec_frame : forall sp id c t, sframe [id] sp (fst (spec_step sp (t, RawDelete id c))).
Proof.
  intros sp id c t. unfold spec_step. destruct (s_nwod sp); [apply sframe_refl | apply spec_kill_frame].
Qed.

(* ---------- BatchDelete ---------- *)
Lemma memN_cons_false : forall x k l, memN x (k :: l) = false -> memN x [k] = false /\ memN x l = false.
Proof. intros x k l H. cbn [memN] in *. apply orb_false_iff in H. destruct H as [H1 H2]. rewrite H1. auto. Qed.

Lemma batch_one_cases : forall st id c skip t,
  fst (fst (batch_one st id c skip t)) = st \/
  exists c', fst (fst (batch_one st id c skip t)) = fst (fst (store_delete st id c' t)).
Proof.
  intros st id c skip t. unfold batch_one. destruct skip.
  - right. exists 0. destruct (store_delete st id 0 t) as [[a b] d]. reflexivity.
  - destruct (store_read st id c false t) as [[e cnt] v].
    destruct (negb (err_eqb e ENone)); [left; reflexivity|].
    destruct (negb (v_cookie v =? c)); [left; reflexivity|].
    destruct (is_chunk_manifest (v_flags v)); [left; reflexivity|].
    right. exists (v_cookie v). destruct (store_delete st id (v_cookie v) t) as [[a b] d]. reflexivity.
Qed.

Lemma batch_one_frame : forall st id c skip t,
  bounded st ->
  bounded (fst (fst (batch_one st id c skip t))) /\ vframe [id] st (fst (fst (batch_one st id c skip t))).
Proof.
  intros st id c skip t HB. destruct (batch_one_cases st id c skip t) as [E|[c' E]]; rewrite E.
  - split; [exact HB | apply vframe_refl].
  - apply store_delete_frame. exact HB.
Qed.

Lemma batch_frame : forall fids st skip t,
  bounded st ->
  bounded (fst (batch_delete st fids skip t)) /\ vframe (map fst fids) st (fst (batch_delete st fids skip t)).
Proof.
  induction fids as [|[id c] rest IH]; intros st skip t HB.
  - split; [exact HB | apply vframe_refl].
  - cbn [batch_delete map fst].
    destruct (batch_one_frame st id c skip t HB) as [HB1 HV1].
    destruct (batch_one st id c skip t) as [[st1 r1] cont1]. cbn [fst] in HB1, HV1.
    assert (HV1' : vframe (id :: map fst rest) st st1).
    { eapply vframe_weaken; [|exact HV1]. intros x Hx. apply memN_cons_false in Hx. tauto. }
    destruct cont1; [|split; assumption].
    destruct (IH st1 skip t HB1) as [HB2 HV2].
    destruct (batch_delete st1 rest skip t) as [st2 rs]. cbn [fst] in *.
    split; [exact HB2|]. eapply vframe_trans; [exact HV1'|].
    eapply vframe_weaken; [|exact HV2]. intros x Hx. apply memN_cons_false in Hx. tauto.
Qed.

Lemma spec_batch_one_frame : forall sp id c skip t, sframe [id] sp (fst (fst (spec_batch_one sp id c skip t))).
Proof.
  intros sp id c skip t. unfold spec_batch_one. destruct skip.
  - destruct (s_nwod sp); [apply sframe_refl | apply spec_kill_frame].
  - destruct (s_lookup sp id t) as [[c' n]|]; [|apply sframe_refl].
    destruct (negb (c' =? c)); [apply sframe_refl|].
    destruct (is_chunk_manifest (n_flags n)); [apply sframe_refl|].
    destruct (s_nwod sp); [apply sframe_refl | apply spec_kill_frame].
Qed.

Lemma spec_batch_frame : forall fids sp skip t, sframe (map fst fids) sp (fst (spec_batch sp fids skip t)).
Proof.
  induction fids as [|[id c] rest IH]; intros sp skip t; [apply sframe_refl|].
  cbn [spec_batch map fst].
  pose proof (spec_batch_one_frame sp id c skip t) as HS1.
  destruct (spec_batch_one sp id c skip t) as [[sp1 r1] cont1]. cbn [fst] in HS1.
  assert (HS1' : sframe (id :: map fst rest) sp sp1).
  { eapply sframe_weaken; [|exact HS1]. intros x Hx. apply memN_cons_false in Hx. tauto. }
  destruct cont1; [|exact HS1'].
  pose proof (IH sp1 skip t) as HS2.
  destruct (spec_batch sp1 rest skip t) as [sp2 rs]. cbn [fst] in *.
  eapply sframe_trans; [exact HS1'|].
  eapply sframe_weaken; [|exact HS2]. intros x Hx. apply memN_cons_false in Hx. tauto.
Qed.

(* a delete of one clean key keeps the invariant on every clean key *)
Lemma delete_RC : forall C st sp seen id c t,
  RC C st sp seen -> C id -> no_write_or_delete st = false ->
  store_delete st id c t = (fst (fst (store_delete st id c t)), ENone, Z.of_N (stored_size sp id)) /\
  RC C (fst (fst (store_delete st id c t))) (spec_kill sp id) seen.
Proof.
  intros C st sp seen id c t HR Hc Hro. pose proof HR as (HF & HB & HK).
  destruct (delete_k st sp seen id c t HB (HK id Hc) Hro) as (st' & Hd & HK').
  destruct (store_delete_frame st id c t HB) as [HB' HV].
  rewrite Hd in *. cbn [fst] in *. split; [reflexivity|].
  eapply RC_frame; [exact HR | exact HV | exact HB' | apply spec_kill_frame | apply incl_refl | auto |].
  intros id' Hm _. cbn [memN] in Hm. rewrite orb_false_r in Hm. apply N.eqb_eq in Hm. subst id'. exact HK'.
Qed.

Lemma batch_one_clean : forall C st sp seen id c skip t,
  RC C st sp seen -> C id ->
  snd (fst (batch_one st id c skip t)) = snd (fst (spec_batch_one sp id c skip t)) /\
  snd (batch_one st id c skip t) = snd (spec_batch_one sp id c skip t) /\
  RC C (fst (fst (batch_one st id c skip t))) (fst (fst (spec_batch_one sp id c skip t))) seen.
Proof.
  intros C st sp seen id c skip t HR Hc. pose proof HR as ([F1 F2] & HB & HK).
  unfold batch_one, spec_batch_one. destruct skip.
  - destruct (s_nwod sp) eqn:Hro.
    + unfold store_delete. rewrite F1. cbn [fst snd]. auto.
    + assert (Hro' : no_write_or_delete st = false) by congruence.
      destruct (delete_RC C st sp seen id 0 t HR Hc Hro') as [Hd HR'].
      rewrite Hd. cbn [fst snd]. rewrite N2Z.id. auto.
  - pose proof (read_k st sp seen id c t (HK id Hc)) as RS.
    destruct (s_lookup sp id t) as [[c' n]|] eqn:Hl.
    + destruct RS as [Hcc Hrd]. rewrite Hrd. cbv beta iota. cbn [err_eqb negb exp_view v_cookie v_flags]. subst c'.
      destruct (negb (n_cookie n =? c)); [cbn [fst snd]; auto|].
      destruct (is_chunk_manifest (n_flags n)); [cbn [fst snd]; auto|].
      destruct (s_nwod sp) eqn:Hro.
      * unfold store_delete. rewrite F1. cbn [fst snd]. auto.
      * assert (Hro' : no_write_or_delete st = false) by congruence.
        destruct (delete_RC C st sp seen id (n_cookie n) t HR Hc Hro') as [Hd HR'].
        rewrite Hd. cbn [fst snd]. rewrite N2Z.id.
        unfold stored_size. rewrite (lookup_stored _ _ _ _ _ Hl). auto.
    + destruct RS as (e & v0 & [He|He] & Hrd); rewrite Hrd; subst e; cbv beta iota; cbn [err_eqb negb fst snd]; auto.
Qed.

Lemma batch_clean : forall fids C st sp seen skip t,
  RC C st sp seen -> (forall id, memN id (map fst fids) = true -> C id) ->
  snd (batch_delete st fids skip t) = snd (spec_batch sp fids skip t) /\
  RC C (fst (batch_delete st fids skip t)) (fst (spec_batch sp fids skip t)) seen.
Proof.
  induction fids as [|[id c] rest IH]; intros C st sp seen skip t HR Hall; [split; [reflexivity | exact HR]|].
  cbn [batch_delete spec_batch].
  assert (Hc : C id) by (apply Hall; cbn [map fst memN]; rewrite N.eqb_refl; reflexivity).
  destruct (batch_one_clean C st sp seen id c skip t HR Hc) as (H1 & H2 & H3).
  destruct (batch_one st id c skip t) as [[st1 r1] cont1].
  destruct (spec_batch_one sp id c skip t) as [[sp1 r1'] cont1']. cbn [fst snd] in H1, H2, H3. subst r1' cont1'.
  destruct cont1; [|cbn [fst snd]; auto].
  assert (Hall' : forall id0, memN id0 (map fst rest) = true -> C id0).
  { intros id0 Hm. apply Hall. cbn [map fst memN]. rewrite Hm. apply orb_true_r. }
  destruct (IH C st1 sp1 seen skip t H3 Hall') as [I1 I2].
  destruct (batch_delete st1 rest skip t) as [st2 rs]. destruct (spec_batch sp1 rest skip t) as [sp2 rs'].
  cbn [fst snd] in *. subst rs'. auto.
Qed.

(* ---------- one step ---------- *)
Lemma self_trig_needle : forall seen o n,
  xop_needle o = Some n -> self_trig seen o = None ->
  blen (n_data n) =? 0 = false /\ fresh seen n.
Proof.
  intros seen o n Hn H. unfold self_trig in H. rewrite Hn in H.
  destruct (blen (n_data n) =? 0); [discriminate|]. split; [reflexivity|].
  unfold fresh. destruct (existsb (conflicts n) seen); [discriminate | reflexivity].
Qed.

Lemma write_step : forall D st sp seen t n o,
  RC (cleanD D) st sp seen -> wf_needle n = true ->
  xop_needle o = Some n -> xkeys o = [n_id n] ->
  RC (cleanD (dirty_step D seen o)) (fst (store_write st n t)) (fst (spec_write sp n t)) (n :: seen) /\
  (dirt_of_keys (dirty_step D seen o) (xkeys o) = None ->
   xmatch (xexpect_write sp n t)
          (XO (OWrite (w_err (snd (store_write st n t))) (w_unchanged (snd (store_write st n t)))
                      (w_size (snd (store_write st n t))))) = true /\
   xmatch (xexpect_write sp n t)
          (XO (OPost (post_status (snd (store_write st n t))) (w_err (snd (store_write st n t))))) = true).
Proof.
  intros D st sp seen t n o HR Hwf Hn Hk. pose proof HR as (HF & HB & HK).
  destruct (store_write_frame st n t HB) as [HB' HV].
  set (m := xmatch (xexpect_write sp n t)
          (XO (OWrite (w_err (snd (store_write st n t))) (w_unchanged (snd (store_write st n t)))
                      (w_size (snd (store_write st n t))))) &&
            xmatch (xexpect_write sp n t)
          (XO (OPost (post_status (snd (store_write st n t))) (w_err (snd (store_write st n t)))))).
  assert (G : RC (cleanD (dirty_step D seen o)) (fst (store_write st n t)) (fst (spec_write sp n t)) (n :: seen) /\
              (dirt_of_keys (dirty_step D seen o) (xkeys o) = None -> m = true)).
  { apply step_close with (st := st) (sp := sp); try assumption.
    - rewrite Hk. exact HV.
    - rewrite Hk. apply spec_write_frame.
    - apply incl_tl, incl_refl.
    - intros Hs Hcl. destruct (self_trig_needle seen o n Hn Hs) as [Hne Hfr].
      assert (Hc : cleanD D (n_id n)) by (apply Hcl; rewrite Hk; cbn [memN]; rewrite N.eqb_refl; reflexivity).
      destruct (write_k st sp seen n t HF HB (HK _ Hc) Hwf Hne Hfr) as (W1 & W2 & W3).
      split; [unfold m; rewrite W1, W2; reflexivity|].
      intros id Hm. rewrite Hk in Hm. cbn [memN] in Hm. rewrite orb_false_r in Hm. apply N.eqb_eq in Hm. subst id. exact W3. }
  destruct G as [G1 G2]. split; [exact G1|]. intro Hn'. specialize (G2 Hn'). unfold m in G2.
  apply andb_true_iff in G2. exact G2.
Qed.

Lemma single_key : forall (C : N -> Prop) id, (forall x, memN x [id] = true -> C x) -> C id.
Proof. intros C id H. apply H. cbn [memN]. rewrite N.eqb_refl. reflexivity. Qed.

Lemma single_key_K : forall st sp seen id x, K st sp seen id -> memN x [id] = true -> K st sp seen x.
Proof.
  intros st sp seen id x HK Hm. cbn [memN] in Hm. rewrite orb_false_r in Hm. apply N.eqb_eq in Hm. subst x. exact HK.
Qed.

Theorem xstep_RC : forall D st sp seen ev,
  RC (cleanD D) st sp seen -> xwf_event ev = true ->
  RC (cleanD (dirty_step D seen (snd ev))) (fst (xstep gun st ev)) (fst (xspec_step gun sp ev)) (xseen_next seen (snd ev)) /\
  (dirt_of_keys (dirty_step D seen (snd ev)) (xkeys (snd ev)) = None ->
   xmatch (snd (xspec_step gun sp ev)) (snd (xstep gun st ev)) = true).
Proof.
  intros D st sp seen [t o] HR Hwf. pose proof HR as (HF & HB & HK). cbn [snd].
  destruct o as [b|id c rd g|fids skip].
  - destruct b as [n|u|id c rd|id c|id c rd|id c|fl|fl].
    + (* Write *)
      rewrite xstep_write. unfold xspec_step, xseen_next. cbn [fst snd xop_needle op_needle xexpect spec_step].
      destruct (write_step D st sp seen t n (XBase (Write n)) HR Hwf eq_refl eq_refl) as [G1 G2].
      split; [exact G1 | intro Hn; exact (proj1 (G2 Hn))].
    + (* Post *)
      rewrite xstep_post. unfold xspec_step, xseen_next. cbn [fst snd xop_needle op_needle xexpect spec_step].
      destruct (write_step D st sp seen t (needle_of_upload u) (XBase (Post u)) HR Hwf eq_refl eq_refl) as [G1 G2].
      split; [exact G1 | intro Hn; exact (proj2 (G2 Hn))].
    + (* Get *)
      rewrite xstep_get. unfold xspec_step, xseen_next. cbn [fst snd xop_needle op_needle].
      assert (E : fst (spec_step sp (t, Get id c rd)) = sp).
      { unfold spec_step. destruct rd; [reflexivity|]. destruct (s_lookup sp id t) as [[c' n]|]; [destruct (c' =? c)|]; reflexivity. }
      rewrite E.
      apply step_close with (st := st) (sp := sp); try assumption; try apply vframe_refl; try apply sframe_refl; try apply incl_refl.
      intros _ Hcl. pose proof (HK id (single_key _ _ Hcl)) as HKid. split; [|intros x Hx; eapply single_key_K; eauto].
      unfold xexpect. destruct rd; [reflexivity|]. rewrite (get_k st sp seen id c t HKid).
      destruct (s_lookup sp id t) as [[c' n]|]; [destruct (c' =? c)|]; cbn [fst snd xmatch]; rewrite ?N.eqb_refl, ?hview_eqb_refl; reflexivity.
    + (* Del *)
      rewrite xstep_del. unfold xspec_step, xseen_next. cbn [fst snd xop_needle op_needle].
      destruct (http_delete_frame st id c t HB) as [HB' HV].
      apply step_close with (st := st) (sp := sp); try assumption; try apply incl_refl.
      * apply del_spec_frame.
      * intros _ Hcl. pose proof (HK id (single_key _ _ Hcl)) as HKid.
        destruct (del_k st sp seen id c t HF HB HKid) as [M1 M2].
        split; [exact M1 | intros x Hx; eapply single_key_K; eauto].
    + (* RawRead *)
      rewrite xstep_rawread. unfold xspec_step, xseen_next. cbn [fst snd xop_needle op_needle].
      assert (E : fst (spec_step sp (t, RawRead id c rd)) = sp).
      { unfold spec_step. destruct rd; [reflexivity|]. destruct (s_lookup sp id t) as [[c' n]|]; reflexivity. }
      rewrite E.
      apply step_close with (st := st) (sp := sp); try assumption; try apply vframe_refl; try apply sframe_refl; try apply incl_refl.
      intros _ Hcl. pose proof (HK id (single_key _ _ Hcl)) as HKid. split; [|intros x Hx; eapply single_key_K; eauto].
      unfold xexpect. destruct rd; [reflexivity|]. pose proof (read_k st sp seen id c t HKid) as RS.
      destruct (s_lookup sp id t) as [[c' n]|].
      * destruct RS as [_ Hrd]. rewrite Hrd. cbn [fst snd xmatch err_eqb andb]. rewrite Z.eqb_refl, view_eqb_refl. reflexivity.
      * destruct RS as (e & v0 & [He|He] & Hrd); rewrite Hrd; subst e; reflexivity.
    + (* RawDelete *)
      rewrite xstep_rawdelete. unfold xspec_step, xseen_next. cbn [fst snd xop_needle op_needle].
      destruct (store_delete_frame st id c t HB) as [HB' HV].
      apply step_close with (st := st) (sp := sp); try assumption; try apply incl_refl.
      * apply rawdelete_spec_frame.
      * intros _ Hcl. pose proof (HK id (single_key _ _ Hcl)) as HKid.
        destruct (rawdelete_k st sp seen id c t HF HB HKid) as [M1 M2].
        split; [exact M1 | intros x Hx; eapply single_key_K; eauto].
    + (* SetNoWriteOrDelete *)
      unfold xstep, step, xspec_step, spec_step, dirty_step, self_trig, xseen_next. cbn [fst snd xop_needle op_needle xkeys dirt_of_keys xexpect xmatch].
      split; [|reflexivity]. destruct HF as [F1 F2]. split; [split; [reflexivity | exact F2]|]. split; [exact HB | exact HK].
    + (* SetNoWriteCanDelete *)
      unfold xstep, step, xspec_step, spec_step, dirty_step, self_trig, xseen_next. cbn [fst snd xop_needle op_needle xkeys dirt_of_keys xexpect xmatch].
      split; [|reflexivity]. destruct HF as [F1 F2]. split; [split; [exact F1 | reflexivity]|]. split; [exact HB | exact HK].
  - (* XGet *)
    rewrite xstep_xget. unfold xseen_next. cbn [fst snd xop_needle].
    assert (E : fst (xspec_step gun sp (t, XGet id c rd g)) = sp).
    { unfold xspec_step. destruct rd; [reflexivity|]. destruct (s_lookup sp id t) as [[c' n]|]; [destruct (c' =? c)|]; reflexivity. }
    rewrite E.
    apply step_close with (st := st) (sp := sp); try assumption; try apply vframe_refl; try apply sframe_refl; try apply incl_refl.
    intros _ Hcl. pose proof (HK id (single_key _ _ Hcl)) as HKid. split; [|intros x Hx; eapply single_key_K; eauto].
    unfold xspec_step. destruct rd; [reflexivity|]. rewrite (xget_k st sp seen id c g t HKid).
    destruct (s_lookup sp id t) as [[c' n]|]; [destruct (c' =? c)|]; cbn [fst snd xmatch]; rewrite ?N.eqb_refl, ?hview_eqb_refl; reflexivity.
  - (* XBatch *)
    rewrite xstep_batch, xspec_batch. unfold xseen_next. cbn [fst snd xop_needle xkeys].
    destruct (batch_frame fids st skip t HB) as [HB' HV].
    apply step_close with (st := st) (sp := sp); try assumption; try apply incl_refl.
    + apply spec_batch_frame.
    + intros _ Hcl.
      destruct (batch_clean fids (fun x => memN x (map fst fids) = true /\ cleanD D x) st sp seen skip t) as [B1 B2].
      * split; [exact HF|]. split; [exact HB|]. intros x [_ Hx]. apply HK. exact Hx.
      * intros x Hx. split; [exact Hx | apply Hcl; exact Hx].
      * split; [cbn [xmatch]; rewrite B1; apply pairs_eqb_refl|].
        intros x Hx. destruct B2 as (_ & _ & B2). apply B2. split; [exact Hx | apply Hcl; exact Hx].
Qed.

(* ---------- whole histories ---------- *)
Theorem refines_per_key_gen : forall h D st sp seen,
  RC (cleanD D) st sp seen -> xwf_history h = true ->
  pk_ok (xjudge gun D seen sp h (xrun gun st h)) = true.
Proof.
  induction h as [|ev h IH]; intros D st sp seen HR Hwf; [reflexivity|].
  unfold xwf_history in Hwf. cbn [forallb] in Hwf. apply andb_true_iff in Hwf. destruct Hwf as [Hwf1 Hwf2].
  destruct (xstep_RC D st sp seen ev HR Hwf1) as [HR' HM].
  cbn [xrun xjudge]. destruct (xstep gun st ev) as [st' o]. destruct (xspec_step gun sp ev) as [sp' e].
  cbn [fst snd] in *. unfold pk_ok. cbn [forallb fst snd]. fold (pk_ok (xjudge gun (dirty_step D seen (snd ev)) (xseen_next seen (snd ev)) sp' h (xrun gun st' h))).
  rewrite (IH _ _ _ _ HR' Hwf2), andb_true_r.
  destruct (dirt_of_keys (dirty_step D seen (snd ev)) (xkeys (snd ev))); [apply orb_true_r|].
  rewrite (HM eq_refl). reflexivity.
Qed.

Theorem refines_per_key : forall h,
  xwf_history h = true -> pk_ok (xjudge gun [] [] spec_init h (xrun gun init h)) = true.
Proof. intros h Hwf. apply refines_per_key_gen; [apply RC_init | exact Hwf]. Qed.

(* no event under a finding: every answer is the specification's *)
Theorem refines_clean_gen : forall h st sp seen,
  RC (cleanD []) st sp seen -> xwf_history h = true -> xclean seen h = true ->
  all_ok (xjudge gun [] seen sp h (xrun gun st h)) = true.
Proof.
  induction h as [|ev h IH]; intros st sp seen HR Hwf Hcl; [reflexivity|].
  unfold xwf_history in Hwf. cbn [forallb] in Hwf. apply andb_true_iff in Hwf. destruct Hwf as [Hwf1 Hwf2].
  cbn [xclean] in Hcl. apply andb_true_iff in Hcl. destruct Hcl as [Hc1 Hc2].
  assert (Hs : self_trig seen (snd ev) = None) by (destruct (self_trig seen (snd ev)); [discriminate | reflexivity]).
  assert (Hk : dirt_of_keys [] (xkeys (snd ev)) = None) by (induction (xkeys (snd ev)) as [|a l IHl]; [reflexivity | exact IHl]).
  assert (HD : dirty_step [] seen (snd ev) = []) by (unfold dirty_step; rewrite Hs, Hk; reflexivity).
  destruct (xstep_RC [] st sp seen ev HR Hwf1) as [HR' HM]. rewrite HD in HR', HM.
  cbn [xrun xjudge]. rewrite HD. destruct (xstep gun st ev) as [st' o]. destruct (xspec_step gun sp ev) as [sp' e].
  cbn [fst snd] in *. unfold all_ok. cbn [forallb fst].
  fold (all_ok (xjudge gun [] (xseen_next seen (snd ev)) sp' h (xrun gun st' h))).
  rewrite (HM Hk), (IH _ _ _ HR' Hwf2 Hc2). reflexivity.
Qed.

Theorem refines_clean : forall h,
  xwf_history h = true -> xclean [] h = true ->
  all_ok (xjudge gun [] [] spec_init h (xrun gun init h)) = true.
Proof. intros h Hwf Hcl. apply refines_clean_gen; [apply RC_init | exact Hwf | exact Hcl]. Qed.

(* the state a history leads to *)
Lemma reach_RC : forall h D st sp seen,
  RC (cleanD D) st sp seen -> xwf_history h = true ->
  RC (cleanD (dirt_after D seen h)) (xstate_after gun st h) (xspec_after gun sp h) (xseen_after seen h).
Proof.
  induction h as [|ev h IH]; intros D st sp seen HR Hwf; [exact HR|].
  unfold xwf_history in Hwf. cbn [forallb] in Hwf. apply andb_true_iff in Hwf. destruct Hwf as [Hwf1 Hwf2].
  destruct (xstep_RC D st sp seen ev HR Hwf1) as [HR' _].
  unfold xstate_after, xspec_after. cbn [fold_left dirt_after xseen_after]. apply IH; assumption.
Qed.

(* ---------- cookies, per key ---------- *)
Theorem cookie_get_k : forall h id c t g,
  xwf_history h = true -> dirt_get (dirt_after [] [] h) id = None ->
  (forall n, s_lookup (xspec_after gun spec_init h) id t <> Some (c, n)) ->
  xstep gun (xstate_after gun init h) (t, XGet id c false g) = (xstate_after gun init h, XOGet 404 blank_hview 0) /\
  xstep gun (xstate_after gun init h) (t, XBase (Get id c false)) = (xstate_after gun init h, XO (OGet 404 blank_hview)).
Proof.
  intros h id c t g Hwf Hd Hno.
  pose proof (reach_RC h [] init spec_init [] (RC_init _) Hwf) as (_ & _ & HK). specialize (HK id Hd).
  rewrite xstep_xget, xstep_get, (xget_k _ _ _ id c g t HK), (get_k _ _ _ id c t HK).
  destruct (s_lookup (xspec_after gun spec_init h) id t) as [[c' n]|]; [|split; reflexivity].
  destruct (c' =? c) eqn:E; [|split; reflexivity].
  apply N.eqb_eq in E. subst c'. exfalso. apply (Hno n). reflexivity.
Qed.

Theorem cookie_delete_k : forall h id c t,
  xwf_history h = true -> dirt_get (dirt_after [] [] h) id = None ->
  (forall n, s_lookup (xspec_after gun spec_init h) id t <> Some (c, n)) ->
  exists s, (s = 400 \/ s = 404) /\
    xstep gun (xstate_after gun init h) (t, XBase (Del id c)) = (xstate_after gun init h, XO (ODel s 0)) /\
    xstep gun (xstate_after gun init h) (t, XBatch [(id, c)] false) = (xstate_after gun init h, XOBatch [(s, 0)]).
Proof.
  intros h id c t Hwf Hd Hno.
  pose proof (reach_RC h [] init spec_init [] (RC_init _) Hwf) as (_ & _ & HK). specialize (HK id Hd).
  pose proof (read_k _ _ _ id c t HK) as RS.
  rewrite xstep_del, xstep_batch. unfold http_delete. cbn [batch_delete]. unfold batch_one.
  destruct (s_lookup (xspec_after gun spec_init h) id t) as [[c' n]|].
  - destruct RS as [Hc Hrd]. rewrite Hrd. cbv beta iota. cbn [err_eqb negb exp_view v_cookie].
    destruct (n_cookie n =? c) eqn:E.
    + apply N.eqb_eq in E. exfalso. apply (Hno n). congruence.
    + cbn [negb fst snd]. exists 400. split; [left; reflexivity | split; reflexivity].
  - destruct RS as (e & v0 & [E|E] & Hrd); rewrite Hrd; subst e; cbv beta iota; cbn [err_eqb negb fst snd];
      exists 404; (split; [right; reflexivity | split; reflexivity]).
Qed.

End Steps.

(* ---------- witnesses ---------- *)
Definition gid (b : bytes) : bytes := b.

Definition mkx (id cookie : N) (data : bytes) (flags : N) (name mime : bytes) (lastmod : N) : needle :=
  {| n_id := id; n_cookie := cookie; n_data := data; n_flags := flags; n_name := name; n_mime := mime;
     n_pairs := []; n_lastmod := lastmod; n_ttl := (0, 0) |}.

(* key 1 falls under finding 0 (empty payload); key 2 is written, overwritten, read with HEAD,
   refused to a foreign cookie by DELETE and by BatchDelete, deleted by BatchDelete *)
Definition example_x : list xevent :=
  [(1000, XBase (Write (mkx 1 10 [] 2 [110; 109] [] 0)));
   (2000, XBase (Write (mkx 2 20 [1; 2; 3] 14 [97; 46; 99; 115; 115] [] 100)));
   (3000, XBase (Get 1 11 false));                                  (* finding 0: served to a foreign cookie *)
   (4000, XGet 2 20 false {| g_gzip := false; g_head := true; g_name := [] |});
   (5000, XBase (Write (mkx 2 20 [4; 5] 14 [110; 50] [116; 47; 98] 200)));
   (6000, XBase (Del 2 21));
   (7000, XBatch [(2, 21); (2, 20)] false);                         (* stops at the first mismatch *)
   (8000, XBatch [(1, 11); (2, 20)] false);                         (* names the soiled key 1: the code goes on
                                                                       where the specification stops, so key 2 is soiled too *)
   (9000, XBase (Get 2 20 false))].

Lemma example_x_ok :
  xwf_history example_x = true /\
  xjudge gid [] [] spec_init example_x (xrun gid init example_x) =
  [(true, Some 0); (true, None); (false, Some 0); (true, None); (true, None); (true, None); (true, None);
   (false, Some 0); (false, Some 0)] /\
  xrun gid init example_x =
  [XO (OWrite ENone false 0); XO (OWrite ENone false 20);
   XO (OGet 200 blank_hview);
   XOGet 200 {| h_data := []; h_name := [97; 46; 99; 115; 115]; h_mime := mime_css; h_pairs := [];
                h_lastmod := 100; h_gzip := false |} 3;
   XO (OWrite ENone false 19); XO (ODel 400 0); XOBatch [(400, 0)]; XOBatch [(202, 0); (202, 19)];
   XO (OGet 404 blank_hview)].
Proof. vm_compute. repeat split; reflexivity. Qed.

(* the literals of the model are the named constants *)
Lemma literals_used :
  (forall s, actual_size s =
     let raw := vc_header_size + s + vc_checksum_size + vc_timestamp_size in
     raw + (vc_padding_size - raw mod vc_padding_size)) /\
  dat_end init = vc_super_block_size /\
  (forall n, stored_name n = firstn vc_max_name (n_name n)) /\
  (forall f, is_compressed f = N.testbit f (N.log2 vc_flag_compressed) /\
             has_name f = N.testbit f (N.log2 vc_flag_name) /\
             has_mime f = N.testbit f (N.log2 vc_flag_mime) /\
             has_lastmod f = N.testbit f (N.log2 vc_flag_lastmod) /\
             has_ttl f = N.testbit f (N.log2 vc_flag_ttl) /\
             has_pairs f = N.testbit f (N.log2 vc_flag_pairs) /\
             is_chunk_manifest f = N.testbit f (N.log2 vc_flag_manifest)) /\
  (forall id c d, needle_size (mkx id c d (vc_flag_lastmod + vc_flag_ttl) [] [] 0) =
                  if 0 <? blen d then 4 + blen d + 1 + vc_lastmod_bytes + vc_ttl_bytes else 0) /\
  (forall s, size_deleted s = ((s <? 0) || (s =? vc_tombstone))%Z) /\
  (forall c, ttl_minutes (c, 1) = c /\ ttl_minutes (c, 2) = c * 60 /\ ttl_minutes (c, 3) = c * 60 * 24 /\
             ttl_minutes (c, 4) = c * 60 * 24 * 7 /\ ttl_minutes (c, 5) = c * 60 * 24 * 30 /\
             ttl_minutes (c, 6) = c * 60 * 24 * 365) /\
  (forall n, v_lastmod (view_of n) =
             if has_lastmod (n_flags n) then n_lastmod n mod 2 ^ (8 * vc_lastmod_bytes) else 0) /\
  (forall n, wf_needle n = true -> n_lastmod n < 2 ^ (8 * vc_lastmod_bytes)).
Proof.
  assert (P40 : 2 ^ (8 * vc_lastmod_bytes) = 1099511627776) by reflexivity.
  split; [intro s; reflexivity|]. split; [reflexivity|]. split; [intro n; reflexivity|].
  split; [intro f; repeat split; reflexivity|].
  split.
  { intros id c d. unfold needle_size. cbn [mkx n_flags n_data n_name n_mime n_pairs].
    change (has_name (vc_flag_lastmod + vc_flag_ttl)) with false.
    change (has_mime (vc_flag_lastmod + vc_flag_ttl)) with false.
    change (has_lastmod (vc_flag_lastmod + vc_flag_ttl)) with true.
    change (has_ttl (vc_flag_lastmod + vc_flag_ttl)) with true.
    change (has_pairs (vc_flag_lastmod + vc_flag_ttl)) with false.
    cbv iota. unfold vc_lastmod_bytes, vc_ttl_bytes. destruct (0 <? blen d); [lia | reflexivity]. }
  split; [intro s; reflexivity|]. split; [intro c; repeat split; reflexivity|].
  split; [intro n; rewrite P40; reflexivity|].
  intros n H. rewrite P40. unfold wf_needle in H. repeat (apply andb_true_iff in H; destruct H as [H ?]).
  match goal with X : (n_lastmod n <? _) = true |- _ => apply N.ltb_lt in X; exact X end.
Qed.

(* BatchDelete with SkipCookieCheck removes a blob whatever cookie the file id carries *)
Lemma batch_skip_ignores_cookie :
  exists h id c t,
    xwf_history h = true /\ xclean [] h = true /\
    (forall n, s_lookup (xspec_after gid spec_init h) id t <> Some (c, n)) /\
    snd (xstep gid (xstate_after gid init h) (t, XBatch [(id, c)] true)) = XOBatch [(202, 20)] /\
    snd (xstep gid (fst (xstep gid (xstate_after gid init h) (t, XBatch [(id, c)] true))) (t, XBase (Get id 20 false)))
    = XO (OGet 404 blank_hview).
Proof.
  exists [(1000, XBase (Write (mkx 2 20 [1; 2; 3] 14 [97; 46; 99; 115; 115] [] 100)))], 2, 21, 2000.
  split; [reflexivity|]. split; [reflexivity|]. split; [|split; reflexivity].
  intros n H. vm_compute in H. discriminate.
Qed.
