(* C22: the invariant of the LogBuffer model and what one read returns under it. *)
From Coq Require Import List ZArith NArith Bool Lia.
From SW Require Import model.LogBuf proof.LogBufProofs.
Import ListNotations.
Local Open Scope Z_scope.

Lemma zeroT_neg : zeroT < 0.
Proof. unfold zeroT. lia. Qed.

(* ghost view of the ring: events of the sealed buffers that have left the ring, and the
   sealed buffers the three slots stand for *)
Record ghost := { ev_old : list entry; r0 : option seg; r1 : option seg; r2 : option seg }.
Definition dat (o : option seg) : list entry := match o with Some g => g_data g | None => [] end.
(* every event appended so far, in append order *)
Definition E_of (gh : ghost) (s : st) : list entry :=
  ev_old gh ++ dat (r0 gh) ++ dat (r1 gh) ++ dat (r2 gh) ++ cur s.

Definition seg_ok (g : seg) : Prop :=
  g_data g <> [] /\ g_start g = e_ts (hd dummy_entry (g_data g)) /\ g_stop g = last_ts (g_data g) 0.
Definition oseg_ok (o : option seg) : Prop := match o with Some g => seg_ok g | None => True end.

(* slot m stands for sealed buffer o; its bytes are intact unless lastFlushTime covers it *)
Definition slot_is (lf : Z) (m : mem) (o : option seg) : Prop :=
  match o with
  | None => m_size m = 0 /\ m_start m = zeroT /\ m_stop m = zeroT
  | Some g => m_start m = g_start g /\ m_stop m = g_stop g /\ m_size m = recs_len (g_data g) /\
              (m_stop m <= lf \/ exists rest, m_arr m = map Rec (g_data g) ++ rest)
  end.

Definition cur_times (s : st) : Prop :=
  match cur s with
  | [] => stopT s <= 0
  | e :: _ => startT s = e_ts e /\ stopT s = last_ts (cur s) 0
  end.

Record InvCore (gh : ghost) (s : st) : Prop := {
  i_incr : incr 0 (E_of gh s);
  i_last : forall e, In e (E_of gh s) -> e_ts e <= lastTs s;
  i_last0 : 0 <= lastTs s;
  i_len : forall e, In e (E_of gh s) -> 0 < e_len e;
  i_ok0 : oseg_ok (r0 gh);
  i_ok1 : oseg_ok (r1 gh);
  i_ok2 : oseg_ok (r2 gh);
  i_s0 : slot_is (lastFlush s) (s0 s) (r0 gh);
  i_s1 : slot_is (lastFlush s) (s1 s) (r1 gh);
  i_s2 : slot_is (lastFlush s) (s2 s) (r2 gh);
  i_old : forall e, In e (ev_old gh) -> e_ts e <= lastFlush s;
  i_disk : concat (disk s) ++ concat (map g_data (queue s)) ++ cur s = E_of gh s;
  i_dne : forall g, In g (disk s) -> g <> [];
  i_q : forall g, In g (queue s) -> seg_ok g;
  i_lf : lastFlush s = zeroT \/ exists e, In e (concat (disk s)) /\ e_ts e = lastFlush s;
  i_infl : forall g, inflight s = Some g -> seg_ok g /\ exists d', disk s = d' ++ [g_data g]
}.

Definition Inv (gh : ghost) (s : st) : Prop := InvCore gh s /\ cur_times s.

(* ---------- one slot of the ring scan ---------- *)
Lemma seg_ok_bounds : forall g lo e, seg_ok g -> incr lo (g_data g) -> In e (g_data g) ->
  g_start g <= e_ts e <= g_stop g /\ lo < g_start g.
Proof.
  intros g lo e [Hne [Hs Ht]] Hi Hin. rewrite Hs, Ht.
  destruct (g_data g) as [|x l] eqn:Hd; [contradiction|]. cbn [hd].
  destruct Hi as [H1 H2]. rewrite last_ts_cons. split; [|lia]. destruct Hin as [->|Hin].
  - split; [lia|]. apply incr_last_ge. exact H2.
  - split; [pose proof (incr_lb _ _ _ H2 Hin); lia|]. apply incr_le_last; auto.
Qed.

Lemma scan_slot_spec : forall lf m o t,
  slot_is lf m o -> oseg_ok o -> incr 0 (dat o) -> (forall e, In e (dat o) -> 0 < e_len e) ->
  (lf = zeroT \/ lf <= t) -> 0 <= t ->
  match scan_slot m t with
  | None => forall e, In e (dat o) -> e_ts e <= t
  | Some r => exists pre X, dat o = pre ++ X /\ X <> [] /\
                (forall e, In e pre -> e_ts e <= t) /\ (forall e, In e X -> t < e_ts e) /\
                exists c, r = RChunk c /\ decode c = (X, DOk)
  end.
Proof.
  intros lf m o t Hslot Hok Hinc Hlen Hlf Ht. pose proof zeroT_neg as Hz.
  destruct o as [g|]; cbn [dat slot_is oseg_ok] in *.
  - destruct Hslot as [Hst [Hsp [Hsz Harr]]].
    assert (Hne : g_data g <> []) by (destruct Hok; auto).
    destruct (last_ts_in (g_data g) 0 Hne) as [el [Hel1 Hel2]].
    pose proof (seg_ok_bounds g 0 el Hok Hinc Hel1) as [Hb1 Hb2].
    assert (Hstop : g_stop g = e_ts el) by (destruct Hok as [_ [_ Hk]]; rewrite Hk; auto).
    assert (Hintact : t < m_stop m -> exists rest, m_arr m = map Rec (g_data g) ++ rest).
    { intros Hlt. destruct Harr as [Hm|Hm]; [|exact Hm]. exfalso. destruct Hlf; lia. }
    unfold scan_slot. destruct (t <? m_start m) eqn:E1.
    + destruct Hintact as [rest Hrest]; [lia|].
      exists [], (g_data g). split; [reflexivity|]. split; [exact Hne|].
      split; [intros; contradiction|]. split.
      * intros e He. pose proof (seg_ok_bounds g 0 e Hok Hinc He). lia.
      * eexists. split; [reflexivity|]. rewrite Hrest, Hsz, take_bytes_recs. apply decode_recs. exact Hlen.
    + destruct ((m_start m <=? t) && (t <? m_stop m)) eqn:E2.
      * apply andb_true_iff in E2. destruct E2 as [E2 E3].
        destruct Hintact as [rest Hrest]; [lia|].
        destruct (incr_split _ 0 t Hinc) as [pre [suf [Heq [Hp [Hs _]]]]].
        assert (Hsuf : suf <> []).
        { intro Hn. subst suf. rewrite app_nil_r in Heq. rewrite Heq in Hel1. specialize (Hp _ Hel1). lia. }
        destruct suf as [|x suf]; [congruence|].
        rewrite Hrest, Heq.
        rewrite (locate_recs pre x suf rest t 0 Hp (Hs x (or_introl eq_refl))).
        assert (Hle : recs_len pre <= m_size m).
        { rewrite Hsz, Heq, recs_len_app. pose proof (recs_len_nonneg (x :: suf)). lia. }
        replace (0 + recs_len pre) with (recs_len pre) by lia.
        destruct (m_size m <? recs_len pre) eqn:E4; [lia|].
        exists pre, (x :: suf). split; [reflexivity|]. split; [congruence|]. split; [exact Hp|]. split; [exact Hs|].
        eexists. split; [reflexivity|].
        rewrite Hsz, Heq, take_bytes_recs, drop_bytes_recs. apply decode_recs.
        intros e He. apply Hlen. rewrite Heq. apply in_or_app. right. exact He.
      * intros e He. pose proof (seg_ok_bounds g 0 e Hok Hinc He).
        apply andb_false_iff in E2. destruct E2 as [E2|E2]; lia.
  - destruct Hslot as [Hsz [Hst Hsp]]. unfold scan_slot. rewrite Hst, Hsp.
    destruct (t <? zeroT) eqn:E1; [lia|].
    rewrite andb_false_r. intros e He. destruct He.
Qed.

(* ---------- the binary search in the current buffer ---------- *)
Lemma mid_bounds : forall lo hi, lo <= hi -> lo <= (lo + hi) / 2 <= hi.
Proof.
  intros. split; [apply Z.div_le_lower_bound; lia|].
  apply Z.lt_succ_r. apply Z.div_lt_upper_bound; lia.
Qed.

Lemma bsearch_sound : forall fuel l t lo hi mid,
  0 <= lo -> bsearch fuel l t lo hi = Some mid ->
  lo <= mid <= hi /\ t < ts_at l mid /\ (0 < mid -> ts_at l (mid - 1) <= t).
Proof.
  induction fuel as [|f IH]; intros l t lo hi mid Hlo H; [discriminate|].
  cbn [bsearch] in H. destruct (hi <? lo) eqn:E0; [discriminate|].
  pose proof (mid_bounds lo hi ltac:(lia)) as Hm.
  destruct (ts_at l ((lo + hi) / 2) <=? t) eqn:E1.
  - apply IH in H; [|lia]. lia.
  - destruct ((if 0 <? (lo + hi) / 2 then ts_at l ((lo + hi) / 2 - 1) else 0) <=? t) eqn:E2.
    + inversion H; subst mid. split; [lia|]. split; [lia|]. intros Hpos.
      destruct (0 <? (lo + hi) / 2) eqn:E3; lia.
    + apply IH in H; [|lia]. lia.
Qed.

Lemma skipn_nth_cons : forall (l : list entry) n d, (n < length l)%nat ->
  skipn n l = nth n l d :: skipn (S n) l.
Proof.
  induction l as [|x l IH]; intros n d H; [simpl in H; lia|].
  destruct n as [|n]; [reflexivity|]. cbn [skipn nth]. apply IH. simpl in H. lia.
Qed.

Lemma firstn_last_ts : forall (l : list entry) n d d', (0 < n <= length l)%nat ->
  last_ts (firstn n l) d' = e_ts (nth (n - 1) l d).
Proof.
  induction l as [|x l IH]; intros n d d' H; [simpl in H; lia|].
  destruct n as [|n]; [lia|]. cbn [firstn]. rewrite last_ts_cons.
  destruct n as [|n]; [reflexivity|].
  rewrite (IH (S n) d (e_ts x)); [|simpl in H; lia].
  replace (S (S n) - 1)%nat with (S n) by lia. replace (S n - 1)%nat with n by lia. reflexivity.
Qed.

Lemma bsearch_split : forall fuel l t mid lo0,
  incr lo0 l -> bsearch fuel l t 0 (Z.of_nat (length l) - 1) = Some mid ->
  (forall e, In e (firstn (Z.to_nat mid) l) -> e_ts e <= t) /\
  (forall e, In e (skipn (Z.to_nat mid) l) -> t < e_ts e) /\ skipn (Z.to_nat mid) l <> [].
Proof.
  intros fuel l t mid lo0 Hinc H. apply bsearch_sound in H; [|lia].
  destruct H as [Hm [Hgt Hprev]]. unfold ts_at in *.
  assert (Hn : (Z.to_nat mid < length l)%nat) by lia.
  rewrite <- (firstn_skipn (Z.to_nat mid) l) in Hinc.
  rewrite (skipn_nth_cons l _ dummy_entry Hn) in *.
  apply incr_app in Hinc. destruct Hinc as [Ha Hb]. destruct Hb as [Hb1 Hb2].
  split; [|split; [|congruence]].
  - intros e He. destruct (Z.to_nat mid) as [|k] eqn:Ek; [contradiction|].
    assert (Hmid : 0 < mid) by lia. specialize (Hprev Hmid).
    pose proof (incr_le_last _ _ _ Ha He) as Hle.
    rewrite (firstn_last_ts l (S k) dummy_entry lo0) in Hle; [|lia].
    replace (Z.to_nat (mid - 1)) with (S k - 1)%nat in Hprev by lia. lia.
  - intros e [<-|He]; [lia|]. pose proof (incr_lb _ _ _ Hb2 He). lia.
Qed.

(* ---------- what a memory read returns ---------- *)
Definition splits (E : list entry) (t : Z) (X : list entry) : Prop :=
  exists E1 E3, E = E1 ++ X ++ E3 /\ (forall e, In e E1 -> e_ts e <= t) /\ (forall e, In e X -> t < e_ts e).

Lemma splits_nil : forall E t, splits E t [].
Proof. intros. exists [], E. split; [reflexivity|]. split; intros; contradiction. Qed.

Lemma incr_sub : forall a b c lo, incr lo (a ++ b ++ c) -> incr 0 b \/ lo < 0.
Proof.
  intros a b c lo H. destruct (Z_lt_le_dec lo 0); [right; auto|left].
  apply incr_app in H. destruct H as [Ha H]. apply incr_app in H. destruct H as [Hb _].
  eapply incr_weaken; [|exact Hb]. pose proof (incr_last_ge _ _ Ha). lia.
Qed.

Lemma read_mem_split : forall gh s t,
  Inv gh s -> 0 <= t ->
  match read_from_buffer s t with
  | RChunk c => exists X, decode c = (X, DOk) /\ X <> [] /\ splits (E_of gh s) t X
  | RPanic => False
  | _ => True
  end.
Proof.
  intros gh s t [HI Hcur] Ht. pose proof zeroT_neg as Hz.
  unfold read_from_buffer.
  destruct (negb (lastFlush s =? zeroT) && (t <? lastFlush s)) eqn:E0; [exact I|].
  assert (Hlf : lastFlush s = zeroT \/ lastFlush s <= t).
  { apply andb_false_iff in E0. destruct E0 as [E0|E0]; [left|right]; [|lia].
    apply negb_false_iff in E0. lia. }
  destruct (t =? stopT s) eqn:E1; [exact I|].
  destruct (stopT s <? t) eqn:E2; [exact I|].
  pose proof (i_incr _ _ HI) as Hinc. unfold E_of in Hinc.
  assert (HincE := Hinc).
  (* pieces of E are increasing from 0 *)
  assert (H0 : incr 0 (dat (r0 gh))).
  { destruct (incr_sub _ _ _ _ Hinc) as [H|H]; [exact H|lia]. }
  assert (H1 : incr 0 (dat (r1 gh))).
  { rewrite app_assoc in Hinc. destruct (incr_sub _ _ _ _ Hinc) as [H|H]; [exact H|lia]. }
  assert (H2 : incr 0 (dat (r2 gh))).
  { rewrite app_assoc, app_assoc in Hinc. destruct (incr_sub _ _ _ _ Hinc) as [H|H]; [exact H|lia]. }
  assert (HL : forall e, In e (E_of gh s) -> 0 < e_len e) by (apply (i_len _ _ HI)).
  assert (Hold : forall e, In e (ev_old gh) -> e_ts e <= t).
  { intros e He. pose proof (i_old _ _ HI e He).
    assert (0 < e_ts e). { apply (incr_lb _ 0 e HincE). apply in_or_app. left. exact He. }
    destruct Hlf; lia. }
  unfold E_of in HL.
  destruct (t <? startT s) eqn:E3.
  - pose proof (scan_slot_spec _ _ _ t (i_s0 _ _ HI) (i_ok0 _ _ HI) H0
                 ltac:(intros; apply HL; rewrite !in_app_iff; tauto) Hlf Ht) as S0.
    destruct (scan_slot (s0 s) t) as [r|].
    { destruct S0 as [pre [X [Heq [Hne [Hp [Hx [c [-> Hd]]]]]]]].
      exists X. split; [exact Hd|]. split; [exact Hne|].
      exists (ev_old gh ++ pre), (dat (r1 gh) ++ dat (r2 gh) ++ cur s). split.
      - unfold E_of. rewrite Heq. rewrite <- !app_assoc. reflexivity.
      - split; [|exact Hx]. intros e He. apply in_app_or in He. destruct He; auto. }
    pose proof (scan_slot_spec _ _ _ t (i_s1 _ _ HI) (i_ok1 _ _ HI) H1
                 ltac:(intros; apply HL; rewrite !in_app_iff; tauto) Hlf Ht) as S1.
    destruct (scan_slot (s1 s) t) as [r|].
    { destruct S1 as [pre [X [Heq [Hne [Hp [Hx [c [-> Hd]]]]]]]].
      exists X. split; [exact Hd|]. split; [exact Hne|].
      exists (ev_old gh ++ dat (r0 gh) ++ pre), (dat (r2 gh) ++ cur s). split.
      - unfold E_of. rewrite Heq. rewrite <- !app_assoc. reflexivity.
      - split; [|exact Hx]. intros e He. rewrite !in_app_iff in He. destruct He as [He|[He|He]]; auto. }
    pose proof (scan_slot_spec _ _ _ t (i_s2 _ _ HI) (i_ok2 _ _ HI) H2
                 ltac:(intros; apply HL; rewrite !in_app_iff; tauto) Hlf Ht) as S2.
    destruct (scan_slot (s2 s) t) as [r|].
    { destruct S2 as [pre [X [Heq [Hne [Hp [Hx [c [-> Hd]]]]]]]].
      exists X. split; [exact Hd|]. split; [exact Hne|].
      exists (ev_old gh ++ dat (r0 gh) ++ dat (r1 gh) ++ pre), (cur s). split.
      - unfold E_of. rewrite Heq. rewrite <- !app_assoc. reflexivity.
      - split; [|exact Hx]. intros e He. rewrite !in_app_iff in He. destruct He as [He|[He|[He|He]]]; auto. }
    (* the whole current buffer *)
    unfold cur_times in Hcur. destruct (cur s) as [|x l] eqn:Hc; [lia|].
    destruct Hcur as [Hs1 Hs2].
    exists (x :: l). split.
    { apply decode_recs. intros e He. apply HL. rewrite !in_app_iff. tauto. }
    split; [congruence|].
    exists (ev_old gh ++ dat (r0 gh) ++ dat (r1 gh) ++ dat (r2 gh)), []. split.
    + unfold E_of. rewrite Hc, app_nil_r, <- !app_assoc. reflexivity.
    + split.
      * intros e He. rewrite !in_app_iff in He. destruct He as [He|[He|[He|He]]]; auto.
      * assert (Hcx : incr t (x :: l)).
        { rewrite !app_assoc in Hinc. apply incr_app in Hinc. destruct Hinc as [_ Hinc].
          destruct Hinc as [_ Hinc]. split; [lia|exact Hinc]. }
        intros e He. apply (incr_lb _ _ _ Hcx He).
  - (* binary search *)
    destruct (bsearch _ (cur s) t 0 (Z.of_nat (length (cur s)) - 1)) as [mid|] eqn:Eb; [|exact I].
    assert (Hci : incr (last_ts (ev_old gh ++ dat (r0 gh) ++ dat (r1 gh) ++ dat (r2 gh)) 0) (cur s)).
    { rewrite !app_assoc in Hinc. apply incr_app in Hinc. destruct Hinc as [_ Hinc].
      rewrite <- !app_assoc in Hinc. exact Hinc. }
    destruct (bsearch_split _ _ _ _ _ Hci Eb) as [Hf [Hsk Hne]].
    exists (skipn (Z.to_nat mid) (cur s)). split.
    { apply decode_recs. intros e He. apply HL. rewrite !in_app_iff. right. right. right. right.
      rewrite <- (firstn_skipn (Z.to_nat mid) (cur s)). apply in_or_app. right. exact He. }
    split; [exact Hne|].
    exists (ev_old gh ++ dat (r0 gh) ++ dat (r1 gh) ++ dat (r2 gh) ++ firstn (Z.to_nat mid) (cur s)), []. split.
    + unfold E_of. rewrite app_nil_r, <- !app_assoc. rewrite firstn_skipn. reflexivity.
    + split; [|exact Hsk].
      (* everything before the current buffer is below its first record, which is <= t *)
      assert (Hge : startT s <= t) by lia.
      unfold cur_times in Hcur. destruct (cur s) as [|x l] eqn:Hc.
      { destruct (Z.to_nat mid); discriminate Hne || (cbn in Hne; congruence). }
      destruct Hcur as [Hs1 _].
      intros e He. rewrite !in_app_iff in He.
      assert (Hbefore : In e (ev_old gh ++ dat (r0 gh) ++ dat (r1 gh) ++ dat (r2 gh)) -> e_ts e <= t).
      { intros Hin. rewrite !app_assoc in HincE.
        pose proof (incr_app_lt _ _ _ e x HincE) as Hlt. rewrite <- !app_assoc in Hlt.
        specialize (Hlt Hin (or_introl eq_refl)). lia. }
      destruct He as [He|[He|[He|[He|He]]]]; try (apply Hbefore; rewrite !in_app_iff; tauto).
      apply Hf. exact He.
Qed.
