(* C04 proofs, part 5: compaction is invisible to readers (partial, with the four refutations),
   and a deleted blob is never resurrected (full). *)
From Coq Require Import List NArith ZArith Bool Lia Permutation.
From SW Require Import model.Volume model.Compaction.
From SW Require Import proof.CompactionInv proof.CompactionRead proof.CompactionCopy proof.CompactionMakeup.
Import ListNotations.
Local Open Scope N_scope.

(* ---------- small bridges ---------- *)
Lemma save_idx_get : forall db k, asc db ->
  idx_get (save_idx db) k = match idx_get db k with
                            | Some e => if entry_dead e then None else Some e
                            | None => None
                            end.
Proof.
  intros db k Ha. unfold save_idx.
  pose proof (asc_nodup _ (asc_filter (fun e => negb (entry_dead e)) db Ha)) as Hnd.
  rewrite idx_get_rev by exact Hnd. rewrite idx_get_filter by (apply asc_nodup; exact Ha).
  destruct (idx_get db k) as [e|]; [|reflexivity]. destruct (entry_dead e); reflexivity.
Qed.

(* the content of a loaded pair of files *)
Lemma content_files : forall R I E a b k,
  content {| recs := R; nm := load_idx I; dat_end := E; no_write_or_delete := a; no_write_can_delete := b |} k =
  match idx_get I k with
  | Some e => if entry_valid e
              then match find_rec R (ie_off e) with
                   | Some r => if (Z.of_N (r_size r) =? ie_size e)%Z then Some (pl r) else None
                   | None => None
                   end
              else None
  | None => None
  end.
Proof.
  intros. unfold content. cbn [nm]. rewrite load_live.
  destruct (idx_get I k) as [e|]; [|reflexivity]. destruct (entry_valid e); [|reflexivity].
  unfold read_data. cbn [recs]. destruct (find_rec R (ie_off e)) as [r|]; [|reflexivity].
  destruct (Z.of_N (r_size r) =? ie_size e)%Z; reflexivity.
Qed.

Lemma live_size : forall s k off size, nozero s -> live (nm (cv s)) k = Some (off, size) -> size <> 0%Z.
Proof.
  intros s k off size Hz L. unfold live in L. destruct (nm_get (nm (cv s)) k) as [nv|] eqn:G; [|discriminate].
  destruct (nv_off nv =? 0); [discriminate|]. destruct (size_deleted (nv_size nv)); [discriminate|].
  inversion L; subst. apply (Hz k nv G).
Qed.

Lemma content_size_pos : forall s k p, cinv s -> nozero s -> content (cv s) k = Some p -> 0 < fst (fst p).
Proof.
  intros s k p H Hz C. unfold content in C. destruct (live (nm (cv s)) k) as [[off size]|] eqn:L; [|discriminate].
  destruct (live_facts _ _ _ _ H L) as [Hs0 [_ [_ [r [_ [Hsz [_ Hrd]]]]]]]. rewrite Hrd in C. inversion C; subst p.
  pose proof (live_size _ _ _ _ Hz L). simpl. lia.
Qed.

Lemma content_rec : forall s k p, cinv s -> content (cv s) k = Some p -> exists r, In r (recs (cv s)) /\ p = pl r.
Proof.
  intros s k p H C. unfold content in C. destruct (live (nm (cv s)) k) as [[off size]|] eqn:L; [|discriminate].
  destruct (live_facts _ _ _ _ H L) as [_ [_ [_ [r [Hf [_ [_ Hrd]]]]]]]. rewrite Hrd in C. inversion C; subst p.
  exists r. split; [eapply find_rec_In; eauto | reflexivity].
Qed.

(* the newest entry of a key that is not alive is not a valid put *)
Lemma dead_entry : forall s k e, cinv s -> live (nm (cv s)) k = None -> idx_get (cidx s) k = Some e ->
  size_valid (ie_size e) = false.
Proof.
  intros s k e H L G. pose proof (ci_ent _ H k) as He. unfold ent_ok in He. unfold live in L.
  destruct (nm_get (nm (cv s)) k) as [nv|]; [|congruence]. destruct He as [_ He].
  destruct (0 <=? nv_size nv)%Z eqn:S.
  - destruct He as [_ [r [Hf _]]]. exfalso.
    pose proof (find_rec_off _ _ _ Hf) as Ho. pose proof (find_rec_In _ _ _ Hf) as Hin.
    destruct (sorted_recs_bound _ _ _ (ci_sorted _ H) Hin) as [H8 _].
    assert (O : nv_off nv =? 0 = false) by (apply N.eqb_neq; lia). rewrite O in L.
    apply Z.leb_le in S. destruct (size_deleted (nv_size nv)) eqn:D; [|discriminate].
    apply size_deleted_neg in D. lia.
  - destruct He as [o He]. rewrite G in He. inversion He; subst. reflexivity.
Qed.

(* reloading the .idx of a running volume gives the same reads (when no empty blob was written) *)
Lemma reload_content : forall s k a b, cinv s -> nozero s ->
  content {| recs := recs (cv s); nm := load_idx (cidx s); dat_end := dat_end (cv s);
             no_write_or_delete := a; no_write_can_delete := b |} k = content (cv s) k.
Proof.
  intros s k a b H Hz. rewrite content_files. unfold content at 1.
  destruct (live (nm (cv s)) k) as [[off size]|] eqn:L.
  - destruct (live_facts _ _ _ _ H L) as [Hs0 [Ho [Hi [r [Hf [Hsz [Hid Hrd]]]]]]].
    rewrite Hi. unfold entry_valid. simpl. pose proof (live_size _ _ _ _ Hz L) as Hnz.
    assert (O : negb (off =? 0) = true) by (apply negb_true_iff, N.eqb_neq; exact Ho).
    assert (V : size_valid size = true) by (apply size_valid_pos; lia).
    rewrite O, V, Hf, Hsz, Z.eqb_refl, Hrd. reflexivity.
  - destruct (idx_get (cidx s) k) as [e|] eqn:G; [|reflexivity].
    unfold entry_valid. rewrite (dead_entry _ _ _ H L G), andb_false_r. reflexivity.
Qed.

(* a key without .idx entry during the second phase reads the same before and after it *)
Lemma untouched_content : forall s1 s2 d k, cinv s1 -> cinv s2 -> grows s1 s2 ->
  cidx s2 = d ++ cidx s1 -> idx_get d k = None -> content (cv s2) k = content (cv s1) k.
Proof.
  intros s1 s2 d k H1 H2 G Hd Hn.
  assert (Hi : idx_get (cidx s2) k = idx_get (cidx s1) k) by (rewrite Hd, idx_get_app, Hn; reflexivity).
  unfold content. destruct (live (nm (cv s2)) k) as [[off size]|] eqn:L2.
  - destruct (live_facts _ _ _ _ H2 L2) as [Hs0 [Ho [Hi2 [r [Hf [Hsz [Hid Hrd]]]]]]].
    rewrite Hi in Hi2.
    assert (Dd : entry_dead {| ie_key := k; ie_off := off; ie_size := size |} = false).
    { unfold entry_dead. simpl. apply orb_false_intro; [apply N.eqb_neq; exact Ho|].
      destruct (size_deleted size) eqn:D; [|reflexivity]. apply size_deleted_neg in D. lia. }
    destruct (idx_live _ _ _ H1 Hi2 Dd) as [L1 _]. simpl in L1. rewrite L1.
    destruct (live_facts _ _ _ _ H1 L1) as [_ [_ [_ [r1 [Hf1 [_ [_ Hrd1]]]]]]].
    rewrite Hrd1, Hrd. pose proof (grows_find _ _ _ _ H1 G Hf1) as Hf2. rewrite Hf in Hf2. inversion Hf2. reflexivity.
  - destruct (live (nm (cv s1)) k) as [[off size]|] eqn:L1; [|reflexivity]. exfalso.
    destruct (live_facts _ _ _ _ H1 L1) as [Hs0 [Ho [Hi1 _]]]. rewrite <- Hi in Hi1.
    assert (Dd : entry_dead {| ie_key := k; ie_off := off; ie_size := size |} = false).
    { unfold entry_dead. simpl. apply orb_false_intro; [apply N.eqb_neq; exact Ho|].
      destruct (size_deleted size) eqn:D; [|reflexivity]. apply size_deleted_neg in D. lia. }
    destruct (idx_live _ _ _ H2 Hi1 Dd) as [L _]. congruence.
Qed.

Lemma files_of_compact : forall al vt now_s s,
  compact al vt now_s s = files_of (match al with Scan => compact_scan vt now_s s | Index => compact_index vt now_s s end).
Proof. reflexivity. Qed.

(* ---------- the setting shared by the theorems ---------- *)
Record setting (g : cfg) (ord : list N) (h1 h2 : list cevent) (s1 s2 : cvol) (d : idxlog) : Prop := {
  st_s1 : s1 = c_exec (g_vttl g) cinit h1;
  st_s2 : s2 = c_exec (g_vttl g) s1 h2;
  st_i1 : cinv s1;
  st_i2 : cinv s2;
  st_grows : grows s1 s2;
  st_d : cidx s2 = d ++ cidx s1;
  st_diff : diff_entries (length (cidx s1)) (cidx s2) = d;
  st_twin : twin g h1 h2 = cv s2;
  st_nodup : NoDup ord;
  st_ord : forall k, In k ord <-> idx_get d k <> None
}.

Lemma setting_intro : forall g ord h1 h2, Permutation ord (default_ord g h1 h2) ->
  exists s1 s2 d, setting g ord h1 h2 s1 s2 d.
Proof.
  intros g ord h1 h2 P.
  set (s1 := c_exec (g_vttl g) cinit h1). set (s2 := c_exec (g_vttl g) s1 h2).
  assert (I1 : cinv s1) by (apply c_exec_inv, cinv_init).
  assert (I2 : cinv s2) by (apply c_exec_inv; exact I1).
  pose proof (exec_grows (g_vttl g) h2 s1 I1) as G. fold s2 in G.
  destruct (g_idx _ _ G) as [d Hd].
  assert (Hdiff : diff_entries (length (cidx s1)) (cidx s2) = d) by (rewrite Hd; apply diff_entries_app).
  unfold default_ord, touched in P. fold s1 in P. fold s2 in P. rewrite Hdiff in P.
  destruct (ord_facts ord d P) as [Hnd Hord].
  exists s1, s2, d. constructor; auto.
  unfold twin. rewrite c_exec_app. reflexivity.
Qed.

Lemma compacted_files_unfold : forall g al now_s ord h1 h2 s1 s2 d, setting g ord h1 h2 s1 s2 d ->
  compacted_files g al now_s ord h1 h2 =
  if makeup_fails (length (cidx s1)) s2 then old_files s2
  else fold_left (mstep (cv s2) d) ord (compact al (g_vttl g) now_s s1).
Proof.
  intros g al now_s ord h1 h2 s1 s2 d S. unfold compacted_files.
  rewrite <- (st_s1 _ _ _ _ _ _ _ S). rewrite <- (st_s2 _ _ _ _ _ _ _ S).
  rewrite makeup_unfold. rewrite (st_diff _ _ _ _ _ _ _ S). reflexivity.
Qed.

(* ---------- C04: compaction is invisible (partial) ---------- *)
Theorem invisible_partial : forall g al now_s now_r ord h1 h2,
  Permutation ord (default_ord g h1 h2) ->
  has_empty (h1 ++ h2) = false ->
  ttl_consistent (g_vttl g) now_s now_r h1 = true ->
  reload_noop g al now_s ord h1 h2 = true ->
  forall id, read_of (compacted g al now_s ord h1 h2) now_r id = read_of (twin g h1 h2) now_r id.
Proof.
  intros g al now_s now_r ord h1 h2 P Hemp Httl Hnoop id.
  destruct (setting_intro g ord h1 h2 P) as [s1 [s2 [d S]]].
  destruct S as [E1 E2 I1 I2 G Hd Hdiff Htw Hnd Hord].
  assert (S : setting g ord h1 h2 s1 s2 d) by (constructor; assumption).
  set (vt := g_vttl g) in *.
  assert (Hne : forall ev, In ev (h1 ++ h2) -> ev_nonempty ev) by (apply has_empty_false; exact Hemp).
  assert (Z1 : nozero s1).
  { rewrite E1. apply exec_nozero; [apply cinv_init | apply nozero_init |]. intros ev Hin. apply Hne, in_or_app. auto. }
  assert (Z2 : nozero s2).
  { rewrite E2. apply exec_nozero; [exact I1 | exact Z1 |]. intros ev Hin. apply Hne, in_or_app. auto. }
  unfold reload_noop in Hnoop. unfold read_of, compacted. rewrite Htw.
  set (F := compacted_files g al now_s ord h1 h2) in *.
  rewrite (commit_noop F Hnoop).
  rewrite read_char by (intros nv Hg; apply (load_nz (f_idx F) id nv Hg)).
  rewrite read_char by (intros nv Hg; apply (Z2 id nv Hg)).
  set (fin := {| recs := f_recs F; nm := load_idx (f_idx F); dat_end := f_end F;
                 no_write_or_delete := false; no_write_can_delete := false |}).
  assert (Main : content fin id = content (cv s2) id \/
                 (content fin id = None /\ exists p, content (cv s2) id = Some p /\ read_pl now_r p = None)).
  { unfold fin. rewrite content_files.
    assert (EF : F = if makeup_fails (length (cidx s1)) s2 then old_files s2
                     else fold_left (mstep (cv s2) d) ord (compact al vt now_s s1))
      by (apply (compacted_files_unfold g al now_s ord h1 h2 s1 s2 d S)).
    destruct (makeup_fails (length (cidx s1)) s2).
    - (* makeupDiff failed: the old files are reloaded *)
      left. rewrite EF. simpl. rewrite <- (reload_content s2 id false false I2 Z2). rewrite content_files. reflexivity.
    - rewrite files_of_compact in EF.
      set (a := match al with Scan => compact_scan vt now_s s1 | Index => compact_index vt now_s s1 end) in *.
      pose proof (compact_spec al vt now_s s1 I1) as CS. fold a in CS.
      destruct CS as [Cs Ca Cm Csome Cnone].
      set (F0 := files_of a) in *.
      assert (Hs0 : sorted_recs (f_recs F0) (f_end F0)) by exact Cs.
      assert (Hm0 : f_end F0 mod 8 = 0) by exact Cm.
      assert (Hpre : forall k e, idx_get d k = Some e -> idx_get (cidx s2) k = Some e).
      { intros k e Hg. rewrite Hd, idx_get_app, Hg. reflexivity. }
      assert (Hsrc : forall k e, idx_get d k = Some e -> ent_src (cv s2) e).
      { intros k e Hg U. unfold is_upd in U. apply andb_prop in U. destruct U as [U V]. apply andb_prop in U. destruct U as [U1 U2].
        assert (Dd : entry_dead e = false).
        { unfold entry_dead. apply orb_false_intro; [apply negb_true_iff; exact U1|].
          destruct (size_deleted (ie_size e)) eqn:D; [|reflexivity]. apply size_deleted_neg in D. apply size_valid_pos in V. lia. }
        destruct (idx_live _ _ _ I2 (Hpre _ _ Hg) Dd) as [L _].
        destruct (live_facts _ _ _ _ I2 L) as [_ [_ [_ [r [Hf [Hsz _]]]]]]. exists r. auto. }
      assert (FI : finv F0 F) by (rewrite EF; apply fold_finv; assumption).
      pose proof (makeup_idx (cv s2) d ord F0 id Hnd) as MI. simpl in MI. rewrite <- EF in MI.
      destruct (idx_get d id) as [e|] eqn:Gd.
      + (* the key has an .idx entry of the second phase *)
        assert (Hin : In id ord) by (apply Hord; congruence).
        destruct (in_dec N.eq_dec id ord) as [_|Hx]; [|contradiction]. destruct MI as [o MI].
        pose proof (Hpre _ _ Gd) as G2.
        destruct (live (nm (cv s2)) id) as [[off size]|] eqn:L.
        * destruct (live_facts _ _ _ _ I2 L) as [Hsz0 [Ho [Hi [r [Hf [Hsz [Hid Hrd]]]]]]].
          rewrite Hi in G2. inversion G2; subst e. clear G2. pose proof (live_size _ _ _ _ Z2 L) as Hnz.
          assert (U : is_upd {| ie_key := id; ie_off := off; ie_size := size |} = true).
          { unfold is_upd. simpl. apply andb_true_intro. split; [apply andb_true_intro; split|].
            - apply negb_true_iff, N.eqb_neq. exact Ho.
            - apply negb_true_iff, Z.eqb_neq. exact Hnz.
            - apply size_valid_pos. lia. }
          destruct (makeup_upd (cv s2) d ord F0 id _ r Hnd Hs0 Hm0 Hsrc Hin Gd U Hf Hsz)
            as [noff [r' [Hi' [H8 [Hf' Hpl]]]]].
          rewrite <- EF in Hi', Hf'. simpl in Hi'. left. rewrite Hi'. unfold entry_valid. simpl.
          assert (O : negb (noff =? 0) = true) by (apply negb_true_iff, N.eqb_neq; lia).
          assert (V : size_valid size = true) by (apply size_valid_pos; lia).
          rewrite O, V, Hf'. simpl.
          assert (Hsz' : Z.of_N (r_size r') = size).
          { unfold pl in Hpl. inversion Hpl as [[Ha Hb Hc]]. rewrite Ha. exact Hsz. }
          rewrite Hsz', Z.eqb_refl. unfold content. rewrite L, Hrd, Hpl. reflexivity.
        * left. rewrite MI. unfold entry_valid. simpl. rewrite (dead_entry _ _ _ I2 L G2), andb_false_r.
          unfold content. rewrite L. reflexivity.
      + (* untouched during the second phase *)
        rewrite MI. clear MI. rewrite (untouched_content s1 s2 d id I1 I2 G Hd Gd).
        change (f_idx F0) with (save_idx (a_db a)). rewrite save_idx_get by exact Ca.
        destruct (idx_get (a_db a) id) as [e0|] eqn:G0.
        * destruct (Csome id e0 G0) as [H8 [Hsz0 [_ [r' [Hf [Hsz Hc]]]]]].
          pose proof (content_size_pos _ _ _ I1 Z1 Hc) as Hpos. simpl in Hpos.
          assert (Dd : entry_dead e0 = false).
          { unfold entry_dead. apply orb_false_intro; [apply N.eqb_neq; lia|].
            destruct (size_deleted (ie_size e0)) eqn:D; [|reflexivity]. apply size_deleted_neg in D. lia. }
          rewrite Dd. unfold entry_valid.
          assert (O : negb (ie_off e0 =? 0) = true) by (apply negb_true_iff, N.eqb_neq; lia).
          assert (V : size_valid (ie_size e0) = true) by (apply size_valid_pos; lia).
          rewrite O, V. simpl. rewrite (fi_old _ _ FI _ _ Hf), Hsz, Z.eqb_refl. left. symmetry. exact Hc.
        * destruct (Cnone id (Z1 id) G0) as [Hc|[p [Hc [Hpos Hdrop]]]]; [left; symmetry; exact Hc|].
          right. split; [reflexivity|]. exists p. split; [exact Hc|].
          destruct (content_rec _ _ _ I1 Hc) as [r [Hin ->]]. simpl in Hpos.
          rewrite E1 in Hin. destruct (exec_provenance vt h1 cinit r cinv_init Hin) as [Hr|[Hz|[n0 [Hev Hn]]]].
          -- simpl in Hr. contradiction.
          -- lia.
          -- unfold ttl_consistent in Httl. rewrite forallb_forall in Httl. specialize (Httl _ Hev).
             unfold ttl_ok in Httl. simpl in Httl. rewrite <- Hn in Httl.
             assert (Hv : view_pl (pl r) = view_of (r_n r)).
             { unfold view_pl, pl. simpl. assert (L : 0 <? r_size r = true) by (apply N.ltb_lt; exact Hpos). rewrite L. reflexivity. }
             unfold read_pl. rewrite Hv in *. rewrite Hdrop in Httl. simpl in Httl. simpl. rewrite Httl. reflexivity. }
  destruct Main as [->|[-> [p [-> Hp]]]]; [reflexivity | symmetry; exact Hp].
Qed.

(* ---------- C04: a deleted blob is never resurrected (full) ---------- *)
(* No hypothesis on payloads, TTLs, sizes, the algorithm, the map iteration order or the
   integrity check: a key whose needle-map entry is a tombstone in the never-compacted
   volume cannot be read after the commit. *)
Theorem no_resurrect : forall g al now_s now_r ord h1 h2 id,
  Permutation ord (default_ord g h1 h2) ->
  (exists nv, nm_get (nm (twin g h1 h2)) id = Some nv /\ (nv_size nv < 0)%Z) ->
  read_of (compacted g al now_s ord h1 h2) now_r id = None.
Proof.
  intros g al now_s now_r ord h1 h2 id P [nv [Gnv Hneg]].
  destruct (setting_intro g ord h1 h2 P) as [s1 [s2 [d S]]].
  destruct S as [E1 E2 I1 I2 G Hd Hdiff Htw Hnd Hord].
  assert (S : setting g ord h1 h2 s1 s2 d) by (constructor; assumption).
  set (vt := g_vttl g) in *. rewrite Htw in Gnv.
  (* the newest .idx entry of the key is a deletion *)
  assert (Hdel : exists o, idx_get (cidx s2) id = Some {| ie_key := id; ie_off := o; ie_size := (-1)%Z |}).
  { pose proof (ci_ent _ I2 id) as He. unfold ent_ok in He. rewrite Gnv in He. destruct He as [_ He].
    assert (Hb : (0 <=? nv_size nv)%Z = false) by (apply Z.leb_gt; exact Hneg). rewrite Hb in He. exact He. }
  destruct Hdel as [o Hdel].
  unfold read_of, compacted. apply read_dead. apply commit_dead.
  rewrite (compacted_files_unfold g al now_s ord h1 h2 s1 s2 d S).
  destruct (makeup_fails (length (cidx s1)) s2).
  - right. simpl. eexists. split; [exact Hdel | simpl; lia].
  - rewrite files_of_compact.
    fold vt.
    set (a := match al with Scan => compact_scan vt now_s s1 | Index => compact_index vt now_s s1 end) in *.
    pose proof (compact_spec al vt now_s s1 I1) as CS. fold a in CS. destruct CS as [Cs Ca Cm Csome Cnone].
    pose proof (makeup_idx (cv s2) d ord (files_of a) id Hnd) as MI. cbv zeta in MI.
    destruct (idx_get d id) as [e|] eqn:Gd.
    + assert (Hin : In id ord) by (apply Hord; congruence).
      destruct (in_dec N.eq_dec id ord) as [_|Hx]; [|contradiction]. destruct MI as [o' MI].
      assert (G2 : idx_get (cidx s2) id = Some e) by (rewrite Hd, idx_get_app, Gd; reflexivity).
      rewrite Hdel in G2. inversion G2; subst e. right. eexists. split; [exact MI | simpl; lia].
    + left. rewrite MI. change (f_idx (files_of a)) with (save_idx (a_db a)). rewrite save_idx_get by exact Ca.
      destruct (idx_get (a_db a) id) as [e0|] eqn:G0; [|reflexivity]. exfalso.
      destruct (Csome id e0 G0) as [_ [_ [[nv1 [G1 Hpos]] _]]].
      pose proof (ci_ent _ I1 id) as He. unfold ent_ok in He. rewrite G1 in He. destruct He as [_ He].
      assert (Hb : (0 <=? nv_size nv1)%Z = true) by (apply Z.leb_le; exact Hpos). rewrite Hb in He. destruct He as [Hi1 _].
      assert (Hi : idx_get (cidx s2) id = idx_get (cidx s1) id) by (rewrite Hd, idx_get_app, Gd; reflexivity).
      rewrite Hdel, Hi1 in Hi. inversion Hi. lia.
Qed.

(* ---------- the three ways the full statement fails ---------- *)
Definition nd (id : N) (data : bytes) (flags lastmod : N) (t : N * N) : needle :=
  {| n_id := id; n_cookie := 7; n_data := data; n_flags := flags; n_name := []; n_mime := []; n_pairs := [];
     n_lastmod := lastmod; n_ttl := t |}.

Definition g4 : cfg := {| g_vttl := (0, 0) |}.
Definition sec : N := 1000000000.

(* 0: an empty blob *)
Definition w_empty_h1 : list cevent :=
  [(1000 * sec, CWrite (nd 1 [] 8 1000 (0, 0))); (1000 * sec, CWrite (nd 2 [7] 8 1000 (0, 0)))].

Lemma refuted_empty :
  Permutation [] (default_ord g4 w_empty_h1 []) /\
  ttl_consistent (g_vttl g4) 1000 (1001 * sec) w_empty_h1 = true /\
  reload_noop g4 Index 1000 [] w_empty_h1 [] = true /\
  read_of (compacted g4 Index 1000 [] w_empty_h1 []) (1001 * sec) 1 = None /\
  read_of (twin g4 w_empty_h1 []) (1001 * sec) 1 = Some (0%Z, blank_view 0).
Proof. vm_compute. repeat split; try reflexivity; apply Permutation_refl. Qed.

(* 1: a needle with its own TTL (3 days) in a volume without TTL *)
Definition w_ttl_h1 : list cevent :=
  [(1000 * sec, CWrite (nd 1 [5] 24 1000 (3, 3))); (1000 * sec, CWrite (nd 2 [7] 8 1000 (0, 0)))].

Lemma refuted_ttl :
  Permutation [] (default_ord g4 w_ttl_h1 []) /\
  has_empty (w_ttl_h1 ++ []) = false /\
  reload_noop g4 Index 1000 [] w_ttl_h1 [] = true /\
  read_of (compacted g4 Index 1000 [] w_ttl_h1 []) (1001 * sec) 1 = None /\
  read_of (twin g4 w_ttl_h1 []) (1001 * sec) 1 = Some (1%Z, view_of (nd 1 [5] 24 1000 (3, 3))).
Proof. vm_compute. repeat split; try reflexivity; apply Permutation_refl. Qed.

(* 2: scan-based compaction, the largest key is not the last record *)
Definition w_scan_h1 : list cevent :=
  [(1000 * sec, CWrite (nd 2 [5] 8 1000 (0, 0))); (1000 * sec, CWrite (nd 1 [7] 8 1000 (0, 0)))].

Lemma refuted_scan :
  Permutation [] (default_ord g4 w_scan_h1 []) /\
  has_empty (w_scan_h1 ++ []) = false /\
  ttl_consistent (g_vttl g4) 1000 (1001 * sec) w_scan_h1 = true /\
  check_files (compacted_files g4 Scan 1000 [] w_scan_h1 []) = (0%nat, Some 48, false) /\
  read_of (compacted g4 Scan 1000 [] w_scan_h1 []) (1001 * sec) 1 = None /\
  read_of (twin g4 w_scan_h1 []) (1001 * sec) 1 = Some (1%Z, view_of (nd 1 [7] 8 1000 (0, 0))).
Proof. vm_compute. repeat split; try reflexivity; apply Permutation_refl. Qed.

(* the former finding 3 (a write beyond 32 GiB while the compaction runs, lost with 5-byte
   offsets because makeupDiff patched four offset bytes only) is repaired: the same history
   now reads the same on both volumes, for both iteration orders of the map *)
Definition w_hi_h1 : list cevent := [(1000 * sec, CWrite (nd 1 [5] 8 1000 (0, 0)))].
Definition w_hi_h2 : list cevent :=
  [(1000 * sec, CWrite (nd 3 [6] 8 1000 (0, 0))); (0, CPad 34359738432); (1000 * sec, CWrite (nd 2 [7] 8 1000 (0, 0)))].

Lemma beyond_32g_ok : forall ord, ord = [2; 3] \/ ord = [3; 2] ->
  reload_noop g4 Index 1000 ord w_hi_h1 w_hi_h2 = true /\
  map (read_of (compacted g4 Index 1000 ord w_hi_h1 w_hi_h2) (1001 * sec)) [1; 2; 3] =
  map (read_of (twin g4 w_hi_h1 w_hi_h2) (1001 * sec)) [1; 2; 3] /\
  read_of (twin g4 w_hi_h1 w_hi_h2) (1001 * sec) 2 = Some (1%Z, view_of (nd 2 [7] 8 1000 (0, 0))).
Proof. intros ord [->| ->]; vm_compute; repeat split; reflexivity. Qed.

(* ---------- non-vacuity ---------- *)
Definition ex_h1 : list cevent :=
  [(1, CWrite (nd 1 [1] 8 1000 (0, 0))); (2, CWrite (nd 2 [2] 8 1000 (0, 0)));
   (3, CWrite (nd 1 [3; 3] 8 1000 (0, 0))); (4, CDelete 2 7); (5, CWrite (nd 3 [4] 24 1000 (1, 1)))].
Definition ex_h2 : list cevent :=
  [(6, CWrite (nd 2 [5] 8 1000 (0, 0))); (7, CDelete 1 7); (8, CWrite (nd 4 [6] 8 1000 (0, 0)))].

Lemma example_ok : forall al,
  let ord := default_ord g4 ex_h1 ex_h2 in
  has_empty (ex_h1 ++ ex_h2) = false /\
  ttl_consistent (g_vttl g4) 1000 (1001 * sec) ex_h1 = true /\
  reload_noop g4 al 1000 ord ex_h1 ex_h2 = true /\
  map (fun k => option_map fst (read_of (compacted g4 al 1000 ord ex_h1 ex_h2) (1001 * sec) k)) [1; 2; 3; 4; 5]
  = [None; Some 1%Z; None; Some 1%Z; None] /\
  map (fun k => option_map fst (read_of (twin g4 ex_h1 ex_h2) (1001 * sec) k)) [1; 2; 3; 4; 5]
  = [None; Some 1%Z; None; Some 1%Z; None].
Proof. intros []; vm_compute; repeat split; reflexivity. Qed.
