(* C22: liveness.  Once the pending sealed buffers have been flushed, three steps of the
   subscriber deliver everything that is later than its start timestamp. *)
From Coq Require Import List ZArith NArith Bool Lia.
From SW Require Import model.LogBuf proof.LogBufProofs proof.LogBufInv proof.LogBufSteps
  proof.LogBufMain proof.LogBufSafety.
Import ListNotations.
Local Open Scope Z_scope.

(* ---------- lastFlushTime is the end of what has been flushed and acknowledged ---------- *)
Definition FlushInv (s : st) : Prop :=
  match inflight s with
  | None => lastFlush s = last_ts (concat (disk s)) zeroT
  | Some g => exists d', disk s = d' ++ [g_data g] /\ lastFlush s = last_ts (concat d') zeroT
  end.

(* the subscriber never sees an error other than ResumeFromDisk, and is only sent back to
   the disk when the disk has something for it *)
Definition SubInv2 (s : st) (u : sub) : Prop :=
  (mem_err u = 0%N \/ mem_err u = 1%N) /\
  (on_disk u = true -> mem_err u = 1%N -> lastFlush s <> zeroT /\ lastRead u < lastFlush s).

Lemma seal_frame : forall s, lastFlush (seal true s) = lastFlush s /\ disk (seal true s) = disk s /\
  inflight (seal true s) = inflight s.
Proof. intros. unfold seal. destruct (pos s =? 0); auto. Qed.

Lemma add_pre_frame : forall iv s ev len,
  lastFlush (add_pre iv true s ev len) = lastFlush s /\ disk (add_pre iv true s ev len) = disk s /\
  inflight (add_pre iv true s ev len) = inflight s.
Proof.
  intros. unfold add_pre.
  set (sa := if pos s =? 0 then set_start s (adjust_ts (lastTs s) ev) else s).
  assert (Hsa : lastFlush sa = lastFlush s /\ disk sa = disk s /\ inflight sa = inflight s).
  { unfold sa. destruct (pos s =? 0); auto. }
  destruct (rotates iv sa _ _); [|exact Hsa].
  destruct (seal_frame sa) as [A [B C]]. destruct Hsa as [A' [B' C']].
  match goal with |- context [if ?c then _ else _] => destruct c end;
    cbn [realloc set_start lastFlush disk inflight]; rewrite A, B, C; auto.
Qed.

Lemma add_frame : forall iv s ev len id,
  lastFlush (add iv true s ev len id) = lastFlush s /\ disk (add iv true s ev len id) = disk s /\
  inflight (add iv true s ev len id) = inflight s.
Proof. intros. unfold add. cbn [write lastFlush disk inflight]. apply add_pre_frame. Qed.

Lemma FlushInv_frame : forall s s', lastFlush s' = lastFlush s -> disk s' = disk s ->
  inflight s' = inflight s -> FlushInv s -> FlushInv s'.
Proof. intros s s' A B C H. unfold FlushInv in *. rewrite A, B, C. exact H. Qed.

Lemma step_flushinv : forall iv gh y o, Inv gh (buf y) -> FlushInv (buf y) ->
  FlushInv (buf (step iv true y o)).
Proof.
  intros iv gh y o [HI _] HF. destruct o; cbn [step buf]; try exact HF.
  - destruct (add_frame iv (buf y) ev len id) as [A [B C]]. eapply FlushInv_frame; eauto.
  - destruct (seal_frame (buf y)) as [A [B C]]. eapply FlushInv_frame; eauto.
  - unfold flush_write. destruct (inflight (buf y)) as [gi|] eqn:Ei; [exact HF|].
    destruct (queue (buf y)) as [|g q]; [exact HF|].
    unfold FlushInv in *. rewrite Ei in HF. cbn [inflight disk lastFlush]. exists (disk (buf y)). auto.
  - unfold flush_mark. destruct (inflight (buf y)) as [g|] eqn:Ei; [|exact HF].
    unfold FlushInv in *. rewrite Ei in HF. cbn [inflight disk lastFlush].
    destruct HF as [d' [Hd _]]. destruct (i_infl _ _ HI g Ei) as [[Hne [_ Hstop]] _].
    rewrite Hd, concat_app. cbn [concat]. rewrite app_nil_r, last_ts_app.
    rewrite Hstop. apply last_ts_default. exact Hne.
Qed.

Lemma step_lastFlush_mono : forall iv gh y o, Inv gh (buf y) ->
  lastFlush (buf y) <= lastFlush (buf (step iv true y o)) /\
  (lastFlush (buf y) <> zeroT -> lastFlush (buf (step iv true y o)) <> zeroT).
Proof.
  intros iv gh y o [HI _]. pose proof zeroT_neg.
  destruct o; cbn [step buf]; try (split; [lia|auto]).
  - destruct (add_frame iv (buf y) ev len id) as [A _]. rewrite A. split; [lia|auto].
  - destruct (seal_frame (buf y)) as [A _]. rewrite A. split; [lia|auto].
  - unfold flush_write. destruct (inflight (buf y)); [split; [lia|auto]|].
    destruct (queue (buf y)); split; cbn [lastFlush]; try lia; auto.
  - unfold flush_mark. destruct (inflight (buf y)) as [g|] eqn:Ei; [|split; [lia|auto]].
    cbn [lastFlush]. destruct (inflight_facts gh (buf y) g HI Ei) as [Hle _]. split; [lia|].
    intros Hn. destruct (i_lf _ _ HI) as [Hz|[e [He1 He2]]]; [congruence|].
    pose proof (i_incr _ _ HI) as Hinc. rewrite <- (i_disk _ _ HI) in Hinc.
    apply incr_app in Hinc. destruct Hinc as [Hd _]. pose proof (incr_lb _ _ _ Hd He1). lia.
Qed.

Lemma scan_slot_not_resume : forall m t, scan_slot m t <> Some RResume.
Proof.
  intros m t. unfold scan_slot. destruct (t <? m_start m); [discriminate|].
  destruct ((m_start m <=? t) && (t <? m_stop m)); [|discriminate].
  destruct (locate (m_arr m) t 0) as [p|]; [|discriminate]. destruct (m_size m <? p); discriminate.
Qed.

Lemma rfb_resume : forall s t, read_from_buffer s t = RResume -> lastFlush s <> zeroT /\ t < lastFlush s.
Proof.
  intros s t H. unfold read_from_buffer in H.
  destruct (negb (lastFlush s =? zeroT) && (t <? lastFlush s)) eqn:E0.
  { apply andb_true_iff in E0. destruct E0 as [A B]. apply negb_true_iff in A. split; lia. }
  exfalso. destruct (t =? stopT s); [discriminate|]. destruct (stopT s <? t); [discriminate|].
  destruct (t <? startT s).
  - pose proof (scan_slot_not_resume (s0 s) t). pose proof (scan_slot_not_resume (s1 s) t).
    pose proof (scan_slot_not_resume (s2 s) t).
    destruct (scan_slot (s0 s) t); [congruence|]. destruct (scan_slot (s1 s) t); [congruence|].
    destruct (scan_slot (s2 s) t); [congruence|discriminate].
  - destruct (bsearch _ _ _ _ _); discriminate.
Qed.

(* a memory read under the invariant: class 0, 1 or 2 *)
Lemma read_once_classes : forall gh s t, Inv gh s -> 0 <= t ->
  match read_once s t with
  | (cls, X, t') =>
    (cls = 0%N /\ X = [] /\ t' = t) \/
    (cls = 1%N /\ X = [] /\ t' = t /\ lastFlush s <> zeroT /\ t < lastFlush s) \/
    (cls = 2%N /\ X <> [] /\ t' = last_ts X t)
  end.
Proof.
  intros gh s t HI Ht. pose proof (read_mem_split gh s t HI Ht) as Hsp. unfold read_once.
  pose proof (rfb_resume s t) as Hres.
  destruct (read_from_buffer s t) as [| |c|].
  - right. left. destruct (Hres eq_refl). auto.
  - left. auto.
  - destruct Hsp as [X [Hd [Hne _]]]. rewrite Hd. right. right. auto.
  - destruct Hsp.
Qed.

Lemma sub_step_inv2 : forall gh s u, Inv gh s -> 0 <= lastRead u -> SubInv2 s u -> SubInv2 s (sub_step s u).
Proof.
  intros gh s u HI Ht [Herr Hd]. unfold sub_step.
  destruct (mem_err u =? 4)%N eqn:E4; [split; assumption|].
  destruct (on_disk u) eqn:Eo.
  - unfold sub_disk. destruct (read_disk (lastRead u) (disk s) [] 0) as [X p].
    destruct (p =? 0); [destruct (mem_err u =? 1)%N eqn:E1|]; split; cbn [mem_err on_disk lastRead]; auto;
      try (intros; discriminate).
  - unfold sub_mem. pose proof (read_once_classes gh s (lastRead u) HI Ht) as Hc.
    destruct (read_once s (lastRead u)) as [[cls X] t'].
    destruct Hc as [[-> _]|[[-> [_ [_ [A B]]]]|[-> _]]].
    + change (SubInv2 s u). split; [exact Herr|rewrite Eo; intros Hx; discriminate Hx].
    + split; cbn [mem_err on_disk lastRead]; auto.
    + split; cbn [mem_err on_disk lastRead]; auto. intros; discriminate.
Qed.

Lemma sub_mem_loop_inv2 : forall fuel gh s t0 u, Inv gh s -> 0 <= t0 ->
  SubInv t0 (E_of gh s) (lastTs s) u -> SubInv2 s u -> SubInv2 s (sub_mem_loop fuel s u).
Proof.
  induction fuel as [|f IH]; intros gh s t0 u HI Ht0 HS H2; [exact H2|].
  cbn [sub_mem_loop]. destruct (on_disk u || (mem_err u =? 4)%N) eqn:E; [exact H2|].
  apply orb_false_iff in E. destruct E as [Eo E4].
  assert (Hstep : sub_step s u = sub_mem s u) by (unfold sub_step; rewrite E4, Eo; reflexivity).
  assert (Hle : 0 <= lastRead u) by (destruct HS; lia).
  pose proof (sub_step_inv2 gh s u HI Hle H2) as H2'. rewrite Hstep in H2'.
  destruct (fst (fst (read_once s (lastRead u))) =? 2)%N; [|exact H2'].
  apply (IH gh s t0); auto. apply sub_mem_inv; auto.
Qed.

(* ---------- all invariants along a schedule ---------- *)
Definition AllInv (t0 : Z) (gh : ghost) (y : sys) : Prop :=
  Inv gh (buf y) /\ SubInv t0 (E_of gh (buf y)) (lastTs (buf y)) (subs y) /\
  FlushInv (buf y) /\ SubInv2 (buf y) (subs y).

Lemma SubInv2_mono : forall s s' u, lastFlush s <= lastFlush s' ->
  (lastFlush s <> zeroT -> lastFlush s' <> zeroT) -> SubInv2 s u -> SubInv2 s' u.
Proof.
  intros s s' u Hle Hz [A B]. split; [exact A|]. intros Ho He. destruct (B Ho He) as [C D]. split; [auto|lia].
Qed.

Lemma step_all : forall iv gh y o t0, 0 <= t0 -> AllInv t0 gh y -> op_wf o -> step_trig iv true y o = None ->
  exists gh', AllInv t0 gh' (step iv true y o) /\
              E_of gh' (buf (step iv true y o)) = E_of gh (buf y) ++ op_events (buf y) o.
Proof.
  intros iv gh y o t0 Ht0 [HI [HS [HF H2]]] Hwf Htr.
  destruct (step_inv iv gh y o t0 Ht0 HI HS Hwf Htr) as [gh' [HI' [HE' HS']]].
  exists gh'. split; [|exact HE']. split; [exact HI'|]. split; [exact HS'|].
  split; [apply (step_flushinv iv gh); assumption|].
  destruct (step_lastFlush_mono iv gh y o HI) as [Hm Hz].
  assert (Hle : 0 <= lastRead (subs y)) by (destruct HS; lia).
  destruct o; cbn [step buf subs] in *; try (eapply SubInv2_mono; eauto; fail); try exact H2.
  - apply (sub_step_inv2 gh); assumption.
  - destruct (on_disk (subs y)); [apply (sub_step_inv2 gh); assumption|].
    apply (sub_mem_loop_inv2 _ gh _ t0); assumption.
Qed.

Lemma run_all : forall iv ops gh y t0, 0 <= t0 -> AllInv t0 gh y -> ops_wf ops ->
  run_trig iv true y ops = None ->
  exists gh', AllInv t0 gh' (run iv true y ops) /\
              E_of gh' (buf (run iv true y ops)) = E_of gh (buf y) ++ run_events iv true y ops.
Proof.
  intros iv ops. induction ops as [|o ops IH]; intros gh y t0 Ht0 HA Hwf Htr.
  - exists gh. cbn [run run_events]. rewrite app_nil_r. auto.
  - cbn [run run_trig run_events] in *. inversion Hwf as [|? ? Hwo Hwr]; subst.
    destruct (step_trig iv true y o) eqn:Est; [discriminate|].
    destruct (step_all iv gh y o t0 Ht0 HA Hwo Est) as [gh1 [HA1 HE1]].
    destruct (IH gh1 _ t0 Ht0 HA1 Hwr Htr) as [gh2 [HA2 HE2]].
    exists gh2. split; [exact HA2|]. rewrite HE2, HE1, <- app_assoc. reflexivity.
Qed.

Lemma init_all : forall c t0, 0 <= t0 -> AllInv t0 gh0 (sys0 c t0).
Proof.
  intros c t0 Ht0. split; [apply init_inv|]. split.
  - unfold SubInv, sys0, sub_init. simpl. split; [apply Z.le_refl|]. split; [reflexivity|left; reflexivity].
  - split; [reflexivity|]. split; [left; reflexivity|]. cbn. intros _ H. discriminate H.
Qed.

(* ---------- draining the flush pipeline ---------- *)
Fixpoint flush_all (n : nat) : list op :=
  match n with O => [] | S n' => FlushWrite :: FlushMark :: flush_all n' end.

Definition pending (s : st) : nat := length (queue s) + match inflight s with Some _ => 1 | None => 0 end.

Lemma flush_pair_pending : forall s, (pending (flush_mark (flush_write s)) <= pending s - 1)%nat.
Proof.
  intros s. unfold pending, flush_write.
  destruct (inflight s) as [g|] eqn:Ei.
  - unfold flush_mark. rewrite Ei. cbn [queue inflight]. lia.
  - destruct (queue s) as [|g q] eqn:Eq.
    + unfold flush_mark. rewrite Ei, Eq. cbn. rewrite ?Ei, ?Eq. cbn. lia.
    + unfold flush_mark. cbn [queue inflight length]. lia.
Qed.

Lemma flush_all_drains : forall iv n y, (pending (buf y) <= n)%nat ->
  pending (buf (run iv true y (flush_all n))) = 0%nat.
Proof.
  intros iv n. induction n as [|n IH]; intros y H; [cbn; lia|].
  cbn [flush_all run step buf]. apply IH. cbn [buf].
  pose proof (flush_pair_pending (buf y)). lia.
Qed.

Lemma flush_all_quiet : forall iv n y, run_trig iv true y (flush_all n) = None /\ ops_wf (flush_all n) /\
  run_events iv true y (flush_all n) = [] /\ subs (run iv true y (flush_all n)) = subs y.
Proof.
  intros iv n. induction n as [|n IH]; intros y.
  - cbn. repeat split. constructor.
  - cbn [flush_all run_trig run run_events step step_trig op_events app subs buf].
    destruct (IH {| buf := flush_mark (flush_write (buf y)); subs := subs y |}) as [A [B [C D]]].
    split; [exact A|]. split; [repeat constructor; exact B|]. split; [exact C|exact D].
Qed.

Lemma pending_zero : forall s, pending s = 0%nat -> queue s = [] /\ inflight s = None.
Proof.
  intros s H. unfold pending in H. destruct (inflight s); [lia|]. destruct (queue s); [auto|cbn in H; lia].
Qed.

(* ---------- the binary search finds its position ---------- *)
Lemma bsearch_complete : forall l t fuel lo hi,
  0 <= t -> 0 <= lo <= hi -> hi - lo < Z.of_nat fuel ->
  (lo = 0 \/ ts_at l (lo - 1) <= t) -> t < ts_at l hi ->
  exists mid, bsearch fuel l t lo hi = Some mid.
Proof.
  intros l t fuel. induction fuel as [|f IH]; intros lo hi Ht Hlo Hf Hinv Hhi; [lia|].
  cbn [bsearch]. destruct (hi <? lo) eqn:E0; [lia|].
  pose proof (mid_bounds lo hi ltac:(lia)) as Hm.
  set (mid := (lo + hi) / 2) in *.
  destruct (ts_at l mid <=? t) eqn:E1.
  - assert (mid < hi). { destruct (Z.eq_dec mid hi) as [Heq|]; [rewrite Heq in E1; lia|lia]. }
    apply IH; try lia. right. replace (mid + 1 - 1) with mid by lia. lia.
  - destruct ((if 0 <? mid then ts_at l (mid - 1) else 0) <=? t) eqn:E2; [eauto|].
    assert (mid < hi).
    { destruct (Z.eq_dec mid hi) as [Heq|]; [|lia]. exfalso.
      assert (lo = mid).
      { unfold mid in Heq. pose proof (Z.div_mod (lo + hi) 2 ltac:(lia)).
        pose proof (Z.mod_pos_bound (lo + hi) 2 ltac:(lia)). lia. }
      destruct (0 <? mid) eqn:E3; [|lia]. destruct Hinv as [Hinv|Hinv]; [lia|].
      rewrite <- H in E2. lia. }
    apply IH; try lia; exact Hinv.
Qed.

Lemma last_ts_nth : forall (l : list entry) d, l <> [] ->
  last_ts l d = e_ts (nth (length l - 1) l dummy_entry).
Proof.
  intros l d Hne. rewrite <- (firstn_all l) at 1.
  apply (firstn_last_ts l (length l) dummy_entry d). destruct l; [congruence|cbn; lia].
Qed.

(* ---------- a read of the memory when nothing is pending ---------- *)
Definition all_le (E : list entry) (t : Z) : Prop := forall e, In e E -> e_ts e <= t.

Lemma read_quiescent : forall gh s t,
  Inv gh s -> FlushInv s -> queue s = [] -> inflight s = None -> 0 <= t ->
  (lastFlush s = zeroT \/ lastFlush s <= t) ->
  match read_once s t with
  | (cls, X, t') => t' = last_ts X t /\ all_le (E_of gh s) t'
  end.
Proof.
  intros gh s t HInv HF Hq Hi Ht Hlf. pose proof zeroT_neg as Hz.
  destruct HInv as [HI Hcur].
  assert (HInv : Inv gh s) by (split; assumption).
  pose proof (i_incr _ _ HI) as Hinc.
  (* the disk holds everything but the current buffer *)
  assert (Hdisk : concat (disk s) = ev_old gh ++ dat (r0 gh) ++ dat (r1 gh) ++ dat (r2 gh)).
  { pose proof (i_disk _ _ HI) as Hd. rewrite Hq in Hd. cbn [map concat app] in Hd.
    unfold E_of in Hd. rewrite !app_assoc in Hd. apply app_inv_tail in Hd.
    rewrite Hd, <- !app_assoc. reflexivity. }
  assert (Hdle : forall e, In e (concat (disk s)) -> e_ts e <= t).
  { intros e He. unfold FlushInv in HF. rewrite Hi in HF.
    assert (Hd0 : incr 0 (concat (disk s))).
    { unfold E_of in Hinc. rewrite Hdisk. rewrite !app_assoc in Hinc. apply incr_app in Hinc.
      rewrite <- !app_assoc in Hinc. tauto. }
    pose proof (incr_le_last _ _ _ Hd0 He) as Hle.
    rewrite (last_ts_default _ 0 zeroT) in Hle by (intro Hn; rewrite Hn in He; destruct He).
    pose proof (incr_lb _ _ _ Hd0 He). destruct Hlf; lia. }
  pose proof (read_mem_split gh s t HInv Ht) as Hsp.
  unfold read_once. unfold read_from_buffer in *.
  destruct (negb (lastFlush s =? zeroT) && (t <? lastFlush s)) eqn:E0.
  { apply andb_true_iff in E0. destruct E0 as [A B]. apply negb_true_iff in A. destruct Hlf; lia. }
  assert (Hall : forall hi, t <= hi -> (forall e, In e (cur s) -> e_ts e <= hi) -> all_le (E_of gh s) hi).
  { intros hi Hhi Hc e He. unfold E_of in He. rewrite !app_assoc in He. apply in_app_or in He.
    destruct He as [He|He]; [|auto]. rewrite <- !app_assoc, <- Hdisk in He. specialize (Hdle _ He). lia. }
  unfold cur_times in Hcur.
  destruct (t =? stopT s) eqn:E1.
  { rewrite last_ts_nil. split; [reflexivity|]. apply Hall; [lia|].
    destruct (cur s) as [|x l] eqn:Hc; [intros e []|]. destruct Hcur as [_ Hsp'].
    intros e He. assert (Hci : incr 0 (x :: l)).
    { unfold E_of in Hinc. rewrite Hc, !app_assoc in Hinc. apply incr_app in Hinc. destruct Hinc as [Ha Hb].
      eapply incr_weaken; [|exact Hb]. apply incr_last_ge in Ha. lia. }
    pose proof (incr_le_last _ _ _ Hci He). lia. }
  destruct (stopT s <? t) eqn:E2.
  { rewrite last_ts_nil. split; [reflexivity|]. apply Hall; [lia|].
    destruct (cur s) as [|x l] eqn:Hc; [intros e []|]. destruct Hcur as [_ Hsp'].
    intros e He. assert (Hci : incr 0 (x :: l)).
    { unfold E_of in Hinc. rewrite Hc, !app_assoc in Hinc. apply incr_app in Hinc. destruct Hinc as [Ha Hb].
      eapply incr_weaken; [|exact Hb]. apply incr_last_ge in Ha. lia. }
    pose proof (incr_le_last _ _ _ Hci He). lia. }
  (* t < stopT: the current buffer is not empty and its tail is returned *)
  destruct (cur s) as [|x l] eqn:Hc; [lia|]. destruct Hcur as [Hst Hstop].
  assert (Hci : incr 0 (x :: l)).
  { unfold E_of in Hinc. rewrite Hc, !app_assoc in Hinc. apply incr_app in Hinc. destruct Hinc as [Ha Hb].
    eapply incr_weaken; [|exact Hb]. apply incr_last_ge in Ha. lia. }
  assert (Hfin : forall X, X <> [] -> (exists pre, x :: l = pre ++ X) ->
                 last_ts X t = stopT s /\ all_le (E_of gh s) (last_ts X t)).
  { intros X Hne [pre Hpre]. assert (HlX : last_ts X t = stopT s).
    { rewrite Hstop, Hpre, last_ts_app. apply last_ts_default. exact Hne. }
    split; [exact HlX|]. rewrite HlX. apply Hall; [lia|]. intros e He.
    pose proof (incr_le_last _ _ _ Hci He). lia. }
  destruct (t <? startT s) eqn:E3.
  - (* every slot is covered by lastFlushTime: the scan falls through *)
    assert (Hnone : forall m o, slot_is (lastFlush s) m o -> oseg_ok o -> incr 0 (dat o) ->
                      (forall e, In e (dat o) -> 0 < e_len e) -> (forall e, In e (dat o) -> e_ts e <= t) ->
                      scan_slot m t = None).
    { intros m o Hs Hk Hio Hlen Hle.
      pose proof (scan_slot_spec _ m o t Hs Hk Hio Hlen Hlf Ht) as Hspec.
      destruct (scan_slot m t) as [r|]; [|reflexivity]. exfalso.
      destruct Hspec as [pre [X [Heq [Hne [_ [Hx _]]]]]]. destruct X as [|e0 X]; [congruence|].
      specialize (Hx e0 (or_introl eq_refl)).
      assert (In e0 (dat o)) by (rewrite Heq; apply in_or_app; right; left; reflexivity).
      specialize (Hle _ H). lia. }
    destruct (E_pieces _ _ HI) as [_ [Hi0 [Hi1 Hi2]]].
    assert (HL : forall e, In e (E_of gh s) -> 0 < e_len e) by (apply (i_len _ _ HI)).
    unfold E_of in HL.
    assert (N0 : scan_slot (s0 s) t = None).
    { apply (Hnone _ _ (i_s0 _ _ HI) (i_ok0 _ _ HI) Hi0);
        [intros; apply HL; rewrite !in_app_iff; tauto
        |intros e He; apply Hdle; rewrite Hdisk, !in_app_iff; tauto]. }
    assert (N1 : scan_slot (s1 s) t = None).
    { apply (Hnone _ _ (i_s1 _ _ HI) (i_ok1 _ _ HI) Hi1);
        [intros; apply HL; rewrite !in_app_iff; tauto
        |intros e He; apply Hdle; rewrite Hdisk, !in_app_iff; tauto]. }
    assert (N2 : scan_slot (s2 s) t = None).
    { apply (Hnone _ _ (i_s2 _ _ HI) (i_ok2 _ _ HI) Hi2);
        [intros; apply HL; rewrite !in_app_iff; tauto
        |intros e He; apply Hdle; rewrite Hdisk, !in_app_iff; tauto]. }
    rewrite N0, N1, N2 in *.
    destruct Hsp as [X [Hd [Hne _]]]. rewrite Hd.
    assert (HX : X = x :: l).
    { rewrite decode_recs in Hd; [inversion Hd; reflexivity|].
      intros e He. apply HL. rewrite ?Hc, !in_app_iff. tauto. }
    split; [reflexivity|]. apply (Hfin X Hne). exists []. rewrite HX. reflexivity.
  - (* binary search: it finds a position because startT <= t < stopT *)
    assert (Hn : (0 < length (x :: l))%nat) by (cbn; lia).
    destruct (bsearch_complete (x :: l) t (S (S (length (x :: l)))) 0 (Z.of_nat (length (x :: l)) - 1))
      as [mid Hmid]; try lia.
    { unfold ts_at. replace (Z.to_nat (Z.of_nat (length (x :: l)) - 1)) with (length (x :: l) - 1)%nat by lia.
      rewrite <- (last_ts_nth (x :: l) 0) by congruence. lia. }
    rewrite Hmid in *. destruct Hsp as [X [Hd [Hne _]]]. rewrite Hd.
    assert (HX : X = skipn (Z.to_nat mid) (x :: l)).
    { rewrite decode_recs in Hd; [inversion Hd; reflexivity|].
      intros e He. apply (i_len _ _ HI). unfold E_of. rewrite Hc, !in_app_iff. right. right. right. right.
      rewrite <- (firstn_skipn (Z.to_nat mid) (x :: l)). apply in_or_app. right. exact He. }
    split; [reflexivity|]. apply (Hfin X Hne). exists (firstn (Z.to_nat mid) (x :: l)).
    rewrite HX, firstn_skipn. reflexivity.
Qed.
