(* Proofs about the placeholder-aware reference of model/FsCache.v (C39):
   the cache tree refines it for ALL valid histories, lookups and FsNode
   existence; the model-independent trigger [ptrigger] is the tree trigger;
   a ghost move always shows. *)
From Coq Require Import String List NArith Bool Arith Lia.
From SW Require Import model.FsCache proof.FsCacheProofs.
Import ListNotations.
Local Open Scope string_scope.
Local Open Scope list_scope.

(* ---------- has on the tree ---------- *)
Lemma has_nil : forall t, has t [] = true.
Proof. reflexivity. Qed.

Lemma has_cons : forall t n q,
  has t (n :: q) = match find_child n (children t) with Some c => has c q | None => false end.
Proof. intros. unfold has. simpl. destruct (find_child n (children t)); reflexivity. Qed.

Lemma has_empty_cons : forall n q, has empty_node (n :: q) = false.
Proof. reflexivity. Qed.

Lemma has_child_or_empty_cons : forall t n m q,
  has (child_or_empty n t) (m :: q) = has t (n :: m :: q).
Proof.
  intros. rewrite (has_cons t n). unfold child_or_empty.
  destruct (find_child n (children t)); reflexivity.
Qed.

Lemma is_prefix_nil_r : forall q, is_prefix q [] = match q with [] => true | _ => false end.
Proof. intros [|n q]; reflexivity. Qed.

Lemma has_set : forall p t v q, has (set t p v) q = is_prefix q p || has t q.
Proof.
  induction p as [|n p IH]; intros t v q.
  - destruct q as [|m q]; [reflexivity|]. simpl. rewrite !has_cons. reflexivity.
  - destruct q as [|m q]; [reflexivity|].
    cbn [set]. rewrite !has_cons. cbn [children is_prefix].
    destruct (String.eqb m n) eqn:E; cbn [andb].
    + apply String.eqb_eq in E. subst m. rewrite find_put_same, IH.
      destruct q as [|x q]; [reflexivity|].
      rewrite has_child_or_empty_cons, has_cons. reflexivity.
    + rewrite find_put_other by auto. reflexivity.
Qed.

Lemma has_remove_at : forall p t q, p <> [] ->
  has (remove_at t p) q = if is_prefix p q then false else has t q.
Proof.
  induction p as [|n p IH]; intros t q Hne; [contradiction|]. simpl.
  destruct (find_child n (children t)) as [c|] eqn:F.
  - destruct p as [|x p'].
    + destruct q as [|m q]; [reflexivity|].
      rewrite !has_cons. cbn [children is_prefix].
      destruct (String.eqb n m) eqn:E; cbn [andb].
      * apply String.eqb_eq in E. subst m. rewrite find_remove_same. reflexivity.
      * rewrite find_remove_other by (rewrite String.eqb_sym; auto). reflexivity.
    + destruct q as [|m q]; [reflexivity|].
      rewrite !has_cons. cbn [children is_prefix].
      destruct (String.eqb n m) eqn:E; cbn [andb].
      * apply String.eqb_eq in E. subst m. rewrite find_put_same, F.
        apply IH. discriminate.
      * rewrite find_put_other by (rewrite String.eqb_sym; auto). reflexivity.
  - destruct q as [|m q]; [reflexivity|]. cbn [is_prefix].
    destruct (String.eqb n m) eqn:E; cbn [andb]; auto.
    apply String.eqb_eq in E. subst m. rewrite has_cons, F.
    destruct (is_prefix p q); reflexivity.
Qed.

Lemma has_delete : forall p t q, q <> [] ->
  has (delete t p) q = if is_prefix p q then false else has t q.
Proof.
  intros [|n p] t q Hq.
  - destruct q; [contradiction|]. reflexivity.
  - apply has_remove_at. discriminate.
Qed.

Lemma has_graft : forall p t s q, p <> [] ->
  has (graft t p s) q = if is_prefix p q then has s (skipn (length p) q) else has t q || is_prefix q p.
Proof.
  induction p as [|n p IH]; intros t s q Hne; [contradiction|].
  destruct p as [|x p'].
  - cbn [graft]. destruct q as [|m q]; [reflexivity|].
    rewrite !has_cons. cbn [children is_prefix length skipn].
    destruct (String.eqb n m) eqn:E; cbn [andb].
    + apply String.eqb_eq in E. subst m. rewrite find_put_same. reflexivity.
    + rewrite find_put_other by (rewrite String.eqb_sym; auto).
      rewrite String.eqb_sym, E. cbn [andb]. rewrite orb_false_r. reflexivity.
  - change (graft t (n :: x :: p') s) with
      (Node (value t) (put_child n (graft (child_or_empty n t) (x :: p') s) (children t))).
    destruct q as [|m q]; [reflexivity|].
    rewrite !has_cons. cbn [children]. cbn [is_prefix length skipn].
    destruct (String.eqb n m) eqn:E; cbn [andb].
    + apply String.eqb_eq in E. subst m. rewrite find_put_same.
      rewrite IH by discriminate. rewrite String.eqb_refl. cbn [andb].
      destruct q as [|y q]; [cbn [is_prefix]; rewrite !orb_true_r; reflexivity|].
      rewrite has_child_or_empty_cons, has_cons. reflexivity.
    + rewrite find_put_other by (rewrite String.eqb_sym; auto).
      rewrite String.eqb_sym, E. cbn [andb]. rewrite orb_false_r. reflexivity.
Qed.

Lemma has_node_at : forall t p s r, node_at t p = Some s -> has s r = has t (p ++ r).
Proof. intros t p s r H. unfold has. rewrite node_at_app, H. reflexivity. Qed.

Lemma has_move_found : forall t old new src q, old <> [] -> new <> [] ->
  node_at t old = Some src ->
  has (fst (move t old new)) q =
    if is_prefix new q then has t (old ++ skipn (length new) q)
    else (if is_prefix old q then false else has t q) || is_prefix q new.
Proof.
  intros t old new src q Ho Hn Hs. unfold move. rewrite Hs. simpl.
  rewrite has_graft by auto. rewrite has_remove_at by auto.
  rewrite (has_node_at _ _ _ _ Hs). reflexivity.
Qed.

(* ---------- membership in the directory set ---------- *)
Lemma d_mem_app : forall a b q, d_mem (a ++ b) q = d_mem a q || d_mem b q.
Proof. intros. unfold d_mem. apply existsb_app. Qed.

Lemma d_mem_filter : forall (f : path -> bool) d q, d_mem (filter f d) q = f q && d_mem d q.
Proof.
  intros f d q. unfold d_mem. induction d as [|e d IH]; simpl.
  - rewrite andb_false_r. reflexivity.
  - destruct (f e) eqn:Fe; simpl; rewrite IH.
    + destruct (path_eqb q e) eqn:E; simpl.
      * apply path_eqb_eq in E. subst e. rewrite Fe. reflexivity.
      * reflexivity.
    + destruct (path_eqb q e) eqn:E; simpl; auto.
      apply path_eqb_eq in E. subst e. rewrite Fe. reflexivity.
Qed.

Lemma d_mem_map_cons : forall n d m q,
  d_mem (map (cons n) d) (m :: q) = String.eqb m n && d_mem d q.
Proof.
  intros n d m q. unfold d_mem. induction d as [|e d IH]; cbn [map existsb].
  - rewrite andb_false_r. reflexivity.
  - rewrite IH. cbn [path_eqb]. destruct (String.eqb m n); reflexivity.
Qed.

Lemma d_mem_map_cons_nil : forall n d, d_mem (map (cons n) d) [] = false.
Proof. intros n d. unfold d_mem. induction d; simpl; auto. Qed.

Lemma d_mem_prefixes : forall p q, d_mem (prefixes p) q = is_prefix q p.
Proof.
  induction p as [|n p IH]; intros q.
  - destruct q; reflexivity.
  - destruct q as [|m q]; [reflexivity|].
    change (prefixes (n :: p)) with ([] :: map (cons n) (prefixes p)).
    change (d_mem ([] :: map (cons n) (prefixes p)) (m :: q))
      with (false || d_mem (map (cons n) (prefixes p)) (m :: q)).
    rewrite d_mem_map_cons, IH. reflexivity.
Qed.

Lemma d_mem_rekeyed : forall d old new q,
  d_mem (map (rekey_path old new) (filter (is_prefix old) d)) q =
    is_prefix new q && d_mem d (old ++ skipn (length new) q).
Proof.
  intros d old new q. unfold d_mem.
  induction d as [|e d IH].
  - simpl. rewrite andb_false_r. reflexivity.
  - cbn [filter]. destruct (is_prefix old e) eqn:Pe.
    + cbn [map existsb]. rewrite IH. unfold rekey_path at 1.
      destruct (path_eqb q (new ++ skipn (length old) e)) eqn:E.
      * apply path_eqb_eq in E. subst q. rewrite is_prefix_app, skipn_app_exact.
        rewrite <- (is_prefix_split _ _ Pe). rewrite path_eqb_refl. reflexivity.
      * destruct (is_prefix new q) eqn:Pq; auto. cbn [andb orb].
        destruct (path_eqb (old ++ skipn (length new) q) e) eqn:E2; auto.
        apply path_eqb_eq in E2. subst e. rewrite skipn_app_exact in E.
        rewrite <- (is_prefix_split _ _ Pq) in E. rewrite path_eqb_refl in E. discriminate.
    + rewrite IH. cbn [existsb].
      destruct (path_eqb (old ++ skipn (length new) q) e) eqn:E2.
      * apply path_eqb_eq in E2. subst e. rewrite is_prefix_app in Pe. discriminate.
      * reflexivity.
Qed.

Lemma is_prefix_antisym_skip : forall new q, is_prefix new q = true -> is_prefix q new = true ->
  skipn (length new) q = [].
Proof.
  induction new as [|x new IH]; intros [|y q] H1 H2; simpl in *; try discriminate; auto.
  apply andb_true_iff in H1. apply andb_true_iff in H2. apply IH; tauto.
Qed.

(* ---------- the flat value map under the unconditional move body ---------- *)
Lemma r_get_move_body : forall m old new q,
  r_get (map (rekey old new) (filter (fun e => is_prefix old (fst e)) m)
           ++ r_delete (r_delete m old) new) q =
    if is_prefix new q then r_get m (old ++ skipn (length new) q)
    else if is_prefix old q then None else r_get m q.
Proof.
  intros m old new q.
  rewrite r_get_app, r_get_rekeyed, !r_get_delete.
  destruct (is_prefix new q); auto.
  destruct (r_get m (old ++ skipn (length new) q)); auto.
Qed.

(* ---------- refinement of the placeholder-aware reference: unconditional ---------- *)
Definition pagree (t : tree) (s : pstate) : Prop :=
  (forall q, get t q = p_get s q) /\ (forall q, has t q = p_has s q).

Lemma p_init_agree : forall root, pagree (init root) (p_init root).
Proof.
  intros root. split; intro q.
  - apply init_agree.
  - destruct q as [|n q]; [reflexivity|]. unfold init, has, p_has, p_init, d_mem. simpl.
    reflexivity.
Qed.

Lemma fst_let_move : forall (A : Type) (x : A * bool),
  fst (let '(t', moved) := x in (t', {| r_node := None; r_flag := moved |})) = fst x.
Proof. intros A [? ?]. reflexivity. Qed.

Lemma snd_let_move : forall (A : Type) (x : A * bool),
  snd (let '(t', moved) := x in (t', {| r_node := None; r_flag := moved |})) =
    {| r_node := None; r_flag := snd x |}.
Proof. intros A [? ?]. reflexivity. Qed.

Lemma p_step_agree : forall t s o, pagree t s -> valid_op o = true ->
  pagree (fst (step t o)) (fst (p_step s o)).
Proof.
  intros t s o [Ag Ah] V. destruct o as [p v|p fresh|p|p|old new]; cbn [step p_step].
  - cbn [fst]. split; intro q.
    + unfold p_get, p_set. cbn [p_vals]. rewrite get_set, r_get_set. rewrite Ag. reflexivity.
    + rewrite has_set. destruct q as [|n q]; [reflexivity|].
      unfold p_has, p_set. cbn [p_dirs]. rewrite d_mem_app, d_mem_prefixes.
      rewrite Ah. reflexivity.
  - unfold ensure, p_ensure. rewrite <- (Ag p).
    destruct (get t p); cbn [fst]; [split; auto|].
    split; intro q.
    + unfold p_get, p_set. cbn [p_vals]. rewrite get_set, r_get_set. rewrite Ag. reflexivity.
    + rewrite has_set. destruct q as [|n q]; [reflexivity|].
      unfold p_has, p_set. cbn [p_dirs]. rewrite d_mem_app, d_mem_prefixes.
      rewrite Ah. reflexivity.
  - split; auto.
  - cbn [fst]. split; intro q.
    + unfold p_get, p_delete. cbn [p_vals]. rewrite get_delete, r_get_delete, Ag. reflexivity.
    + destruct q as [|n q]; [reflexivity|].
      rewrite has_delete by discriminate.
      unfold p_has, p_delete. cbn [p_dirs]. rewrite d_mem_filter.
      rewrite Ah. destruct (is_prefix p (n :: q)); reflexivity.
  - assert (Ho : old <> []) by (intro; subst; discriminate).
    assert (Hn : new <> []) by (intro; subst; destruct old; discriminate).
    rewrite !fst_let_move.
    pose proof (Ah old) as Hold. unfold has in Hold. unfold p_move.
    destruct (node_at t old) as [src|] eqn:Hs.
    + rewrite <- Hold. cbn [fst]. split; intro q.
      * rewrite (get_move_found t old new src) by auto.
        unfold p_get. cbn [p_vals]. rewrite r_get_move_body. rewrite !Ag. reflexivity.
      * rewrite (has_move_found t old new src) by auto.
        destruct q as [|n q].
        { destruct new; [contradiction|]. cbn [is_prefix]. rewrite orb_true_r. reflexivity. }
        unfold p_has at 1. cbn [p_dirs].
        rewrite !d_mem_app, d_mem_rekeyed, d_mem_prefixes, !d_mem_filter.
        destruct (is_prefix new (n :: q)) eqn:Pn; cbn [andb negb orb].
        -- rewrite orb_false_r.
           rewrite Ah.
           destruct (is_prefix (n :: q) new) eqn:Pq.
           ++ rewrite (is_prefix_antisym_skip _ _ Pn Pq), app_nil_r.
              rewrite <- Ah. unfold has. rewrite Hs. rewrite orb_true_r. reflexivity.
           ++ rewrite orb_false_r.
              destruct (old ++ skipn (length new) (n :: q)) eqn:Eo.
              { apply app_eq_nil in Eo. destruct Eo; contradiction. }
              reflexivity.
        -- rewrite Ah. unfold p_has.
           destruct (is_prefix old (n :: q)); cbn [negb andb orb];
             destruct (is_prefix (n :: q) new); cbn [orb]; rewrite ?orb_true_r, ?orb_false_r; reflexivity.
    + rewrite move_missing by auto. rewrite <- Hold. cbn [fst]. split; auto.
Qed.

Lemma p_run_agree : forall ops t s, pagree t s -> forallb valid_op ops = true ->
  pagree (run t ops) (p_run s ops).
Proof.
  induction ops as [|o ops IH]; intros t s A V; simpl in *; auto.
  apply andb_true_iff in V. destruct V as [V1 V2].
  apply IH; auto. apply p_step_agree; auto.
Qed.

(* FULL: for every valid history the cache answers every lookup like the
   placeholder-aware reference, and an FsNode exists exactly where it says *)
Theorem refines_placeholder_reference : forall root ops, forallb valid_op ops = true ->
  forall q, get (run (init root) ops) q = p_get (p_run (p_init root) ops) q
         /\ has (run (init root) ops) q = p_has (p_run (p_init root) ops) q.
Proof.
  intros root ops V q.
  destruct (p_run_agree ops _ _ (p_init_agree root) V) as [Ag Ah]. split; auto.
Qed.

(* ... and so is everything an operation hands back, Move's non-nil result included *)
Lemma p_step_ret_agree : forall t s o, pagree t s -> snd (step t o) = snd (p_step s o).
Proof.
  intros t s o [Ag Ah]. destruct o as [p v|p fresh|p|p|old new]; cbn [step p_step]; auto.
  - unfold ensure, p_ensure. rewrite <- (Ag p). destruct (get t p); reflexivity.
  - cbn [snd]. rewrite Ag. reflexivity.
  - rewrite !snd_let_move. f_equal.
    pose proof (Ah old) as Hold. unfold has in Hold. unfold move, p_move.
    rewrite <- Hold. destruct (node_at t old); reflexivity.
Qed.

Theorem placeholder_returns_agree : forall root ops o, forallb valid_op ops = true ->
  snd (step (run (init root) ops) o) = snd (p_step (p_run (p_init root) ops) o).
Proof.
  intros root ops o V. apply p_step_ret_agree. apply p_run_agree; auto using p_init_agree.
Qed.

(* ---------- the model-independent trigger is the tree trigger ---------- *)
Lemma ghost_move_p : forall t s m o, pagree t s -> ghost_move t m o = pghost_move s m o.
Proof.
  intros t s m o [_ Ah]. destruct o; simpl; auto. rewrite Ah. reflexivity.
Qed.

Lemma trigger_from_p : forall ops t s m, pagree t s -> forallb valid_op ops = true ->
  trigger_from t m ops = ptrigger_from s m ops.
Proof.
  induction ops as [|o ops IH]; intros t s m A V; simpl in *; auto.
  apply andb_true_iff in V. destruct V as [V1 V2].
  rewrite (ghost_move_p t s m o A). f_equal. apply IH; auto. apply p_step_agree; auto.
Qed.

Lemma trigger_p : forall root ops, forallb valid_op ops = true -> trigger root ops = ptrigger root ops.
Proof. intros. apply trigger_from_p; auto using p_init_agree. Qed.

(* partial statement against the flat reference, trigger decided on references only *)
Theorem refines_reference_partial_p : forall root ops, forallb valid_op ops = true ->
  ptrigger root ops = false ->
  forall q, get (run (init root) ops) q = r_get (r_run (r_init root) ops) q.
Proof.
  intros root ops V T. apply refines_reference_partial; auto. rewrite trigger_p; auto.
Qed.

Theorem returns_agree_p : forall root ops o, forallb valid_op ops = true ->
  ptrigger root ops = false ->
  let t := run (init root) ops in let m := r_run (r_init root) ops in
  let s := p_run (p_init root) ops in
  match o with
  | Move old _ => p_has s old = r_has m old -> snd (step t o) = snd (r_step m o)
  | _ => snd (step t o) = snd (r_step m o)
  end.
Proof.
  intros root ops o V T t m s.
  pose proof (returns_agree root ops o V) as H. rewrite trigger_p in H by auto.
  specialize (H T). cbv zeta in H. destruct o; auto.
  intro E. apply H. fold t. fold m. rewrite <- E.
  destruct (p_run_agree ops _ _ (p_init_agree root) V) as [_ Ah]. apply Ah.
Qed.

(* ---------- per step, from ANY point of ANY valid history ---------- *)
(* the flat reference restarted from what the cache holds *)
Lemma pagree_vals : forall t s, pagree t s -> agree t (p_vals s).
Proof. intros t s [Ag _] q. apply Ag. Qed.

Theorem step_refines_reference_partial : forall root ops o,
  forallb valid_op ops = true -> valid_op o = true ->
  let t := run (init root) ops in let s := p_run (p_init root) ops in
  pghost_here s o = false ->
  forall q, get (fst (step t o)) q = r_get (fst (r_step (p_vals s) o)) q.
Proof.
  intros root ops o V Vo t s G.
  assert (A : pagree t s) by (apply p_run_agree; auto using p_init_agree).
  apply step_agree; auto using pagree_vals.
  rewrite (ghost_move_p t s _ o A). exact G.
Qed.

(* the trigger is exact: a ghost move is always visible in some lookup *)
Lemma r_get_some_has : forall m p q v, r_get m q = Some v -> is_prefix p q = true -> r_has m p = true.
Proof.
  intros m p q v Hg Hp. destruct (r_has m p) eqn:E; auto.
  rewrite (r_has_false_get _ _ _ E Hp) in Hg. discriminate.
Qed.

Lemma ghost_step_differs : forall t s m o, pagree t s -> agree t m -> valid_op o = true ->
  pghost_move s m o = true ->
  exists q, get (fst (step t o)) q <> r_get (fst (r_step m o)) q.
Proof.
  intros t s m o [Ag Ah] A V G. destruct o as [| | | |old new]; try discriminate.
  assert (Ho : old <> []) by (intro; subst; discriminate).
  assert (Hn : new <> []) by (intro; subst; destruct old; discriminate).
  cbn [pghost_move] in G. apply andb_true_iff in G. destruct G as [G Gn].
  apply andb_true_iff in G. destruct G as [Gh Go]. apply negb_true_iff in Go.
  destruct (r_has_true_get _ _ Gn) as [q [v [Pq Hv]]].
  exists q. cbn [step r_step]. rewrite !fst_let_move.
  rewrite r_move_missing by auto. cbn [fst]. rewrite Hv.
  rewrite <- Ah in Gh. unfold has in Gh.
  destruct (node_at t old) as [src|] eqn:Hs; [|discriminate].
  rewrite (get_move_found t old new src) by auto. rewrite Pq.
  rewrite A. rewrite (r_has_false_get m old) by auto using is_prefix_app. discriminate.
Qed.

Theorem trigger_exact : forall root ops o,
  forallb valid_op ops = true -> valid_op o = true ->
  ptrigger root ops = false ->
  pghost_move (p_run (p_init root) ops) (r_run (r_init root) ops) o = true ->
  exists q, get (run (init root) (ops ++ [o])) q <> r_get (r_run (r_init root) (ops ++ [o])) q.
Proof.
  intros root ops o V Vo T G.
  assert (Hrun : forall l t, run t (l ++ [o]) = fst (step (run t l) o))
    by (induction l; intros; simpl; auto).
  assert (Hrrun : forall l m, r_run m (l ++ [o]) = fst (r_step (r_run m l) o))
    by (induction l; intros; simpl; auto).
  rewrite Hrun, Hrrun.
  eapply ghost_step_differs; eauto.
  - apply p_run_agree; auto using p_init_agree.
  - apply run_agree; auto using init_agree. rewrite trigger_from_p with (s := p_init root); auto using p_init_agree.
Qed.

(* the same from any point of any history, against the restarted flat reference *)
Theorem ghost_here_differs : forall root ops o,
  forallb valid_op ops = true -> valid_op o = true ->
  let t := run (init root) ops in let s := p_run (p_init root) ops in
  pghost_here s o = true ->
  exists q, get (fst (step t o)) q <> r_get (fst (r_step (p_vals s) o)) q.
Proof.
  intros root ops o V Vo t s G.
  assert (A : pagree t s) by (apply p_run_agree; auto using p_init_agree).
  eapply ghost_step_differs; eauto using pagree_vals.
Qed.

(* ---------- witnesses ---------- *)
(* shortest refutation: rename a child out, then rename the now-empty directory *)
Definition witness3 : list op :=
  [Set_ ["a"; "x"] 1%N; Move ["a"; "x"] ["b"]; Move ["a"] ["b"]].

Theorem refines_reference_refuted3 : exists root ops q,
  forallb valid_op ops = true /\
  get (run (init root) ops) q <> r_get (r_run (r_init root) ops) q.
Proof.
  exists None, witness3, ["b"]. split; [reflexivity|]. vm_compute. discriminate.
Qed.

Lemma witness3_trigger : ptrigger None witness3 = true /\ ptrigger None (firstn 2 witness3) = false.
Proof. split; reflexivity. Qed.

Lemma witness4_trigger : ptrigger None witness_ops = true.
Proof. reflexivity. Qed.

(* ---------- single operations, stated on FsNode existence ---------- *)
Theorem move_relocates_has : forall t old new q, old <> [] -> new <> [] ->
  has t old = true ->
  get (fst (move t old new)) q =
    (if is_prefix new q then get t (old ++ skipn (length new) q)
     else if is_prefix old q then None else get t q)
  /\ has (fst (move t old new)) q =
    (if is_prefix new q then has t (old ++ skipn (length new) q)
     else (if is_prefix old q then false else has t q) || is_prefix q new)
  /\ snd (move t old new) = true.
Proof.
  intros t old new q Ho Hn H. unfold has in H.
  destruct (node_at t old) as [src|] eqn:Hs; [|discriminate].
  split; [apply (get_move_found t old new src); auto|].
  split; [apply (has_move_found t old new src); auto|].
  unfold move. rewrite Hs. reflexivity.
Qed.

Theorem move_missing_has : forall t old new, has t old = false -> move t old new = (t, false).
Proof.
  intros t old new H. apply move_missing. unfold has in H. destruct (node_at t old); auto; discriminate.
Qed.

Theorem delete_removes_dirs : forall p t q, q <> [] ->
  has (delete t p) q = if is_prefix p q then false else has t q.
Proof. exact has_delete. Qed.

Theorem set_creates_dirs : forall p t v q, has (set t p v) q = is_prefix q p || has t q.
Proof. exact has_set. Qed.

(* ---------- non-vacuity ---------- *)
Definition example_ops : list op :=
  [Set_ ["a"] 1%N; Set_ ["a"; "x"] 2%N; Set_ ["a"; "x"; "y"] 3%N; Set_ ["b"; "x"] 4%N;
   Move ["a"] ["a"; "x"]; Move ["a"; "x"; "x"] ["b"]; Delete ["a"; "x"; "x"];
   Ensure ["b"; "y"] 5%N; Move ["b"] ["b"]; Move ["nope"] ["b"]].

Lemma example_history :
  forallb valid_op example_ops = true /\ ptrigger (Some 0%N) example_ops = false /\
  map (get (run (init (Some 0%N)) example_ops)) [[]; ["a"]; ["a"; "x"]; ["b"]; ["b"; "y"]; ["b"; "x"]]
    = [Some 0%N; None; Some 1%N; Some 2%N; Some 3%N; None] /\
  map (has (run (init (Some 0%N)) example_ops)) [["a"]; ["a"; "x"]; ["a"; "x"; "x"]; ["c"]]
    = [true; true; false; false] /\
  ptrigger None witness3 = true /\ ptrigger None witness_ops = true /\
  (* a ghost move in the middle of a history, and a non-ghost step after it *)
  (let ops := witness3 ++ [Set_ ["a"; "y"] 7%N] in
   pghost_here (p_run (p_init None) ops) (Move ["a"] ["c"]) = false /\
   pghost_here (p_run (p_init None) ops) (Move ["b"] ["a"; "y"]) = true).
Proof. vm_compute. repeat split; reflexivity. Qed.
