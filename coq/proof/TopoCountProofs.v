(* Proofs about model/TopoCount.v (C12). *)
From Coq Require Import String List ZArith NArith Bool Arith Lia Permutation.
From SW Require Import model.TopoPlace model.TopoCount proof.TopoPlaceProofs.
Import ListNotations.
Local Open Scope Z_scope.

(* ================================================================== *)
(* 1. paths                                                            *)
(* ================================================================== *)
Lemma path_eqb_eq : forall a b, path_eqb a b = true <-> a = b.
Proof.
  induction a as [|x a IH]; intros [|y b]; simpl; split; intro H; try discriminate; auto.
  - apply andb_prop in H. destruct H as [H1 H2]. apply String.eqb_eq in H1. apply IH in H2. subst. reflexivity.
  - inversion H; subst. rewrite String.eqb_refl. simpl. apply IH. reflexivity.
Qed.

Lemma path_eqb_refl : forall a, path_eqb a a = true.
Proof. intro. apply path_eqb_eq. reflexivity. Qed.

Lemma path_eqb_neq : forall a b, path_eqb a b = false <-> a <> b.
Proof.
  intros a b. split; intro H.
  - intro E. apply path_eqb_eq in E. congruence.
  - destruct (path_eqb a b) eqn:E; auto. apply path_eqb_eq in E. contradiction.
Qed.

Lemma path_eqb_sym : forall a b, path_eqb a b = path_eqb b a.
Proof.
  intros a b. destruct (path_eqb a b) eqn:E.
  - apply path_eqb_eq in E. subst. symmetry. apply path_eqb_refl.
  - symmetry. apply path_eqb_neq. apply path_eqb_neq in E. congruence.
Qed.

Lemma is_prefix_spec : forall p q, is_prefix p q = true <-> exists l, q = p ++ l.
Proof.
  induction p as [|x p IH]; intros q; simpl.
  - split; [intros _; exists q; reflexivity|auto].
  - destruct q as [|y q].
    + split; [discriminate|intros [l H]; discriminate].
    + rewrite andb_true_iff, String.eqb_eq, IH. split.
      * intros [E [l H]]. subst. exists l. reflexivity.
      * intros [l H]. inversion H. split; auto. exists l. reflexivity.
Qed.

Lemma is_prefix_refl : forall p, is_prefix p p = true.
Proof. intro. apply is_prefix_spec. exists []. rewrite app_nil_r. reflexivity. Qed.

Lemma is_prefix_app : forall p l, is_prefix p (p ++ l) = true.
Proof. intros. apply is_prefix_spec. exists l. reflexivity. Qed.

Lemma is_prefix_nil : forall q, is_prefix [] q = true.
Proof. reflexivity. Qed.

Lemma is_prefix_trans : forall a b c, is_prefix a b = true -> is_prefix b c = true -> is_prefix a c = true.
Proof.
  intros a b c H1 H2. apply is_prefix_spec in H1. apply is_prefix_spec in H2.
  destruct H1 as [l1 H1], H2 as [l2 H2]. subst. apply is_prefix_spec. exists (l1 ++ l2). rewrite app_assoc. reflexivity.
Qed.

Lemma is_prefix_length : forall p q, is_prefix p q = true -> (length p <= length q)%nat.
Proof. intros p q H. apply is_prefix_spec in H. destruct H as [l H]. subst. rewrite app_length. lia. Qed.

Lemma is_prefix_same_length : forall p q, is_prefix p q = true -> length p = length q -> p = q.
Proof.
  intros p q H L. apply is_prefix_spec in H. destruct H as [l H]. subst. rewrite app_length in L.
  destruct l; [rewrite app_nil_r; reflexivity|simpl in L; lia].
Qed.

(* two prefixes of one path are comparable *)
Lemma is_prefix_comparable : forall a b k, is_prefix a k = true -> is_prefix b k = true ->
  is_prefix a b = true \/ is_prefix b a = true.
Proof.
  induction a as [|x a IH]; intros b k Ha Hb; [left; reflexivity|].
  destruct b as [|y b]; [right; reflexivity|].
  destruct k as [|z k]; [discriminate|].
  simpl in *. apply andb_prop in Ha. apply andb_prop in Hb. destruct Ha as [E1 Ha], Hb as [E2 Hb].
  apply String.eqb_eq in E1, E2. subst. rewrite String.eqb_refl. simpl. eapply IH; eauto.
Qed.

Lemma is_prefix_app_r : forall p q x, is_prefix p (q ++ [x]) = true ->
  p = q ++ [x] \/ is_prefix p q = true.
Proof.
  induction p as [|y p IH]; intros q x H; [right; reflexivity|].
  destruct q as [|z q]; simpl in *.
  - apply andb_prop in H. destruct H as [E H]. apply String.eqb_eq in E. subst.
    destruct p; [left; reflexivity|discriminate].
  - apply andb_prop in H. destruct H as [E H]. apply String.eqb_eq in E. subst. rewrite String.eqb_refl. simpl.
    destruct (IH _ _ H) as [E|E]; [left; rewrite E; reflexivity|right; exact E].
Qed.

Lemma is_child_of_spec : forall p q, is_child_of p q = true <-> exists x, q = p ++ [x].
Proof.
  intros p q. unfold is_child_of. rewrite andb_true_iff, Nat.eqb_eq. split.
  - intros [H L]. apply is_prefix_spec in H. destruct H as [l H]. subst. rewrite app_length in L.
    destruct l as [|x [|y l]]; simpl in L; try lia. exists x. reflexivity.
  - intros [x H]. subst. split; [apply is_prefix_app|rewrite app_length; simpl; lia].
Qed.

Lemma app_last_inj : forall (p q : path) x y, p ++ [x] = q ++ [y] -> p = q /\ x = y.
Proof. intros. apply app_inj_tail. assumption. Qed.

(* ================================================================== *)
(* 2. counters                                                         *)
(* ================================================================== *)
Lemma counts_ext : forall a b, volumeCount a = volumeCount b -> remoteVolumeCount a = remoteVolumeCount b ->
  activeVolumeCount a = activeVolumeCount b -> ecShardCount a = ecShardCount b ->
  maxVolumeCount a = maxVolumeCount b -> a = b.
Proof. intros [] []; simpl; intros; subst; reflexivity. Qed.

Lemma uget_map_keys : forall (F : string -> counts) ks t,
  uget (map (fun k => (k, F k)) ks) t = if in_dec string_dec t ks then F t else zero_counts.
Proof.
  induction ks as [|k ks IH]; intros t; simpl; auto.
  destruct (String.eqb k t) eqn:E.
  - apply String.eqb_eq in E. subst. destruct (string_dec t t); [reflexivity|contradiction].
  - apply String.eqb_neq in E. rewrite IH. destruct (string_dec k t); [contradiction|].
    destruct (in_dec string_dec t ks); reflexivity.
Qed.

Lemma uget_absent : forall u t, ~ In t (map fst u) -> uget u t = zero_counts.
Proof.
  induction u as [|[k c] u IH]; intros t H; simpl; auto.
  destruct (String.eqb k t) eqn:E.
  - apply String.eqb_eq in E. subst. exfalso. apply H. left. reflexivity.
  - apply IH. intro Hin. apply H. right. exact Hin.
Qed.

Lemma dedup_string_in : forall l x, In x (dedup String.eqb l) <-> In x l.
Proof.
  intros l x. split.
  - apply dedup_incl.
  - apply dedup_complete. intros a b H. apply String.eqb_eq. exact H.
Qed.

Lemma cadd_zero_r : forall a, cadd a zero_counts = a.
Proof. intros []. unfold cadd. simpl. f_equal; lia. Qed.
Lemma cadd_zero_l : forall a, cadd zero_counts a = a.
Proof. intros []. unfold cadd. simpl. f_equal; lia. Qed.

(* the semantics of adding a delta map: pointwise addition *)
Lemma uget_uadd : forall u d t, uget (uadd u d) t = cadd (uget u t) (uget d t).
Proof.
  intros u d t. unfold uadd. rewrite uget_map_keys.
  destruct (in_dec string_dec t (dedup String.eqb (map fst u ++ map fst d))) as [H|H]; [reflexivity|].
  rewrite dedup_string_in in H.
  rewrite (uget_absent u t), (uget_absent d t); [reflexivity| |];
    intro Hin; apply H; apply in_or_app; [right|left]; exact Hin.
Qed.

Lemma uget_uneg : forall u t, uget (uneg u) t = cneg (uget u t).
Proof.
  induction u as [|[k c] u IH]; intros t; simpl; [reflexivity|].
  destruct (String.eqb k t); auto.
Qed.

Lemma uget_single : forall k c t, uget [(k, c)] t = if String.eqb k t then c else zero_counts.
Proof. intros. simpl. reflexivity. Qed.

Lemma uget_uset_max : forall u t x t',
  uget (uset_max u t x) t' =
  if String.eqb t t'
  then mkCounts (volumeCount (uget u t')) (remoteVolumeCount (uget u t')) (activeVolumeCount (uget u t'))
                (ecShardCount (uget u t')) x
  else uget u t'.
Proof.
  induction u as [|[k c] u IH]; intros t x t'; simpl.
  - destruct (String.eqb t t'); reflexivity.
  - destruct (String.eqb k t) eqn:E1.
    + apply String.eqb_eq in E1. subst k. simpl. destruct (String.eqb t t'); reflexivity.
    + simpl. destruct (String.eqb k t') eqn:E2.
      * apply String.eqb_eq in E2. subst k. rewrite String.eqb_sym in E1. rewrite E1. reflexivity.
      * apply IH.
Qed.

(* ================================================================== *)
(* 3. the state table                                                  *)
(* ================================================================== *)
Definition keys (st : state) : list path := map fst st.

Lemma present_in : forall st p, present st p = true <-> In p (keys st).
Proof.
  intros st p. unfold present, keys. rewrite existsb_exists. split.
  - intros [e [He E]]. apply path_eqb_eq in E. subst. apply in_map. exact He.
  - intro H. apply in_map_iff in H. destruct H as [e [E He]]. exists e. split; auto. subst. apply path_eqb_refl.
Qed.

Lemma present_false : forall st p, present st p = false <-> ~ In p (keys st).
Proof.
  intros. rewrite <- present_in. destruct (present st p); split; intro H; try congruence; try discriminate;
    try (exfalso; apply H; reflexivity).
Qed.

Lemma info_absent : forall st p, ~ In p (keys st) -> info st p = empty_info.
Proof.
  induction st as [|[k i] st IH]; intros p H; simpl; auto.
  destruct (path_eqb k p) eqn:E.
  - apply path_eqb_eq in E. subst. exfalso. apply H. left. reflexivity.
  - apply IH. intro Hin. apply H. right. exact Hin.
Qed.

Lemma info_in : forall st k i, NoDup (keys st) -> In (k, i) st -> info st k = i.
Proof.
  induction st as [|[k0 i0] st IH]; intros k i Hnd Hin; [contradiction|].
  simpl in *. inversion Hnd; subst. destruct Hin as [Hin|Hin].
  - inversion Hin; subst. rewrite path_eqb_refl. reflexivity.
  - destruct (path_eqb k0 k) eqn:E.
    + apply path_eqb_eq in E. subst. exfalso. apply H1. apply (in_map fst) in Hin. exact Hin.
    + apply IH; auto.
Qed.

Lemma keys_upd : forall st p f, keys (upd st p f) = keys st.
Proof.
  intros. unfold keys, upd. rewrite map_map. apply map_ext. intros [k i]. simpl. destruct (path_eqb k p); reflexivity.
Qed.

Lemma keys_up_adjust : forall st p d, keys (up_adjust st p d) = keys st.
Proof.
  intros. unfold keys, up_adjust. rewrite map_map. apply map_ext. intros [k i]. simpl. destruct (is_prefix k p); reflexivity.
Qed.

Lemma info_upd : forall st q f k,
  info (upd st q f) k = if path_eqb q k then (if present st q then f (info st q) else empty_info) else info st k.
Proof.
  induction st as [|[k0 i0] st IH]; intros q f k; simpl.
  - destruct (path_eqb q k); reflexivity.
  - unfold present in *. simpl.
    destruct (path_eqb k0 q) eqn:E1; simpl.
    + apply path_eqb_eq in E1. subst k0. destruct (path_eqb q k) eqn:E2; [reflexivity|].
      rewrite IH, E2. reflexivity.
    + destruct (path_eqb k0 k) eqn:E2.
      * apply path_eqb_eq in E2. subst k0. rewrite path_eqb_sym in E1. rewrite E1. reflexivity.
      * apply IH.
Qed.

Lemma info_up_adjust : forall st q d k, In k (keys st) ->
  info (up_adjust st q d) k = if is_prefix k q then add_usage d (info st k) else info st k.
Proof.
  induction st as [|[k0 i0] st IH]; intros q d k Hin; [contradiction|].
  simpl in *. destruct (path_eqb k0 k) eqn:E.
  - apply path_eqb_eq in E. subst k0. destruct (is_prefix k q); simpl; rewrite path_eqb_refl; reflexivity.
  - destruct Hin as [Hin|Hin]; [subst; rewrite path_eqb_refl in E; discriminate|].
    destruct (is_prefix k0 q); simpl; rewrite E; apply IH; exact Hin.
Qed.

Lemma info_up_adjust_absent : forall st q d k, ~ In k (keys st) -> info (up_adjust st q d) k = empty_info.
Proof. intros. apply info_absent. rewrite keys_up_adjust. assumption. Qed.

Lemma keys_app : forall st q i, keys (st ++ [(q, i)]) = keys st ++ [q].
Proof. intros. unfold keys. rewrite map_app. reflexivity. Qed.

Lemma info_app_new : forall st q i k,
  info (st ++ [(q, i)]) k = if present st k then info st k else if path_eqb q k then i else empty_info.
Proof.
  induction st as [|[k0 i0] st IH]; intros q i k; simpl.
  - reflexivity.
  - unfold present in *. simpl. destruct (path_eqb k0 k); simpl; auto.
Qed.

Lemma keys_filter : forall st (g : path -> bool),
  keys (filter (fun e => g (fst e)) st) = filter g (keys st).
Proof.
  induction st as [|[k i] st IH]; intros g; simpl; auto.
  destruct (g k); simpl; rewrite IH; reflexivity.
Qed.

Lemma info_filter : forall st (g : path -> bool) k,
  info (filter (fun e => g (fst e)) st) k = if g k then info st k else empty_info.
Proof.
  induction st as [|[k0 i0] st IH]; intros g k; simpl.
  - destruct (g k); reflexivity.
  - destruct (g k0) eqn:G; simpl.
    + destruct (path_eqb k0 k) eqn:E.
      * apply path_eqb_eq in E. subst. rewrite G. reflexivity.
      * apply IH.
    + destruct (path_eqb k0 k) eqn:E.
      * apply path_eqb_eq in E. subst. rewrite IH, G. reflexivity.
      * apply IH.
Qed.

(* ================================================================== *)
(* 4. sums                                                             *)
(* ================================================================== *)
Lemma sumZ_app : forall A (f : A -> Z) l1 l2, sumZ f (l1 ++ l2) = sumZ f l1 + sumZ f l2.
Proof. induction l1 as [|x l1 IH]; intros; simpl; auto. rewrite IH. lia. Qed.

Lemma sumZ_ext_in : forall A (f g : A -> Z) l, (forall x, In x l -> f x = g x) -> sumZ f l = sumZ g l.
Proof.
  induction l as [|x l IH]; intros H; simpl; auto.
  rewrite (H x) by (left; reflexivity). rewrite IH; auto. intros. apply H. right. auto.
Qed.

Lemma sumZ_zero : forall A (f : A -> Z) l, (forall x, In x l -> f x = 0) -> sumZ f l = 0.
Proof.
  induction l as [|x l IH]; intros H; simpl; auto.
  rewrite (H x) by (left; reflexivity). rewrite IH; auto. intros. apply H. right. auto.
Qed.

Lemma sumZ_plus : forall A (f g : A -> Z) l, sumZ (fun x => f x + g x) l = sumZ f l + sumZ g l.
Proof. induction l as [|x l IH]; simpl; auto. rewrite IH. lia. Qed.

Lemma sumZ_map : forall A B (h : A -> B) (f : B -> Z) l, sumZ f (map h l) = sumZ (fun x => f (h x)) l.
Proof. induction l as [|x l IH]; simpl; auto. rewrite IH. reflexivity. Qed.

Lemma sumZ_perm : forall A (f : A -> Z) l l', Permutation l l' -> sumZ f l = sumZ f l'.
Proof. intros A f l l' H. induction H; simpl; lia. Qed.

Lemma sumZ_filter : forall A (f : A -> Z) (g : A -> bool) l,
  sumZ f (filter g l) = sumZ (fun x => if g x then f x else 0) l.
Proof.
  induction l as [|x l IH]; simpl; auto. destruct (g x); simpl; rewrite IH; reflexivity.
Qed.

Lemma sumZ_flat_map : forall A B (h : A -> list B) (f : B -> Z) l,
  sumZ f (flat_map h l) = sumZ (fun x => sumZ f (h x)) l.
Proof. induction l as [|x l IH]; simpl; auto. rewrite sumZ_app, IH. reflexivity. Qed.

(* changing the summand at one key of a duplicate-free list *)
Lemma sumZ_update_one : forall (f g : path -> Z) ks q, NoDup ks -> In q ks ->
  (forall k, In k ks -> k <> q -> g k = f k) -> sumZ g ks = sumZ f ks + (g q - f q).
Proof.
  induction ks as [|k ks IH]; intros q Hnd Hin H; [contradiction|].
  inversion Hnd; subst. simpl. destruct Hin as [Hin|Hin].
  - subst k. rewrite (sumZ_ext_in _ g f ks); [lia|].
    intros x Hx. apply H; [right; auto|]. intro E. subst. contradiction.
  - rewrite (IH q); auto.
    + rewrite (H k); [lia|left; reflexivity|]. intro E. subst. contradiction.
    + intros x Hx Hne. apply H; [right; auto|auto].
Qed.

(* the sums of [exact_at] over table entries are sums over keys *)
Lemma sumZ_beneath : forall (g : path -> ninfo -> Z) st p, NoDup (keys st) ->
  sumZ (fun e => g (fst e) (snd e)) (beneath st p) =
  sumZ (fun k => if is_prefix p k then g k (info st k) else 0) (keys st).
Proof.
  intros g st p Hnd. unfold beneath. rewrite sumZ_filter. unfold keys. rewrite sumZ_map.
  apply sumZ_ext_in. intros [k i] Hin. simpl.
  rewrite (info_in st k i Hnd Hin). reflexivity.
Qed.

(* ================================================================== *)
(* 5. counters and recomputation as functions of the table             *)
(* ================================================================== *)
Definition U (st : state) (p : path) (t : string) : counts := uget (i_usage (info st p)) t.

(* recomputation beneath p of a per-entry quantity e *)
Definition S (st : state) (e : path -> ninfo -> string -> Z) (p : path) (t : string) : Z :=
  sumZ (fun k => if is_prefix p k then e k (info st k) t else 0) (keys st).

Definition E_vol (k : path) (i : ninfo) (t : string) : Z := nvol i t.
Definition E_remote (k : path) (i : ninfo) (t : string) : Z := nremote i t.
Definition E_ec (k : path) (i : ninfo) (t : string) : Z := nec i t.
Definition E_max (k : path) (i : ninfo) (t : string) : Z :=
  if Nat.eqb (length k) 4 then maxVolumeCount (uget (i_usage i) t) else 0.

(* field f of every present node equals the recomputation of e beneath it *)
Definition Cons (f : counts -> Z) (e : path -> ninfo -> string -> Z) (st : state) : Prop :=
  forall p, In p (keys st) -> forall t, f (U st p t) = S st e p t.

(* e does not look at the counters of the entry *)
Definition payload_only (e : path -> ninfo -> string -> Z) : Prop :=
  forall k i u t, e k {| i_usage := u; i_vols := i_vols i; i_ecs := i_ecs i |} t = e k i t.

Lemma payload_only_vol : payload_only E_vol.
Proof. intros k i u t. reflexivity. Qed.
Lemma payload_only_remote : payload_only E_remote.
Proof. intros k i u t. reflexivity. Qed.
Lemma payload_only_ec : payload_only E_ec.
Proof. intros k i u t. reflexivity. Qed.

Definition keeps_usage (g : ninfo -> ninfo) : Prop := forall i, i_usage (g i) = i_usage i.

(* ---- effects of the primitives on U ---- *)
Lemma U_up_adjust : forall st q d p t, In p (keys st) ->
  U (up_adjust st q d) p t = if is_prefix p q then cadd (U st p t) (uget d t) else U st p t.
Proof.
  intros. unfold U. rewrite info_up_adjust by assumption.
  destruct (is_prefix p q); [|reflexivity]. simpl. apply uget_uadd.
Qed.

Lemma U_upd : forall st q g p t, keeps_usage g -> U (upd st q g) p t = U st p t.
Proof.
  intros st q g p t Hg. unfold U. rewrite info_upd.
  destruct (path_eqb q p) eqn:E; [|reflexivity]. apply path_eqb_eq in E. subst p.
  destruct (present st q) eqn:P.
  - rewrite Hg. reflexivity.
  - apply present_false in P. rewrite (info_absent st q P). reflexivity.
Qed.

Lemma U_app_new_old : forall st q i0 p t, In p (keys st) -> U (st ++ [(q, i0)]) p t = U st p t.
Proof.
  intros st q i0 p t H. unfold U. rewrite info_app_new. apply present_in in H. rewrite H. reflexivity.
Qed.

Lemma U_app_new_self : forall st q i0 t, ~ In q (keys st) -> U (st ++ [(q, i0)]) q t = uget (i_usage i0) t.
Proof.
  intros st q i0 t H. unfold U. rewrite info_app_new. apply present_false in H. rewrite H, path_eqb_refl. reflexivity.
Qed.

(* ---- effects of the primitives on S ---- *)
Lemma S_up_adjust_payload : forall st q d e p t, payload_only e ->
  S (up_adjust st q d) e p t = S st e p t.
Proof.
  intros st q d e p t He. unfold S. rewrite keys_up_adjust. apply sumZ_ext_in. intros k Hk.
  destruct (is_prefix p k); [|reflexivity]. rewrite info_up_adjust by assumption.
  destruct (is_prefix k q); [|reflexivity]. unfold add_usage. apply He.
Qed.

Lemma S_upd : forall st q g e p t, NoDup (keys st) -> In q (keys st) ->
  S (upd st q g) e p t =
  S st e p t + (if is_prefix p q then e q (g (info st q)) t - e q (info st q) t else 0).
Proof.
  intros st q g e p t Hnd Hq. unfold S. rewrite keys_upd.
  rewrite (sumZ_update_one (fun k => if is_prefix p k then e k (info st k) t else 0)
                           (fun k => if is_prefix p k then e k (info (upd st q g) k) t else 0) (keys st) q Hnd Hq).
  - rewrite info_upd, path_eqb_refl. apply present_in in Hq. rewrite Hq.
    destruct (is_prefix p q); lia.
  - intros k Hk Hne. rewrite info_upd. apply path_eqb_neq in Hne. rewrite path_eqb_sym in Hne. rewrite Hne. reflexivity.
Qed.

Lemma S_app_new : forall st q i0 e p t, ~ In q (keys st) ->
  S (st ++ [(q, i0)]) e p t = S st e p t + (if is_prefix p q then e q i0 t else 0).
Proof.
  intros st q i0 e p t Hq. unfold S. rewrite keys_app, sumZ_app. simpl. f_equal.
  - apply sumZ_ext_in. intros k Hk. rewrite info_app_new. apply present_in in Hk. rewrite Hk. reflexivity.
  - rewrite info_app_new. apply present_false in Hq. rewrite Hq, path_eqb_refl. destruct (is_prefix p q); lia.
Qed.

Lemma S_filter : forall st (g : path -> bool) e p t,
  S (filter (fun en => g (fst en)) st) e p t =
  sumZ (fun k => if g k && is_prefix p k then e k (info st k) t else 0) (keys st).
Proof.
  intros. unfold S. rewrite keys_filter, sumZ_filter. apply sumZ_ext_in. intros k Hk.
  rewrite info_filter. destruct (g k); simpl; reflexivity.
Qed.

(* the max clause looks at the counters of the disk entries *)
Lemma S_max_up_adjust : forall st q d p t,
  S (up_adjust st q d) E_max p t =
  S st E_max p t +
  sumZ (fun k => if is_prefix p k && Nat.eqb (length k) 4 && is_prefix k q
                 then maxVolumeCount (uget d t) else 0) (keys st).
Proof.
  intros. unfold S. rewrite keys_up_adjust, <- sumZ_plus. apply sumZ_ext_in. intros k Hk.
  rewrite info_up_adjust by assumption. unfold E_max.
  destruct (is_prefix p k); simpl; [|reflexivity].
  destruct (Nat.eqb (length k) 4); simpl; [|destruct (is_prefix k q); reflexivity].
  destruct (is_prefix k q); [|lia]. simpl. rewrite uget_uadd. simpl. reflexivity.
Qed.

Lemma S_max_up_adjust_nomax : forall st q d p t, maxVolumeCount (uget d t) = 0 ->
  S (up_adjust st q d) E_max p t = S st E_max p t.
Proof.
  intros. rewrite S_max_up_adjust. rewrite H. rewrite sumZ_zero; [lia|].
  intros k _. destruct (is_prefix p k && Nat.eqb (length k) 4 && is_prefix k q); reflexivity.
Qed.

(* up_adjust started at a present disk q *)
Lemma S_max_up_adjust_disk : forall st q d p t, NoDup (keys st) -> In q (keys st) -> length q = 4%nat ->
  S (up_adjust st q d) E_max p t = S st E_max p t + (if is_prefix p q then maxVolumeCount (uget d t) else 0).
Proof.
  intros st q d p t Hnd Hq Hl. rewrite S_max_up_adjust. f_equal.
  rewrite (sumZ_update_one (fun _ => 0) _ (keys st) q Hnd Hq).
  - rewrite sumZ_zero by auto. rewrite Hl, is_prefix_refl. simpl. rewrite !andb_true_r. destruct (is_prefix p q); lia.
  - intros k Hk Hne.
    destruct (is_prefix p k); simpl; auto.
    destruct (Nat.eqb (length k) 4) eqn:E; simpl; auto.
    destruct (is_prefix k q) eqn:E2; auto.
    apply Nat.eqb_eq in E. exfalso. apply Hne. apply is_prefix_same_length; auto. lia.
Qed.

(* up_adjust started above the disks *)
Lemma S_max_up_adjust_high : forall st q d p t, (length q < 4)%nat ->
  S (up_adjust st q d) E_max p t = S st E_max p t.
Proof.
  intros st q d p t Hl. rewrite S_max_up_adjust. rewrite sumZ_zero; [lia|].
  intros k _. destruct (is_prefix p k); simpl; auto.
  destruct (Nat.eqb (length k) 4) eqn:E; simpl; auto.
  destruct (is_prefix k q) eqn:E2; auto.
  apply Nat.eqb_eq in E. apply is_prefix_length in E2. lia.
Qed.

Lemma S_max_upd : forall st q g p t, keeps_usage g -> S (upd st q g) E_max p t = S st E_max p t.
Proof.
  intros st q g p t Hg. unfold S. rewrite keys_upd. apply sumZ_ext_in. intros k Hk.
  destruct (is_prefix p k); [|reflexivity]. unfold E_max. destruct (Nat.eqb (length k) 4); [|reflexivity].
  fold (U (upd st q g) k t). fold (U st k t). rewrite U_upd by assumption. reflexivity.
Qed.

(* ================================================================== *)
(* 6. the invariant                                                    *)
(* ================================================================== *)
Definition payload_ok (k : path) (i : ninfo) : Prop :=
  NoDup (map v_id (i_vols i)) /\ NoDup (map e_id (i_ecs i)) /\
  (forall v, In v (i_vols i) -> exists n, k = n ++ [v_disk v]) /\
  (forall e, In e (i_ecs i) -> exists n, k = n ++ [e_disk e]).

Record Struct (st : state) : Prop := {
  s_nodup : NoDup (keys st);
  s_root : In [] (keys st);
  s_pc : forall k p, In k (keys st) -> is_prefix p k = true -> In p (keys st);
  s_payload : forall k, In k (keys st) -> payload_ok k (info st k) }.

Definition rkeys (r : ref_state) : list path := map fst r.

Record RefInv (st : state) (r : ref_state) : Prop := {
  r_nodup : NoDup (rkeys r);
  r_keys : forall p, In p (rkeys r) <-> (In p (keys st) /\ length p = 3%nat);
  r_max : forall n, In n (rkeys r) -> forall t, maxVolumeCount (U st n t) = rget (ref_info r n) t }.

Record Inv (st : state) (r : ref_state) : Prop := {
  i_struct : Struct st;
  i_vol : Cons volumeCount E_vol st;
  i_remote : Cons remoteVolumeCount E_remote st;
  i_ec : Cons ecShardCount E_ec st;
  i_max : Cons maxVolumeCount E_max st;
  i_ref : RefInv st r }.

Lemma payload_ok_empty : forall k, payload_ok k empty_info.
Proof. intro k. repeat split; simpl; try constructor; intros ? []. Qed.

Lemma no_keys_under_absent : forall st q, Struct st -> ~ In q (keys st) ->
  forall k, In k (keys st) -> is_prefix q k = false.
Proof.
  intros st q Hs Hq k Hk. destruct (is_prefix q k) eqn:E; auto.
  exfalso. apply Hq. eapply s_pc; eauto.
Qed.

Lemma S_absent_zero : forall st q e t, Struct st -> ~ In q (keys st) -> S st e q t = 0.
Proof.
  intros st q e t Hs Hq. unfold S. apply sumZ_zero. intros k Hk.
  rewrite (no_keys_under_absent st q Hs Hq k Hk). reflexivity.
Qed.

(* ---- adding an empty child under a present parent changes nothing ---- *)
Lemma E_empty : forall k t, E_vol k empty_info t = 0 /\ E_remote k empty_info t = 0 /\
                            E_ec k empty_info t = 0 /\ E_max k empty_info t = 0.
Proof. intros. unfold E_vol, E_remote, E_ec, E_max. simpl. destruct (Nat.eqb (length k) 4); auto. Qed.

Lemma Struct_add : forall st n x i0, Struct st -> In n (keys st) -> ~ In (n ++ [x]) (keys st) ->
  payload_ok (n ++ [x]) i0 -> Struct (st ++ [(n ++ [x], i0)]).
Proof.
  intros st n x i0 Hs Hn Hq Hp. constructor.
  - rewrite keys_app. apply NoDup_app_intro; [apply Hs|repeat constructor; intros []|].
    intros k Hk [E|[]]. subst. contradiction.
  - rewrite keys_app. apply in_or_app. left. apply Hs.
  - intros k p Hk Hpk. rewrite keys_app in *. apply in_or_app. apply in_app_or in Hk. destruct Hk as [Hk|[Hk|[]]].
    + left. eapply s_pc; eauto.
    + subst k. apply is_prefix_app_r in Hpk. destruct Hpk as [E|E].
      * right. left. auto.
      * left. eapply s_pc; eauto.
  - intros k Hk. rewrite keys_app in Hk. rewrite info_app_new. apply in_app_or in Hk. destruct Hk as [Hk|[Hk|[]]].
    + pose proof Hk as Hk'. apply present_in in Hk'. rewrite Hk'. apply Hs. exact Hk.
    + subst k. apply present_false in Hq. rewrite Hq, path_eqb_refl. exact Hp.
Qed.

Lemma Cons_add_empty : forall f e st q, f zero_counts = 0 -> (forall k t, e k empty_info t = 0) ->
  Struct st -> ~ In q (keys st) -> Cons f e st -> Cons f e (st ++ [(q, empty_info)]).
Proof.
  intros f e st q Hf He Hs Hq Hc p Hp t. rewrite keys_app in Hp. rewrite S_app_new by assumption. rewrite He.
  apply in_app_or in Hp. destruct Hp as [Hp|[Hp|[]]].
  - rewrite U_app_new_old by assumption. rewrite (Hc p Hp t). destruct (is_prefix p q); lia.
  - subst p. rewrite U_app_new_self by assumption. simpl. rewrite Hf. rewrite S_absent_zero by assumption.
    destruct (is_prefix q q); lia.
Qed.

Lemma RefInv_add_disk : forall st r n x i0, RefInv st r -> length n = 3%nat -> ~ In (n ++ [x]) (keys st) ->
  RefInv (st ++ [(n ++ [x], i0)]) r.
Proof.
  intros st r n x i0 Hr Hl Hq. constructor.
  - apply Hr.
  - intro p. rewrite keys_app, (r_keys _ _ Hr p). split.
    + intros [H1 H2]. split; auto. apply in_or_app. left. exact H1.
    + intros [H1 H2]. split; auto. apply in_app_or in H1. destruct H1 as [H1|[H1|[]]]; auto.
      subst p. rewrite app_length in H2. simpl in H2. lia.
  - intros m Hm t. rewrite U_app_new_old; [apply Hr; exact Hm|]. apply (r_keys _ _ Hr) in Hm. tauto.
Qed.

Lemma get_or_create_disk_inv : forall st r n x, Inv st r -> In n (keys st) -> length n = 3%nat ->
  Inv (get_or_create_disk st n x) r /\ In (n ++ [x]) (keys (get_or_create_disk st n x)) /\
  (forall k, In k (keys st) -> In k (keys (get_or_create_disk st n x))) /\
  (forall k, In k (keys st) -> info (get_or_create_disk st n x) k = info st k).
Proof.
  intros st r n x Hi Hn Hl. unfold get_or_create_disk.
  destruct (present st (n ++ [x])) eqn:P.
  - apply present_in in P. auto.
  - apply present_false in P. split; [|split; [|split]].
    + destruct Hi. constructor.
      * apply Struct_add; auto. apply payload_ok_empty.
      * apply Cons_add_empty; auto; intros; apply E_empty.
      * apply Cons_add_empty; auto; intros; apply E_empty.
      * apply Cons_add_empty; auto; intros; apply E_empty.
      * apply Cons_add_empty; auto; intros; apply E_empty.
      * apply RefInv_add_disk; auto.
    + rewrite keys_app. apply in_or_app. right. left. reflexivity.
    + intros k Hk. rewrite keys_app. apply in_or_app. left. exact Hk.
    + intros k Hk. rewrite info_app_new. apply present_in in Hk. rewrite Hk. reflexivity.
Qed.

(* ---- the balanced step: payload change at q together with the matching delta ---- *)
Definition f_additive (f : counts -> Z) : Prop := forall a b, f (cadd a b) = f a + f b.
Lemma add_vol : f_additive volumeCount. Proof. intros a b. reflexivity. Qed.
Lemma add_remote : f_additive remoteVolumeCount. Proof. intros a b. reflexivity. Qed.
Lemma add_ec : f_additive ecShardCount. Proof. intros a b. reflexivity. Qed.
Lemma add_max : f_additive maxVolumeCount. Proof. intros a b. reflexivity. Qed.

Lemma Cons_balanced : forall f e st q g d, f_additive f -> payload_only e -> keeps_usage g ->
  NoDup (keys st) -> In q (keys st) -> Cons f e st ->
  (forall t, f (uget d t) = e q (g (info st q)) t - e q (info st q) t) ->
  Cons f e (up_adjust (upd st q g) q d).
Proof.
  intros f e st q g d Hf He Hg Hnd Hq Hc Hb p Hp t.
  rewrite keys_up_adjust, keys_upd in Hp.
  rewrite U_up_adjust by (rewrite keys_upd; exact Hp).
  rewrite U_upd by assumption.
  rewrite S_up_adjust_payload by assumption.
  rewrite S_upd by assumption.
  destruct (is_prefix p q); [rewrite Hf, Hb|]; rewrite (Hc p Hp t); lia.
Qed.

Lemma Cons_max_balanced : forall st q g d, keeps_usage g -> Cons maxVolumeCount E_max st ->
  (forall t, maxVolumeCount (uget d t) = 0) ->
  Cons maxVolumeCount E_max (up_adjust (upd st q g) q d).
Proof.
  intros st q g d Hg Hc Hz p Hp t.
  rewrite keys_up_adjust, keys_upd in Hp.
  rewrite U_up_adjust by (rewrite keys_upd; exact Hp).
  rewrite U_upd by assumption.
  rewrite S_max_up_adjust_nomax by apply Hz.
  rewrite S_max_upd by assumption.
  destruct (is_prefix p q); [rewrite add_max, Hz|]; rewrite (Hc p Hp t); lia.
Qed.

Lemma Struct_upd : forall st q g, Struct st -> In q (keys st) -> payload_ok q (g (info st q)) -> Struct (upd st q g).
Proof.
  intros st q g Hs Hq Hp. constructor.
  - rewrite keys_upd. apply Hs.
  - rewrite keys_upd. apply Hs.
  - intros k p. rewrite keys_upd. apply Hs.
  - intros k Hk. rewrite keys_upd in Hk. rewrite info_upd.
    destruct (path_eqb q k) eqn:E.
    + apply path_eqb_eq in E. subst k. apply present_in in Hq. rewrite Hq. exact Hp.
    + apply Hs. exact Hk.
Qed.

Lemma payload_ok_usage : forall k i u, payload_ok k i ->
  payload_ok k {| i_usage := u; i_vols := i_vols i; i_ecs := i_ecs i |}.
Proof. intros k i u H. exact H. Qed.

Lemma Struct_up_adjust : forall st q d, Struct st -> Struct (up_adjust st q d).
Proof.
  intros st q d Hs. constructor.
  - rewrite keys_up_adjust. apply Hs.
  - rewrite keys_up_adjust. apply Hs.
  - intros k p. rewrite keys_up_adjust. apply Hs.
  - intros k Hk. rewrite keys_up_adjust in Hk. rewrite info_up_adjust by assumption.
    destruct (is_prefix k q); [|apply Hs; exact Hk]. unfold add_usage. apply payload_ok_usage. apply Hs. exact Hk.
Qed.

Lemma RefInv_same_keys_max : forall st st' r, RefInv st r -> keys st' = keys st ->
  (forall n t, In n (keys st) -> length n = 3%nat -> maxVolumeCount (U st' n t) = maxVolumeCount (U st n t)) ->
  RefInv st' r.
Proof.
  intros st st' r Hr Hk Hm. constructor.
  - apply Hr.
  - intro p. rewrite Hk. apply Hr.
  - intros n Hn t. pose proof (proj1 (r_keys _ _ Hr n) Hn) as [H1 H2]. rewrite Hm by assumption. apply Hr. exact Hn.
Qed.

Theorem balanced_step : forall st r q g d, Inv st r -> In q (keys st) -> keeps_usage g ->
  payload_ok q (g (info st q)) ->
  (forall t, volumeCount (uget d t) = nvol (g (info st q)) t - nvol (info st q) t) ->
  (forall t, remoteVolumeCount (uget d t) = nremote (g (info st q)) t - nremote (info st q) t) ->
  (forall t, ecShardCount (uget d t) = nec (g (info st q)) t - nec (info st q) t) ->
  (forall t, maxVolumeCount (uget d t) = 0) ->
  Inv (up_adjust (upd st q g) q d) r.
Proof.
  intros st r q g d Hi Hq Hg Hp Bv Br Be Bm. destruct Hi as [Hs Cv Cr Ce Cm Hr].
  constructor.
  - apply Struct_up_adjust. apply Struct_upd; auto.
  - apply Cons_balanced; auto using add_vol, payload_only_vol. apply Hs.
  - apply Cons_balanced; auto using add_remote, payload_only_remote. apply Hs.
  - apply Cons_balanced; auto using add_ec, payload_only_ec. apply Hs.
  - apply Cons_max_balanced; auto.
  - eapply RefInv_same_keys_max; [exact Hr|rewrite keys_up_adjust, keys_upd; reflexivity|].
    intros n t Hn Hl. rewrite U_up_adjust by (rewrite keys_upd; exact Hn). rewrite U_upd by assumption.
    destruct (is_prefix n q); [|reflexivity]. rewrite add_max, Bm. lia.
Qed.

(* the two orders of (payload update, up_adjust) give the same table *)
Lemma upd_up_adjust_comm : forall st q q' g d, (forall i, g (add_usage d i) = add_usage d (g i)) ->
  upd (up_adjust st q d) q' g = up_adjust (upd st q' g) q d.
Proof.
  intros st q q' g d Hg. unfold upd, up_adjust. rewrite !map_map. apply map_ext. intros [k i]. simpl.
  destruct (path_eqb k q') eqn:E1; destruct (is_prefix k q) eqn:E2; simpl; rewrite ?E1, ?E2; try reflexivity.
  rewrite Hg. reflexivity.
Qed.

Lemma upd_id : forall st q, upd st q (fun i => i) = st.
Proof.
  intros. unfold upd. rewrite <- (map_id st) at 2. apply map_ext. intros [k i]. simpl. destruct (path_eqb k q); reflexivity.
Qed.

(* a delta without volume/remote/ec/max content leaves the invariant alone *)
Theorem neutral_adjust : forall st r q d, Inv st r -> In q (keys st) ->
  (forall t, volumeCount (uget d t) = 0) -> (forall t, remoteVolumeCount (uget d t) = 0) ->
  (forall t, ecShardCount (uget d t) = 0) -> (forall t, maxVolumeCount (uget d t) = 0) ->
  Inv (up_adjust st q d) r.
Proof.
  intros st r q d Hi Hq Hv Hr He Hm.
  rewrite <- (upd_id st q) at 1.
  apply balanced_step; auto.
  - intro i. reflexivity.
  - apply Hi. exact Hq.
  - intro t. rewrite Hv. lia.
  - intro t. rewrite Hr. lia.
  - intro t. rewrite He. lia.
Qed.

(* a payload change that leaves the recomputation alone, without any delta *)
Theorem neutral_payload : forall st r q g, Inv st r -> In q (keys st) -> keeps_usage g ->
  payload_ok q (g (info st q)) ->
  (forall t, nvol (g (info st q)) t = nvol (info st q) t) ->
  (forall t, nremote (g (info st q)) t = nremote (info st q) t) ->
  (forall t, nec (g (info st q)) t = nec (info st q) t) ->
  Inv (upd st q g) r.
Proof.
  intros st r q g Hi Hq Hg Hp Hv Hr He. destruct Hi as [Hs Cv Cr Ce Cm Hrf].
  assert (Hc : forall f e, payload_only e -> Cons f e st ->
                 (forall t, e q (g (info st q)) t = e q (info st q) t) -> Cons f e (upd st q g)).
  { intros f e Hpe Hc Heq p Hp' t. rewrite keys_upd in Hp'. rewrite U_upd by assumption.
    rewrite S_upd by (try apply Hs; assumption). rewrite (Hc p Hp' t), Heq. destruct (is_prefix p q); lia. }
  constructor.
  - apply Struct_upd; auto.
  - apply Hc; auto using payload_only_vol.
  - apply Hc; auto using payload_only_remote.
  - apply Hc; auto using payload_only_ec.
  - intros p Hp' t. rewrite keys_upd in Hp'. rewrite U_upd, S_max_upd by assumption. apply Cm. exact Hp'.
  - eapply RefInv_same_keys_max; [exact Hrf|apply keys_upd|].
    intros n t _ _. rewrite U_upd by assumption. reflexivity.
Qed.

(* ================================================================== *)
(* 7. the per-disk maps                                                *)
(* ================================================================== *)
Definition wv (t : string) (v : vinfo) : Z := if String.eqb (to_dt (v_disk v)) t then 1 else 0.
Definition wr (t : string) (v : vinfo) : Z := if String.eqb (to_dt (v_disk v)) t && v_remote v then 1 else 0.
Definition we (t : string) (e : ecinfo) : Z := if String.eqb (to_dt (e_disk e)) t then popcount (e_bits e) else 0.

Lemma nvol_sum : forall i t, nvol i t = sumZ (wv t) (i_vols i).
Proof. reflexivity. Qed.
Lemma nremote_sum : forall i t, nremote i t = sumZ (wr t) (i_vols i).
Proof. reflexivity. Qed.
Lemma nec_sum : forall i t, nec i t = sumZ (we t) (i_ecs i).
Proof. reflexivity. Qed.

Section MapLemmas.
  (* one development for both maps: records with an N key *)
  Context {A : Type}.
  Variable key : A -> N.
  Fixpoint mfind (id : N) (l : list A) : option A :=
    match l with [] => None | x :: l' => if N.eqb (key x) id then Some x else mfind id l' end.
  Definition mremove (id : N) (l : list A) : list A := filter (fun x => negb (N.eqb (key x) id)) l.
  Fixpoint mput (v : A) (l : list A) : list A :=
    match l with [] => [v] | x :: l' => if N.eqb (key x) (key v) then v :: l' else x :: mput v l' end.

  Lemma mfind_some : forall id l x, mfind id l = Some x -> In x l /\ key x = id.
  Proof.
    induction l as [|y l IH]; intros x H; simpl in H; [discriminate|].
    destruct (N.eqb (key y) id) eqn:E.
    - inversion H; subst. apply N.eqb_eq in E. split; [left; reflexivity|exact E].
    - destruct (IH _ H). split; [right|]; auto.
  Qed.

  Lemma mfind_none : forall id l, mfind id l = None -> ~ In id (map key l).
  Proof.
    induction l as [|y l IH]; intros H; simpl in *; [tauto|].
    destruct (N.eqb (key y) id) eqn:E; [discriminate|]. apply N.eqb_neq in E.
    intros [H1|H1]; [contradiction|]. apply IH; auto.
  Qed.

  Lemma mfind_in : forall l x, NoDup (map key l) -> In x l -> mfind (key x) l = Some x.
  Proof.
    induction l as [|y l IH]; intros x Hnd Hin; [contradiction|].
    simpl in *. inversion Hnd; subst. destruct Hin as [Hin|Hin].
    - subst. rewrite N.eqb_refl. reflexivity.
    - destruct (N.eqb (key y) (key x)) eqn:E.
      + apply N.eqb_eq in E. exfalso. apply H1. rewrite E. apply in_map. exact Hin.
      + apply IH; auto.
  Qed.

  Lemma mput_in : forall v l x, In x (mput v l) -> x = v \/ In x l.
  Proof.
    induction l as [|y l IH]; intros x H; simpl in H.
    - destruct H as [H|[]]. left. auto.
    - destruct (N.eqb (key y) (key v)).
      + destruct H as [H|H]; [left; auto|right; right; auto].
      + destruct H as [H|H]; [right; left; auto|]. destruct (IH _ H); [left|right; right]; auto.
  Qed.

  Lemma mput_keys : forall v l id, In id (map key (mput v l)) <-> id = key v \/ In id (map key l).
  Proof.
    induction l as [|y l IH]; intros id; simpl.
    - split; [intros [H|[]]; left; auto|intros [H|[]]; left; auto].
    - destruct (N.eqb (key y) (key v)) eqn:E; simpl.
      + apply N.eqb_eq in E. rewrite E. intuition congruence.
      + rewrite IH. intuition congruence.
  Qed.

  Lemma mput_nodup : forall v l, NoDup (map key l) -> NoDup (map key (mput v l)).
  Proof.
    induction l as [|y l IH]; intros H; simpl.
    - repeat constructor. intros [].
    - inversion H; subst. destruct (N.eqb (key y) (key v)) eqn:E; simpl.
      + apply N.eqb_eq in E. rewrite <- E. constructor; auto.
      + apply N.eqb_neq in E. constructor; auto. rewrite mput_keys. intros [H1|H1]; [congruence|contradiction].
  Qed.

  Lemma mremove_in : forall id l x, In x (mremove id l) <-> In x l /\ key x <> id.
  Proof.
    intros. unfold mremove. rewrite filter_In, negb_true_iff, N.eqb_neq. tauto.
  Qed.

  Lemma mremove_nodup : forall id l, NoDup (map key l) -> NoDup (map key (mremove id l)).
  Proof.
    induction l as [|y l IH]; intros H; simpl; [constructor|].
    inversion H; subst. destruct (negb (N.eqb (key y) id)); simpl; auto.
    constructor; auto. intro Hin. apply H2. apply in_map_iff in Hin. destruct Hin as [x [E Hx]].
    apply mremove_in in Hx. apply in_map_iff. exists x. tauto.
  Qed.

  Lemma mfind_mremove_other : forall id id' l, id' <> id -> mfind id' (mremove id l) = mfind id' l.
  Proof.
    induction l as [|y l IH]; intros Hne; simpl; auto.
    destruct (N.eqb (key y) id) eqn:E; simpl.
    - apply N.eqb_eq in E. destruct (N.eqb (key y) id') eqn:E'; [apply N.eqb_eq in E'; congruence|]. auto.
    - destruct (N.eqb (key y) id'); auto.
  Qed.

  Lemma mfind_mput_other : forall v id l, id <> key v -> mfind id (mput v l) = mfind id l.
  Proof.
    induction l as [|y l IH]; intros Hne; simpl.
    - destruct (N.eqb (key v) id) eqn:E; [apply N.eqb_eq in E; congruence|reflexivity].
    - destruct (N.eqb (key y) (key v)) eqn:E; simpl.
      + apply N.eqb_eq in E. destruct (N.eqb (key v) id) eqn:E1; [apply N.eqb_eq in E1; congruence|].
        destruct (N.eqb (key y) id) eqn:E2; [apply N.eqb_eq in E2; congruence|]. reflexivity.
      + destruct (N.eqb (key y) id); auto.
  Qed.

  Variable w : A -> Z.
  Definition wopt (o : option A) : Z := match o with Some x => w x | None => 0 end.

  Lemma sum_mput : forall v l, sumZ w (mput v l) = sumZ w l + w v - wopt (mfind (key v) l).
  Proof.
    induction l as [|y l IH]; simpl; [lia|].
    destruct (N.eqb (key y) (key v)); simpl; [lia|]. rewrite IH. lia.
  Qed.

  Lemma sum_mremove : forall id l, NoDup (map key l) -> sumZ w (mremove id l) = sumZ w l - wopt (mfind id l).
  Proof.
    induction l as [|y l IH]; intros H; simpl; [lia|].
    inversion H; subst. destruct (N.eqb (key y) id) eqn:E; simpl.
    - apply N.eqb_eq in E. subst id.
      assert (Hm : mremove (key y) l = l).
      { unfold mremove. apply filter_all_true. intros x Hx. apply negb_true_iff. apply N.eqb_neq.
        intro E. apply H2. rewrite <- E. apply in_map. exact Hx. }
      fold (mremove (key y) l). rewrite Hm. lia.
    - fold (mremove id l). rewrite IH by assumption. lia.
  Qed.
End MapLemmas.

Lemma find_vol_mfind : forall id l, find_vol id l = mfind v_id id l.
Proof. induction l as [|x l IH]; simpl; [reflexivity|rewrite IH; reflexivity]. Qed.
Lemma put_vol_mput : forall v l, put_vol v l = mput v_id v l.
Proof. induction l as [|x l IH]; simpl; [reflexivity|rewrite IH; reflexivity]. Qed.
Lemma remove_vol_mremove : forall id l, remove_vol id l = mremove v_id id l.
Proof. reflexivity. Qed.
Lemma find_ec_mfind : forall id l, find_ec id l = mfind e_id id l.
Proof. induction l as [|x l IH]; simpl; [reflexivity|rewrite IH; reflexivity]. Qed.
Lemma put_ec_mput : forall v l, put_ec v l = mput e_id v l.
Proof. induction l as [|x l IH]; simpl; [reflexivity|rewrite IH; reflexivity]. Qed.
Lemma remove_ec_mremove : forall id l, remove_ec id l = mremove e_id id l.
Proof. reflexivity. Qed.

(* ---- payload accessors through the primitives ---- *)
Lemma vols_up_adjust : forall st q d k, i_vols (info (up_adjust st q d) k) = i_vols (info st k).
Proof.
  intros. destruct (in_dec (list_eq_dec string_dec) k (keys st)) as [H|H].
  - rewrite info_up_adjust by assumption. destruct (is_prefix k q); reflexivity.
  - rewrite info_up_adjust_absent by assumption. rewrite info_absent by assumption. reflexivity.
Qed.

Lemma ecs_up_adjust : forall st q d k, i_ecs (info (up_adjust st q d) k) = i_ecs (info st k).
Proof.
  intros. destruct (in_dec (list_eq_dec string_dec) k (keys st)) as [H|H].
  - rewrite info_up_adjust by assumption. destruct (is_prefix k q); reflexivity.
  - rewrite info_up_adjust_absent by assumption. rewrite info_absent by assumption. reflexivity.
Qed.

Lemma info_goc_old : forall st n x k, k <> n ++ [x] -> info (get_or_create_disk st n x) k = info st k.
Proof.
  intros st n x k Hne. unfold get_or_create_disk. destruct (present st (n ++ [x])); [reflexivity|].
  rewrite info_app_new. destruct (present st k) eqn:P; [reflexivity|].
  apply present_false in P. rewrite (info_absent st k P).
  destruct (path_eqb (n ++ [x]) k) eqn:E; [apply path_eqb_eq in E; congruence|reflexivity].
Qed.

Lemma info_goc_payload : forall st n x k,
  i_vols (info (get_or_create_disk st n x) k) = i_vols (info st k) /\
  i_ecs (info (get_or_create_disk st n x) k) = i_ecs (info st k).
Proof.
  intros st n x k. unfold get_or_create_disk. destruct (present st (n ++ [x])) eqn:P0; [auto|].
  rewrite info_app_new. destruct (present st k) eqn:P; [auto|].
  apply present_false in P. rewrite (info_absent st k P).
  destruct (path_eqb (n ++ [x]) k); auto.
Qed.

(* ================================================================== *)
(* 8. volume heartbeats                                                *)
(* ================================================================== *)
Lemma goc_present : forall st n x, In (n ++ [x]) (keys (get_or_create_disk st n x)).
Proof.
  intros. unfold get_or_create_disk. destruct (present st (n ++ [x])) eqn:P.
  - apply present_in. exact P.
  - rewrite keys_app. apply in_or_app. right. left. reflexivity.
Qed.

Lemma uget_one : forall T c t (f : counts -> Z), f zero_counts = 0 ->
  f (uget [(T, c)] t) = if String.eqb T t then f c else 0.
Proof. intros. simpl. destruct (String.eqb T t); auto. Qed.

Lemma payload_disk_vol : forall st q v n d, Struct st -> In q (keys st) -> In v (i_vols (info st q)) ->
  q = n ++ [d] -> v_disk v = d.
Proof.
  intros st q v n d Hs Hq Hv E. destruct (s_payload st Hs q Hq) as [_ [_ [Hp _]]].
  destruct (Hp v Hv) as [n' E']. rewrite E in E'. apply app_inj_tail in E'. destruct E'. congruence.
Qed.

Lemma payload_disk_ec : forall st q e n d, Struct st -> In q (keys st) -> In e (i_ecs (info st q)) ->
  q = n ++ [d] -> e_disk e = d.
Proof.
  intros st q e n d Hs Hq He E. destruct (s_payload st Hs q Hq) as [_ [_ [_ Hp]]].
  destruct (Hp e He) as [n' E']. rewrite E in E'. apply app_inj_tail in E'. destruct E'. congruence.
Qed.

Lemma set_vols_keeps : forall h, keeps_usage (fun i => set_vols (h (i_vols i)) i).
Proof. intros h i. reflexivity. Qed.
Lemma set_ecs_keeps : forall h, keeps_usage (fun i => set_ecs (h (i_ecs i)) i).
Proof. intros h i. reflexivity. Qed.
Lemma set_vols_comm : forall h d i, (fun i => set_vols (h (i_vols i)) i) (add_usage d i) = add_usage d (set_vols (h (i_vols i)) i).
Proof. reflexivity. Qed.

Theorem add_or_update_volume_inv : forall st r n v, Inv st r -> In n (keys st) -> length n = 3%nat ->
  Inv (add_or_update_volume st n v) r /\
  (forall k, In k (keys st) -> In k (keys (add_or_update_volume st n v))).
Proof.
  intros st r n v Hi Hn Hl. unfold add_or_update_volume.
  destruct (get_or_create_disk_inv st r n (v_disk v) Hi Hn Hl) as [Hi1 [Hq [Hmono _]]].
  set (st1 := get_or_create_disk st n (v_disk v)) in *.
  set (q := n ++ [v_disk v]) in *.
  set (g := fun i => set_vols (put_vol v (i_vols i)) i).
  assert (Hs1 : Struct st1) by apply Hi1.
  destruct (s_payload st1 Hs1 q Hq) as [P1 [P2 [P3 P4]]].
  assert (Hpay : payload_ok q (g (info st1 q))).
  { unfold g. repeat split; simpl; auto.
    - rewrite put_vol_mput. apply mput_nodup. exact P1.
    - intros x Hx. rewrite put_vol_mput in Hx. apply mput_in in Hx. destruct Hx as [Hx|Hx].
      + subst x. exists n. reflexivity.
      + apply P3. exact Hx. }
  assert (Hsum : forall (w : vinfo -> Z), sumZ w (i_vols (g (info st1 q))) =
            sumZ w (i_vols (info st1 q)) + w v - wopt w (find_vol (v_id v) (i_vols (info st1 q)))).
  { intro w. unfold g. simpl. rewrite put_vol_mput, find_vol_mfind. apply sum_mput. }
  destruct (find_vol (v_id v) (i_vols (info st1 q))) as [oldV|] eqn:F.
  - assert (Hold : In oldV (i_vols (info st1 q))).
    { rewrite find_vol_mfind in F. apply mfind_some in F. tauto. }
    assert (Hd : v_disk oldV = v_disk v) by (apply (payload_disk_vol st1 q oldV n (v_disk v) Hs1 Hq Hold eq_refl)).
    assert (Kmono : forall st2, keys st2 = keys st1 -> forall k, In k (keys st) -> In k (keys (upd st2 q g))).
    { intros st2 E k Hk. rewrite keys_upd, E. apply Hmono. exact Hk. }
    destruct (Bool.eqb (v_remote oldV) (v_remote v)) eqn:Er.
    + apply Bool.eqb_prop in Er. split; [|apply Kmono; reflexivity].
      apply neutral_payload; auto.
      * apply set_vols_keeps.
      * intro t. rewrite !nvol_sum, Hsum. simpl. unfold wv. rewrite Hd. lia.
      * intro t. rewrite !nremote_sum, Hsum. simpl. unfold wr. rewrite Hd, Er. lia.
    + apply Bool.eqb_false_iff in Er. split; [|apply Kmono; apply keys_up_adjust].
      rewrite upd_up_adjust_comm by (intro; reflexivity).
      apply balanced_step; auto.
      * apply set_vols_keeps.
      * intro t. rewrite uget_one by reflexivity. rewrite !nvol_sum, Hsum. simpl. unfold wv. rewrite Hd.
        destruct (String.eqb (to_dt (v_disk v)) t); simpl; lia.
      * intro t. rewrite uget_one by reflexivity. rewrite !nremote_sum, Hsum. simpl. unfold wr. rewrite Hd.
        destruct (String.eqb (to_dt (v_disk v)) t); simpl; [|lia].
        destruct (v_remote oldV), (v_remote v); simpl; try lia; exfalso; apply Er; reflexivity.
      * intro t. rewrite uget_one by reflexivity. destruct (String.eqb (to_dt (v_disk v)) t); simpl; unfold g, nec; simpl; lia.
      * intro t. rewrite uget_one by reflexivity. destruct (String.eqb (to_dt (v_disk v)) t); simpl; lia.
  - split.
    + apply balanced_step; auto.
      * apply set_vols_keeps.
      * intro t. unfold vol_delta. rewrite uget_one by reflexivity. rewrite !nvol_sum, Hsum. simpl. unfold wv.
        destruct (String.eqb (to_dt (v_disk v)) t); simpl; lia.
      * intro t. unfold vol_delta. rewrite uget_one by reflexivity. rewrite !nremote_sum, Hsum. simpl. unfold wr.
        destruct (String.eqb (to_dt (v_disk v)) t); simpl; [|lia]. destruct (v_remote v); lia.
      * intro t. unfold vol_delta. rewrite uget_one by reflexivity. destruct (String.eqb (to_dt (v_disk v)) t); simpl; unfold g, nec; simpl; lia.
      * intro t. unfold vol_delta. rewrite uget_one by reflexivity. destruct (String.eqb (to_dt (v_disk v)) t); simpl; lia.
    + intros k Hk. rewrite keys_up_adjust, keys_upd. apply Hmono. exact Hk.
Qed.

(* deleting a volume that IS registered on that disk with the flags of the message *)
Theorem delete_volume_exact : forall st r n v v0, Inv st r -> In n (keys st) -> length n = 3%nat ->
  find_vol (v_id v) (i_vols (info st (n ++ [v_disk v]))) = Some v0 -> v_remote v0 = v_remote v ->
  Inv (delete_volume st n v) r /\ (forall k, In k (keys st) -> In k (keys (delete_volume st n v))).
Proof.
  intros st r n v v0 Hi Hn Hl F Hr. unfold delete_volume.
  destruct (get_or_create_disk_inv st r n (v_disk v) Hi Hn Hl) as [Hi1 [Hq [Hmono _]]].
  set (st1 := get_or_create_disk st n (v_disk v)) in *.
  set (q := n ++ [v_disk v]) in *.
  set (g := fun i => set_vols (remove_vol (v_id v) (i_vols i)) i).
  assert (Hs1 : Struct st1) by apply Hi1.
  destruct (s_payload st1 Hs1 q Hq) as [P1 [P2 [P3 P4]]].
  assert (F1 : find_vol (v_id v) (i_vols (info st1 q)) = Some v0).
  { unfold st1. rewrite (proj1 (info_goc_payload st n (v_disk v) q)). exact F. }
  assert (Hv0 : In v0 (i_vols (info st1 q))) by (rewrite find_vol_mfind in F1; apply mfind_some in F1; tauto).
  assert (Hd : v_disk v0 = v_disk v) by (apply (payload_disk_vol st1 q v0 n (v_disk v) Hs1 Hq Hv0 eq_refl)).
  assert (Hsum : forall (w : vinfo -> Z), sumZ w (i_vols (g (info st1 q))) = sumZ w (i_vols (info st1 q)) - w v0).
  { intro w. unfold g. simpl. rewrite remove_vol_mremove, sum_mremove by exact P1.
    rewrite <- find_vol_mfind, F1. reflexivity. }
  split.
  - apply balanced_step; auto.
    + apply set_vols_keeps.
    + unfold g. repeat split; simpl; auto.
      * rewrite remove_vol_mremove. apply mremove_nodup. exact P1.
      * intros x Hx. rewrite remove_vol_mremove in Hx. apply mremove_in in Hx. apply P3. tauto.
    + intro t. unfold vol_delta. rewrite uget_one by reflexivity. rewrite !nvol_sum, Hsum. unfold wv. rewrite Hd.
      destruct (String.eqb (to_dt (v_disk v)) t); simpl; lia.
    + intro t. unfold vol_delta. rewrite uget_one by reflexivity. rewrite !nremote_sum, Hsum. unfold wr. rewrite Hd, Hr.
      destruct (String.eqb (to_dt (v_disk v)) t); simpl; [|lia]. destruct (v_remote v); lia.
    + intro t. unfold vol_delta. rewrite uget_one by reflexivity. destruct (String.eqb (to_dt (v_disk v)) t); simpl; unfold g, nec; simpl; lia.
    + intro t. unfold vol_delta. rewrite uget_one by reflexivity. destruct (String.eqb (to_dt (v_disk v)) t); simpl; lia.
  - intros k Hk. rewrite keys_up_adjust, keys_upd. apply Hmono. exact Hk.
Qed.

Lemma delete_volume_vols : forall st n v k,
  i_vols (info (delete_volume st n v) k) =
  if path_eqb (n ++ [v_disk v]) k then remove_vol (v_id v) (i_vols (info st k)) else i_vols (info st k).
Proof.
  intros st n v k. unfold delete_volume. rewrite vols_up_adjust, info_upd.
  destruct (path_eqb (n ++ [v_disk v]) k) eqn:E.
  - apply path_eqb_eq in E. subst k.
    pose proof (goc_present st n (v_disk v)) as P. apply present_in in P. rewrite P. simpl.
    rewrite (proj1 (info_goc_payload st n (v_disk v) _)). reflexivity.
  - apply (proj1 (info_goc_payload st n (v_disk v) k)).
Qed.

Definition vkey (v : vinfo) : string * N := (v_disk v, v_id v).

Lemma delete_loop : forall l st r n, Inv st r -> In n (keys st) -> length n = 3%nat ->
  NoDup (map vkey l) ->
  (forall v, In v l -> exists v0, find_vol (v_id v) (i_vols (info st (n ++ [v_disk v]))) = Some v0 /\
                                  v_remote v0 = v_remote v) ->
  Inv (fold_left (fun s v => delete_volume s n v) l st) r /\
  (forall k, In k (keys st) -> In k (keys (fold_left (fun s v => delete_volume s n v) l st))).
Proof.
  induction l as [|v l IH]; intros st r n Hi Hn Hl Hnd Hreg; simpl; [auto|].
  inversion Hnd; subst.
  destruct (Hreg v (or_introl eq_refl)) as [v0 [F Hr]].
  destruct (delete_volume_exact st r n v v0 Hi Hn Hl F Hr) as [Hi1 Hm1].
  destruct (IH (delete_volume st n v) r n Hi1 (Hm1 n Hn) Hl H2) as [Hi2 Hm2].
  - intros v' Hv'. destruct (Hreg v' (or_intror Hv')) as [v0' [F' Hr']].
    exists v0'. split; auto. rewrite delete_volume_vols.
    destruct (path_eqb (n ++ [v_disk v]) (n ++ [v_disk v'])) eqn:E; [|exact F'].
    apply path_eqb_eq in E. apply app_inj_tail in E. destruct E as [_ E].
    rewrite remove_vol_mremove, find_vol_mfind, mfind_mremove_other; [rewrite <- find_vol_mfind; exact F'|].
    intro Eid. apply H1. apply in_map_iff. exists v'. split; auto. unfold vkey. congruence.
  - split; auto.
Qed.

Lemma fold_left_cond : forall A B (c : B -> bool) (f : A -> B -> A) l a,
  fold_left (fun s v => if c v then s else f s v) l a = fold_left f (filter (fun v => negb (c v)) l) a.
Proof.
  induction l as [|x l IH]; intros a; simpl; auto. destruct (c x); simpl; apply IH.
Qed.

Lemma NoDup_map_filter : forall A B (f : A -> B) (p : A -> bool) l, NoDup (map f l) -> NoDup (map f (filter p l)).
Proof.
  induction l as [|x l IH]; intros H; simpl; [constructor|].
  inversion H; subst. destruct (p x); simpl; auto. constructor; auto.
  intro Hin. apply H2. apply in_map_iff in Hin. destruct Hin as [y [E Hy]]. apply filter_In in Hy.
  apply in_map_iff. exists y. tauto.
Qed.

Lemma NoDup_map_comp : forall A B C (f : A -> B) (g : B -> C) l, NoDup (map (fun x => g (f x)) l) -> NoDup (map f l).
Proof. intros A B C f g l H. rewrite <- map_map in H. eapply NoDup_map_inv. exact H. Qed.

(* the registered volumes of a data node, as the deletion loop of UpdateVolumes sees them *)
Lemma node_volumes_spec : forall st n, Struct st ->
  (forall v, In v (node_volumes st n) -> In v (i_vols (info st (n ++ [v_disk v]))) /\ In (n ++ [v_disk v]) (keys st)) /\
  NoDup (map vkey (node_volumes st n)).
Proof.
  intros st n Hs. unfold node_volumes, disks_of.
  assert (Hent : forall k i, In (k, i) (filter (fun e => is_child_of n (fst e)) st) ->
            exists x, k = n ++ [x] /\ i = info st k /\ In k (keys st)).
  { intros k i H. apply filter_In in H. destruct H as [Hin Hc]. simpl in Hc.
    apply is_child_of_spec in Hc. destruct Hc as [x E]. exists x. split; auto. split.
    - symmetry. apply info_in; [apply Hs|exact Hin].
    - apply (in_map fst) in Hin. exact Hin. }
  assert (Hnd : NoDup (map fst (filter (fun e => is_child_of n (fst e)) st))).
  { fold (keys (filter (fun e => is_child_of n (fst e)) st)). rewrite keys_filter. apply NoDup_filter. apply Hs. }
  revert Hent Hnd. generalize (filter (fun e => is_child_of n (fst e)) st). intros l Hent Hnd.
  split.
  - intros v Hv. apply in_flat_map in Hv. destruct Hv as [[k i] [Hin Hv]]. simpl in Hv.
    destruct (Hent k i Hin) as [x [E [Ei Hk]]]. subst i.
    assert (v_disk v = x) by (eapply payload_disk_vol; eauto). subst x. rewrite <- E. auto.
  - induction l as [|[k i] l IH]; simpl; [constructor|].
    inversion Hnd; subst. rewrite map_app. apply NoDup_app_intro.
    + destruct (Hent k i (or_introl eq_refl)) as [x [E [Ei Hk]]]. subst i.
      apply (NoDup_map_comp _ _ _ vkey snd). apply (s_payload st Hs k Hk).
    + apply IH; auto. intros k' i' H'. apply Hent. right. exact H'.
    + intros y Hy Hy'. apply in_map_iff in Hy. destruct Hy as [v [Ev Hv]].
      apply in_map_iff in Hy'. destruct Hy' as [v' [Ev' Hv']].
      apply in_flat_map in Hv'. destruct Hv' as [[k' i'] [Hin' Hv']]. simpl in Hv'.
      destruct (Hent k i (or_introl eq_refl)) as [x [E [Ei Hk]]]. subst i.
      destruct (Hent k' i' (or_intror Hin')) as [x' [E' [Ei' Hk']]]. subst i'.
      simpl in Hv.
      assert (v_disk v = x) by (apply (payload_disk_vol st k v n x Hs Hk Hv E)).
      assert (v_disk v' = x') by (apply (payload_disk_vol st k' v' n x' Hs Hk' Hv' E')).
      apply H1. apply in_map_iff. exists (k', info st k'). split; auto. simpl.
      unfold vkey in *. subst y. inversion Ev'. congruence.
Qed.

Theorem update_volumes_inv : forall st r n actual, Inv st r -> In n (keys st) -> length n = 3%nat ->
  Inv (update_volumes st n actual) r /\ (forall k, In k (keys st) -> In k (keys (update_volumes st n actual))).
Proof.
  intros st r n actual Hi Hn Hl. unfold update_volumes.
  rewrite fold_left_cond.
  destruct (node_volumes_spec st n (i_struct _ _ Hi)) as [Hreg Hnd].
  set (dels := filter (fun v => negb (existsb (fun a => N.eqb (v_id a) (v_id v)) actual)) (node_volumes st n)).
  destruct (delete_loop dels st r n Hi Hn Hl) as [Hi1 Hm1].
  { apply NoDup_map_filter. exact Hnd. }
  { intros v Hv. apply filter_In in Hv. destruct Hv as [Hv _]. destruct (Hreg v Hv) as [Hin Hk].
    exists v. split; auto. rewrite find_vol_mfind. apply mfind_in; auto.
    apply (s_payload st (i_struct _ _ Hi) _ Hk). }
  set (st1 := fold_left (fun s v => delete_volume s n v) dels st) in *.
  assert (G : forall l s, Inv s r -> In n (keys s) ->
            Inv (fold_left (fun s v => add_or_update_volume s n v) l s) r /\
            (forall k, In k (keys s) -> In k (keys (fold_left (fun s v => add_or_update_volume s n v) l s)))).
  { induction l as [|v l IH]; intros s His Hns; simpl; [auto|].
    destruct (add_or_update_volume_inv s r n v His Hns Hl) as [H1 H2].
    destruct (IH _ H1 (H2 n Hns)) as [H3 H4]. split; auto. }
  destruct (G actual st1 Hi1 (Hm1 n Hn)) as [H3 H4]. split; auto.
Qed.

(* after the repair every deleted volume of an incremental heartbeat is handled exactly:
   skipped when it is not registered, otherwise removed with the registered flags *)
Theorem delta_delete_volume_inv : forall st r n v, Inv st r -> In n (keys st) -> length n = 3%nat ->
  Inv (delta_delete_volume st n v) r /\ (forall k, In k (keys st) -> In k (keys (delta_delete_volume st n v))).
Proof.
  intros st r n v Hi Hn Hl. unfold delta_delete_volume.
  destruct (get_or_create_disk_inv st r n (v_disk v) Hi Hn Hl) as [Hi1 [Hq [Hmono _]]].
  rewrite (proj1 (info_goc_payload st n (v_disk v) (n ++ [v_disk v]))).
  destruct (find_vol (v_id v) (i_vols (info st (n ++ [v_disk v])))) as [oldV|] eqn:F; [|auto].
  apply (delete_volume_exact st r n
           {| v_id := v_id v; v_disk := v_disk v; v_remote := v_remote oldV; v_ro := v_ro oldV |} oldV Hi Hn Hl F).
  reflexivity.
Qed.

Theorem delta_update_volumes_inv : forall st r n news dels, Inv st r -> In n (keys st) -> length n = 3%nat ->
  Inv (delta_update_volumes st n news dels) r /\
  (forall k, In k (keys st) -> In k (keys (delta_update_volumes st n news dels))).
Proof.
  intros st r n news dels Hi Hn Hl. unfold delta_update_volumes.
  assert (G : forall (f : state -> path -> vinfo -> state),
            (forall s v, Inv s r -> In n (keys s) -> Inv (f s n v) r /\ (forall k, In k (keys s) -> In k (keys (f s n v)))) ->
            forall l s, Inv s r -> In n (keys s) ->
            Inv (fold_left (fun s v => f s n v) l s) r /\
            (forall k, In k (keys s) -> In k (keys (fold_left (fun s v => f s n v) l s)))).
  { intros f Hf. induction l as [|v l IH]; intros s His Hns; simpl; [auto|].
    destruct (Hf s v His Hns) as [H1 H2]. destruct (IH _ H1 (H2 n Hns)) as [H3 H4]. split; auto. }
  destruct (G delta_delete_volume (fun s v H1 H2 => delta_delete_volume_inv s r n v H1 H2 Hl) dels st Hi Hn) as [H1 H2].
  destruct (G add_or_update_volume (fun s v H3 H4 => add_or_update_volume_inv s r n v H3 H4 Hl) news _ H1 (H2 n Hn)) as [H3 H4].
  split; auto.
Qed.

(* ================================================================== *)
(* 9. incremental EC heartbeats                                        *)
(* ================================================================== *)
Lemma mfind_mput_same : forall A (key : A -> N) v l, mfind key (key v) (mput key v l) = Some v.
Proof.
  induction l as [|y l IH]; simpl.
  - rewrite N.eqb_refl. reflexivity.
  - destruct (N.eqb (key y) (key v)) eqn:E; simpl.
    + rewrite N.eqb_refl. reflexivity.
    + rewrite E. exact IH.
Qed.

Lemma ec_delta_get : forall disk c t (f : counts -> Z), f zero_counts = 0 ->
  f (uget (ec_delta disk c) t) = if String.eqb (to_dt disk) t then f (mkCounts 0 0 0 c 0) else 0.
Proof. intros. unfold ec_delta. apply uget_one. assumption. Qed.

Theorem add_or_update_ec_inv : forall st r n s, Inv st r -> In n (keys st) -> length n = 3%nat ->
  Inv (add_or_update_ec st n s) r /\ (forall k, In k (keys st) -> In k (keys (add_or_update_ec st n s))).
Proof.
  intros st r n s Hi Hn Hl. unfold add_or_update_ec.
  destruct (get_or_create_disk_inv st r n (e_disk s) Hi Hn Hl) as [Hi1 [Hq [Hmono _]]].
  set (st1 := get_or_create_disk st n (e_disk s)) in *.
  set (q := n ++ [e_disk s]) in *.
  assert (Hs1 : Struct st1) by apply Hi1.
  destruct (s_payload st1 Hs1 q Hq) as [P1 [P2 [P3 P4]]].
  assert (Main : forall x, (e_id x = e_id s) -> (exists n', q = n' ++ [e_disk x]) ->
            (forall t, we t x - wopt (we t) (find_ec (e_id s) (i_ecs (info st1 q))) =
                       if String.eqb (to_dt (e_disk s)) t
                       then popcount (e_bits x) - wopt (fun e => popcount (e_bits e)) (find_ec (e_id s) (i_ecs (info st1 q)))
                       else 0) ->
            Inv (up_adjust (upd st1 q (fun i => set_ecs (put_ec x (i_ecs i)) i)) q
                   (ec_delta (e_disk s) (popcount (e_bits x) -
                        wopt (fun e => popcount (e_bits e)) (find_ec (e_id s) (i_ecs (info st1 q)))))) r).
  { intros x Hid Hdisk Hw.
    apply balanced_step; auto.
    - apply set_ecs_keeps.
    - repeat split; simpl; auto.
      + rewrite put_ec_mput. apply mput_nodup. exact P2.
      + intros e He. rewrite put_ec_mput in He. apply mput_in in He. destruct He as [He|He]; [subst; exact Hdisk|apply P4; exact He].
    - intro t. rewrite ec_delta_get by reflexivity. simpl. destruct (String.eqb (to_dt (e_disk s)) t); simpl; unfold nvol; simpl; lia.
    - intro t. rewrite ec_delta_get by reflexivity. simpl. destruct (String.eqb (to_dt (e_disk s)) t); simpl; unfold nremote; simpl; lia.
    - intro t. rewrite ec_delta_get by reflexivity. rewrite !nec_sum. simpl.
      rewrite put_ec_mput, sum_mput, Hid.
      specialize (Hw t). rewrite !find_ec_mfind in Hw. rewrite ?find_ec_mfind.
      destruct (String.eqb (to_dt (e_disk s)) t); simpl; lia.
    - intro t. rewrite ec_delta_get by reflexivity. simpl. destruct (String.eqb (to_dt (e_disk s)) t); simpl; lia. }
  destruct (find_ec (e_id s) (i_ecs (info st1 q))) as [ex|] eqn:F.
  - assert (Hex : In ex (i_ecs (info st1 q)) /\ e_id ex = e_id s).
    { rewrite find_ec_mfind in F. apply mfind_some in F. exact F. }
    destruct Hex as [Hex Hid].
    assert (Hd : e_disk ex = e_disk s) by (apply (payload_disk_ec st1 q ex n (e_disk s) Hs1 Hq Hex eq_refl)).
    split.
    + specialize (Main {| e_id := e_id ex; e_disk := e_disk ex; e_bits := N.lor (e_bits ex) (e_bits s) |}).
      simpl in Main. apply Main; [exact Hid|exists n; rewrite Hd; reflexivity|].
      intro t. unfold we. simpl. rewrite Hd. destruct (String.eqb (to_dt (e_disk s)) t); lia.
    + intros k Hk. rewrite keys_up_adjust, keys_upd. apply Hmono. exact Hk.
  - split.
    + specialize (Main s). simpl in Main. rewrite Z.sub_0_r in Main. apply Main; [reflexivity|exists n; reflexivity|].
      intro t. unfold we. destruct (String.eqb (to_dt (e_disk s)) t); lia.
    + intros k Hk. rewrite keys_up_adjust, keys_upd. apply Hmono. exact Hk.
Qed.

Theorem delete_ec_inv : forall st r n s, Inv st r -> In n (keys st) -> length n = 3%nat ->
  Inv (delete_ec st n s) r /\ (forall k, In k (keys st) -> In k (keys (delete_ec st n s))).
Proof.
  intros st r n s Hi Hn Hl. unfold delete_ec.
  destruct (get_or_create_disk_inv st r n (e_disk s) Hi Hn Hl) as [Hi1 [Hq [Hmono _]]].
  set (st1 := get_or_create_disk st n (e_disk s)) in *.
  set (q := n ++ [e_disk s]) in *.
  assert (Hs1 : Struct st1) by apply Hi1.
  destruct (s_payload st1 Hs1 q Hq) as [P1 [P2 [P3 P4]]].
  destruct (find_ec (e_id s) (i_ecs (info st1 q))) as [ex|] eqn:F; [|split; auto].
  assert (Hex : In ex (i_ecs (info st1 q)) /\ e_id ex = e_id s).
  { rewrite find_ec_mfind in F. apply mfind_some in F. exact F. }
  destruct Hex as [Hex Hid].
  assert (Hd : e_disk ex = e_disk s) by (apply (payload_disk_ec st1 q ex n (e_disk s) Hs1 Hq Hex eq_refl)).
  set (nb := N.ldiff (e_bits ex) (e_bits s)).
  set (ex' := {| e_id := e_id ex; e_disk := e_disk ex; e_bits := nb |}).
  set (g := fun i => set_ecs (put_ec ex' (i_ecs i)) i).
  set (st2 := up_adjust (upd st1 q g) q (ec_delta (e_disk s) (popcount nb - popcount (e_bits ex)))).
  assert (Hi2 : Inv st2 r).
  { unfold st2. apply balanced_step; auto.
    - apply set_ecs_keeps.
    - unfold g. repeat split; simpl; auto.
      + rewrite put_ec_mput. apply mput_nodup. exact P2.
      + intros e He. rewrite put_ec_mput in He. apply mput_in in He. destruct He as [He|He]; [|apply P4; exact He].
        subst e. simpl. exists n. rewrite Hd. reflexivity.
    - intro t. rewrite ec_delta_get by reflexivity. simpl. destruct (String.eqb (to_dt (e_disk s)) t); simpl; unfold g, nvol; simpl; lia.
    - intro t. rewrite ec_delta_get by reflexivity. simpl. destruct (String.eqb (to_dt (e_disk s)) t); simpl; unfold g, nremote; simpl; lia.
    - intro t. rewrite ec_delta_get by reflexivity. rewrite !nec_sum. unfold g. simpl.
      rewrite put_ec_mput, sum_mput. unfold ex' at 2. simpl. rewrite Hid, <- find_ec_mfind, F. simpl.
      unfold we, ex'. simpl. rewrite Hd. destruct (String.eqb (to_dt (e_disk s)) t); simpl; lia.
    - intro t. rewrite ec_delta_get by reflexivity. simpl. destruct (String.eqb (to_dt (e_disk s)) t); simpl; lia. }
  assert (Hk2 : keys st2 = keys st1) by (unfold st2; rewrite keys_up_adjust, keys_upd; reflexivity).
  destruct (popcount nb =? 0) eqn:Ez.
  - apply Z.eqb_eq in Ez. split.
    + assert (Hq2 : In q (keys st2)) by (rewrite Hk2; exact Hq).
      assert (Hecs2 : i_ecs (info st2 q) = put_ec ex' (i_ecs (info st1 q))).
      { unfold st2. rewrite ecs_up_adjust, info_upd, path_eqb_refl. apply present_in in Hq. rewrite Hq. reflexivity. }
      destruct (s_payload st2 (i_struct _ _ Hi2) q Hq2) as [Q1 [Q2 [Q3 Q4]]].
      apply neutral_payload; auto.
      * apply set_ecs_keeps.
      * repeat split; simpl; auto.
        -- rewrite remove_ec_mremove. apply mremove_nodup. exact Q2.
        -- intros e He. rewrite remove_ec_mremove in He. apply mremove_in in He. apply Q4. tauto.
      * intro t. rewrite !nec_sum. simpl. rewrite remove_ec_mremove, sum_mremove by exact Q2.
        rewrite Hecs2, put_ec_mput. replace (e_id s) with (e_id ex') by (unfold ex'; simpl; exact Hid).
        rewrite mfind_mput_same. simpl. unfold we, ex'. simpl. rewrite Ez. destruct (String.eqb (to_dt (e_disk ex)) t); lia.
    + intros k Hk. rewrite keys_upd, Hk2. apply Hmono. exact Hk.
  - split; auto. intros k Hk. rewrite Hk2. apply Hmono. exact Hk.
Qed.

Theorem delta_update_ec_inv : forall st r n news dels, Inv st r -> In n (keys st) -> length n = 3%nat ->
  Inv (delta_update_ec st n news dels) r /\ (forall k, In k (keys st) -> In k (keys (delta_update_ec st n news dels))).
Proof.
  intros st r n news dels Hi Hn Hl. unfold delta_update_ec.
  assert (G : forall (f : state -> path -> ecinfo -> state),
            (forall s e, Inv s r -> In n (keys s) -> Inv (f s n e) r /\ (forall k, In k (keys s) -> In k (keys (f s n e)))) ->
            forall l s, Inv s r -> In n (keys s) ->
            Inv (fold_left (fun s e => f s n e) l s) r /\
            (forall k, In k (keys s) -> In k (keys (fold_left (fun s e => f s n e) l s)))).
  { intros f Hf. induction l as [|e l IH]; intros s His Hns; simpl; [auto|].
    destruct (Hf s e His Hns) as [H1 H2]. destruct (IH _ H1 (H2 n Hns)) as [H3 H4]. split; auto. }
  destruct (G add_or_update_ec (fun s e H1 H2 => add_or_update_ec_inv s r n e H1 H2 Hl) news st Hi Hn) as [H1 H2].
  destruct (G delete_ec (fun s e H3 H4 => delete_ec_inv s r n e H3 H4 Hl) dels _ H1 (H2 n Hn)) as [H3 H4].
  split; auto.
Qed.

Lemma info_goc : forall st n x k, info (get_or_create_disk st n x) k = info st k.
Proof.
  intros st n x k. unfold get_or_create_disk. destruct (present st (n ++ [x])) eqn:P; [reflexivity|].
  rewrite info_app_new. destruct (present st k) eqn:Pk; [reflexivity|].
  apply present_false in Pk. rewrite (info_absent st k Pk). destruct (path_eqb (n ++ [x]) k); reflexivity.
Qed.

Lemma Struct_goc : forall st n x, Struct st -> In n (keys st) -> Struct (get_or_create_disk st n x).
Proof.
  intros st n x Hs Hn. unfold get_or_create_disk. destruct (present st (n ++ [x])) eqn:P; [exact Hs|].
  apply present_false in P. apply Struct_add; auto. apply payload_ok_empty.
Qed.

Lemma keys_goc : forall st n x k, In k (keys (get_or_create_disk st n x)) <-> In k (keys st) \/ k = n ++ [x].
Proof.
  intros st n x k. unfold get_or_create_disk. destruct (present st (n ++ [x])) eqn:P.
  - apply present_in in P. split; [auto|intros [H|H]; subst; auto].
  - rewrite keys_app, in_app_iff. simpl. intuition.
Qed.

(* ================================================================== *)
(* 10. AdjustMaxVolumeCounts                                           *)
(* ================================================================== *)
(* the five consistency clauses without the reference part *)
Record Core (st : state) : Prop := {
  c_struct : Struct st;
  c_vol : Cons volumeCount E_vol st;
  c_remote : Cons remoteVolumeCount E_remote st;
  c_ec : Cons ecShardCount E_ec st;
  c_max : Cons maxVolumeCount E_max st }.

Lemma Inv_core : forall st r, Inv st r -> Core st.
Proof. intros st r [H1 H2 H3 H4 H5 H6]. constructor; assumption. Qed.

Lemma prefix3_of_disk : forall (m n : path) x, length m = 3%nat -> length n = 3%nat ->
  is_prefix m (n ++ [x]) = path_eqb m n.
Proof.
  intros m n x Hm Hn. destruct (is_prefix m (n ++ [x])) eqn:E.
  - apply is_prefix_app_r in E. destruct E as [E|E].
    + subst m. rewrite app_length in Hm. simpl in Hm. lia.
    + symmetry. apply path_eqb_eq. apply is_prefix_same_length; auto. lia.
  - symmetry. apply path_eqb_neq. intro Heq. subst m. rewrite is_prefix_app in E. discriminate.
Qed.

Lemma Core_goc : forall st n x, Core st -> In n (keys st) -> Core (get_or_create_disk st n x).
Proof.
  intros st n x [Hs Cv Cr Ce Cm] Hn. unfold get_or_create_disk.
  destruct (present st (n ++ [x])) eqn:P; [constructor; assumption|].
  apply present_false in P. constructor.
  - apply Struct_add; auto. apply payload_ok_empty.
  - apply Cons_add_empty; auto; intros; apply E_empty.
  - apply Cons_add_empty; auto; intros; apply E_empty.
  - apply Cons_add_empty; auto; intros; apply E_empty.
  - apply Cons_add_empty; auto; intros; apply E_empty.
Qed.

(* one max-count delta applied at the disk of its type *)
Lemma max_adjust_step : forall st n dt d, Core st -> In n (keys st) -> length n = 3%nat ->
  let st' := up_adjust (get_or_create_disk st n dt) (n ++ [dt]) [(dt, mkCounts 0 0 0 0 d)] in
  Core st' /\
  (forall k, In k (keys st) -> In k (keys st')) /\
  (forall p, In p (keys st') -> length p = 3%nat -> In p (keys st)) /\
  (forall m t, In m (keys st) -> length m = 3%nat ->
     maxVolumeCount (U st' m t) =
     maxVolumeCount (U st m t) + (if path_eqb m n && String.eqb dt t then d else 0)).
Proof.
  intros st n dt d Hi Hn Hl st'.
  pose proof (Core_goc st n dt Hi Hn) as Hi1.
  pose proof (goc_present st n dt) as Hq.
  assert (Hmono : forall k, In k (keys st) -> In k (keys (get_or_create_disk st n dt)))
    by (intros k Hk; apply keys_goc; left; exact Hk).
  assert (Hinfo : forall k, In k (keys st) -> info (get_or_create_disk st n dt) k = info st k)
    by (intros; apply info_goc).
  set (st1 := get_or_create_disk st n dt) in *.
  set (q := n ++ [dt]) in *.
  set (dl := [(dt, mkCounts 0 0 0 0 d)]).
  assert (Hlq : length q = 4%nat) by (unfold q; rewrite app_length; simpl; lia).
  assert (Hz : forall t (f : counts -> Z), f zero_counts = 0 -> f (mkCounts 0 0 0 0 d) = 0 -> f (uget dl t) = 0).
  { intros t f H0 H1. unfold dl. rewrite uget_one by assumption. destruct (String.eqb dt t); auto. }
  destruct Hi1 as [Hs1 Cv Cr Ce Cm].
  split; [|split; [|split]].
  - unfold st'. fold st1. fold q. fold dl. constructor.
    + apply Struct_up_adjust. exact Hs1.
    + rewrite <- (upd_id st1 q). apply Cons_balanced; auto using add_vol, payload_only_vol; try apply Hs1.
      * intro i. reflexivity.
      * intro t. rewrite Hz by reflexivity. lia.
    + rewrite <- (upd_id st1 q). apply Cons_balanced; auto using add_remote, payload_only_remote; try apply Hs1.
      * intro i. reflexivity.
      * intro t. rewrite Hz by reflexivity. lia.
    + rewrite <- (upd_id st1 q). apply Cons_balanced; auto using add_ec, payload_only_ec; try apply Hs1.
      * intro i. reflexivity.
      * intro t. rewrite Hz by reflexivity. lia.
    + intros p Hp t. rewrite keys_up_adjust in Hp. rewrite U_up_adjust by assumption.
      rewrite S_max_up_adjust_disk by (try apply Hs1; assumption).
      destruct (is_prefix p q); [rewrite add_max|]; rewrite (Cm p Hp t); lia.
  - intros k Hk. unfold st'. rewrite keys_up_adjust. apply Hmono. exact Hk.
  - intros p Hp Hlp. unfold st' in Hp. rewrite keys_up_adjust in Hp. fold st1 in Hp.
    unfold st1 in Hp. apply keys_goc in Hp. destruct Hp as [Hp|Hp]; auto.
    subst p. fold q in Hlp. lia.
  - intros m t Hm Hlm. unfold st'. fold st1. fold q. fold dl.
    rewrite U_up_adjust by (apply Hmono; exact Hm).
    assert (HU : U st1 m t = U st m t) by (unfold U; rewrite (Hinfo m Hm); reflexivity).
    unfold q. rewrite prefix3_of_disk by assumption.
    destruct (path_eqb m n); cbn [andb]; [|rewrite HU; lia].
    rewrite add_max, HU. unfold dl. rewrite uget_one by reflexivity. destruct (String.eqb dt t); simpl; lia.
Qed.

Definition dtf (km : string * Z) : string := to_dt (fst km).

Definition adjust_step (n : path) (s : state) (km : string * Z) : state :=
  let '(raw, m) := km in
  if m =? 0 then s
  else
    let dt := to_dt raw in
    let cur := maxVolumeCount (uget (i_usage (info s n)) dt) in
    if cur =? m then s
    else
      let s1 := get_or_create_disk s n dt in
      let delta := uset_max [] dt (m - cur) in
      up_adjust s1 (n ++ [dt]) delta.

Lemma adjust_max_fold : forall st n maxs, adjust_max st n maxs = fold_left (adjust_step n) maxs st.
Proof. reflexivity. Qed.

(* the value the data node's max count has after the heartbeat, per disk type *)
Definition max_spec (l : list (string * Z)) (orig : string -> Z) (t : string) : Z :=
  match find (fun km => String.eqb (dtf km) t) l with
  | Some km => if snd km =? 0 then orig t else snd km
  | None => orig t
  end.

Lemma find_key_some : forall (l : list (string * Z)) t km,
  find (fun km => String.eqb (dtf km) t) l = Some km -> In km l /\ dtf km = t.
Proof.
  intros l t km H. apply find_some in H. destruct H as [H1 H2]. apply String.eqb_eq in H2. auto.
Qed.

Lemma find_key_unique : forall (l : list (string * Z)) km, NoDup (map dtf l) -> In km l ->
  find (fun x => String.eqb (dtf x) (dtf km)) l = Some km.
Proof.
  induction l as [|x l IH]; intros km Hnd Hin; [contradiction|].
  simpl in *. inversion Hnd; subst. destruct Hin as [Hin|Hin].
  - subst. rewrite String.eqb_refl. reflexivity.
  - destruct (String.eqb (dtf x) (dtf km)) eqn:E.
    + apply String.eqb_eq in E. exfalso. apply H1. rewrite E. apply in_map. exact Hin.
    + apply IH; auto.
Qed.

Lemma find_key_none : forall (l : list (string * Z)) t,
  find (fun km => String.eqb (dtf km) t) l = None -> forall km, In km l -> dtf km <> t.
Proof.
  intros l t H km Hin E. apply (find_none _ _ H) in Hin. apply String.eqb_neq in Hin. contradiction.
Qed.

Lemma max_spec_perm : forall l l' orig t, NoDup (map dtf l) -> Permutation l l' ->
  max_spec l orig t = max_spec l' orig t.
Proof.
  intros l l' orig t Hnd Hp. unfold max_spec.
  assert (Hnd' : NoDup (map dtf l')) by (eapply Permutation_NoDup; [apply Permutation_map; exact Hp|exact Hnd]).
  destruct (find (fun km => String.eqb (dtf km) t) l) as [km|] eqn:F.
  - apply find_key_some in F. destruct F as [Hin E]. subst t.
    rewrite (find_key_unique l' km Hnd'); [reflexivity|]. eapply Permutation_in; eauto.
  - destruct (find (fun km => String.eqb (dtf km) t) l') as [km'|] eqn:F'; [|reflexivity].
    apply find_key_some in F'. destruct F' as [Hin E]. exfalso.
    apply (find_key_none l t F km'); auto. eapply Permutation_in; [apply Permutation_sym; exact Hp|exact Hin].
Qed.

(* any number of disk types may change in one heartbeat *)
Theorem adjust_max_effect : forall n l st, Core st -> In n (keys st) -> length n = 3%nat ->
  NoDup (map dtf l) ->
  let st' := adjust_max st n l in
  Core st' /\
  (forall k, In k (keys st) -> In k (keys st')) /\
  (forall p, In p (keys st') -> length p = 3%nat -> In p (keys st)) /\
  (forall m t, In m (keys st) -> length m = 3%nat -> m <> n -> maxVolumeCount (U st' m t) = maxVolumeCount (U st m t)) /\
  (forall t, maxVolumeCount (U st' n t) = max_spec l (fun t => maxVolumeCount (U st n t)) t).
Proof.
  intros n l. induction l as [|[raw m] l IH]; intros st Hc Hn Hl Hnd st'; unfold st'; rewrite adjust_max_fold.
  - simpl. split; [exact Hc|]. split; [auto|]. split; [auto|]. split; [auto|]. intro t. reflexivity.
  - cbn [fold_left]. rewrite <- adjust_max_fold.
    inversion Hnd as [|x xs Hx Hnd']; subst.
    assert (Hskip : adjust_step n st (raw, m) = st ->
              (m =? 0) = true \/ maxVolumeCount (U st n (to_dt raw)) = m ->
              let st' := adjust_max st n l in
              Core st' /\ (forall k, In k (keys st) -> In k (keys st')) /\
              (forall p, In p (keys st') -> length p = 3%nat -> In p (keys st)) /\
              (forall m0 t, In m0 (keys st) -> length m0 = 3%nat -> m0 <> n -> maxVolumeCount (U st' m0 t) = maxVolumeCount (U st m0 t)) /\
              (forall t, maxVolumeCount (U st' n t) = max_spec ((raw, m) :: l) (fun t => maxVolumeCount (U st n t)) t)).
    { intros _ Hwhy. destruct (IH st Hc Hn Hl Hnd') as [H1 [H2 [H3 [H4 H5]]]].
      split; [exact H1|]. split; [exact H2|]. split; [exact H3|]. split; [exact H4|].
      intro t. rewrite H5. unfold max_spec. cbn [find].
      destruct (String.eqb (dtf (raw, m)) t) eqn:E; [|reflexivity].
      apply String.eqb_eq in E. subst t.
      destruct (find (fun km => String.eqb (dtf km) (dtf (raw, m))) l) as [km'|] eqn:F.
      - apply find_key_some in F. destruct F as [Hin E]. exfalso. apply Hx. rewrite <- E. apply in_map. exact Hin.
      - cbn [snd]. destruct Hwhy as [Hw|Hw]; [rewrite Hw; reflexivity|].
        destruct (m =? 0); [reflexivity|]. unfold dtf. simpl. exact Hw. }
    destruct (m =? 0) eqn:E0.
    { assert (Es : adjust_step n st (raw, m) = st) by (unfold adjust_step; rewrite E0; reflexivity).
      rewrite Es. apply Hskip; [exact Es|left; reflexivity]. }
    destruct (maxVolumeCount (uget (i_usage (info st n)) (to_dt raw)) =? m) eqn:E1.
    { assert (Es : adjust_step n st (raw, m) = st) by (unfold adjust_step; rewrite E0, E1; reflexivity).
      rewrite Es. apply Hskip; [exact Es|right; apply Z.eqb_eq; exact E1]. }
    clear Hskip.
    assert (Es : adjust_step n st (raw, m) =
                 up_adjust (get_or_create_disk st n (to_dt raw)) (n ++ [to_dt raw])
                   [(to_dt raw, mkCounts 0 0 0 0 (m - maxVolumeCount (uget (i_usage (info st n)) (to_dt raw))))])
      by (unfold adjust_step; rewrite E0, E1; reflexivity).
    rewrite Es. clear Es.
    destruct (max_adjust_step st n (to_dt raw) (m - maxVolumeCount (uget (i_usage (info st n)) (to_dt raw))) Hc Hn Hl)
      as [Hc1 [Hk1 [Hk2 Hm1]]].
    set (s1 := up_adjust (get_or_create_disk st n (to_dt raw)) (n ++ [to_dt raw])
                 [(to_dt raw, mkCounts 0 0 0 0 (m - maxVolumeCount (uget (i_usage (info st n)) (to_dt raw))))]) in *.
    destruct (IH s1 Hc1 (Hk1 n Hn) Hl Hnd') as [H1 [H2 [H3 [H4 H5]]]].
    split; [exact H1|]. split; [intros k Hk; apply H2; apply Hk1; exact Hk|].
    split; [intros p Hp Hlp; apply Hk2; auto|]. split.
    + intros m0 t Hm0 Hlm0 Hne. rewrite H4; auto. rewrite (Hm1 m0 t Hm0 Hlm0).
      apply path_eqb_neq in Hne. rewrite Hne. simpl. lia.
    + intro t. rewrite H5. unfold max_spec. cbn [find].
      destruct (String.eqb (dtf (raw, m)) t) eqn:E.
      * apply String.eqb_eq in E. subst t.
        destruct (find (fun km => String.eqb (dtf km) (dtf (raw, m))) l) as [km'|] eqn:F.
        -- apply find_key_some in F. destruct F as [Hin E]. exfalso. apply Hx. rewrite <- E. apply in_map. exact Hin.
        -- cbn [snd]. rewrite E0. rewrite (Hm1 n _ Hn Hl), path_eqb_refl. unfold dtf. simpl.
           rewrite String.eqb_refl. simpl. unfold U. lia.
      * assert (Ho : maxVolumeCount (U s1 n t) = maxVolumeCount (U st n t)).
        { rewrite (Hm1 n t Hn Hl), path_eqb_refl. unfold dtf in E. simpl in E. rewrite E. simpl. lia. }
        destruct (find (fun km => String.eqb (dtf km) t) l) as [km'|]; [destruct (snd km' =? 0)|]; auto.
Qed.

(* ---- the reference side of AdjustMax ---- *)
Lemma rget_rset : forall l t x t', rget (rset l t x) t' = if String.eqb t t' then x else rget l t'.
Proof.
  induction l as [|[k v] l IH]; intros t x t'; simpl.
  - reflexivity.
  - destruct (String.eqb k t) eqn:E1; simpl.
    + apply String.eqb_eq in E1. subst k. destruct (String.eqb t t'); reflexivity.
    + destruct (String.eqb k t') eqn:E2.
      * apply String.eqb_eq in E2. subst k. rewrite String.eqb_sym in E1. rewrite E1. reflexivity.
      * apply IH.
Qed.

Definition ref_adjust_fold (maxs : list (string * Z)) (acc : list (string * Z)) : list (string * Z) :=
  fold_left (fun acc (km : string * Z) => if snd km =? 0 then acc else rset acc (to_dt (fst km)) (snd km)) maxs acc.

Lemma ref_adjust_spec : forall l acc t, NoDup (map dtf l) ->
  rget (ref_adjust_fold l acc) t = max_spec l (rget acc) t.
Proof.
  induction l as [|km l IH]; intros acc t Hnd; [reflexivity|].
  inversion Hnd; subst. unfold ref_adjust_fold in *. cbn [fold_left]. rewrite IH by assumption.
  unfold max_spec. cbn [find].
  destruct (String.eqb (dtf km) t) eqn:E.
  - apply String.eqb_eq in E. subst t.
    destruct (find (fun x => String.eqb (dtf x) (dtf km)) l) as [km'|] eqn:F.
    + apply find_key_some in F. destruct F as [Hin E]. exfalso. apply H1. rewrite <- E. apply in_map. exact Hin.
    + destruct (snd km =? 0); auto. rewrite rget_rset. unfold dtf. rewrite String.eqb_refl. reflexivity.
  - destruct (find (fun x => String.eqb (dtf x) t) l) as [km'|]; destruct (snd km =? 0); auto;
      try (destruct (snd km' =? 0); auto); rewrite rget_rset; unfold dtf in E; rewrite E; reflexivity.
Qed.

Lemma ref_info_in : forall r p i, NoDup (rkeys r) -> In (p, i) r -> ref_info r p = i.
Proof.
  induction r as [|[k0 i0] r IH]; intros p i Hnd Hin; [contradiction|].
  simpl in *. inversion Hnd; subst. destruct Hin as [Hin|Hin].
  - inversion Hin; subst. rewrite path_eqb_refl. reflexivity.
  - destruct (path_eqb k0 p) eqn:E.
    + apply path_eqb_eq in E. subst. exfalso. apply H1. apply (in_map fst) in Hin. exact Hin.
    + apply IH; auto.
Qed.

Lemma ref_info_map : forall r n (g : list (string * Z) -> list (string * Z)) p,
  ref_info (map (fun e => if path_eqb (fst e) n then (fst e, g (snd e)) else e) r) p =
  if path_eqb n p && ref_present r n then g (ref_info r n) else ref_info r p.
Proof.
  induction r as [|[k0 i0] r IH]; intros n g p; simpl.
  - rewrite andb_false_r. reflexivity.
  - unfold ref_present in *. simpl.
    destruct (path_eqb k0 n) eqn:E1; simpl.
    + apply path_eqb_eq in E1. subst k0. destruct (path_eqb n p) eqn:E2; simpl; [reflexivity|].
      rewrite IH. rewrite E2. reflexivity.
    + destruct (path_eqb k0 p) eqn:E2.
      * apply path_eqb_eq in E2. subst k0. rewrite path_eqb_sym in E1. rewrite E1. reflexivity.
      * rewrite IH. reflexivity.
Qed.

Lemma ref_present_in : forall r p, ref_present r p = true <-> In p (rkeys r).
Proof.
  intros r p. unfold ref_present, rkeys. rewrite existsb_exists. split.
  - intros [e [He E]]. apply path_eqb_eq in E. subst. apply in_map. exact He.
  - intro H. apply in_map_iff in H. destruct H as [e [E He]]. exists e. split; auto. subst. apply path_eqb_refl.
Qed.

Lemma Core_ref_inv : forall st r, Core st -> RefInv st r -> Inv st r.
Proof. intros st r [H1 H2 H3 H4 H5] H6. constructor; assumption. Qed.

Theorem adjust_max_inv : forall st r n maxs order, Inv st r -> In n (keys st) -> length n = 3%nat ->
  wf_op (AdjustMax n maxs) = true ->
  Inv (adjust_max st n (permute order maxs)) (ref_step r (AdjustMax n maxs)) /\
  (forall k, In k (keys st) -> In k (keys (adjust_max st n (permute order maxs)))).
Proof.
  intros st r n maxs order Hi Hn Hl Hwf.
  simpl in Hwf. apply (nodupb_sound _ String.eqb String.eqb_eq) in Hwf.
  change (map (fun km : string * Z => to_dt (fst km)) maxs) with (map dtf maxs) in Hwf.
  pose proof (permute_perm _ order maxs) as Hp.
  assert (Hnd : NoDup (map dtf (permute order maxs))).
  { eapply Permutation_NoDup; [apply Permutation_map; apply Permutation_sym; exact Hp|exact Hwf]. }
  destruct (adjust_max_effect n (permute order maxs) st (Inv_core _ _ Hi) Hn Hl Hnd) as [Hc [Hk1 [Hk2 [Hm1 Hm2]]]].
  split; [|exact Hk1].
  apply Core_ref_inv; [exact Hc|].
  destruct (i_ref _ _ Hi) as [R1 R2 R3].
  assert (Hnr : In n (rkeys r)) by (apply R2; auto).
  constructor.
  - simpl. unfold rkeys. rewrite map_map.
    erewrite map_ext; [exact R1|]. intros [k i]. simpl. destruct (path_eqb k n); reflexivity.
  - intro p. simpl. unfold rkeys. rewrite map_map.
    erewrite map_ext with (g := fst); [|intros [k i]; simpl; destruct (path_eqb k n); reflexivity].
    fold (rkeys r). rewrite R2. split.
    + intros [H1 H2]. split; auto.
    + intros [H1 H2]. split; auto.
  - intros m Hm t. simpl in Hm.
    assert (Hm' : In m (rkeys r)).
    { unfold rkeys in *. rewrite map_map in Hm.
      erewrite map_ext with (g := fst) in Hm; [exact Hm|]. intros [k i]. simpl. destruct (path_eqb k n); reflexivity. }
    destruct (proj1 (R2 m) Hm') as [Hmk Hml].
    simpl. rewrite ref_info_map.
    destruct (path_eqb n m) eqn:E.
    + apply path_eqb_eq in E. subst m. apply ref_present_in in Hnr. rewrite Hnr. simpl.
      rewrite Hm2. fold (ref_adjust_fold maxs (ref_info r n)). rewrite ref_adjust_spec by exact Hwf.
      rewrite <- (max_spec_perm maxs (permute order maxs)) by (auto; apply Permutation_sym; exact Hp).
      unfold max_spec. destruct (find (fun km => String.eqb (dtf km) t) maxs) as [km|].
      * destruct (snd km =? 0); try reflexivity. apply R3. apply ref_present_in. exact Hnr.
      * apply R3. apply ref_present_in. exact Hnr.
    + simpl. rewrite Hm1; auto. apply path_eqb_neq in E. congruence.
Qed.

(* ================================================================== *)
(* 11. joining (GetOrCreateDataCenter / Rack / DataNode)               *)
(* ================================================================== *)
Lemma RefInv_add_other : forall st r q i0, RefInv st r -> length q <> 3%nat -> ~ In q (keys st) ->
  RefInv (st ++ [(q, i0)]) r.
Proof.
  intros st r q i0 Hr Hl Hq. constructor.
  - apply Hr.
  - intro p. rewrite keys_app, (r_keys _ _ Hr p). split.
    + intros [H1 H2]. split; auto. apply in_or_app. left. exact H1.
    + intros [H1 H2]. split; auto. apply in_app_or in H1. destruct H1 as [H1|[H1|[]]]; auto.
      subst p. contradiction.
  - intros m Hm t. rewrite U_app_new_old; [apply Hr; exact Hm|]. apply (r_keys _ _ Hr) in Hm. tauto.
Qed.

Lemma link_empty_inv : forall st r n x, Inv st r -> In n (keys st) -> length (n ++ [x]) <> 3%nat ->
  let st' := link_empty st (n ++ [x]) in
  Inv st' r /\ In (n ++ [x]) (keys st') /\
  (forall k, In k (keys st) -> In k (keys st')) /\
  (forall k, In k (keys st') -> length k = 3%nat -> In k (keys st)).
Proof.
  intros st r n x Hi Hn Hl st'. unfold st', link_empty.
  destruct (present st (n ++ [x])) eqn:P.
  - apply present_in in P. auto.
  - apply present_false in P. split; [|split; [|split]].
    + destruct Hi. constructor.
      * apply Struct_add; auto. apply payload_ok_empty.
      * apply Cons_add_empty; auto; intros; apply E_empty.
      * apply Cons_add_empty; auto; intros; apply E_empty.
      * apply Cons_add_empty; auto; intros; apply E_empty.
      * apply Cons_add_empty; auto; intros; apply E_empty.
      * apply RefInv_add_other; auto.
    + rewrite keys_app. apply in_or_app. right. left. reflexivity.
    + intros k Hk. rewrite keys_app. apply in_or_app. left. exact Hk.
    + intros k Hk Hlk. rewrite keys_app in Hk. apply in_app_or in Hk. destruct Hk as [Hk|[Hk|[]]]; auto.
      subst k. contradiction.
Qed.

(* adding an entry whose field and recomputation are both zero *)
Lemma Cons_add_entry_zero : forall f e st q i0, Struct st -> ~ In q (keys st) -> Cons f e st ->
  (forall t, e q i0 t = 0) -> (forall t, f (uget (i_usage i0) t) = 0) ->
  Cons f e (st ++ [(q, i0)]).
Proof.
  intros f e st q i0 Hs Hq Hc He Hf p Hp t. rewrite keys_app in Hp. rewrite S_app_new by assumption. rewrite He.
  apply in_app_or in Hp. destruct Hp as [Hp|[Hp|[]]].
  - rewrite U_app_new_old by assumption. rewrite (Hc p Hp t). destruct (is_prefix p q); lia.
  - subst p. rewrite U_app_new_self by assumption. rewrite Hf. rewrite S_absent_zero by assumption.
    destruct (is_prefix q q); lia.
Qed.

Lemma Cons_adjust_zero : forall f e st q d, f_additive f -> payload_only e -> Cons f e st ->
  (forall t, f (uget d t) = 0) -> Cons f e (up_adjust st q d).
Proof.
  intros f e st q d Hf He Hc Hz p Hp t. rewrite keys_up_adjust in Hp.
  rewrite U_up_adjust by assumption. rewrite S_up_adjust_payload by assumption.
  destruct (is_prefix p q); [rewrite Hf, Hz|]; rewrite (Hc p Hp t); lia.
Qed.

(* NewDisk(raw) with its max count, linked under the data node n *)
Lemma join_disk_step : forall st n raw m, Core st -> In n (keys st) -> length n = 3%nat ->
  ~ In (n ++ [raw]) (keys st) ->
  let u := [(to_dt raw, mkCounts 0 0 0 0 m)] in
  let st' := up_adjust (st ++ [(n ++ [raw], {| i_usage := u; i_vols := []; i_ecs := [] |})]) n u in
  Core st' /\ keys st' = keys st ++ [n ++ [raw]] /\
  (forall k t, In k (keys st) -> length k = 3%nat ->
     maxVolumeCount (U st' k t) = maxVolumeCount (U st k t) + (if path_eqb k n && String.eqb (to_dt raw) t then m else 0)).
Proof.
  intros st n raw m Hc Hn Hl Hq u st'.
  set (q := n ++ [raw]) in *.
  set (i0 := {| i_usage := u; i_vols := []; i_ecs := [] |}).
  set (sa := st ++ [(q, i0)]).
  destruct Hc as [Hs Cv Cr Ce Cm].
  assert (Hlq : length q = 4%nat) by (unfold q; rewrite app_length; simpl; lia).
  assert (Hsa : Struct sa).
  { apply Struct_add; auto. repeat split; simpl; try constructor; intros ? []. }
  assert (Hz : forall t (f : counts -> Z), f zero_counts = 0 -> f (mkCounts 0 0 0 0 m) = 0 -> f (uget u t) = 0).
  { intros t f H0 H1. unfold u. rewrite uget_one by assumption. destruct (String.eqb (to_dt raw) t); auto. }
  split; [|split].
  - unfold st'. fold q. fold i0. fold sa. constructor.
    + apply Struct_up_adjust. exact Hsa.
    + apply Cons_adjust_zero; auto using add_vol, payload_only_vol; try (intro t; apply Hz; reflexivity).
      apply Cons_add_entry_zero; auto; intro t; simpl; try reflexivity; apply Hz; reflexivity.
    + apply Cons_adjust_zero; auto using add_remote, payload_only_remote; try (intro t; apply Hz; reflexivity).
      apply Cons_add_entry_zero; auto; intro t; simpl; try reflexivity; apply Hz; reflexivity.
    + apply Cons_adjust_zero; auto using add_ec, payload_only_ec; try (intro t; apply Hz; reflexivity).
      apply Cons_add_entry_zero; auto; intro t; simpl; try reflexivity; apply Hz; reflexivity.
    + intros p Hp t. rewrite keys_up_adjust in Hp.
      rewrite U_up_adjust by assumption.
      rewrite S_max_up_adjust_high by lia.
      unfold sa. rewrite S_app_new by assumption.
      unfold sa in Hp. rewrite keys_app in Hp. apply in_app_or in Hp. destruct Hp as [Hp|[Hp|[]]].
      * rewrite U_app_new_old by assumption.
        assert (Epre : is_prefix p q = is_prefix p n).
        { destruct (is_prefix p q) eqn:E1.
          - apply is_prefix_app_r in E1. destruct E1 as [E1|E1]; [subst p; contradiction|auto].
          - destruct (is_prefix p n) eqn:E2; auto.
            assert (is_prefix p q = true) by (eapply is_prefix_trans; [exact E2|apply is_prefix_app]). congruence. }
        rewrite Epre. unfold E_max at 2. rewrite Hlq. simpl.
        destruct (is_prefix p n); [rewrite add_max|]; rewrite (Cm p Hp t); lia.
      * subst p. rewrite U_app_new_self by assumption.
        assert (En : is_prefix q n = false).
        { destruct (is_prefix q n) eqn:E; auto. apply is_prefix_length in E. lia. }
        rewrite En, is_prefix_refl. rewrite S_absent_zero by assumption.
        unfold E_max. rewrite Hlq. simpl. lia.
  - unfold st'. rewrite keys_up_adjust, keys_app. reflexivity.
  - intros k t Hk Hlk. unfold st'. fold q. fold i0. fold sa.
    rewrite U_up_adjust by (unfold sa; rewrite keys_app; apply in_or_app; left; exact Hk).
    unfold sa. rewrite U_app_new_old by assumption.
    assert (E : is_prefix k n = path_eqb k n).
    { destruct (is_prefix k n) eqn:E1.
      - symmetry. apply path_eqb_eq. apply is_prefix_same_length; auto. lia.
      - symmetry. apply path_eqb_neq. intro Heq. subst k. rewrite is_prefix_refl in E1. discriminate. }
    rewrite E. destruct (path_eqb k n); cbn [andb]; [|lia].
    rewrite add_max. unfold u. rewrite uget_one by reflexivity. destruct (String.eqb (to_dt raw) t); simpl; lia.
Qed.

Definition join_step (n : path) (s : state) (km : string * Z) : state :=
  let '(raw, m) := km in
  let q := n ++ [raw] in
  if present s q then s
  else
    let u := [(to_dt raw, mkCounts 0 0 0 0 m)] in
    up_adjust (s ++ [(q, {| i_usage := u; i_vols := []; i_ecs := [] |})]) n u.

Definition ref_join_step (acc : list (string * Z)) (km : string * Z) : list (string * Z) :=
  rset acc (to_dt (fst km)) (rget acc (to_dt (fst km)) + snd km).

Lemma join_fold : forall n rest s acc done base,
  length n = 3%nat -> NoDup (map fst (done ++ rest)) ->
  Core s -> In n (keys s) -> keys s = base ++ map (fun km => n ++ [fst km]) done ->
  (forall raw, ~ In (n ++ [raw]) base) ->
  (forall t, maxVolumeCount (U s n t) = rget acc t) ->
  let s' := fold_left (join_step n) rest s in
  Core s' /\ keys s' = base ++ map (fun km => n ++ [fst km]) (done ++ rest) /\
  (forall t, maxVolumeCount (U s' n t) = rget (fold_left ref_join_step rest acc) t) /\
  (forall k t, In k (keys s) -> length k = 3%nat -> k <> n -> maxVolumeCount (U s' k t) = maxVolumeCount (U s k t)).
Proof.
  intros n rest. induction rest as [|[raw m] rest IH]; intros s acc done base Hl Hnd Hc Hn Hk Hb Hm; simpl.
  - rewrite app_nil_r. auto.
  - assert (Hq : ~ In (n ++ [raw]) (keys s)).
    { rewrite Hk. intro Hin. apply in_app_or in Hin. destruct Hin as [Hin|Hin]; [apply (Hb raw); exact Hin|].
      apply in_map_iff in Hin. destruct Hin as [km [E Hin]]. apply app_inj_tail in E. destruct E as [_ E].
      rewrite map_app in Hnd. simpl in Hnd. apply NoDup_remove_2 in Hnd. apply Hnd. apply in_or_app. left.
      rewrite <- E. apply in_map. exact Hin. }
    pose proof Hq as Hq'. apply present_false in Hq'. rewrite Hq'.
    destruct (join_disk_step s n raw m Hc Hn Hl Hq) as [Hc1 [Hk1 Hm1]].
    set (s1 := up_adjust (s ++ [(n ++ [raw], {| i_usage := [(to_dt raw, mkCounts 0 0 0 0 m)]; i_vols := []; i_ecs := [] |})]) n
                 [(to_dt raw, mkCounts 0 0 0 0 m)]) in *.
    destruct (IH s1 (ref_join_step acc (raw, m)) (done ++ [(raw, m)]) base) as [Hc2 [Hk2 [Hm2 Ho2]]]; auto.
    + rewrite <- app_assoc. exact Hnd.
    + rewrite Hk1. apply in_or_app. left. exact Hn.
    + rewrite Hk1, Hk, map_app, <- app_assoc. reflexivity.
    + intro t. rewrite (Hm1 n t Hn Hl), path_eqb_refl. cbn [andb].
      unfold ref_join_step. simpl. rewrite rget_rset, Hm.
      destruct (String.eqb (to_dt raw) t) eqn:E; [|lia]. apply String.eqb_eq in E. subst t. lia.
    + split; [exact Hc2|]. split; [rewrite Hk2, <- app_assoc; reflexivity|]. split; [exact Hm2|].
      intros k t Hkk Hlk Hne. rewrite Ho2; auto.
      * rewrite (Hm1 k t Hkk Hlk). apply path_eqb_neq in Hne. rewrite Hne. simpl. lia.
      * rewrite Hk1. apply in_or_app. left. exact Hkk.
Qed.

Lemma ref_info_app_old : forall r x p, In p (rkeys r) -> ref_info (r ++ x) p = ref_info r p.
Proof.
  induction r as [|[k i] r IH]; intros x p H; [contradiction|].
  simpl in *. destruct (path_eqb k p) eqn:E; auto.
  destruct H as [H|H]; [subst; rewrite path_eqb_refl in E; discriminate|]. apply IH. exact H.
Qed.

Lemma ref_info_app_new : forall r p i, ~ In p (rkeys r) -> ref_info (r ++ [(p, i)]) p = i.
Proof.
  induction r as [|[k i0] r IH]; intros p i H; simpl.
  - rewrite path_eqb_refl. reflexivity.
  - destruct (path_eqb k p) eqn:E.
    + apply path_eqb_eq in E. subst. exfalso. apply H. left. reflexivity.
    + apply IH. intro Hin. apply H. right. exact Hin.
Qed.

Theorem join_inv : forall st r dc rack node maxs, Inv st r -> wf_op (Join dc rack node maxs) = true ->
  Inv (join st dc rack node maxs) (ref_step r (Join dc rack node maxs)).
Proof.
  intros st r dc rack node maxs Hi Hwf. simpl in Hwf. apply (nodupb_sound _ String.eqb String.eqb_eq) in Hwf.
  unfold join.
  destruct (link_empty_inv st r [] dc Hi (s_root _ (i_struct _ _ Hi))) as [Hi1 [Hd1 [Hm1 Hb1]]]; [simpl; lia|].
  simpl in Hi1, Hd1, Hm1, Hb1.
  set (st1 := link_empty st [dc]) in *.
  destruct (link_empty_inv st1 r [dc] rack Hi1 Hd1) as [Hi2 [Hd2 [Hm2 Hb2]]]; [simpl; lia|].
  simpl in Hi2, Hd2, Hm2, Hb2.
  set (st2 := link_empty st1 [dc; rack]) in *.
  set (n := [dc; rack; node]).
  assert (Hln : length n = 3%nat) by reflexivity.
  destruct (i_ref _ _ Hi2) as [R1 R2 R3].
  cbn [ref_step]. fold n.
  destruct (present st2 n) eqn:P.
  - apply present_in in P.
    assert (Hr : ref_present r n = true) by (apply ref_present_in; apply R2; auto).
    rewrite Hr. exact Hi2.
  - apply present_false in P.
    assert (Hr : ref_present r n = false).
    { destruct (ref_present r n) eqn:E; auto. apply ref_present_in in E. apply R2 in E. tauto. }
    rewrite Hr.
    set (st3 := st2 ++ [(n, empty_info)]).
    assert (Hc3 : Core st3).
    { destruct Hi2 as [Hs Cv Cr Ce Cm _]. constructor.
      - apply (Struct_add st2 [dc; rack] node); auto. apply payload_ok_empty.
      - apply Cons_add_empty; auto; intros; apply E_empty.
      - apply Cons_add_empty; auto; intros; apply E_empty.
      - apply Cons_add_empty; auto; intros; apply E_empty.
      - apply Cons_add_empty; auto; intros; apply E_empty. }
    assert (Hn3 : In n (keys st3)) by (unfold st3; rewrite keys_app; apply in_or_app; right; left; reflexivity).
    assert (Hbase : forall raw, ~ In (n ++ [raw]) (keys st3)).
    { intros raw Hin. unfold st3 in Hin. rewrite keys_app in Hin. apply in_app_or in Hin. destruct Hin as [Hin|[Hin|[]]].
      - apply P. eapply (s_pc _ (i_struct _ _ Hi2)); [exact Hin|apply is_prefix_app].
      - apply (f_equal (@length string)) in Hin. rewrite app_length in Hin. simpl in Hin. lia. }
    destruct (join_fold n maxs st3 [] [] (keys st3) Hln Hwf Hc3 Hn3) as [Hc4 [Hk4 [Hm4 Ho4]]].
    { simpl. rewrite app_nil_r. reflexivity. }
    { exact Hbase. }
    { intro t. unfold st3. rewrite U_app_new_self by exact P. reflexivity. }
    change (Inv (fold_left (join_step n) maxs st3) (r ++ [(n, fold_left ref_join_step maxs [])])).
    simpl in Hk4.
    apply Core_ref_inv; [exact Hc4|].
    assert (Hnr : ~ In n (rkeys r)) by (intro E; apply R2 in E; tauto).
    constructor.
    + unfold rkeys. rewrite map_app. simpl. apply NoDup_app_intro; [exact R1|repeat constructor; intros []|].
      intros x Hx [E|[]]. subst. contradiction.
    + intro p. unfold rkeys. rewrite map_app. simpl. rewrite Hk4. split.
      * intro H. apply in_app_or in H. destruct H as [H|[H|[]]].
        -- apply R2 in H. destruct H as [H1 H2]. split; auto. apply in_or_app. left. unfold st3. rewrite keys_app.
           apply in_or_app. left. exact H1.
        -- subst p. split; auto. apply in_or_app. left. exact Hn3.
      * intros [H1 H2]. apply in_app_or in H1. destruct H1 as [H1|H1].
        -- unfold st3 in H1. rewrite keys_app in H1. apply in_app_or in H1. destruct H1 as [H1|[H1|[]]].
           ++ apply in_or_app. left. apply R2. auto.
           ++ apply in_or_app. right. left. exact H1.
        -- apply in_map_iff in H1. destruct H1 as [km [E _]]. rewrite <- E in H2. unfold n in H2.
           rewrite ?app_length in H2. simpl in H2. lia.
    + intros m Hm t. unfold rkeys in Hm. rewrite map_app in Hm. simpl in Hm.
      apply in_app_or in Hm. destruct Hm as [Hm|[Hm|[]]].
      * rewrite ref_info_app_old by exact Hm.
        destruct (proj1 (R2 m) Hm) as [Hmk Hml].
        rewrite Ho4; auto.
        -- unfold st3. rewrite U_app_new_old by exact Hmk. apply R3. exact Hm.
        -- unfold st3. rewrite keys_app. apply in_or_app. left. exact Hmk.
        -- intro E. subst m. contradiction.
      * subst m. rewrite ref_info_app_new by exact Hnr. apply Hm4.
Qed.

(* ================================================================== *)
(* 12. UnRegisterDataNode                                              *)
(* ================================================================== *)
Definition f_negative (f : counts -> Z) : Prop := forall a, f (cneg a) = - f a.

Lemma Cons_unregister : forall f e st n, f_additive f -> f_negative f ->
  NoDup (keys st) -> In n (keys st) -> n <> [] -> Cons f e st ->
  let st1 := up_adjust st n (uneg (i_usage (info st n))) in
  let st2 := up_adjust st1 (removelast n) (uneg (i_usage (info st1 n))) in
  (forall k t, In k (keys st) -> is_prefix n k = false -> e k (info st2 k) t = e k (info st k) t) ->
  Cons f e (filter (fun en => negb (is_prefix n (fst en))) st2).
Proof.
  intros f e st n Hfa Hfn Hnd Hn Hne Hc st1 st2 He.
  set (g := fun k : path => negb (is_prefix n k)).
  change (Cons f e (filter (fun en => g (fst en)) st2)).
  intros p Hp t.
  rewrite keys_filter in Hp. apply filter_In in Hp. destruct Hp as [Hp Hgp].
  unfold st2, st1 in Hp. rewrite !keys_up_adjust in Hp.
  assert (Hpn : is_prefix n p = false) by (unfold g in Hgp; apply negb_true_iff in Hgp; exact Hgp).
  assert (Hk2 : keys st2 = keys st) by (unfold st2, st1; rewrite !keys_up_adjust; reflexivity).
  (* the counters of p *)
  assert (HU : f (U (filter (fun en => g (fst en)) st2) p t) =
               f (U st p t) - (if is_prefix p n then f (U st n t) else 0)).
  { unfold U at 1. rewrite info_filter, Hgp. cbv iota.
    fold (U st2 p t). unfold st2. rewrite U_up_adjust by (unfold st1; rewrite keys_up_adjust; exact Hp).
    assert (Hz : f (uget (uneg (i_usage (info st1 n))) t) = 0).
    { rewrite uget_uneg, Hfn. fold (U st1 n t). unfold st1. rewrite U_up_adjust by exact Hn.
      rewrite is_prefix_refl, Hfa, uget_uneg, Hfn. fold (U st n t). lia. }
    assert (H1 : f (U st1 p t) = f (U st p t) - (if is_prefix p n then f (U st n t) else 0)).
    { unfold st1. rewrite U_up_adjust by exact Hp. destruct (is_prefix p n); [|lia].
      rewrite Hfa, uget_uneg, Hfn. fold (U st n t). lia. }
    destruct (is_prefix p (removelast n)); [rewrite Hfa, Hz|]; rewrite H1; lia. }
  rewrite HU. rewrite S_filter, Hk2.
  rewrite (Hc p Hp t). unfold S.
  assert (Hsplit : sumZ (fun k => if is_prefix p k then e k (info st k) t else 0) (keys st) =
                   sumZ (fun k => if g k && is_prefix p k then e k (info st2 k) t else 0) (keys st) +
                   sumZ (fun k => if is_prefix n k && is_prefix p k then e k (info st k) t else 0) (keys st)).
  { rewrite <- sumZ_plus. apply sumZ_ext_in. intros k Hk.
    unfold g. destruct (is_prefix n k) eqn:E; simpl; [lia|]. destruct (is_prefix p k); [|lia]. rewrite He by assumption. lia. }
  rewrite Hsplit.
  assert (Hsec : sumZ (fun k => if is_prefix n k && is_prefix p k then e k (info st k) t else 0) (keys st) =
                 if is_prefix p n then f (U st n t) else 0).
  { destruct (is_prefix p n) eqn:Epn.
    - rewrite (Hc n Hn t). unfold S. apply sumZ_ext_in. intros k Hk.
      destruct (is_prefix n k) eqn:E; simpl; auto.
      rewrite (is_prefix_trans p n k Epn E). reflexivity.
    - apply sumZ_zero. intros k Hk.
      destruct (is_prefix n k) eqn:E1; simpl; auto. destruct (is_prefix p k) eqn:E2; auto.
      destruct (is_prefix_comparable n p k E1 E2); congruence. }
  rewrite Hsec. lia.
Qed.

Lemma neg_vol : f_negative volumeCount. Proof. intro a. reflexivity. Qed.
Lemma neg_remote : f_negative remoteVolumeCount. Proof. intro a. reflexivity. Qed.
Lemma neg_ec : f_negative ecShardCount. Proof. intro a. reflexivity. Qed.
Lemma neg_max : f_negative maxVolumeCount. Proof. intro a. reflexivity. Qed.

Theorem unregister_inv : forall st r n, Inv st r -> In n (keys st) -> length n = 3%nat ->
  Inv (unregister st n) (ref_step r (Unregister n)).
Proof.
  intros st r n Hi Hn Hl. unfold unregister.
  set (st1 := up_adjust st n (uneg (i_usage (info st n)))).
  set (st2 := up_adjust st1 (removelast n) (uneg (i_usage (info st1 n)))).
  assert (Hne : n <> []) by (intro E; subst; discriminate).
  set (g := fun k : path => negb (is_prefix n k)).
  change (Inv (filter (fun en => g (fst en)) st2) (ref_step r (Unregister n))).
  destruct Hi as [Hs Cv Cr Ce Cm Hr].
  assert (Hk2 : keys st2 = keys st) by (unfold st2, st1; rewrite !keys_up_adjust; reflexivity).
  assert (Hinfo2 : forall k, In k (keys st) -> i_vols (info st2 k) = i_vols (info st k) /\ i_ecs (info st2 k) = i_ecs (info st k)).
  { intros k Hk. unfold st2, st1. rewrite !vols_up_adjust, !ecs_up_adjust. auto. }
  assert (Hpay : forall (e : path -> ninfo -> string -> Z), payload_only e ->
            forall k t, In k (keys st) -> is_prefix n k = false -> e k (info st2 k) t = e k (info st k) t).
  { intros e Hpe k t Hk _. destruct (Hinfo2 k Hk) as [E1 E2].
    destruct (info st2 k) as [u2 v2 e2] eqn:I2. destruct (info st k) as [u v e0] eqn:I0. simpl in E1, E2. subst.
    rewrite <- (Hpe k {| i_usage := u; i_vols := v; i_ecs := e0 |} u2 t). reflexivity. }
  assert (Hmaxe : forall k t, In k (keys st) -> is_prefix n k = false -> E_max k (info st2 k) t = E_max k (info st k) t).
  { intros k t Hk Hnk. unfold E_max. destruct (Nat.eqb (length k) 4) eqn:E4; auto. apply Nat.eqb_eq in E4.
    fold (U st2 k t). fold (U st k t). unfold st2.
    rewrite U_up_adjust by (unfold st1; rewrite keys_up_adjust; exact Hk).
    assert (E1 : is_prefix k (removelast n) = false).
    { destruct (is_prefix k (removelast n)) eqn:E; auto. apply is_prefix_length in E.
      assert (length (removelast n) <= length n)%nat.
      { destruct n as [|a [|b [|c [|d n']]]]; simpl in *; lia. } lia. }
    rewrite E1. unfold st1. rewrite U_up_adjust by exact Hk.
    assert (E2 : is_prefix k n = false).
    { destruct (is_prefix k n) eqn:E; auto. apply is_prefix_length in E. lia. }
    rewrite E2. reflexivity. }
  apply Core_ref_inv.
  - constructor.
    + (* Struct *)
      constructor.
      * rewrite keys_filter, Hk2. apply NoDup_filter. apply Hs.
      * rewrite keys_filter, Hk2. apply filter_In. split; [apply Hs|].
        destruct n; [contradiction|reflexivity].
      * intros k p Hk Hpk. rewrite keys_filter, Hk2 in *. apply filter_In in Hk. destruct Hk as [Hk Hnk].
        apply filter_In. split; [eapply (s_pc _ Hs); eauto|].
        apply negb_true_iff in Hnk. apply negb_true_iff.
        destruct (is_prefix n p) eqn:E; auto. rewrite (is_prefix_trans n p k E Hpk) in Hnk. discriminate.
      * intros k Hk. rewrite keys_filter, Hk2 in Hk. apply filter_In in Hk. destruct Hk as [Hk Hnk].
        rewrite info_filter, Hnk.
        destruct (Hinfo2 k Hk) as [E1 E2]. destruct (s_payload _ Hs k Hk) as [P1 [P2 [P3 P4]]].
        unfold payload_ok. rewrite E1, E2. auto.
    + apply Cons_unregister; auto using add_vol, neg_vol, payload_only_vol; apply Hs.
    + apply Cons_unregister; auto using add_remote, neg_remote, payload_only_remote; apply Hs.
    + apply Cons_unregister; auto using add_ec, neg_ec, payload_only_ec; apply Hs.
    + apply Cons_unregister; auto using add_max, neg_max; apply Hs.
  - destruct Hr as [R1 R2 R3]. simpl.
    assert (Hrk : forall p, In p (rkeys (filter (fun e => negb (path_eqb (fst e) n)) r)) <-> In p (rkeys r) /\ p <> n).
    { intro p. unfold rkeys. rewrite in_map_iff. split.
      - intros [[k i] [E Hin]]. simpl in E. subst k. apply filter_In in Hin. destruct Hin as [Hin Hne']. simpl in Hne'.
        apply negb_true_iff, path_eqb_neq in Hne'. split; auto. apply (in_map fst) in Hin. exact Hin.
      - intros [Hin Hne']. apply in_map_iff in Hin. destruct Hin as [[k i] [E Hin]]. simpl in E. subst k.
        exists (p, i). split; auto. apply filter_In. split; auto. simpl. apply negb_true_iff, path_eqb_neq. exact Hne'. }
    constructor.
    + unfold rkeys.
      assert (G : forall l : ref_state, NoDup (map fst l) -> NoDup (map fst (filter (fun e => negb (path_eqb (fst e) n)) l))).
      { intros l. apply NoDup_map_filter. }
      apply G. exact R1.
    + intro p. rewrite Hrk, keys_filter, Hk2, filter_In, R2. split.
      * intros [[H1 H2] H3]. split; auto. split; auto. apply negb_true_iff.
        destruct (is_prefix n p) eqn:E; auto. exfalso. apply H3. symmetry. apply is_prefix_same_length; auto. lia.
      * intros [[H1 H2] H3]. split; auto. intro E. subst p. unfold g in H2. rewrite is_prefix_refl in H2. discriminate.
    + intros m Hm t. apply Hrk in Hm. destruct Hm as [Hm Hmn].
      destruct (proj1 (R2 m) Hm) as [Hmk Hml].
      assert (Enm : is_prefix n m = false).
      { destruct (is_prefix n m) eqn:E; auto. exfalso. apply Hmn. symmetry. apply is_prefix_same_length; auto. lia. }
      unfold U. rewrite info_filter. unfold g. rewrite Enm. cbn [negb]. cbv iota. fold (U st2 m t).
      assert (Eref : ref_info (filter (fun e => negb (path_eqb (fst e) n)) r) m = ref_info r m).
      { clear - Hmn. induction r as [|[k i] r IH]; simpl; auto.
        destruct (path_eqb k n) eqn:E1; simpl.
        - apply path_eqb_eq in E1. subst k. destruct (path_eqb n m) eqn:E2; [apply path_eqb_eq in E2; congruence|exact IH].
        - destruct (path_eqb k m); auto. }
      rewrite Eref, <- (R3 m Hm t).
      unfold st2. rewrite U_up_adjust by (unfold st1; rewrite keys_up_adjust; exact Hmk).
      assert (E1 : is_prefix m (removelast n) = false).
      { destruct (is_prefix m (removelast n)) eqn:E; auto. apply is_prefix_length in E.
        assert (length (removelast n) < length n)%nat.
        { destruct n as [|a [|b [|c [|d n']]]]; simpl in *; lia. } lia. }
      rewrite E1. unfold st1. rewrite U_up_adjust by exact Hmk.
      assert (E2 : is_prefix m n = false).
      { destruct (is_prefix m n) eqn:E; auto. exfalso. apply Hmn. apply is_prefix_same_length; auto. lia. }
      rewrite E2. reflexivity.
Qed.

(* ================================================================== *)
(* 13. full EC heartbeat (UpdateEcShards)                              *)
(* ================================================================== *)
Lemma popcount_pos_pos : forall p, 0 < popcount_pos p.
Proof. induction p; cbn [popcount_pos]; lia. Qed.
Lemma popcount_nonneg : forall b, 0 <= popcount b.
Proof. intros [|p]; cbn [popcount]; [lia|]. pose proof (popcount_pos_pos p). lia. Qed.
Lemma popcount_Ndouble : forall n, popcount (Pos.Ndouble n) = popcount n.
Proof. intros [|p]; reflexivity. Qed.
Lemma popcount_Nsucc_double : forall n, popcount (Pos.Nsucc_double n) = 1 + popcount n.
Proof. intros [|p]; reflexivity. Qed.

Lemma popcount_pos_split : forall p q,
  popcount (Pos.ldiff p q) + popcount (Pos.land p q) = popcount_pos p.
Proof.
  induction p as [p IH|p IH|]; intros [q|q|]; cbn [Pos.ldiff Pos.land];
    rewrite ?popcount_Ndouble, ?popcount_Nsucc_double; cbn [popcount popcount_pos];
    try (specialize (IH q)); try lia.
Qed.

Lemma popcount_split : forall a b, popcount (N.ldiff a b) + popcount (N.land a b) = popcount a.
Proof.
  intros [|p] [|q]; simpl; try lia. apply popcount_pos_split.
Qed.

Lemma popcount_exchange : forall a e,
  popcount (N.ldiff a e) - popcount (N.ldiff e a) + popcount e = popcount a.
Proof.
  intros a e. pose proof (popcount_split a e). pose proof (popcount_split e a).
  rewrite (N.land_comm e a) in H0. lia.
Qed.

Lemma popcount_ldiff_diag : forall b, popcount (N.ldiff b b) = 0.
Proof. intro b. rewrite N.ldiff_diag. reflexivity. Qed.

(* ---- states related by EC-only counter changes under the data node n ---- *)
Section FullEc.
  Variable n : path.
  Hypothesis Hln : length n = 3%nat.

  Definition ec_adj (s : state) (d : string) (c : Z) : state :=
    up_adjust (get_or_create_disk s n d) (n ++ [d]) (ec_delta d c).

  (* s differs from st0 by new empty disks under n and by EC-shard counter changes D *)
  Record EcRel (st0 s : state) (D : path -> string -> Z) : Prop := {
    er_struct : Struct s;
    er_keys : forall k, In k (keys st0) -> In k (keys s);
    er_new : forall k, In k (keys s) -> ~ In k (keys st0) -> exists d, k = n ++ [d];
    er_vols : forall k, i_vols (info s k) = i_vols (info st0 k);
    er_ecs : forall k, i_ecs (info s k) = i_ecs (info st0 k);
    er_other : forall k t, volumeCount (U s k t) = volumeCount (U st0 k t) /\
                           remoteVolumeCount (U s k t) = remoteVolumeCount (U st0 k t) /\
                           maxVolumeCount (U s k t) = maxVolumeCount (U st0 k t);
    er_ec : forall k t, ecShardCount (U s k t) = ecShardCount (U st0 k t) + D k t }.

  Lemma EcRel_refl : forall st, Struct st -> EcRel st st (fun _ _ => 0).
  Proof.
    intros st Hs. constructor; auto.
    - intros k H1 H2. contradiction.
    - intros. lia.
  Qed.

  Lemma EcRel_adj : forall st0 s D d c, EcRel st0 s D -> In n (keys s) ->
    EcRel st0 (ec_adj s d c)
          (fun k t => D k t + (if is_prefix k (n ++ [d]) && String.eqb (to_dt d) t then c else 0)).
  Proof.
    intros st0 s D d c [Hs Hk Hnew Hv He Ho Hec] Hn. unfold ec_adj.
    set (s1 := get_or_create_disk s n d).
    assert (Hs1 : Struct s1) by (apply Struct_goc; auto).
    assert (HU1 : forall k t, U s1 k t = U s k t) by (intros; unfold U, s1; rewrite info_goc; reflexivity).
    assert (Habs : forall k, ~ In k (keys s1) -> is_prefix k (n ++ [d]) = false /\ ~ In k (keys s)).
    { intros k Hin. split.
      - destruct (is_prefix k (n ++ [d])) eqn:E; auto. exfalso. apply Hin.
        eapply (s_pc _ Hs1); [|exact E]. apply keys_goc. right. reflexivity.
      - intro X. apply Hin. apply keys_goc. left. exact X. }
    assert (G : forall (f : counts -> Z) k t, f_additive f -> f zero_counts = 0 ->
                f (U (up_adjust s1 (n ++ [d]) (ec_delta d c)) k t) =
                f (U s k t) + (if is_prefix k (n ++ [d]) && String.eqb (to_dt d) t then f (mkCounts 0 0 0 c 0) else 0)).
    { intros f k t Hfa Hf0.
      destruct (in_dec (list_eq_dec string_dec) k (keys s1)) as [Hin|Hin].
      - rewrite U_up_adjust by exact Hin. rewrite HU1.
        destruct (is_prefix k (n ++ [d])); cbn [andb]; [|lia].
        rewrite Hfa, ec_delta_get by assumption. destruct (String.eqb (to_dt d) t); lia.
      - destruct (Habs k Hin) as [E Hin']. rewrite E. cbn [andb].
        unfold U. rewrite info_up_adjust_absent by exact Hin. rewrite (info_absent s k Hin'). simpl. lia. }
    constructor.
    - apply Struct_up_adjust. exact Hs1.
    - intros k Hk0. rewrite keys_up_adjust. apply keys_goc. left. auto.
    - intros k Hk1 Hk0. rewrite keys_up_adjust in Hk1. apply keys_goc in Hk1. destruct Hk1 as [Hk1|Hk1].
      + apply Hnew; auto.
      + exists d. exact Hk1.
    - intro k. rewrite vols_up_adjust. unfold s1. rewrite info_goc. apply Hv.
    - intro k. rewrite ecs_up_adjust. unfold s1. rewrite info_goc. apply He.
    - intros k t. destruct (Ho k t) as [O1 [O2 O3]].
      rewrite (G volumeCount k t add_vol eq_refl), (G remoteVolumeCount k t add_remote eq_refl),
              (G maxVolumeCount k t add_max eq_refl). simpl.
      destruct (is_prefix k (n ++ [d]) && String.eqb (to_dt d) t); repeat split; lia.
    - intros k t. rewrite (G ecShardCount k t add_ec eq_refl). simpl. rewrite (Hec k t).
      destruct (is_prefix k (n ++ [d]) && String.eqb (to_dt d) t); lia.
  Qed.

  (* a list of (disk, amount) adjustments *)
  Definition adj_fold (l : list (string * Z)) (s : state) : state :=
    fold_left (fun s dc => ec_adj s (fst dc) (snd dc)) l s.
  Definition adj_sum (l : list (string * Z)) (k : path) (t : string) : Z :=
    sumZ (fun dc => if is_prefix k (n ++ [fst dc]) && String.eqb (to_dt (fst dc)) t then snd dc else 0) l.

  Lemma EcRel_adj_fold : forall l st0 s D, EcRel st0 s D -> In n (keys s) ->
    EcRel st0 (adj_fold l s) (fun k t => D k t + adj_sum l k t) /\ In n (keys (adj_fold l s)).
  Proof.
    induction l as [|[d c] l IH]; intros st0 s D Hr Hn; simpl.
    - split; auto. destruct Hr. constructor; auto. intros. unfold adj_sum. simpl. rewrite Z.add_0_r. auto.
    - pose proof (EcRel_adj st0 s D d c Hr Hn) as Hr1.
      assert (Hn1 : In n (keys (ec_adj s d c))).
      { unfold ec_adj. rewrite keys_up_adjust. apply keys_goc. left. exact Hn. }
      destruct (IH st0 _ _ Hr1 Hn1) as [Hr2 Hn2]. split; auto.
      destruct Hr2. constructor; auto.
      intros k t. rewrite er_ec0. unfold adj_sum. simpl. lia.
  Qed.
End FullEc.

(* ---- the two loops of UpdateEcShards as lists of adjustments ---- *)
Definition an_of (actual : list ecinfo) (e : ecinfo) : Z :=
  match find_ec_last (e_id e) actual with
  | Some a => popcount (N.ldiff (e_bits a) (e_bits e)) | None => 0 end.
Definition dn_of (actual : list ecinfo) (e : ecinfo) : Z :=
  match find_ec_last (e_id e) actual with
  | Some a => popcount (N.ldiff (e_bits e) (e_bits a)) | None => popcount (e_bits e) end.
(* what one registered EC volume should contribute on its own *)
Definition own (actual : list ecinfo) (e : ecinfo) : Z := an_of actual e - dn_of actual e.
Definition chg (actual : list ecinfo) (e : ecinfo) : bool :=
  match find_ec_last (e_id e) actual with
  | None => true | Some _ => (0 <? an_of actual e) || (0 <? dn_of actual e) end.

Definition loop1_step (n : path) (actual : list ecinfo) (acc : state * bool) (e : ecinfo)
  : state * bool :=
  let '(s, changed) := acc in
  let s1 := get_or_create_disk s n (e_disk e) in
  let newCount := 0 in
  let delCount := 0 in
  let '(newCount', delCount', changed') :=
    match find_ec_last (e_id e) actual with
    | None => (newCount, delCount + popcount (e_bits e), true)
    | Some a =>
        let an := popcount (N.ldiff (e_bits a) (e_bits e)) in
        let dn := popcount (N.ldiff (e_bits e) (e_bits a)) in
        ((if 0 <? an then newCount + an else newCount),
         (if 0 <? dn then delCount + dn else delCount),
         changed || (0 <? an) || (0 <? dn))
    end in
  (up_adjust s1 (n ++ [e_disk e]) (ec_delta (e_disk e) (newCount' - delCount')), changed').

Definition loop2_step (n : path) (registered : list ecinfo) (acc : state * bool) (a : ecinfo) : state * bool :=
  let '(s, changed) := acc in
  if existsb (fun e => N.eqb (e_id e) (e_id a)) registered then acc
  else
    let s1 := get_or_create_disk s n (e_disk a) in
    (up_adjust s1 (n ++ [e_disk a]) (ec_delta (e_disk a) (popcount (e_bits a))), true).

Lemma update_ec_unfold : forall order st n actual,
  update_ec_shards order st n actual =
  let existing := permute order (node_ecs st n) in
  let '(st1, changed1) := fold_left (loop1_step n actual) existing (st, false) in
  let '(st2, changed2) := fold_left (loop2_step n (node_ecs st n)) actual (st1, changed1) in
  if changed2 then do_update_ec_shards st2 n actual else st2.
Proof. reflexivity. Qed.

(* after the repair every registered EC volume contributes its own delta *)
Lemma loop1_step_eq : forall n actual s ch e,
  loop1_step n actual (s, ch) e = (ec_adj n s (e_disk e) (own actual e), ch || chg actual e).
Proof.
  intros n actual s ch e. unfold loop1_step, own, chg, an_of, dn_of, ec_adj.
  destruct (find_ec_last (e_id e) actual) as [a|].
  - pose proof (popcount_nonneg (N.ldiff (e_bits a) (e_bits e))) as H1.
    pose proof (popcount_nonneg (N.ldiff (e_bits e) (e_bits a))) as H2.
    assert (E1 : (if 0 <? popcount (N.ldiff (e_bits a) (e_bits e)) then 0 + popcount (N.ldiff (e_bits a) (e_bits e)) else 0)
                 = popcount (N.ldiff (e_bits a) (e_bits e))).
    { destruct (0 <? popcount (N.ldiff (e_bits a) (e_bits e))) eqn:E; [lia|]. apply Z.ltb_ge in E. lia. }
    assert (E2 : (if 0 <? popcount (N.ldiff (e_bits e) (e_bits a)) then 0 + popcount (N.ldiff (e_bits e) (e_bits a)) else 0)
                 = popcount (N.ldiff (e_bits e) (e_bits a))).
    { destruct (0 <? popcount (N.ldiff (e_bits e) (e_bits a))) eqn:E; [lia|]. apply Z.ltb_ge in E. lia. }
    cbv zeta. rewrite E1, E2. rewrite orb_assoc. reflexivity.
  - cbv zeta. rewrite orb_true_r. reflexivity.
Qed.

Lemma loop1_fold : forall n actual l s ch,
  fold_left (loop1_step n actual) l (s, ch) =
  (adj_fold n (map (fun e => (e_disk e, own actual e)) l) s, ch || existsb (chg actual) l).
Proof.
  intros n actual. induction l as [|e l IH]; intros s ch.
  - simpl. rewrite orb_false_r. reflexivity.
  - cbn [fold_left]. rewrite loop1_step_eq, IH.
    cbn [map adj_fold fold_left fst snd existsb]. rewrite orb_assoc. reflexivity.
Qed.

Definition new_of (registered actual : list ecinfo) : list ecinfo :=
  filter (fun a => negb (existsb (fun e => N.eqb (e_id e) (e_id a)) registered)) actual.

Lemma loop2_fold : forall n registered actual s ch,
  fold_left (loop2_step n registered) actual (s, ch) =
  (adj_fold n (map (fun a => (e_disk a, popcount (e_bits a))) (new_of registered actual)) s,
   ch || negb (match new_of registered actual with [] => true | _ => false end)).
Proof.
  intros n registered. induction actual as [|a l IH]; intros s ch.
  - simpl. rewrite orb_false_r. reflexivity.
  - cbn [fold_left]. unfold loop2_step at 2. unfold new_of. cbn [filter].
    destruct (existsb (fun e => N.eqb (e_id e) (e_id a)) registered); cbn [negb].
    + apply IH.
    + rewrite IH. fold (new_of registered l). cbn [map adj_fold fold_left fst snd negb orb]. unfold ec_adj.
      rewrite orb_true_r. reflexivity.
Qed.

(* ---- doUpdateEcShards ---- *)
Lemma mput_absent : forall A (key : A -> N) v l, ~ In (key v) (map key l) -> mput key v l = l ++ [v].
Proof.
  induction l as [|y l IH]; intros H; simpl; auto.
  destruct (N.eqb (key y) (key v)) eqn:E.
  - apply N.eqb_eq in E. exfalso. apply H. left. exact E.
  - rewrite IH; auto. intro Hin. apply H. right. exact Hin.
Qed.

Definition at_disk (n : path) (k : path) (a : ecinfo) : bool := path_eqb (n ++ [e_disk a]) k.

Lemma do_update_effect : forall n s actual, length n = 3%nat -> Struct s -> In n (keys s) ->
  NoDup (map e_id actual) ->
  let s' := do_update_ec_shards s n actual in
  Struct s' /\
  (forall k, In k (keys s) -> In k (keys s')) /\
  (forall k, In k (keys s') -> ~ In k (keys s) -> exists d, k = n ++ [d]) /\
  (forall k t, U s' k t = U s k t) /\
  (forall k, i_vols (info s' k) = i_vols (info s k)) /\
  (forall k, i_ecs (info s' k) = if is_child_of n k then filter (at_disk n k) actual else i_ecs (info s k)) /\
  (forall a, In a actual -> In (n ++ [e_disk a]) (keys s')).
Proof.
  intros n s actual Hln Hs Hn Hnd. unfold do_update_ec_shards.
  set (s1 := map (fun e => if is_child_of n (fst e) then (fst e, set_ecs [] (snd e)) else e) s).
  assert (K1 : keys s1 = keys s).
  { unfold keys, s1. rewrite map_map. apply map_ext. intros [k i]. simpl. destruct (is_child_of n k); reflexivity. }
  assert (I1 : forall k, info s1 k = if is_child_of n k then set_ecs [] (info s k) else info s k).
  { intro k. unfold s1. clear. induction s as [|[k0 i0] s IH]; simpl.
    - destruct (is_child_of n k); reflexivity.
    - destruct (is_child_of n k0) eqn:E0; simpl; destruct (path_eqb k0 k) eqn:E; auto;
        apply path_eqb_eq in E; subst k0; rewrite E0; reflexivity. }
  assert (S1 : Struct s1).
  { constructor.
    - rewrite K1. apply Hs.
    - rewrite K1. apply Hs.
    - intros k p. rewrite K1. apply Hs.
    - intros k Hk. rewrite K1 in Hk. rewrite I1. destruct (s_payload _ Hs k Hk) as [P1 [P2 [P3 P4]]].
      destruct (is_child_of n k); [|repeat split; auto].
      repeat split; simpl; auto; [constructor|intros ? []]. }
  (* the registration loop, generalised over the already processed prefix *)
  assert (G : forall rest done sx, NoDup (map e_id (done ++ rest)) -> Struct sx -> In n (keys sx) ->
            (forall k, In k (keys s) -> In k (keys sx)) ->
            (forall k, In k (keys sx) -> ~ In k (keys s) -> exists d, k = n ++ [d]) ->
            (forall k t, U sx k t = U s k t) ->
            (forall k, i_vols (info sx k) = i_vols (info s k)) ->
            (forall k, i_ecs (info sx k) = if is_child_of n k then filter (at_disk n k) done else i_ecs (info s k)) ->
            (forall a, In a done -> In (n ++ [e_disk a]) (keys sx)) ->
            let sy := fold_left (fun s a => let s1 := get_or_create_disk s n (e_disk a) in
                                 upd s1 (n ++ [e_disk a]) (fun i => set_ecs (put_ec a (i_ecs i)) i)) rest sx in
            Struct sy /\ (forall k, In k (keys s) -> In k (keys sy)) /\
            (forall k, In k (keys sy) -> ~ In k (keys s) -> exists d, k = n ++ [d]) /\
            (forall k t, U sy k t = U s k t) /\ (forall k, i_vols (info sy k) = i_vols (info s k)) /\
            (forall k, i_ecs (info sy k) = if is_child_of n k then filter (at_disk n k) (done ++ rest) else i_ecs (info s k)) /\
            (forall a, In a (done ++ rest) -> In (n ++ [e_disk a]) (keys sy))).
  { induction rest as [|a rest IH]; intros done sx Hnd' Hsx Hnx Hk Hnew HU Hv He Hd; cbn [fold_left].
    - rewrite app_nil_r. split; [exact Hsx|]. split; [exact Hk|]. split; [exact Hnew|]. split; [exact HU|].
      split; [exact Hv|]. split; [exact He|exact Hd].
    - set (q := n ++ [e_disk a]).
      set (sg := get_or_create_disk sx n (e_disk a)).
      set (g := fun i => set_ecs (put_ec a (i_ecs i)) i).
      assert (Hq : In q (keys sg)) by apply goc_present.
      assert (Hsg : Struct sg) by (apply Struct_goc; auto).
      assert (Ig : forall k, info sg k = info sx k) by (intro; apply info_goc).
      assert (Hchild : is_child_of n q = true) by (apply is_child_of_spec; exists (e_disk a); reflexivity).
      assert (Eq : i_ecs (info sx q) = filter (at_disk n q) done) by (rewrite He, Hchild; reflexivity).
      assert (Hida : ~ In (e_id a) (map e_id (filter (at_disk n q) done))).
      { intro Hin. apply in_map_iff in Hin. destruct Hin as [x [Ex Hx]]. apply filter_In in Hx.
        rewrite map_app in Hnd'. simpl in Hnd'. apply NoDup_remove_2 in Hnd'. apply Hnd'.
        apply in_or_app. left. rewrite <- Ex. apply in_map. tauto. }
      assert (Eput : put_ec a (i_ecs (info sg q)) = filter (at_disk n q) done ++ [a]).
      { rewrite Ig, Eq, put_ec_mput. apply mput_absent. exact Hida. }
      specialize (IH (done ++ [a]) (upd sg q g)).
      rewrite <- app_assoc in IH. apply IH; clear IH.
      + exact Hnd'.
      + apply Struct_upd; auto. unfold g. destruct (s_payload _ Hsg q Hq) as [P1 [P2 [P3 P4]]].
        repeat split; simpl; auto.
        * rewrite Eput. rewrite <- (filter_all_true _ (at_disk n q) [a]).
          -- rewrite <- filter_app. apply NoDup_map_filter.
             replace (done ++ a :: rest) with ((done ++ [a]) ++ rest) in Hnd' by (rewrite <- app_assoc; reflexivity).
             rewrite map_app in Hnd'. eapply NoDup_app_l. exact Hnd'.
          -- intros x [Hx|[]]. subst x. unfold at_disk. apply path_eqb_refl.
        * intros e Hin. rewrite put_ec_mput in Hin. apply mput_in in Hin. destruct Hin as [Hin|Hin].
          -- subst e. exists n. reflexivity.
          -- apply P4. exact Hin.
      + rewrite keys_upd. apply keys_goc. left. exact Hnx.
      + intros k Hk0. rewrite keys_upd. apply keys_goc. left. auto.
      + intros k Hk1 Hk0. rewrite keys_upd in Hk1. apply keys_goc in Hk1. destruct Hk1 as [Hk1|Hk1]; [auto|].
        exists (e_disk a). exact Hk1.
      + intros k t. rewrite U_upd by (intro; reflexivity). unfold U. rewrite Ig. apply HU.
      + intro k. rewrite info_upd. destruct (path_eqb q k) eqn:E.
        * apply path_eqb_eq in E. subst k. apply present_in in Hq. rewrite Hq. unfold g. simpl. rewrite Ig. apply Hv.
        * rewrite Ig. apply Hv.
      + intro k. rewrite info_upd. destruct (path_eqb q k) eqn:E.
        * apply path_eqb_eq in E. subst k. apply present_in in Hq. rewrite Hq. unfold g. simpl.
          assert (Ea : at_disk n q a = true) by (unfold at_disk; fold q; apply path_eqb_refl).
          rewrite Eput, Hchild, filter_app. f_equal. simpl. rewrite Ea. reflexivity.
        * assert (Ea : at_disk n k a = false) by (unfold at_disk; fold q; exact E).
          rewrite Ig, He. destruct (is_child_of n k); [|reflexivity].
          rewrite filter_app. simpl. rewrite Ea. rewrite app_nil_r. reflexivity.
      + intros x Hx. rewrite keys_upd. apply keys_goc. apply in_app_or in Hx. destruct Hx as [Hx|[Hx|[]]].
        * left. apply Hd. exact Hx.
        * subst x. right. reflexivity. }
  apply (G actual [] s1); auto.
  - rewrite K1. exact Hn.
  - intros k Hk. rewrite K1. exact Hk.
  - intros k Hk Hk0. rewrite K1 in Hk. contradiction.
  - intros k t. unfold U. rewrite I1. destruct (is_child_of n k); reflexivity.
  - intro k. rewrite I1. destruct (is_child_of n k); reflexivity.
  - intro k. rewrite I1. destruct (is_child_of n k); reflexivity.
  - intros a [].
Qed.

(* ---- sums over a larger duplicate-free key list ---- *)
Lemma sumZ_incl : forall (g : path -> Z) l l', NoDup l -> NoDup l' -> incl l l' ->
  (forall k, In k l' -> ~ In k l -> g k = 0) -> sumZ g l' = sumZ g l.
Proof.
  induction l as [|x l IH]; intros l' Hnd Hnd' Hi Hz.
  - simpl. apply sumZ_zero. intros k Hk. apply Hz; auto.
  - inversion Hnd; subst.
    assert (Hx : In x l') by (apply Hi; left; reflexivity).
    apply in_split in Hx. destruct Hx as [l1 [l2 E]]. subst l'.
    rewrite sumZ_app. simpl.
    rewrite <- (IH (l1 ++ l2)).
    + rewrite sumZ_app. lia.
    + exact H2.
    + eapply NoDup_remove_1. exact Hnd'.
    + intros y Hy. assert (Hy' : In y (l1 ++ x :: l2)) by (apply Hi; right; exact Hy).
      apply in_app_or in Hy'. apply in_or_app. destruct Hy' as [Hy'|[Hy'|Hy']]; auto.
      subst y. contradiction.
    + intros k Hk Hnk. apply Hz.
      * apply in_app_or in Hk. apply in_or_app. destruct Hk; [left|right; right]; auto.
      * intros [E|E]; [|contradiction]. subst k. apply NoDup_remove_2 in Hnd'. contradiction.
Qed.

(* the recomputation of the OLD payload over the keys of a larger table is still the old counter *)
Lemma S_transfer : forall f e st ks, Struct st -> Cons f e st -> NoDup ks -> incl (keys st) ks ->
  f zero_counts = 0 -> (forall k t, e k empty_info t = 0) ->
  forall p t, sumZ (fun k => if is_prefix p k then e k (info st k) t else 0) ks = f (U st p t).
Proof.
  intros f e st ks Hs Hc Hnd Hi Hf He p t.
  rewrite (sumZ_incl _ (keys st) ks (s_nodup _ Hs) Hnd Hi).
  2:{ intros k _ Hk. rewrite (info_absent st k Hk), He. destruct (is_prefix p k); reflexivity. }
  destruct (in_dec (list_eq_dec string_dec) p (keys st)) as [Hp|Hp].
  - symmetry. apply (Hc p Hp t).
  - unfold U. rewrite (info_absent st p Hp). simpl. rewrite Hf.
    apply sumZ_zero. intros k Hk. rewrite (no_keys_under_absent st p Hs Hp k Hk). reflexivity.
Qed.

Lemma Cons_transfer : forall f e st st', Struct st -> Struct st' -> Cons f e st ->
  incl (keys st) (keys st') -> f zero_counts = 0 -> (forall k t, e k empty_info t = 0) ->
  (forall k t, f (U st' k t) = f (U st k t)) ->
  (forall k t, e k (info st' k) t = e k (info st k) t) ->
  Cons f e st'.
Proof.
  intros f e st st' Hs Hs' Hc Hi Hf He HU HE p Hp t.
  rewrite HU. rewrite <- (S_transfer f e st (keys st') Hs Hc (s_nodup _ Hs') Hi Hf He p t).
  unfold S. apply sumZ_ext_in. intros k Hk. rewrite HE. reflexivity.
Qed.

Lemma sumZ_entries_keys : forall (g : path -> ninfo -> Z) st, NoDup (keys st) ->
  sumZ (fun en => g (fst en) (snd en)) st = sumZ (fun k => g k (info st k)) (keys st).
Proof.
  intros g st Hnd. unfold keys. rewrite sumZ_map. apply sumZ_ext_in. intros [k i] Hin. simpl.
  rewrite (info_in st k i Hnd Hin). reflexivity.
Qed.

Lemma sumZ_partition : forall A (w : A -> Z) (p : A -> bool) l,
  sumZ w l = sumZ w (filter p l) + sumZ w (filter (fun x => negb (p x)) l).
Proof.
  induction l as [|x l IH]; simpl; auto. destruct (p x); simpl; lia.
Qed.

(* ---- find_ec_last under distinct ids ---- *)
Lemma NoDup_map_rev : forall A B (f : A -> B) l, NoDup (map f l) -> NoDup (map f (rev l)).
Proof.
  intros A B f l H. eapply Permutation_NoDup; [|exact H].
  apply Permutation_map. apply Permutation_rev.
Qed.

Lemma find_last_in : forall actual a, NoDup (map e_id actual) -> In a actual ->
  find_ec_last (e_id a) actual = Some a.
Proof.
  intros actual a Hnd Hin. unfold find_ec_last. rewrite find_ec_mfind. apply mfind_in.
  - apply NoDup_map_rev. exact Hnd.
  - apply in_rev in Hin. exact Hin.
Qed.

Lemma find_last_some : forall actual id a, find_ec_last id actual = Some a -> In a actual /\ e_id a = id.
Proof.
  intros actual id a H. unfold find_ec_last in H. rewrite find_ec_mfind in H. apply mfind_some in H.
  destruct H as [H1 H2]. split; auto. apply in_rev. exact H1.
Qed.

Definition found (actual : list ecinfo) (e : ecinfo) : list ecinfo :=
  match find_ec_last (e_id e) actual with Some a => [a] | None => [] end.
Definition old_of (registered actual : list ecinfo) : list ecinfo :=
  filter (fun a => existsb (fun e => N.eqb (e_id e) (e_id a)) registered) actual.

Lemma found_perm_old : forall E actual, NoDup (map e_id actual) -> NoDup (map e_id E) ->
  Permutation (flat_map (found actual) E) (old_of E actual).
Proof.
  intros E actual Ha He. apply NoDup_Permutation.
  - (* NoDup of the found records: their ids are distinct ids of E *)
    apply (NoDup_map_inv e_id).
    clear Ha. induction E as [|e E IH]; simpl; [constructor|].
    inversion He; subst. rewrite map_app. apply NoDup_app_intro.
    + unfold found. destruct (find_ec_last (e_id e) actual); simpl; repeat constructor; intros [].
    + apply IH. exact H2.
    + intros x Hx Hx'. unfold found in Hx. destruct (find_ec_last (e_id e) actual) as [a|] eqn:F; [|destruct Hx].
      destruct Hx as [Hx|[]]. subst x. apply find_last_some in F. destruct F as [_ F].
      apply in_map_iff in Hx'. destruct Hx' as [b [Eb Hb]]. apply in_flat_map in Hb. destruct Hb as [e' [He' Hb]].
      unfold found in Hb. destruct (find_ec_last (e_id e') actual) as [a'|] eqn:F'; [|destruct Hb].
      destruct Hb as [Hb|[]]. subst b. apply find_last_some in F'. destruct F' as [_ F'].
      apply H1. apply in_map_iff. exists e'. split; auto. congruence.
  - unfold old_of. apply NoDup_filter. eapply NoDup_map_inv. exact Ha.
  - intro a. split.
    + intro H. apply in_flat_map in H. destruct H as [e [Hin H]]. unfold found in H.
      destruct (find_ec_last (e_id e) actual) as [a'|] eqn:F; [|destruct H]. destruct H as [H|[]]. subst a'.
      apply find_last_some in F. destruct F as [F1 F2]. unfold old_of. apply filter_In. split; auto.
      apply existsb_exists. exists e. split; auto. apply N.eqb_eq. congruence.
    + intro H. unfold old_of in H. apply filter_In in H. destruct H as [H1 H2].
      apply existsb_exists in H2. destruct H2 as [e [Hin Eid]]. apply N.eqb_eq in Eid.
      apply in_flat_map. exists e. split; auto. unfold found. rewrite Eid, (find_last_in actual a Ha H1). left. reflexivity.
Qed.

(* own deltas of the registered volumes plus the new volumes account exactly for
   (new registration) - (old registration), restricted by any predicate on the disk *)
Lemma own_sum : forall E actual (psi : string -> bool),
  NoDup (map e_id actual) -> NoDup (map e_id E) ->
  (forall e a, In e E -> In a actual -> e_id a = e_id e -> e_disk a = e_disk e) ->
  let w := fun a : ecinfo => if psi (e_disk a) then popcount (e_bits a) else 0 in
  sumZ (fun e => if psi (e_disk e) then own actual e else 0) E + sumZ w (new_of E actual) =
  sumZ w actual - sumZ w E.
Proof.
  intros E actual psi Ha He Hd w.
  rewrite (sumZ_partition _ w (fun a => existsb (fun e => N.eqb (e_id e) (e_id a)) E) actual).
  fold (old_of E actual). fold (new_of E actual).
  rewrite <- (sumZ_perm _ w _ _ (found_perm_old E actual Ha He)).
  rewrite sumZ_flat_map.
  assert (G : sumZ (fun e => (if psi (e_disk e) then own actual e else 0) + w e) E =
              sumZ (fun e => sumZ w (found actual e)) E).
  { apply sumZ_ext_in. intros e Hin. unfold own, an_of, dn_of, found, w.
    destruct (find_ec_last (e_id e) actual) as [a|] eqn:F.
    - apply find_last_some in F. destruct F as [F1 F2]. cbn [sumZ fold_right]. rewrite (Hd e a Hin F1 F2).
      destruct (psi (e_disk e)); [|lia]. pose proof (popcount_exchange (e_bits a) (e_bits e)). lia.
    - simpl. destruct (psi (e_disk e)); lia. }
  rewrite sumZ_plus in G. lia.
Qed.

Section FullEcFinal.
  Variable n : path.
  Hypothesis Hln : length n = 3%nat.
  Definition hd_of (a : ecinfo) : path := n ++ [e_disk a].

  Lemma sum_single : forall (ks : list path) q (c : Z) (P : path -> bool), NoDup ks -> In q ks ->
    sumZ (fun k => if P k then (if path_eqb q k then c else 0) else 0) ks = if P q then c else 0.
  Proof.
    intros ks q c P Hnd Hq.
    rewrite (sumZ_update_one (fun _ => 0) _ ks q Hnd Hq).
    - rewrite sumZ_zero by auto. rewrite path_eqb_refl. destruct (P q); lia.
    - intros k Hk Hne. apply path_eqb_neq in Hne. rewrite path_eqb_sym in Hne. rewrite Hne. destruct (P k); reflexivity.
  Qed.

  Lemma sum_by_disk : forall (ks : list path) (l : list ecinfo) (P : path -> bool) (w : ecinfo -> Z),
    NoDup ks -> (forall a, In a l -> In (hd_of a) ks) ->
    sumZ (fun k => if P k then sumZ w (filter (at_disk n k) l) else 0) ks =
    sumZ (fun a => if P (hd_of a) then w a else 0) l.
  Proof.
    intros ks l P w Hnd. induction l as [|a l IH]; intros Hin.
    - simpl. apply sumZ_zero. intros k _. destruct (P k); reflexivity.
    - change (sumZ (fun a0 => if P (hd_of a0) then w a0 else 0) (a :: l))
        with ((if P (hd_of a) then w a else 0) + sumZ (fun a0 => if P (hd_of a0) then w a0 else 0) l).
      rewrite <- IH by (intros; apply Hin; right; auto).
      rewrite <- (sum_single ks (hd_of a) (w a) P Hnd) by (apply Hin; left; reflexivity).
      rewrite <- sumZ_plus. apply sumZ_ext_in. intros k Hk.
      destruct (P k); [|lia]. cbn [filter]. unfold at_disk at 1. fold (hd_of a).
      destruct (path_eqb (hd_of a) k); [change (sumZ w (a :: filter (at_disk n k) l)) with (w a + sumZ w (filter (at_disk n k) l))|]; lia.
  Qed.

  (* the registered shards, per disk entry *)
  Lemma node_ecs_sum : forall st (G : ecinfo -> Z), NoDup (keys st) ->
    sumZ G (node_ecs st n) = sumZ (fun k => if is_child_of n k then sumZ G (i_ecs (info st k)) else 0) (keys st).
  Proof.
    intros st G Hnd. unfold node_ecs, disks_of. rewrite sumZ_flat_map, sumZ_filter.
    rewrite (sumZ_entries_keys (fun k i => if is_child_of n k then sumZ G (i_ecs i) else 0) st Hnd). reflexivity.
  Qed.

  Lemma node_ecs_in : forall st e, Struct st -> In e (node_ecs st n) ->
    In e (i_ecs (info st (hd_of e))) /\ In (hd_of e) (keys st).
  Proof.
    intros st e Hs Hin. unfold node_ecs, disks_of in Hin. apply in_flat_map in Hin. destruct Hin as [[k i] [H1 H2]].
    apply filter_In in H1. destruct H1 as [H1 Hc]. simpl in Hc, H2. apply is_child_of_spec in Hc. destruct Hc as [x Ex].
    assert (Hk : In k (keys st)) by (apply (in_map fst) in H1; exact H1).
    rewrite <- (info_in st k i (s_nodup _ Hs) H1) in H2.
    assert (e_disk e = x) by (apply (payload_disk_ec st k e n x Hs Hk H2 Ex)). subst x.
    unfold hd_of. rewrite <- Ex. auto.
  Qed.

  Lemma EcRel_zero_inv : forall st r s D, Inv st r -> EcRel n st s D -> (forall k t, D k t = 0) -> Inv s r.
  Proof.
    intros st r s D [Hs Cv Cr Ce Cm Hr] [Hs' Hk Hnew Hv He Ho Hec] Hz.
    assert (Hi : incl (keys st) (keys s)) by (intros k; apply Hk).
    constructor; auto.
    - apply (Cons_transfer _ _ st); auto; try (intros; apply E_empty).
      + intros k t. apply Ho.
      + intros k t. unfold E_vol, nvol. rewrite Hv. reflexivity.
    - apply (Cons_transfer _ _ st); auto; try (intros; apply E_empty).
      + intros k t. apply Ho.
      + intros k t. unfold E_remote, nremote. rewrite Hv. reflexivity.
    - apply (Cons_transfer _ _ st); auto; try (intros; apply E_empty).
      + intros k t. rewrite Hec, Hz. lia.
      + intros k t. unfold E_ec, nec. rewrite He. reflexivity.
    - apply (Cons_transfer _ _ st); auto; try (intros; apply E_empty).
      + intros k t. apply Ho.
      + intros k t. unfold E_max. destruct (Nat.eqb (length k) 4); auto. apply Ho.
    - destruct Hr as [R1 R2 R3]. constructor; auto.
      + intro p. rewrite R2. split; intros [H1 H2]; split; auto.
        destruct (in_dec (list_eq_dec string_dec) p (keys st)) as [Hp|Hp]; auto.
        destruct (Hnew p H1 Hp) as [d E]. subst p. rewrite app_length in H2. simpl in H2. lia.
      + intros m Hm t. rewrite <- (R3 m Hm t). apply Ho.
  Qed.
End FullEcFinal.

Lemma removelast_in : forall A (l : list A) x, In x (removelast l) -> In x l.
Proof.
  induction l as [|y l IH]; intros x H; simpl in *; [contradiction|].
  destruct l as [|z l]; [contradiction|]. destruct H as [H|H]; [left; auto|right; apply IH; exact H].
Qed.

Lemma sumZ_if_const : forall A (c : bool) (f : A -> Z) l,
  sumZ (fun x => if c then f x else 0) l = if c then sumZ f l else 0.
Proof. intros A c f l. destruct c; [reflexivity|]. apply sumZ_zero. auto. Qed.

Theorem update_ec_inv : forall st r n actual order, Inv st r -> In n (keys st) -> length n = 3%nat ->
  trig_ec_irregular st n actual = false ->
  Inv (update_ec_shards order st n actual) r.
Proof.
  intros st r n actual order Hi Hn Hln Hirr.
  rewrite update_ec_unfold. cbv zeta.
  set (E := node_ecs st n) in *. set (E' := permute order E).
  pose proof (i_struct _ _ Hi) as Hs.
  (* regular input *)
  unfold trig_ec_irregular in Hirr. fold E in Hirr.
  apply orb_false_iff in Hirr. destruct Hirr as [Hirr C2]. apply orb_false_iff in Hirr. destruct Hirr as [C1 C3].
  apply negb_false_iff in C1, C3.
  apply (nodupb_sound _ N.eqb N.eqb_eq) in C1. apply (nodupb_sound _ N.eqb N.eqb_eq) in C3.
  assert (C2' : forall e a, In e E -> In a actual -> e_id a = e_id e -> e_disk a = e_disk e).
  { intros e a He Ha Hid. destruct (String.eqb (e_disk a) (e_disk e)) eqn:Ed; [apply String.eqb_eq; exact Ed|].
    exfalso. assert (X : existsb (fun e => existsb (fun a => N.eqb (e_id a) (e_id e) && negb (String.eqb (e_disk a) (e_disk e))) actual) E = true).
    { apply existsb_exists. exists e. split; auto. apply existsb_exists. exists a. split; auto.
      rewrite Hid, N.eqb_refl, Ed. reflexivity. }
    congruence. }
  rewrite loop1_fold. rewrite loop2_fold.

  fold E.
  set (D1 := map (fun e => (e_disk e, own actual e)) E').
  set (D2 := map (fun a => (e_disk a, popcount (e_bits a))) (new_of E actual)).
  destruct (EcRel_adj_fold n Hln D1 st st _ (EcRel_refl n Hln st Hs) Hn) as [R1 Hn1].
  destruct (EcRel_adj_fold n Hln D2 st _ _ R1 Hn1) as [R2 Hn2].
  set (st2 := adj_fold n D2 (adj_fold n D1 st)) in *.
  assert (HD1 : forall p t, adj_sum n D1 p t =
            sumZ (fun e => if is_prefix p (n ++ [e_disk e]) && String.eqb (to_dt (e_disk e)) t then own actual e else 0) E).
  { intros p t. unfold adj_sum, D1. rewrite sumZ_map. simpl. apply sumZ_perm. unfold E'. apply permute_perm. }
  assert (HD2 : forall p t, adj_sum n D2 p t =
            sumZ (fun a => if is_prefix p (n ++ [e_disk a]) && String.eqb (to_dt (e_disk a)) t then popcount (e_bits a) else 0)
                 (new_of E actual)).
  { intros p t. unfold adj_sum, D2. rewrite sumZ_map. reflexivity. }
  destruct (false || existsb (chg actual) E' || negb match new_of E actual with [] => true | _ :: _ => false end) eqn:Ech.
  - (* registrations are replaced by the reported ones *)
    destruct (do_update_effect n st2 actual Hln (er_struct _ _ _ _ R2) Hn2 C1) as [S' [K' [N' [U' [V' [Ec' Pa']]]]]].
    set (s' := do_update_ec_shards st2 n actual) in *.
    assert (Hincl : incl (keys st) (keys s')) by (intros k Hk; apply K'; apply (er_keys _ _ _ _ R2); exact Hk).
    destruct Hi as [_ Cv Cr Ce Cm Hr].
    constructor; auto.
    + apply (Cons_transfer _ _ st); auto; try (intros; apply E_empty).
      * intros k t. rewrite U'. apply (er_other _ _ _ _ R2).
      * intros k t. unfold E_vol, nvol. rewrite V', (er_vols _ _ _ _ R2). reflexivity.
    + apply (Cons_transfer _ _ st); auto; try (intros; apply E_empty).
      * intros k t. rewrite U'. apply (er_other _ _ _ _ R2).
      * intros k t. unfold E_remote, nremote. rewrite V', (er_vols _ _ _ _ R2). reflexivity.
    + (* EC shard counts *)
      intros p Hp t.
      rewrite U', (er_ec _ _ _ _ R2). rewrite HD1, HD2.
      set (psi := fun d => is_prefix p (n ++ [d]) && String.eqb (to_dt d) t).
      pose proof (own_sum E actual psi C1 C3 C2') as Hsum. cbv zeta in Hsum. unfold psi in Hsum.
      assert (Hnec : forall k, nec (info s' k) t =
                if is_child_of n k then sumZ (we t) (filter (at_disk n k) actual) else nec (info st k) t).
      { intro k. rewrite !nec_sum, Ec'. destruct (is_child_of n k); [reflexivity|].
        rewrite (er_ecs _ _ _ _ R2). reflexivity. }
      pose proof (S_transfer ecShardCount E_ec st (keys s') Hs Ce (s_nodup _ S') Hincl eq_refl
                    (fun k t => proj1 (proj2 (proj2 (E_empty k t)))) p t) as Hold.
      unfold S. unfold E_ec at 1.
      (* split the recomputation into the old one plus the change on the disks of n *)
      assert (Hsplit : sumZ (fun k => if is_prefix p k then nec (info s' k) t else 0) (keys s') =
                sumZ (fun k => if is_prefix p k then E_ec k (info st k) t else 0) (keys s') +
                (sumZ (fun k => if is_prefix p k && is_child_of n k then sumZ (we t) (filter (at_disk n k) actual) else 0) (keys s') -
                 sumZ (fun k => if is_prefix p k && is_child_of n k then nec (info st k) t else 0) (keys s'))).
      { replace (sumZ (fun k => if is_prefix p k && is_child_of n k then sumZ (we t) (filter (at_disk n k) actual) else 0) (keys s') -
                 sumZ (fun k => if is_prefix p k && is_child_of n k then nec (info st k) t else 0) (keys s'))
          with (sumZ (fun k => (if is_prefix p k && is_child_of n k then sumZ (we t) (filter (at_disk n k) actual) else 0) -
                               (if is_prefix p k && is_child_of n k then nec (info st k) t else 0)) (keys s')).
        2:{ clear. induction (keys s') as [|k l IH]; simpl; lia. }
        rewrite <- sumZ_plus. apply sumZ_ext_in. intros k _. rewrite Hnec. unfold E_ec.
        destruct (is_prefix p k), (is_child_of n k); simpl; lia. }
      rewrite Hsplit, Hold.
      (* the new registration, per reported shard set *)
      rewrite (sum_by_disk n Hln (keys s') actual (fun k => is_prefix p k && is_child_of n k) (we t) (s_nodup _ S') Pa').
      (* the old registration, per registered shard set *)
      assert (Hreg : sumZ (fun k => if is_prefix p k && is_child_of n k then nec (info st k) t else 0) (keys s') =
                sumZ (fun e => if is_prefix p (hd_of n e) then we t e else 0) E).
      { rewrite (sumZ_incl _ (keys st) (keys s') (s_nodup _ Hs) (s_nodup _ S') Hincl).
        2:{ intros k _ Hk. rewrite (info_absent st k Hk). destruct (is_prefix p k && is_child_of n k); reflexivity. }
        unfold E. rewrite (node_ecs_sum n st _ (s_nodup _ Hs)). apply sumZ_ext_in. intros k Hk.
        destruct (is_child_of n k) eqn:Ck; [|rewrite andb_false_r; reflexivity]. rewrite andb_true_r.
        rewrite nec_sum, <- sumZ_if_const. apply sumZ_ext_in. intros e He.
        apply is_child_of_spec in Ck. destruct Ck as [x Ex].
        assert (e_disk e = x) by (apply (payload_disk_ec st k e n x Hs Hk He Ex)). subst x.
        unfold hd_of. rewrite <- Ex. reflexivity. }
      rewrite Hreg.
      assert (Hw1 : sumZ (fun a => if is_prefix p (hd_of n a) && is_child_of n (hd_of n a) then we t a else 0) actual =
                sumZ (fun a => if is_prefix p (n ++ [e_disk a]) && String.eqb (to_dt (e_disk a)) t then popcount (e_bits a) else 0) actual).
      { apply sumZ_ext_in. intros a _. unfold hd_of, we.
        assert (Hc : is_child_of n (n ++ [e_disk a]) = true) by (apply is_child_of_spec; exists (e_disk a); reflexivity).
        rewrite Hc, andb_true_r. destruct (is_prefix p (n ++ [e_disk a])), (String.eqb (to_dt (e_disk a)) t); reflexivity. }
      assert (Hw2 : sumZ (fun e => if is_prefix p (hd_of n e) then we t e else 0) E =
                sumZ (fun a => if is_prefix p (n ++ [e_disk a]) && String.eqb (to_dt (e_disk a)) t then popcount (e_bits a) else 0) E).
      { apply sumZ_ext_in. intros a _. unfold hd_of, we.
        destruct (is_prefix p (n ++ [e_disk a])), (String.eqb (to_dt (e_disk a)) t); reflexivity. }
      rewrite Hw1, Hw2. lia.
    + apply (Cons_transfer _ _ st); auto; try (intros; apply E_empty).
      * intros k t. rewrite U'. apply (er_other _ _ _ _ R2).
      * intros k t. unfold E_max. destruct (Nat.eqb (length k) 4); auto.
        fold (U s' k t). fold (U st k t). rewrite U'. apply (er_other _ _ _ _ R2).
    + destruct Hr as [Q1 Q2 Q3]. constructor; auto.
      * intro p. rewrite Q2. split; intros [H1 H2]; split; auto.
        destruct (in_dec (list_eq_dec string_dec) p (keys st)) as [Hp|Hp]; auto.
        exfalso.
        destruct (in_dec (list_eq_dec string_dec) p (keys st2)) as [Hp2|Hp2].
        -- destruct (er_new _ _ _ _ R2 p Hp2 Hp) as [d Ed]. subst p. rewrite app_length in H2. simpl in H2. lia.
        -- destruct (N' p H1 Hp2) as [d Ed]. subst p. rewrite app_length in H2. simpl in H2. lia.
      * intros m Hm t. rewrite <- (Q3 m Hm t). rewrite U'. apply (er_other _ _ _ _ R2).
  - (* nothing changed: only zero deltas were applied *)
    apply (EcRel_zero_inv n Hln st r st2 _ Hi R2).
    apply orb_false_iff in Ech. destruct Ech as [Ech1 Ech2]. simpl in Ech1.
    intros k t. rewrite HD1, HD2.
    assert (Hnew : new_of E actual = []).
    { destruct (new_of E actual); [reflexivity|discriminate]. }
    rewrite Hnew. simpl.
    rewrite sumZ_zero; [reflexivity|].
    intros e He.
    assert (Hch : chg actual e = false).
    { destruct (chg actual e) eqn:X; auto.
      assert (existsb (chg actual) E' = true).
      { apply existsb_exists. exists e. split; auto. unfold E'. apply permute_in. exact He. }
      congruence. }
    unfold chg in Hch. unfold own.
    destruct (find_ec_last (e_id e) actual) as [a|] eqn:F; [|discriminate].
    apply orb_false_iff in Hch. destruct Hch as [H1 H2]. apply Z.ltb_ge in H1, H2.
    assert (A1 : 0 <= an_of actual e) by (unfold an_of; rewrite F; apply popcount_nonneg).
    assert (A2 : 0 <= dn_of actual e) by (unfold dn_of; rewrite F; apply popcount_nonneg).
    replace (an_of actual e - dn_of actual e) with 0 by lia.
    destruct (is_prefix k (n ++ [e_disk e]) && String.eqb (to_dt (e_disk e)) t); reflexivity.
Qed.

(* ================================================================== *)
(* 14. one step, whole histories                                       *)
(* ================================================================== *)
Lemma ref_map_absent : forall (r : ref_state) n (g : list (string * Z) -> list (string * Z)),
  ~ In n (rkeys r) ->
  map (fun e => if path_eqb (fst e) n then (fst e, g (snd e)) else e) r = r.
Proof.
  intros r n g H. rewrite <- (map_id r) at 2. apply map_ext_in. intros [k i] Hin. simpl.
  destruct (path_eqb k n) eqn:E; auto. apply path_eqb_eq in E. subst k. exfalso. apply H.
  apply (in_map fst) in Hin. exact Hin.
Qed.

Lemma ref_filter_absent : forall (r : ref_state) n, ~ In n (rkeys r) ->
  filter (fun e => negb (path_eqb (fst e) n)) r = r.
Proof.
  intros r n H. apply filter_all_true. intros [k i] Hin. simpl. apply negb_true_iff. apply path_eqb_neq.
  intro E. subst k. apply H. apply (in_map fst) in Hin. exact Hin.
Qed.

Theorem step_inv : forall st r o order, Inv st r -> wf_op o = true -> trigger st o = None ->
  Inv (step order st o) (ref_step r o).
Proof.
  intros st r o order Hi Hwf Ht.
  destruct o as [dc rack node maxs|n maxs|n vs|n news dels|n shards|n news dels|n|n gv].
  - apply join_inv; auto.
  - (* AdjustMax *)
    unfold step. cbn [op_node].
    destruct (present st n && Nat.eqb (length n) 3) eqn:P; cbn [negb].
    + apply andb_prop in P. destruct P as [P L]. apply present_in in P. apply Nat.eqb_eq in L.
      apply adjust_max_inv; auto.
    + cbn [ref_step]. rewrite ref_map_absent; auto.
      intro X. apply (r_keys _ _ (i_ref _ _ Hi)) in X. destruct X as [X1 X2].
      apply present_in in X1. rewrite X1, X2 in P. discriminate.
  - (* FullVol *)
    unfold step. cbn [op_node ref_step].
    destruct (present st n && Nat.eqb (length n) 3) eqn:P; cbn [negb]; auto.
    apply andb_prop in P. destruct P as [P L]. apply present_in in P. apply Nat.eqb_eq in L.
    apply update_volumes_inv; auto.
  - (* IncVol *)
    unfold step. cbn [op_node ref_step].
    destruct (present st n && Nat.eqb (length n) 3) eqn:P; cbn [negb]; auto.
    apply andb_prop in P. destruct P as [P L]. apply present_in in P. apply Nat.eqb_eq in L.
    apply delta_update_volumes_inv; auto.
  - (* FullEc *)
    unfold step, trigger in *. cbn [op_node ref_step] in *.
    destruct (present st n && Nat.eqb (length n) 3) eqn:P; cbn [negb] in *; auto.
    apply andb_prop in P. destruct P as [P L]. apply present_in in P. apply Nat.eqb_eq in L.
    destruct (trig_ec_irregular st n shards) eqn:T4; [discriminate|].
    apply update_ec_inv; auto.
  - (* IncEc *)
    unfold step. cbn [op_node ref_step].
    destruct (present st n && Nat.eqb (length n) 3) eqn:P; cbn [negb]; auto.
    apply andb_prop in P. destruct P as [P L]. apply present_in in P. apply Nat.eqb_eq in L.
    apply delta_update_ec_inv; auto.
  - (* Unregister *)
    unfold step. cbn [op_node].
    destruct (present st n && Nat.eqb (length n) 3) eqn:P; cbn [negb].
    + apply andb_prop in P. destruct P as [P L]. apply present_in in P. apply Nat.eqb_eq in L.
      apply unregister_inv; auto.
    + cbn [ref_step]. rewrite ref_filter_absent; auto.
      intro X. apply (r_keys _ _ (i_ref _ _ Hi)) in X. destruct X as [X1 X2].
      apply present_in in X1. rewrite X1, X2 in P. discriminate.
  - (* Grow *)
    unfold step. cbn [op_node ref_step].
    destruct (present st n && Nat.eqb (length n) 3) eqn:P; cbn [negb]; auto.
    apply andb_prop in P. destruct P as [P L]. apply present_in in P. apply Nat.eqb_eq in L.
    apply add_or_update_volume_inv; auto.
Qed.

Lemma init_inv : Inv init_state [].
Proof.
  constructor.
  - constructor.
    + repeat constructor. intros [].
    + left. reflexivity.
    + intros k p [Hk|[]] Hp. subst k. destruct p; [left; reflexivity|discriminate].
    + intros k [Hk|[]]. subst k. apply payload_ok_empty.
  - intros p [Hp|[]] t. subst p. reflexivity.
  - intros p [Hp|[]] t. subst p. reflexivity.
  - intros p [Hp|[]] t. subst p. reflexivity.
  - intros p [Hp|[]] t. subst p. reflexivity.
  - constructor.
    + constructor.
    + intro p. split; [intros []|]. intros [[Hp|[]] Hl]. subst p. discriminate.
    + intros n [].
Qed.

(* the boolean oracle of the correspondence check follows from the invariant *)
Theorem inv_exact_b : forall st r, Inv st r -> exact_b st r = true.
Proof.
  intros st r [Hs Cv Cr Ce Cm Hr]. unfold exact_b. cbv zeta.
  apply forallb_forall. intros [p i] Hin. apply forallb_forall. intros t _.
  assert (Hp : In p (keys st)) by (apply (in_map fst) in Hin; exact Hin).
  simpl fst. unfold exact_at.
  pose proof (s_nodup _ Hs) as Hnd.
  repeat (apply andb_true_intro; split).
  - apply Z.eqb_eq. rewrite (sumZ_beneath (fun k i => nvol i t) st p Hnd). apply (Cv p Hp t).
  - apply Z.eqb_eq. rewrite (sumZ_beneath (fun k i => nremote i t) st p Hnd). apply (Cr p Hp t).
  - apply Z.eqb_eq. rewrite (sumZ_beneath (fun k i => nec i t) st p Hnd). apply (Ce p Hp t).
  - apply Z.eqb_eq.
    change (sumZ (fun e => dmax e t) (beneath st p)) with (sumZ (fun e => E_max (fst e) (snd e) t) (beneath st p)).
    rewrite (sumZ_beneath (fun k i => E_max k i t) st p Hnd). apply (Cm p Hp t).
  - destruct (Nat.eqb (length p) 3) eqn:L; auto. apply Nat.eqb_eq in L.
    apply Z.eqb_eq. apply (r_max _ _ Hr). apply (r_keys _ _ Hr). auto.
Qed.

(* every state of a history without a known-finding trigger is exact *)
Fixpoint all_exact (states : list state) (refs : list ref_state) : bool :=
  match states, refs with
  | s :: states', r :: refs' => exact_b s r && all_exact states' refs'
  | _, _ => true
  end.

Theorem run_exact : forall ops orders st r, Inv st r -> forallb wf_op ops = true ->
  first_trigger orders st ops = None ->
  all_exact (run orders st ops) (ref_run r ops) = true.
Proof.
  induction ops as [|o ops IH]; intros orders st r Hi Hwf Ht; [reflexivity|].
  simpl in Hwf. apply andb_prop in Hwf. destruct Hwf as [Hw1 Hw2].
  cbn [first_trigger] in Ht. destruct (trigger st o) eqn:T; [discriminate|].
  cbn [run ref_run all_exact].
  pose proof (step_inv st r o (hd [] orders) Hi Hw1 T) as Hi'.
  rewrite (inv_exact_b _ _ Hi'). simpl. apply IH; auto.
Qed.

(* ---- the successor enumeration of the correspondence check is exact ---- *)
Theorem step_all_spec : forall st o s, In s (step_all st o) <-> exists order, step order st o = s.
Proof.
  intros st o s.
  assert (Irr : forall order, (forall m, o <> AdjustMax (op_node o) m) -> (forall a, o <> FullEc (op_node o) a) ->
                step order st o = step [] st o).
  { intros order H1 H2. destruct o; try reflexivity.
    - exfalso. apply (H1 maxs). reflexivity.
    - exfalso. apply (H2 shards). reflexivity. }
  destruct o as [dc rack node maxs|n maxs|n vs|n news dels|n shards|n news dels|n|n gv];
    try (unfold step_all; split;
         [intros [H|[]]; exists []; exact H
         |intros [order H]; left; rewrite <- H; symmetry; apply Irr; intros; discriminate]).
  - (* AdjustMax *)
    unfold step_all. rewrite in_map_iff. split.
    + intros [ord [H _]]. exists ord. exact H.
    + intros [order H].
      destruct (all_orders_complete (length maxs) _ maxs order (le_n _)) as [ord' [Hin Heq]].
      exists ord'. split; auto. rewrite <- H. unfold step. cbn [op_node].
      destruct (negb (present st n && Nat.eqb (length n) 3)); auto. rewrite Heq. reflexivity.
  - (* FullEc *)
    unfold step_all. rewrite in_map_iff. split.
    + intros [ord [H _]]. exists ord. exact H.
    + intros [order H].
      destruct (all_orders_complete (length (node_ecs st n)) _ (node_ecs st n) order (le_n _)) as [ord' [Hin Heq]].
      exists ord'. split; auto. rewrite <- H. unfold step. cbn [op_node].
      destruct (negb (present st n && Nat.eqb (length n) 3)); auto.
      unfold update_ec_shards. rewrite Heq. reflexivity.
Qed.

(* ---- c12_propagation: a delta applied at a node changes every ancestor (and the node) by the
        same amount, and nothing else ---- *)
Theorem propagation : forall st q d,
  keys (up_adjust st q d) = keys st /\
  (forall p t, In p (keys st) ->
     U (up_adjust st q d) p t = if is_prefix p q then cadd (U st p t) (uget d t) else U st p t) /\
  (forall p, i_vols (info (up_adjust st q d) p) = i_vols (info st p) /\
             i_ecs (info (up_adjust st q d) p) = i_ecs (info st p)).
Proof.
  intros st q d. split; [apply keys_up_adjust|]. split.
  - intros p t Hp. apply U_up_adjust. exact Hp.
  - intro p. split; [apply vols_up_adjust|apply ecs_up_adjust].
Qed.
(* END-OF-PART-6 *)
