(* C27: the request forms (model/S3ListV2.v) against the marker-level client of
   model/S3ListMut.v (run_m).  What the V2 handler makes of (continuation-token, start-after),
   and that a client that resends its start-after with every token sees the same pages. *)
From Coq Require Import List NArith ZArith Bool String Ascii Arith Lia.
From SW Require Import model.S3List model.S3ListMut model.S3ListV2.
Import ListNotations.
Local Open Scope string_scope.
Local Open Scope list_scope.

(* ---------- the V2 marker ---------- *)

Lemma v2_marker_token_wins : forall token startAfter,
  token <> "" -> v2_marker token startAfter = token.
Proof.
  intros token sa H. unfold v2_marker. destruct (token =? "") eqn:E; [|reflexivity].
  apply String.eqb_eq in E. contradiction.
Qed.

Lemma v2_marker_no_token : forall startAfter, v2_marker "" startAfter = startAfter.
Proof. reflexivity. Qed.

Lemma v2_marker_no_start_after : forall token, v2_marker token "" = token.
Proof.
  intros token. unfold v2_marker. destruct (token =? "") eqn:E; [|reflexivity].
  apply String.eqb_eq in E. symmetry. exact E.
Qed.

(* the request parameters of the other API version, fetch-owner and encoding-type do not
   reach the listing *)
Lemma handler_marker_v1 : forall m t s fo enc, handler_marker (mk_req false m t s fo enc) = m.
Proof. reflexivity. Qed.

Lemma handler_marker_v2 : forall m t s fo enc,
  handler_marker (mk_req true m t s fo enc) = if t =? "" then s else t.
Proof. reflexivity. Qed.

Lemma handler_marker_v2_token_wins : forall m token startAfter fo enc,
  token <> "" -> handler_marker (mk_req true m token startAfter fo enc) = token.
Proof. intros m token sa fo enc H. exact (v2_marker_token_wins token sa H). Qed.

Lemma handler_marker_v2_no_token : forall m startAfter fo enc,
  handler_marker (mk_req true m "" startAfter fo enc) = startAfter.
Proof. reflexivity. Qed.

Lemma serve_only_marker : forall ae rootk prefix M delim rq rq',
  handler_marker rq = handler_marker rq' ->
  serve ae rootk prefix M delim rq = serve ae rootk prefix M delim rq'.
Proof. intros. unfold serve. rewrite H. reflexivity. Qed.

(* a resent start-after that is byte-wise GREATER than the token does not win: the
   concrete shape of the SDK-paginator request on a page boundary at "logs.tar.gz" *)
Lemma v2_marker_not_max :
  String.ltb "logs.tar.gz" "logs/a" = true /\
  handler_marker (mk_req true "" "logs.tar.gz" "logs/a" false false) = "logs.tar.gz".
Proof. vm_compute. split; reflexivity. Qed.

(* ---------- the client against run_m ---------- *)

Lemma next_request_marker : forall cl p,
  cl_resend cl = false \/ (cl_style cl <> V2StartAfter /\ (pg_next p =? "") = false) ->
  option_map handler_marker (next_request cl p) = next_marker (cl_style cl) p.
Proof.
  intros cl p H. unfold next_request, next_marker.
  destruct (cl_style cl) eqn:Est.
  - (* V2Token *)
    cbn [option_map]. unfold v2_request, handler_marker. cbn [rq_v2 rq_token rq_start_after].
    destruct H as [H|[_ H]].
    + rewrite H. rewrite v2_marker_no_start_after. reflexivity.
    + unfold v2_marker. rewrite H. reflexivity.
  - reflexivity.
  - destruct (last_key p); reflexivity.
  - destruct H as [H|[H _]]; [|congruence].
    rewrite H. destruct (last_key p); reflexivity.
Qed.

Definition strip (l : list (request * page)) : list (string * page) :=
  map (fun x => (handler_marker (fst x), snd x)) l.

(* the pages and the final tree of the request-level client are those of the marker-level
   client started at the first request's marker, provided the client does not resend, or it
   resends (continuation-token style or V1) and no truncated page has an empty token *)
Lemma run_v_run_m : forall n ae rootk prefix M delim cl rq,
  cl_resend cl = false \/
  (cl_style cl <> V2StartAfter /\
   tokens_nonempty (fst (run_m n ae rootk prefix M delim (cl_style cl) (handler_marker rq))) = true) ->
  run_m n ae rootk prefix M delim (cl_style cl) (handler_marker rq) =
  (strip (fst (run_v n ae rootk prefix M delim cl rq)), snd (run_v n ae rootk prefix M delim cl rq)).
Proof.
  induction n as [|n IH]; intros ae rootk prefix M delim cl rq H; cbn [run_m run_v].
  - reflexivity.
  - unfold serve.
    cbn [run_m] in H.
    destruct (list_objects_m ae rootk prefix M (handler_marker rq) delim) as [p rk] eqn:Ep.
    destruct (pg_trunc p) eqn:Et; [|reflexivity].
    assert (Hnext : option_map handler_marker (next_request cl p) = next_marker (cl_style cl) p).
    { apply next_request_marker. destruct H as [H|[Hs H]]; [left; exact H|right; split; [exact Hs|]].
      destruct (next_marker (cl_style cl) p) as [m|].
      - destruct (run_m n ae rk prefix M delim (cl_style cl) m) as [l rk'].
        cbn [fst tokens_nonempty forallb snd] in H. apply andb_prop in H. destruct H as [H _].
        rewrite Et in H. cbn [negb orb] in H. apply negb_true_iff in H. exact H.
      - cbn [fst tokens_nonempty forallb snd] in H. apply andb_prop in H. destruct H as [H _].
        rewrite Et in H. cbn [negb orb] in H. apply negb_true_iff in H. exact H. }
    destruct (next_request cl p) as [rq'|]; cbn [option_map] in Hnext; rewrite <- Hnext.
    + assert (H' : cl_resend cl = false \/
                   (cl_style cl <> V2StartAfter /\
                    tokens_nonempty (fst (run_m n ae rk prefix M delim (cl_style cl) (handler_marker rq'))) = true)).
      { destruct H as [H|[Hs H]]; [left; exact H|right; split; [exact Hs|]].
        rewrite <- Hnext in H.
        destruct (run_m n ae rk prefix M delim (cl_style cl) (handler_marker rq')) as [l rk'].
        cbn [fst tokens_nonempty forallb] in H. apply andb_prop in H. destruct H as [_ H]. exact H. }
      rewrite (IH ae rk prefix M delim cl rq' H').
      destruct (run_v n ae rk prefix M delim cl rq') as [l rk']. reflexivity.
    + reflexivity.
Qed.

(* the SDK-paginator form: continuation-token style, the original start-after resent with
   every token, any stray parameters / fetch-owner / encoding-type *)
Lemma resend_start_after_same_pages : forall n ae rootk prefix M delim start stray fo enc resend,
  let cl := mk_client V2Token resend start stray fo enc in
  tokens_nonempty (fst (run_m n ae rootk prefix M delim V2Token start)) = true ->
  map snd (fst (run_client n ae rootk prefix M delim cl)) =
    map snd (fst (run_m n ae rootk prefix M delim V2Token start)) /\
  snd (run_client n ae rootk prefix M delim cl) = snd (run_m n ae rootk prefix M delim V2Token start).
Proof.
  intros n ae rootk prefix M delim start stray fo enc resend cl H.
  assert (Hm : handler_marker (first_request cl) = start) by reflexivity.
  pose proof (run_v_run_m n ae rootk prefix M delim cl (first_request cl)) as E.
  rewrite Hm in E. cbn [cl_style cl] in E.
  unfold run_client. rewrite E.
  - cbn [fst snd]. split; [|reflexivity]. unfold strip. rewrite map_map. cbn [snd]. reflexivity.
  - right. split; [discriminate|exact H].
Qed.

(* without resending, every style of the request-level client is the marker-level client *)
Lemma plain_client_is_run_m : forall n ae rootk prefix M delim st start stray fo enc,
  let cl := mk_client st false start stray fo enc in
  map snd (fst (run_client n ae rootk prefix M delim cl)) =
    map snd (fst (run_m n ae rootk prefix M delim st start)) /\
  snd (run_client n ae rootk prefix M delim cl) = snd (run_m n ae rootk prefix M delim st start).
Proof.
  intros n ae rootk prefix M delim st start stray fo enc cl.
  assert (Hm : handler_marker (first_request cl) = start).
  { unfold first_request, cl. cbn [cl_style cl_start]. destruct st; reflexivity. }
  pose proof (run_v_run_m n ae rootk prefix M delim cl (first_request cl)) as E.
  rewrite Hm in E. cbn [cl_style cl] in E.
  unfold run_client. rewrite E.
  - cbn [fst snd]. split; [|reflexivity]. unfold strip. rewrite map_map. cbn [snd]. reflexivity.
  - left. reflexivity.
Qed.

(* non-vacuity: a bucket with logs/a..c beside logs.tar.gz, start-after = logs/a resent,
   max-keys 1: four pages, the token "logs.tar.gz" (below the start-after) is followed *)
Definition t_v2 : list tree :=
  [Dir "logs" [File "a"; File "b"; File "c"]; File "logs.tar.gz"; File "m"].

Lemma resend_example :
  wf t_v2 = true /\
  tokens_nonempty (fst (run_m 10 true t_v2 "" 1 false V2Token "logs/a")) = true /\
  map (fun x => pg_keys (snd x))
      (fst (run_client 10 true t_v2 "" 1 false (mk_client V2Token true "logs/a" "" true true))) =
    [["logs/b"]; ["logs/c"]; ["logs.tar.gz"]; ["m"]] /\
  map (fun x => (rq_token (fst x), rq_start_after (fst x)))
      (fst (run_client 10 true t_v2 "" 1 false (mk_client V2Token true "logs/a" "" true true))) =
    [("", "logs/a"); ("logs/b", "logs/a"); ("logs/c", "logs/a"); ("logs.tar.gz", "logs/a")].
Proof. vm_compute. repeat split; reflexivity. Qed.
