(* Proofs about the handler-level verification of model/S3Auth.v (C26):
   PutObject / PutObjectPart (V4 streaming seed), PostPolicyBucket (POST policy signature),
   the narrowed trigger sets of findings 0 and 1, and the identity headers (finding 2). *)
From Coq Require Import List NArith Bool String Ascii Arith Lia.
From SW Require Import model.S3Auth proof.S3AuthProofs.
Import ListNotations.
Local Open Scope string_scope.
Local Open Scope list_scope.

(* ---------- the three verifications ---------- *)
Lemma seed_verify_pass : forall ids r c w,
  seed_verify ids r c = GPass w ->
  seed_spec ids r c = true /\
  exists id secret, w = Some id /\ lookup_by_access_key ids (cl_ak c) = Some (id, secret) /\
                    secret = cl_secret c /\ sig_fresh false (cl_damage c) = true /\
                    can_do (id_actions id) ACTION_WRITE (rq_bucket r) = true.
Proof.
  intros ids r c w H. unfold seed_verify in H.
  destruct (String.eqb (remove_spaces (hdr_authz r)) "") eqn:Eb; [discriminate|].
  destruct (sprefix signV4Algorithm (remove_spaces (hdr_authz r))) eqn:Ep; simpl in H; [|discriminate].
  assert (Hk : exists id secret, lookup_by_access_key ids (cl_ak c) = Some (id, secret) /\
             can_do (id_actions id) ACTION_WRITE (rq_bucket r) = true /\
             String.eqb secret (cl_secret c) && sig_fresh false (cl_damage c) = true /\ w = Some id).
  { destruct (cl_damage c); try discriminate;
    destruct (lookup_by_access_key ids (cl_ak c)) as [[id s]|]; try discriminate;
    destruct (can_do (id_actions id) ACTION_WRITE (rq_bucket r)) eqn:Ec; try discriminate;
    match type of H with (if ?b then _ else _) = _ => destruct b eqn:Es end; try discriminate;
    inversion H; subst; exists id, s; auto. }
  destruct Hk as [id [s [Hl [Hc [Hs Hw]]]]].
  apply andb_true_iff in Hs. destruct Hs as [Hs Hf]. apply String.eqb_eq in Hs.
  split.
  - unfold seed_spec, find_cred_spec. rewrite Ep, find_cred_table, Hl. simpl.
    rewrite <- can_do_allows, Hc, Hf. subst s. rewrite String.eqb_refl. reflexivity.
  - exists id, s. auto.
Qed.

Lemma seed_spec_meaning : forall ids r c,
  seed_spec ids r c = true <->
  sprefix signV4Algorithm (remove_spaces (hdr_authz r)) = true /\
  exists id secret, lookup_by_access_key ids (cl_ak c) = Some (id, secret) /\ secret = cl_secret c /\
                    sig_fresh false (cl_damage c) = true /\
                    can_do (id_actions id) ACTION_WRITE (rq_bucket r) = true.
Proof.
  intros ids r c. unfold seed_spec, find_cred_spec. rewrite find_cred_table. split.
  - intros H. apply andb_true_iff in H. destruct H as [Hp H]. split; auto.
    destruct (lookup_by_access_key ids (cl_ak c)) as [[id s]|]; [|discriminate].
    apply andb_true_iff in H. destruct H as [H Ha]. apply andb_true_iff in H. destruct H as [Hs Hf].
    apply String.eqb_eq in Hs. exists id, s. rewrite can_do_allows. auto.
  - intros [Hp [id [s [Hl [Hs [Hf Hc]]]]]]. rewrite Hp, Hl. simpl.
    rewrite <- can_do_allows, Hc, Hf. subst s. rewrite String.eqb_refl. reflexivity.
Qed.

Lemma policy_verify_pass : forall ids v2 pc w,
  policy_verify ids v2 pc = GPass w ->
  exists id, w = Some id /\ policy_signer ids (FormPolicy v2 pc) = Some id.
Proof.
  intros ids v2 pc w H. unfold policy_verify in H.
  assert (Hk : exists id s, lookup_by_access_key ids (cl_ak pc) = Some (id, s) /\
               String.eqb s (cl_secret pc) = true /\ cl_damage pc = Intact /\ w = Some id).
  { destruct (cl_damage pc) eqn:Ed; destruct v2; try discriminate;
    destruct (lookup_by_access_key ids (cl_ak pc)) as [[id s]|]; try discriminate;
    destruct (String.eqb s (cl_secret pc)) eqn:Es; simpl in H; try discriminate;
    inversion H; subst; exists id, s; auto. }
  destruct Hk as [id [s [Hl [Hs [Hd Hw]]]]]. exists id. split; auto.
  unfold policy_signer, find_cred_spec. rewrite find_cred_table, Hl, Hs, Hd. reflexivity.
Qed.

Lemma policy_signer_meaning : forall ids f id,
  policy_signer ids f = Some id <->
  exists v2 pc secret, f = FormPolicy v2 pc /\ lookup_by_access_key ids (cl_ak pc) = Some (id, secret) /\
                       secret = cl_secret pc /\ cl_damage pc = Intact.
Proof.
  intros ids f id. unfold policy_signer, find_cred_spec. split.
  - destruct f as [| |v2 pc]; try discriminate. rewrite find_cred_table.
    destruct (lookup_by_access_key ids (cl_ak pc)) as [[id' s]|] eqn:Hl; [|discriminate].
    destruct (String.eqb_spec s (cl_secret pc)) as [Hs|Hs]; simpl; [|discriminate].
    destruct (cl_damage pc) eqn:Ed; try discriminate. intros H. inversion H; subst id'.
    exists v2, pc, s. auto.
  - intros [v2 [pc [s [-> [Hl [Hs Hd]]]]]]. rewrite find_cred_table, Hl, Hd. subst s.
    rewrite String.eqb_refl. reflexivity.
Qed.

(* ---------- which types can meet which route ---------- *)
Lemma route_match_method : forall r i rt,
  route_match r = Some i -> nth_error route_table (N.to_nat i) = Some rt -> rq_method r = rt_method rt.
Proof.
  intros r i rt Hm Hn. apply route_match_first in Hm. destruct Hm as [[rt' [Hn' [Hr _]]]|[Hi _]].
  - rewrite Hn in Hn'. inversion Hn'; subst rt'. unfold route_matches in Hr.
    apply andb_true_iff in Hr; destruct Hr as [Hr _].
    apply andb_true_iff in Hr; destruct Hr as [Hr _].
    apply andb_true_iff in Hr; destruct Hr as [Hr _].
    apply andb_true_iff in Hr. destruct Hr as [_ Hr]. apply String.eqb_eq in Hr. exact Hr.
  - subst i. discriminate.
Qed.

Lemma put_not_post_policy : forall r, rq_method r = "PUT" -> get_request_auth_type r <> PostPolicy.
Proof.
  intros r Hm. unfold get_request_auth_type.
  destruct (is_request_signature_v2 r); [discriminate|].
  destruct (is_request_presigned_v2 r); [discriminate|].
  destruct (is_request_sign_streaming_v4 r); [discriminate|].
  destruct (is_request_signature_v4 r); [discriminate|].
  destruct (is_request_presigned_v4 r); [discriminate|].
  destruct (is_request_jwt r); [discriminate|].
  destruct (is_request_post_policy r) eqn:E.
  - unfold is_request_post_policy in E. rewrite Hm in E. rewrite andb_false_r in E. discriminate.
  - destruct (rq_authz r); discriminate.
Qed.

Lemma post_not_streaming : forall r, rq_method r = "POST" -> get_request_auth_type r <> StreamingSigned.
Proof.
  intros r Hm. unfold get_request_auth_type.
  destruct (is_request_signature_v2 r); [discriminate|].
  destruct (is_request_presigned_v2 r); [discriminate|].
  destruct (is_request_sign_streaming_v4 r) eqn:E.
  - unfold is_request_sign_streaming_v4 in E. rewrite Hm in E. rewrite andb_false_r in E. discriminate.
  - destruct (is_request_signature_v4 r); [discriminate|].
    destruct (is_request_presigned_v4 r); [discriminate|].
    destruct (is_request_jwt r); [discriminate|].
    destruct (is_request_post_policy r); [discriminate|].
    destruct (rq_authz r); discriminate.
Qed.

Lemma bypass_cases : forall r, trigger r = true ->
  get_request_auth_type r = StreamingSigned \/ get_request_auth_type r = PostPolicy.
Proof. intros r H. unfold trigger in H. destruct (get_request_auth_type r); try discriminate; auto. Qed.

Lemma idx_put_object : nth_error route_table (N.to_nat PUT_OBJECT_IDX) =
  Some (mk "PutObjectHandler" "PUT" true HNone [] ACTION_WRITE).
Proof. reflexivity. Qed.
Lemma idx_put_object_part : nth_error route_table (N.to_nat PUT_OBJECT_PART_IDX) =
  Some (mk "PutObjectPartHandler" "PUT" true HNone [QDigits "partNumber"; QHas "uploadId"] ACTION_WRITE).
Proof. reflexivity. Qed.
Lemma idx_post_policy : nth_error route_table (N.to_nat POST_POLICY_IDX) =
  Some (mk "PostPolicyBucketHandler" "POST" false HFormData [] ACTION_WRITE).
Proof. reflexivity. Qed.

(* ---------- positive theorems for the two remaining signature kinds ---------- *)
(* V4 streaming seed: a streaming-signed request on PutObject / PutObjectPart goes on to the
   filer's data path only with a valid seed signature of an identity allowed to Write *)
Theorem streaming_put_needs_seed : forall ids r c e i w,
  ids <> [] -> get_request_auth_type r = StreamingSigned ->
  i = PUT_OBJECT_IDX \/ i = PUT_OBJECT_PART_IDX ->
  takes_effect ids r c e i = Some w ->
  seed_spec ids r c = true /\ exists id, w = Some id /\ In id ids /\
    can_do (id_actions id) ACTION_WRITE (rq_bucket r) = true.
Proof.
  intros ids r c e i w Hne Ht Hi H. unfold takes_effect in H.
  destruct (route_decision ids r c i) as [w0|]; [|discriminate].
  assert (Hs : seed_verify ids r c = GPass w).
  { destruct Hi; subst i.
    - change (handler_gate ids r c e PUT_OBJECT_IDX w0) with (put_object_gate ids r c w0) in H.
      unfold put_object_gate in H. rewrite Ht in H. destruct ids; [congruence|].
      destruct (seed_verify (i :: ids) r c); [discriminate|]. inversion H; reflexivity.
    - change (handler_gate ids r c e PUT_OBJECT_PART_IDX w0) with (put_object_part_gate ids r c e w0) in H.
      unfold put_object_part_gate in H. rewrite Ht in H.
      destruct (negb (e_upload_exists e)); [discriminate|].
      match type of H with context [if ?b then GReject HInvalidMaxParts else _] => destruct b end; [discriminate|].
      destruct ids; [congruence|].
      destruct (seed_verify (i :: ids) r c); [discriminate|]. inversion H; reflexivity. }
  apply seed_verify_pass in Hs. destruct Hs as [Hsp [id [s [Hw [Hl [_ [_ Hc]]]]]]].
  split; auto. exists id. repeat split; auto. eapply lookup_in; eauto.
Qed.

(* POST policy: whatever the classified type, PostPolicyBucketHandler goes on to the filer
   only with a policy validly signed (V2 or V4) by a configured identity, unexpired *)
Theorem post_policy_needs_signature : forall ids r c e w,
  takes_effect ids r c e POST_POLICY_IDX = Some w ->
  exists id, w = Some id /\ policy_signer ids (e_form e) = Some id.
Proof.
  intros ids r c e w H. unfold takes_effect in H.
  destruct (route_decision ids r c POST_POLICY_IDX) as [w0|]; [|discriminate].
  change (handler_gate ids r c e POST_POLICY_IDX w0) with (post_policy_gate ids e) in H.
  unfold post_policy_gate in H. destruct (e_form e) as [| |v2 pc]; try discriminate.
  destruct (policy_verify ids v2 pc) eqn:Ep; [discriminate|]. inversion H; subst.
  apply policy_verify_pass in Ep. exact Ep.
Qed.

(* ---------- the property at the handler level ---------- *)
(* FULL statement: a request that goes on to the filer is authorised for the route's action *)
Definition effect_implies_authorized_statement : Prop :=
  forall ids r c e i w, ids <> [] -> route_match r = Some i ->
    takes_effect ids r c e i = Some w -> effect_authorized_spec ids r c e i = true.

(* outside the narrowed trigger sets of findings 0 and 1: the route's action on the URL's bucket *)
Lemma effect_partial0 : forall ids r c e i w,
  ids <> [] -> route_match r = Some i -> takes_effect ids r c e i = Some w ->
  trigger0 ids r c i = false -> trigger1 ids r e i = false ->
  effect_authorized_spec0 ids r c e i = true.
Proof.
  intros ids r c e i w Hne Hm H H0 H1.
  destruct (trigger r) eqn:Ht.
  - (* bypass type *)
    unfold trigger0 in H0. unfold trigger in Ht. rewrite Ht in H0. simpl in H0.
    apply andb_false_iff in H0. destruct H0 as [H0|H0].
    + apply negb_false_iff in H0. apply orb_true_iff in H0. destruct H0 as [Hi|Hi]; apply N.eqb_eq in Hi; subst i.
      * (* PutObject *)
        pose proof (route_match_method r _ _ Hm idx_put_object) as Hmeth. simpl in Hmeth.
        destruct (bypass_cases r Ht) as [Hty|Hty]; [|exfalso; eapply put_not_post_policy; eauto].
        destruct (streaming_put_needs_seed ids r c e PUT_OBJECT_IDX w Hne Hty (or_introl eq_refl) H) as [Hs _].
        unfold effect_authorized_spec0. rewrite idx_put_object, Hty, Hs.
        apply orb_true_iff. left. apply orb_true_iff. right. reflexivity.
      * (* PostPolicy *)
        pose proof (route_match_method r _ _ Hm idx_post_policy) as Hmeth. simpl in Hmeth.
        destruct (bypass_cases r Ht) as [Hty|Hty]; [exfalso; eapply post_not_streaming; eauto|].
        destruct (post_policy_needs_signature ids r c e w H) as [id [_ Hp]].
        unfold trigger1 in H1. rewrite Hty, Hp in H1. simpl in H1. apply negb_false_iff in H1.
        unfold effect_authorized_spec0. rewrite idx_post_policy, Hty. unfold policy_spec. rewrite Hp, H1.
        apply orb_true_iff. right. reflexivity.
    + apply negb_false_iff in H0. apply andb_true_iff in H0. destruct H0 as [Hi Hs].
      apply N.eqb_eq in Hi. subst i.
      pose proof (route_match_method r _ _ Hm idx_put_object_part) as Hmeth. simpl in Hmeth.
      destruct (bypass_cases r Ht) as [Hty|Hty]; [|exfalso; eapply put_not_post_policy; eauto].
      unfold effect_authorized_spec0. rewrite idx_put_object_part, Hty, Hs.
      apply orb_true_iff. left. apply orb_true_iff. right. reflexivity.
  - (* every other type: Auth itself authorises *)
    unfold takes_effect in H. destruct (route_decision ids r c i) as [w0|] eqn:Hd; [|discriminate].
    pose proof (every_route_partial ids r c i w0 Hne Ht Hm Hd) as Ha.
    unfold effect_authorized_spec0. destruct (nth_error route_table (N.to_nat i)) as [rt|].
    + apply authorized_spec_iff in Ha. rewrite Ha. reflexivity.
    + apply authenticated_spec_iff in Ha. exact Ha.
Qed.

(* ---------- copy routes: the source bucket (finding 3) ---------- *)
Lemma copy_reads_source_route : forall r e i sb,
  copy_reads_source r e i = Some sb -> i = COPY_OBJECT_IDX \/ i = COPY_OBJECT_PART_IDX.
Proof.
  intros r e i sb H. unfold copy_reads_source in H.
  destruct (path_to_bucket_and_object (copy_source_path r)) as [b o].
  destruct (N.eqb_spec i COPY_OBJECT_IDX) as [E|E]; [left; exact E|].
  destruct (N.eqb_spec i COPY_OBJECT_PART_IDX) as [E2|E2]; [right; exact E2|]. discriminate.
Qed.

Lemma bypass_not_authorized : forall ids t c action bucket,
  bypass_type t = true -> authorized_spec ids t c action bucket = false.
Proof. intros ids t c action bucket H. destruct t; try discriminate; reflexivity. Qed.

(* on a copy route the first half of the right-hand side is Write on the destination *)
Lemma spec0_copy_route : forall ids r c e i,
  i = COPY_OBJECT_IDX \/ i = COPY_OBJECT_PART_IDX ->
  effect_authorized_spec0 ids r c e i = authorized_spec ids (get_request_auth_type r) c ACTION_WRITE (rq_bucket r).
Proof.
  intros ids r c e i [Hi|Hi]; subst i; unfold effect_authorized_spec0; simpl;
  rewrite !andb_false_r, !orb_false_r; reflexivity.
Qed.

(* PARTIAL: outside the three narrowed trigger sets *)
Theorem effect_partial : forall ids r c e i w,
  ids <> [] -> route_match r = Some i -> takes_effect ids r c e i = Some w ->
  trigger0 ids r c i = false -> trigger1 ids r e i = false -> trigger3 ids r c e i = false ->
  effect_authorized_spec ids r c e i = true.
Proof.
  intros ids r c e i w Hne Hm H H0 H1 H3.
  pose proof (effect_partial0 ids r c e i w Hne Hm H H0 H1) as Hs0.
  unfold effect_authorized_spec. rewrite Hs0. simpl.
  unfold source_read_spec. unfold trigger3 in H3.
  destruct (copy_reads_source r e i) as [sb|] eqn:Hc; [|reflexivity].
  pose proof (copy_reads_source_route r e i sb Hc) as Hi.
  rewrite (spec0_copy_route ids r c e i Hi) in Hs0.
  destruct (bypass_type (get_request_auth_type r)) eqn:Hb.
  - rewrite bypass_not_authorized in Hs0 by exact Hb. discriminate.
  - rewrite Hs0 in H3. simpl in H3. apply negb_false_iff in H3. exact H3.
Qed.

(* the source bucket plays no part in what Auth and the copy handlers decide: with the same
   destination authorisation a copy goes on whatever bucket the source names *)
Theorem copy_ignores_source_rights : forall ids r c e i w,
  i = COPY_OBJECT_IDX \/ i = COPY_OBJECT_PART_IDX ->
  takes_effect ids r c e i = Some w <-> route_decision ids r c i = Run w.
Proof.
  intros ids r c e i w Hi. unfold takes_effect.
  destruct (route_decision ids r c i) as [w0|err0].
  - assert (Hg : handler_gate ids r c e i w0 = GPass w0) by (destruct Hi; subst i; reflexivity).
    rewrite Hg. split; intros E; inversion E; reflexivity.
  - split; discriminate.
Qed.

(* finding 3: writer1 (Write:b1 only) copies b2/src into b1 with an ordinary V4 header signature *)
Definition witness_ids3 : list identity :=
  [ {| id_name := "admin"; id_creds := [("AKADMIN", "sk-admin")]; id_actions := [ACTION_ADMIN] |};
    {| id_name := "writer1"; id_creds := [("AKWR1", "sk-wr1")]; id_actions := ["Write:b1"] |} ].
Definition witness_copy : request :=
  {| rq_method := "PUT"; rq_bucket := "b1"; rq_object := "o"; rq_query := [];
     rq_authz := Some "AWS4-HMAC-SHA256 Credent"; rq_sha256 := ""; rq_ctype := ""; rq_copysrc := "b2/src" |}.
Definition witness_copy_part : request :=
  {| rq_method := "PUT"; rq_bucket := "b1"; rq_object := "o"; rq_query := [("partNumber", Some "1"); ("uploadId", Some "u1")];
     rq_authz := Some "AWS4-HMAC-SHA256 Credent"; rq_sha256 := ""; rq_ctype := ""; rq_copysrc := "b2%2Fsrc" |}.
Definition wr1_claim : claim := {| cl_ak := "AKWR1"; cl_secret := "sk-wr1"; cl_damage := Intact |}.

(* finding 0 (narrowed): an unsigned streaming-typed PUT /b1 reaches PutBucketHandler;
   an unsigned streaming-typed part upload gets its upload looked up in the filer first *)
Definition env0 : env := {| e_upload_exists := true; e_form := NoForm; e_client_idhdr := ("", false) |}.

Lemma effect_refuted_0 :
  route_match witness_streaming = Some 14%N /\
  takes_effect witness_ids witness_streaming no_claim env0 14%N = Some None /\
  effect_authorized_spec witness_ids witness_streaming no_claim env0 14%N = false /\
  trigger0 witness_ids witness_streaming no_claim 14%N = true.
Proof. vm_compute. auto. Qed.

(* finding 1: POST policy upload signed by an identity that may only Read *)
Definition witness_ids1 : list identity :=
  [ {| id_name := "admin"; id_creds := [("AKADMIN", "sk-admin")]; id_actions := [ACTION_ADMIN] |};
    {| id_name := "reader"; id_creds := [("AKREAD", "sk-read")]; id_actions := [ACTION_READ] |} ].
Definition witness_post : request :=
  {| rq_method := "POST"; rq_bucket := "b1"; rq_object := ""; rq_query := [];
     rq_authz := None; rq_sha256 := ""; rq_ctype := "multipart/form-data; boundary=vb"; rq_copysrc := "" |}.
Definition env1 : env :=
  {| e_upload_exists := false;
     e_form := FormPolicy false {| cl_ak := "AKREAD"; cl_secret := "sk-read"; cl_damage := Intact |};
     e_client_idhdr := ("", false) |}.

Lemma effect_refuted_1 :
  route_match witness_post = Some POST_POLICY_IDX /\
  (exists id, takes_effect witness_ids1 witness_post no_claim env1 POST_POLICY_IDX = Some (Some id) /\
              id_name id = "reader" /\ can_do (id_actions id) ACTION_WRITE "b1" = false) /\
  effect_authorized_spec witness_ids1 witness_post no_claim env1 POST_POLICY_IDX = false /\
  trigger0 witness_ids1 witness_post no_claim POST_POLICY_IDX = false /\
  trigger1 witness_ids1 witness_post env1 POST_POLICY_IDX = true.
Proof.
  split; [vm_compute; reflexivity|]. split.
  - eexists. split; [vm_compute; reflexivity|]. split; vm_compute; reflexivity.
  - vm_compute. auto.
Qed.

Lemma effect_refuted_3 :
  route_match witness_copy = Some COPY_OBJECT_IDX /\
  (exists id, takes_effect witness_ids3 witness_copy wr1_claim env0 COPY_OBJECT_IDX = Some (Some id) /\
              id_name id = "writer1" /\ can_do (id_actions id) ACTION_READ "b2" = false) /\
  copy_reads_source witness_copy env0 COPY_OBJECT_IDX = Some "b2" /\
  effect_authorized_spec0 witness_ids3 witness_copy wr1_claim env0 COPY_OBJECT_IDX = true /\
  effect_authorized_spec witness_ids3 witness_copy wr1_claim env0 COPY_OBJECT_IDX = false /\
  trigger0 witness_ids3 witness_copy wr1_claim COPY_OBJECT_IDX = false /\
  trigger1 witness_ids3 witness_copy env0 COPY_OBJECT_IDX = false /\
  trigger3 witness_ids3 witness_copy wr1_claim env0 COPY_OBJECT_IDX = true /\
  route_match witness_copy_part = Some COPY_OBJECT_PART_IDX /\
  copy_reads_source witness_copy_part env0 COPY_OBJECT_PART_IDX = Some "b2" /\
  (exists id, takes_effect witness_ids3 witness_copy_part wr1_claim env0 COPY_OBJECT_PART_IDX = Some (Some id) /\ id_name id = "writer1") /\
  effect_authorized_spec witness_ids3 witness_copy_part wr1_claim env0 COPY_OBJECT_PART_IDX = false /\
  trigger3 witness_ids3 witness_copy_part wr1_claim env0 COPY_OBJECT_PART_IDX = true.
Proof.
  split; [vm_compute; reflexivity|]. split.
  { eexists. split; [vm_compute; reflexivity|]. split; vm_compute; reflexivity. }
  repeat (split; [vm_compute; reflexivity|]). split.
  { eexists. split; vm_compute; reflexivity. }
  split; vm_compute; reflexivity.
Qed.

(* non-vacuity of the trigger3 hypothesis: the same copy by an identity that may also Read b2 is
   outside the trigger set and authorised; a copy inside one bucket needs Read on that bucket *)
Definition ex_ids3 : list identity :=
  [ {| id_name := "rw"; id_creds := [("AKRW", "sk-rw")]; id_actions := ["Write:b1"; "Read:b2"] |};
    {| id_name := "writer1"; id_creds := [("AKWR1", "sk-wr1")]; id_actions := ["Write:b1"] |} ].
Definition rw_claim : claim := {| cl_ak := "AKRW"; cl_secret := "sk-rw"; cl_damage := Intact |}.

Lemma copy_example :
  trigger3 ex_ids3 witness_copy rw_claim env0 COPY_OBJECT_IDX = false /\
  (exists id, takes_effect ex_ids3 witness_copy rw_claim env0 COPY_OBJECT_IDX = Some (Some id) /\ id_name id = "rw") /\
  effect_authorized_spec ex_ids3 witness_copy rw_claim env0 COPY_OBJECT_IDX = true /\
  trigger3 ex_ids3 witness_copy wr1_claim env0 COPY_OBJECT_IDX = true /\
  copy_reads_source {| rq_method := "PUT"; rq_bucket := "b1"; rq_object := "o"; rq_query := [];
                       rq_authz := None; rq_sha256 := ""; rq_ctype := ""; rq_copysrc := "/b1/o" |} env0 COPY_OBJECT_IDX = None /\
  copy_reads_source {| rq_method := "PUT"; rq_bucket := "b1"; rq_object := "o"; rq_query := [];
                       rq_authz := None; rq_sha256 := ""; rq_ctype := ""; rq_copysrc := "b1/other" |} env0 COPY_OBJECT_IDX = Some "b1".
Proof.
  split; [vm_compute; reflexivity|]. split.
  { eexists. split; vm_compute; reflexivity. }
  repeat split; vm_compute; reflexivity.
Qed.

Lemma effect_statement_false : ~ effect_implies_authorized_statement.
Proof.
  intros H. destruct effect_refuted_1 as [Hm [[id [Ht _]] [Hs _]]].
  specialize (H witness_ids1 witness_post no_claim env1 POST_POLICY_IDX (Some id)).
  rewrite Hs in H. assert (false = true) by (apply H; auto; discriminate). discriminate.
Qed.

(* non-vacuity of effect_partial on the two new signature kinds *)
Definition ex_ids2 : list identity :=
  [ {| id_name := "reader"; id_creds := [("AKREAD", "sk-read")]; id_actions := [ACTION_READ] |};
    {| id_name := "writer1"; id_creds := [("AKWR1", "sk-wr1")]; id_actions := ["Write:b1"] |} ].
Definition ex_stream : request :=
  {| rq_method := "PUT"; rq_bucket := "b1"; rq_object := "o"; rq_query := [];
     rq_authz := Some "AWS4-HMAC-SHA256 Credent"; rq_sha256 := streamingContentSHA256; rq_ctype := ""; rq_copysrc := "" |}.
Definition ex_wr_claim : claim := {| cl_ak := "AKWR1"; cl_secret := "sk-wr1"; cl_damage := Intact |}.
Definition env_wr : env :=
  {| e_upload_exists := false; e_form := FormPolicy true ex_wr_claim; e_client_idhdr := ("", false) |}.

Lemma effect_example :
  get_request_auth_type ex_stream = StreamingSigned /\ route_match ex_stream = Some PUT_OBJECT_IDX /\
  trigger0 ex_ids2 ex_stream ex_wr_claim PUT_OBJECT_IDX = false /\
  trigger1 ex_ids2 ex_stream env0 PUT_OBJECT_IDX = false /\
  (exists id, takes_effect ex_ids2 ex_stream ex_wr_claim env0 PUT_OBJECT_IDX = Some (Some id) /\ id_name id = "writer1") /\
  takes_effect ex_ids2 ex_stream no_claim env0 PUT_OBJECT_IDX = None /\
  get_request_auth_type witness_post = PostPolicy /\
  trigger1 ex_ids2 witness_post env_wr POST_POLICY_IDX = false /\
  (exists id, takes_effect ex_ids2 witness_post no_claim env_wr POST_POLICY_IDX = Some (Some id) /\ id_name id = "writer1") /\
  takes_effect ex_ids2 witness_post no_claim env0 POST_POLICY_IDX = None.
Proof.
  repeat split; try (vm_compute; reflexivity);
  eexists; split; vm_compute; reflexivity.
Qed.

(* ---------- identity headers (finding 2) ---------- *)
Definition idhdr_statement : Prop :=
  forall ids r c action e, seen_id_header (auth ids r c action) e = id_header (auth ids r c action).

Theorem seen_header_partial : forall d e,
  e_client_idhdr e = ("", false) -> seen_id_header d e = id_header d.
Proof.
  intros d e He. unfold seen_id_header, id_header. rewrite He. simpl.
  destruct d as [[id|]|]; auto. destruct (String.eqb (id_name id) ""); auto.
  rewrite orb_false_r. reflexivity.
Qed.

(* a signed request of a non-admin identity that carries "s3-is-admin" itself: the handler sees an admin *)
Definition env_spoof : env := {| e_upload_exists := false; e_form := NoForm; e_client_idhdr := ("", true) |}.
Definition ex_get_signed : request :=
  {| rq_method := "GET"; rq_bucket := "b1"; rq_object := "o"; rq_query := [];
     rq_authz := Some "AWS4-HMAC-SHA256 Credent"; rq_sha256 := ""; rq_ctype := ""; rq_copysrc := "" |}.
Definition ex_rd_claim : claim := {| cl_ak := "AKREAD"; cl_secret := "sk-read"; cl_damage := Intact |}.

Lemma seen_header_refuted :
  exists id, auth witness_ids1 ex_get_signed ex_rd_claim ACTION_READ = Run (Some id) /\
             is_admin (id_actions id) = false /\
             seen_id_header (auth witness_ids1 ex_get_signed ex_rd_claim ACTION_READ) env_spoof = ("reader", true).
Proof. eexists. split; [vm_compute; reflexivity|]. split; vm_compute; reflexivity. Qed.

Lemma idhdr_statement_false : ~ idhdr_statement.
Proof.
  intros H. specialize (H witness_ids1 ex_get_signed ex_rd_claim ACTION_READ env_spoof).
  vm_compute in H. discriminate.
Qed.

(* ---------- non-vacuity of auth_partial (moved here from props/C26.v) ---------- *)
Definition ex_ids : list identity :=
  [ {| id_name := "writer1"; id_creds := [("AKWR1", "sk-wr1")]; id_actions := ["Write:b1"] |};
    {| id_name := "anonymous"; id_creds := []; id_actions := [ACTION_READ] |} ].
Definition ex_put : request :=
  {| rq_method := "PUT"; rq_bucket := "b1"; rq_object := "o"; rq_query := [];
     rq_authz := Some "AWS4-HMAC-SHA256 Credent"; rq_sha256 := ""; rq_ctype := ""; rq_copysrc := "" |}.
Definition ex_get : request :=
  {| rq_method := "GET"; rq_bucket := "b2"; rq_object := "o"; rq_query := [];
     rq_authz := None; rq_sha256 := ""; rq_ctype := ""; rq_copysrc := "" |}.
Definition ex_claim : claim := {| cl_ak := "AKWR1"; cl_secret := "sk-wr1"; cl_damage := Intact |}.


Lemma wrapper_example :
  trigger ex_put = false /\ route_match ex_put = Some 13%N /\
  (exists id, auth ex_ids ex_put ex_claim ACTION_WRITE = Run (Some id) /\ id_name id = "writer1") /\
  auth ex_ids {| rq_method := "PUT"; rq_bucket := "b2"; rq_object := "o"; rq_query := [];
                 rq_authz := Some "AWS4-HMAC-SHA256 Credent"; rq_sha256 := ""; rq_ctype := ""; rq_copysrc := "" |}
       ex_claim ACTION_WRITE = Reject ErrAccessDenied /\
  trigger ex_get = false /\ route_match ex_get = Some 18%N /\
  (exists id, auth ex_ids ex_get no_claim ACTION_READ = Run (Some id) /\ id_name id = "anonymous") /\
  auth ex_ids ex_get no_claim ACTION_WRITE = Reject ErrAccessDenied /\
  auth ex_ids ex_put {| cl_ak := "AKWR1"; cl_secret := "sk-other"; cl_damage := Intact |} ACTION_WRITE
    = Reject ErrSignatureDoesNotMatch.
Proof.
  repeat split; try (vm_compute; reflexivity);
  eexists; split; vm_compute; reflexivity.
Qed.
