(* Proofs about model/UploadCodec.v (C33; the compression lemmas are reused by C24). *)
From Coq Require Import List Arith NArith Bool String Lia.
From SW Require Import model.UploadCodec.
Import ListNotations.
Local Open Scope N_scope.

(* ---------- lists ---------- *)
Lemma len_app : forall {A} (a b : list A), len (a ++ b) = len a + len b.
Proof. intros. unfold len. rewrite app_length. lia. Qed.

Lemma len_nat : forall {A} (l : list A) n, List.length l = n -> len l = N.of_nat n.
Proof. intros. unfold len. congruence. Qed.

Lemma firstn_app_exact : forall {A} (a b : list A) n, List.length a = n -> firstn n (a ++ b) = a.
Proof. intros A a b n H. subst n. rewrite firstn_app, Nat.sub_diag, firstn_all. simpl. apply app_nil_r. Qed.

Lemma skipn_app_exact : forall {A} (a b : list A) n, List.length a = n -> skipn n (a ++ b) = b.
Proof. intros A a b n H. subst n. rewrite skipn_app, Nat.sub_diag, skipn_all. reflexivity. Qed.

(* ---------- compression.go, any blob type, NO law needed ---------- *)
Section GzFacts.
Context {blob : Type}.
Variable L : gzlib blob.

(* the working tree (ungzipData checks the error of gzip.NewReader) *)
Lemma decompress_no_panic : forall input, decompress_data true L input <> DPanic.
Proof.
  intros input. unfold decompress_data, ungzip_data.
  destruct (is_gzipped_content L input); [destruct (gz_gunzip L input)|]; discriminate.
Qed.

Lemma maybe_decompress_no_panic : forall input, maybe_decompress_data true L input <> MPanic.
Proof.
  intros input. unfold maybe_decompress_data.
  pose proof (decompress_no_panic input) as H.
  destruct (decompress_data true L input); try discriminate. congruence.
Qed.

(* the pinned code panics exactly on the gzip magic followed by an invalid header *)
Lemma decompress_pinned_panic_iff : forall input,
  decompress_data false L input = DPanic <->
  is_gzipped_content L input = true /\ gz_gunzip L input = GzHdrErr.
Proof.
  intros input. unfold decompress_data, ungzip_data.
  destruct (is_gzipped_content L input).
  - destruct (gz_gunzip L input); split; intros H; try discriminate; try (destruct H; discriminate); auto.
  - split; intros H; [discriminate | destruct H; discriminate].
Qed.

Lemma maybe_decompress_not_gz : forall rep input,
  is_gzipped_content L input = false -> maybe_decompress_data rep L input = MVal input.
Proof. intros rep input H. unfold maybe_decompress_data, decompress_data. rewrite H. reflexivity. Qed.

(* laws used by C24 and C33 *)
Hypothesis law_gunzip_gzip : forall x, gz_gunzip L (gz_gzip L x) = GzOk x.
Hypothesis law_gzip_magic : forall x, is_gzipped_content L (gz_gzip L x) = true.

Lemma decompress_gzip : forall rep x, decompress_data rep L (gz_gzip L x) = DOk x.
Proof. intros. unfold decompress_data, ungzip_data. rewrite law_gzip_magic, law_gunzip_gzip. reflexivity. Qed.

(* MaybeDecompressData (MaybeGzipData x) = x whenever x itself does not carry the gzip magic *)
Lemma maybe_decompress_maybe_gzip : forall rep x,
  is_gzipped_content L x = false ->
  maybe_decompress_data rep L (maybe_gzip_data L x) = MVal x.
Proof.
  intros rep x H. unfold maybe_gzip_data. rewrite H.
  destruct (gz_len L x * 9 <? gz_len L (gz_gzip L x) * 10).
  - apply maybe_decompress_not_gz; assumption.
  - unfold maybe_decompress_data. rewrite decompress_gzip. reflexivity.
Qed.
End GzFacts.

(* ---------- oracle laws ---------- *)
Record laws (O : oracle) : Prop := {
  law_gunzip_gzip_b : forall x, o_gunzip O (o_gzip O x) = GzOk x;
  law_gzip_magic_b : forall x, head2 (o_gzip O x) = Some (31, 139);
  law_open_seal : forall k n x, o_open O k n (o_seal O k n x) = Some x }.

Lemma glib_magic : forall O, laws O -> forall x, is_gzipped_content (glib O) (o_gzip O x) = true.
Proof. intros O HL x. unfold is_gzipped_content. simpl. rewrite (law_gzip_magic_b O HL). reflexivity. Qed.

(* the bytes the caller means: the data itself, or (isInputCompressed) its gunzip *)
Definition clear_of (O : oracle) (u : upload_in) : option bytes :=
  if u_ic u then
    if is_gzipped_content (glib O) (u_data u) then
      match o_gunzip O (u_data u) with GzOk x => Some x | _ => None end
    else Some (u_data u)
  else Some (u_data u).

Lemma decrypt_encrypt : forall O, laws O -> forall k n x, List.length n = 12%nat ->
  decrypt O k (encrypt O k n x) = Some x.
Proof.
  intros O HL k n x Hn. unfold decrypt, encrypt.
  rewrite len_app, (len_nat n 12 Hn).
  replace (N.of_nat 12 + len (o_seal O k n x) <? 12) with false by (symmetry; apply N.ltb_ge; lia).
  rewrite (firstn_app_exact n _ 12 Hn), (skipn_app_exact n _ 12 Hn).
  apply (law_open_seal O HL).
Qed.

Lemma slice_min : forall (b : bytes) off size, off + size <= len b ->
  slice off (N.min (off + size) (len b) - off) b = slice off size b.
Proof. intros b off size H. rewrite N.min_l by assumption. replace (off + size - off) with size by lia. reflexivity. Qed.

(* what the client sends / records, by case *)
Lemma upload_cipher : forall O u, u_cipher u = true ->
  exists clear clen,
    upload O u = ({| w_body := encrypt O (u_key u) (u_nonce u) clear; w_ce_gzip := false; w_filename := ""%string |},
                  {| r_size := clen; r_gzip := false; r_key := Some (u_key u); r_mime := effective_mime O u |}) /\
    (forall c, clear_of O u = Some c -> clear = c /\ clen = len c).
Proof.
  intros O u Hc. unfold upload. rewrite Hc, andb_false_r.
  unfold clear_of. destruct (u_ic u).
  - unfold decompress_data, ungzip_data.
    destruct (is_gzipped_content (glib O) (u_data u)).
    + simpl gz_gunzip. destruct (o_gunzip O (u_data u)); eexists; eexists; (split; [reflexivity|]); intros c H; inversion H; auto.
    + eexists; eexists; split; [reflexivity|]. intros c H; inversion H; auto.
  - eexists; eexists; split; [reflexivity|]. intros c H; inversion H; auto.
Qed.

Theorem roundtrip : forall O, laws O -> forall u clear,
  List.length (u_nonce u) = 12%nat -> clear_of O u = Some clear ->
  let w := fst (upload O u) in let r := snd (upload O u) in
  r_size r = len clear /\
  (forall off size, off + size <= len clear ->
     fetch O (server_store w) (r_key r) (r_gzip r) true off size = FOk clear) /\
  (forall off size, 0 < size -> off + size <= len clear ->
     fetch O (server_store w) (r_key r) (r_gzip r) false off size = FOk (slice off size clear)).
Proof.
  intros O HL u clear Hn Hclear. cbv zeta.
  destruct (u_cipher u) eqn:Hc.
  - (* encrypted *)
    destruct (upload_cipher O u Hc) as [cl [clen [Hup Hcl]]].
    destruct (Hcl clear Hclear) as [-> ->]. rewrite Hup. simpl fst. simpl snd.
    split; [reflexivity|].
    assert (Hget : forall off size full, off + size <= len clear ->
              fetch O (server_store {| w_body := encrypt O (u_key u) (u_nonce u) clear; w_ce_gzip := false; w_filename := ""%string |})
                    (Some (u_key u)) false full off size = if full then FOk clear else FOk (slice off size clear)).
    { intros off size full Hle. unfold fetch, fetch_gen, server_store, server_get, http_get_all, read_body. simpl.
      rewrite (decrypt_encrypt O HL _ _ _ Hn).
      replace (len clear <? off + size) with false by (symmetry; apply N.ltb_ge; lia).
      reflexivity. }
    split; intros off size; intros; [apply (Hget off size true) | apply (Hget off size false)]; assumption.
  - (* not encrypted *)
    unfold upload. rewrite Hc. simpl negb. rewrite andb_true_r.
    unfold clear_of in Hclear.
    destruct (u_ic u) eqn:Hic.
    + (* caller says the data is gzip already *)
      assert (Hsg : should_gzip_now O u = false) by (unfold should_gzip_now; rewrite Hic; reflexivity).
      rewrite Hsg. simpl fst. simpl snd.
      unfold decompress_data, ungzip_data.
      destruct (is_gzipped_content (glib O) (u_data u)) eqn:Hmag.
      * simpl gz_gunzip. destruct (o_gunzip O (u_data u)) eqn:Hgun; try discriminate.
        inversion Hclear; subst out. simpl.
        split; [reflexivity|]. split; intros off size; intros.
        -- unfold fetch, fetch_gen, server_store, server_get, read_body. simpl. rewrite Hmag. simpl. rewrite Hgun. reflexivity.
        -- unfold fetch, fetch_gen, server_store, server_get, read_body, decompress_ignore_err, decompress_data, ungzip_data. simpl.
           rewrite Hmag. simpl. rewrite Hgun.
           replace (size =? 0) with false by (symmetry; apply N.eqb_neq; lia).
           replace (len clear <? off) with false by (symmetry; apply N.ltb_ge; lia).
           simpl. rewrite slice_min by assumption. reflexivity.
      * inversion Hclear; subst clear. simpl.
        split; [reflexivity|]. split; intros off size; intros.
        -- unfold fetch, fetch_gen, server_store, server_get, read_body, decompress_ignore_err, decompress_data. simpl.
           rewrite Hmag. simpl. reflexivity.
        -- unfold fetch, fetch_gen, server_store, server_get, read_body, decompress_ignore_err, decompress_data. simpl.
           rewrite Hmag. simpl.
           replace (size =? 0) with false by (symmetry; apply N.eqb_neq; lia).
           replace (len (u_data u) <? off) with false by (symmetry; apply N.ltb_ge; lia).
           simpl. rewrite slice_min by assumption. reflexivity.
    + inversion Hclear; subst clear.
      destruct (should_gzip_now O u) eqn:Hsg; simpl.
      * (* gzipped by the client *)
        split; [reflexivity|]. split; intros off size; intros.
        -- unfold fetch, fetch_gen, server_store, server_get, read_body. simpl.
           rewrite (glib_magic O HL). simpl. rewrite (law_gunzip_gzip_b O HL). reflexivity.
        -- unfold fetch, fetch_gen, server_store, server_get, read_body, decompress_ignore_err, decompress_data, ungzip_data. simpl.
           rewrite (glib_magic O HL). simpl. rewrite (law_gunzip_gzip_b O HL).
           replace (size =? 0) with false by (symmetry; apply N.eqb_neq; lia).
           replace (len (u_data u) <? off) with false by (symmetry; apply N.ltb_ge; lia).
           simpl. rewrite slice_min by assumption. reflexivity.
      * (* sent as is *)
        split; [reflexivity|]. split; intros off size; intros.
        -- unfold fetch, fetch_gen, server_store, server_get, read_body. simpl. reflexivity.
        -- unfold fetch, fetch_gen, server_store, server_get, read_body. simpl.
           replace (size =? 0) with false by (symmetry; apply N.eqb_neq; lia).
           replace (len (u_data u) <? off) with false by (symmetry; apply N.ltb_ge; lia).
           simpl. rewrite slice_min by assumption. reflexivity.
Qed.

(* ---------- the download path never panics (working tree), for ANY oracle ---------- *)
Lemma read_body_no_panic : forall O r, read_body true O r <> FPanic.
Proof.
  intros O r. unfold read_body.
  destruct (rs_ce_gzip r); [destruct (o_gunzip O (rs_body r))|]; discriminate.
Qed.

Theorem fetch_no_panic : forall O n key gz full off size, fetch O n key gz full off size <> FPanic.
Proof.
  intros O n key gz full off size. unfold fetch, fetch_gen.
  destruct key as [k|].
  - unfold http_get_all.
    pose proof (read_body_no_panic O (server_get O n {| g_accept_gzip := true; g_range := None |})) as H.
    destruct (read_body true O (server_get O n {| g_accept_gzip := true; g_range := None |})) as [b| |]; try congruence.
    destruct (400 <=? rs_status _); [discriminate|].
    destruct (decrypt O k b); [|discriminate].
    destruct (len _ <? off + size); [discriminate|]. destruct full; discriminate.
  - destruct (400 <=? rs_status _); [discriminate | apply read_body_no_panic].
Qed.

(* the PINNED download path dereferenced a nil gzip reader exactly here *)
Theorem pinned_fetch_panic_iff : forall O n key gz full off size,
  fetch_gen false O n key gz full off size = FPanic <-> pinned_fetch_panic O n key full = true.
Proof.
  intros O n key gz full off size. unfold pinned_fetch_panic, fetch_gen.
  destruct key as [k|].
  - unfold http_get_all, read_body, server_get. simpl.
    destruct (n_compressed n); simpl.
    + destruct (is_gzipped_content (glib O) (n_data n)); simpl.
      * destruct (o_gunzip O (n_data n)); simpl.
        -- destruct (decrypt O k out); [destruct (len _ <? off + size); [|destruct full]|]; split; intro H; discriminate.
        -- split; intro H; discriminate.
        -- split; intro H; reflexivity.
      * destruct (decrypt O k _); [destruct (len _ <? off + size); [|destruct full]|]; split; intro H; discriminate.
    + destruct (decrypt O k _); [destruct (len _ <? off + size); [|destruct full]|]; split; intro H; discriminate.
  - unfold read_body, server_get.
    destruct full; simpl.
    + destruct (n_compressed n); simpl.
      * destruct (is_gzipped_content (glib O) (n_data n)); simpl.
        -- destruct (o_gunzip O (n_data n)); simpl; split; intro H; try discriminate; reflexivity.
        -- split; intro H; discriminate.
      * split; intro H; discriminate.
    + rewrite andb_false_r.
      destruct (n_compressed n); simpl;
        destruct ((size =? 0) || (len _ <? off)); simpl; split; intro H; discriminate.
Qed.

(* ---------- a concrete oracle that satisfies the laws (non-vacuity, witnesses) ---------- *)
Definition toy : oracle :=
  {| o_gzip := fun x => 31 :: 139 :: 8 :: x;
     o_gunzip := fun b => match b with
                          | 31 :: 139 :: 8 :: x => GzOk x
                          | _ => GzHdrErr
                          end;
     o_detect := fun d => match d with
                          | 104 :: _ => "text/plain; charset=utf-8"%string
                          | _ => "application/octet-stream"%string
                          end;
     o_seal := fun _ _ x => 7 :: x;
     o_open := fun _ _ c => match c with 7 :: x => Some x | _ => None end |}.

Lemma toy_laws : laws toy.
Proof. constructor; intros; reflexivity. Qed.

Definition junk_upload : upload_in :=
  {| u_name := "junk"%string; u_cipher := false; u_data := [31; 139; 0; 1; 2]; u_ic := true;
     u_mime := ""%string; u_key := []; u_nonce := [] |}.

(* the former witness: the pinned download path panics on it, the working tree returns an error *)
Theorem pinned_fetch_after_upload_panics : exists O u, laws O /\
  fetch_gen false O (server_store (fst (upload O u))) (r_key (snd (upload O u))) (r_gzip (snd (upload O u))) true 0 5 = FPanic /\
  fetch O (server_store (fst (upload O u))) (r_key (snd (upload O u))) (r_gzip (snd (upload O u))) true 0 5 = FErr.
Proof. exists toy, junk_upload. split; [exact toy_laws | vm_compute; split; reflexivity]. Qed.

Theorem pinned_decompress_panics : exists (L : gzlib bytes) input, decompress_data false L input = DPanic.
Proof. exists (glib toy), [31; 139]. vm_compute. reflexivity. Qed.
