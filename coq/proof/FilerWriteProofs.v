(* Proofs about model/FilerWrite.v (C25). *)
From Coq Require Import List NArith ZArith Bool Lia Arith.
From Coq Require Import ZifyBool ZifyN ZifyNat.
From SW Require Import model.FilerWrite.
Import ListNotations.
Ltac Zify.zify_post_hook ::= Z.div_mod_to_equations.

Arguments N.add : simpl never.
Arguments N.of_nat : simpl never.
Arguments Z.of_nat : simpl never.
Arguments Z.of_N : simpl never.
Arguments Z.to_nat : simpl never.
Arguments Z.mul : simpl never.
Arguments Z.div : simpl never.

(* ---------- lists ---------- *)

Lemma firstn_plus : forall {A} a b (l : list A),
  firstn (a + b) l = firstn a l ++ firstn b (skipn a l).
Proof.
  induction a as [|a IH]; intros b l; [reflexivity|].
  destruct l as [|x l]; simpl.
  - rewrite firstn_nil. reflexivity.
  - f_equal. apply IH.
Qed.

Lemma skipn_plus : forall {A} a b (l : list A), skipn (a + b) l = skipn b (skipn a l).
Proof.
  induction a as [|a IH]; intros b l; [reflexivity|].
  destruct l as [|x l]; simpl.
  - rewrite skipn_nil. reflexivity.
  - apply IH.
Qed.

Lemma firstn_app_exact : forall {A} (a b : list A) n, length a = n -> firstn n (a ++ b) = a.
Proof.
  intros A a b n H. subst n. rewrite firstn_app, Nat.sub_diag, firstn_all. simpl. apply app_nil_r.
Qed.

Lemma skipn_app_exact : forall {A} (a b : list A) n, length a = n -> skipn n (a ++ b) = b.
Proof.
  intros A a b n H. subst n. rewrite skipn_app, Nat.sub_diag, skipn_all. reflexivity.
Qed.

(* ---------- contiguous chunks ---------- *)

(* [tiles off cks data]: the chunks lie back to back from [off] and hold [data] *)
Inductive tiles : N -> list chunk -> list N -> Prop :=
| tiles_nil : forall off, tiles off [] []
| tiles_cons : forall off d cks rest,
    tiles (off + N.of_nat (length d)) cks rest ->
    tiles off (Ck off (N.of_nat (length d)) d :: cks) (d ++ rest).

Lemma tiles_length_wf : forall off cks data, tiles off cks data ->
  Forall (fun c => ck_size c = N.of_nat (length (ck_data c))) cks.
Proof. induction 1; constructor; auto. Qed.

Lemma tiles_shift : forall off cks data s, tiles off cks data ->
  tiles (off + s) (map (shift_chunk s) cks) data.
Proof.
  induction 1 as [|off d cks rest H IH]; simpl; [constructor|].
  unfold shift_chunk at 1; simpl. constructor.
  replace (off + s + N.of_nat (length d))%N with (off + N.of_nat (length d) + s)%N by lia.
  exact IH.
Qed.

(* ---------- extent ---------- *)

Lemma fold_extent : forall cks m,
  fold_left (fun m c => N.max m (ck_off c + ck_size c)) cks m = N.max m (extent cks).
Proof.
  unfold extent. induction cks as [|c cks IH]; intros m; simpl; [lia|].
  rewrite IH. rewrite (IH (N.max 0 _)). lia.
Qed.

Lemma extent_cons : forall c cks, extent (c :: cks) = N.max (ck_off c + ck_size c) (extent cks).
Proof. intros. unfold extent at 1. simpl. rewrite fold_extent. lia. Qed.

Lemma extent_app : forall a b, extent (a ++ b) = N.max (extent a) (extent b).
Proof.
  induction a as [|c a IH]; intros b; simpl.
  - unfold extent at 2. simpl. lia.
  - rewrite !extent_cons, IH. lia.
Qed.

Lemma extent_in : forall c cks, In c cks -> (ck_off c + ck_size c <= extent cks)%N.
Proof.
  induction cks as [|x cks IH]; intros H; [contradiction|].
  rewrite extent_cons. destruct H as [->|H]; [lia|]. apply IH in H. lia.
Qed.

Lemma tiles_extent : forall off cks data, tiles off cks data ->
  (extent cks <= off + N.of_nat (length data))%N.
Proof.
  induction 1 as [|off d cks rest H IH].
  - unfold extent. simpl. lia.
  - rewrite extent_cons, app_length. simpl. lia.
Qed.

(* ---------- painting ---------- *)

Lemma paint_length : forall buf c,
  (N.to_nat (ck_off c) + length (ck_data c) <= length buf)%nat ->
  length (paint buf c) = length buf.
Proof.
  intros buf c H. unfold paint. rewrite !app_length, firstn_length, skipn_length. lia.
Qed.

Lemma paint_app_tail : forall buf tail c,
  (N.to_nat (ck_off c) + length (ck_data c) <= length buf)%nat ->
  paint (buf ++ tail) c = paint buf c ++ tail.
Proof.
  intros buf tail c H. unfold paint.
  rewrite firstn_app, skipn_app.
  replace (N.to_nat (ck_off c) - length buf)%nat with 0%nat by lia.
  replace (N.to_nat (ck_off c) + length (ck_data c) - length buf)%nat with 0%nat by lia.
  simpl. rewrite app_nil_r, <- !app_assoc. reflexivity.
Qed.

Definition within (n : nat) (c : chunk) : Prop :=
  (N.to_nat (ck_off c) + length (ck_data c) <= n)%nat.

Lemma fold_paint_length : forall cks buf, Forall (within (length buf)) cks ->
  length (fold_left paint cks buf) = length buf.
Proof.
  induction cks as [|c cks IH]; intros buf H; simpl; [reflexivity|].
  inversion H as [|? ? Hc Hr]; subst.
  rewrite IH; rewrite paint_length; auto.
Qed.

Lemma fold_paint_app_tail : forall cks buf tail, Forall (within (length buf)) cks ->
  fold_left paint cks (buf ++ tail) = fold_left paint cks buf ++ tail.
Proof.
  induction cks as [|c cks IH]; intros buf tail H; simpl; [reflexivity|].
  inversion H as [|? ? Hc Hr]; subst.
  rewrite paint_app_tail by exact Hc. apply IH. rewrite paint_length; auto.
Qed.

Lemma paint_tiles : forall off cks data, tiles off cks data -> forall buf,
  (N.to_nat off + length data <= length buf)%nat ->
  fold_left paint cks buf =
  firstn (N.to_nat off) buf ++ data ++ skipn (N.to_nat off + length data) buf.
Proof.
  induction 1 as [off|off d cks rest H IH]; intros buf Hb.
  - simpl. rewrite Nat.add_0_r. symmetry. apply firstn_skipn.
  - rewrite app_length in Hb. simpl fold_left.
    set (o := N.to_nat off) in *.
    assert (Hp : paint buf (Ck off (N.of_nat (length d)) d) =
                 firstn o buf ++ d ++ skipn (o + length d) buf) by reflexivity.
    rewrite Hp.
    assert (Hl : length (firstn o buf) = o) by (rewrite firstn_length; lia).
    rewrite IH.
    2:{ rewrite !app_length, Hl, skipn_length. lia. }
    replace (N.to_nat (off + N.of_nat (length d))) with (o + length d)%nat by lia.
    rewrite (app_assoc (firstn o buf) d).
    rewrite firstn_app_exact by (rewrite app_length; lia).
    rewrite skipn_plus.
    rewrite skipn_app_exact by (rewrite app_length; lia).
    rewrite <- skipn_plus.
    rewrite app_length, <- !app_assoc.
    replace (o + length d + length rest)%nat with (o + (length d + length rest))%nat by lia.
    reflexivity.
Qed.


(* ---------- the upload loop ---------- *)

Definition no_upfail (l : list bool) : Prop := forallb negb l = true.

Lemma no_upfail_hd : forall l, no_upfail l -> hd false l = false.
Proof. destruct l as [|b l]; simpl; auto. unfold no_upfail. simpl. destruct b; simpl; auto; discriminate. Qed.

Lemma no_upfail_tl : forall l, no_upfail l -> no_upfail (tl l).
Proof. destruct l as [|b l]; simpl; auto. unfold no_upfail. simpl. intros H. apply andb_true_iff in H. tauto. Qed.

Lemma upload_loop_S : forall fuel cs limit inl etc bytes e upfail off acc uerr hashed,
  upload_loop (S fuel) cs limit inl etc bytes e upfail off acc uerr hashed =
    let '(d, rest, rerr) := read_chunk cs bytes e in
    let dsz := N.of_nat (length d) in
    let hashed' := (hashed + dsz)%N in
    if rerr || (dsz =? 0)%N then UR acc off uerr rerr [] hashed'
    else if (off =? 0)%N && inl && (Z.of_N dsz <? cs)%Z && ((Z.of_N dsz <? limit)%Z || etc)
    then UR acc (off + dsz)%N uerr false d hashed'
    else
      let failed := hd false upfail in
      let acc' := if failed then acc else acc ++ [Ck off dsz d] in
      let uerr' := uerr || failed in
      let off' := (off + dsz)%N in
      if (Z.of_N dsz <? cs)%Z then UR acc' off' uerr' false [] hashed'
      else upload_loop fuel cs limit inl etc rest e (tl upfail) off' acc' uerr' hashed'.
Proof. reflexivity. Qed.

Lemma read_chunk_pos : forall cs bytes e, (0 < cs)%Z ->
  read_chunk cs bytes e =
    (firstn (Z.to_nat cs) bytes, skipn (Z.to_nat cs) bytes,
     match e with
     | Eof => false
     | ReadErr => Nat.ltb (length bytes) (Z.to_nat cs)
     | ReadErrData => Nat.leb (length bytes) (Z.to_nat cs)
     end).
Proof. intros. unfold read_chunk. destruct (cs <=? 0)%Z eqn:E; [lia|reflexivity]. Qed.

(* the first read is inlined: it is shorter than a chunk and (below the limit or under /etc) *)
Definition inline_cond (cs limit : Z) (etc : bool) (len : nat) : bool :=
  let dsz := Z.of_nat (Nat.min (Z.to_nat cs) len) in
  (dsz <? cs)%Z && ((dsz <? limit)%Z || etc).

(* No inlining, no upload failure, EOF body: the loop stores the whole body as
   back-to-back chunks. *)
Lemma loop_spec : forall fuel cs limit inl etc bytes upfail off acc hashed,
  (0 < cs)%Z ->
  (Z.of_nat (length bytes) < cs * Z.of_nat fuel)%Z ->
  (off <> 0%N \/ inl = false \/ inline_cond cs limit etc (length bytes) = false) ->
  no_upfail upfail ->
  exists new,
    upload_loop fuel cs limit inl etc bytes Eof upfail off acc false hashed
      = UR (acc ++ new) (off + N.of_nat (length bytes)) false false []
           (hashed + N.of_nat (length bytes)) /\
    tiles off new bytes.
Proof.
  induction fuel as [|fuel IH]; intros cs limit inl etc bytes upfail off acc hashed Hcs Hfuel Hinl Hup.
  - exfalso. lia.
  - rewrite upload_loop_S, read_chunk_pos by exact Hcs.
    set (n0 := Z.to_nat cs) in *.
    set (d := firstn n0 bytes).
    assert (Hd : length d = Nat.min n0 (length bytes)) by apply firstn_length.
    cbv zeta. rewrite orb_false_l.
    destruct (N.of_nat (length d) =? 0)%N eqn:Hstop.
    { (* break: the body is exhausted *)
      assert (Hlen : length bytes = 0%nat) by lia.
      exists []. rewrite app_nil_r, Hlen. split; [f_equal; lia|].
      destruct bytes; [constructor|discriminate]. }
    destruct ((off =? 0)%N && inl && (Z.of_N (N.of_nat (length d)) <? cs)%Z &&
              ((Z.of_N (N.of_nat (length d)) <? limit)%Z || etc)) eqn:Hinline.
    { exfalso. rewrite Hd in Hinline. destruct Hinl as [H|[H|H]].
      - destruct (off =? 0)%N eqn:E; [lia|]. discriminate.
      - subst inl. rewrite andb_false_r in Hinline. discriminate.
      - unfold inline_cond in H. fold n0 in H. rewrite nat_N_Z in Hinline.
        rewrite <- andb_assoc in Hinline. rewrite H in Hinline.
        rewrite andb_false_r in Hinline. discriminate. }
    rewrite (no_upfail_hd _ Hup). cbv iota. rewrite orb_false_r.
    destruct (Z.of_N (N.of_nat (length d)) <? cs)%Z eqn:Hshort.
    { (* last, short chunk *)
      assert (Hall : d = bytes) by (subst d; apply firstn_all2; lia).
      exists [Ck off (N.of_nat (length d)) d].
      split; [rewrite Hall; reflexivity|].
      pose proof (tiles_cons off d [] [] (tiles_nil _)) as Ht.
      rewrite app_nil_r in Ht. rewrite Hall in Ht at 3. exact Ht. }
    (* a full chunk, continue *)
    assert (Hfull : length d = n0) by lia.
    destruct (IH cs limit inl etc (skipn n0 bytes) (tl upfail)
                 (off + N.of_nat (length d))%N (acc ++ [Ck off (N.of_nat (length d)) d])
                 (hashed + N.of_nat (length d))%N Hcs) as (new & Heq & Ht).
    { rewrite skipn_length. lia. }
    { left. lia. }
    { apply no_upfail_tl, Hup. }
    rewrite skipn_length in Heq.
    exists (Ck off (N.of_nat (length d)) d :: new).
    split. { rewrite Heq. rewrite <- app_assoc. simpl. f_equal; lia. }
    rewrite <- (firstn_skipn n0 bytes). fold d. constructor. exact Ht.
Qed.

Lemma fuel_ok : forall cs len, (0 < cs)%Z ->
  (Z.of_nat len < cs * Z.of_nat (fuel_for cs (N.of_nat len)))%Z.
Proof.
  intros cs len Hcs. unfold fuel_for.
  rewrite Nat2Z.inj_succ, Z2Nat.id by (apply Z.div_pos; lia).
  rewrite nat_N_Z.
  pose proof (Z.div_mod (Z.of_nat len) cs ltac:(lia)) as H1.
  pose proof (Z.mod_pos_bound (Z.of_nat len) cs Hcs) as H2.
  nia.
Qed.

Lemma fuel_for_S : forall cs len, exists f, fuel_for cs len = S f.
Proof. intros. eexists. reflexivity. Qed.

(* once an upload has failed the result is an error *)
Lemma loop_err_sticky : forall fuel cs limit inl etc bytes e upfail off acc hashed,
  ur_err (upload_loop fuel cs limit inl etc bytes e upfail off acc true hashed) = true.
Proof.
  induction fuel as [|fuel IH]; intros; [reflexivity|].
  rewrite upload_loop_S. destruct (read_chunk cs bytes e) as [[d rest] rerr]. cbv zeta.
  destruct (rerr || _); [reflexivity|].
  destruct (_ && _ && _ && _); [reflexivity|].
  simpl orb. destruct (Z.of_N (N.of_nat (length d)) <? cs)%Z; [reflexivity|]. apply IH.
Qed.

(* chunk j fails and chunk j is reached: the upload as a whole fails *)
Lemma loop_err_detected : forall fuel cs limit inl etc bytes upfail off acc uerr hashed j,
  (0 < cs)%Z ->
  (Z.of_nat (length bytes) < cs * Z.of_nat fuel)%Z ->
  (off <> 0%N \/ inl = false \/ inline_cond cs limit etc (length bytes) = false) ->
  nth j upfail false = true ->
  (Z.of_nat j * cs < Z.of_nat (length bytes))%Z ->
  ur_err (upload_loop fuel cs limit inl etc bytes Eof upfail off acc uerr hashed) = true.
Proof.
  induction fuel as [|fuel IH]; intros cs limit inl etc bytes upfail off acc uerr hashed j
    Hcs Hfuel Hinl Hj Hlen.
  - exfalso. lia.
  - rewrite upload_loop_S, read_chunk_pos by exact Hcs.
    set (n0 := Z.to_nat cs) in *.
    set (d := firstn n0 bytes).
    assert (Hd : length d = Nat.min n0 (length bytes)) by apply firstn_length.
    cbv zeta. rewrite orb_false_l.
    destruct (N.of_nat (length d) =? 0)%N eqn:Hz; [exfalso; lia|].
    destruct ((off =? 0)%N && inl && (Z.of_N (N.of_nat (length d)) <? cs)%Z &&
              ((Z.of_N (N.of_nat (length d)) <? limit)%Z || etc)) eqn:Hinline.
    { exfalso. rewrite Hd in Hinline. destruct Hinl as [H|[H|H]].
      - destruct (off =? 0)%N eqn:E; [lia|]. discriminate.
      - subst inl. rewrite andb_false_r in Hinline. discriminate.
      - unfold inline_cond in H. fold n0 in H. rewrite nat_N_Z in Hinline.
        rewrite <- andb_assoc in Hinline. rewrite H in Hinline.
        rewrite andb_false_r in Hinline. discriminate. }
    destruct j as [|j].
    + destruct upfail as [|b upfail]; simpl in Hj; [discriminate|]. subst b. simpl hd.
      rewrite orb_true_r.
      destruct (Z.of_N (N.of_nat (length d)) <? cs)%Z; [reflexivity|]. apply loop_err_sticky.
    + destruct upfail as [|b upfail]; simpl in Hj; [discriminate|].
      destruct (Z.of_N (N.of_nat (length d)) <? cs)%Z eqn:Hshort; [exfalso; lia|].
      simpl tl. apply (IH _ _ _ _ _ _ _ _ _ _ j); auto.
      * rewrite skipn_length. lia.
      * left. lia.
      * rewrite skipn_length. lia.
Qed.

(* a failing body reader is always noticed (whatever the uploads do, inlining or not) *)
Lemma loop_rerr : forall fuel cs limit inl etc bytes e upfail off acc uerr hashed,
  (0 < cs)%Z ->
  (Z.of_nat (length bytes) < cs * Z.of_nat fuel)%Z ->
  is_err e = true ->
  ur_rerr (upload_loop fuel cs limit inl etc bytes e upfail off acc uerr hashed) = true.
Proof.
  induction fuel as [|fuel IH]; intros cs limit inl etc bytes e upfail off acc uerr hashed
    Hcs Hfuel He.
  - exfalso. lia.
  - rewrite upload_loop_S, read_chunk_pos by exact Hcs.
    set (n0 := Z.to_nat cs) in *.
    set (d := firstn n0 bytes).
    assert (Hd : length d = Nat.min n0 (length bytes)) by apply firstn_length.
    cbv zeta.
    set (rerr := match e with Eof => false | ReadErr => Nat.ltb (length bytes) n0
                            | ReadErrData => Nat.leb (length bytes) n0 end).
    destruct rerr eqn:Hr.
    { reflexivity. }
    (* no error in this read: a full chunk was read and more follows *)
    assert (Hge : (n0 <= length bytes)%nat).
    { subst rerr. destruct e; simpl in He; try discriminate.
      - apply Nat.ltb_ge in Hr. lia.
      - apply Nat.leb_gt in Hr. lia. }
    rewrite orb_false_l.
    destruct (N.of_nat (length d) =? 0)%N eqn:Hz; [exfalso; lia|].
    replace (Z.of_N (N.of_nat (length d)) <? cs)%Z with false by lia.
    rewrite andb_false_r. simpl andb. cbv iota.
    apply IH; auto. rewrite skipn_length. lia.
Qed.

Lemma finish_err : forall r, ur_err (finish r) = ur_err r.
Proof. intros r. unfold finish. destruct (ur_failed r); reflexivity. Qed.

Lemma finish_rerr : forall r, ur_rerr (finish r) = ur_rerr r.
Proof. intros r. unfold finish. destruct (ur_failed r); reflexivity. Qed.

Lemma finish_failed : forall r, ur_failed (finish r) = ur_failed r.
Proof. intros r. unfold ur_failed. rewrite finish_err, finish_rerr. reflexivity. Qed.

(* ---------- the whole upload, EOF body ---------- *)

Lemma upload_no_inline : forall cs limit inl etc bytes upfail,
  (1 <= cs)%Z -> no_upfail upfail ->
  inl = false \/ inline_cond cs limit etc (length bytes) = false ->
  exists new,
    upload_reader_to_chunks cs limit inl etc bytes Eof upfail
      = UR new (N.of_nat (length bytes)) false false [] (N.of_nat (length bytes)) /\
    tiles 0 new bytes.
Proof.
  intros cs limit inl etc bytes upfail Hcs Hup Hinl.
  unfold upload_reader_to_chunks.
  assert (Hc0 : (0 < cs)%Z) by lia.
  pose proof (fuel_ok cs (length bytes) Hc0) as Hf.
  assert (Hi : 0%N <> 0%N \/ inl = false \/ inline_cond cs limit etc (length bytes) = false)
    by (destruct Hinl; auto).
  destruct (loop_spec _ cs limit inl etc bytes upfail 0%N [] 0%N Hc0 Hf Hi Hup) as (new & Heq & Ht).
  exists new. rewrite Heq. unfold finish, ur_failed. simpl.
  split; [f_equal; lia|exact Ht].
Qed.

(* first read inlined: it is the whole body *)
Lemma upload_inline : forall cs limit etc bytes upfail,
  (1 <= cs)%Z -> bytes <> [] ->
  inline_cond cs limit etc (length bytes) = true ->
  upload_reader_to_chunks cs limit true etc bytes Eof upfail
    = UR [] (N.of_nat (length bytes)) false false bytes (N.of_nat (length bytes)).
Proof.
  intros cs limit etc bytes upfail Hcs Hne Hcond.
  unfold upload_reader_to_chunks.
  destruct (fuel_for_S cs (N.of_nat (length bytes))) as [f ->].
  rewrite upload_loop_S, read_chunk_pos by lia.
  assert (Hpos : (0 < length bytes)%nat) by (destruct bytes; [congruence|simpl; lia]).
  unfold inline_cond in Hcond. cbv zeta in Hcond.
  apply andb_true_iff in Hcond. destruct Hcond as [Hlt Hlim].
  assert (Hlen : (length bytes < Z.to_nat cs)%nat) by lia.
  rewrite Nat.min_r in Hlim by lia.
  rewrite firstn_all2 by lia. cbv zeta. rewrite orb_false_l.
  destruct (N.of_nat (length bytes) =? 0)%N eqn:Hz; [exfalso; lia|].
  rewrite nat_N_Z, Hlim.
  replace (Z.of_nat (length bytes) <? cs)%Z with true by lia.
  simpl. unfold finish, ur_failed. simpl. f_equal; lia.
Qed.

Lemma upload_empty : forall cs limit inl etc upfail,
  upload_reader_to_chunks cs limit inl etc [] Eof upfail = UR [] 0 false false [] 0.
Proof.
  intros. unfold upload_reader_to_chunks.
  destruct (fuel_for_S cs (N.of_nat (@length N []))) as [f ->].
  rewrite upload_loop_S. unfold read_chunk. destruct (cs <=? 0)%Z; [reflexivity|].
  rewrite firstn_nil. reflexivity.
Qed.

(* ---------- reading stored entries ---------- *)

Definition wf_entry (e : entry) : Prop :=
  Forall (fun c => ck_size c = N.of_nat (length (ck_data c))) (e_chunks e).

Lemma read_tiles : forall cks data m, tiles 0 cks data ->
  read_entry {| e_size := N.of_nat (length data); e_content := []; e_chunks := cks; e_md5 := m |} = data.
Proof.
  intros cks data m Ht. unfold read_entry, file_end. simpl.
  pose proof (tiles_extent _ _ _ Ht) as He.
  replace (N.max (N.of_nat (length data)) (extent cks)) with (N.of_nat (length data)) by lia.
  rewrite Nat2N.id.
  rewrite (paint_tiles _ _ _ Ht) by (rewrite repeat_length; simpl; lia).
  simpl. rewrite skipn_all2 by (rewrite repeat_length; lia). apply app_nil_r.
Qed.

Lemma entry_size_chunked : forall e, e_content e = [] -> entry_size e = file_end e.
Proof. intros e H. unfold entry_size, file_end. rewrite H. simpl. lia. Qed.

Lemma read_append : forall e0 new data,
  e_content e0 = [] -> wf_entry e0 ->
  tiles (file_end e0) new data ->
  read_entry {| e_size := file_end e0 + N.of_nat (length data); e_content := [];
                e_chunks := e_chunks e0 ++ new; e_md5 := None |}
  = read_entry e0 ++ data.
Proof.
  intros e0 new data Hc Hwf Ht.
  unfold read_entry. rewrite Hc. simpl.
  pose proof (tiles_extent _ _ _ Ht) as He.
  assert (Hext : (extent (e_chunks e0) <= file_end e0)%N) by (unfold file_end; lia).
  unfold file_end at 1. simpl. rewrite extent_app.
  replace (N.max (file_end e0 + N.of_nat (length data)) (N.max (extent (e_chunks e0)) (extent new)))
    with (file_end e0 + N.of_nat (length data))%N by lia.
  replace (N.to_nat (file_end e0 + N.of_nat (length data)))
    with (N.to_nat (file_end e0) + length data)%nat by lia.
  rewrite repeat_app, fold_left_app.
  set (s := N.to_nat (file_end e0)).
  assert (Hin : Forall (within (length (repeat 0%N s))) (e_chunks e0)).
  { rewrite repeat_length. apply Forall_forall. intros c Hc0.
    unfold wf_entry in Hwf. rewrite Forall_forall in Hwf. specialize (Hwf c Hc0).
    pose proof (extent_in c _ Hc0). unfold within. subst s. lia. }
  rewrite fold_paint_app_tail by exact Hin.
  set (X := fold_left paint (e_chunks e0) (repeat 0%N s)).
  assert (HX : length X = s) by (subst X; rewrite fold_paint_length by exact Hin; apply repeat_length).
  rewrite (paint_tiles _ _ _ Ht) by (rewrite app_length, repeat_length; lia).
  fold s. rewrite firstn_app_exact by exact HX.
  rewrite skipn_all2 by (rewrite app_length, repeat_length; lia).
  rewrite app_nil_r. reflexivity.
Qed.

(* ---------- handle_write ---------- *)

Definition existing (rq : request) (pre : option entry) : option entry :=
  if rq_append rq then pre else None.

(* the request could not be taken in completely: the body reader failed, or an upload failed *)
Definition request_fails (rq : request) : bool :=
  is_err (rq_end rq) || ur_err (upload_of rq).

Section WithMd5.
Variable md5 : list N -> N.

Definition write_core (rq : request) (pre : option entry) : status * option entry :=
  let ur := upload_of rq in
  if ur_failed ur then (Failed, pre)
  else
    let '(ok, post) := save_metadata md5 (rq_append rq) pre (rq_body rq) ur in
    ((if ok then Created else Failed), post).

Lemma handle_write_core : forall rq pre, rq_method rq <> PostRaw ->
  handle_write md5 rq pre = write_core rq pre.
Proof. intros rq pre H. unfold handle_write. destruct (rq_method rq); try reflexivity. congruence. Qed.

Lemma save_new : forall (is_append : bool) (pre : option entry) bytes ur,
  (if is_append then pre else None) = None ->
  save_metadata md5 is_append pre bytes ur =
    (true, Some {| e_size := ur_off ur; e_content := ur_small ur; e_chunks := ur_chunks ur;
                   e_md5 := Some (md5 (firstn (N.to_nat (ur_hashed ur)) bytes)) |}).
Proof. intros. unfold save_metadata. rewrite H. reflexivity. Qed.

(* C25, part 1 *)
Theorem stored_equals_body : forall rq pre,
  rq_method rq <> PostRaw -> (1 <= rq_cs rq)%Z -> rq_end rq = Eof -> no_upfail (rq_upfail rq) ->
  existing rq pre = None ->
  exists e, handle_write md5 rq pre = (Created, Some e) /\
            read_entry e = rq_body rq /\
            e_size e = N.of_nat (length (rq_body rq)) /\
            e_md5 e = Some (md5 (rq_body rq)).
Proof.
  intros rq pre Hm Hcs Hend Hup Hex.
  rewrite handle_write_core by exact Hm. unfold write_core, upload_of. rewrite Hend.
  unfold existing in Hex.
  assert (Hchunked : rq_append rq = true \/
                     inline_cond (rq_cs rq) (rq_limit rq) (rq_etc rq) (length (rq_body rq)) = false ->
          exists e,
            (let ur := upload_reader_to_chunks (rq_cs rq) (rq_limit rq) (negb (rq_append rq)) (rq_etc rq)
                         (rq_body rq) Eof (rq_upfail rq) in
             if ur_failed ur then (Failed, pre)
             else let '(ok, post) := save_metadata md5 (rq_append rq) pre (rq_body rq) ur in
                  ((if ok then Created else Failed), post)) = (Created, Some e) /\
            read_entry e = rq_body rq /\ e_size e = N.of_nat (length (rq_body rq)) /\
            e_md5 e = Some (md5 (rq_body rq))).
  { intros Hni.
    destruct (upload_no_inline (rq_cs rq) (rq_limit rq) (negb (rq_append rq)) (rq_etc rq)
                (rq_body rq) (rq_upfail rq) Hcs Hup) as (new & Heq & Ht).
    { destruct Hni as [->|H]; auto. }
    cbv zeta. rewrite Heq. unfold ur_failed. simpl orb. cbv iota.
    rewrite save_new by exact Hex. simpl.
    eexists. split; [reflexivity|]. simpl.
    rewrite Nat2N.id, firstn_all.
    split; [apply read_tiles; exact Ht|]. split; reflexivity. }
  destruct (rq_append rq) eqn:Happ; [apply Hchunked; auto|].
  destruct (inline_cond (rq_cs rq) (rq_limit rq) (rq_etc rq) (length (rq_body rq))) eqn:Hc;
    [|apply Hchunked; auto].
  clear Hchunked. simpl negb.
  destruct (rq_body rq) as [|b0 bs] eqn:Hb.
  - rewrite upload_empty. simpl.
    eexists. split; [reflexivity|]. split; [reflexivity|]. split; reflexivity.
  - rewrite <- Hb in *.
    rewrite upload_inline; auto; [|rewrite Hb; discriminate].
    unfold ur_failed. simpl orb. cbv iota. rewrite save_new by reflexivity. simpl.
    eexists. split; [reflexivity|]. simpl.
    rewrite Nat2N.id, firstn_all.
    split; [|split; reflexivity].
    unfold read_entry. simpl. rewrite Hb. reflexivity.
Qed.

(* C25, part 2 *)
Theorem append_at_end : forall rq e0,
  rq_method rq <> PostRaw -> (1 <= rq_cs rq)%Z -> rq_end rq = Eof -> no_upfail (rq_upfail rq) ->
  rq_append rq = true -> e_content e0 = [] -> wf_entry e0 ->
  exists e1, handle_write md5 rq (Some e0) = (Created, Some e1) /\
             read_entry e1 = read_entry e0 ++ rq_body rq /\
             file_end e1 = (file_end e0 + N.of_nat (length (rq_body rq)))%N /\
             e_size e1 = file_end e1.
Proof.
  intros rq e0 Hm Hcs Hend Hup Happ Hc Hwf.
  rewrite handle_write_core by exact Hm. unfold write_core, upload_of. rewrite Hend, Happ.
  destruct (upload_no_inline (rq_cs rq) (rq_limit rq) (negb true) (rq_etc rq)
              (rq_body rq) (rq_upfail rq) Hcs Hup) as (new & Heq & Ht).
  { left. reflexivity. }
  cbv zeta. rewrite Heq. unfold ur_failed. simpl orb. cbv iota.
  unfold save_metadata. rewrite Hc. simpl.
  rewrite (entry_size_chunked e0 Hc).
  eexists. split; [reflexivity|].
  apply (tiles_shift _ _ _ (file_end e0)) in Ht. rewrite N.add_0_l in Ht.
  pose proof (tiles_extent _ _ _ Ht) as He.
  assert (Hext : (extent (e_chunks e0) <= file_end e0)%N) by (unfold file_end; lia).
  split; [apply read_append; auto|].
  match goal with |- file_end ?E = _ /\ _ =>
    assert (Hfe : file_end E = (file_end e0 + N.of_nat (length (rq_body rq)))%N) end.
  { unfold file_end at 1. cbn [e_size e_chunks]. rewrite extent_app. lia. }
  split; [exact Hfe|]. rewrite Hfe. reflexivity.
Qed.

Theorem append_inline_refused : forall rq e0 pre,
  rq_append rq = true -> pre = Some e0 -> e_content e0 <> [] ->
  handle_write md5 rq pre = (Failed, pre).
Proof.
  intros rq e0 pre Happ -> Hc. unfold handle_write.
  assert (Hs : forall ur, save_metadata md5 (rq_append rq) (Some e0) (rq_body rq) ur = (false, Some e0)).
  { intros ur. unfold save_metadata. rewrite Happ. destruct (e_content e0); [congruence|reflexivity]. }
  destruct (rq_method rq); try reflexivity;
    (destruct (ur_failed (upload_of rq)); [reflexivity|rewrite Hs; reflexivity]).
Qed.

(* C25, part 3 *)
Theorem upload_failure_aborts : forall rq pre,
  ur_failed (upload_of rq) = true -> handle_write md5 rq pre = (Failed, pre).
Proof.
  intros rq pre H. unfold handle_write. rewrite H. destruct (rq_method rq); reflexivity.
Qed.

Theorem fail_no_commit : forall rq pre,
  (1 <= rq_cs rq)%Z -> request_fails rq = true ->
  handle_write md5 rq pre = (Failed, pre).
Proof.
  intros rq pre Hcs Hf. apply upload_failure_aborts.
  unfold request_fails in Hf. unfold ur_failed.
  destruct (is_err (rq_end rq)) eqn:He.
  - apply orb_true_iff. right.
    unfold upload_of, upload_reader_to_chunks. rewrite finish_rerr.
    apply loop_rerr; auto; try lia. apply fuel_ok. lia.
  - simpl in Hf. rewrite Hf. reflexivity.
Qed.

(* every response other than 201 leaves the store as it was *)
Theorem nonsuccess_no_commit : forall rq pre st post,
  handle_write md5 rq pre = (st, post) -> st <> Created -> st = Failed /\ post = pre.
Proof.
  intros rq pre st post H Hst. unfold handle_write in H.
  assert (Hcore : (let ur := upload_of rq in
                   if ur_failed ur then (Failed, pre)
                   else let '(ok, post) := save_metadata md5 (rq_append rq) pre (rq_body rq) ur in
                        ((if ok then Created else Failed), post)) = (st, post) ->
                  st = Failed /\ post = pre).
  { cbv zeta. destruct (ur_failed (upload_of rq)); [intros E; inversion E; auto|].
    unfold save_metadata.
    destruct (if rq_append rq then pre else None) as [e|].
    - destruct (negb (is_nil (e_content e))); intros E; inversion E; subst; auto; congruence.
    - intros E; inversion E; subst; congruence. }
  destruct (rq_method rq); auto. inversion H; auto.
Qed.

Theorem upload_failure_detected : forall rq pre j,
  (1 <= rq_cs rq)%Z -> rq_end rq = Eof ->
  rq_append rq = true \/
  inline_cond (rq_cs rq) (rq_limit rq) (rq_etc rq) (length (rq_body rq)) = false ->
  nth j (rq_upfail rq) false = true ->
  (Z.of_nat j * rq_cs rq < Z.of_nat (length (rq_body rq)))%Z ->
  handle_write md5 rq pre = (Failed, pre).
Proof.
  intros rq pre j Hcs Hend Hni Hj Hlen. apply upload_failure_aborts.
  unfold ur_failed. apply orb_true_iff. left.
  unfold upload_of, upload_reader_to_chunks. rewrite finish_err, Hend.
  apply (loop_err_detected _ _ _ _ _ _ _ _ _ _ _ j); auto; try lia.
  - apply fuel_ok. lia.
  - destruct Hni as [->|H]; auto.
Qed.

End WithMd5.

(* ---------- autoChunk's chunk size ---------- *)

(* whenever autoChunk lets the request through, the chunk size is the requested
   number of MiB, positive and not wrapped *)
Theorem auto_chunk_size_ok : forall q opt cs,
  auto_chunk_size q opt = Some cs ->
  (exists m, 1 <= m <= 2047 /\ cs = 1048576 * m /\ 1 <= cs)%Z.
Proof.
  intros q opt cs. unfold auto_chunk_size.
  set (m := if ((wrap32 q <=? 0) && (0 <? opt))%Z then wrap32 opt else wrap32 q).
  destruct ((m <=? 0) || (2047 <? m))%Z eqn:E; [discriminate|].
  intros H. inversion H; subst cs. exists m. unfold wrap32. lia.
Qed.

Theorem auto_chunk_size_accepts : forall q opt,
  ((1 <= q <= 2047 -> auto_chunk_size q opt = Some (1048576 * q)) /\
   (q = 0 -> 1 <= opt <= 2047 -> auto_chunk_size q opt = Some (1048576 * opt)))%Z.
Proof.
  intros q opt. unfold auto_chunk_size, wrap32. split.
  - intros H.
    replace ((q + 2147483648) mod 4294967296 - 2147483648)%Z with q by lia.
    replace ((q <=? 0)%Z) with false by lia. simpl andb. cbv iota.
    replace ((q <=? 0) || (2047 <? q))%Z with false by lia. f_equal. lia.
  - intros -> H.
    replace (((0 + 2147483648) mod 4294967296 - 2147483648 <=? 0)%Z && (0 <? opt)%Z) with true by lia.
    cbv iota.
    replace ((opt + 2147483648) mod 4294967296 - 2147483648)%Z with opt by lia.
    replace ((opt <=? 0) || (2047 <? opt))%Z with false by lia. f_equal. lia.
Qed.

(* ---------- the length-level plan is the shape of the byte-level loop ---------- *)

Definition offsz (c : chunk) : N * N := (ck_off c, ck_size c).

Lemma read_chunk_len : forall cs bytes e,
  let '(d, rest, rerr) := read_chunk cs bytes e in
  read_len cs (N.of_nat (length bytes)) e = (N.of_nat (length d), N.of_nat (length rest), rerr).
Proof.
  intros cs bytes e. unfold read_chunk, read_len.
  destruct (cs <=? 0)%Z eqn:E; [reflexivity|].
  rewrite firstn_length, skipn_length.
  f_equal; [f_equal; lia|].
  destruct e; try reflexivity.
  - destruct (Nat.ltb_spec (length bytes) (Z.to_nat cs)); lia.
  - destruct (Nat.leb_spec (length bytes) (Z.to_nat cs)); lia.
Qed.

Lemma shape_loop : forall fuel cs limit inl etc bytes e upfail off acc uerr hashed,
  shape (upload_loop fuel cs limit inl etc bytes e upfail off acc uerr hashed) =
  plan_loop fuel cs limit inl etc (N.of_nat (length bytes)) e upfail off (map offsz acc) uerr hashed.
Proof.
  induction fuel as [|fuel IH]; intros; [reflexivity|].
  rewrite upload_loop_S. cbn [plan_loop].
  pose proof (read_chunk_len cs bytes e) as Hr.
  destruct (read_chunk cs bytes e) as [[d rest] rerr]. rewrite Hr. cbv zeta.
  destruct (rerr || (N.of_nat (length d) =? 0)%N); [reflexivity|].
  destruct ((off =? 0)%N && inl && (Z.of_N (N.of_nat (length d)) <? cs)%Z &&
            ((Z.of_N (N.of_nat (length d)) <? limit)%Z || etc)); [reflexivity|].
  destruct (Z.of_N (N.of_nat (length d)) <? cs)%Z.
  - destruct (hd false upfail); unfold shape; simpl; [reflexivity|].
    rewrite map_app. reflexivity.
  - rewrite IH. destruct (hd false upfail); [reflexivity|]. rewrite map_app. reflexivity.
Qed.

Theorem shape_upload : forall cs limit inl etc bytes e upfail,
  shape (upload_reader_to_chunks cs limit inl etc bytes e upfail) =
  plan_upload cs limit inl etc (N.of_nat (length bytes)) e upfail.
Proof.
  intros. unfold upload_reader_to_chunks, plan_upload.
  pose proof (shape_loop (fuel_for cs (N.of_nat (length bytes))) cs limit inl etc bytes e upfail
                0%N [] false 0%N) as H.
  simpl map in H. rewrite <- H.
  set (r := upload_loop _ _ _ _ _ _ _ _ _ _ _ _).
  unfold finish, plan_finish, ur_failed, shape. simpl pl_err. simpl pl_rerr.
  destruct (ur_err r || ur_rerr r) eqn:E; reflexivity.
Qed.

(* ---------- concrete examples (non-vacuity; the inputs that used to fail) ---------- *)

Definition mk_rq m app etc cs limit body e upfail : request :=
  {| rq_method := m; rq_append := app; rq_etc := etc; rq_cs := cs; rq_limit := limit;
     rq_body := body; rq_end := e; rq_upfail := upfail |}.

Lemma example_chunked :
  let rq := mk_rq PostForm false false 3 2 [1;2;3;4;5;6;7]%N Eof [false;false;false] in
  rq_method rq <> PostRaw /\ (1 <= rq_cs rq)%Z /\ rq_end rq = Eof /\ no_upfail (rq_upfail rq) /\
  existing rq None = None /\
  handle_write (fun l => N.of_nat (length l)) rq None =
    (Created, Some {| e_size := 7; e_content := [];
                      e_chunks := [Ck 0 3 [1;2;3]; Ck 3 3 [4;5;6]; Ck 6 1 [7]]%N; e_md5 := Some 7%N |}).
Proof. repeat split; try discriminate; vm_compute; reflexivity. Qed.

Lemma example_inline :
  let rq := mk_rq Put false false 4 5 [8;9]%N Eof [] in
  handle_write (fun l => N.of_nat (length l)) rq None =
    (Created, Some {| e_size := 2; e_content := [8;9]%N; e_chunks := []; e_md5 := Some 2%N |}).
Proof. vm_compute; reflexivity. Qed.

(* limit 4 above the chunk size 2, body of 3 bytes: chunked, nothing dropped *)
Lemma example_limit_above_chunk :
  let rq := mk_rq Put false false 2 4 [1;2;3]%N Eof [] in
  exists e, handle_write (fun _ => 0%N) rq None = (Created, Some e) /\
            e_content e = [] /\ read_entry e = [1;2;3]%N.
Proof. eexists. repeat split; vm_compute; reflexivity. Qed.

(* same under /etc *)
Lemma example_etc :
  let rq := mk_rq Put false true 2 0 [1;2;3]%N Eof [] in
  exists e, handle_write (fun _ => 0%N) rq None = (Created, Some e) /\ read_entry e = [1;2;3]%N.
Proof. eexists. split; vm_compute; reflexivity. Qed.

(* append to an entry with chunk [0,3) and FileSize attribute 0: lands at offset 3 *)
Lemma example_append_filesize0 :
  let e0 := {| e_size := 0; e_content := []; e_chunks := [Ck 0 3 [97;98;99]%N]; e_md5 := None |} in
  let rq := mk_rq Put true false 4 0 [90]%N Eof [] in
  wf_entry e0 /\
  exists e1, handle_write (fun _ => 0%N) rq (Some e0) = (Created, Some e1) /\
             read_entry e1 = [97;98;99;90]%N /\ e_size e1 = 4%N.
Proof. split; [repeat constructor|]. eexists. repeat split; vm_compute; reflexivity. Qed.

(* the reader fails after 3 bytes: reported, nothing committed *)
Lemma example_read_error :
  let rq := mk_rq Put false false 2 0 [1;2;3]%N ReadErr [] in
  request_fails rq = true /\ handle_write (fun _ => 0%N) rq None = (Failed, None).
Proof. split; vm_compute; reflexivity. Qed.

(* the second upload fails: reported, nothing committed *)
Lemma example_upload_failure :
  let rq := mk_rq Put false false 2 0 [1;2;3]%N Eof [false;true] in
  request_fails rq = true /\ handle_write (fun _ => 0%N) rq None = (Failed, None).
Proof. split; vm_compute; reflexivity. Qed.

(* maxMB=2048 is rejected; maxMB=2047 is the largest accepted value *)
Lemma example_maxmb :
  auto_chunk_size 2048 4 = None /\ auto_chunk_size 0 0 = None /\
  auto_chunk_size 2047 4 = Some 2146435072%Z /\ auto_chunk_size 0 4 = Some 4194304%Z.
Proof. repeat split; vm_compute; reflexivity. Qed.
