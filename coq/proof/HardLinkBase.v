(* Proofs about model/HardLink.v (C21, C20): association lists, name counting, the
   primitive effects of the store wrapper on the link-record invariant. *)
From Coq Require Import List NArith ZArith Bool String Arith Lia Permutation.
From SW Require Import model.FilerNS proof.FilerNSBase model.Chunks model.HardLink.
Import ListNotations.
Local Open Scope list_scope.

Lemma filter_all_id : forall {A} (f : A -> bool) (l : list A), (forall x, In x l -> f x = true) -> filter f l = l.
Proof.
  induction l as [|x l IH]; simpl; intro H; [reflexivity|].
  rewrite (H x (or_introl eq_refl)). f_equal. apply IH. intros. apply H. now right.
Qed.

(* ================= association lists ================= *)
Section AMapFacts.
  Context {K V : Type} (eqb : K -> K -> bool).
  Hypothesis eqb_spec : forall a b, reflect (a = b) (eqb a b).

  Lemma eqb_refl' : forall a, eqb a a = true.
  Proof. intro a. destruct (eqb_spec a a); congruence. Qed.

  Lemma aget_filter_key : forall (f : K -> bool) (m : list (K * V)) k,
    aget eqb (filter (fun kv => f (fst kv)) m) k = if f k then aget eqb m k else None.
  Proof.
    induction m as [|[k' v] m IH]; intro k; simpl.
    - now destruct (f k).
    - destruct (f k') eqn:Ef; simpl; rewrite IH.
      + destruct (eqb_spec k' k); [subst; now rewrite Ef|reflexivity].
      + destruct (eqb_spec k' k); [subst; now rewrite Ef|reflexivity].
  Qed.

  Lemma aget_adel : forall (m : list (K * V)) k q,
    aget eqb (adel eqb m k) q = if eqb k q then None else aget eqb m q.
  Proof.
    intros. unfold adel. rewrite (aget_filter_key (fun x => negb (eqb x k))).
    destruct (eqb_spec q k), (eqb_spec k q); subst; simpl; congruence.
  Qed.

  Lemma aget_aput : forall (m : list (K * V)) k v q,
    aget eqb (aput eqb m k v) q = if eqb k q then Some v else aget eqb m q.
  Proof.
    intros. unfold aput. simpl. destruct (eqb_spec k q); [reflexivity|].
    rewrite aget_adel. destruct (eqb_spec k q); congruence.
  Qed.

  Lemma aget_Some_In : forall (m : list (K * V)) k v, aget eqb m k = Some v -> In (k, v) m.
  Proof.
    induction m as [|[k' v'] m IH]; simpl; intros k v H; [discriminate|].
    destruct (eqb_spec k' k); [inversion H; subst; now left | right; auto].
  Qed.

  Lemma aget_None_notin : forall (m : list (K * V)) k, aget eqb m k = None <-> ~ In k (map fst m).
  Proof.
    induction m as [|[k' v'] m IH]; simpl; intro k; [tauto|].
    destruct (eqb_spec k' k).
    - split; [discriminate|]. intro H. exfalso. apply H. now left.
    - rewrite IH. tauto.
  Qed.

  Lemma In_aget : forall (m : list (K * V)) k v, NoDup (map fst m) -> In (k, v) m -> aget eqb m k = Some v.
  Proof.
    induction m as [|[k' v'] m IH]; simpl; intros k v Hnd Hin; [contradiction|].
    inversion Hnd; subst. destruct Hin as [E|Hin].
    - inversion E; subst. now rewrite eqb_refl'.
    - destruct (eqb_spec k' k); [|auto]. subst. exfalso. apply H1. now apply (in_map fst) in Hin.
  Qed.

  Lemma keys_filter_NoDup' : forall (f : K * V -> bool) m, NoDup (map fst m) -> NoDup (map fst (filter f m)).
  Proof.
    induction m as [|x m IH]; simpl; intro H; [constructor|]. inversion H; subst.
    destruct (f x); simpl; auto. constructor; auto.
    intro Hin. apply H2. apply in_map_iff in Hin. destruct Hin as [y [Hy Hin]].
    apply filter_In in Hin. apply in_map_iff. exists y. tauto.
  Qed.

  Lemma adel_NoDup : forall (m : list (K * V)) k, NoDup (map fst m) -> NoDup (map fst (adel eqb m k)).
  Proof. intros. now apply keys_filter_NoDup'. Qed.

  Lemma adel_notin : forall (m : list (K * V)) k, ~ In k (map fst (adel eqb m k)).
  Proof.
    intros m k Hin. apply in_map_iff in Hin. destruct Hin as [[q e] [Hq Hin]]. simpl in Hq. subst q.
    apply filter_In in Hin. simpl in Hin. rewrite eqb_refl' in Hin. destruct Hin. discriminate.
  Qed.

  Lemma aput_NoDup : forall (m : list (K * V)) k v, NoDup (map fst m) -> NoDup (map fst (aput eqb m k v)).
  Proof. intros. unfold aput. simpl. constructor; [apply adel_notin | now apply adel_NoDup]. Qed.
End AMapFacts.

Lemma Neqb_spec : forall a b : N, reflect (a = b) (N.eqb a b).
Proof. intros. apply N.eqb_spec. Qed.

Lemma peqb_spec : forall a b : path, reflect (a = b) (HardLink.path_eqb a b).
Proof. exact path_eqb_spec. Qed.

(* ---------- specialised to the two stores ---------- *)
Lemma nfind_raw_put : forall s p e q, nfind (raw_put s p e) q = if HardLink.path_eqb p q then Some e else nfind s q.
Proof. intros. unfold nfind, raw_put. simpl. apply aget_aput, peqb_spec. Qed.
Lemma nfind_raw_del : forall s p q, nfind (raw_del s p) q = if HardLink.path_eqb p q then None else nfind s q.
Proof. intros. unfold nfind, raw_del. simpl. apply aget_adel, peqb_spec. Qed.
Lemma kv_get_put : forall s k v q, kv_get (kv_put s k v) q = if N.eqb k q then Some v else kv_get s q.
Proof. intros. unfold kv_get, kv_put. simpl. apply aget_aput, Neqb_spec. Qed.
Lemma kv_get_del : forall s k q, kv_get (kv_del s k) q = if N.eqb k q then None else kv_get s q.
Proof. intros. unfold kv_get, kv_del. simpl. apply aget_adel, Neqb_spec. Qed.

(* ================= counting the names that carry an id ================= *)
Definition cn (m : nstore) (X : N) : nat := List.length (filter (carries X) m).

Lemma count_names_cn : forall s X, count_names s X = cn (names s) X.
Proof. reflexivity. Qed.

Definition ind (e : hentry) (X : N) : nat := if N.eqb (h_hl e) X then 1 else 0.
Definition oind (o : option hentry) (X : N) : nat := match o with Some e => ind e X | None => 0 end.

Lemma cn_cons : forall p e m X, cn ((p, e) :: m) X = ind e X + cn m X.
Proof. intros. unfold cn, ind, carries. simpl. destruct (N.eqb (h_hl e) X); reflexivity. Qed.

Lemma cn_app : forall a b X, cn (a ++ b) X = cn a X + cn b X.
Proof. intros. unfold cn. rewrite filter_app, app_length. reflexivity. Qed.

(* removing a key takes away exactly the entry stored under it *)
Lemma cn_adel : forall m p X, NoDup (map fst m) ->
  cn m X = oind (aget HardLink.path_eqb m p) X + cn (adel HardLink.path_eqb m p) X.
Proof.
  induction m as [|[q e] m IH]; intros p X Hnd; [reflexivity|].
  inversion Hnd; subst. simpl. destruct (peqb_spec q p).
  - subst q. simpl. rewrite cn_cons.
    assert (Hno : adel HardLink.path_eqb m p = m).
    { unfold adel. apply filter_all_id. intros [q' e'] Hin. simpl.
      destruct (peqb_spec q' p); [|reflexivity]. subst. exfalso. apply H1. now apply (in_map fst) in Hin. }
    rewrite Hno. reflexivity.
  - simpl. rewrite !cn_cons. rewrite (IH p X H2). lia.
Qed.

Lemma cn_aput : forall m p e X, cn (aput HardLink.path_eqb m p e) X = ind e X + cn (adel HardLink.path_eqb m p) X.
Proof. intros. unfold aput. apply cn_cons. Qed.

Lemma cn_put : forall m p e X, NoDup (map fst m) ->
  cn (aput HardLink.path_eqb m p e) X + oind (aget HardLink.path_eqb m p) X = ind e X + cn m X.
Proof. intros. rewrite cn_aput, (cn_adel m p X H). lia. Qed.

Lemma cn_filter_split : forall (f : path * hentry -> bool) m X,
  cn m X = cn (filter f m) X + cn (filter (fun x => negb (f x)) m) X.
Proof.
  induction m as [|[q e] m IH]; intro X; [reflexivity|].
  simpl. destruct (f (q, e)); simpl; rewrite !cn_cons, IH; lia.
Qed.

Lemma cn_perm : forall a b X, Permutation a b -> cn a X = cn b X.
Proof.
  intros a b X H. induction H; auto.
  - destruct x. rewrite !cn_cons. lia.
  - destruct x, y. rewrite !cn_cons. lia.
  - congruence.
Qed.

Lemma cn_zero_iff : forall m X, cn m X = 0 <-> forall p e, In (p, e) m -> h_hl e <> X.
Proof.
  induction m as [|[q e] m IH]; intro X.
  - split; [intros _ p e []|reflexivity].
  - rewrite cn_cons. unfold ind. destruct (N.eqb_spec (h_hl e) X).
    + split; [lia|]. intro H. exfalso. apply (H q e); [now left|assumption].
    + simpl. rewrite IH. split.
      * intros H p e' [E|Hin]; [inversion E; subst; assumption | eauto].
      * intros H p e' Hin. apply (H p e'). now right.
Qed.

Lemma cn_pos_In : forall m p e X, In (p, e) m -> h_hl e = X -> 0 < cn m X.
Proof.
  intros m p e X Hin HX. destruct (cn m X) eqn:E; [|lia].
  exfalso. apply (proj1 (cn_zero_iff m X) E p e Hin HX).
Qed.

(* occurrences of an id in a list of pending ids *)
Fixpoint occ (X : N) (l : list N) : nat :=
  match l with
  | [] => 0
  | y :: l' => (if N.eqb y X then 1 else 0) + occ X l'
  end.

Lemma occ_app : forall X a b, occ X (a ++ b) = occ X a + occ X b.
Proof. induction a; simpl; intros; [reflexivity|]. rewrite IHa. lia. Qed.
