(* C19 proofs, part 6: callbacks that stop a listing early (return false).
   As long as every answer of the callback is true, the stop-aware functions ( *_s )
   coincide with the functions of the first part, so every theorem about those applies.
   (What a callback that does answer false gets is proved in ListingStopSpec.v.) *)
From Coq Require Import List NArith Bool String Ascii Arith Lia.
From SW Require Import model.Listing proof.ListingBase proof.ListingStore proof.ListingScan proof.ListingPattern
                       proof.ListingProofs.
Import ListNotations.
Local Open Scope string_scope.
Local Open Scope list_scope.
Local Notation length := List.length.

Definition all_true (ans : list bool) : Prop := forallb (fun b => b) ans = true.

Lemma cb_step_true : forall ms ans e, all_true ans ->
  snd (cb_step ms ans e) = true /\ all_true (fst (cb_step ms ans e)).
Proof.
  intros ms ans e H. unfold cb_step. destruct (passes ms e); [|split; auto].
  destruct ans as [|a ans]; [split; reflexivity|].
  unfold all_true in H. cbn [forallb] in H. apply andb_true_iff in H. destruct H as [Ha H].
  subst a. split; auto.
Qed.

Lemma lvl_iter_s_true : forall ms l start incl limit p ans, all_true ans ->
  h_vis (lvl_iter_s ms l start incl limit p ans) = lvl_iter l start incl limit p /\
  all_true (h_ans (lvl_iter_s ms l start incl limit p ans)) /\
  h_stop (lvl_iter_s ms l start incl limit p ans) = false.
Proof.
  induction l as [|e l IH]; intros start incl limit p ans H; cbn [lvl_iter_s lvl_iter]; [repeat split; auto|].
  destruct (negb (String.prefix p (ename e))); [repeat split; auto|].
  destruct (String.eqb (ename e) ""); [apply IH; auto|].
  destruct (String.eqb (ename e) start && negb incl); [apply IH; auto|].
  destruct limit as [|limit]; [repeat split; auto|].
  destruct (cb_step_true ms ans e H) as [H1 H2]. rewrite H1. cbn [h_vis h_ans h_stop].
  destruct (IH start incl limit p _ H2) as [I1 [I2 I3]]. rewrite I1. repeat split; auto.
Qed.

Lemma hand_true : forall ms b ans, all_true ans ->
  h_vis (hand ms b ans) = b /\ all_true (h_ans (hand ms b ans)) /\ h_stop (hand ms b ans) = false.
Proof.
  induction b as [|e b IH]; intros ans H; cbn [hand]; [repeat split; auto|].
  destruct (cb_step_true ms ans e H) as [H1 H2]. rewrite H1. cbn [h_vis h_ans h_stop].
  destruct (IH _ H2) as [I1 [I2 I3]]. rewrite I1. repeat split; auto.
Qed.

Lemma pf_batch_s_true : forall ms p batch need last ans, all_true ans ->
  let r := pf_batch_s ms p need batch last ans in
  (b_em r, b_last r) = pf_batch p need batch last /\ b_stop r = false /\ all_true (b_ans r).
Proof.
  induction batch as [|e b IH]; intros need last ans H; cbn [pf_batch_s pf_batch]; [repeat split; auto|].
  destruct (String.prefix p (ename e)); [|apply IH; auto].
  destruct (cb_step_true ms ans e H) as [H1 H2]. rewrite H1.
  destruct need as [|[|n]]; [repeat split; auto|repeat split; auto|].
  cbn [b_em b_last b_ans b_stop].
  destruct (IH (S n) (ename e) _ H2) as [I1 [I2 I3]]. cbv zeta in I1, I2, I3.
  destruct (pf_batch p (S n) b (ename e)) as [em l]. inversion I1; subst. repeat split; auto.
Qed.

Lemma pf_loop_s_true : forall fuel ms d limit p last count batch acc ans, all_true ans ->
  match pf_loop fuel d limit p last count batch acc with
  | Some (v, l) => exists a, pf_loop_s fuel ms d limit p last count batch acc ans = Some (v, l, a, false) /\ all_true a
  | None => pf_loop_s fuel ms d limit p last count batch acc ans = None
  end.
Proof.
  induction fuel as [|f IH]; intros ms d limit p last count batch acc ans H; cbn [pf_loop pf_loop_s].
  - destruct (Nat.ltb count limit && negb (is_nil batch)); [reflexivity|eauto].
  - destruct (Nat.ltb count limit && negb (is_nil batch)); [|eauto].
    destruct (pf_batch_s_true ms p batch (limit - count) last ans H) as [I1 [I2 I3]]. cbv zeta in I1, I2, I3.
    rewrite I2. destruct (pf_batch p (limit - count) batch last) as [em l]. inversion I1 as [[E1 E2]].
    rewrite E1, E2.
    destruct (Nat.ltb (count + length em) limit); [apply IH; auto|eauto].
Qed.

Lemma wrapper_list_s_true : forall s ms d start incl limit p ans, all_true ans ->
  match wrapper_list s d start incl limit p with
  | Some w => exists a, wrapper_list_s s ms d start incl limit p ans = Some (w, a, false) /\ all_true a
  | None => wrapper_list_s s ms d start incl limit p ans = None
  end.
Proof.
  intros s ms d start incl limit p ans H. destruct s; cbn [wrapper_list wrapper_list_s].
  - unfold lvl_list. match goal with |- context [lvl_iter_s ms ?l start incl limit p ans] =>
      destruct (lvl_iter_s_true ms l start incl limit p ans H) as [I1 [I2 I3]] end.
    rewrite I1, I3. eauto.
  - unfold gen_list. destruct (String.eqb p "").
    + destruct (hand_true ms (mem_list d start incl limit) ans H) as [I1 [I2 I3]]. rewrite I1, I3. eauto.
    + pose proof (pf_loop_s_true (S (length d)) ms d limit p (last_name (mem_list d start incl limit)) 0
                                 (mem_list d start incl limit) [] ans H) as I.
      destruct (pf_loop (S (length d)) d limit p (last_name (mem_list d start incl limit)) 0 (mem_list d start incl limit) [])
        as [[v l]|]; [destruct I as [a [E Ha]]; rewrite E; eauto|rewrite I; reflexivity].
Qed.

(* a stop-aware result seen through the pattern closure [ms] corresponds to a result of the
   first part *)
Definition rel (ms : string -> bool) (rs : sres) (r : lres) : Prop :=
  s_exp rs = r_count r /\ s_last rs = r_last r /\ s_dir rs = r_dir r /\
  s_names rs = filter (fun n => negb (ms n)) (r_names r) /\
  s_miss rs = length (filter ms (r_names r)) /\ all_true (s_ans rs) /\
  s_live rs = r_names r /\ s_stop rs = false.

Lemma do_list_s_true : forall s ms d start incl limit p ans, all_true ans ->
  match do_list s d start incl limit p with
  | Some r => exists rs, do_list_s s ms d start incl limit p ans = Some rs /\ rel ms rs r
  | None => do_list_s s ms d start incl limit p ans = None
  end.
Proof.
  intros s ms d start incl limit p ans H. unfold do_list, do_list_s.
  pose proof (wrapper_list_s_true s ms d start incl limit p ans H) as I.
  destruct (wrapper_list s d start incl limit p) as [w|]; [|rewrite I; reflexivity].
  destruct I as [a [E Ha]]. rewrite E. eexists. split; [reflexivity|].
  unfold rel. cbn. repeat split; auto.
Qed.

Lemma valid_loop_s_true : forall fuel s ms p rs r, rel ms rs r ->
  match valid_loop fuel s p r with
  | Some r' => exists rs', valid_loop_s fuel s ms p rs = Some rs' /\ rel ms rs' r'
  | None => valid_loop_s fuel s ms p rs = None
  end.
Proof.
  induction fuel as [|f IH]; intros s ms p rs r [R1 [R2 [R3 [R4 [R5 [R6 [R7 R8]]]]]]]; cbn [valid_loop valid_loop_s]; rewrite R1, R8.
  - destruct (r_count r) eqn:Ec; [exists rs; split; [reflexivity|unfold rel; rewrite Ec; repeat split; auto]|reflexivity].
  - destruct (r_count r) as [|k] eqn:Ec; [exists rs; split; [reflexivity|unfold rel; rewrite Ec; repeat split; auto]|].
    rewrite R2, R3.
    pose proof (do_list_s_true s ms (r_dir r) (r_last r) false (S k) p (s_ans rs) R6) as I.
    destruct (do_list s (r_dir r) (r_last r) false (S k) p) as [r1|]; [|rewrite I; reflexivity].
    destruct I as [rs1 [E [Q1 [Q2 [Q3 [Q4 [Q5 [Q6 [Q7 Q8]]]]]]]]]. rewrite E.
    apply IH. unfold rel. cbn [s_exp s_miss s_last s_live s_names s_dir s_ans s_stop r_count r_last r_names r_dir].
    rewrite Q2, Q4, Q5, Q7, R4, R5, R7, !filter_app, app_length. repeat split; auto.
Qed.

Lemma list_valid_s_true : forall s ms d start incl limit p ans, all_true ans ->
  match list_valid s d start incl limit p with
  | Some r => exists rs, pattern_list_s s ms d start incl limit p ans = Some rs /\ rel ms rs r
  | None => pattern_list_s s ms d start incl limit p ans = None
  end.
Proof.
  intros s ms d start incl limit p ans H. unfold list_valid, pattern_list_s.
  pose proof (do_list_s_true s ms d start incl limit p ans H) as I.
  destruct (do_list s d start incl limit p) as [r|]; [|rewrite I; reflexivity].
  destruct I as [rs [E R]]. rewrite E. apply valid_loop_s_true. exact R.
Qed.

(* after the pattern closure *)
Definition rel2 (rs : sres) (r : lres) : Prop :=
  s_miss rs = r_count r /\ s_last rs = r_last r /\ s_dir rs = r_dir r /\ s_names rs = r_names r /\ all_true (s_ans rs) /\
  s_stop rs = false.

Lemma ms_of_missed : forall p rest excl n, ms_of p rest excl n = missed p rest excl n.
Proof.
  intros. unfold ms_of. destruct (String.eqb_spec rest ""); destruct (String.eqb_spec excl ""); cbn [andb]; auto.
  subst. symmetry. apply missed_none.
Qed.

Lemma pattern_list_s_true : forall s d start incl limit p rest excl ans, all_true ans ->
  match pattern_list s d start incl limit p rest excl with
  | Some r => exists rs, pattern_list_s s (ms_of p rest excl) d start incl limit p ans = Some rs /\ rel2 rs r
  | None => pattern_list_s s (ms_of p rest excl) d start incl limit p ans = None
  end.
Proof.
  intros s d start incl limit p rest excl ans H. unfold pattern_list.
  pose proof (list_valid_s_true s (ms_of p rest excl) d start incl limit p ans H) as I.
  destruct (list_valid s d start incl limit p) as [r|]; [|exact I].
  destruct I as [rs [E [R1 [R2 [R3 [R4 [R5 [R6 [R7 R8]]]]]]]]].
  assert (F1 : filter (ms_of p rest excl) (r_names r) = filter (missed p rest excl) (r_names r))
    by (apply filter_ext_in_eq; intros; apply ms_of_missed).
  assert (F2 : filter (fun n => negb (ms_of p rest excl n)) (r_names r) = filter (fun n => negb (missed p rest excl n)) (r_names r))
    by (apply filter_ext_in_eq; intros; rewrite ms_of_missed; reflexivity).
  rewrite F1 in R5. rewrite F2 in R4.
  destruct (String.eqb_spec rest "") as [Er|Er]; destruct (String.eqb_spec excl "") as [Ex|Ex]; cbn [andb];
    exists rs; (split; [exact E|]);
    unfold rel2; cbn [r_count r_last r_names r_dir]; try (repeat split; auto; fail).
  subst rest excl. rewrite R5, R4. rewrite filter_none by (intros; apply missed_none).
  rewrite filter_all by (intros; rewrite missed_none; reflexivity). repeat split; auto.
Qed.

Lemma stream_loop_s_true : forall fuel s p rest excl rs r, rel2 rs r ->
  match stream_loop fuel s p rest excl r with
  | Some r' => exists rs', stream_loop_s fuel s (ms_of p rest excl) p rs = Some rs' /\ rel2 rs' r'
  | None => stream_loop_s fuel s (ms_of p rest excl) p rs = None
  end.
Proof.
  induction fuel as [|f IH]; intros s p rest excl rs r [R1 [R2 [R3 [R4 [R5 R8]]]]]; cbn [stream_loop stream_loop_s]; rewrite R1, R8.
  - destruct (r_count r) eqn:Ec; [exists rs; split; [reflexivity|unfold rel2; rewrite Ec; repeat split; auto]|reflexivity].
  - destruct (r_count r) as [|k] eqn:Ec; [exists rs; split; [reflexivity|unfold rel2; rewrite Ec; repeat split; auto]|].
    rewrite R2, R3.
    pose proof (pattern_list_s_true s (r_dir r) (r_last r) false (S k) p rest excl (s_ans rs) R5) as I.
    destruct (pattern_list s (r_dir r) (r_last r) false (S k) p rest excl) as [r1|]; [|rewrite I; reflexivity].
    destruct I as [rs1 [E [Q1 [Q2 [Q3 [Q4 [Q5 Q8]]]]]]]. rewrite E.
    apply IH. unfold rel2. cbn [s_exp s_miss s_last s_live s_names s_dir s_ans s_stop r_count r_last r_names r_dir].
    rewrite Q2, Q4, R4. repeat split; auto.
Qed.

(* with a callback that never answers false the stop-aware listing is the listing of the first part *)
Theorem stream_list_s_true : forall s d start incl limit prefix pat excl ans,
  all_true ans ->
  match stream_list s d start incl limit prefix pat excl with
  | Some r => exists rs, stream_list_s s d start incl limit prefix pat excl ans = Some rs /\
                         s_names rs = r_names r /\ s_last rs = r_last r /\ s_dir rs = r_dir r /\ s_miss rs = 0
  | None => stream_list_s s d start incl limit prefix pat excl ans = None
  end.
Proof.
  intros s d start incl limit prefix pat excl ans Ht.
  unfold stream_list, stream_list_s.
  set (p := eff_prefix prefix pat). set (rest := snd (split_pattern pat)).
  pose proof (pattern_list_s_true s d start incl limit p rest excl ans Ht) as I.
  destruct (pattern_list s d start incl limit p rest excl) as [r0|]; [|rewrite I; reflexivity].
  destruct I as [rs0 [E R]]. rewrite E.
  pose proof (stream_loop_s_true (S (length d)) s p rest excl rs0 r0 R) as J.
  destruct (stream_loop (S (length d)) s p rest excl r0) as [r|] eqn:El; [|exact J].
  destruct J as [rs [E2 [Q1 [Q2 [Q3 [Q4 [Q5 Q8]]]]]]]. exists rs. split; [exact E2|]. repeat split; auto.
  rewrite Q1.
  (* a finished loop has no outstanding miss *)
  clear -El. revert r0 El. generalize (S (length d)) as fuel.
  induction fuel as [|f IH]; intros r0 El; cbn [stream_loop] in El.
  - destruct (r_count r0) eqn:Ec; [inversion El; subst; auto|discriminate].
  - destruct (r_count r0) eqn:Ec; [inversion El; subst; auto|].
    destruct (pattern_list s (r_dir r0) (r_last r0) false (S n) p rest excl); [|discriminate].
    eapply IH; eauto.
Qed.

(* ================= lastFileName of a pattern listing ================= *)
(* continuing from the returned lastFileName (exclusive) yields the selection behind the page,
   for every prefix / pattern / exclusion *)
Theorem stream_last_cont : forall s d start incl L prefix pat excl, wf d ->
  exists r, stream_list s d start incl L prefix pat excl = Some r /\
    (r_last r <> "" ->
     impl_sel (r_last r) false prefix pat excl (r_dir r) = skipn L (impl_sel start incl prefix pat excl d)) /\
    (r_last r = "" -> r_names r = []).
Proof.
  intros s d start incl L prefix pat excl Hwf.
  destruct (stream_list_inv s d start incl L prefix pat excl Hwf) as [r [m [E [[S1 [S2 [_ [S4 [S6 [_ S5]]]]]] S0]]]].
  exists r. split; [exact E|].
  rewrite S0 in S5. cbn [firstn] in S5. rewrite app_nil_r in S5.
  split.
  - intros Hl. unfold impl_sel. rewrite (S4 Hl). symmetry.
    apply (firstn_app_skipn_eq _ (filter (good (eff_prefix prefix pat) (snd (split_pattern pat)) excl)
                                         (firstn m (cand start incl (eff_prefix prefix pat) d))));
      [apply filter_firstn_skipn|exact S5].
  - intros El. rewrite S1, (S6 El). reflexivity.
Qed.
