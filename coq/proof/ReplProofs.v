(* Proofs about model/Repl.v (C36). *)
From Coq Require Import List NArith ZArith Bool String Ascii Arith Lia.
From SW Require Import model.Repl.
Import ListNotations.
Local Open Scope list_scope.

(* ---------- strings ---------- *)
Lemma sapp_assoc : forall a b c, (a ^^ b) ^^ c = a ^^ b ^^ c.
Proof. induction a as [|x a IH]; intros; simpl; [reflexivity|rewrite IH; reflexivity]. Qed.

Lemma sapp_nil_r : forall a, a ^^ EmptyString = a.
Proof. induction a as [|x a IH]; simpl; [reflexivity|rewrite IH; reflexivity]. Qed.

Lemma slen_app : forall a b, String.length (a ^^ b) = String.length a + String.length b.
Proof. induction a as [|x a IH]; intros; simpl; [reflexivity|rewrite IH; reflexivity]. Qed.

Lemma drop_app : forall a b, drop (String.length a) (a ^^ b) = b.
Proof. induction a as [|x a IH]; intros; simpl; auto. Qed.

Lemma prefix_app : forall a b, String.prefix a (a ^^ b) = true.
Proof.
  induction a as [|x a IH]; intros; simpl; [destruct b; reflexivity|].
  destruct (ascii_dec x x); [apply IH|congruence].
Qed.

Lemma prefix_inv : forall a s, String.prefix a s = true -> exists r, s = a ^^ r.
Proof.
  induction a as [|x a IH]; intros s H.
  - exists s. reflexivity.
  - destruct s as [|y s]; simpl in H; [discriminate|].
    destruct (ascii_dec x y); [|discriminate]. subst.
    destruct (IH _ H) as [r Hr]. exists r. simpl. rewrite <- Hr. reflexivity.
Qed.

Lemma nonempty_app_r : forall a b, nonempty b = true -> nonempty (a ^^ b) = true.
Proof. destruct a; simpl; auto. Qed.

(* ---------- trailing slashes ---------- *)
Lemma ends_cons : forall x y s, ends_with_slash (String x (String y s)) = ends_with_slash (String y s).
Proof. reflexivity. Qed.
Lemma trim_cons : forall x y s,
  trim_suffix_slash (String x (String y s)) = String x (trim_suffix_slash (String y s)).
Proof. reflexivity. Qed.
Lemma trim_right_cons : forall x s,
  trim_right_slashes (String x s) =
  if is_slash x && negb (nonempty (trim_right_slashes s)) then EmptyString
  else String x (trim_right_slashes s).
Proof. reflexivity. Qed.

Lemma ends_app : forall a b, nonempty b = true -> ends_with_slash (a ^^ b) = ends_with_slash b.
Proof.
  induction a as [|x a IH]; intros b Hb; [reflexivity|].
  change (String x a ^^ b) with (String x (a ^^ b)).
  pose proof (nonempty_app_r a b Hb) as Hn.
  destruct (a ^^ b) as [|y r] eqn:E; [discriminate|].
  rewrite ends_cons, <- E. apply IH; auto.
Qed.

Lemma trim_id : forall s, ends_with_slash s = false -> trim_suffix_slash s = s.
Proof.
  induction s as [|x s IH]; intros H; [reflexivity|].
  destruct s as [|y s].
  - simpl in *. rewrite H. reflexivity.
  - rewrite trim_cons. f_equal. apply IH. exact H.
Qed.

Lemma trim_app_slash : forall a, trim_suffix_slash (a ^^ "/") = a.
Proof.
  induction a as [|x a IH]; [reflexivity|].
  change (String x a ^^ "/") with (String x (a ^^ "/")).
  destruct (a ^^ "/") as [|y r] eqn:E.
  - destruct a; discriminate.
  - rewrite trim_cons. f_equal. first [exact IH | rewrite <- E; exact IH].
Qed.

Lemma ends_true_inv : forall s, ends_with_slash s = true -> s = trim_suffix_slash s ^^ "/".
Proof.
  induction s as [|x s IH]; intros H; [discriminate|].
  destruct s as [|y s].
  - simpl in *. rewrite H. unfold is_slash in H. apply Ascii.eqb_eq in H. subst. reflexivity.
  - rewrite trim_cons. change (String x (trim_suffix_slash (String y s)) ^^ "/")
      with (String x (trim_suffix_slash (String y s) ^^ "/")).
    f_equal. apply IH. exact H.
Qed.

Lemma trim_right_id : forall s, ends_with_slash s = false -> trim_right_slashes s = s.
Proof.
  induction s as [|x s IH]; intros H; [reflexivity|].
  rewrite trim_right_cons. destruct s as [|y s].
  - simpl in *. rewrite H. reflexivity.
  - rewrite IH by exact H. simpl. rewrite andb_false_r. reflexivity.
Qed.

Lemma trim_right_app_slash : forall a, nonempty a = true -> ends_with_slash a = false ->
  trim_right_slashes (a ^^ "/") = a.
Proof.
  induction a as [|x a IH]; intros Hn He; [discriminate|].
  change (String x a ^^ "/") with (String x (a ^^ "/")).
  rewrite trim_right_cons. destruct a as [|y a].
  - simpl in *. rewrite He. reflexivity.
  - rewrite IH; [|reflexivity|exact He]. simpl. rewrite andb_false_r. reflexivity.
Qed.

(* ---------- split ---------- *)
Lemma split_nonnil : forall s, split_slash s <> [].
Proof.
  induction s as [|x s IH]; simpl; [discriminate|].
  destruct (is_slash x); [discriminate|]. destruct (split_slash s); discriminate.
Qed.

Lemma split_app : forall a b, split_slash (a ^^ "/" ^^ b) = split_slash a ++ split_slash b.
Proof.
  induction a as [|x a IH]; intros b; [reflexivity|].
  change (String x a ^^ "/" ^^ b) with (String x (a ^^ "/" ^^ b)).
  cbn [split_slash]. rewrite IH.
  destruct (is_slash x); [reflexivity|].
  pose proof (split_nonnil a) as Hn. destruct (split_slash a); [congruence|reflexivity].
Qed.

Lemma split_noslash : forall x, no_slash x = true -> split_slash x = [x].
Proof.
  induction x as [|c x IH]; intros H; [reflexivity|].
  cbn [no_slash] in H. apply andb_true_iff in H. destruct H as [Hc Hx].
  cbn [split_slash]. apply negb_true_iff in Hc. rewrite Hc, IH by auto. reflexivity.
Qed.

Lemma segs_app : forall a b, segs (a ^^ "/" ^^ b) = segs a ++ segs b.
Proof. intros. unfold segs. rewrite split_app, filter_app. reflexivity. Qed.

(* "good" strings: every component is empty or plain *)
Definition good (s : string) : bool :=
  forallb (fun x => negb (nonempty x) || plain x) (split_slash s).

Lemma good_app : forall a b, good (a ^^ "/" ^^ b) = good a && good b.
Proof. intros. unfold good. rewrite split_app, forallb_app. reflexivity. Qed.

Lemma plain_facts : forall x, plain x = true ->
  nonempty x = true /\ String.eqb x "." = false /\ String.eqb x ".." = false /\ no_slash x = true.
Proof.
  intros x H. unfold plain in H. repeat (apply andb_true_iff in H; destruct H as [H ?]).
  repeat split; auto; apply negb_true_iff; auto.
Qed.

Lemma segs_plain : forall x, plain x = true -> segs x = [x].
Proof.
  intros x H. destruct (plain_facts x H) as [Hn [_ [_ Hs]]].
  unfold segs. rewrite split_noslash by auto. simpl. rewrite Hn. reflexivity.
Qed.

Lemma good_plain : forall x, plain x = true -> good x = true.
Proof.
  intros x H. destruct (plain_facts x H) as [_ [_ [_ Hs]]].
  unfold good. rewrite split_noslash by auto. simpl. rewrite H, orb_true_r. reflexivity.
Qed.

(* ---------- render / abs / rel ---------- *)
Definition rel (k : list string) : string :=
  match k with [] => EmptyString | x :: k' => x ^^ render k' end.

Lemma abs_rel : forall k, abs k = "/" ^^ rel k.
Proof. destruct k; reflexivity. Qed.

Lemma render_app : forall a b, render (a ++ b) = render a ^^ render b.
Proof.
  induction a as [|x a IH]; intros; simpl; [reflexivity|].
  rewrite IH, sapp_assoc. reflexivity.
Qed.

Lemma segs_x_render : forall l x, plain x = true -> forallb plain l = true ->
  segs (x ^^ render l) = x :: l /\ good (x ^^ render l) = true.
Proof.
  induction l as [|y l IH]; intros x Hx Hl.
  - simpl. rewrite sapp_nil_r. split; [apply segs_plain|apply good_plain]; auto.
  - simpl in Hl. apply andb_true_iff in Hl. destruct Hl as [Hy Hl].
    cbn [render]. destruct (IH y Hy Hl) as [I1 I2].
    rewrite segs_app, good_app, I1, I2, segs_plain, good_plain by auto. split; reflexivity.
Qed.

Lemma segs_rel : forall k, forallb plain k = true -> segs (rel k) = k /\ good (rel k) = true.
Proof.
  destruct k as [|x k]; intros H; [split; reflexivity|].
  simpl in H. apply andb_true_iff in H. destruct H. apply segs_x_render; auto.
Qed.

Lemma segs_render : forall k, forallb plain k = true -> segs (render k) = k /\ good (render k) = true.
Proof.
  destruct k as [|x k]; intros H; [split; reflexivity|].
  change (render (x :: k)) with (EmptyString ^^ "/" ^^ rel (x :: k)).
  rewrite segs_app, good_app. destruct (segs_rel (x :: k) H) as [A B]. rewrite A, B. split; reflexivity.
Qed.

Lemma segs_abs : forall k, forallb plain k = true -> segs (abs k) = k /\ good (abs k) = true.
Proof.
  intros k H. rewrite abs_rel. change ("/" ^^ rel k) with (EmptyString ^^ "/" ^^ rel k).
  rewrite segs_app, good_app. destruct (segs_rel k H) as [A B]. rewrite A, B. split; reflexivity.
Qed.

Lemma is_clean_abs_inv : forall s, is_clean_abs s = true ->
  exists k, forallb plain k = true /\ s = abs k /\ segs s = k.
Proof.
  intros s H. unfold is_clean_abs in H. apply andb_true_iff in H. destruct H as [Hp He].
  apply String.eqb_eq in He. exists (segs s). auto.
Qed.

Lemma is_clean_abs_abs : forall k, forallb plain k = true -> is_clean_abs (abs k) = true.
Proof.
  intros k H. unfold is_clean_abs. destruct (segs_abs k H) as [A _]. rewrite A, H, String.eqb_refl. reflexivity.
Qed.

Lemma plain_last : forall l x, forallb plain l = true -> plain x = true -> forallb plain (l ++ [x]) = true.
Proof. intros. rewrite forallb_app. simpl. rewrite H, H0. reflexivity. Qed.

Lemma ends_noslash : forall y, nonempty y = true -> no_slash y = true -> ends_with_slash y = false.
Proof.
  induction y as [|c y IH]; intros Hn Hs; [discriminate|].
  cbn [no_slash] in Hs. apply andb_true_iff in Hs. destruct Hs as [Hc Hs].
  destruct y as [|d y].
  - simpl. apply negb_true_iff. exact Hc.
  - rewrite ends_cons. apply IH; auto.
Qed.

Lemma ends_render : forall l a, forallb plain l = true -> l <> [] -> ends_with_slash (a ^^ render l) = false.
Proof.
  induction l as [|y l IH]; intros a Hl Hne; [congruence|].
  simpl in Hl. apply andb_true_iff in Hl. destruct Hl as [Hy Hl].
  destruct (plain_facts y Hy) as [Hn [_ [_ Hs]]].
  destruct l as [|z l].
  - simpl. rewrite sapp_nil_r. rewrite ends_app by reflexivity.
    destruct y as [|c y']; [discriminate|]. rewrite ends_cons. apply ends_noslash; auto.
  - cbn [render]. rewrite <- (sapp_assoc "/" y), <- sapp_assoc.
    apply (IH (a ^^ "/" ^^ y)); [auto|discriminate].
Qed.

Lemma ends_abs : forall k, forallb plain k = true -> k <> [] -> ends_with_slash (abs k) = false.
Proof.
  intros k H Hne. destruct k; [congruence|].
  change (abs (s :: k)) with (EmptyString ^^ render (s :: k)). apply ends_render; auto.
Qed.

Lemma child_abs : forall d x, forallb plain d = true -> child (abs d) x = abs (d ++ [x]).
Proof.
  intros d x Hd. unfold child. destruct d as [|y d].
  - simpl. rewrite sapp_nil_r. reflexivity.
  - rewrite ends_abs by (auto; discriminate).
    change (abs (y :: d)) with (render (y :: d)).
    change (abs ((y :: d) ++ [x])) with (render ((y :: d) ++ [x])).
    rewrite render_app. simpl. rewrite sapp_nil_r. reflexivity.
Qed.

(* ---------- list prefixes ---------- *)
Lemma lprefix_inv : forall s k, lprefix s k = true -> exists r, k = s ++ r.
Proof.
  induction s as [|x s IH]; intros k H; [exists k; reflexivity|].
  destruct k as [|y k]; [discriminate|]. simpl in H. apply andb_true_iff in H. destruct H as [E H].
  apply String.eqb_eq in E. subst. destruct (IH _ H) as [r Hr]. exists r. simpl. congruence.
Qed.

Lemma lprefix_app : forall s r, lprefix s (s ++ r) = true.
Proof. induction s as [|x s IH]; intros; simpl; [reflexivity|]. rewrite String.eqb_refl, IH. reflexivity. Qed.

Lemma list_eqb_eq : forall a b, list_eqb a b = true <-> a = b.
Proof.
  induction a as [|x a IH]; destruct b as [|y b]; simpl; split; intros H; try discriminate; auto.
  - apply andb_true_iff in H. destruct H as [E H]. apply String.eqb_eq in E. apply IH in H. congruence.
  - inversion H; subst. rewrite String.eqb_refl. apply IH. reflexivity.
Qed.

Lemma skipn_app_len : forall (s r : list string), skipn (List.length s) (s ++ r) = r.
Proof. induction s; intros; simpl; auto. Qed.

(* ---------- the component-wise prefix test ---------- *)
Lemma trim_render : forall s, forallb plain s = true -> trim_suffix_slash (render s) = render s.
Proof.
  intros s H. destruct s as [|x s]; [reflexivity|].
  apply trim_id. change (render (x :: s)) with (EmptyString ^^ render (x :: s)).
  apply ends_render; [auto|discriminate].
Qed.

(* [key == dir || HasPrefix(key, dir + "/")] for dir = render s (no trailing slash; "" for the root) *)
Lemma dir_test : forall s k, forallb plain s = true -> forallb plain k = true ->
  String.eqb (abs k) (render s) || String.prefix (render s ^^ "/") (abs k) = lprefix s k.
Proof.
  intros s k Hs Hk. destruct (lprefix s k) eqn:L.
  - destruct (lprefix_inv _ _ L) as [r Hr]. subst k.
    destruct r as [|x r].
    + rewrite app_nil_r. destruct s as [|y s].
      * reflexivity.
      * change (abs (y :: s)) with (render (y :: s)). rewrite String.eqb_refl. reflexivity.
    + assert (E : abs (s ++ x :: r) = (render s ^^ "/") ^^ rel (x :: r)).
      { destruct s; [reflexivity|]. change (abs ((s :: s0) ++ x :: r)) with (render ((s :: s0) ++ x :: r)).
        rewrite render_app, sapp_assoc. reflexivity. }
      rewrite E, prefix_app, orb_true_r. reflexivity.
  - apply not_true_is_false. intro H. apply orb_true_iff in H. destruct H as [H|H].
    + apply String.eqb_eq in H.
      assert (E : segs (abs k) = segs (render s)) by congruence.
      destruct (segs_abs k Hk) as [A _]. destruct (segs_render s Hs) as [B _].
      rewrite A, B in E. subst. rewrite <- (app_nil_r s) in L at 2. rewrite lprefix_app in L. discriminate.
    + apply prefix_inv in H. destruct H as [r Hr]. rewrite sapp_assoc in Hr.
      assert (E : segs (abs k) = segs (render s ^^ "/" ^^ r)) by congruence.
      rewrite segs_app in E. destruct (segs_abs k Hk) as [A _]. destruct (segs_render s Hs) as [B _].
      rewrite A, B in E. subst. rewrite lprefix_app in L. discriminate.
Qed.

(* pathIsUnder against a normalised source path *)
Lemma under_abs : forall s k, forallb plain s = true -> forallb plain k = true ->
  under (abs k) (abs s) = lprefix s k.
Proof.
  intros s k Hs Hk. unfold under. destruct s as [|x s].
  - change (trim_suffix_slash (abs [])) with EmptyString. simpl (lprefix [] k).
    rewrite abs_rel. change (EmptyString ^^ "/") with "/"%string.
    rewrite (prefix_app "/" (rel k)), orb_true_r. reflexivity.
  - change (abs (x :: s)) with (render (x :: s)). rewrite trim_render by auto.
    apply dir_test; auto.
Qed.

(* ---------- filepath.Clean / Join on good strings ---------- *)
Lemma clean_segs_good : forall rooted l acc,
  forallb (fun x => negb (nonempty x) || plain x) l = true ->
  clean_segs rooted acc l = rev acc ++ filter nonempty l.
Proof.
  induction l as [|x l IH]; intros acc H; simpl; [rewrite app_nil_r; reflexivity|].
  simpl in H. apply andb_true_iff in H. destruct H as [Hx Hl].
  destruct x as [|c x'].
  - simpl. apply IH; auto.
  - simpl in Hx. destruct (plain_facts _ Hx) as [_ [H1 [H2 _]]].
    rewrite H1, H2. cbn [String.eqb orb nonempty]. rewrite IH by auto. simpl.
    rewrite <- app_assoc. reflexivity.
Qed.

Lemma join_sep_abs : forall l, "/" ^^ join_sep l = abs l.
Proof.
  induction l as [|x l IH]; [reflexivity|].
  destruct l as [|y l].
  - simpl. rewrite sapp_nil_r. reflexivity.
  - change (join_sep (x :: y :: l)) with (x ^^ "/" ^^ join_sep (y :: l)).
    change (abs (x :: y :: l)) with ("/" ^^ x ^^ abs (y :: l)). rewrite <- IH. reflexivity.
Qed.

Lemma clean_good : forall s, is_rooted s = true -> good s = true -> clean s = abs (segs s).
Proof.
  intros s Hr Hg. unfold clean. destruct s as [|c s]; [discriminate|].
  rewrite Hr. unfold good in Hg. rewrite clean_segs_good by auto. simpl rev. simpl app.
  apply join_sep_abs.
Qed.

Lemma rooted_abs_app : forall t x, is_rooted (abs t ^^ x) = true.
Proof. intros. rewrite abs_rel. reflexivity. Qed.

Lemma nonempty_abs : forall t, nonempty (abs t) = true.
Proof. intros. rewrite abs_rel. reflexivity. Qed.

Lemma join2 : forall t x, forallb plain t = true -> good x = true ->
  join [abs t; x] = abs (t ++ segs x).
Proof.
  intros t x Ht Hx. cbn [join]. rewrite nonempty_abs.
  change (join_sep [abs t; x]) with (abs t ^^ "/" ^^ x).
  destruct (segs_abs t Ht) as [A B].
  rewrite clean_good.
  - rewrite segs_app, A. reflexivity.
  - apply rooted_abs_app.
  - rewrite good_app, B, Hx. reflexivity.
Qed.

Lemma join3 : forall t d x, forallb plain t = true -> good d = true -> good x = true ->
  join [abs t; d; x] = abs (t ++ segs d ++ segs x).
Proof.
  intros t d x Ht Hd Hx. cbn [join]. rewrite nonempty_abs.
  change (join_sep [abs t; d; x]) with (abs t ^^ "/" ^^ d ^^ "/" ^^ x).
  destruct (segs_abs t Ht) as [A B].
  rewrite clean_good.
  - rewrite !segs_app, A. reflexivity.
  - apply rooted_abs_app.
  - rewrite !good_app, B, Hd, Hx. reflexivity.
Qed.

(* slicing a key below the source directory *)
Lemma drop_abs_abs : forall s r, forallb plain s = true -> forallb plain r = true ->
  segs (drop (String.length (abs s)) (abs (s ++ r))) = r /\
  good (drop (String.length (abs s)) (abs (s ++ r))) = true.
Proof.
  intros s r Hs Hr. destruct s as [|x s].
  - simpl app. change (abs []) with "/"%string. rewrite (abs_rel r).
    change (drop (String.length "/") ("/" ^^ rel r)) with (rel r). apply segs_rel; auto.
  - change (abs (x :: s)) with (render (x :: s)).
    change (abs ((x :: s) ++ r)) with (render ((x :: s) ++ r)).
    rewrite render_app, drop_app. apply segs_render; auto.
Qed.

Lemma drop_render_abs : forall s r, forallb plain s = true -> forallb plain r = true ->
  segs (drop (String.length (render s)) (abs (s ++ r))) = r /\
  good (drop (String.length (render s)) (abs (s ++ r))) = true.
Proof.
  intros s r Hs Hr. destruct s as [|x s].
  - simpl. apply segs_abs; auto.
  - apply (drop_abs_abs (x :: s) r); auto.
Qed.

(* ---------- source directory normalisation ---------- *)
Lemma wf_src_cases : forall s0, wf_src s0 = true ->
  exists s, forallb plain s = true /\ segs s0 = s /\
            "/" ^^ trim_slashes s0 = abs s /\ trim_suffix_slash s0 = render s.
Proof.
  intros s0 H. unfold wf_src in H. apply orb_true_iff in H. destruct H as [H|H].
  - destruct (is_clean_abs_inv _ H) as [s [Hp [E Hs]]]. exists s. repeat split; auto; subst s0.
    + destruct s as [|x s]; [reflexivity|].
      unfold trim_slashes. change (abs (x :: s)) with ("/" ^^ rel (x :: s)).
      assert (L : trim_left_slashes ("/" ^^ rel (x :: s)) = rel (x :: s)).
      { simpl in Hp. apply andb_true_iff in Hp. destruct Hp as [Hx _].
        destruct (plain_facts x Hx) as [Hn [_ [_ Hsl]]].
        simpl. destruct x as [|c x]; [discriminate|]. simpl in Hsl. apply andb_true_iff in Hsl.
        destruct Hsl as [Hc _]. apply negb_true_iff in Hc. simpl. rewrite Hc. reflexivity. }
      rewrite L. rewrite trim_right_id; [reflexivity|].
      change (rel (x :: s)) with (x ^^ render s).
      destruct s as [|y s].
      * simpl. rewrite sapp_nil_r. pose proof (ends_render [x] EmptyString Hp) as E.
        simpl in E. rewrite sapp_nil_r in E.
        assert (E' : ends_with_slash ("/" ^^ x) = false) by (apply E; discriminate).
        rewrite ends_app in E'; auto.
        simpl in Hp. apply andb_true_iff in Hp. destruct Hp as [Hx _]. apply (plain_facts x Hx).
      * simpl in Hp. apply andb_true_iff in Hp. destruct Hp as [_ Hp].
        apply ends_render; [auto|discriminate].
    + destruct s as [|x s]; [reflexivity|]. apply trim_id. apply (ends_abs (x :: s)); [auto|discriminate].
  - apply andb_true_iff in H. destruct H as [H Hne]. apply andb_true_iff in H. destruct H as [He Hc].
    destruct (is_clean_abs_inv _ Hc) as [s [Hp [E Hs]]].
    apply negb_true_iff in Hne. rewrite E in Hne.
    destruct s as [|x s]; [discriminate|].
    pose proof (ends_true_inv _ He) as Hs0. rewrite E in Hs0.
    exists (x :: s). repeat split; auto.
    + rewrite Hs0. change (abs (x :: s) ^^ "/") with (abs (x :: s) ^^ "/" ^^ EmptyString).
      rewrite segs_app. destruct (segs_abs (x :: s) Hp) as [A _]. rewrite A. apply app_nil_r.
    + rewrite Hs0. unfold trim_slashes. change (abs (x :: s)) with ("/" ^^ rel (x :: s)).
      assert (L : trim_left_slashes (("/" ^^ rel (x :: s)) ^^ "/") = rel (x :: s) ^^ "/").
      { pose proof Hp as Hp'. simpl in Hp'. apply andb_true_iff in Hp'. destruct Hp' as [Hx _].
        destruct (plain_facts x Hx) as [Hn [_ [_ Hsl]]].
        simpl. destruct x as [|c x]; [discriminate|]. simpl in Hsl. apply andb_true_iff in Hsl.
        destruct Hsl as [Hcc _]. apply negb_true_iff in Hcc. simpl. rewrite Hcc. reflexivity. }
      rewrite L. rewrite trim_right_app_slash; [reflexivity| |].
      * simpl in Hp. apply andb_true_iff in Hp. destruct Hp as [Hx _].
        destruct (plain_facts x Hx) as [Hn _]. destruct x; [discriminate|reflexivity].
      * pose proof (ends_abs (x :: s) Hp) as E2. change (abs (x :: s)) with ("/" ^^ rel (x :: s)) in E2.
        rewrite ends_app in E2; [apply E2; discriminate|].
        simpl in Hp. apply andb_true_iff in Hp. destruct Hp as [Hx _].
        destruct (plain_facts x Hx) as [Hn _]. destruct x; [discriminate|reflexivity].
Qed.

(* ---------- more about list prefixes ---------- *)
Lemma lprefix_nil_r : forall s, lprefix s [] = list_eqb s [].
Proof. destruct s; reflexivity. Qed.

Lemma lprefix_snoc : forall s d x,
  lprefix s (d ++ [x]) = lprefix s d || list_eqb s (d ++ [x]).
Proof.
  induction s as [|a s IH]; intros d x; [reflexivity|].
  destruct d as [|b d]; simpl.
  - rewrite lprefix_nil_r. reflexivity.
  - rewrite IH. rewrite andb_orb_distrib_r. reflexivity.
Qed.

Lemma list_eqb_sym : forall a b, list_eqb a b = list_eqb b a.
Proof.
  induction a as [|x a IH]; destruct b as [|y b]; simpl; auto.
  rewrite IH, String.eqb_sym. reflexivity.
Qed.

Lemma lprefix_len : forall s k, lprefix s k = true -> List.length s <= List.length k.
Proof.
  intros s k H. destruct (lprefix_inv _ _ H) as [r Hr]. subst. rewrite app_length. lia.
Qed.

Definition inside_b (s k : list string) : bool :=
  lprefix s k && Nat.ltb (List.length s) (List.length k).

Lemma inside_snoc : forall s d x, list_eqb (d ++ [x]) s = false ->
  lprefix s (d ++ [x]) = lprefix s d /\ inside_b s (d ++ [x]) = lprefix s d.
Proof.
  intros s d x Hne. rewrite list_eqb_sym in Hne. unfold inside_b.
  rewrite lprefix_snoc, Hne, orb_false_r. split; [reflexivity|].
  destruct (lprefix s d) eqn:L; [|reflexivity].
  apply lprefix_len in L. rewrite app_length. simpl.
  apply Nat.ltb_lt. lia.
Qed.

Lemma abs_len_mono : forall s p, lprefix s p = true ->
  Nat.ltb (String.length (abs p)) (String.length (abs s)) = false.
Proof.
  intros s p H. apply Nat.ltb_ge. destruct (lprefix_inv _ _ H) as [r Hr]. subst p.
  destruct s as [|x s].
  - simpl app. rewrite (abs_rel r). simpl. lia.
  - change (abs ((x :: s) ++ r)) with (render ((x :: s) ++ r)).
    rewrite render_app, slen_app. change (abs (x :: s)) with (render (x :: s)). lia.
Qed.

(* ---------- the configuration and the event, decoded ---------- *)
Lemma wf_config_inv : forall c, wf_config c = true ->
  exists s t, forallb plain s = true /\ forallb plain t = true /\
    src_segs c = s /\ tgt_segs c = t /\
    "/" ^^ trim_slashes (src c) = abs s /\ trim_suffix_slash (src c) = render s /\ tgt c = abs t.
Proof.
  intros c H. unfold wf_config in H. apply andb_true_iff in H. destruct H as [Hs Ht].
  destruct (wf_src_cases _ Hs) as [s [Ps [Es [En Et]]]].
  destruct (is_clean_abs_inv _ Ht) as [t [Pt [Et1 Et2]]].
  exists s, t. unfold src_segs, tgt_segs. repeat split; auto.
Qed.

Lemma wf_event_inv : forall ev, wf_event ev = true ->
  is_clean_abs (ev_dir ev) = true /\
  opt_all (fun o => plain (e_name o)) (ev_old ev) = true /\
  opt_all (fun n => plain (e_name n) && is_clean_abs (ev_new_parent ev)) (ev_new ev) = true /\
  match ev_old ev, ev_new ev with
  | None, Some _ => String.eqb (ev_dir ev) (ev_new_parent ev)
  | _, _ => true
  end = true.
Proof.
  intros ev H. unfold wf_event in H.
  apply andb_true_iff in H. destruct H as [H H4].
  apply andb_true_iff in H. destruct H as [H H3].
  apply andb_true_iff in H. destruct H as [H1 H2]. auto.
Qed.

(* key mapping, non-incremental: Join(target, key[len(source):]) *)
Lemma map_key : forall c s t k, forallb plain s = true -> forallb plain t = true -> forallb plain k = true ->
  src_segs c = s -> tgt_segs c = t -> tgt c = abs t -> lprefix s k = true ->
  join [tgt c; drop (String.length (abs s)) (abs k)] = map_path c k.
Proof.
  intros c s t k Ps Pt Pk Es Et Etgt L. destruct (lprefix_inv _ _ L) as [r Hr]. subst k.
  rewrite forallb_app in Pk. apply andb_true_iff in Pk. destruct Pk as [_ Pr].
  destruct (drop_abs_abs s r Ps Pr) as [A B].
  rewrite Etgt, join2 by auto. rewrite A. unfold map_path. rewrite Es, Et, skipn_app_len. reflexivity.
Qed.

(* the same for Replicate: Join(sinkDir, "", key[len(dir):]) *)
Lemma map_key_r : forall c s t k, forallb plain s = true -> forallb plain t = true -> forallb plain k = true ->
  src_segs c = s -> tgt_segs c = t -> tgt c = abs t -> lprefix s k = true ->
  join [tgt c; EmptyString; drop (String.length (render s)) (abs k)] = map_path c k.
Proof.
  intros c s t k Ps Pt Pk Es Et Etgt L. destruct (lprefix_inv _ _ L) as [r Hr]. subst k.
  rewrite forallb_app in Pk. apply andb_true_iff in Pk. destruct Pk as [_ Pr].
  destruct (drop_render_abs s r Ps Pr) as [A B].
  rewrite Etgt, join3 by auto. rewrite A. unfold map_path. rewrite Es, Et, skipn_app_len. reflexivity.
Qed.

Local Arguments join : simpl never.
Local Arguments clean : simpl never.
Local Arguments drop : simpl never.
Local Arguments abs : simpl never.
Local Arguments render : simpl never.
Local Arguments String.length : simpl never.
Local Arguments child : simpl never.
Local Arguments under : simpl never.
Local Arguments lprefix : simpl never.
Local Arguments list_eqb : simpl never.
Local Arguments map_path : simpl never.
Local Arguments Nat.ltb : simpl never.

(* ---------- C36: events outside the watched subtree are ignored ---------- *)
Theorem sync_outside_ignored : forall c ev,
  wf_config c = true -> wf_event ev = true -> all_outside c ev = true ->
  sync_process c ev = Nothing.
Proof.
  intros c ev Hc He Ho.
  destruct (wf_config_inv c Hc) as [s [t [Ps [Pt [Es [Et [En [_ Etgt]]]]]]]].
  destruct (wf_event_inv ev He) as [Hd [Hold [Hnew Hsame]]].
  destruct (is_clean_abs_inv _ Hd) as [d [Pd [Ed Sd]]].
  unfold all_outside, old_key, new_key in Ho. rewrite Es, Sd in Ho.
  unfold sync_process. rewrite En.
  destruct (ev_old ev) as [o|]; destruct (ev_new ev) as [n|]; simpl in Ho, Hnew, Hsame |- *.
  - apply andb_true_iff in Hnew. destruct Hnew as [_ Cp].
    destruct (is_clean_abs_inv _ Cp) as [p [Pp [Ep Sp]]].
    rewrite Sp in Ho. rewrite Ep, Ed, !under_abs by auto.
    apply andb_true_iff in Ho. destruct Ho as [O1 O2]. apply negb_true_iff in O1, O2.
    rewrite lprefix_snoc in O1, O2. apply orb_false_iff in O1, O2.
    destruct O1 as [O1 _]. destruct O2 as [O2 _]. rewrite O1, O2. reflexivity.
  - rewrite andb_true_r in Ho. apply negb_true_iff in Ho. rewrite lprefix_snoc in Ho.
    apply orb_false_iff in Ho. destruct Ho as [O1 _].
    rewrite Ed, under_abs by auto. rewrite O1. reflexivity.
  - apply String.eqb_eq in Hsame. rewrite <- Hsame, Sd in Ho. rewrite <- Hsame, Ed, !under_abs by auto.
    apply negb_true_iff in Ho. rewrite lprefix_snoc in Ho.
    apply orb_false_iff in Ho. destruct Ho as [O1 _]. rewrite O1. reflexivity.
  - destruct (negb _ && _); reflexivity.
Qed.

Theorem replicate_outside_ignored : forall c k ev,
  wf_config c = true -> forallb plain k = true -> lprefix (src_segs c) k = false ->
  replicate c (abs k) ev = Nothing.
Proof.
  intros c k ev Hc Pk Ho.
  destruct (wf_config_inv c Hc) as [s [t [Ps [Pt [Es [Et [_ [Er Etgt]]]]]]]].
  unfold replicate. destruct (ev_from_other ev && sink_is_filer c); [reflexivity|].
  rewrite Er, <- negb_orb, dir_test by auto. rewrite Es in Ho. rewrite Ho. reflexivity.
Qed.

(* ---------- C36: no echo ---------- *)
Theorem sync_no_echo : forall c ev,
  target_sig c <> 0%Z -> In (target_sig c) (ev_sigs ev) -> sync_filtered c ev = Nothing.
Proof.
  intros c ev Hz Hin. unfold sync_filtered.
  assert (E : carries_sig c ev = true).
  { unfold carries_sig. apply existsb_exists. exists (target_sig c). split; auto.
    rewrite Z.eqb_refl. simpl. apply negb_true_iff. apply Z.eqb_neq. auto. }
  rewrite E. reflexivity.
Qed.

Theorem sync_filter_transparent : forall c ev,
  ~ In (target_sig c) (ev_sigs ev) -> sync_filtered c ev = sync_process c ev.
Proof.
  intros c ev Hn. unfold sync_filtered.
  assert (E : carries_sig c ev = false).
  { unfold carries_sig. apply not_true_is_false. intro H. apply existsb_exists in H.
    destruct H as [x [Hx Hb]]. apply andb_true_iff in Hb. destruct Hb as [Hb _].
    apply Z.eqb_eq in Hb. subst. auto. }
  rewrite E. reflexivity.
Qed.

Theorem replicate_no_echo : forall c key ev,
  ev_from_other ev = true -> sink_is_filer c = true -> replicate c key ev = Nothing.
Proof. intros c key ev H1 H2. unfold replicate. rewrite H1, H2. reflexivity. Qed.

(* ---------- C36: mirror, genProcessFunction ---------- *)
Theorem sync_mirror : forall c ev,
  wf_config c = true -> wf_event ev = true -> incremental c = false ->
  touches_root c ev = false ->
  sync_process c ev = mirror_spec c ev.
Proof.
  intros c ev Hc He Hi Hroot.
  destruct (wf_config_inv c Hc) as [s [t [Ps [Pt [Es [Et [En [_ Etgt]]]]]]]].
  destruct (wf_event_inv ev He) as [Hd [Hold [Hnew Hsame]]].
  destruct (is_clean_abs_inv _ Hd) as [d [Pd [Ed Sd]]].
  unfold touches_root, old_key, new_key in Hroot. rewrite Es, Sd in Hroot.
  unfold sync_process, mirror_spec, build_key, inside. rewrite En, Sd, Es, Hi, Ed.
  rewrite under_abs by auto.
  destruct (ev_old ev) as [o|]; destruct (ev_new ev) as [n|]; simpl in Hold, Hnew, Hroot |- *.
  - (* update / rename within, out of, into the subtree *)
    apply andb_true_iff in Hnew. destruct Hnew as [Pn Cp].
    destruct (is_clean_abs_inv _ Cp) as [p [Pp [Ep Sp]]].
    rewrite Sp in Hroot |- *. rewrite Ep.
    apply orb_false_iff in Hroot. destruct Hroot as [R1 R2].
    destruct (inside_snoc s d (e_name o) R1) as [U1 I1].
    destruct (inside_snoc s p (e_name n) R2) as [U2 I2].
    unfold inside, inside_b in *.
    rewrite !child_abs by auto.
    rewrite !under_abs by (auto using plain_last).
    rewrite I1, I2, U1, U2.
    destruct (lprefix s d) eqn:D; destruct (lprefix s p) eqn:P; simpl.
    + rewrite abs_len_mono by auto.
      rewrite !(map_key c s t) by (auto using plain_last; rewrite ?U1, ?U2; auto).
      reflexivity.
    + rewrite !(map_key c s t) by (auto using plain_last; rewrite ?U1, ?U2; auto).
      reflexivity.
    + rewrite !(map_key c s t) by (auto using plain_last; rewrite ?U1, ?U2; auto).
      reflexivity.
    + reflexivity.
  - (* delete *)
    rewrite orb_false_r in Hroot.
    destruct (inside_snoc s d (e_name o) Hroot) as [U1 I1].
    unfold inside_b in I1. rewrite !child_abs by auto.
    rewrite !under_abs by (auto using plain_last). rewrite I1, U1.
    destruct (lprefix s d) eqn:D; simpl; [|reflexivity].
    rewrite (map_key c s t) by (auto using plain_last; rewrite ?U1; auto). reflexivity.
  - (* create *)
    apply andb_true_iff in Hnew. destruct Hnew as [Pn Cp].
    apply String.eqb_eq in Hsame. rewrite <- Hsame, Sd in Hroot |- *. rewrite Ed.
    destruct (inside_snoc s d (e_name n) Hroot) as [U1 I1].
    unfold inside_b in I1. rewrite !child_abs by auto.
    rewrite !under_abs by (auto using plain_last). rewrite I1, U1.
    destruct (lprefix s d) eqn:D; simpl; [|reflexivity].
    rewrite (map_key c s t) by (auto using plain_last; rewrite ?U1; auto). reflexivity.
  - destruct (lprefix s d); reflexivity.
Qed.

(* ---------- C36: mirror, Replicator.Replicate ---------- *)
Theorem replicate_mirror_partial : forall c ev,
  wf_config c = true -> wf_event ev = true -> incremental c = false ->
  ev_from_other ev && sink_is_filer c = false ->
  touches_root c ev = false -> replicate_unsafe c ev = false ->
  replicate c (event_key ev) ev = mirror_spec c ev.
Proof.
  intros c ev Hc He Hi Hecho Hroot Hsafe.
  destruct (wf_config_inv c Hc) as [s [t [Ps [Pt [Es [Et [_ [Er Etgt]]]]]]]].
  destruct (wf_event_inv ev He) as [Hd [Hold [Hnew Hsame]]].
  destruct (is_clean_abs_inv _ Hd) as [d [Pd [Ed Sd]]].
  unfold touches_root, old_key, new_key in Hroot. rewrite Es, Sd in Hroot.
  unfold replicate_unsafe, old_key, new_key in Hsafe. rewrite Sd in Hsafe.
  unfold replicate, mirror_spec, event_key, inside. rewrite Hecho, Er, Sd, Es, Hi, Ed.
  rewrite <- negb_orb.
  destruct (ev_old ev) as [o|]; destruct (ev_new ev) as [n|]; simpl in Hold, Hnew, Hroot, Hsafe |- *.
  - apply andb_true_iff in Hnew. destruct Hnew as [Pn Cp].
    destruct (is_clean_abs_inv _ Cp) as [p [Pp [Ep Sp]]].
    rewrite Sp in Hroot, Hsafe |- *.
    apply orb_false_iff in Hroot. destruct Hroot as [R1 R2].
    destruct (inside_snoc s d (e_name o) R1) as [U1 I1].
    destruct (inside_snoc s p (e_name n) R2) as [U2 I2].
    unfold inside, inside_b in *. rewrite Es in Hsafe.
    rewrite child_abs, dir_test by (auto using plain_last).
    rewrite I1, I2, U1. rewrite I1, I2 in Hsafe.
    apply negb_false_iff in Hsafe.
    destruct (lprefix s d) eqn:D; simpl in Hsafe |- *.
    + apply andb_true_iff in Hsafe. destruct Hsafe as [Hsafe Hnp].
      apply list_eqb_eq in Hsafe. apply String.eqb_eq in Hnp.
      assert (P : lprefix s p = true).
      { rewrite <- U2, <- Hsafe. exact U1. }
      rewrite P. rewrite (map_key_r c s t) by (auto using plain_last; rewrite ?U1; auto).
      rewrite <- Hsafe. rewrite Hnp. reflexivity.
    + rewrite orb_false_r in Hsafe. apply negb_true_iff in Hsafe. rewrite Hsafe. reflexivity.
  - rewrite orb_false_r in Hroot.
    destruct (inside_snoc s d (e_name o) Hroot) as [U1 I1].
    unfold inside_b in I1. rewrite child_abs, dir_test by (auto using plain_last). rewrite I1, U1.
    destruct (lprefix s d) eqn:D; simpl; [|reflexivity].
    rewrite (map_key_r c s t) by (auto using plain_last; rewrite ?U1; auto). reflexivity.
  - apply andb_true_iff in Hnew. destruct Hnew as [Pn Cp].
    destruct (is_clean_abs_inv _ Cp) as [p [Pp [Ep Sp]]].
    rewrite Sp in Hroot |- *. rewrite Ep.
    destruct (inside_snoc s p (e_name n) Hroot) as [U1 I1].
    unfold inside_b in I1. rewrite child_abs, dir_test by (auto using plain_last). rewrite I1, U1.
    destruct (lprefix s p) eqn:D; simpl; [|reflexivity].
    rewrite (map_key_r c s t) by (auto using plain_last; rewrite ?U1; auto). reflexivity.
  - destruct (_ || _); reflexivity.
Qed.

(* ---------- the full statement for Replicate and its refutation ---------- *)
Definition mirror_full_replicate : Prop := forall c ev,
  wf_config c = true -> wf_event ev = true -> incremental c = false ->
  ev_from_other ev && sink_is_filer c = false ->
  touches_root c ev = false -> replicate c (event_key ev) ev = mirror_spec c ev.

Definition w_cfg : config :=
  {| src := "/data"; tgt := "/backup"; incremental := false; sink_is_filer := false; target_sig := 0 |}.
Definition w_entry (n : string) : entry := {| e_name := n; e_isdir := false; e_date := "2021-03-04"; e_data := [] |}.
(* /other/x moved to /data/x *)
Definition w_rename_in : event :=
  {| ev_dir := "/other"; ev_old := Some (w_entry "x"); ev_new := Some (w_entry "x");
     ev_new_parent := "/data"; ev_delete_chunks := false; ev_from_other := false; ev_sigs := [] |}.
(* /data/x updated in place *)
Definition w_update : event :=
  {| ev_dir := "/data"; ev_old := Some (w_entry "x"); ev_new := Some (w_entry "x");
     ev_new_parent := "/data"; ev_delete_chunks := false; ev_from_other := false; ev_sigs := [] |}.

Theorem replicate_mirror_refuted : ~ mirror_full_replicate.
Proof.
  intro H. specialize (H w_cfg w_update eq_refl eq_refl eq_refl eq_refl eq_refl).
  vm_compute in H. discriminate.
Qed.

Lemma witnesses_triggers : replicate_unsafe w_cfg w_update = true.
Proof. vm_compute. reflexivity. Qed.

(* the former witness of the dropped move into the subtree now creates the entry *)
Example rename_in_creates :
  sync_process w_cfg w_rename_in = Do (Create "/backup/x" (w_entry "x")).
Proof. vm_compute. reflexivity. Qed.

(* ---------- LocalSink ---------- *)
(* UpdateEntry of an entry that stays where it is rewrites the file *)
Theorem local_update_in_place : forall t key np e dc,
  is_multipart key = false -> join [np; e_name e] = key ->
  local_do t (Update key np e dc) =
  (fst (local_create t key e), (local_exists t key, snd (local_create t key e))).
Proof.
  intros t key np e dc Hm Hj. unfold local_do. rewrite Hm, Hj, String.eqb_refl. simpl.
  destruct (local_create t key e). reflexivity.
Qed.

(* a moved entry: UpdateEntry reports "not found" and touches nothing, so the
   plan deletes the old key and creates the new one, on every tree *)
Theorem local_move : forall t key np n dc isdir cr,
  is_multipart key = false -> join [np; e_name n] <> key ->
  fst (exec_plan _ local_do t (UpdateOr (Update key np n dc) (Delete key isdir false) cr)) =
  fst (local_do (local_delete t key) cr).
Proof.
  intros t key np n dc isdir cr Hm Hj. unfold exec_plan.
  assert (E : local_do t (Update key np n dc) = (t, (false, false))).
  { unfold local_do. rewrite Hm. apply String.eqb_neq in Hj. rewrite Hj. reflexivity. }
  rewrite E. simpl. destruct (local_do (local_delete t key) cr) as [t' [f e]]. reflexivity.
Qed.

(* joining the mapped parent with a plain name is the mapped child *)
Lemma join_child : forall l x, forallb plain l = true -> plain x = true ->
  join [abs l; x] = abs (l ++ [x]).
Proof.
  intros l x Hl Hx. rewrite join2 by (auto using good_plain). rewrite segs_plain by auto. reflexivity.
Qed.

Lemma abs_inj : forall a b, forallb plain a = true -> forallb plain b = true -> abs a = abs b -> a = b.
Proof.
  intros a b Ha Hb E. destruct (segs_abs a Ha) as [A _]. destruct (segs_abs b Hb) as [B _].
  rewrite <- A, <- B, E. reflexivity.
Qed.

Lemma forallb_skipn : forall (f : string -> bool) n l, forallb f l = true -> forallb f (skipn n l) = true.
Proof.
  intros f n. induction n as [|n IH]; intros l H; [exact H|].
  destruct l as [|x l]; [reflexivity|]. simpl in H. apply andb_true_iff in H. destruct H. simpl. apply IH. auto.
Qed.

(* FULL, all trees: a rename inside the watched subtree through genProcessFunction
   into a LocalSink removes the mapped old path and creates the mapped new path *)
Theorem local_sync_move : forall c ev o n t,
  wf_config c = true -> wf_event ev = true -> incremental c = false ->
  touches_root c ev = false ->
  ev_old ev = Some o -> ev_new ev = Some n ->
  let ok := segs (ev_dir ev) ++ [e_name o] in
  let nk := segs (ev_new_parent ev) ++ [e_name n] in
  inside c ok = true -> inside c nk = true -> ok <> nk ->
  is_multipart (map_path c ok) = false ->
  fst (exec_plan _ local_do t (sync_process c ev)) =
  fst (local_create (local_delete t (map_path c ok)) (map_path c nk) n).
Proof.
  intros c ev o n t Hc He Hi Hroot Ho Hn ok nk Iok Ink Hne Hm.
  rewrite (sync_mirror c ev Hc He Hi Hroot). unfold mirror_spec. rewrite Ho, Hn.
  fold ok. fold nk. rewrite Iok, Ink.
  destruct (wf_config_inv c Hc) as [s [tt [Ps [Pt [Es [Et [_ [_ Etgt]]]]]]]].
  destruct (wf_event_inv ev He) as [Hd [Hold [Hnew _]]].
  rewrite Ho in Hold. rewrite Hn in Hnew. simpl in Hold, Hnew.
  apply andb_true_iff in Hnew. destruct Hnew as [Pn Cp].
  destruct (is_clean_abs_inv _ Hd) as [d [Pd [Ed Sd]]].
  destruct (is_clean_abs_inv _ Cp) as [p [Pp [Ep Sp]]].
  assert (J : join [map_path c (segs (ev_new_parent ev)); e_name n] = map_path c nk).
  { unfold nk. rewrite Sp. unfold map_path. rewrite Es, Et.
    unfold inside in Ink. rewrite Es in Ink. apply andb_true_iff in Ink. destruct Ink as [L _].
    unfold nk in L. rewrite Sp in L.
    assert (Lp : lprefix s p = true).
    { unfold touches_root, new_key in Hroot. rewrite Hn, Es, Sp in Hroot. simpl in Hroot.
      apply orb_false_iff in Hroot. destruct Hroot as [_ R2].
      destruct (inside_snoc s p (e_name n) R2) as [U _]. rewrite <- U. exact L. }
    destruct (lprefix_inv _ _ Lp) as [r Hr]. rewrite Hr in Pp |- *.
    rewrite <- app_assoc, !skipn_app_len.
    rewrite forallb_app in Pp. apply andb_true_iff in Pp. destruct Pp as [_ Pr].
    rewrite join_child by (auto; rewrite forallb_app, Pt, Pr; reflexivity).
    rewrite <- app_assoc. reflexivity. }
  assert (Hj : join [map_path c (segs (ev_new_parent ev)); e_name n] <> map_path c ok).
  { rewrite J. intro E. apply Hne. unfold map_path in E. rewrite Es, Et in E.
    unfold inside in Iok, Ink. rewrite Es in Iok, Ink.
    apply andb_true_iff in Iok. destruct Iok as [L1 _]. apply andb_true_iff in Ink. destruct Ink as [L2 _].
    destruct (lprefix_inv _ _ L1) as [r1 H1]. destruct (lprefix_inv _ _ L2) as [r2 H2].
    rewrite H1, H2 in E |- *. rewrite !skipn_app_len in E.
    assert (P1 : forallb plain ok = true) by (unfold ok; rewrite Sd; auto using plain_last).
    assert (P2 : forallb plain nk = true) by (unfold nk; rewrite Sp; auto using plain_last).
    rewrite H1 in P1. rewrite H2 in P2. rewrite forallb_app in P1, P2.
    apply andb_true_iff in P1. destruct P1 as [_ P1]. apply andb_true_iff in P2. destruct P2 as [_ P2].
    apply abs_inj in E; [|rewrite forallb_app, Pt; auto|rewrite forallb_app, Pt; auto].
    apply app_inv_head in E. congruence. }
  rewrite (local_move t _ _ n _ _ _ Hm Hj). unfold local_do.
  destruct (local_create (local_delete t (map_path c ok)) (map_path c nk) n). reflexivity.
Qed.

Definition w_lcfg : config :=
  {| src := "/data"; tgt := "/t"; incremental := false; sink_is_filer := false; target_sig := 0 |}.
Definition w_lcreate : event :=
  {| ev_dir := "/data"; ev_old := None; ev_new := Some (w_entry "a");
     ev_new_parent := "/data"; ev_delete_chunks := false; ev_from_other := false; ev_sigs := [] |}.
Definition w_lrename : event :=
  {| ev_dir := "/data"; ev_old := Some (w_entry "a"); ev_new := Some (w_entry "b");
     ev_new_parent := "/data"; ev_delete_chunks := true; ev_from_other := false; ev_sigs := [] |}.

(* the former witness history: the file set now follows the reference *)
Example local_rename_history :
  wf_config w_lcfg = true /\ forallb wf_event [w_lcreate; w_lrename] = true /\
  files_of (fst (run_local w_lcfg [] [w_lcreate; w_lrename])) = ["/t/b"%string] /\
  spec_files w_lcfg [w_lcreate; w_lrename] = ["/t/b"%string].
Proof. vm_compute. auto. Qed.

(* create / delete / in-place update of one file: the file set follows the reference *)
Example local_single_ops :
  let evs := [w_lcreate; w_update; w_lcreate;
              {| ev_dir := "/data"; ev_old := Some (w_entry "x"); ev_new := None; ev_new_parent := "";
                 ev_delete_chunks := true; ev_from_other := false; ev_sigs := [] |}] in
  files_of (fst (run_local w_lcfg [] evs)) = spec_files w_lcfg evs.
Proof. vm_compute. reflexivity. Qed.

(* ---------- the old string-prefix test (before the repair) ---------- *)
(* strings.HasPrefix(key, dir): "/data2/x" passes for dir "/data", while the
   component-wise test rejects it *)
Example legacy_prefix_sibling :
  String.prefix "/data" "/data2/x" = true /\ under "/data2/x" "/data" = false /\
  replicate w_cfg "/data2/x" w_update = Nothing.
Proof. vm_compute. auto. Qed.
