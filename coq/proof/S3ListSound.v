(* C27, page soundness: for a marker without "/" and a clean prefix that does not point
   into the multipart area, the items of a page are a subsequence of the reference
   listing and at most max-keys many — on EVERY well-formed tree.  Plus what the
   reference listing consists of. *)
From Coq Require Import List NArith ZArith Bool String Ascii Arith Lia.
From SW Require Import model.S3List proof.S3ListProofs.
Import ListNotations.
Local Open Scope string_scope.
Local Open Scope list_scope.
Local Notation length := List.length.

(* induction over the nested tree type *)
Section TreeInd.
  Variable P : tree -> Prop.
  Hypothesis HF : forall n, P (File n).
  Hypothesis HD : forall n k, Forall P k -> P (Dir n k).
  Fixpoint tree_ind' (t : tree) : P t :=
    match t with
    | File n => HF n
    | Dir n k => HD n k ((fix go (l : list tree) : Forall P l :=
                            match l with
                            | [] => Forall_nil P
                            | x :: r => Forall_cons x (tree_ind' x) (go r)
                            end) k)
    end.
End TreeInd.

Lemma cut_slash_count : forall s, count_slash s = 0 -> cut_slash s = None.
Proof.
  induction s as [|c s IH]; simpl; intros H; [reflexivity|].
  destruct (Ascii.eqb c slash); [discriminate|]. rewrite (IH H). reflexivity.
Qed.

Lemma do_list_S : forall ae rootk delim f D prefix maxKeys marker,
  do_list ae rootk delim (S f) D prefix maxKeys marker =
  if (prefix =? "/") && delim then empty_res
  else if (maxKeys <=? 0)%Z then empty_res
  else
    let '(items0, maxKeys1, trunc0, next0, marker1) :=
      match cut_slash marker with
      | Some (subDir, subMarker) =>
          let r := do_list ae rootk delim f (D ++ [subDir]) "" maxKeys subMarker in
          (r_items r, (maxKeys - r_count r)%Z, r_trunc r, (subDir ++ "/" ++ r_next r)%string, subDir)
      | None => ([], maxKeys, false, "", marker)
      end in
    loop ae rootk delim (fun D' m' => do_list ae rootk delim f D' "" m' "") D maxKeys1
         (list_entries (resolve rootk D) prefix marker1 (Z.to_nat (maxKeys1 + 1))) items0 0%Z trunc0 next0.
Proof. reflexivity. Qed.

Lemma plain_of_bad_prefix : forall prefix, bad_prefix prefix = false -> plain (req_dir prefix).
Proof.
  intros prefix H. unfold bad_prefix in H. apply orb_false_iff in H. destruct H as [H _].
  unfold req_dir. set (D := fst (split_prefix prefix)) in *.
  assert (P : plain D).
  { unfold plain. apply Forall_forall. intros s Hs E. subst s.
    assert (existsb (String.eqb "") D = true) by (apply existsb_exists; exists ""; split; [exact Hs | reflexivity]).
    rewrite H in H0. discriminate. }
  unfold strip_leading_empty. destruct D as [|s D']; [exact P|].
  destruct s; [|exact P]. inversion P. contradiction.
Qed.

Theorem page_sound_partial : forall ae rootk prefix M marker delim,
  wf rootk = true -> count_slash marker = 0 -> bad_prefix prefix = false ->
  subseq (r_items (list_items ae rootk prefix M marker delim)) (ref_list ae rootk prefix delim) /\
  (Z.of_nat (length (r_items (list_items ae rootk prefix M marker delim))) <= Z.max 0 M)%Z.
Proof.
  intros ae rootk prefix M marker delim Hwf Hm Hp.
  unfold list_items, list_fuel, ref_list.
  set (D := req_dir prefix). set (pfx := snd (split_prefix prefix)).
  pose proof (plain_of_bad_prefix prefix Hp) as HP. fold D in HP.
  remember (S (forest_height rootk + count_slash marker)) as f eqn:Ef. clear Ef.
  rewrite do_list_S.
  destruct ((pfx =? "/") && delim); [simpl; split; [constructor | lia]|].
  destruct (M <=? 0)%Z; [simpl; split; [constructor | lia]|].
  rewrite (cut_slash_count marker Hm).
  destruct (walk rootk D) as [K|] eqn:HW.
  - pose proof (walk_wf D rootk K Hwf HW) as HK.
    rewrite (resolve_plain rootk D K HP HW). unfold list_entries.
    set (es := firstn (Z.to_nat (M + 1)) (filter (fun t => String.prefix pfx (tname t) && String.ltb marker (tname t)) K)).
    assert (Hsub : subseq es (filter (fun t => String.prefix pfx (tname t)) K)).
    { unfold es. apply (subseq_trans _ _ _ _ (subseq_firstn _ _ _)). apply subseq_filter2. }
    assert (Hin : forall e, In e es -> In e K).
    { intros e He. apply (subseq_in _ _ _ e (subseq_filter _ (fun t => String.prefix pfx (tname t)) K)).
      exact (subseq_in _ _ _ e Hsub He). }
    destruct (loop_sound ae rootk delim (fun D' m' => do_list ae rootk delim f D' "" m' "") D K M
                (do_list_sound ae rootk delim f) HP HW HK es Hin [] 0%Z false "") as [X [E1 [E2 [E3 E4]]]].
    simpl in E1. rewrite E1. split.
    + apply (subseq_trans _ _ _ _ E2). apply subseq_flat_map. exact Hsub.
    + rewrite E3 in E4. lia.
  - unfold resolve. rewrite (strip_trailing_plain D HP). rewrite HW. unfold list_entries. simpl.
    rewrite firstn_nil. simpl. split; [constructor | lia].
Qed.

(* ---------- what the reference listing consists of ---------- *)

Definition item_path (it : item) : list string := match it with IKey p => p | ICP p => p end.

Definition files_under (D : list string) (K : list tree) : list (list string) :=
  map (app D) (flat_map files_of K).

(* every key of the reference listing is the path of a file of the tree *)
Lemma ref_tree_keys_real : forall ae delim t D p,
  In (IKey p) (ref_tree ae delim D t) -> In p (map (app D) (files_of t)).
Proof.
  intros ae delim t. induction t as [n|n k IH] using tree_ind'; intros D p H.
  - simpl in H. destruct H as [E|[]]. inversion E; subst. simpl. left. reflexivity.
  - simpl in H. destruct (n =? uploads); [destruct H|].
    destruct delim.
    + destruct (ae || existsb tree_has_file k); [destruct H as [E|[]]; discriminate | destruct H].
    + simpl files_of. rewrite map_map.
      apply in_flat_map in H. destruct H as [c [Hc Hp]].
      rewrite Forall_forall in IH.
      pose proof (IH c Hc (D ++ [n]) p Hp) as G.
      apply in_map_iff in G. destruct G as [q [E Hq]]. subst p.
      apply in_map_iff. exists q. split; [rewrite <- app_assoc; reflexivity|].
      apply in_flat_map. exists c. split; assumption.
Qed.

Theorem ref_keys_real : forall ae delim D K p,
  In (IKey p) (ref_forest ae delim D K) -> In p (files_under D K).
Proof.
  intros ae delim D K p H. unfold ref_forest in H. apply in_flat_map in H. destruct H as [t [Ht Hp]].
  pose proof (ref_tree_keys_real ae delim t D p Hp) as G. unfold files_under.
  apply in_map_iff in G. destruct G as [q [E Hq]]. apply in_map_iff. exists q. split; [exact E|].
  apply in_flat_map. exists t. split; assumption.
Qed.

(* the multipart directory never contributes *)
Theorem ref_skips_uploads : forall ae delim D k, ref_tree ae delim D (Dir uploads k) = [].
Proof. intros. simpl. reflexivity. Qed.

(* with a delimiter: keys are the files of the directory itself, common prefixes are
   its sub directories (not ".uploads"; non-empty unless -allowEmptyFolder) *)
Theorem ref_delim_shape : forall ae D K it, In it (ref_forest ae true D K) ->
  match it with
  | IKey p => exists n, p = D ++ [n] /\ In (File n) K
  | ICP p => exists n k, p = D ++ [n] /\ In (Dir n k) K /\ n <> uploads /\ (ae = true \/ has_file k = true)
  end.
Proof.
  intros ae D K it H. unfold ref_forest in H. apply in_flat_map in H. destruct H as [t [Ht Hi]].
  destruct t as [n|n k]; simpl in Hi.
  - destruct Hi as [E|[]]. subst it. exists n. split; [reflexivity | exact Ht].
  - destruct (n =? uploads) eqn:EU; [destruct Hi|].
    destruct (ae || existsb tree_has_file k) eqn:EA; [|destruct Hi].
    destruct Hi as [E|[]]. subst it. exists n, k. repeat split; try assumption.
    + apply String.eqb_neq. exact EU.
    + apply orb_true_iff in EA. exact EA.
Qed.

(* without a delimiter there are no common prefixes *)
Lemma ref_tree_nodelim_keys : forall ae t D it, In it (ref_tree ae false D t) -> exists p, it = IKey p.
Proof.
  intros ae t. induction t as [n|n k IH] using tree_ind'; intros D it H; simpl in H.
  - destruct H as [E|[]]. exists (D ++ [n]). symmetry. exact E.
  - destruct (n =? uploads); [destruct H|]. apply in_flat_map in H. destruct H as [c [Hc Hi]].
    rewrite Forall_forall in IH. exact (IH c Hc _ it Hi).
Qed.

Theorem ref_nodelim_keys : forall ae D K it, In it (ref_forest ae false D K) -> exists p, it = IKey p.
Proof.
  intros ae D K it H. unfold ref_forest in H. apply in_flat_map in H. destruct H as [t [_ Hi]].
  exact (ref_tree_nodelim_keys ae t D it Hi).
Qed.

(* every item lies below an entry that carries the name prefix *)
Lemma ref_tree_under : forall ae delim t D it, In it (ref_tree ae delim D t) ->
  exists q, item_path it = D ++ tname t :: q.
Proof.
  intros ae delim t. induction t as [n|n k IH] using tree_ind'; intros D it H; simpl in H.
  - destruct H as [E|[]]. subst it. exists []. reflexivity.
  - destruct (n =? uploads); [destruct H|]. destruct delim.
    + destruct (ae || existsb tree_has_file k); [|destruct H]. destruct H as [E|[]]. subst it. exists []. reflexivity.
    + apply in_flat_map in H. destruct H as [c [Hc Hi]]. rewrite Forall_forall in IH.
      destruct (IH c Hc _ it Hi) as [q E].
      exists (tname c :: q). rewrite E. rewrite <- app_assoc. reflexivity.
Qed.

Theorem ref_list_under_prefix : forall ae rootk prefix delim it, In it (ref_list ae rootk prefix delim) ->
  exists n q, item_path it = req_dir prefix ++ n :: q /\ String.prefix (snd (split_prefix prefix)) n = true.
Proof.
  intros ae rootk prefix delim it H. unfold ref_list, ref_forest in H.
  apply in_flat_map in H. destruct H as [t [Ht Hi]]. apply filter_In in Ht. destruct Ht as [_ Hp].
  destruct (ref_tree_under ae delim t _ it Hi) as [q E]. exists (tname t), q. split; assumption.
Qed.
