(* C27: one request with max-keys >= the size of the listing returns the whole reference
   listing, for trees of ANY depth, with or without delimiter (the case of a recursive
   `aws s3 ls` on a bucket of fewer than max-keys objects); corollary of page_exact. *)
From Coq Require Import List NArith ZArith Bool String Ascii Arith Lia.
From SW Require Import model.S3List proof.S3ListProofs proof.S3ListSound proof.S3ListExact proof.S3ListFlat.
Import ListNotations.
Local Open Scope string_scope.
Local Open Scope list_scope.
Local Notation length := List.length.

Theorem single_page_complete : forall ae rootk prefix K M delim,
  wf rootk = true -> bad_prefix prefix = false -> walk rootk (req_dir prefix) = Some K ->
  ((snd (split_prefix prefix) =? "/") && delim) = false ->
  forallb (productive ae delim) (filter (fun t => String.prefix (snd (split_prefix prefix)) (tname t)) K) = true ->
  (1 <= M)%Z -> (Z.of_nat (length (ref_list ae rootk prefix delim)) <= M)%Z ->
  let p := list_objects ae rootk prefix M "" delim in
  pg_keys p = flat_map key_of (ref_list ae rootk prefix delim) /\
  pg_cps p = flat_map cp_of (ref_list ae rootk prefix delim) /\
  pg_trunc p = false /\ pg_next p = "".
Proof.
  intros ae rootk prefix K M delim Hwf Hbp HW Hsl Hprod HM Hlen p. unfold p. clear p.
  pose proof (plain_of_bad_prefix prefix Hbp) as HP.
  pose proof (walk_wf _ rootk K Hwf HW) as HK.
  pose proof (walk_height _ rootk K HW) as HH.
  set (pfx := snd (split_prefix prefix)) in *.
  assert (EE : filter (fun t => String.prefix pfx (tname t) && String.ltb "" (tname t)) K =
               filter (fun t => String.prefix pfx (tname t)) K).
  { apply filter_ext_in. intros t Ht. rewrite ltb_empty.
    pose proof (good_name_nonempty _ (wf_good_names K t HK Ht)) as NE.
    apply String.eqb_neq in NE. rewrite NE. apply andb_true_r. }
  assert (HPr : forallb (productive ae delim)
                  (filter (fun t => String.prefix pfx (tname t) && String.ltb "" (tname t)) K) = true)
    by (rewrite EE; exact Hprod).
  destruct (page_exact ae rootk delim (S (forest_height rootk + 0)) (req_dir prefix) K pfx M "" HP HW HK HPr
              ltac:(lia) HM eq_refl Hsl) as [G1 [G2 [G3 G4]]].
  rewrite EE in G1, G3. unfold R in G1, G3.
  assert (RL : ref_list ae rootk prefix delim =
               ref_forest ae delim (req_dir prefix) (filter (fun t => String.prefix pfx (tname t)) K)).
  { unfold ref_list. fold pfx. rewrite (resolve_plain rootk (req_dir prefix) K HP HW). reflexivity. }
  rewrite RL in *.
  unfold list_objects, list_items, list_fuel. fold pfx. cbn [count_slash].
  assert (T : r_trunc (do_list ae rootk delim (S (S (forest_height rootk + 0))) (req_dir prefix) pfx M "") = false).
  { rewrite G3. rewrite Z.gtb_ltb. apply Z.ltb_ge. exact Hlen. }
  rewrite T. cbn [pg_keys pg_cps pg_trunc pg_next]. rewrite G1.
  rewrite firstn_all2 by lia.
  repeat split; reflexivity.
Qed.

(* non-vacuity of paginate_complete_flat's hypotheses: a bucket with files and a
   directory of files; three pages of two keys enumerate it *)
Lemma flat_example :
  let t := [File "a"; Dir "d" [File "a"; File "b"; File "c"]; File "da"] in
  wf t = true /\ bad_prefix "" = false /\ walk t (req_dir "") = Some t /\
  forallb S3ListFlat.flat1 (filter (fun x => String.prefix (snd (split_prefix "")) (tname x)) t) = true /\
  map pg_keys (paginate 6 false t "" 2 false V2Token "") = [["a"; "d/a"]; ["d/b"; "d/c"]; ["da"]] /\
  map pg_next (paginate 6 false t "" 2 false V2Token "") = ["d/a"; "d/c"; ""].
Proof. vm_compute. repeat split; reflexivity. Qed.

(* non-vacuity of single_page_complete: depth 3, no delimiter, one request *)
Lemma single_page_example :
  let t := [File "a"; Dir "d" [File "a"; Dir "e" [File "a"; Dir "f" [File "x"]]]; File "d.x"] in
  wf t = true /\ bad_prefix "" = false /\ walk t (req_dir "") = Some t /\
  forallb (productive false false) (filter (fun x => String.prefix (snd (split_prefix "")) (tname x)) t) = true /\
  (Z.of_nat (length (ref_list false t "" false)) <= 1000)%Z /\
  pg_keys (list_objects false t "" 1000 "" false) = ["a"; "d/a"; "d/e/a"; "d/e/f/x"; "d.x"].
Proof. vm_compute. repeat split; try reflexivity. intro H; discriminate H. Qed.
