(* C38: the register specification with every field of every result (model/VolumeConc.v,
   reg_strict) is refined by the sequential volume model, under the invariant R of C01
   (proof/VolumeProofs.v) and one more invariant: every record's Size is that of its needle. *)
From Coq Require Import List NArith ZArith Bool Lia Permutation.
From SW Require Import model.Volume model.VolumeConc proof.VolumeProofs.
Import ListNotations.
Local Open Scope N_scope.

Lemma err_eqb_refl : forall e, err_eqb e e = true.
Proof. destruct e; reflexivity. Qed.

(* ---------- every record carries the Size of its needle ---------- *)
Definition sized (st : vol) : Prop :=
  forall off r, find_rec (recs st) off = Some r -> r_size r = needle_size (r_n r).

Lemma sized_init : sized init.
Proof. intros off r H. discriminate. Qed.

Lemma sized_append : forall st n t, sized st -> sized (fst (fst (append st n t))).
Proof.
  intros st n t S off r H. unfold append in H. cbn [fst recs find_rec r_off] in H.
  destruct (dat_end st =? off); [inversion H; reflexivity | apply (S off r H)].
Qed.

Lemma sized_recs : forall st st', recs st' = recs st -> sized st -> sized st'.
Proof. intros st st' E S off r H. rewrite E in H. apply (S off r H). Qed.

Lemma sized_store_write : forall st n t, sized st -> sized (fst (store_write st n t)).
Proof.
  intros st n t S. unfold store_write. destruct (is_read_only st); [exact S|].
  unfold do_write. destruct (is_file_unchanged st n); [exact S|].
  pose proof (sized_append st n t S) as SA. unfold append in *. cbn [fst snd] in *.
  destruct (nm_get (nm st) (n_id n)) as [nv|].
  - destruct (find_rec (recs st) (nv_off nv)) as [r|]; [|exact S].
    destruct (n_cookie (r_n r) =? n_cookie n); [|exact S].
    destruct (nv_off nv <? dat_end st); cbn [fst]; [eapply sized_recs; [|exact SA]; reflexivity | exact SA].
  - cbn [fst]. eapply sized_recs; [|exact SA]. reflexivity.
Qed.

Lemma sized_store_delete : forall st id c t, sized st -> sized (fst (fst (store_delete st id c t))).
Proof.
  intros st id c t S. unfold store_delete. destruct (no_write_or_delete st); [exact S|].
  destruct (nm_get (nm st) id) as [nv|]; [|exact S].
  destruct (size_valid (nv_size nv)); [|exact S].
  pose proof (sized_append st (tombstone id c) t S) as SA. unfold append in *. cbn [fst snd] in *.
  eapply sized_recs; [|exact SA]. reflexivity.
Qed.

Lemma sized_step : forall st ev, sized st -> sized (fst (step st ev)).
Proof.
  intros st [t o] S. destruct o as [n|u|id c rd|id c|id c rd|id c|b|b]; unfold step.
  - pose proof (sized_store_write st n t S) as W. destruct (store_write st n t). exact W.
  - pose proof (sized_store_write st (needle_of_upload u) t S) as W.
    destruct (store_write st (needle_of_upload u) t). exact W.
  - destruct (http_get st id c rd t). exact S.
  - unfold http_delete. destruct (store_read st id c false t) as [[e cnt] v].
    destruct (negb (err_eqb e ENone)); [exact S|].
    destruct (negb (v_cookie v =? c)); [exact S|].
    pose proof (sized_store_delete st id (v_cookie v) t S) as D.
    destruct (store_delete st id (v_cookie v) t) as [[st' e'] z]. cbn [fst] in D. destruct e'; exact D.
  - destruct (store_read st id c rd t) as [[e cnt] v]. exact S.
  - pose proof (sized_store_delete st id c t S) as D. destruct (store_delete st id c t) as [[st' e'] z]. exact D.
  - eapply sized_recs; [|exact S]. reflexivity.
  - eapply sized_recs; [|exact S]. reflexivity.
Qed.

Lemma sized_after : forall h st, sized st -> sized (state_after st h).
Proof.
  induction h as [|ev h IH]; intros st S; [exact S|].
  unfold state_after. cbn [fold_left]. apply IH. apply sized_step. exact S.
Qed.

(* ---------- reads ---------- *)
Lemma read_strict : forall st sp seen id c rd t,
  R st sp seen ->
  reg_strict sp (t, RawRead id c rd) (snd (step st (t, RawRead id c rd))) = true.
Proof.
  intros st sp seen id c rd t (_ & _ & _ & _ & HR). specialize (HR id).
  unfold step. destruct (store_read st id c rd t) as [[e cnt] v] eqn:Hrd. cbn [snd].
  unfold reg_strict. unfold R_entry in HR. destruct (s_get (s_map sp) id) as [en|].
  - destruct (s_live en) as [[n tw]|].
    + destruct HR as (off & r & H1 & H2 & H3 & H4 & H5 & H6 & H7 & H8 & H9).
      assert (Hv : view_of_rec r = exp_view n).
      { unfold view_of_rec. apply N.ltb_lt in H4. rewrite H4. exact H5. }
      assert (Hexp : view_expired (exp_view n) (r_at r) t = view_expired (exp_view n) tw t).
      { rewrite !view_expired_exp. destruct (expirable n) eqn:E; [rewrite (H8 eq_refl); reflexivity | reflexivity]. }
      unfold store_read in Hrd. rewrite H1 in Hrd. cbn [nv_off nv_size] in Hrd.
      apply N.eqb_neq in H3. rewrite H3 in Hrd.
      assert (Hd : size_deleted (Z.of_N (r_size r)) = false).
      { unfold size_deleted. apply orb_false_iff. split; [apply Z.ltb_ge; lia | apply Z.eqb_neq; lia]. }
      rewrite Hd in Hrd.
      assert (Hz : (Z.of_N (r_size r) =? 0)%Z = false) by (apply Z.eqb_neq; lia).
      rewrite Hz in Hrd. unfold read_data in Hrd. rewrite H2, Z.eqb_refl, Hv, Hexp in Hrd.
      destruct (view_expired (exp_view n) tw t); inversion Hrd; subst;
        cbn [err_eqb andb]; rewrite Z.eqb_refl, view_eqb_refl; reflexivity.
    + destruct HR as (off & sz & r & H1 & H2 & H3 & H4 & H5).
      destruct rd; [reflexivity|].
      unfold store_read in Hrd. rewrite H1 in Hrd. cbn [nv_off nv_size] in Hrd.
      apply N.eqb_neq in H4. rewrite H4 in Hrd.
      assert (Hd : size_deleted sz = true).
      { unfold size_deleted. apply orb_true_iff. left. apply Z.ltb_lt. exact H2. }
      rewrite Hd in Hrd. cbn [andb] in Hrd. inversion Hrd; subst.
      cbn [err_eqb andb]. rewrite view_eqb_refl. reflexivity.
  - unfold store_read in Hrd. rewrite HR in Hrd. inversion Hrd; subst.
    cbn [err_eqb andb]. rewrite view_eqb_refl. reflexivity.
Qed.

(* ---------- deletes ---------- *)
Lemma view_size : forall n, v_size (view_of n) = needle_size n.
Proof. reflexivity. Qed.
Lemma exp_view_size : forall n, v_size (exp_view n) = needle_size n.
Proof. reflexivity. Qed.

Lemma delete_strict : forall st sp seen id c t,
  R st sp seen -> sized st ->
  reg_strict sp (t, RawDelete id c) (snd (step st (t, RawDelete id c))) = true.
Proof.
  intros st sp seen id c t (H1 & _ & _ & _ & HR) S. specialize (HR id).
  unfold step, store_delete, reg_strict, reg_live. rewrite H1.
  destruct (s_nwod sp); [reflexivity|].
  unfold R_entry in HR. destruct (s_get (s_map sp) id) as [en|].
  - destruct (s_live en) as [[n tw]|].
    + destruct HR as (off & r & E1 & E2 & E3 & E4 & E5 & E6 & E7 & E8 & E9).
      rewrite E1. cbn [nv_size].
      assert (Hv : size_valid (Z.of_N (r_size r)) = true).
      { unfold size_valid. apply andb_true_iff. split; [apply Z.ltb_lt; lia | apply negb_true_iff, Z.eqb_neq; lia]. }
      rewrite Hv. unfold append. cbn [snd err_eqb andb].
      rewrite (S off r E2), <- view_size, E5, exp_view_size. apply Z.eqb_refl.
    + destruct HR as (off & sz & r & E1 & E2 & E3 & E4 & E5).
      rewrite E1. cbn [nv_size].
      assert (Hv : size_valid sz = false).
      { unfold size_valid. apply andb_false_iff. left. apply Z.ltb_ge. lia. }
      rewrite Hv. reflexivity.
  - rewrite HR. reflexivity.
Qed.

(* ---------- writes ---------- *)
Lemma write_strict : forall st sp seen n t,
  R st sp seen -> wf_needle n = true -> blen (n_data n) =? 0 = false -> fresh seen n ->
  reg_strict sp (t, Write n) (snd (step st (t, Write n))) = true.
Proof.
  intros st sp seen n t HR Hwf Hne Hfresh. pose proof HR as (H1 & H2 & H3 & H4 & H5).
  unfold step, store_write, reg_strict, is_read_only. rewrite H1, H2.
  destruct (s_nwod sp || s_nwcd sp) eqn:Hro; [reflexivity|].
  pose proof (H5 (n_id n)) as He. unfold R_entry in He.
  unfold do_write, is_file_unchanged.
  destruct (s_get (s_map sp) (n_id n)) as [e|] eqn:Hg.
  - destruct (s_live e) as [[n0 t0]|] eqn:Hl.
    + destruct He as (off & r & E1 & E2 & E3 & E4 & E5 & E6 & E7 & E8 & E9).
      rewrite E1. cbn [nv_off nv_size].
      assert (Hoff : (off =? 0) = false) by (apply N.eqb_neq; exact E3).
      assert (Hv : size_valid (Z.of_N (r_size r)) = true).
      { unfold size_valid. apply andb_true_iff. split; [apply Z.ltb_lt; lia | apply negb_true_iff, Z.eqb_neq; lia]. }
      rewrite Hoff, Hv. cbn [negb andb]. unfold read_data. rewrite E2, Z.eqb_refl.
      assert (Hvr : view_of_rec r = exp_view n0).
      { unfold view_of_rec. apply N.ltb_lt in E4. rewrite E4. exact E5. }
      rewrite Hvr. cbn [exp_view v_cookie v_data].
      assert (Hck : n_cookie (r_n r) = n_cookie n0).
      { change (n_cookie (r_n r)) with (v_cookie (view_of (r_n r))). rewrite E5. reflexivity. }
      rewrite Hck, E6.
      destruct (s_cookie e =? n_cookie n) eqn:Hc; cbn [andb].
      * destruct (bytes_eqb (n_data n0) (n_data n)) eqn:Hd.
        -- cbn [snd w_err w_unchanged w_size err_eqb Bool.eqb andb]. reflexivity.
        -- unfold append. cbn [fst snd].
           destruct (off <? dat_end st); cbn [snd w_err w_unchanged w_size err_eqb Bool.eqb andb]; apply N.eqb_refl.
      * cbn [snd w_err w_unchanged w_size err_eqb negb andb]. reflexivity.
    + destruct He as (off & sz & r & E1 & E2 & E3 & E4 & E5).
      rewrite E1. cbn [nv_off nv_size].
      assert (Hv : size_valid sz = false).
      { unfold size_valid. apply andb_false_iff. left. apply Z.ltb_ge. lia. }
      rewrite Hv, andb_false_r. rewrite E3, E5.
      destruct (s_cookie e =? n_cookie n) eqn:Hc.
      * unfold append. cbn [fst snd].
        destruct (off <? dat_end st); cbn [snd w_err w_unchanged w_size err_eqb Bool.eqb andb]; apply N.eqb_refl.
      * cbn [snd w_err w_unchanged w_size err_eqb negb andb]. reflexivity.
  - rewrite He. unfold append. cbn [fst snd w_err w_unchanged w_size err_eqb negb andb]. apply N.eqb_refl.
Qed.

(* ---------- one step ---------- *)
Lemma strict_step : forall st sp seen ev,
  R st sp seen -> sized st -> ev_ok seen ev ->
  reg_strict sp ev (snd (step st ev)) = true.
Proof.
  intros st sp seen [t o] HR S [Hwf Hok]. unfold wf_event in *. cbn [snd] in *.
  destruct o as [n|u|id c rd|id c|id c rd|id c|b|b]; cbn [op_needle] in *.
  - destruct Hok as [Hne Hf]. eapply write_strict; eauto.
  - unfold step. destruct (store_write st (needle_of_upload u) t). reflexivity.
  - unfold step. destruct (http_get st id c rd t). reflexivity.
  - unfold step. destruct (http_delete st id c t) as [[st' s] z]. reflexivity.
  - eapply read_strict; eauto.
  - eapply delete_strict; eauto.
  - reflexivity.
  - reflexivity.
Qed.

(* reg_acc = C01's acceptance and the strict one *)
Lemma reg_acc_both : forall sp ev o, reg_acc sp ev o = true <-> reg_acc0 sp ev o = true /\ reg_strict sp ev o = true.
Proof.
  intros. unfold reg_acc. destruct (reg_acc0 sp ev o); split; intro H; try tauto; try discriminate.
Qed.

Lemma step_reg_acc : forall st sp seen ev,
  R st sp seen -> sized st -> ev_ok seen ev ->
  reg_acc sp ev (snd (step st ev)) = true /\
  R (fst (step st ev)) (fst (spec_step sp ev)) (seen_next seen ev) /\ sized (fst (step st ev)).
Proof.
  intros st sp seen ev HR S OK. destruct (step_R st sp seen ev HR OK) as [M HR'].
  split; [|split; [exact HR' | apply sized_step; exact S]].
  apply reg_acc_both. split; [exact M | eapply strict_step; eauto].
Qed.

(* ---------- histories: splitting the hypotheses of C01 at an append ---------- *)
Lemma meta_dup_app : forall h1 h2 seen,
  meta_dup seen (h1 ++ h2) = meta_dup seen h1 || meta_dup (seen_after seen h1) h2.
Proof.
  induction h1 as [|ev h1 IH]; intros h2 seen; [reflexivity|].
  cbn [app meta_dup seen_after]. unfold seen_next. destruct (op_needle (snd ev)) as [n|].
  - rewrite IH. rewrite orb_assoc. reflexivity.
  - apply IH.
Qed.

Lemma hyps_app : forall h1 h2,
  wf_history (h1 ++ h2) = true -> empty_payload (h1 ++ h2) = false -> meta_dup [] (h1 ++ h2) = false ->
  (wf_history h1 = true /\ empty_payload h1 = false /\ meta_dup [] h1 = false) /\
  (wf_history h2 = true /\ empty_payload h2 = false /\ meta_dup (seen_after [] h1) h2 = false).
Proof.
  intros h1 h2 Hwf He Hm. unfold wf_history, empty_payload in *.
  rewrite forallb_app in Hwf. apply andb_true_iff in Hwf. destruct Hwf.
  rewrite existsb_app in He. apply orb_false_iff in He. destruct He.
  rewrite meta_dup_app in Hm. apply orb_false_iff in Hm. destruct Hm. tauto.
Qed.

(* the volume / register state the concurrent calls start from are related *)
Lemma R_set_flags : forall st sp seen a b, R st sp seen -> R (set_flags a b st) (set_sflags a b sp) seen.
Proof. intros st sp seen a b HR. exact (R_flags st sp seen a b HR). Qed.

Lemma start_R : forall a b pre,
  wf_history pre = true -> empty_payload pre = false -> meta_dup [] pre = false ->
  R (start_vol a b pre) (start_spec a b pre) (seen_after [] pre) /\ sized (start_vol a b pre).
Proof.
  intros a b pre Hwf He Hm. split.
  - apply R_set_flags. apply reach_R; auto. apply R_init.
  - unfold start_vol. eapply sized_recs; [|apply (sized_after pre init sized_init)]. reflexivity.
Qed.

Lemma start_vol_nil : forall a b, start_vol a b [] = init_flags a b.
Proof. reflexivity. Qed.
Lemma start_spec_nil : forall a b, start_spec a b [] = spec_flags a b.
Proof. reflexivity. Qed.
