(* Proofs about model/VolumeCrash.v (C03), part 2b: the running volume answers reads exactly as
   the operation-level specification [s_run] says (a small-scale version of C01's refinement,
   for the write / delete operations C03's histories are made of). *)
From Coq Require Import List NArith ZArith Bool Lia ZifyBool ZifyN ZifyNat.
From SW Require Import model.Needle proof.NeedleProofs model.VolumeCrash proof.VolumeCrashProofs.
Import ListNotations.
Local Open Scope N_scope.
Ltac Zify.zify_post_hook ::= Z.div_mod_to_equations.

Arguments N.add : simpl never.
Arguments N.mul : simpl never.
Arguments N.div : simpl never.
Arguments N.modulo : simpl never.
Arguments N.sub : simpl never.
Arguments N.ltb : simpl never.
Arguments N.leb : simpl never.
Arguments N.eqb : simpl never.
Arguments Z.of_N : simpl never.
Arguments Z.ltb : simpl never.
Arguments Z.eqb : simpl never.
Arguments Z.opp : simpl never.

Lemma bytes_eqb_true : forall a b, bytes_eqb a b = true -> a = b.
Proof.
  induction a as [|x a IH]; intros [|y b] H; try discriminate; [reflexivity|].
  cbn [bytes_eqb] in H. apply andb_true_iff in H. destruct H as [H1 H2].
  f_equal; [lia|apply IH; assumption].
Qed.

Lemma bytes_eqb_refl : forall a, bytes_eqb a a = true.
Proof. induction a as [|x a IH]; [reflexivity|]. cbn [bytes_eqb]. rewrite N.eqb_refl, IH. reflexivity. Qed.

Lemma find_rec_app_old : forall l x o r, find_rec l o = Some r -> find_rec (l ++ x) o = Some r.
Proof.
  induction l as [|[o0 r0] l IH]; intros x o r H; [discriminate|].
  cbn [app find_rec] in *. destruct (o0 =? o); [assumption|apply IH; assumption].
Qed.

Lemma find_rec_app_new : forall l o r, (forall o' r', In (o', r') l -> o' <> o) ->
  find_rec (l ++ [(o, r)]) o = Some r.
Proof.
  induction l as [|[o0 r0] l IH]; intros o r H.
  - cbn [app find_rec]. rewrite N.eqb_refl. reflexivity.
  - cbn [app find_rec]. destruct (o0 =? o) eqn:E.
    + exfalso. apply (H o0 r0); [left; reflexivity|lia].
    + apply IH. intros o' r' Hin. apply (H o' r'). right. assumption.
Qed.

Section WithCrc.
  Variable crc : list N -> N.

  (* the running volume and the specification describe the same keys *)
  Definition sim_key (st : pstate) (m : smap) (k : N) : Prop :=
    match s_get m k with
    | None => nm_get (p_map st) k = None
    | Some v =>
        exists nv r, nm_get (p_map st) k = Some nv /\ nv_off nv <> 0 /\
          find_rec (p_recs st) (nv_off nv * 8) = Some r /\ cookie (a_n r) = s_cookie v /\
          match s_live v with
          | Some n => a_n r = n /\ nv_size nv = Z.of_N (body_size n) /\ 0 < body_size n
          | None => (nv_size nv < 0)%Z
          end
    end.

  Definition sim (st : pstate) (s : smap * N) : Prop :=
    snd s = len (p_idx st) /\ forall k, sim_key st (fst s) k.

  Lemma sim_init : sim p_init ([], 0).
  Proof. split; [reflexivity|]. intros k. reflexivity. Qed.

  Lemma rec_offset_lt : forall st o r, Inv crc st -> In (o, r) (p_recs st) -> o < len (p_dat st).
  Proof.
    intros st o r HI Hin. destruct (rec_in_dat crc st o r HI Hin) as [pre [post [Hd [Hp _]]]].
    pose proof (len_encode_ge Ver (a_n r)). rewrite Hd, !len_app. lia.
  Qed.

  Lemma newer_true : forall st k, Inv crc st ->
    match nm_get (p_map st) k with Some nv => nv_off nv * 8 <? len (p_dat st) | None => true end = true.
  Proof.
    intros st k HI. destruct (nm_get (p_map st) k) as [nv|] eqn:Eg; [|reflexivity].
    destruct (bound_offset_lt crc st _ nv HI Eg). lia.
  Qed.

  (* the state after appending record [r] for key [id (a_n r)] with the new binding [nv'] *)
  Lemma sim_after_append : forall st m nrec r nv' v',
    Inv crc st -> sim st (m, nrec) ->
    (nv_off nv' = len (p_dat st) / 8 \/
     exists nv r0, nm_get (p_map st) (id (a_n r)) = Some nv /\ nv_off nv' = nv_off nv /\
                   find_rec (p_recs st) (nv_off nv * 8) = Some r0 /\ cookie (a_n r0) = s_cookie v' /\ s_live v' = None) ->
    (nv_off nv' = len (p_dat st) / 8 -> cookie (a_n r) = s_cookie v' /\
       match s_live v' with Some n => a_n r = n /\ nv_size nv' = Z.of_N (body_size n) /\ 0 < body_size n | None => False end) ->
    (s_live v' = None -> (nv_size nv' < 0)%Z) ->
    forall mp, (forall k, nm_get mp k = if id (a_n r) =? k then Some nv' else nm_get (p_map st) k) ->
    sim (p_append st r mp true) ((id (a_n r), v') :: m, nrec + 1).
  Proof.
    intros st m nrec r nv' v' HI [Hn Hs] Hoff Hnew Hdel mp Hmp.
    destruct (len_dat_ge8 crc st HI) as [H8 Hal].
    split.
    - cbn [snd p_append p_idx]. cbn [snd] in Hn. rewrite len_app, Hn. reflexivity.
    - intros k. unfold sim_key. cbn [fst s_get p_append p_map p_recs]. rewrite Hmp.
      destruct (id (a_n r) =? k) eqn:Ek.
      + destruct Hoff as [Hoff|[nv [r0 [Hg [Ho [Hf [Hc Hl]]]]]]].
        * exists nv', r. split; [reflexivity|]. split; [lia|]. split.
          { rewrite Hoff. replace (len (p_dat st) / 8 * 8) with (len (p_dat st)) by lia.
            apply find_rec_app_new. intros o' r' Hin. pose proof (rec_offset_lt st o' r' HI Hin). lia. }
          destruct (Hnew Hoff) as [Hc Hl]. split; [assumption|].
          destruct (s_live v'); [assumption|contradiction].
        * exists nv', r0. split; [reflexivity|]. rewrite Ho.
          destruct (bound_offset_lt crc st _ nv HI Hg) as [_ Hge].
          split; [lia|]. split; [apply find_rec_app_old; assumption|]. split; [assumption|].
          rewrite Hl. apply Hdel. assumption.
      + specialize (Hs k). unfold sim_key in Hs. cbn [fst] in Hs.
        destruct (s_get m k) as [v|]; [|assumption].
        destruct Hs as [nv [r0 [Hg [Hnz [Hf Hrest]]]]].
        exists nv, r0. split; [assumption|]. split; [assumption|]. split; [apply find_rec_app_old; assumption|assumption].
  Qed.

  Lemma sim_write : forall st s n, Inv crc st -> sim st s -> wf_op crc (Write n) ->
    sim (p_write st n) (s_step s (Write n)).
  Proof.
    intros st [m nrec] n HI Hsim [Hok [Hne Hck]].
    pose proof Hsim as [Hn Hs]. specialize (Hs (id n)). unfold sim_key in Hs. cbn [fst] in Hs.
    pose proof (body_size_pos n Hne) as Hpos.
    destruct (len_dat_ge8 crc st HI) as [H8 Hal].
    (* the effect of an accepted write *)
    assert (Hput : p_unchanged st n = false -> p_cookie_ok st n = true ->
                   sim (p_write st n) (s_put (m, nrec) n)).
    { intros Hu Hc. unfold p_write. rewrite Hu, Hc. cbn [negb]. rewrite (newer_true st (id n) HI).
      unfold s_put. cbn [fst snd].
      apply (sim_after_append st m nrec {| a_n := n; a_tomb := false |}
               {| nv_off := len (p_dat st) / 8; nv_size := Z.of_N (body_size n) |}); try assumption.
      - left. reflexivity.
      - intros _. cbn [a_n s_cookie s_live nv_size]. auto.
      - cbn [s_live]. discriminate.
      - intros k. cbn [a_n nm_set nm_get]. reflexivity. }
    unfold s_step. cbn [fst].
    destruct (s_get m (id n)) as [v|] eqn:Esg.
    - destruct Hs as [nv [r [Hg [Hnz [Hf [Hcook Hlive]]]]]].
      assert (Hcok : p_cookie_ok st n = (s_cookie v =? cookie n)).
      { unfold p_cookie_ok. rewrite Hg, Hf, Hcook. reflexivity. }
      destruct (s_cookie v =? cookie n) eqn:Ec; cbn [negb].
      + destruct (s_live v) as [n0|] eqn:El.
        * destruct Hlive as [Hr [Hsz Hp0]].
          assert (Hu : p_unchanged st n = bytes_eqb (data n0) (data n)).
          { unfold p_unchanged. rewrite Hg, Hf, Hsz, (size_valid_of_N _ Hp0), Hr.
            replace (negb (nv_off nv =? 0)) with true by lia. cbn [andb].
            destruct (bytes_eqb (data n0) (data n)) eqn:Eb; [|rewrite andb_false_r; reflexivity].
            apply bytes_eqb_true in Eb.
            (* same bytes, same checksum: both are the CRC of the data *)
            pose proof (find_rec_in _ _ _ Hf) as Hin.
            destruct (rec_in_dat crc st _ r HI Hin) as [_ [_ [_ [_ [_ [_ [_ Hpay]]]]]]].
            assert (Ht : a_tomb r = false).
            { destruct (a_tomb r) eqn:Et; [|reflexivity]. exfalso. rewrite Hr in Hpay.
              destruct (body_empty n0 Hpay) as [Hb _]. lia. }
            rewrite Ht, Hr in Hpay. destruct Hpay as [_ Hck0].
            rewrite Hck0, Hck, Eb, N.eqb_refl. replace (cookie n0 =? cookie n) with true; [reflexivity|].
            rewrite <- Hr, Hcook. lia. }
          destruct (bytes_eqb (data n0) (data n)) eqn:Eb.
          { unfold p_write. rewrite Hu. assumption. }
          { apply Hput; [assumption|rewrite Hcok; reflexivity]. }
        * apply Hput; [|rewrite Hcok; reflexivity].
          unfold p_unchanged. rewrite Hg.
          replace (size_valid (nv_size nv)) with false by (unfold size_valid, TombstoneFileSize; lia).
          rewrite andb_false_r. reflexivity.
      + (* another cookie: refused *)
        unfold p_write. rewrite Hcok. cbn [negb].
        destruct (p_unchanged st n) eqn:Eu; [assumption|assumption].
    - apply Hput; [unfold p_unchanged; rewrite Hs; reflexivity|unfold p_cookie_ok; rewrite Hs; reflexivity].
  Qed.

  Lemma nm_get_delete : forall m k nv k', nm_get m k = Some nv -> size_valid (nv_size nv) = true ->
    nm_get (nm_delete m k) k' = if k =? k' then Some {| nv_off := nv_off nv; nv_size := (- nv_size nv)%Z |} else nm_get m k'.
  Proof.
    intros m k nv k' Hg Hv. unfold nm_delete. rewrite Hg, Hv. cbn [nm_get]. reflexivity.
  Qed.

  Lemma sim_delete : forall st s k c ts, Inv crc st -> sim st s -> wf_op crc (Delete k c ts) ->
    sim (p_delete st k c ts) (s_step s (Delete k c ts)).
  Proof.
    intros st [m nrec] k c ts HI Hsim Hwf.
    pose proof Hsim as [Hn Hs]. specialize (Hs k). unfold sim_key in Hs. cbn [fst] in Hs.
    unfold s_step, p_delete. cbn [fst snd].
    destruct (s_get m k) as [v|] eqn:Esg; [|rewrite Hs; assumption].
    destruct Hs as [nv [r [Hg [Hnz [Hf [Hcook Hlive]]]]]]. rewrite Hg.
    destruct (s_live v) as [n0|] eqn:El.
    - destruct Hlive as [Hr [Hsz Hp0]]. rewrite Hsz, (size_valid_of_N _ Hp0).
      replace k with (id (a_n {| a_n := tombstone k c ts; a_tomb := true |})) at 3 5 by reflexivity.
      apply (sim_after_append st m nrec {| a_n := tombstone k c ts; a_tomb := true |}
               {| nv_off := nv_off nv; nv_size := (- nv_size nv)%Z |}); try assumption.
      + right. exists nv, r. cbn [a_n tombstone id nv_off s_cookie s_live]. auto.
      + intros Hoff. exfalso. cbn [nv_off] in Hoff.
        destruct (bound_offset_lt crc st _ nv HI Hg). destruct (len_dat_ge8 crc st HI). lia.
      + intros _. cbn [nv_size]. lia.
      + intros k'. cbn [a_n tombstone id].
        apply nm_get_delete; [assumption|]. rewrite Hsz. apply size_valid_of_N. assumption.
    - replace (size_valid (nv_size nv)) with false by (unfold size_valid, TombstoneFileSize; lia).
      assumption.
  Qed.

  Lemma sim_fold : forall h st s, Inv crc st -> sim st s -> Forall (wf_op crc) h ->
    sim (fold_left p_step h st) (fold_left s_step h s).
  Proof.
    induction h as [|o h IH]; intros st s HI Hsim Hwf; [assumption|].
    inversion Hwf; subst. cbn [fold_left]. apply IH; [apply inv_step; assumption| |assumption].
    destruct o as [n|k c ts]; [apply sim_write|apply sim_delete]; assumption.
  Qed.

  (* the running volume reads per specification, and the specification counts its records *)
  Theorem running_reads_spec : forall h, Forall (wf_op crc) h ->
    snd (s_run h) = len (p_idx (p_run h)) /\ forall k, p_read (p_run h) k = s_read (fst (s_run h)) k.
  Proof.
    intros h Hwf. destruct (sim_fold h p_init ([], 0) (inv_init crc) sim_init Hwf) as [Hn Hs].
    split; [exact Hn|]. intros k. specialize (Hs k). unfold sim_key in Hs. fold (p_run h) in Hs. fold (s_run h) in Hs.
    unfold p_read, s_read. destruct (s_get (fst (s_run h)) k) as [v|]; [|rewrite Hs; reflexivity].
    destruct Hs as [nv [r [Hg [Hnz [Hf [_ Hlive]]]]]]. rewrite Hg.
    replace (nv_off nv =? 0) with false by lia.
    destruct (s_live v) as [n0|].
    - destruct Hlive as [Hr [Hsz Hp0]].
      replace (size_deleted (nv_size nv)) with false by (unfold size_deleted, TombstoneFileSize; lia).
      replace (nv_size nv =? 0)%Z with false by lia. rewrite Hf, Hr. reflexivity.
    - replace (size_deleted (nv_size nv)) with true by (unfold size_deleted, TombstoneFileSize; lia). reflexivity.
  Qed.
End WithCrc.
