(* Proofs about model/VolPlanner.v (C15), part 2: isGoodMove and
   satisfyReplicaPlacement against the placement spec. *)
From Coq Require Import List NArith ZArith Bool Arith Lia Permutation.
From SW Require Import model.VolPlanner proof.VolPlannerProofs.
Import ListNotations.

(* ---------- cons lemmas for dcs / racks / counts ---------- *)
Lemma dcs_cons_in : forall c l, In (l_dc c) (dcs l) -> dcs (c :: l) = dcs l.
Proof.
  intros c l H. unfold dcs in *. cbn [map nodup]. apply nodup_In in H.
  destruct (in_dec N.eq_dec (l_dc c) (map l_dc l)); [reflexivity|contradiction].
Qed.
Lemma dcs_cons_notin : forall c l, ~ In (l_dc c) (dcs l) -> dcs (c :: l) = l_dc c :: dcs l.
Proof.
  intros c l H. unfold dcs in *. cbn [map nodup]. rewrite nodup_In in H.
  destruct (in_dec N.eq_dec (l_dc c) (map l_dc l)); [contradiction|reflexivity].
Qed.
Lemma racks_cons_in : forall c l, In (rack_of c) (racks l) -> racks (c :: l) = racks l.
Proof.
  intros c l H. unfold racks in *. cbn [map nodup]. apply nodup_In in H.
  destruct (in_dec rack_dec (rack_of c) (map rack_of l)); [reflexivity|contradiction].
Qed.
Lemma racks_cons_notin : forall c l, ~ In (rack_of c) (racks l) -> racks (c :: l) = rack_of c :: racks l.
Proof.
  intros c l H. unfold racks in *. cbn [map nodup]. rewrite nodup_In in H.
  destruct (in_dec rack_dec (rack_of c) (map rack_of l)); [contradiction|reflexivity].
Qed.
Lemma cnt_dc_cons_eq : forall c l, cnt_dc (c :: l) (l_dc c) = S (cnt_dc l (l_dc c)).
Proof. intros. unfold cnt_dc. cbn [map]. apply count_occ_cons_eq. reflexivity. Qed.
Lemma cnt_dc_cons_neq : forall c l d, l_dc c <> d -> cnt_dc (c :: l) d = cnt_dc l d.
Proof. intros. unfold cnt_dc. cbn [map]. apply count_occ_cons_neq. assumption. Qed.
Lemma cnt_rack_cons_eq : forall c l, cnt_rack (c :: l) (rack_of c) = S (cnt_rack l (rack_of c)).
Proof. intros. unfold cnt_rack. cbn [map]. apply count_occ_cons_eq. reflexivity. Qed.
Lemma cnt_rack_cons_neq : forall c l k, rack_of c <> k -> cnt_rack (c :: l) k = cnt_rack l k.
Proof. intros. unfold cnt_rack. cbn [map]. apply count_occ_cons_neq. assumption. Qed.
Lemma cnt_dc_notin : forall l d, ~ In d (dcs l) -> cnt_dc l d = 0.
Proof. intros l d H. unfold cnt_dc, dcs in *. rewrite nodup_In in H. apply count_occ_not_In; auto. Qed.
Lemma cnt_rack_notin : forall l k, ~ In k (racks l) -> cnt_rack l k = 0.
Proof. intros l k H. unfold cnt_rack, racks in *. rewrite nodup_In in H. apply count_occ_not_In; auto. Qed.
Lemma cnt_dc_in : forall l d, In d (dcs l) -> cnt_dc l d >= 1.
Proof. intros. apply (count_pos N.eq_dec). assumption. Qed.
Lemma cnt_rack_in : forall l k, In k (racks l) -> cnt_rack l k >= 1.
Proof. intros. apply (count_pos rack_dec). assumption. Qed.

Lemma in_dc_cons_eq : forall c l, in_dc (l_dc c) (c :: l) = c :: in_dc (l_dc c) l.
Proof. intros. unfold in_dc. cbn [filter]. rewrite N.eqb_refl. reflexivity. Qed.
Lemma in_dc_cons_neq : forall c l D, l_dc c <> D -> in_dc D (c :: l) = in_dc D l.
Proof.
  intros. unfold in_dc. cbn [filter]. destruct (N.eqb_spec (l_dc c) D); [contradiction|reflexivity].
Qed.

Lemma existsb_dc_iff : forall d ks, existsb (N.eqb d) ks = true <-> In d ks.
Proof.
  intros. rewrite existsb_exists. split.
  - intros [x [H1 H2]]. apply N.eqb_eq in H2. subst; auto.
  - intros H. exists d. split; auto. apply N.eqb_refl.
Qed.
Lemma existsb_rack_iff : forall k ks, existsb (rack_eqb k) ks = true <-> In k ks.
Proof.
  intros. rewrite existsb_exists. split.
  - intros [x [H1 H2]]. apply rack_eqb_eq in H2. subst; auto.
  - intros H. exists k. split; auto. apply rack_eqb_eq; auto.
Qed.
Lemma is_top_iff : forall {K} (keys : list K) cnt k,
  is_top keys cnt k = true <-> forall k', In k' keys -> cnt k' <= cnt k.
Proof.
  intros. unfold is_top. rewrite forallb_forall. split; intros H k' Hk; specialize (H k' Hk);
    [apply Nat.leb_le in H|apply Nat.leb_le]; auto.
Qed.

Lemma not_exists_loc : forall l c, existsb (fun r => loc_eqb r c) l = false -> ~ In c l.
Proof.
  intros l c H Hin. assert (existsb (fun r => loc_eqb r c) l = true); [|congruence].
  apply existsb_exists. exists c. split; auto. apply loc_eqb_refl.
Qed.

(* node ids determine locations (unique server ids in the cluster) *)
Definition ids_ok (l : list loc) : Prop := forall a b, In a l -> In b l -> l_node a = l_node b -> a = b.

Lemma node_fresh : forall l c, ids_ok (c :: l) -> ~ In c l -> ~ In (l_node c) (map l_node l).
Proof.
  intros l c Hid Hn Hin. apply in_map_iff in Hin. destruct Hin as [r [H1 H2]].
  assert (r = c) by (apply Hid; [right; auto|left; auto|auto]). subst; auto.
Qed.

Lemma racks_single : forall r, racks [r] = [rack_of r].
Proof.
  intros. unfold racks. cbn [map]. apply nodup_fixed_point. constructor; [intros []|constructor].
Qed.
Lemma dcs_single : forall r, dcs [r] = [l_dc r].
Proof.
  intros. unfold dcs. cbn [map]. apply nodup_fixed_point. constructor; [intros []|constructor].
Qed.

(* ---------- satisfyReplicaPlacement keeps a completable set completable ---------- *)
Lemma single_MainRack : forall p r, MainRack p [r] (rack_of r).
Proof.
  intros p r. unfold MainRack. rewrite racks_single.
  split; [left; auto|]. split.
  - intros k [Hk|[]] Hne. congruence.
  - unfold cnt_rack. cbn [map]. rewrite count_occ_cons_eq by reflexivity. cbn [count_occ]. lia.
Qed.

Lemma satisfy_SubP : forall p l c,
  SubP p l -> ids_ok (c :: l) -> satisfy p l c = true -> SubP p (c :: l).
Proof.
  intros p l c [Hnd [Hdcs Hmain]] Hid Hs. unfold satisfy in Hs.
  destruct (existsb (fun r => loc_eqb r c) l) eqn:E1; [discriminate|].
  apply not_exists_loc in E1.
  assert (NoDup (map l_node (c :: l))) as Hnd'.
  { cbn [map]. constructor; auto. apply node_fresh; auto. }
  destruct (existsb (N.eqb (l_dc c)) (dcs l)) eqn:E2; cbn [negb] in Hs.
  2:{ (* a new data center *)
    apply Nat.ltb_lt in Hs.
    assert (~ In (l_dc c) (dcs l)) as Hnin.
    { intro Hi. apply existsb_dc_iff in Hi. congruence. }
    split; auto. split; [rewrite dcs_cons_notin; auto; cbn [length]; lia|]. right.
    destruct Hmain as [->|[D [HD [Ho [Hr [R HR]]]]]].
    - exists (l_dc c). unfold MainDc. rewrite dcs_cons_notin; auto. unfold dcs at 1 2. cbn [map nodup].
      split; [left; auto|]. split; [intros d [Hd|[]] Hne; congruence|].
      assert (in_dc (l_dc c) [c] = [c]) as -> by (rewrite in_dc_cons_eq; reflexivity).
      split; [rewrite racks_single; cbn [length]; lia|].
      exists (rack_of c). apply single_MainRack.
    - assert (l_dc c <> D) as HcD by (intro; subst; auto).
      exists D. unfold MainDc. rewrite dcs_cons_notin; auto. split; [right; auto|]. split.
      + intros d [Hd|Hd] Hne.
        * subst d. rewrite cnt_dc_cons_eq, cnt_dc_notin; auto.
        * rewrite cnt_dc_cons_neq; [apply Ho; auto|]. intro; subst; auto.
      + rewrite in_dc_cons_neq; auto. split; auto. exists R; auto. }
  (* an existing data center: it must be a primary one *)
  apply existsb_dc_iff in E2.
  destruct (is_top (dcs l) (cnt_dc l) (l_dc c)) eqn:E3; cbn [negb] in Hs; [|discriminate].
  rewrite is_top_iff in E3.
  destruct Hmain as [->|[D [HD [Ho [Hr [R HR]]]]]]; [destruct E2|].
  set (indc := in_dc (l_dc c) l) in *.
  (* facts about the candidate's data center, whether it was the main one or not *)
  assert ((forall d, In d (dcs l) -> d <> l_dc c -> cnt_dc l d = 1) /\
          length (racks indc) <= rp_rack p + 1 /\ exists R0, MainRack p indc R0) as [HA [HB [R0 HC]]].
  { destruct (N.eq_dec D (l_dc c)) as [->|HDc].
    - split; auto. split; auto. exists R; auto.
    - assert (cnt_dc l (l_dc c) = 1) as H1 by (apply Ho; auto).
      split.
      + intros d Hd Hne. pose proof (E3 d Hd). pose proof (cnt_dc_in l d Hd). lia.
      + assert (length indc = 1) as Hl by (unfold indc; rewrite length_in_dc; auto).
        destruct (singleton_len1 _ Hl) as [r0 Hr0]. rewrite Hr0.
        split; [rewrite racks_single; cbn [length]; lia|].
        exists (rack_of r0). apply single_MainRack. }
  split; auto. split; [rewrite dcs_cons_in; auto|]. right.
  exists (l_dc c). unfold MainDc. rewrite dcs_cons_in; auto. split; auto. split.
  { intros d Hd Hne. rewrite cnt_dc_cons_neq; auto. }
  rewrite in_dc_cons_eq. fold indc.
  destruct (existsb (rack_eqb (rack_of c)) (racks indc)) eqn:E4; cbn [negb] in Hs.
  2:{ (* a new rack of that data center *)
    apply Nat.ltb_lt in Hs.
    assert (~ In (rack_of c) (racks indc)) as Hnin.
    { intro Hi. apply existsb_rack_iff in Hi. congruence. }
    rewrite racks_cons_notin; auto. split; [cbn [length]; lia|].
    destruct HC as [HC1 [HC2 HC3]].
    assert (rack_of c <> R0) as HcR by (intro; subst; auto).
    exists R0. unfold MainRack. rewrite racks_cons_notin; auto. split; [right; auto|]. split.
    - intros k [Hk|Hk] Hne.
      + subst k. rewrite cnt_rack_cons_eq, cnt_rack_notin; auto.
      + rewrite cnt_rack_cons_neq; [apply HC2; auto|]. intro; subst; auto.
    - rewrite cnt_rack_cons_neq; auto. }
  (* an existing rack: it must be a primary one *)
  apply existsb_rack_iff in E4.
  destruct (is_top (racks indc) (cnt_rack indc) (rack_of c)) eqn:E5; cbn [negb] in Hs; [|discriminate].
  rewrite is_top_iff in E5. apply Nat.ltb_lt in Hs.
  rewrite racks_cons_in; auto. split; auto.
  destruct HC as [HC1 [HC2 HC3]].
  exists (rack_of c). unfold MainRack. rewrite racks_cons_in; auto. split; auto. split.
  - intros k Hk Hne. rewrite cnt_rack_cons_neq; auto.
    destruct (rack_dec R0 (rack_of c)) as [HR0|HR0].
    + apply HC2; auto. congruence.
    + assert (cnt_rack indc (rack_of c) = 1) as H1 by (apply HC2; auto).
      pose proof (E5 k Hk). pose proof (cnt_rack_in indc k Hk). lia.
  - rewrite cnt_rack_cons_eq. lia.
Qed.

Lemma satisfy_no_coloc : forall p l c, ids_ok (c :: l) -> satisfy p l c = true ->
  ~ In (l_node c) (map l_node l).
Proof.
  intros p l c Hid Hs. unfold satisfy in Hs.
  destruct (existsb (fun r => loc_eqb r c) l) eqn:E1; [discriminate|].
  apply node_fresh; auto. apply not_exists_loc; auto.
Qed.

(* ---------- relocate ([relocate_loc] is in the model) ---------- *)
Lemma locs_relocate : forall f t rs, locs (relocate f t rs) = relocate_loc f t (locs rs).
Proof.
  induction rs as [|r rs IH]; cbn [relocate locs map relocate_loc]; auto.
  destruct (loc_eqb (r_loc r) f); cbn [map r_loc]; [reflexivity|]. f_equal. apply IH.
Qed.

Lemma relocate_loc_length : forall f t l, length (relocate_loc f t l) = length l.
Proof.
  induction l as [|r l IH]; cbn [relocate_loc length]; auto.
  destruct (loc_eqb r f); cbn [length]; auto.
Qed.

Lemma filter_id : forall {A} (g : A -> bool) l, (forall x, In x l -> g x = true) -> filter g l = l.
Proof.
  induction l as [|a l IH]; cbn [filter]; intros H; auto.
  rewrite (H a (or_introl eq_refl)). f_equal. apply IH. intros; apply H; right; auto.
Qed.

Lemma relocate_perm : forall f t l, NoDup (map l_node l) -> In f l ->
  Permutation (relocate_loc f t l) (t :: filter (fun r => negb (l_node r =? l_node f)%N) l).
Proof.
  induction l as [|r l IH]; intros Hnd Hin; [destruct Hin|].
  cbn [map] in Hnd. inversion Hnd as [|? ? Hn Hd]; subst.
  cbn [relocate_loc filter]. destruct (loc_eqb r f) eqn:E.
  - apply loc_eqb_eq in E. subst r. rewrite N.eqb_refl. cbn [negb].
    rewrite filter_id; auto. intros x Hx.
    destruct (N.eqb_spec (l_node x) (l_node f)) as [Ex|Ex]; auto.
    exfalso. apply Hn. rewrite <- Ex. apply in_map; auto.
  - destruct Hin as [Hin|Hin]; [subst; rewrite loc_eqb_refl in E; discriminate|].
    destruct (N.eqb_spec (l_node r) (l_node f)) as [Ex|Ex].
    + exfalso. apply Hn. rewrite Ex. apply in_map; auto.
    + cbn [negb]. eapply perm_trans; [apply perm_skip; apply IH; auto|]. apply perm_swap.
Qed.

Lemma NoDup_map_filter : forall {A B} (f : A -> B) (g : A -> bool) l,
  NoDup (map f l) -> NoDup (map f (filter g l)).
Proof.
  induction l as [|a l IH]; cbn [map filter]; intros H; auto.
  inversion H as [|? ? Hn Hd]; subst. destruct (g a); cbn [map]; auto.
  constructor; auto. intro Hi. apply Hn. apply in_map_iff in Hi. destruct Hi as [x [H1 H2]].
  apply filter_In in H2. apply in_map_iff. exists x; tauto.
Qed.

(* ---------- isGoodMove: no colocation, placement preserved ---------- *)
Lemma good_move_no_coloc : forall p l f t, ids_ok (t :: l) -> is_good_move p l f t = true ->
  ~ In (l_node t) (map l_node l).
Proof.
  intros p l f t Hid H. unfold is_good_move in H.
  destruct (existsb (fun r => loc_eqb r t) l) eqn:E1; [discriminate|].
  apply node_fresh; auto. apply not_exists_loc; auto.
Qed.

Lemma good_move_valid : forall p l f t,
  valid_placement p l = true -> In f l -> ids_ok (t :: l) ->
  is_good_move p l f t = true -> rp_trig p = false ->
  valid_placement p (relocate_loc f t l) = true.
Proof.
  intros p l f t Hv Hf Hid Hg Htr.
  unfold valid_placement in Hv. apply andb_true_iff in Hv. destruct Hv as [Hsub Hlen].
  apply sub_placement_iff in Hsub. destruct Hsub as [Hnd _]. apply Nat.eqb_eq in Hlen.
  pose proof (relocate_perm f t l Hnd Hf) as HP.
  apply (valid_placement_perm p _ _ (Permutation_sym HP)).
  unfold is_good_move in Hg.
  destruct (existsb (fun r => loc_eqb r t) l) eqn:E1; [discriminate|].
  apply not_exists_loc in E1.
  set (after := t :: filter (fun r => negb (l_node r =? l_node f)%N) l) in *.
  apply andb_true_iff in Hg. destruct Hg as [Hg H3]. apply andb_true_iff in Hg. destruct Hg as [H1 H2].
  apply Nat.eqb_eq in H1. apply Nat.eqb_eq in H2. rewrite forallb_forall in H3.
  assert (length after = copy_count p) as Hla.
  { rewrite <- (Permutation_length HP), relocate_loc_length. auto. }
  unfold valid_placement. apply andb_true_iff. split; [|apply Nat.eqb_eq; auto].
  apply sub_placement_iff. apply good_counts_SubP; auto.
  - unfold after. cbn [map]. constructor.
    + intro Hi. apply in_map_iff in Hi. destruct Hi as [x [Hx1 Hx2]]. apply filter_In in Hx2.
      assert (x = t) by (apply Hid; [right; tauto|left; auto|auto]). subst. tauto.
    + apply NoDup_map_filter; auto.
  - unfold after. discriminate.
  - intros k Hk. apply Nat.eqb_eq. apply H3; auto.
Qed.

(* ---------- a completable set has at most copy_count members ---------- *)
Lemma sum_one_except : forall {A} (ks : list A) (f : A -> nat) D, NoDup ks -> In D ks ->
  (forall d, In d ks -> d <> D -> f d = 1) -> list_sum (map f ks) + 1 = f D + length ks.
Proof.
  induction ks as [|k ks IH]; intros f D Hnd HD H1; [destruct HD|].
  inversion Hnd as [|? ? Hn Hd]; subst. cbn [map length].
  change (list_sum (f k :: map f ks)) with (f k + list_sum (map f ks)).
  destruct HD as [->|HD].
  - rewrite (list_sum_const ks f 1); [lia|].
    intros d Hd'. apply H1; [right; auto|]. intro; subst; auto.
  - assert (f k = 1) as Hk by (apply H1; [left; auto|intro; subst; auto]).
    assert (list_sum (map f ks) + 1 = f D + length ks) as Hi.
    { apply IH; auto. intros d Hd' Hne. apply H1; auto. right; auto. }
    lia.
Qed.

Lemma SubP_length : forall p l, SubP p l -> length l <= copy_count p.
Proof.
  intros p l [Hnd [Hdcs [->|[D [HD [Ho [Hr [R [HR1 [HR2 HR3]]]]]]]]]]; [cbn [length]; lia|].
  pose proof (len_sum_nodup N.eq_dec (map l_dc l)) as Hs. rewrite map_length in Hs.
  change (nodup N.eq_dec (map l_dc l)) with (dcs l) in Hs.
  change (count_occ N.eq_dec (map l_dc l)) with (cnt_dc l) in Hs.
  pose proof (sum_one_except (dcs l) (cnt_dc l) D (NoDup_nodup _ _) HD Ho) as H1.
  set (inD := in_dc D l) in *.
  pose proof (len_sum_nodup rack_dec (map rack_of inD)) as Hs2. rewrite map_length in Hs2.
  change (nodup rack_dec (map rack_of inD)) with (racks inD) in Hs2.
  change (count_occ rack_dec (map rack_of inD)) with (cnt_rack inD) in Hs2.
  pose proof (sum_one_except (racks inD) (cnt_rack inD) R (NoDup_nodup _ _) HR1 HR2) as H2.
  assert (length inD = cnt_dc l D) as HlD by (unfold inD; apply length_in_dc).
  unfold copy_count. lia.
Qed.

(* satisfyReplicaPlacement never admits a copy for a volume whose replicas already form a
   valid layout *)
Lemma satisfy_not_valid : forall p l c, ids_ok (c :: l) -> satisfy p l c = true ->
  valid_placement p l = false.
Proof.
  intros p l c Hid Hs. destruct (valid_placement p l) eqn:Ev; auto. exfalso.
  unfold valid_placement in Ev. apply andb_true_iff in Ev. destruct Ev as [Hsub Hlen].
  apply sub_placement_iff in Hsub. apply Nat.eqb_eq in Hlen.
  pose proof (SubP_length p (c :: l) (satisfy_SubP p l c Hsub Hid Hs)) as Hle.
  cbn [length] in Hle. lia.
Qed.
