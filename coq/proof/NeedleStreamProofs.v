(* C02, third part: the stream writer (Volume.StreamWrite), the stream reader
   (Volume.StreamRead) and the raw-blob writer (WriteNeedleBlob) of model/NeedleStream.v. *)
From Coq Require Import List NArith ZArith Bool Lia ZifyBool ZifyN ZifyNat.
From SW Require Import model.Needle model.NeedleCrc model.NeedleStream
  proof.NeedleProofs proof.NeedleCrcProofs proof.NeedleScanProofs.
Import ListNotations.
Local Open Scope N_scope.
Ltac Zify.zify_post_hook ::= Z.div_mod_to_equations.

Arguments N.add : simpl never.
Arguments N.mul : simpl never.
Arguments N.div : simpl never.
Arguments N.modulo : simpl never.
Arguments N.sub : simpl never.
Arguments N.pow : simpl never.
Arguments N.ltb : simpl never.
Arguments N.leb : simpl never.
Arguments N.eqb : simpl never.
Arguments N.land : simpl never.
Arguments N.lxor : simpl never.

(* ---------- the accumulated checksum ---------- *)
Lemma concat_chunks_of : forall szs l, concat (chunks_of szs l) = l.
Proof.
  induction szs as [|k r IH]; intros l.
  - destruct l; cbn; [reflexivity|]. rewrite app_nil_r. reflexivity.
  - cbn [chunks_of concat]. rewrite IH. apply takeN_dropN.
Qed.

Lemma lxor_ones_ones : forall x, N.lxor (N.lxor x 4294967295) 4294967295 = x.
Proof. intros. rewrite N.lxor_assoc, N.lxor_nilpotent, N.lxor_0_r. reflexivity. Qed.

(* CRC.Update is a continuation: updating with a, then with b, is updating with a ++ b *)
Lemma crc32c_update_app : forall c a b,
  crc32c_update (crc32c_update c a) b = crc32c_update c (a ++ b).
Proof.
  intros. unfold crc32c_update. rewrite lxor_ones_ones. unfold crc_reg.
  rewrite fold_left_app. reflexivity.
Qed.

Lemma crc32c_update_nil : forall c, crc32c_update c [] = c.
Proof. intros. unfold crc32c_update. cbn [crc_reg fold_left]. apply lxor_ones_ones. Qed.

Lemma crc32c_update_0 : forall l, crc32c_update 0 l = crc32c l.
Proof. intros. reflexivity. Qed.

Lemma crc_writer_from : forall chunks c,
  fold_left crc32c_update chunks c = crc32c_update c (concat chunks).
Proof.
  induction chunks as [|p r IH]; intros c; cbn [fold_left concat].
  - symmetry. apply crc32c_update_nil.
  - rewrite IH. apply crc32c_update_app.
Qed.

(* the checksum the CRC writer ends with is the checksum of everything written through it,
   however the data were cut into Write calls *)
Theorem crc_writer_whole : forall chunks,
  crc_writer crc32c_update chunks = crc32c (concat chunks).
Proof. intros. unfold crc_writer. rewrite crc_writer_from. apply crc32c_update_0. Qed.

Theorem crc_writer_split_irrelevant : forall szs l,
  crc_writer crc32c_update (chunks_of szs l) = crc32c l.
Proof. intros. rewrite crc_writer_whole, concat_chunks_of. reflexivity. Qed.

(* ---------- the stream-written record ---------- *)
Lemma stream_size_eq : forall ds, stream_size ds = 4 + ds + 1.
Proof. reflexivity. Qed.

Lemma no_field_flags_spec : forall fl, no_field_flags fl = true ->
  has_flag fl FlagHasName = false /\ has_flag fl FlagHasMime = false /\
  has_flag fl FlagHasLastModifiedDate = false /\ has_flag fl FlagHasTtl = false /\
  has_flag fl FlagHasPairs = false.
Proof.
  intros fl H. unfold no_field_flags in H.
  repeat (apply andb_true_iff in H; destruct H as [H ?]).
  repeat match goal with X : negb _ = true |- _ => apply negb_true_iff in X end.
  tauto.
Qed.

  Lemma stream_needle_enc_ok : forall c i fl d ck ts, no_field_flags fl = true ->
    enc_okb (stream_needle c i fl d ck ts) = true.
  Proof.
    intros c i fl d ck ts Hfl. destruct (no_field_flags_spec fl Hfl) as [_ [_ [_ [H4 H5]]]].
    unfold enc_okb, has_ttl, has_pairs, stream_needle. cbn [mime flags ttl pairs pairs_size].
    rewrite H4, H5. reflexivity.
  Qed.

  Lemma stream_needle_body_size : forall c i fl d ck ts, no_field_flags fl = true -> d <> [] ->
    body_size (stream_needle c i fl d ck ts) = stream_size (len d).
  Proof.
    intros c i fl d ck ts Hfl Hne. destruct (no_field_flags_spec fl Hfl) as [H1 [H2 [H3 [H4 H5]]]].
    assert (Hpos : 0 <? len d = true).
    { destruct (0 <? len d) eqn:E; [reflexivity|]. exfalso. apply Hne, len_zero_nil. lia. }
    unfold body_size, data_size, has_name, has_mime, has_lm, has_ttl, has_pairs, stream_needle.
    cbn [flags data]. rewrite Hpos, H1, H2, H3, H4, H5. unfold stream_size. lia.
  Qed.

  Lemma stream_needle_rec_ok : forall c i fl d ck ts, no_field_flags fl = true -> d <> [] ->
    c < 2 ^ 32 -> i < 2 ^ 64 -> stream_size (len d) < 2 ^ 31 -> ts < 2 ^ 64 ->
    rec_ok (stream_needle c i fl d ck ts).
  Proof.
    intros c i fl d ck ts Hfl Hne Hc Hi Hs Hts. split.
    - apply stream_needle_enc_ok; assumption.
    - unfold ranges_ok. rewrite stream_needle_body_size by assumption.
      unfold stream_needle. cbn [cookie id name last_modified pairs_size append_at_ns].
      rewrite len_nil. repeat split; try assumption; try lia.
  Qed.

  (* the decoder on the body of a stream-written record, data of any length INCLUDING ZERO
     (a 5-byte body: DataSize 0 and the flags byte), any flags byte *)
  Lemma step_data_stream : forall d fl d0, len d < 2 ^ 32 ->
    step_data (be_encode 4 (len d) ++ d ++ [fl]) d0 =
      Cont [] (d_upd (d_upd (d_set_data_size d0 (len d)) (fun m => n_set_data m d)) (fun m => n_set_flags m fl)).
  Proof.
    intros d fl d0 Hds. unfold step_data.
    set (rest := be_encode 4 (len d) ++ d ++ [fl]).
    assert (Hlen : len rest = 4 + len d + 1).
    { unfold rest. rewrite !len_app, len_be_encode, len_cons, len_nil. lia. }
    rewrite match_nonempty by (intro E; rewrite E, len_nil in Hlen; lia).
    destruct (len rest <? 4) eqn:E1; [lia|].
    unfold rest. rewrite takeN_app, dropN_app by apply len_be_encode.
    rewrite be_decode_encode by assumption.
    destruct (len (d ++ [fl]) <? len d) eqn:E2.
    { rewrite !len_app in E2. lia. }
    rewrite takeN_app, dropN_app by reflexivity. reflexivity.
  Qed.

  Lemma read_v2_stream : forall ext d fl d0, len d < 2 ^ 32 ->
    read_v2_x ext (be_encode 4 (len d) ++ d ++ [fl]) d0 =
      Cont [] (d_upd (d_upd (d_set_data_size d0 (len d)) (fun m => n_set_data m d)) (fun m => n_set_flags m fl)).
  Proof.
    intros ext d fl d0 Hds. rewrite read_v2_x_eq.
    - unfold read_v2. rewrite step_data_stream by assumption. reflexivity.
    - right. rewrite !len_app, len_be_encode, len_cons, len_nil. lia.
  Qed.


Section StreamEnc.
  Variable upd : N -> list N -> N.

  (* the three parts of a stream-written record followed by anything *)
  Lemma stream_split : forall c i fl ds chunks ts R,
    stream_encode upd c i fl ds chunks ts ++ R =
      (be_encode 4 c ++ be_encode 8 i ++ be_encode 4 (stream_size ds))
      ++ (be_encode 4 ds ++ concat chunks ++ [fl])
      ++ (be_encode 4 (crc_value (crc_writer upd chunks)) ++ be_encode 8 ts
          ++ takeN (padding_length (stream_size ds) 3) (be_encode 4 (stream_size ds) ++ [0; 0; 0; 0]))
      ++ R.
  Proof. intros. unfold stream_encode. rewrite <- !app_assoc. reflexivity. Qed.

  (* With no field-announcing flag and some data the stream writer produces, byte for byte,
     what Needle.Append produces for the needle [stream_needle]: so every theorem about
     [encode 3] (alignment, scan, CRC detection) speaks about stream-written records too. *)
  Theorem stream_is_encode : forall c i fl chunks ts,
    no_field_flags fl = true -> concat chunks <> [] ->
    stream_encode upd c i fl (len (concat chunks)) chunks ts =
      encode 3 (stream_needle c i fl (concat chunks) (crc_writer upd chunks) ts).
  Proof.
    intros c i fl chunks ts Hfl Hne.
    destruct (no_field_flags_spec fl Hfl) as [H1 [H2 [H3 [H4 H5]]]].
    set (d := concat chunks) in Hne |- *.
    assert (Hpos : 0 <? len d = true).
    { destruct (0 <? len d) eqn:E; [reflexivity|]. exfalso. apply Hne, len_zero_nil. lia. }
    set (n := stream_needle c i fl d (crc_writer upd chunks) ts).
    assert (Hbs : body_size n = stream_size (len d)).
    { unfold body_size, data_size, has_name, has_mime, has_lm, has_ttl, has_pairs, n, stream_needle.
      cbn [flags data]. rewrite Hpos, H1, H2, H3, H4, H5. unfold stream_size. lia. }
    unfold encode, header_bytes, body_bytes, tail_bytes, pad_source, name_field, mime_field, lm_field,
      ttl_field, pairs_field, has_name, has_mime, has_lm, has_ttl, has_pairs, data_size.
    rewrite Hbs. unfold n, stream_needle.
    cbn [cookie id data flags name mime pairs_size pairs last_modified ttl checksum append_at_ns].
    rewrite Hpos, H1, H2, H3, H4, H5. change (3 =? 3) with true. cbv iota.
    unfold stream_encode. fold d. rewrite !app_nil_r. rewrite <- !app_assoc. reflexivity.
  Qed.

  (* a stream-written record is 8-aligned and as long as the index entry (size) says *)
  Theorem stream_aligned : forall c i fl ds chunks ts, len (concat chunks) = ds ->
    len (stream_encode upd c i fl ds chunks ts) = actual_size (stream_size ds) 3 /\
    len (stream_encode upd c i fl ds chunks ts) mod 8 = 0.
  Proof.
    intros c i fl ds chunks ts Hd.
    assert (Hlen : len (stream_encode upd c i fl ds chunks ts) = actual_size (stream_size ds) 3).
    { unfold stream_encode. rewrite !len_app, !len_be_encode, len_cons, len_nil, Hd.
      rewrite len_takeN.
      - unfold actual_size, body_length, ts_size, NeedleHeaderSize, NeedleChecksumSize, TimestampSize.
        change (3 =? 3) with true. cbv iota. unfold stream_size. lia.
      - rewrite len_app, len_be_encode. pose proof (padding_range (stream_size ds) 3).
        change (len [0; 0; 0; 0]) with 4. lia. }
    split; [exact Hlen|]. rewrite Hlen. apply actual_size_aligned.
  Qed.
End StreamEnc.

Section StreamProofs.
  Variable crc : list N -> N.
  Variable upd : N -> list N -> N.
  (* CRC.Update accumulates (for the real one: crc_writer_whole) *)
  Hypothesis Hupd : forall chunks, crc_writer upd chunks = crc (concat chunks).

  (* ROUND TRIP of the stream writer: ReadBytes on the record (followed by anything) returns
     cookie, id, the data, the flags byte, the checksum of the whole data and the timestamp,
     status ok - for every data length (zero included), every flags byte, every way the data
     were cut into Write calls. *)
  Theorem stream_read_bytes : forall c i fl chunks ts R,
    c < 2 ^ 32 -> i < 2 ^ 64 -> stream_size (len (concat chunks)) < 2 ^ 31 -> ts < 2 ^ 64 ->
    read_bytes crc (stream_encode upd c i fl (len (concat chunks)) chunks ts ++ R)
               (stream_size (len (concat chunks))) 3 =
      (stream_dneedle c i fl (concat chunks) (crc (concat chunks)) ts, SOk).
  Proof.
    intros c i fl chunks ts R Hc Hi Hs Hts.
    rewrite stream_split. rewrite Hupd.
    set (d := concat chunks) in *.
    set (sz := stream_size (len d)) in *.
    assert (Hsz : sz = 4 + len d + 1) by reflexivity.
    assert (Hsz32 : sz < 2 ^ 32) by (change (2 ^ 32) with 4294967296; change (2 ^ 31) with 2147483648 in Hs; lia).
    assert (Hd32 : len d < 2 ^ 32) by (change (2 ^ 32) with 4294967296 in *; lia).
    set (B := be_encode 4 (len d) ++ d ++ [fl]).
    assert (HB : len B = sz).
    { unfold B. rewrite !len_app, len_be_encode, len_cons, len_nil. lia. }
    set (P := takeN (padding_length sz 3) (be_encode 4 sz ++ [0; 0; 0; 0])).
    set (H := be_encode 4 c ++ be_encode 8 i ++ be_encode 4 sz).
    assert (HH : len H = 16) by (unfold H; rewrite !len_app, !len_be_encode; reflexivity).
    unfold read_bytes.
    assert (Hp : parse_header (H ++ B ++ (be_encode 4 (crc_value (crc d)) ++ be_encode 8 ts ++ P) ++ R) = (c, i, sz)).
    { unfold H. rewrite <- !app_assoc. apply parse_header_enc; assumption. }
    rewrite Hp. cbv beta iota. rewrite N.eqb_refl. cbn [negb].
    unfold NeedleHeaderSize.
    rewrite (dropN_app _ H _ 16) by assumption.
    rewrite takeN_app by assumption.
    unfold B at 2. rewrite read_v2_stream by assumption.
    rewrite (app_assoc H B).
    rewrite dropN_app by (rewrite len_app, HH, HB; reflexivity).
    rewrite <- !app_assoc.
    rewrite takeN_app by apply len_be_encode.
    rewrite be_decode_encode by apply crc_value_lt.
    cbn [d_n d_upd d_set_data_size header_needle data n_set_data n_set_flags].
    rewrite N.eqb_refl.
    assert (Hpos : 0 <? sz = true) by lia. rewrite Hpos. cbn [andb negb].
    change (3 =? 3) with true. cbv iota.
    rewrite dropN_app by apply len_be_encode.
    rewrite takeN_app by apply len_be_encode.
    rewrite be_decode_encode by assumption.
    reflexivity.
  Qed.

  (* the same through ReadData, the record anywhere in a file *)
  Theorem stream_read_data : forall c i fl chunks ts pre post,
    c < 2 ^ 32 -> i < 2 ^ 64 -> stream_size (len (concat chunks)) < 2 ^ 31 -> ts < 2 ^ 64 ->
    read_data crc (pre ++ stream_encode upd c i fl (len (concat chunks)) chunks ts ++ post) (len pre)
              (stream_size (len (concat chunks))) 3 =
      (stream_dneedle c i fl (concat chunks) (crc (concat chunks)) ts, SOk).
  Proof.
    intros c i fl chunks ts pre post Hc Hi Hs Hts.
    pose proof (stream_read_bytes c i fl chunks ts [] Hc Hi Hs Hts) as Hrb.
    rewrite app_nil_r in Hrb.
    set (rec := stream_encode upd c i fl (len (concat chunks)) chunks ts) in *.
    set (sz := stream_size (len (concat chunks))) in *.
    assert (Hlen : len rec = actual_size sz 3).
    { unfold rec, stream_encode. rewrite !len_app, !len_be_encode, len_cons, len_nil.
      rewrite len_takeN.
      - unfold actual_size, body_length, ts_size, NeedleHeaderSize, NeedleChecksumSize, TimestampSize.
        change (3 =? 3) with true. cbv iota. fold sz. unfold sz, stream_size. lia.
      - rewrite len_app, len_be_encode. pose proof (padding_range (stream_size (len (concat chunks))) 3).
        cbn [length len N.of_nat]. change (len [0; 0; 0; 0]) with 4. lia. }
    unfold read_data. rewrite dropN_app by reflexivity.
    rewrite takeN_app by assumption. rewrite Hlen.
    destruct (actual_size sz 3 <? actual_size sz 3) eqn:E; [lia|]. exact Hrb.
  Qed.

End StreamProofs.

(* ---------- instantiated with the real checksum ---------- *)
Theorem stream_roundtrip_crc32c : forall c i fl szs d ts pre post,
  c < 2 ^ 32 -> i < 2 ^ 64 -> stream_size (len d) < 2 ^ 31 -> ts < 2 ^ 64 ->
  read_data crc32c (pre ++ stream_encode crc32c_update c i fl (len d) (chunks_of szs d) ts ++ post) (len pre)
            (stream_size (len d)) 3 =
    (stream_dneedle c i fl d (crc32c d) ts, SOk).
Proof.
  intros c i fl szs d ts pre post Hc Hi Hs Hts.
  pose proof (stream_read_data crc32c crc32c_update crc_writer_whole c i fl (chunks_of szs d) ts pre post) as H.
  rewrite concat_chunks_of in H. apply H; assumption.
Qed.

(* an altered data byte of a stream-written record is reported by ReadBytes *)
Theorem stream_flip_detected : forall c i fl szs d ts pos mask,
  no_field_flags fl = true -> c < 2 ^ 32 -> i < 2 ^ 64 -> stream_size (len d) < 2 ^ 31 -> ts < 2 ^ 64 ->
  bytes_ok d -> pos < len d -> 0 < mask < 256 ->
  snd (read_bytes crc32c (flip_byte (stream_encode crc32c_update c i fl (len d) (chunks_of szs d) ts) (20 + pos) mask)
                  (stream_size (len d)) 3) = SCrc.
Proof.
  intros c i fl szs d ts pos mask Hfl Hc Hi Hs Hts Hb Hp Hm.
  assert (Hne : d <> []) by (intro E; rewrite E, len_nil in Hp; lia).
  pose proof (stream_is_encode crc32c_update c i fl (chunks_of szs d) ts Hfl) as He.
  rewrite concat_chunks_of in He. rewrite (He Hne).
  rewrite crc_writer_split_irrelevant.
  rewrite <- (stream_needle_body_size c i fl d (crc32c d) ts Hfl Hne).
  pose proof (stream_needle_rec_ok c i fl d (crc32c d) ts Hfl Hne Hc Hi Hs Hts) as [Hok Hr].
  apply crc32c_flip_detected; try assumption. reflexivity.
Qed.

(* ---------- Volume.StreamRead ---------- *)
(* StreamRead hands out whatever lies in the DataSize and data region of the record its
   index entry points at - it looks neither at the header nor at the checksum *)
Lemma stream_read_any : forall pre hdr d post, len hdr = 16 -> len d < 2 ^ 32 ->
  stream_read (pre ++ hdr ++ be_encode 4 (len d) ++ d ++ post) (len pre) = be_encode 4 (len d) ++ d.
Proof.
  intros pre hdr d post Hh Hd. unfold stream_read, NeedleHeaderSize.
  rewrite app_assoc.
  rewrite dropN_app by (rewrite len_app, Hh; reflexivity).
  rewrite <- !app_assoc.
  rewrite takeN_app by apply len_be_encode.
  rewrite be_decode_encode by assumption.
  rewrite dropN_app by apply len_be_encode.
  rewrite takeN_app by reflexivity. reflexivity.
Qed.

(* PARTIAL: on an unaltered stream-written (or appended) record StreamRead returns DataSize
   and the written data *)
Theorem stream_read_written : forall upd c i fl chunks ts pre post,
  len (concat chunks) < 2 ^ 32 ->
  stream_read (pre ++ stream_encode upd c i fl (len (concat chunks)) chunks ts ++ post) (len pre) =
    be_encode 4 (len (concat chunks)) ++ concat chunks.
Proof.
  intros upd c i fl chunks ts pre post Hd.
  set (d := concat chunks) in *.
  set (H := be_encode 4 c ++ be_encode 8 i ++ be_encode 4 (stream_size (len d))).
  assert (HH : len H = 16) by (unfold H; rewrite !len_app, !len_be_encode; reflexivity).
  assert (Hrec : exists T, stream_encode upd c i fl (len d) chunks ts = H ++ be_encode 4 (len d) ++ d ++ T).
  { eexists. unfold stream_encode, H. fold d. rewrite <- !app_assoc. reflexivity. }
  destruct Hrec as [T Hrec]. rewrite Hrec. rewrite <- !app_assoc.
  apply stream_read_any; assumption.
Qed.

(* the defect in general form: overwrite the data bytes by ANY d' of the same length -
   StreamRead returns d', no error *)
Theorem stream_read_returns_altered : forall upd c i fl chunks ts pre post d',
  len d' = len (concat chunks) -> len d' < 2 ^ 32 ->
  stream_read (pre ++ overwrite_data (stream_encode upd c i fl (len (concat chunks)) chunks ts) (len (concat chunks)) d' ++ post)
              (len pre) = be_encode 4 (len d') ++ d'.
Proof.
  intros upd c i fl chunks ts pre post d' Hl Hd.
  set (d := concat chunks) in *.
  set (H := be_encode 4 c ++ be_encode 8 i ++ be_encode 4 (stream_size (len d))).
  assert (HH : len H = 16) by (unfold H; rewrite !len_app, !len_be_encode; reflexivity).
  assert (Hrec : exists T, stream_encode upd c i fl (len d) chunks ts = (H ++ be_encode 4 (len d)) ++ d ++ T).
  { eexists. unfold stream_encode, H. fold d. rewrite <- !app_assoc. reflexivity. }
  destruct Hrec as [T Hrec]. rewrite Hrec. unfold overwrite_data.
  assert (H20 : len (H ++ be_encode 4 (len d)) = 20) by (rewrite len_app, HH, len_be_encode; reflexivity).
  rewrite takeN_app by assumption.
  rewrite (app_assoc (H ++ be_encode 4 (len d)) d).
  rewrite dropN_app by (rewrite len_app, H20; reflexivity).
  rewrite <- Hl. rewrite <- !app_assoc.
  apply stream_read_any; assumption.
Qed.

(* FULL statement one would like (the self-checking clause for the stream reader): a record
   whose data bytes were altered is not handed out *)
Definition stream_read_self_checking : Prop :=
  forall c i fl chunks ts pre post d',
    len d' = len (concat chunks) -> len d' < 2 ^ 32 -> d' <> concat chunks ->
    stream_read (pre ++ overwrite_data (stream_encode crc32c_update c i fl (len (concat chunks)) chunks ts)
                                       (len (concat chunks)) d' ++ post) (len pre)
      <> be_encode 4 (len d') ++ d'.

Theorem stream_read_self_checking_refuted : ~ stream_read_self_checking.
Proof.
  intro H.
  apply (H 4660 1 0 [[104; 101]; [108; 108; 111]] 5 [3; 0; 0; 0; 0; 0; 0; 0] [] [105; 101; 108; 108; 111]).
  - reflexivity.
  - vm_compute. reflexivity.
  - discriminate.
  - apply stream_read_returns_altered; [reflexivity|vm_compute; reflexivity].
Qed.

(* the witness (harness: first stream case): id 1 "hello" written through StreamWrite in
   two pieces after an 8-byte super block, lowest bit of 'h' flipped: ReadData reports the CRC
   error, StreamRead returns 00 00 00 05 "iello" *)
Definition stream_witness_file : list N :=
  [3; 0; 0; 0; 0; 0; 0; 0] ++ stream_encode crc32c_update 4660 1 0 5 [[104; 101]; [108; 108; 111]] 5.

Lemma stream_witness_computed :
  read_data crc32c stream_witness_file 8 10 3
    = (stream_dneedle 4660 1 0 [104; 101; 108; 108; 111] (crc32c [104; 101; 108; 108; 111]) 5, SOk) /\
  stream_read stream_witness_file 8 = [0; 0; 0; 5; 104; 101; 108; 108; 111] /\
  snd (read_data crc32c (flip_byte stream_witness_file 28 1) 8 10 3) = SCrc /\
  stream_read (flip_byte stream_witness_file 28 1) 8 = [0; 0; 0; 5; 105; 101; 108; 108; 111].
Proof. vm_compute. repeat split. Qed.

(* ---------- WriteNeedleBlob ---------- *)
(* a record copied as a raw blob and re-stamped is the encoding of the same needle with the
   new timestamp: it decodes to the same blob (c02_roundtrip_partial) *)
Theorem restamp_encode : forall n ts, enc_okb n = true ->
  restamp (encode 3 n) (body_size n) ts 3 = encode 3 (n_set_append n ts).
Proof.
  intros n ts Hok.
  assert (Hbs : body_size (n_set_append n ts) = body_size n) by (destruct n; reflexivity).
  assert (Hhd : header_bytes (n_set_append n ts) = header_bytes n) by (destruct n; reflexivity).
  assert (Hbd : body_bytes (n_set_append n ts) = body_bytes n) by (destruct n; reflexivity).
  assert (Hps : pad_source 3 (n_set_append n ts) = pad_source 3 n) by (destruct n; reflexivity).
  assert (Hck : checksum (n_set_append n ts) = checksum n) by (destruct n; reflexivity).
  assert (Hts : append_at_ns (n_set_append n ts) = ts) by (destruct n; reflexivity).
  unfold restamp, encode, tail_bytes. rewrite Hbs, Hhd, Hbd, Hps, Hck, Hts.
  change (3 =? 3) with true. cbv iota.
  unfold NeedleHeaderSize, NeedleChecksumSize, TimestampSize.
  set (P := takeN (padding_length (body_size n) 3) (pad_source 3 n)).
  set (A := header_bytes n ++ body_bytes n ++ be_encode 4 (crc_value (checksum n))).
  assert (HA : len A = 16 + body_size n + 4).
  { unfold A. rewrite !len_app, len_header_bytes, len_body_bytes, len_be_encode by assumption. change (N.of_nat 4) with 4. lia. }
  replace (header_bytes n ++ body_bytes n ++ be_encode 4 (crc_value (checksum n)) ++ be_encode 8 (append_at_ns n) ++ P)
    with (A ++ be_encode 8 (append_at_ns n) ++ P) by (unfold A; rewrite <- !app_assoc; reflexivity).
  rewrite takeN_app by assumption.
  rewrite (app_assoc A (be_encode 8 (append_at_ns n)) P).
  rewrite dropN_app by (rewrite len_app, HA, len_be_encode; reflexivity).
  unfold A. rewrite <- !app_assoc. reflexivity.
Qed.

(* version 2 has no timestamp: the blob is copied verbatim *)
Theorem restamp_v2 : forall blob size ts, restamp blob size ts 2 = blob.
Proof. reflexivity. Qed.
