(* More proofs about model/UploadCodec.v (C33, after the audit): the two other
   readers of util/http_util.go (ReadUrl, ReadUrlAsReaderCloser), the bytes handed
   to fn, and the false-gzip-promise finding (isInputCompressed on data that carries
   the gzip magic but is not a gzip stream). *)
From Coq Require Import List Arith NArith Bool String Lia.
From SW Require Import model.UploadCodec proof.UploadCodecProofs.
Import ListNotations.
Local Open Scope N_scope.

(* ---------- the trigger of finding 0 is exactly "clear_of = None" ---------- *)
Lemma clear_of_none_iff : forall O u, clear_of O u = None <-> false_gzip_promise O u = true.
Proof.
  intros O u. unfold clear_of, false_gzip_promise.
  destruct (u_ic u); simpl; [|split; discriminate].
  destruct (is_gzipped_content (glib O) (u_data u)); simpl; [|split; discriminate].
  destruct (o_gunzip O (u_data u)); split; intro H; try discriminate; reflexivity.
Qed.

Lemma clear_of_some : forall O u, false_gzip_promise O u = false -> exists c, clear_of O u = Some c.
Proof.
  intros O u H. destruct (clear_of O u) as [c|] eqn:E; [exists c; reflexivity|].
  apply clear_of_none_iff in E. congruence.
Qed.

(* ---------- ReadUrl / ReadUrlAsReaderCloser against ReadUrlAsStream ---------- *)
Lemma read_url_of_fetch : forall rep O n key gz full off size buflen b,
  fetch_gen rep O n key gz full off size = FOk b ->
  read_url rep O n key gz full off size buflen = FOk (firstn (N.to_nat buflen) b).
Proof.
  intros rep O n key gz full off size buflen b H. unfold read_url.
  destruct key as [k|].
  - rewrite H. reflexivity.
  - unfold fetch_gen in H.
    destruct (400 <=? rs_status _); [discriminate|].
    unfold read_body in H.
    destruct (rs_ce_gzip _).
    + destruct (o_gunzip O _); try discriminate.
      * inversion H; reflexivity.
      * destruct rep; discriminate.
    + inversion H; reflexivity.
Qed.

Lemma read_closer_is_fetch : forall rep O n gz (full : bool) off size,
  read_closer rep O n (if full then None else Some (off, size)) = fetch_gen rep O n None gz full off size.
Proof. intros rep O n gz full off size. unfold read_closer, fetch_gen. destruct full; reflexivity. Qed.

Theorem read_url_no_panic : forall O n key gz full off size buflen,
  read_url true O n key gz full off size buflen <> FPanic.
Proof.
  intros O n key gz full off size buflen. unfold read_url.
  destruct key as [k|].
  - pose proof (fetch_no_panic O n (Some k) gz full off size) as H. unfold fetch in H.
    destruct (fetch_gen true O n (Some k) gz full off size); try discriminate. congruence.
  - destruct (400 <=? rs_status _); [discriminate|].
    destruct (rs_ce_gzip _); [|discriminate].
    destruct (o_gunzip O _); try discriminate.
    destruct (buflen <? len partial); discriminate.
Qed.

Theorem read_closer_no_panic : forall O n rng, read_closer true O n rng <> FPanic.
Proof.
  intros O n rng. unfold read_closer.
  destruct (400 <=? rs_status _); [discriminate | apply read_body_no_panic].
Qed.

(* the pinned code: same unchecked gzip.NewReader in both readers *)
Theorem pinned_read_closer_panic_iff : forall O n rng,
  read_closer false O n rng = FPanic <->
  pinned_fetch_panic O n None (match rng with None => true | Some _ => false end) = true.
Proof.
  intros O n rng.
  destruct rng as [[off size]|].
  - rewrite (read_closer_is_fetch false O n false false off size). apply pinned_fetch_panic_iff.
  - rewrite (read_closer_is_fetch false O n false true 0 0). apply pinned_fetch_panic_iff.
Qed.

Theorem pinned_read_url_panic_iff : forall O n key gz full off size buflen,
  read_url false O n key gz full off size buflen = FPanic <-> pinned_fetch_panic O n key full = true.
Proof.
  intros O n key gz full off size buflen.
  rewrite <- (pinned_fetch_panic_iff O n key gz full off size).
  unfold read_url. destruct key as [k|].
  - destruct (fetch_gen false O n (Some k) gz full off size); split; intro H; try discriminate; reflexivity.
  - unfold fetch_gen, read_body.
    destruct (400 <=? rs_status _); [split; intro H; discriminate|].
    destruct (rs_ce_gzip _); [|split; intro H; discriminate].
    destruct (o_gunzip O _); try (split; intro H; try discriminate; reflexivity).
    destruct (buflen <? len partial); split; intro H; discriminate.
Qed.

(* handed bytes: on success exactly the result *)
Lemma fetch_handed_ok : forall O n key gz full off size b,
  fetch O n key gz full off size = FOk b -> fetch_handed O n key gz full off size = b.
Proof.
  intros O n key gz full off size b H. unfold fetch in H. unfold fetch_handed.
  destruct key as [k|]; [rewrite H; reflexivity|].
  unfold fetch_gen in H.
  destruct (400 <=? rs_status _); [discriminate|].
  unfold read_body in H.
  destruct (rs_ce_gzip _); [|inversion H; reflexivity].
  destruct (o_gunzip O _); try discriminate. inversion H; reflexivity.
Qed.

(* ---------- round trip through all three readers ---------- *)
Theorem roundtrip_all_readers : forall O, laws O -> forall u clear,
  List.length (u_nonce u) = 12%nat -> clear_of O u = Some clear ->
  let w := fst (upload O u) in let r := snd (upload O u) in
  let n := server_store w in
  r_size r = len clear /\
  (forall off size, off + size <= len clear ->
     fetch O n (r_key r) (r_gzip r) true off size = FOk clear /\
     fetch_handed O n (r_key r) (r_gzip r) true off size = clear /\
     (forall buflen, read_url true O n (r_key r) (r_gzip r) true off size buflen = FOk (firstn (N.to_nat buflen) clear))) /\
  (forall off size, 0 < size -> off + size <= len clear ->
     fetch O n (r_key r) (r_gzip r) false off size = FOk (slice off size clear) /\
     fetch_handed O n (r_key r) (r_gzip r) false off size = slice off size clear /\
     (forall buflen, read_url true O n (r_key r) (r_gzip r) false off size buflen =
                     FOk (firstn (N.to_nat buflen) (slice off size clear)))) /\
  (u_cipher u = false ->
     read_closer true O n None = FOk clear /\
     forall off size, 0 < size -> off + size <= len clear ->
       read_closer true O n (Some (off, size)) = FOk (slice off size clear)).
Proof.
  intros O HL u clear Hn Hc. cbv zeta.
  destruct (roundtrip O HL u clear Hn Hc) as [Hs [Hf Hr]].
  split; [exact Hs|]. split; [|split].
  - intros off size Hle. pose proof (Hf off size Hle) as H.
    split; [exact H|]. split; [apply fetch_handed_ok; exact H|].
    intro buflen. apply read_url_of_fetch. exact H.
  - intros off size Hp Hle. pose proof (Hr off size Hp Hle) as H.
    split; [exact H|]. split; [apply fetch_handed_ok; exact H|].
    intro buflen. apply read_url_of_fetch. exact H.
  - intro Hci.
    assert (Hk : r_key (snd (upload O u)) = None) by (unfold upload; rewrite Hci; match goal with |- context [let '(a, b) := ?X in _] => destruct X end; reflexivity).
    split.
    + rewrite (read_closer_is_fetch true O _ (r_gzip (snd (upload O u))) true 0 0).
      rewrite <- Hk. apply (Hf 0 0). lia.
    + intros off size Hp Hle.
      rewrite (read_closer_is_fetch true O _ (r_gzip (snd (upload O u))) false off size).
      rewrite <- Hk. apply (Hr off size Hp Hle).
Qed.

(* the round trip under the DECIDABLE hypothesis "not inside finding 0" *)
Theorem roundtrip_partial : forall O, laws O -> forall u,
  List.length (u_nonce u) = 12%nat -> false_gzip_promise O u = false ->
  exists clear,
    (clear = u_data u \/ (u_ic u = true /\ o_gunzip O (u_data u) = GzOk clear)) /\
    let w := fst (upload O u) in let r := snd (upload O u) in
    r_size r = len clear /\
    (forall off size, off + size <= len clear ->
       fetch O (server_store w) (r_key r) (r_gzip r) true off size = FOk clear) /\
    (forall off size, 0 < size -> off + size <= len clear ->
       fetch O (server_store w) (r_key r) (r_gzip r) false off size = FOk (slice off size clear)).
Proof.
  intros O HL u Hn Ht. destruct (clear_of_some O u Ht) as [c Hc]. exists c. split.
  - unfold clear_of in Hc. destruct (u_ic u); [|inversion Hc; left; reflexivity].
    destruct (is_gzipped_content (glib O) (u_data u)); [|inversion Hc; left; reflexivity].
    destruct (o_gunzip O (u_data u)) eqn:E; try discriminate. inversion Hc; subst. right. split; reflexivity.
  - exact (roundtrip O HL u c Hn Hc).
Qed.

(* ---------- inside finding 0: what really happens ---------- *)
(* not encrypted: the junk is stored as it is, flagged compressed; every full fetch
   (all three readers ask with Accept-Encoding: gzip and get the junk back labelled
   gzip) fails; nothing panics *)
Theorem false_promise_plain : forall O u,
  false_gzip_promise O u = true -> u_cipher u = false ->
  let w := fst (upload O u) in let r := snd (upload O u) in
  w_body w = u_data u /\ w_ce_gzip w = true /\ r_gzip r = true /\ r_key r = None /\ r_size r = len (u_data u) /\
  (forall gz off size, fetch O (server_store w) None gz true off size = FErr) /\
  read_closer true O (server_store w) None = FErr /\
  (* a ranged fetch gets whatever the server's own (error-ignoring) decompression left *)
  (forall gz off size, fetch O (server_store w) None gz false off size =
     let body := gunzip_partial O (u_data u) in
     if (size =? 0) || (len body <? off) then FErr
     else FOk (slice off (N.min (off + size) (len body) - off) body)).
Proof.
  intros O u Ht Hc. cbv zeta. unfold false_gzip_promise in Ht.
  apply andb_prop in Ht. destruct Ht as [Ht Hg]. apply andb_prop in Ht. destruct Ht as [Hic Hmag].
  assert (Hsg : should_gzip_now O u = false) by (unfold should_gzip_now; rewrite Hic; reflexivity).
  unfold upload. rewrite Hc, Hsg, Hic. simpl andb. cbv iota.
  unfold decompress_data, ungzip_data. rewrite Hmag. simpl gz_gunzip.
  assert (Hfull : forall gz off size,
            fetch O (server_store {| w_body := u_data u; w_ce_gzip := true; w_filename := u_name u |}) None gz true off size = FErr).
  { intros gz off size. unfold fetch, fetch_gen, server_store, server_get, read_body. simpl.
    rewrite Hmag. simpl. destruct (o_gunzip O (u_data u)); try reflexivity. discriminate. }
  assert (Hrng : forall gz off size,
            fetch O (server_store {| w_body := u_data u; w_ce_gzip := true; w_filename := u_name u |}) None gz false off size =
            let body := gunzip_partial O (u_data u) in
            if (size =? 0) || (len body <? off) then FErr
            else FOk (slice off (N.min (off + size) (len body) - off) body)).
  { intros gz off size. unfold fetch, fetch_gen, server_store, server_get, read_body, decompress_ignore_err,
      decompress_data, ungzip_data, gunzip_partial. simpl.
    rewrite Hmag. simpl.
    destruct (o_gunzip O (u_data u)); try discriminate; simpl;
      destruct ((size =? 0) || (len _ <? off)); reflexivity. }
  assert (Hrc : read_closer true O (server_store {| w_body := u_data u; w_ce_gzip := true; w_filename := u_name u |}) None = FErr).
  { rewrite (read_closer_is_fetch true O _ true true 0 0). apply (Hfull true 0 0). }
  destruct (o_gunzip O (u_data u)) eqn:Hgun; try discriminate; simpl; repeat split; auto.
Qed.

(* encrypted: the upload succeeds, records the length of the INPUT, but what is sealed
   and stored is only DecompressData's partial output (nothing at all after a header
   error): the input bytes are gone *)
Theorem false_promise_cipher : forall O, laws O -> forall u,
  false_gzip_promise O u = true -> u_cipher u = true -> List.length (u_nonce u) = 12%nat ->
  let w := fst (upload O u) in let r := snd (upload O u) in
  let p := gunzip_partial O (u_data u) in
  w_body w = encrypt O (u_key u) (u_nonce u) p /\ r_size r = len (u_data u) /\ r_gzip r = false /\
  forall full off size,
    fetch O (server_store w) (r_key r) (r_gzip r) full off size =
    if len p <? off + size then FErr else if full then FOk p else FOk (slice off size p).
Proof.
  intros O HL u Ht Hc Hn. cbv zeta. unfold false_gzip_promise in Ht.
  apply andb_prop in Ht. destruct Ht as [Ht Hg]. apply andb_prop in Ht. destruct Ht as [Hic Hmag].
  unfold upload. rewrite Hc, Hic, andb_false_r. cbv iota.
  unfold decompress_data, ungzip_data, gunzip_partial. rewrite Hmag. simpl gz_gunzip.
  destruct (o_gunzip O (u_data u)) eqn:Hgun; try discriminate; simpl;
    (split; [reflexivity|]; split; [reflexivity|]; split; [reflexivity|]);
    intros full off size; unfold fetch, fetch_gen, server_store, server_get, http_get_all, read_body; simpl;
    rewrite (decrypt_encrypt O HL _ _ _ Hn); reflexivity.
Qed.

(* ---------- the full "any content" statement fails on the faithful model ---------- *)
Definition junk_cipher_upload : upload_in :=
  {| u_name := "junk"%string; u_cipher := true; u_data := [31; 139; 0; 1; 2]; u_ic := true;
     u_mime := ""%string; u_key := [9]; u_nonce := [1; 2; 3; 4; 5; 6; 7; 8; 9; 10; 11; 12] |}.

(* full statement: some clear bytes (the data, or its gunzip when the caller said it is
   compressed) come back from a full fetch of the recorded size *)
Definition any_content_ok (O : oracle) (u : upload_in) : Prop :=
  exists clear, (clear = u_data u \/ o_gunzip O (u_data u) = GzOk clear) /\
    fetch O (server_store (fst (upload O u))) (r_key (snd (upload O u))) (r_gzip (snd (upload O u))) true 0
          (r_size (snd (upload O u))) = FOk clear.

Theorem any_content_refuted : exists O, laws O /\
  (exists u, List.length (u_nonce u) = 12%nat /\ u_cipher u = false /\ ~ any_content_ok O u /\
     (* and a ranged read of the first 5 bytes silently returns nothing *)
     fetch O (server_store (fst (upload O u))) None true false 0 5 = FOk []) /\
  (exists u, List.length (u_nonce u) = 12%nat /\ u_cipher u = true /\ ~ any_content_ok O u /\
     (* the upload reported 5 bytes, the stored plaintext is empty *)
     r_size (snd (upload O u)) = 5 /\
     decrypt O (u_key u) (w_body (fst (upload O u))) = Some []).
Proof.
  exists toy. split; [exact toy_laws|]. split.
  - exists {| u_name := "junk"%string; u_cipher := false; u_data := [31; 139; 0; 1; 2]; u_ic := true;
              u_mime := ""%string; u_key := []; u_nonce := [1; 2; 3; 4; 5; 6; 7; 8; 9; 10; 11; 12] |}.
    split; [reflexivity|]. split; [reflexivity|]. split; [|vm_compute; reflexivity].
    intros [c [_ H]]. vm_compute in H. discriminate.
  - exists junk_cipher_upload.
    split; [reflexivity|]. split; [reflexivity|]. split; [|split; vm_compute; reflexivity].
    intros [c [_ H]]. vm_compute in H. discriminate.
Qed.

(* ---------- non-vacuity ---------- *)
Definition ex_text : upload_in :=
  {| u_name := "a.txt"%string; u_cipher := false; u_data := [104; 105; 32; 104; 105]; u_ic := false;
     u_mime := ""%string; u_key := []; u_nonce := [] |}.
Definition ex_cipher : upload_in :=
  {| u_name := "x"%string; u_cipher := true; u_data := [31; 139; 1; 2]; u_ic := false;
     u_mime := ""%string; u_key := [9]; u_nonce := [1; 2; 3; 4; 5; 6; 7; 8; 9; 10; 11; 12] |}.
Definition ex_pregz : upload_in :=
  {| u_name := "p.gz"%string; u_cipher := false; u_data := [31; 139; 8; 65; 66; 67]; u_ic := true;
     u_mime := ""%string; u_key := []; u_nonce := [1; 2; 3; 4; 5; 6; 7; 8; 9; 10; 11; 12] |}.

Lemma example_holds :
  laws toy /\
  (r_gzip (snd (upload toy ex_text)) = true /\
   fetch toy (server_store (fst (upload toy ex_text))) None true true 0 5 = FOk [104; 105; 32; 104; 105] /\
   fetch toy (server_store (fst (upload toy ex_text))) None true false 1 3 = FOk [105; 32; 104] /\
   read_url true toy (server_store (fst (upload toy ex_text))) None true true 0 5 2 = FOk [104; 105] /\
   read_closer true toy (server_store (fst (upload toy ex_text))) (Some (1, 3)) = FOk [105; 32; 104]) /\
  fetch toy (server_store (fst (upload toy ex_cipher))) (r_key (snd (upload toy ex_cipher)))
        (r_gzip (snd (upload toy ex_cipher))) false 1 2 = FOk [139; 1] /\
  (false_gzip_promise toy ex_pregz = false /\ clear_of toy ex_pregz = Some [65; 66; 67] /\
   List.length (u_nonce ex_pregz) = 12%nat /\
   fetch toy (server_store (fst (upload toy ex_pregz))) None true true 0 3 = FOk [65; 66; 67]) /\
  (false_gzip_promise toy junk_upload = true /\ false_gzip_promise toy junk_cipher_upload = true).
Proof. split; [exact toy_laws | vm_compute; repeat split; reflexivity]. Qed.
