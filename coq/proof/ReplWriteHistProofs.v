(* Proofs about the replicated volume as a state machine (C40): one step from any state,
   histories, exactness of the triggers, witnesses. *)
From Coq Require Import List NArith Bool String Ascii Lia.
From SW Require Import model.ReplWrite proof.ReplWriteProofs.
Import ListNotations.
Local Open Scope string_scope.
Local Open Scope N_scope.

(* ---------- same_outcome is an equivalence ---------- *)

Lemma pairs_eqb_eq : forall a b, pairs_eqb a b = true -> a = b.
Proof.
  induction a as [|[k v] a IH]; intros [|[k' v'] b] H; cbn in H; try discriminate; [reflexivity|].
  apply andb_true_iff in H. destruct H as [H Hr]. apply andb_true_iff in H. destruct H as [Hk Hv].
  apply String.eqb_eq in Hk. apply String.eqb_eq in Hv. subst. f_equal. apply IH. exact Hr.
Qed.

(* the part of a view the property compares *)
Definition outcome_of (v : view) :=
  (so_state v, so_name v, so_mime v, so_pairs v, so_lastmod v, fst (so_ttl v), snd (so_ttl v),
   so_dec_ok v, so_len v, so_crc v).

Lemma same_outcome_eq : forall a b, same_outcome a b = true <-> outcome_of a = outcome_of b.
Proof.
  intros a b. unfold same_outcome, outcome_of. split.
  - intros H. repeat (apply andb_true_iff in H; destruct H as [H ?]).
    repeat match goal with
    | X : (_ =? _) = true |- _ => apply N.eqb_eq in X
    | X : String.eqb _ _ = true |- _ => apply String.eqb_eq in X
    | X : pairs_eqb _ _ = true |- _ => apply pairs_eqb_eq in X
    | X : Bool.eqb _ _ = true |- _ => apply Bool.eqb_prop in X
    end.
    congruence.
  - intros H. injection H as H1 H2 H3 H4 H5 H6 H7 H8 H9 H10.
    rewrite H1, H2, H3, H4, H5, H6, H7, H8, H9, H10.
    rewrite !N.eqb_refl, !String.eqb_refl, pairs_eqb_refl, Bool.eqb_reflx. reflexivity.
Qed.

Lemma same_outcome_refl : forall a, same_outcome a a = true.
Proof. intros a. apply same_outcome_eq. reflexivity. Qed.

Lemma same_outcome_sym : forall a b, same_outcome a b = true -> same_outcome b a = true.
Proof. intros a b H. apply same_outcome_eq. symmetry. apply same_outcome_eq. exact H. Qed.

Lemma same_outcome_trans : forall a b c,
  same_outcome a b = true -> same_outcome b c = true -> same_outcome a c = true.
Proof.
  intros a b c H1 H2. apply same_outcome_eq. apply same_outcome_eq in H1. apply same_outcome_eq in H2. congruence.
Qed.

(* everything but the mime type *)
Lemma same_but_mime_refl : forall a, same_but_mime a a = true.
Proof. intros a. apply same_outcome_refl. Qed.
Lemma same_but_mime_sym : forall a b, same_but_mime a b = true -> same_but_mime b a = true.
Proof. intros a b. apply same_outcome_sym. Qed.
Lemma same_but_mime_trans : forall a b c,
  same_but_mime a b = true -> same_but_mime b c = true -> same_but_mime a c = true.
Proof. intros a b c. apply same_outcome_trans. Qed.
Lemma same_outcome_but_mime : forall a b, same_outcome a b = true -> same_but_mime a b = true.
Proof.
  intros a b H. apply same_outcome_eq in H. apply same_outcome_eq.
  unfold outcome_of in *. cbn [clear_mime so_state so_name so_mime so_pairs so_lastmod so_ttl so_dec_ok so_len so_crc].
  injection H as H1 H2 H3 H4 H5 H6 H7 H8 H9 H10. congruence.
Qed.

(* the decoded content *)
Lemma same_content_refl : forall a, same_content a a = true.
Proof. intros a. unfold same_content. rewrite !N.eqb_refl, orb_true_r. reflexivity. Qed.
Lemma same_content_sym : forall a b, same_content a b = true -> same_content b a = true.
Proof.
  intros a b H. unfold same_content in *.
  apply andb_true_iff in H. destruct H as [H H3]. apply andb_true_iff in H. destruct H as [H1 H2].
  apply N.eqb_eq in H1. apply N.eqb_eq in H2. rewrite H1, H2, !N.eqb_refl. cbn [andb].
  rewrite H2 in H3. apply orb_true_iff in H3. destruct H3 as [H3|H3]; [rewrite H3; reflexivity|].
  apply N.eqb_eq in H3. rewrite H3, N.eqb_refl. apply orb_true_r.
Qed.
Lemma same_content_trans : forall a b c,
  same_content a b = true -> same_content b c = true -> same_content a c = true.
Proof.
  intros a b c H G. unfold same_content in *.
  apply andb_true_iff in H. destruct H as [H H3]. apply andb_true_iff in H. destruct H as [H1 H2].
  apply andb_true_iff in G. destruct G as [G G3]. apply andb_true_iff in G. destruct G as [G1 G2].
  apply N.eqb_eq in H1. apply N.eqb_eq in H2. apply N.eqb_eq in G1. apply N.eqb_eq in G2.
  rewrite H1, G1, H2, G2, !N.eqb_refl. cbn [andb].
  rewrite <- H2 in G3. rewrite <- G2. rewrite <- H2.
  destruct (so_len a =? 0); [reflexivity|]. cbn [orb] in *.
  apply N.eqb_eq in H3. apply N.eqb_eq in G3. rewrite H3, G3. apply N.eqb_refl.
Qed.
Lemma same_outcome_content : forall a b, same_outcome a b = true -> same_content a b = true.
Proof.
  intros a b H. apply same_outcome_eq in H. unfold outcome_of in H.
  injection H as H1 H2 H3 H4 H5 H6 H7 H8 H9 H10. unfold same_content.
  rewrite H1, H9, H10, !N.eqb_refl, orb_true_r. reflexivity.
Qed.

(* ---------- stores ---------- *)

Lemma upd_same : forall s k v, upd s k v k = v.
Proof. intros s k v. unfold upd. rewrite N.eqb_refl. reflexivity. Qed.

Lemma upd_other : forall s k v k', k' <> k -> upd s k v k' = s k'.
Proof. intros s k v k' H. unfold upd. apply N.eqb_neq in H. rewrite H. reflexivity. Qed.

(* the write of one server, by cases *)
Lemma write_local_unchanged : forall s ck n, is_unchanged s ck n = true -> write_local s ck n = (s, 1).
Proof.
  intros s ck n H. destruct s as [|ck0 n0|ck0]; cbn [is_unchanged] in H; try discriminate.
  cbn [write_local]. rewrite H. reflexivity.
Qed.

Lemma write_local_changed : forall s ck n, is_unchanged s ck n = false -> snd (write_local s ck n) <> 2 ->
  write_local s ck n = (Live ck n, 0).
Proof.
  intros s ck n H Hres. destruct s as [|ck0 n0|ck0]; cbn [is_unchanged write_local] in *.
  - reflexivity.
  - rewrite H in *. destruct (ck0 =? ck); [reflexivity | exfalso; apply Hres; reflexivity].
  - destruct (ck0 =? ck); [reflexivity | exfalso; apply Hres; reflexivity].
Qed.

(* ---------- an upload step, for any relation between outcomes ---------- *)

Section UploadRel.
Variable R : view -> view -> bool.
Hypothesis R_refl : forall a, R a a = true.
Hypothesis R_sym : forall a b, R a b = true -> R b a = true.
Hypothesis R_trans : forall a b c, R a b = true -> R b c = true -> R a c = true.

(* a server that answers "unchanged" holds something R-related to what it is sent *)
Definition keeps_R (s : slot) (ck : N) (n : needle) : bool :=
  negb (is_unchanged s ck n) || R (slot_view s) (view_of n).
Definition server_keeps_R (r : option store) (k ck : N) (n : needle) : bool :=
  match r with Some s => keeps_R (s k) ck n | None => true end.

Lemma write_local_R : forall s ck n,
  snd (write_local s ck n) <> 2 -> keeps_R s ck n = true ->
  R (slot_view (fst (write_local s ck n))) (view_of n) = true.
Proof.
  intros s ck n Hres Hk. unfold keeps_R in Hk.
  destruct (is_unchanged s ck n) eqn:Eu.
  - rewrite (write_local_unchanged _ _ _ Eu). exact Hk.
  - rewrite (write_local_changed _ _ _ Eu Hres). apply R_refl.
Qed.

Lemma replica_serve_upload_R : forall r k ck rn,
  snd (replica_serve_upload r k ck rn) = true -> server_keeps_R r k ck rn = true ->
  R (server_view (fst (replica_serve_upload r k ck rn)) k) (view_of rn) = true.
Proof.
  intros r k ck rn Hok Hk. destruct r as [s|]; [|discriminate].
  cbn [replica_serve_upload server_keeps_R] in *.
  pose proof (write_local_R (s k) ck rn) as Hv.
  destruct (write_local (s k) ck rn) as [sl res] eqn:Ew. cbn [fst snd] in *.
  cbn [server_view]. rewrite upd_same. apply Hv; [|exact Hk].
  intros E. subst res. discriminate.
Qed.

Lemma replicas_upload_R : forall rs fs k ck rn,
  snd (replicas_upload fs rs k ck rn) = true ->
  forallb (fun r => server_keeps_R r k ck rn) rs = true ->
  forallb (fun v => R v (view_of rn)) (map (fun r => server_view r k) (fst (replicas_upload fs rs k ck rn))) = true.
Proof.
  induction rs as [|r rs IH]; intros fs k ck rn Hok Hd; [reflexivity|].
  cbn [replicas_upload] in *.
  destruct (replica_upload (hd 0 fs) r k ck rn) as [r' ok] eqn:Er.
  destruct (replicas_upload (tl fs) rs k ck rn) as [rs' ok'] eqn:Ers.
  cbn [fst snd] in *. apply andb_true_iff in Hok. destruct Hok as [Hok Hok'].
  cbn [forallb] in Hd. apply andb_true_iff in Hd. destruct Hd as [Hd Hd'].
  cbn [map forallb]. apply andb_true_iff. split.
  - unfold replica_upload in Er. destruct (blocks_upload (hd 0 fs)); [injection Er as _ E; congruence|].
    pose proof (replica_serve_upload_R r k ck rn) as Hs. rewrite Er in Hs. cbn [fst snd] in Hs.
    apply Hs; assumption.
  - specialize (IH (tl fs) k ck rn). rewrite Ers in IH. cbn [fst snd] in IH. apply IH; assumption.
Qed.

(* an acknowledged upload: every listed location R-related to the primary *)
Lemma upload_step_R : forall sy o q k ck fs,
  let n := create_needle o q in
  let rn := create_needle o (replicate o n) in
  R (view_of n) (view_of rn) = true ->
  keeps_R (sy_p sy k) ck n = true ->
  forallb (fun r => server_keeps_R r k ck rn) (sy_r sy) = true ->
  success (snd (upload_step sy o q k ck fs)) = true ->
  match key_views (fst (upload_step sy o q k ck fs)) k with
  | [] => True
  | p :: rs => forallb (R p) rs = true
  end.
Proof.
  intros sy o q k ck fs n rn Hnr Hkp Hkr Hs.
  unfold upload_step in *. fold n rn in Hs |- *.
  destruct (sy_nolookup sy); [cbn [snd] in Hs; discriminate|].
  pose proof (write_local_R (sy_p sy k) ck n) as Hp.
  destruct (write_local (sy_p sy k) ck n) as [sl res] eqn:Ew. cbn [fst snd] in Hp.
  destruct (res =? 2) eqn:Eres; [cbn [snd] in Hs; discriminate|].
  pose proof (replicas_upload_R (sy_r sy) fs k ck rn) as Hr.
  destruct (replicas_upload fs (sy_r sy) k ck rn) as [rs ok] eqn:Ers. cbn [fst snd] in *.
  destruct ok; [|discriminate].
  specialize (Hr eq_refl Hkr).
  assert (Hp' : R (slot_view sl) (view_of n) = true).
  { apply Hp; [|exact Hkp]. intros E. subst res. discriminate. }
  unfold key_views. cbn [sy_p sy_r]. rewrite upd_same.
  rewrite forallb_forall in Hr. apply forallb_forall. intros v Hv.
  apply R_trans with (view_of rn).
  - apply R_trans with (view_of n); assumption.
  - apply R_sym. apply Hr. exact Hv.
Qed.

End UploadRel.

(* ---------- the needle the primary stores against the needle a replica stores ---------- *)

Lemma has_mime_view : forall o q,
  (if n_has_mime (create_needle o q) then n_mime (create_needle o q) else "") = n_mime (create_needle o q).
Proof. intros o q. cbn [create_needle n_has_mime n_mime]. destruct (slen (parsed_mime o q) <? 256); reflexivity. Qed.

Lemma trig_empty_false : forall o q,
  trig_empty o q = false -> body_empty (n_body (create_needle o q)) = true ->
  body_empty (n_body (create_needle o (replicate o (create_needle o q)))) = true.
Proof.
  intros o q H Hb. unfold trig_empty in H. cbv zeta in H. rewrite Hb in H. cbn [andb] in H.
  apply negb_false_iff in H. exact H.
Qed.

Lemma same_outcome_views : forall o q,
  trig_empty o q = false -> trig_mime o q = false ->
  same_outcome (view_of (create_needle o q)) (view_of (create_needle o (replicate o (create_needle o q)))) = true.
Proof.
  intros o q Hemp Hmime.
  set (n := create_needle o q). set (n' := create_needle o (replicate o n)).
  destruct (body_empty (n_body n)) eqn:Hb.
  - pose proof (trig_empty_false o q Hemp Hb) as Hb'. fold n n' in Hb'.
    unfold view_of. rewrite Hb, Hb'. apply same_outcome_refl.
  - pose proof (replica_body_nonempty o q Hb) as Hb'. fold n n' in Hb'.
    unfold view_of. rewrite Hb, Hb'. unfold same_outcome.
    cbn [so_state so_name so_mime so_pairs so_lastmod so_ttl so_dec_ok so_len so_crc].
    pose proof (replica_name_view o q) as Hn. fold n n' in Hn.
    pose proof (replica_pairs_view o q) as Hp. fold n n' in Hp.
    pose proof (replica_lastmod o q) as Hl. fold n n' in Hl.
    pose proof (replica_ttl_view o q) as Ht. fold n n' in Ht.
    pose proof (replica_content o q) as [Hc1 [Hc2 Hc3]]. fold n n' in Hc1, Hc2, Hc3.
    pose proof (replica_mime o q Hb Hmime) as Hm. fold n n' in Hm.
    assert (Hmv : (if n_has_mime n' then n_mime n' else "") = (if n_has_mime n then n_mime n else "")).
    { unfold n', n. rewrite !has_mime_view. exact Hm. }
    rewrite Hn, Hmv, Hp, Hl, Ht, Hc1, Hc2, Hc3.
    rewrite !String.eqb_refl, pairs_eqb_refl, !N.eqb_refl, Bool.eqb_reflx. reflexivity.
Qed.

(* everything but the mime type, whatever the mime trigger says *)
Lemma same_but_mime_views : forall o q,
  trig_empty o q = false ->
  same_but_mime (view_of (create_needle o q)) (view_of (create_needle o (replicate o (create_needle o q)))) = true.
Proof.
  intros o q Hemp.
  set (n := create_needle o q). set (n' := create_needle o (replicate o n)).
  destruct (body_empty (n_body n)) eqn:Hb.
  - pose proof (trig_empty_false o q Hemp Hb) as Hb'. fold n n' in Hb'.
    unfold view_of. rewrite Hb, Hb'. apply same_but_mime_refl.
  - pose proof (replica_body_nonempty o q Hb) as Hb'. fold n n' in Hb'.
    unfold same_but_mime, view_of. rewrite Hb, Hb'. unfold same_outcome, clear_mime.
    cbn [so_state so_name so_mime so_pairs so_lastmod so_ttl so_dec_ok so_len so_crc].
    pose proof (replica_name_view o q) as Hn. fold n n' in Hn.
    pose proof (replica_pairs_view o q) as Hp. fold n n' in Hp.
    pose proof (replica_lastmod o q) as Hl. fold n n' in Hl.
    pose proof (replica_ttl_view o q) as Ht. fold n n' in Ht.
    pose proof (replica_content o q) as [Hc1 [Hc2 Hc3]]. fold n n' in Hc1, Hc2, Hc3.
    rewrite Hn, Hp, Hl, Ht, Hc1, Hc2, Hc3.
    rewrite !String.eqb_refl, pairs_eqb_refl, !N.eqb_refl, Bool.eqb_reflx. reflexivity.
Qed.

Lemma body_empty_len : forall b, body_empty b = true -> b_len b = 0.
Proof.
  intros b H. unfold body_empty in H. apply andb_true_iff in H. destruct H as [_ H]. apply N.eqb_eq in H. exact H.
Qed.

(* the decoded content, always *)
Lemma same_content_views : forall o q,
  same_content (view_of (create_needle o q)) (view_of (create_needle o (replicate o (create_needle o q)))) = true.
Proof.
  intros o q.
  set (n := create_needle o q). set (n' := create_needle o (replicate o n)).
  pose proof (replica_content o q) as [Hc1 [Hc2 Hc3]]. fold n n' in Hc1, Hc2, Hc3.
  destruct (body_empty (n_body n)) eqn:Hb.
  - pose proof (body_empty_len _ Hb) as Hl.
    unfold view_of. rewrite Hb. destruct (body_empty (n_body n')); [apply same_content_refl|].
    unfold same_content. cbn [blank so_state so_len so_crc]. rewrite Hc2, Hl. reflexivity.
  - pose proof (replica_body_nonempty o q Hb) as Hb'. fold n n' in Hb'.
    unfold view_of. rewrite Hb, Hb'. unfold same_content. cbn [so_state so_len so_crc].
    rewrite Hc2, Hc3, !N.eqb_refl, orb_true_r. reflexivity.
Qed.

(* a server that answers "unchanged" holds the content it is sent *)
Lemma unchanged_content : forall s ck n,
  is_unchanged s ck n = true -> same_content (slot_view s) (view_of n) = true.
Proof.
  intros s ck n H. destruct s as [|ck0 n0|ck0]; cbn [is_unchanged] in H; try discriminate.
  apply andb_true_iff in H. destruct H as [H Hbe]. apply andb_true_iff in H. destruct H as [Hne _].
  apply negb_true_iff in Hne.
  unfold body_eqb in Hbe. apply andb_true_iff in Hbe. destruct Hbe as [Hbe Hg].
  apply andb_true_iff in Hbe. destruct Hbe as [Hl Hc].
  apply N.eqb_eq in Hl. apply N.eqb_eq in Hc. apply Bool.eqb_prop in Hg.
  assert (Hne' : body_empty (n_body n) = false).
  { unfold body_empty in *. rewrite <- Hg, <- Hl. exact Hne. }
  cbn [slot_view]. unfold view_of. rewrite Hne, Hne'. unfold same_content. cbn [so_state so_len so_crc].
  rewrite Hl, Hc, !N.eqb_refl, orb_true_r. reflexivity.
Qed.

(* ---------- every server answers "unchanged" and they agree already ---------- *)

Lemma replica_upload_alike : forall pv f r k ck rn,
  server_unchanged_alike pv r k ck rn = true ->
  same_outcome pv (server_view (fst (replica_upload f r k ck rn)) k) = true.
Proof.
  intros pv f r k ck rn H. destruct r as [s|]; [|discriminate]. cbn [server_unchanged_alike] in H.
  apply andb_true_iff in H. destruct H as [Hu Hs].
  assert (Hserve : fst (replica_serve_upload (Some s) k ck rn) = Some (upd s k (s k))).
  { cbn [replica_serve_upload]. rewrite (write_local_unchanged _ _ _ Hu). reflexivity. }
  unfold replica_upload. destruct (blocks_upload f); cbn [fst].
  - destruct (applies f); [rewrite Hserve; cbn [server_view]; rewrite upd_same; exact Hs | exact Hs].
  - rewrite Hserve. cbn [server_view]. rewrite upd_same. exact Hs.
Qed.

Lemma replicas_upload_alike : forall pv rs fs k ck rn,
  forallb (fun r => server_unchanged_alike pv r k ck rn) rs = true ->
  forallb (same_outcome pv) (map (fun r => server_view r k) (fst (replicas_upload fs rs k ck rn))) = true.
Proof.
  induction rs as [|r rs IH]; intros fs k ck rn H; [reflexivity|].
  cbn [forallb] in H. apply andb_true_iff in H. destruct H as [H1 H2].
  cbn [replicas_upload].
  pose proof (replica_upload_alike pv (hd 0 fs) r k ck rn H1) as Ha.
  destruct (replica_upload (hd 0 fs) r k ck rn) as [r' ok].
  specialize (IH (tl fs) k ck rn H2).
  destruct (replicas_upload (tl fs) rs k ck rn) as [rs' ok'].
  cbn [fst map forallb] in *. rewrite Ha, IH. reflexivity.
Qed.

Lemma upload_step_alike : forall sy o q k ck fs,
  all_unchanged_alike sy k ck (create_needle o q) (create_needle o (replicate o (create_needle o q))) = true ->
  match key_views (fst (upload_step sy o q k ck fs)) k with
  | [] => True
  | p :: rs => forallb (same_outcome p) rs = true
  end.
Proof.
  intros sy o q k ck fs H. unfold all_unchanged_alike in H. apply andb_true_iff in H. destruct H as [Hu Ha].
  unfold upload_step.
  destruct (sy_nolookup sy).
  { cbn [fst]. unfold key_views.
    clear -Ha. induction (sy_r sy) as [|r rs IH]; [reflexivity|].
    cbn [forallb map] in *. apply andb_true_iff in Ha. destruct Ha as [H1 H2].
    rewrite (IH H2), andb_true_r. destruct r as [s|]; [|discriminate].
    cbn [server_unchanged_alike] in H1. apply andb_true_iff in H1. destruct H1 as [_ H1]. exact H1. }
  rewrite (write_local_unchanged _ _ _ Hu). cbn [N.eqb Pos.eqb].
  pose proof (replicas_upload_alike (slot_view (sy_p sy k)) (sy_r sy) fs k ck
                (create_needle o (replicate o (create_needle o q))) Ha) as Hr.
  destruct (replicas_upload fs (sy_r sy) k ck (create_needle o (replicate o (create_needle o q)))) as [rs ok].
  cbn [fst] in *. unfold key_views. cbn [sy_p sy_r]. rewrite upd_same. exact Hr.
Qed.

(* ---------- the property, step by step, from ANY state ---------- *)

Lemma drops_keeps : forall (R : view -> view -> bool),
  (forall a b, same_outcome a b = true -> R a b = true) ->
  forall s ck n, unchanged_drops s ck n = false -> keeps_R R s ck n = true.
Proof.
  intros R HR s ck n H. unfold unchanged_drops in H. unfold keeps_R.
  destruct (is_unchanged s ck n); [|reflexivity]. cbn [andb negb orb] in *.
  apply negb_false_iff in H. apply HR. exact H.
Qed.

Lemma servers_drops_keeps : forall (R : view -> view -> bool),
  (forall a b, same_outcome a b = true -> R a b = true) ->
  forall rs k ck n, existsb (fun r => server_unchanged_drops r k ck n) rs = false ->
  forallb (fun r => server_keeps_R R r k ck n) rs = true.
Proof.
  intros R HR. induction rs as [|r rs IH]; intros k ck n H; [reflexivity|].
  cbn [existsb] in H. apply orb_false_iff in H. destruct H as [H1 H2].
  cbn [forallb]. rewrite (IH k ck n H2), andb_true_r.
  destruct r as [s|]; [|reflexivity]. cbn [server_unchanged_drops server_keeps_R] in *.
  apply drops_keeps; assumption.
Qed.

Lemma upload_step_gen : forall (R : view -> view -> bool),
  (forall a, R a a = true) -> (forall a b, R a b = true -> R b a = true) ->
  (forall a b c, R a b = true -> R b c = true -> R a c = true) ->
  (forall a b, same_outcome a b = true -> R a b = true) ->
  forall sy o q k ck fs,
  R (view_of (create_needle o q)) (view_of (create_needle o (replicate o (create_needle o q)))) = true ->
  trig_unchanged sy o q k ck = false ->
  success (snd (upload_step sy o q k ck fs)) = true ->
  forallb (R (slot_view (sy_p (fst (upload_step sy o q k ck fs)) k)))
          (map (fun r => server_view r k) (sy_r (fst (upload_step sy o q k ck fs)))) = true.
Proof.
  intros R Hrefl Hsym Htrans Hsame sy o q k ck fs Hnr Hunch Hs.
  unfold trig_unchanged in Hunch. cbv zeta in Hunch.
  destruct (all_unchanged_alike sy k ck (create_needle o q) (create_needle o (replicate o (create_needle o q)))) eqn:Ea.
  - pose proof (upload_step_alike sy o q k ck fs Ea) as H. unfold key_views in H. cbv beta iota in H.
    rewrite forallb_forall in H. apply forallb_forall. intros v Hv. apply Hsame. apply H. exact Hv.
  - cbn [negb] in Hunch. rewrite andb_true_r in Hunch. apply orb_false_iff in Hunch. destruct Hunch as [Hu1 Hu2].
    pose proof (upload_step_R R Hrefl Hsym Htrans sy o q k ck fs Hnr
                  (drops_keeps R Hsame _ _ _ Hu1) (servers_drops_keeps R Hsame _ _ _ _ Hu2) Hs) as H.
    unfold key_views in H. cbv beta iota in H. exact H.
Qed.

(* an acknowledged upload, outside the three triggers, leaves every listed location with
   the primary's outcome for the file id - whatever the servers held before (earlier
   uploads that failed half-way, deletes that failed half-way, other cookies), whatever
   the faults of this step *)
Theorem upload_step_partial : forall sy o q k ck fs,
  trig_empty o q = false -> trig_mime o q = false -> trig_unchanged sy o q k ck = false ->
  upload_consistent (snd (upload_step sy o q k ck fs)) (key_views (fst (upload_step sy o q k ck fs)) k) = true.
Proof.
  intros sy o q k ck fs Hemp Hmime Hunch. unfold upload_consistent.
  destruct (success (snd (upload_step sy o q k ck fs))) eqn:Hs; [|reflexivity]. cbn [negb orb].
  unfold key_views.
  exact (upload_step_gen same_outcome same_outcome_refl same_outcome_sym same_outcome_trans (fun a b H => H)
           sy o q k ck fs (same_outcome_views o q Hemp Hmime) Hunch Hs).
Qed.

(* inside the mime trigger everything but the mime type still agrees *)
Theorem upload_step_but_mime : forall sy o q k ck fs,
  trig_empty o q = false -> trig_unchanged sy o q k ck = false ->
  success (snd (upload_step sy o q k ck fs)) = true ->
  forallb (same_but_mime (slot_view (sy_p (fst (upload_step sy o q k ck fs)) k)))
          (map (fun r => server_view r k) (sy_r (fst (upload_step sy o q k ck fs)))) = true.
Proof.
  intros sy o q k ck fs Hemp Hunch Hs.
  exact (upload_step_gen same_but_mime same_but_mime_refl same_but_mime_sym same_but_mime_trans same_outcome_but_mime
           sy o q k ck fs (same_but_mime_views o q Hemp) Hunch Hs).
Qed.

(* inside every trigger the decoded content still agrees: an acknowledged upload always
   leaves every listed location serving the same bytes *)
Theorem upload_step_content : forall sy o q k ck fs,
  success (snd (upload_step sy o q k ck fs)) = true ->
  forallb (same_content (slot_view (sy_p (fst (upload_step sy o q k ck fs)) k)))
          (map (fun r => server_view r k) (sy_r (fst (upload_step sy o q k ck fs)))) = true.
Proof.
  intros sy o q k ck fs Hs.
  assert (Hk : forall s n, keeps_R same_content s ck n = true).
  { intros s n. unfold keeps_R. destruct (is_unchanged s ck n) eqn:E; [|reflexivity].
    cbn [negb orb]. apply (unchanged_content _ _ _ E). }
  assert (Hks : forall rs n, forallb (fun r => server_keeps_R same_content r k ck n) rs = true).
  { induction rs as [|r rs IH]; intros n; [reflexivity|]. cbn [forallb]. rewrite IH, andb_true_r.
    destruct r as [s|]; [apply Hk | reflexivity]. }
  pose proof (upload_step_R same_content same_content_refl same_content_sym same_content_trans sy o q k ck fs
                (same_content_views o q) (Hk _ _) (Hks _ _) Hs) as H.
  unfold key_views in H. cbv beta iota in H. exact H.
Qed.

(* ---------- deletes ---------- *)

(* an accepted delete leaves the server without the file - unless it holds the Size = 0
   record of an empty upload, which it keeps *)
Lemma delete_local_view : forall s ck,
  (snd (delete_local s ck) = 202 \/ snd (delete_local s ck) = 404) -> slot_empty s = false ->
  is_deleted (slot_view (fst (delete_local s ck))) = true.
Proof.
  intros s ck Hst He. destruct s as [|ck0 n0|ck0]; cbn [delete_local slot_empty] in *; try reflexivity.
  rewrite He in *. destruct (ck0 =? ck); [reflexivity|].
  cbn [snd] in Hst. destruct Hst as [Hst|Hst]; discriminate.
Qed.

Definition gone_or_empty (v : view) : bool := is_deleted v || empty_record v.

Lemma delete_local_residual : forall s ck,
  (snd (delete_local s ck) = 202 \/ snd (delete_local s ck) = 404) ->
  gone_or_empty (slot_view (fst (delete_local s ck))) = true.
Proof.
  intros s ck Hst. destruct (slot_empty s) eqn:He.
  - destruct s as [|ck0 n0|ck0]; cbn [slot_empty] in He; try discriminate.
    cbn [delete_local]. rewrite He. cbn [fst slot_view]. unfold view_of. rewrite He. reflexivity.
  - unfold gone_or_empty. rewrite (delete_local_view s ck Hst He). reflexivity.
Qed.

Lemma replica_serve_delete_view : forall r k ck,
  snd (replica_serve_delete r k ck) = true -> server_slot_empty r k = false ->
  is_deleted (server_view (fst (replica_serve_delete r k ck)) k) = true.
Proof.
  intros r k ck Hok He. destruct r as [s|]; [|reflexivity].
  cbn [replica_serve_delete server_slot_empty] in *.
  pose proof (delete_local_view (s k) ck) as Hv.
  destruct (delete_local (s k) ck) as [sl st]. cbn [fst snd server_view] in *. rewrite upd_same.
  apply Hv; [|exact He].
  apply orb_true_iff in Hok. destruct Hok as [Hok|Hok]; apply N.eqb_eq in Hok; auto.
Qed.

Lemma replica_serve_delete_residual : forall r k ck,
  snd (replica_serve_delete r k ck) = true ->
  gone_or_empty (server_view (fst (replica_serve_delete r k ck)) k) = true.
Proof.
  intros r k ck Hok. destruct r as [s|]; [|reflexivity].
  cbn [replica_serve_delete] in *.
  pose proof (delete_local_residual (s k) ck) as Hv.
  destruct (delete_local (s k) ck) as [sl st]. cbn [fst snd server_view] in *. rewrite upd_same.
  apply Hv.
  apply orb_true_iff in Hok. destruct Hok as [Hok|Hok]; apply N.eqb_eq in Hok; auto.
Qed.

Lemma replicas_delete_views : forall rs fs k ck,
  snd (replicas_delete fs rs k ck) = true ->
  existsb (fun r => server_slot_empty r k) rs = false ->
  forallb is_deleted (map (fun r => server_view r k) (fst (replicas_delete fs rs k ck))) = true.
Proof.
  induction rs as [|r rs IH]; intros fs k ck Hok Hd; [reflexivity|].
  cbn [replicas_delete] in *.
  destruct (replica_delete (hd 0 fs) r k ck) as [r' ok] eqn:Er.
  destruct (replicas_delete (tl fs) rs k ck) as [rs' ok'] eqn:Ers.
  cbn [fst snd] in *. apply andb_true_iff in Hok. destruct Hok as [Hok Hok'].
  cbn [existsb] in Hd. apply orb_false_iff in Hd. destruct Hd as [Hd Hd'].
  cbn [map forallb]. apply andb_true_iff. split.
  - unfold replica_delete in Er. destruct (blocks_delete (hd 0 fs)); [injection Er as _ E; congruence|].
    pose proof (replica_serve_delete_view r k ck) as Hs. rewrite Er in Hs. cbn [fst snd] in Hs. apply Hs; assumption.
  - specialize (IH (tl fs) k ck). rewrite Ers in IH. cbn [fst snd] in IH. apply IH; assumption.
Qed.

Lemma replicas_delete_residual : forall rs fs k ck,
  snd (replicas_delete fs rs k ck) = true ->
  forallb gone_or_empty (map (fun r => server_view r k) (fst (replicas_delete fs rs k ck))) = true.
Proof.
  induction rs as [|r rs IH]; intros fs k ck Hok; [reflexivity|].
  cbn [replicas_delete] in *.
  destruct (replica_delete (hd 0 fs) r k ck) as [r' ok] eqn:Er.
  destruct (replicas_delete (tl fs) rs k ck) as [rs' ok'] eqn:Ers.
  cbn [fst snd] in *. apply andb_true_iff in Hok. destruct Hok as [Hok Hok'].
  cbn [map forallb]. apply andb_true_iff. split.
  - unfold replica_delete in Er. destruct (blocks_delete (hd 0 fs)); [injection Er as _ E; congruence|].
    pose proof (replica_serve_delete_residual r k ck) as Hs. rewrite Er in Hs. cbn [fst snd] in Hs. apply Hs; assumption.
  - specialize (IH (tl fs) k ck). rewrite Ers in IH. cbn [fst snd] in IH. apply IH; assumption.
Qed.

(* the primary's part of a delete that is acknowledged *)
Lemma delete_step_ack : forall sy k ck fs,
  success (snd (delete_step sy k ck fs)) = true ->
  snd (delete_local (sy_p sy k) ck) = 202 /\ sy_nolookup sy = false /\
  snd (replicas_delete fs (sy_r sy) k ck) = true /\
  fst (delete_step sy k ck fs) =
    {| sy_p := upd (sy_p sy) k (fst (delete_local (sy_p sy k) ck));
       sy_r := fst (replicas_delete fs (sy_r sy) k ck); sy_nolookup := false |}.
Proof.
  intros sy k ck fs Hs. unfold delete_step in *.
  destruct (delete_local (sy_p sy k) ck) as [sl st] eqn:Ed.
  destruct (st =? 202) eqn:Est; cbn [negb] in *.
  - apply N.eqb_eq in Est. subst st.
    destruct (sy_nolookup sy); [cbn [snd] in Hs; discriminate|].
    destruct (replicas_delete fs (sy_r sy) k ck) as [rs ok]. cbn [fst snd] in *.
    destruct ok; [|discriminate]. repeat split.
  - exfalso. cbn [snd] in Hs.
    destruct (sy_p sy k) as [|ck0 n0|ck0]; cbn [delete_local] in Ed.
    + injection Ed as _ E. subst st. discriminate.
    + destruct (body_empty (n_body n0)); [injection Ed as _ E; subst st; discriminate|].
      destruct (ck0 =? ck); injection Ed as _ E; subst st; discriminate.
    + injection Ed as _ E. subst st. discriminate.
Qed.

(* an acknowledged delete leaves the file id served by no listed location - unless some
   server holds the Size = 0 record of an empty upload for it *)
Theorem delete_step_partial : forall sy k ck fs,
  trig_empty_slot sy k = false ->
  delete_consistent (snd (delete_step sy k ck fs)) (key_views (fst (delete_step sy k ck fs)) k) = true.
Proof.
  intros sy k ck fs Hemp. unfold delete_consistent.
  destruct (success (snd (delete_step sy k ck fs))) eqn:Hs; [|reflexivity]. cbn [negb orb].
  unfold trig_empty_slot in Hemp. apply orb_false_iff in Hemp. destruct Hemp as [He1 He2].
  destruct (delete_step_ack sy k ck fs Hs) as [Hst [_ [Hok Hfin]]]. rewrite Hfin.
  unfold key_views. cbn [sy_p sy_r forallb]. rewrite upd_same.
  rewrite (delete_local_view (sy_p sy k) ck (or_introl Hst) He1). cbn [andb].
  apply replicas_delete_views; assumption.
Qed.

(* inside the trigger: a server that still serves the file after an acknowledged delete
   serves the empty record *)
Theorem delete_step_residual : forall sy k ck fs,
  success (snd (delete_step sy k ck fs)) = true ->
  forallb gone_or_empty (key_views (fst (delete_step sy k ck fs)) k) = true.
Proof.
  intros sy k ck fs Hs.
  destruct (delete_step_ack sy k ck fs Hs) as [Hst [_ [Hok Hfin]]]. rewrite Hfin.
  unfold key_views. cbn [sy_p sy_r forallb]. rewrite upd_same.
  rewrite (delete_local_residual (sy_p sy k) ck (or_introl Hst)). cbn [andb].
  apply replicas_delete_residual. exact Hok.
Qed.

(* ---------- faults are reported ---------- *)

Lemma replicas_upload_blocked : forall rs fs k ck rn,
  existsb blocks_upload (firstn (List.length rs) fs) = true \/ In None rs ->
  snd (replicas_upload fs rs k ck rn) = false.
Proof.
  induction rs as [|r rs IH]; intros fs k ck rn H.
  - destruct H as [H|H]; [discriminate | destruct H].
  - cbn [replicas_upload].
    destruct (replica_upload (hd 0 fs) r k ck rn) as [r' ok] eqn:Er.
    destruct (replicas_upload (tl fs) rs k ck rn) as [rs' ok'] eqn:Ers. cbn [snd].
    assert (Hcase : (blocks_upload (hd 0 fs) = true \/ r = None) \/
                    (existsb blocks_upload (firstn (List.length rs) (tl fs)) = true \/ In None rs)).
    { destruct H as [H|[H|H]].
      - destruct fs as [|f fs']; [discriminate|]. cbn [List.length firstn existsb hd tl] in *.
        apply orb_true_iff in H. destruct H as [H|H]; auto.
      - left. right. exact H.
      - right. right. exact H. }
    destruct Hcase as [[Hb|Hn]|Hrest].
    + unfold replica_upload in Er. rewrite Hb in Er. injection Er as _ E. subst ok. reflexivity.
    + subst r. unfold replica_upload in Er.
      destruct (blocks_upload (hd 0 fs)); injection Er as _ E; subst ok; reflexivity.
    + specialize (IH (tl fs) k ck rn Hrest). rewrite Ers in IH. cbn [snd] in IH. subst ok'. apply andb_false_r.
Qed.

Lemma replicas_delete_blocked : forall rs fs k ck,
  existsb blocks_delete (firstn (List.length rs) fs) = true ->
  snd (replicas_delete fs rs k ck) = false.
Proof.
  induction rs as [|r rs IH]; intros fs k ck H; [discriminate|].
  cbn [replicas_delete].
  destruct (replica_delete (hd 0 fs) r k ck) as [r' ok] eqn:Er.
  destruct (replicas_delete (tl fs) rs k ck) as [rs' ok'] eqn:Ers. cbn [snd].
  destruct fs as [|f fs']; [discriminate|]. cbn [List.length firstn existsb hd tl] in *.
  apply orb_true_iff in H. destruct H as [H|H].
  - unfold replica_delete in Er. rewrite H in Er. injection Er as _ E. subst ok. reflexivity.
  - specialize (IH fs' k ck H). rewrite Ers in IH. cbn [snd] in IH. subst ok'. apply andb_false_r.
Qed.

(* a replica that fails every attempt of the step (answering 500, dropping the connection,
   or serving the request and losing the answer), a listed volume server that does not
   hold the volume, or a failing location lookup makes the upload fail towards the client *)
Theorem upload_failure_reported : forall sy o q k ck fs,
  existsb blocks_upload (firstn (List.length (sy_r sy)) fs) = true \/ In None (sy_r sy) \/ sy_nolookup sy = true ->
  success (snd (upload_step sy o q k ck fs)) = false.
Proof.
  intros sy o q k ck fs H. unfold upload_step.
  destruct (sy_nolookup sy) eqn:El; [reflexivity|].
  assert (H' : existsb blocks_upload (firstn (List.length (sy_r sy)) fs) = true \/ In None (sy_r sy)).
  { destruct H as [H|[H|H]]; [left; exact H | right; exact H | discriminate]. }
  destruct (write_local (sy_p sy k) ck (create_needle o q)) as [sl res].
  destruct (res =? 2); [reflexivity|].
  pose proof (replicas_upload_blocked (sy_r sy) fs k ck (create_needle o (replicate o (create_needle o q))) H') as Hb.
  destruct (replicas_upload fs (sy_r sy) k ck (create_needle o (replicate o (create_needle o q)))) as [rs ok].
  cbn [snd] in *. subst ok. reflexivity.
Qed.

(* a replica that fails the one attempt of a delete, or a failing lookup, makes the delete fail *)
Theorem delete_failure_reported : forall sy k ck fs,
  existsb blocks_delete (firstn (List.length (sy_r sy)) fs) = true \/ sy_nolookup sy = true ->
  success (snd (delete_step sy k ck fs)) = false.
Proof.
  intros sy k ck fs H.
  destruct (success (snd (delete_step sy k ck fs))) eqn:Hs; [|reflexivity].
  destruct (delete_step_ack sy k ck fs Hs) as [_ [Hl [Hok _]]].
  destruct H as [H|H]; [|congruence].
  rewrite (replicas_delete_blocked (sy_r sy) fs k ck H) in Hok. discriminate.
Qed.

(* ---------- steps on one file id do not touch what is held for another ---------- *)

Lemma replica_upload_frame : forall f r k ck rn k', k' <> k ->
  server_view (fst (replica_upload f r k ck rn)) k' = server_view r k'.
Proof.
  intros f r k ck rn k' Hk.
  assert (Hs : server_view (fst (replica_serve_upload r k ck rn)) k' = server_view r k').
  { destruct r as [s|]; [|reflexivity]. cbn [replica_serve_upload].
    destruct (write_local (s k) ck rn) as [sl res]. cbn [fst server_view]. rewrite upd_other by exact Hk. reflexivity. }
  unfold replica_upload. destruct (blocks_upload f); cbn [fst]; [|exact Hs].
  destruct (applies f); [exact Hs | reflexivity].
Qed.

Lemma replica_delete_frame : forall f r k ck k', k' <> k ->
  server_view (fst (replica_delete f r k ck)) k' = server_view r k'.
Proof.
  intros f r k ck k' Hk.
  assert (Hs : server_view (fst (replica_serve_delete r k ck)) k' = server_view r k').
  { destruct r as [s|]; [|reflexivity]. cbn [replica_serve_delete].
    destruct (delete_local (s k) ck) as [sl st]. cbn [fst server_view]. rewrite upd_other by exact Hk. reflexivity. }
  unfold replica_delete. destruct (blocks_delete f); cbn [fst]; [|exact Hs].
  destruct (applies f); [exact Hs | reflexivity].
Qed.

Lemma replicas_upload_frame : forall rs fs k ck rn k', k' <> k ->
  map (fun r => server_view r k') (fst (replicas_upload fs rs k ck rn)) = map (fun r => server_view r k') rs.
Proof.
  induction rs as [|r rs IH]; intros fs k ck rn k' Hk; [reflexivity|].
  cbn [replicas_upload].
  pose proof (replica_upload_frame (hd 0 fs) r k ck rn k' Hk) as Hf.
  destruct (replica_upload (hd 0 fs) r k ck rn) as [r' ok].
  specialize (IH (tl fs) k ck rn k' Hk).
  destruct (replicas_upload (tl fs) rs k ck rn) as [rs' ok']. cbn [fst map] in *.
  rewrite Hf, IH. reflexivity.
Qed.

Lemma replicas_delete_frame : forall rs fs k ck k', k' <> k ->
  map (fun r => server_view r k') (fst (replicas_delete fs rs k ck)) = map (fun r => server_view r k') rs.
Proof.
  induction rs as [|r rs IH]; intros fs k ck k' Hk; [reflexivity|].
  cbn [replicas_delete].
  pose proof (replica_delete_frame (hd 0 fs) r k ck k' Hk) as Hf.
  destruct (replica_delete (hd 0 fs) r k ck) as [r' ok].
  specialize (IH (tl fs) k ck k' Hk).
  destruct (replicas_delete (tl fs) rs k ck) as [rs' ok']. cbn [fst map] in *.
  rewrite Hf, IH. reflexivity.
Qed.

Theorem step_frame : forall sy s k', k' <> s_key s ->
  key_views (fst (do_step sy s)) k' = key_views sy k'.
Proof.
  intros sy s k' Hk. unfold do_step. destruct (s_op s) as [o q|].
  - unfold upload_step. destruct (sy_nolookup sy); [reflexivity|].
    destruct (write_local (sy_p sy (s_key s)) (s_ck s) (create_needle o q)) as [sl res].
    destruct (res =? 2); [reflexivity|].
    pose proof (replicas_upload_frame (sy_r sy) (s_faults s) (s_key s) (s_ck s)
                  (create_needle o (replicate o (create_needle o q))) k' Hk) as Hf.
    destruct (replicas_upload (s_faults s) (sy_r sy) (s_key s) (s_ck s)
                (create_needle o (replicate o (create_needle o q)))) as [rs ok].
    cbn [fst] in *. unfold key_views. cbn [sy_p sy_r]. rewrite upd_other by exact Hk. rewrite Hf. reflexivity.
  - unfold delete_step.
    destruct (delete_local (sy_p sy (s_key s)) (s_ck s)) as [sl st].
    destruct (negb (st =? 202)); [reflexivity|]. destruct (sy_nolookup sy); [reflexivity|].
    pose proof (replicas_delete_frame (sy_r sy) (s_faults s) (s_key s) (s_ck s) k' Hk) as Hf.
    destruct (replicas_delete (s_faults s) (sy_r sy) (s_key s) (s_ck s)) as [rs ok].
    cbn [fst] in *. unfold key_views. cbn [sy_p sy_r]. rewrite upd_other by exact Hk. rewrite Hf. reflexivity.
Qed.

(* ---------- histories ---------- *)

(* what the property asks of one step: consistent outside the step's own trigger; inside
   it, the rest of the property (everything but the mime type / the decoded content / only
   empty records survive a delete); every blocking fault reported *)
Definition step_ok (sy : sys) (s : step) : Prop :=
  (step_trigger sy s = None ->
   step_consistent s (snd (do_step sy s)) (key_views (fst (do_step sy s)) (s_key s)) = true) /\
  step_residual s (step_trigger sy s) (snd (do_step sy s)) (key_views (fst (do_step sy s)) (s_key s)) = true /\
  (step_blocked s (List.length (sy_r sy)) = true -> success (snd (do_step sy s)) = false).

Fixpoint hist_ok (sy : sys) (h : list step) : Prop :=
  match h with
  | [] => True
  | s :: h' => step_ok sy s /\ hist_ok (fst (do_step sy s)) h'
  end.

Theorem every_step_ok : forall sy s, step_ok sy s.
Proof.
  intros sy s. unfold step_ok, step_trigger, step_consistent, step_residual, step_blocked, do_step.
  destruct (s_op s) as [o q|]; repeat split.
  - intros Ht.
    destruct (trig_empty o q) eqn:E1; [discriminate|].
    destruct (trig_unchanged sy o q (s_key s) (s_ck s)) eqn:E2; [discriminate|].
    destruct (trig_mime o q) eqn:E3; [discriminate|].
    apply upload_step_partial; assumption.
  - destruct (success (snd (upload_step sy o q (s_key s) (s_ck s) (s_faults s)))) eqn:Hs; [|reflexivity].
    cbn [negb orb]. unfold key_views.
    pose proof (upload_step_content sy o q (s_key s) (s_ck s) (s_faults s) Hs) as Hc.
    destruct (trig_empty o q) eqn:E1; [exact Hc|].
    destruct (trig_unchanged sy o q (s_key s) (s_ck s)) eqn:E2; [exact Hc|].
    destruct (trig_mime o q) eqn:E3; [|exact Hc].
    apply upload_step_but_mime; assumption.
  - intros Hb. apply upload_failure_reported. left. exact Hb.
  - intros Ht. destruct (trig_empty_slot sy (s_key s)) eqn:E1; [discriminate|].
    apply delete_step_partial. exact E1.
  - destruct (success (snd (delete_step sy (s_key s) (s_ck s) (s_faults s)))) eqn:Hs; [|reflexivity].
    cbn [negb orb]. exact (delete_step_residual sy (s_key s) (s_ck s) (s_faults s) Hs).
  - intros Hb. apply delete_failure_reported. left. exact Hb.
Qed.

(* every step of every history, from every state *)
Theorem history_partial : forall h sy, hist_ok sy h.
Proof.
  induction h as [|s h IH]; intros sy; [exact I|]. split; [apply every_step_ok | apply IH].
Qed.

(* ---------- the triggers are no wider than the violations ---------- *)

Lemma same_outcome_mime : forall a b, same_outcome a b = true -> so_mime a = so_mime b.
Proof.
  intros a b H. apply same_outcome_eq in H. unfold outcome_of in H.
  injection H as H1 H2 H3 H4 H5 H6 H7 H8 H9 H10. exact H3.
Qed.

Lemma same_outcome_lastmod : forall a b, same_outcome a b = true -> so_lastmod a = so_lastmod b.
Proof.
  intros a b H. apply same_outcome_eq in H. unfold outcome_of in H.
  injection H as H1 H2 H3 H4 H5 H6 H7 H8 H9 H10. exact H5.
Qed.

Lemma keep256_empty_inv : forall s, String.eqb (keep256 s) "" = false -> String.eqb s "" = false.
Proof.
  intros s H. destruct s; [cbv in H; discriminate | reflexivity].
Qed.

(* trigger 0: the primary's and the replica's needle differ in the mime type *)
Lemma trig_mime_differs : forall o q,
  trig_mime o q = true ->
  same_outcome (view_of (create_needle o q)) (view_of (create_needle o (replicate o (create_needle o q)))) = false.
Proof.
  intros o q H.
  set (n := create_needle o q). set (n' := create_needle o (replicate o n)).
  destruct (same_outcome (view_of n) (view_of n')) eqn:Es; [|reflexivity]. exfalso.
  apply same_outcome_mime in Es.
  unfold trig_mime in H. cbv zeta in H. fold n in H.
  apply andb_true_iff in H. destruct H as [Hb H]. apply andb_true_iff in Hb. destruct Hb as [Hb Hcm].
  apply negb_true_iff in Hb. apply negb_true_iff in Hcm.
  pose proof (replica_body_nonempty o q Hb) as Hb'. fold n n' in Hb'.
  unfold view_of in Es. rewrite Hb, Hb' in Es. cbn [so_mime] in Es.
  unfold n', n in Es. rewrite !has_mime_view in Es. fold n in Es.
  (* the replica's mime *)
  assert (Hput : q_put (replicate o n) = false) by reflexivity.
  assert (Hcm' : q_cm (replicate o n) = n_cm n) by reflexivity.
  assert (Hct : q_ctype (replicate o n) = if String.eqb (repl_mtype1 o n) "" then tbe o (ext_filepath (n_name n))
                                          else repl_mtype1 o n) by reflexivity.
  rewrite (n_mime_keep o (replicate o n)) in Es. unfold parsed_mime in Es. rewrite Hput, Hcm', Hcm, Hct in Es.
  apply orb_true_iff in H. destruct H as [Hoct|H].
  - (* the primary keeps application/octet-stream *)
    apply String.eqb_eq in Hoct.
    assert (Hm1 : repl_mtype1 o n = octet).
    { unfold repl_mtype1. rewrite Hoct. rewrite andb_false_r. reflexivity. }
    rewrite Hm1 in Es. rewrite Hoct in Es. cbv in Es. discriminate.
  - apply andb_true_iff in H. destruct H as [Hemp H]. apply String.eqb_eq in Hemp.
    set (t := if String.eqb (repl_mtype1 o n) "" then tbe o (ext_filepath (n_name n)) else repl_mtype1 o n) in *.
    apply andb_true_iff in H. destruct H as [H H3]. apply andb_true_iff in H. destruct H as [H1 H2].
    apply negb_true_iff in H1. apply negb_true_iff in H2. apply negb_true_iff in H3.
    rewrite (keep256_empty_inv _ H1), H2 in Es. rewrite String.eqb_sym in H3. rewrite H3 in Es.
    cbn [negb andb] in Es. rewrite Hemp in Es. rewrite <- Es in H1. cbv in H1. discriminate.
Qed.

(* trigger 1 (uploads): the primary reads back nothing, the replica a last-modified time *)
Lemma trig_empty_differs : forall o q,
  trig_empty o q = true -> n_lastmod (create_needle o q) mod 1099511627776 <> 0 ->
  same_outcome (view_of (create_needle o q)) (view_of (create_needle o (replicate o (create_needle o q)))) = false.
Proof.
  intros o q H Hlm.
  set (n := create_needle o q) in *. set (n' := create_needle o (replicate o n)).
  destruct (same_outcome (view_of n) (view_of n')) eqn:Es; [|reflexivity]. exfalso.
  apply same_outcome_lastmod in Es.
  unfold trig_empty in H. cbv zeta in H. fold n n' in H.
  apply andb_true_iff in H. destruct H as [Hb Hb']. apply negb_true_iff in Hb'.
  unfold view_of in Es. rewrite Hb, Hb' in Es. cbn [blank so_lastmod] in Es.
  pose proof (replica_lastmod o q) as Hl. fold n n' in Hl. rewrite Hl in Es. congruence.
Qed.

(* on a file id the primary and the first listed replica do not hold yet, an acknowledged
   upload whose two needles differ is inconsistent *)
Lemma upload_fresh_differs : forall o q k ck p s rs fs,
  p k = Absent -> s k = Absent ->
  same_outcome (view_of (create_needle o q)) (view_of (create_needle o (replicate o (create_needle o q)))) = false ->
  let r := upload_step {| sy_p := p; sy_r := Some s :: rs; sy_nolookup := false |} o q k ck fs in
  success (snd r) = true -> upload_consistent (snd r) (key_views (fst r) k) = false.
Proof.
  intros o q k ck p s rs fs Hp Hsk Hd r Hs. unfold upload_consistent. rewrite Hs. cbn [negb orb].
  unfold r, upload_step in *. cbn [sy_nolookup sy_p sy_r] in *. rewrite Hp in *. cbn [write_local N.eqb] in *.
  cbn [replicas_upload] in *.
  destruct (replica_upload (hd 0 fs) (Some s) k ck (create_needle o (replicate o (create_needle o q)))) as [r' ok] eqn:Er.
  destruct (replicas_upload (tl fs) rs k ck (create_needle o (replicate o (create_needle o q)))) as [rs' ok'].
  cbn [fst snd] in *.
  destruct ok; [|cbn [andb] in Hs; discriminate].
  unfold replica_upload in Er. destruct (blocks_upload (hd 0 fs)); [injection Er as _ E; discriminate|].
  cbn [replica_serve_upload] in Er. rewrite Hsk in Er. cbn [write_local] in Er.
  assert (Er' : r' = Some (upd s k (Live ck (create_needle o (replicate o (create_needle o q)))))) by congruence.
  subst r'. clear Er.
  unfold key_views. cbn [sy_p sy_r map forallb server_view]. rewrite !upd_same. cbn [slot_view].
  rewrite Hd. reflexivity.
Qed.

Theorem trig_mime_exact : forall o q k ck p s rs fs,
  p k = Absent -> s k = Absent -> trig_mime o q = true ->
  let r := upload_step {| sy_p := p; sy_r := Some s :: rs; sy_nolookup := false |} o q k ck fs in
  success (snd r) = true -> upload_consistent (snd r) (key_views (fst r) k) = false.
Proof.
  intros o q k ck p s rs fs Hp Hs Ht. apply upload_fresh_differs; [assumption | assumption |].
  apply trig_mime_differs. exact Ht.
Qed.

Theorem trig_empty_exact : forall o q k ck p s rs fs,
  p k = Absent -> s k = Absent -> trig_empty o q = true ->
  n_lastmod (create_needle o q) mod 1099511627776 <> 0 ->
  let r := upload_step {| sy_p := p; sy_r := Some s :: rs; sy_nolookup := false |} o q k ck fs in
  success (snd r) = true -> upload_consistent (snd r) (key_views (fst r) k) = false.
Proof.
  intros o q k ck p s rs fs Hp Hs Ht Hlm. apply upload_fresh_differs; [assumption | assumption |].
  apply trig_empty_differs; assumption.
Qed.

(* trigger 1 (deletes): the server that holds the empty record keeps serving it *)
Lemma replica_delete_empty_stays : forall f r k ck,
  server_slot_empty r k = true -> is_deleted (server_view (fst (replica_delete f r k ck)) k) = false.
Proof.
  intros f r k ck H. destruct r as [s|]; [|discriminate]. cbn [server_slot_empty] in H.
  destruct (s k) as [|ck0 n0|ck0] eqn:Esk; cbn [slot_empty] in H; try discriminate.
  assert (Hv : is_deleted (slot_view (s k)) = false).
  { rewrite Esk. cbn [slot_view]. unfold view_of. rewrite H. reflexivity. }
  assert (Hserve : fst (replica_serve_delete (Some s) k ck) = Some (upd s k (s k))).
  { cbn [replica_serve_delete]. rewrite Esk. cbn [delete_local]. rewrite H. reflexivity. }
  unfold replica_delete. destruct (blocks_delete f); cbn [fst].
  - destruct (applies f); [rewrite Hserve; cbn [server_view]; rewrite upd_same; exact Hv | exact Hv].
  - rewrite Hserve. cbn [server_view]. rewrite upd_same. exact Hv.
Qed.

Lemma replicas_delete_empty_stays : forall rs fs k ck,
  existsb (fun r => server_slot_empty r k) rs = true ->
  forallb is_deleted (map (fun r => server_view r k) (fst (replicas_delete fs rs k ck))) = false.
Proof.
  induction rs as [|r rs IH]; intros fs k ck H; [discriminate|].
  cbn [existsb] in H. cbn [replicas_delete].
  pose proof (replica_delete_empty_stays (hd 0 fs) r k ck) as Hr.
  destruct (replica_delete (hd 0 fs) r k ck) as [r' ok].
  specialize (IH (tl fs) k ck).
  destruct (replicas_delete (tl fs) rs k ck) as [rs' ok']. cbn [fst map forallb] in *.
  apply orb_true_iff in H. destruct H as [H|H].
  - rewrite (Hr H). reflexivity.
  - rewrite (IH H). apply andb_false_r.
Qed.

Theorem trig_empty_slot_exact : forall sy k ck fs,
  trig_empty_slot sy k = true -> success (snd (delete_step sy k ck fs)) = true ->
  delete_consistent (snd (delete_step sy k ck fs)) (key_views (fst (delete_step sy k ck fs)) k) = false.
Proof.
  intros sy k ck fs Ht Hs. unfold delete_consistent. rewrite Hs. cbn [negb orb].
  destruct (delete_step_ack sy k ck fs Hs) as [Hst [_ [Hok Hfin]]]. rewrite Hfin.
  unfold key_views. cbn [sy_p sy_r forallb]. rewrite upd_same.
  unfold trig_empty_slot in Ht. apply orb_true_iff in Ht. destruct Ht as [Ht|Ht].
  - destruct (sy_p sy k) as [|ck0 n0|ck0]; cbn [slot_empty] in Ht; try discriminate.
    cbn [delete_local]. rewrite Ht. cbn [fst slot_view]. unfold view_of. rewrite Ht. reflexivity.
  - rewrite (replicas_delete_empty_stays (sy_r sy) fs k ck Ht). apply andb_false_r.
Qed.

(* trigger 2: what a server serves after a write it did not refuse *)
Definition kept_view (s : slot) (ck : N) (n : needle) : view :=
  if is_unchanged s ck n then slot_view s else view_of n.

Lemma write_local_kept : forall s ck n, snd (write_local s ck n) <> 2 ->
  slot_view (fst (write_local s ck n)) = kept_view s ck n.
Proof.
  intros s ck n H. unfold kept_view. destruct (is_unchanged s ck n) eqn:E.
  - rewrite (write_local_unchanged _ _ _ E). reflexivity.
  - rewrite (write_local_changed _ _ _ E H). reflexivity.
Qed.

Definition server_kept_view (r : option store) (k ck : N) (n : needle) : view :=
  match r with Some s => kept_view (s k) ck n | None => blank 3 false end.

Lemma replicas_upload_kept : forall rs fs k ck rn,
  snd (replicas_upload fs rs k ck rn) = true ->
  map (fun r => server_view r k) (fst (replicas_upload fs rs k ck rn)) = map (fun r => server_kept_view r k ck rn) rs
  /\ ~ In None rs.
Proof.
  induction rs as [|r rs IH]; intros fs k ck rn Hok; [split; [reflexivity | intros []]|].
  cbn [replicas_upload] in *.
  destruct (replica_upload (hd 0 fs) r k ck rn) as [r' ok] eqn:Er.
  specialize (IH (tl fs) k ck rn).
  destruct (replicas_upload (tl fs) rs k ck rn) as [rs' ok'] eqn:Ers.
  cbn [fst snd] in *. apply andb_true_iff in Hok. destruct Hok as [Hok Hok']. subst ok ok'.
  destruct (IH eq_refl) as [IH1 IH2].
  unfold replica_upload in Er. destruct (blocks_upload (hd 0 fs)); [injection Er as _ E; discriminate|].
  destruct r as [s|]; [|cbn in Er; injection Er as _ E; discriminate].
  cbn [replica_serve_upload] in Er.
  pose proof (write_local_kept (s k) ck rn) as Hk.
  destruct (write_local (s k) ck rn) as [sl res]. injection Er as E1 E2. subst r'.
  split.
  - cbn [map server_view server_kept_view]. rewrite upd_same. cbn [fst snd] in Hk. rewrite Hk, IH1; [reflexivity|].
    intros E. subst res. discriminate.
  - intros [H|H]; [discriminate | exact (IH2 H)].
Qed.

Lemma forallb_false_exists : forall (A : Type) (f : A -> bool) l,
  forallb f l = false -> exists x, In x l /\ f x = false.
Proof.
  intros A f. induction l as [|x l IH]; intros H; [discriminate|].
  cbn [forallb] in H. destruct (f x) eqn:E.
  - destruct (IH H) as [y [Hy Hf]]. exists y. split; [right; exact Hy | exact Hf].
  - exists x. split; [left; reflexivity | exact E].
Qed.

(* outside triggers 0 and 1, an acknowledged upload inside trigger 2 is inconsistent *)
Theorem trig_unchanged_exact : forall sy o q k ck fs,
  trig_unchanged sy o q k ck = true -> trig_empty o q = false -> trig_mime o q = false ->
  success (snd (upload_step sy o q k ck fs)) = true ->
  upload_consistent (snd (upload_step sy o q k ck fs)) (key_views (fst (upload_step sy o q k ck fs)) k) = false.
Proof.
  intros sy o q k ck fs Ht Hemp Hmime Hs. unfold upload_consistent. rewrite Hs. cbn [negb orb].
  pose proof (same_outcome_views o q Hemp Hmime) as Hnr.
  unfold trig_unchanged in Ht. cbv zeta in Ht.
  set (n := create_needle o q) in *. set (rn := create_needle o (replicate o n)) in *.
  apply andb_true_iff in Ht. destruct Ht as [Hdrops Halike]. apply negb_true_iff in Halike.
  unfold upload_step in *. fold n rn in Hs |- *.
  destruct (sy_nolookup sy); [cbn [snd] in Hs; discriminate|].
  pose proof (write_local_kept (sy_p sy k) ck n) as Hp.
  destruct (write_local (sy_p sy k) ck n) as [sl res] eqn:Ew. cbn [fst snd] in Hp.
  destruct (res =? 2) eqn:Eres; [cbn [snd] in Hs; discriminate|].
  assert (Hp' : slot_view sl = kept_view (sy_p sy k) ck n).
  { apply Hp. intros E. subst res. discriminate. }
  pose proof (replicas_upload_kept (sy_r sy) fs k ck rn) as Hr.
  destruct (replicas_upload fs (sy_r sy) k ck rn) as [rs ok] eqn:Ers. cbn [fst snd] in *.
  destruct ok; [|discriminate]. destruct (Hr eq_refl) as [Hviews Hnone].
  unfold key_views. cbn [sy_p sy_r]. rewrite upd_same, Hviews, Hp'.
  set (pv := kept_view (sy_p sy k) ck n).
  destruct (forallb (same_outcome pv) (map (fun r => server_kept_view r k ck rn) (sy_r sy))) eqn:Eall; [|reflexivity].
  exfalso.
  (* every replica ends with the primary's outcome *)
  assert (Hall : forall r, In r (sy_r sy) -> same_outcome pv (server_kept_view r k ck rn) = true).
  { intros r Hin. rewrite forallb_forall in Eall. apply Eall. apply in_map_iff. exists r. auto. }
  (* the primary's outcome is the one of the needle it was sent *)
  assert (Hpn : same_outcome pv (view_of n) = true).
  { unfold pv, kept_view. destruct (is_unchanged (sy_p sy k) ck n) eqn:Eu; [|apply same_outcome_refl].
    unfold all_unchanged_alike in Halike. rewrite Eu in Halike. cbn [andb] in Halike.
    destruct (forallb_false_exists _ _ _ Halike) as [r [Hin Hf]].
    specialize (Hall r Hin). destruct r as [s|]; [|exfalso; exact (Hnone Hin)].
    cbn [server_unchanged_alike server_kept_view] in *. unfold kept_view in Hall.
    unfold pv, kept_view in Hall. rewrite Eu in Hall.
    destruct (is_unchanged (s k) ck rn).
    - cbn [andb] in Hf. congruence.
    - apply same_outcome_trans with (view_of rn); [exact Hall | apply same_outcome_sym; exact Hnr]. }
  (* so no server keeps another outcome *)
  apply orb_true_iff in Hdrops. destruct Hdrops as [Hd|Hd].
  - unfold unchanged_drops in Hd. apply andb_true_iff in Hd. destruct Hd as [Hu Hd].
    unfold pv, kept_view in Hpn. rewrite Hu in Hpn. rewrite Hpn in Hd. discriminate.
  - apply existsb_exists in Hd. destruct Hd as [r [Hin Hd]].
    specialize (Hall r Hin). destruct r as [s|]; [|discriminate].
    cbn [server_unchanged_drops server_kept_view] in *. unfold unchanged_drops in Hd.
    apply andb_true_iff in Hd. destruct Hd as [Hu Hd]. unfold kept_view in Hall. rewrite Hu in Hall.
    assert (Hx : same_outcome (slot_view (s k)) (view_of rn) = true).
    { apply same_outcome_trans with pv; [apply same_outcome_sym; exact Hall|].
      apply same_outcome_trans with (view_of n); assumption. }
    rewrite Hx in Hd. discriminate.
Qed.

(* ---------- the full statement fails: witnesses ---------- *)

Definition mk_req (put : bool) (name ctype : string) (blen bcrc : N) : request :=
  {| q_put := put; q_name := name; q_ctype := ctype; q_gzip := false; q_pairs := [];
     q_ts := 12345; q_ttl_set := false; q_ttl := (0, 0); q_cm := false;
     q_body := {| b_len := blen; b_crc := bcrc; b_gz := false |} |}.
Definition mk_or (detect : string) (exts : list (string * string)) : oracles :=
  {| o_detect := detect; o_gz128 := false; o_ext_types := exts |}.
Definition mk_step (o : op) (fs : list N) : step := {| s_key := 7; s_ck := 9; s_op := o; s_faults := fs |}.

Definition txt_types : list (string * string) := [(".txt", "text/plain; charset=utf-8")].
Definition text_utf8 : string := "text/plain; charset=utf-8".
Definition one_replica : sys := init 1 false false.

(* no mime on the primary, a text payload: the replica stores the sniffed type *)
Definition witness_sniffed : list step :=
  [mk_step (Up (mk_or text_utf8 [(".bin", octet)]) (mk_req false "b.bin" "" 24 1485685935)) [0]].
(* PUT with application/octet-stream: kept by the primary, dropped by the replica *)
Definition witness_put_octet : list step :=
  [mk_step (Up (mk_or octet []) (mk_req true "" octet 10 1164760902)) [0]].
(* empty payload, then a delete *)
Definition witness_empty : list step :=
  [mk_step (Up (mk_or text_utf8 txt_types) (mk_req false "a.txt" "text/plain" 0 0)) [0]; mk_step Del [0]].
(* the same bytes again under another mime type: the primary answers "unchanged" and keeps
   the old one, the replica - whose stored bytes were the gzip stream - stores the new one *)
Definition witness_unchanged : list step :=
  [mk_step (Up (mk_or text_utf8 txt_types) (mk_req false "a.txt" "text/plain" 24 1485685935)) [0];
   mk_step (Up (mk_or text_utf8 txt_types) (mk_req false "a.txt" "image/jpeg" 24 1485685935)) [0]].
(* a failed upload, then the same bytes under another name: the primary keeps the first
   name, the replica stores the second *)
Definition witness_unchanged_fault : list step :=
  [mk_step (Up (mk_or text_utf8 txt_types) (mk_req false "a.txt" "text/x-log" 24 1485685935)) [1];
   mk_step (Up (mk_or text_utf8 txt_types) (mk_req false "b.txt" "text/x-log" 24 1485685935)) [0]].
(* a failed upload and the identical retry *)
Definition witness_retry : list step :=
  [mk_step (Up (mk_or text_utf8 txt_types) (mk_req false "a.txt" "text/x-log" 24 1485685935)) [1];
   mk_step (Up (mk_or text_utf8 txt_types) (mk_req false "a.txt" "text/x-log" 24 1485685935)) [0]].
(* a listed location without the volume *)
Definition witness_lost_volume : list step :=
  [mk_step (Up (mk_or text_utf8 txt_types) (mk_req false "a.txt" "text/plain" 24 1485685935)) [0]].

(* statuses, and what the servers serve for the witness file id after every step *)
Definition statuses (sy : sys) (h : list step) : list N := map snd (run sy h).
Definition views_of_run (sy : sys) (h : list step) : list (list view) := map (fun r => key_views (fst r) 7) (run sy h).
Fixpoint triggers_of_run (sy : sys) (h : list step) : list (option N) :=
  match h with [] => [] | s :: h' => step_trigger sy s :: triggers_of_run (fst (do_step sy s)) h' end.
Definition consistent_of_run (sy : sys) (h : list step) : list bool :=
  map (fun x => step_consistent (fst x) (snd (snd x)) (key_views (fst (snd x)) 7)) (combine h (run sy h)).

Theorem same_outcome_refuted_mime :
  statuses one_replica witness_sniffed = [201] /\
  consistent_of_run one_replica witness_sniffed = [false] /\
  triggers_of_run one_replica witness_sniffed = [Some 0] /\
  map (map so_mime) (views_of_run one_replica witness_sniffed) = [[""; text_utf8]] /\
  statuses one_replica witness_put_octet = [201] /\
  triggers_of_run one_replica witness_put_octet = [Some 0] /\
  map (map so_mime) (views_of_run one_replica witness_put_octet) = [[octet; ""]].
Proof. vm_compute. repeat split. Qed.

Theorem same_outcome_refuted_empty :
  statuses one_replica witness_empty = [201; 202] /\
  consistent_of_run one_replica witness_empty = [false; false] /\
  triggers_of_run one_replica witness_empty = [Some 1; Some 1] /\
  map (map so_name) (views_of_run one_replica witness_empty) = [[""; "a.txt"]; [""; ""]] /\
  map (map so_state) (views_of_run one_replica witness_empty) = [[0; 0]; [0; 2]].
Proof. vm_compute. repeat split. Qed.

Theorem same_outcome_refuted_unchanged :
  statuses one_replica witness_unchanged = [201; 204] /\
  consistent_of_run one_replica witness_unchanged = [true; false] /\
  triggers_of_run one_replica witness_unchanged = [None; Some 2] /\
  map (map so_mime) (views_of_run one_replica witness_unchanged) = [["text/plain"; "text/plain"]; ["text/plain"; "image/jpeg"]] /\
  statuses one_replica witness_unchanged_fault = [500; 204] /\
  consistent_of_run one_replica witness_unchanged_fault = [true; false] /\
  triggers_of_run one_replica witness_unchanged_fault = [None; Some 2] /\
  map (map so_name) (views_of_run one_replica witness_unchanged_fault) = [["a.txt"; ""]; ["a.txt"; "b.txt"]].
Proof. vm_compute. repeat split. Qed.

(* the identical retry of an upload that failed on the replica is sent to the replica
   although the primary finds its own copy unchanged *)
Theorem retry_reaches_replica :
  statuses one_replica witness_retry = [500; 204] /\
  triggers_of_run one_replica witness_retry = [None; None] /\
  map (map so_state) (views_of_run one_replica witness_retry) = [[0; 1]; [0; 0]] /\
  consistent_of_run one_replica witness_retry = [true; true].
Proof. vm_compute. repeat split. Qed.

(* regression witness of the repaired defect: the location without the volume holds
   nothing, and the upload is no longer acknowledged *)
Theorem lost_volume_reported :
  statuses (init 1 true false) witness_lost_volume = [500] /\
  map (map so_state) (views_of_run (init 1 true false) witness_lost_volume) = [[0; 3]] /\
  consistent_of_run (init 1 true false) witness_lost_volume = [true].
Proof. vm_compute. repeat split. Qed.

Theorem same_outcome_refuted : exists h,
  exists2 r, nth_error (run one_replica h) 0 = Some r &
  success (snd r) = true /\ upload_consistent (snd r) (key_views (fst r) 7) = false.
Proof.
  exists witness_sniffed. eexists; [reflexivity|]. vm_compute. split; reflexivity.
Qed.

(* non-vacuity of the partial theorems: a three-step history on two replicas, outside
   every trigger at every step *)
Definition example_up : op :=
  Up {| o_detect := "text/plain; charset=utf-8"; o_gz128 := true;
        o_ext_types := [(".txt", "text/plain; charset=utf-8")] |}
     {| q_put := false; q_name := "dir/report.txt"; q_ctype := "text/x-log"; q_gzip := false;
        q_pairs := [("A", "1"); ("Bb", "v v")]; q_ts := 0; q_ttl_set := true; q_ttl := (3, 1);
        q_cm := false; q_body := {| b_len := 19800; b_crc := 3515653520; b_gz := false |} |}.
Definition example_hist : list step :=
  [{| s_key := 7; s_ck := 9; s_op := example_up; s_faults := [0; 1] |};
   {| s_key := 7; s_ck := 9; s_op := example_up; s_faults := [4; 0] |};
   {| s_key := 7; s_ck := 9; s_op := Del; s_faults := [0; 0] |}].

Lemma example_history :
  triggers_of_run (init 2 false false) example_hist = [None; None; None] /\
  statuses (init 2 false false) example_hist = [500; 204; 202] /\
  map (map so_flags) (views_of_run (init 2 false false) example_hist) = [[62; 63; 0]; [62; 63; 63]; [0; 0; 0]] /\
  map (map so_state) (views_of_run (init 2 false false) example_hist) = [[0; 0; 1]; [0; 0; 0]; [2; 2; 2]] /\
  map (map so_name) (views_of_run (init 2 false false) example_hist) =
    [["report.txt"; "report.txt"; ""]; ["report.txt"; "report.txt"; "report.txt"]; [""; ""; ""]] /\
  consistent_of_run (init 2 false false) example_hist = [true; true; true].
Proof. vm_compute. repeat split. Qed.

(* non-vacuity of the exactness theorems' hypotheses *)
Lemma example_exact :
  trig_mime (mk_or text_utf8 [(".bin", octet)]) (mk_req false "b.bin" "" 24 1485685935) = true /\
  trig_empty (mk_or text_utf8 txt_types) (mk_req false "a.txt" "text/plain" 0 0) = true /\
  n_lastmod (create_needle (mk_or text_utf8 txt_types) (mk_req false "a.txt" "text/plain" 0 0)) mod 1099511627776 <> 0 /\
  (* an empty payload under a type that is not compressed reaches the replica empty: no trigger *)
  trig_empty (mk_or text_utf8 [(".jpg", "image/jpeg")]) (mk_req false "c.jpg" "image/png" 0 0) = false.
Proof. vm_compute. repeat split. discriminate. Qed.
