(* Proofs about model/LogBuf.v (C22). *)
From Coq Require Import List ZArith NArith Bool Lia.
From SW Require Import model.LogBuf.
Import ListNotations.
Local Open Scope Z_scope.

(* ---------- strictly increasing timestamp lists ---------- *)
Fixpoint incr (lo : Z) (l : list entry) : Prop :=
  match l with
  | [] => True
  | e :: l' => lo < e_ts e /\ incr (e_ts e) l'
  end.

Lemma last_ts_cons : forall e l d, last_ts (e :: l) d = last_ts l (e_ts e).
Proof.
  intros e l d. unfold last_ts. revert e. induction l as [|x l IH]; intros e; [reflexivity|].
  change (last (e :: x :: l) {| e_ts := d; e_len := 0; e_id := 0%N |}) with
         (last (x :: l) {| e_ts := d; e_len := 0; e_id := 0%N |}).
  rewrite IH. symmetry.
  change (last (x :: l) {| e_ts := e_ts e; e_len := 0; e_id := 0%N |}) with
         (last (x :: l) {| e_ts := e_ts e; e_len := 0; e_id := 0%N |}).
  destruct l as [|y l]; [reflexivity|].
  change (last (x :: y :: l) {| e_ts := e_ts e; e_len := 0; e_id := 0%N |}) with
         (last (y :: l) {| e_ts := e_ts e; e_len := 0; e_id := 0%N |}).
  clear IH. revert y. induction l as [|z l IH2]; intros y; [reflexivity|].
  change (last (y :: z :: l) {| e_ts := e_ts e; e_len := 0; e_id := 0%N |}) with
         (last (z :: l) {| e_ts := e_ts e; e_len := 0; e_id := 0%N |}).
  change (last (y :: z :: l) {| e_ts := e_ts x; e_len := 0; e_id := 0%N |}) with
         (last (z :: l) {| e_ts := e_ts x; e_len := 0; e_id := 0%N |}).
  apply IH2.
Qed.

Lemma last_ts_nil : forall d, last_ts [] d = d.
Proof. reflexivity. Qed.

Lemma last_ts_app : forall a b d, last_ts (a ++ b) d = last_ts b (last_ts a d).
Proof.
  induction a as [|e a IH]; intros b d; [reflexivity|].
  rewrite <- app_comm_cons, !last_ts_cons. apply IH.
Qed.

Lemma incr_weaken : forall l lo lo', lo' <= lo -> incr lo l -> incr lo' l.
Proof. destruct l as [|e l]; simpl; intros; [auto|]. destruct H0. split; [lia|auto]. Qed.

Lemma incr_app : forall a b lo, incr lo (a ++ b) <-> incr lo a /\ incr (last_ts a lo) b.
Proof.
  induction a as [|e a IH]; intros b lo.
  - simpl. rewrite last_ts_nil. tauto.
  - rewrite <- app_comm_cons. simpl incr. rewrite last_ts_cons, IH. tauto.
Qed.

Lemma incr_lb : forall l lo e, incr lo l -> In e l -> lo < e_ts e.
Proof.
  induction l as [|x l IH]; intros lo e H Hin; [contradiction|].
  destruct H as [H1 H2]. destruct Hin as [->|Hin]; [auto|].
  specialize (IH _ _ H2 Hin). lia.
Qed.

Lemma incr_last_ge : forall l lo, incr lo l -> lo <= last_ts l lo.
Proof.
  induction l as [|x l IH]; intros lo H; [rewrite last_ts_nil; lia|].
  destruct H as [H1 H2]. rewrite last_ts_cons. specialize (IH _ H2). lia.
Qed.

Lemma incr_le_last : forall l lo e, incr lo l -> In e l -> e_ts e <= last_ts l lo.
Proof.
  induction l as [|x l IH]; intros lo e H Hin; [contradiction|].
  destruct H as [H1 H2]. rewrite last_ts_cons. destruct Hin as [->|Hin].
  - apply incr_last_ge; auto.
  - apply IH; auto.
Qed.

(* in a strictly increasing list everything in the front part is below everything behind *)
Lemma incr_app_lt : forall a b lo x y, incr lo (a ++ b) -> In x a -> In y b -> e_ts x < e_ts y.
Proof.
  intros a b lo x y H Hx Hy. apply incr_app in H. destruct H as [Ha Hb].
  pose proof (incr_le_last _ _ _ Ha Hx). pose proof (incr_lb _ _ _ Hb Hy). lia.
Qed.

Lemma last_ts_in : forall l d, l <> [] -> exists e, In e l /\ e_ts e = last_ts l d.
Proof.
  induction l as [|x l IH]; intros d Hne; [congruence|].
  rewrite last_ts_cons. destruct l as [|y l].
  - exists x. split; [left; auto|reflexivity].
  - destruct (IH (e_ts x)) as [e [Hin He]]; [congruence|]. exists e. split; [right; auto|auto].
Qed.

(* ---------- C22 (a): assigned timestamps strictly increase, on every schedule ---------- *)
Definition new_entry (s : st) (ev len : Z) (id : N) : entry :=
  {| e_ts := adjust_ts (lastTs s) ev; e_len := len; e_id := id |}.

Definition op_events (s : st) (o : op) : list entry :=
  match o with Add ev len id => [new_entry s ev len id] | _ => [] end.

(* the events appended along a schedule, with the timestamps AddToBuffer assigned *)
Fixpoint run_events (iv : Z) (hf : bool) (y : sys) (ops : list op) : list entry :=
  match ops with
  | [] => []
  | o :: ops' => op_events (buf y) o ++ run_events iv hf (step iv hf y o) ops'
  end.

Lemma adjust_gt : forall last ev, last < adjust_ts last ev.
Proof. intros. unfold adjust_ts. destruct (ev <=? last) eqn:E; lia. Qed.

Lemma seal_lastTs : forall hf s, lastTs (seal hf s) = lastTs s.
Proof. intros. unfold seal. destruct (pos s =? 0); reflexivity. Qed.

Lemma add_pre_lastTs : forall iv hf s ev len, lastTs (add_pre iv hf s ev len) = lastTs s.
Proof.
  intros. unfold add_pre.
  set (sa := if pos s =? 0 then set_start s (adjust_ts (lastTs s) ev) else s).
  assert (Hsa : lastTs sa = lastTs s) by (unfold sa; destruct (pos s =? 0); reflexivity).
  destruct (rotates iv sa _ _); [|exact Hsa].
  match goal with |- lastTs (if ?c then _ else _) = _ => destruct c end;
    cbn [realloc set_start lastTs]; rewrite seal_lastTs; exact Hsa.
Qed.

Lemma step_lastTs : forall iv hf y o,
  lastTs (buf (step iv hf y o)) =
  match o with Add ev _ _ => adjust_ts (lastTs (buf y)) ev | _ => lastTs (buf y) end.
Proof.
  intros iv hf y o. destruct o; cbn [step buf]; try reflexivity.
  - apply seal_lastTs.
  - unfold flush_write. destruct (inflight (buf y)); [reflexivity|]. destruct (queue (buf y)); reflexivity.
  - unfold flush_mark. destruct (inflight (buf y)); reflexivity.
Qed.

Lemma run_events_incr : forall iv hf ops y, incr (lastTs (buf y)) (run_events iv hf y ops).
Proof.
  intros iv hf ops. induction ops as [|o ops IH]; intros y; [exact I|].
  cbn [run_events]. specialize (IH (step iv hf y o)). rewrite step_lastTs in IH.
  destruct o; cbn [op_events app]; try exact IH.
  split; [apply adjust_gt | exact IH].
Qed.

Theorem ts_strict : forall iv hf c t0 ops,
  incr 0 (run_events iv hf {| buf := init c; subs := sub_init t0 |} ops).
Proof. intros. apply (run_events_incr iv hf ops {| buf := init c; subs := sub_init t0 |}). Qed.

(* ---------- bytes, cells, decoding ---------- *)
Lemma rec_len_ge4 : forall e, 4 <= rec_len e.
Proof. intros. unfold rec_len. lia. Qed.
Lemma rec_len_gt4 : forall e, 0 < e_len e -> 4 < rec_len e.
Proof. intros. unfold rec_len. lia. Qed.

Lemma recs_len_nonneg : forall l, 0 <= recs_len l.
Proof. induction l as [|e l IH]; simpl; [lia|]. pose proof (rec_len_ge4 e). lia. Qed.

Lemma recs_len_app : forall a b, recs_len (a ++ b) = recs_len a + recs_len b.
Proof. induction a as [|e a IH]; intros b; simpl; [lia|]. rewrite IH. lia. Qed.

Lemma recs_len_zero : forall l, recs_len l = 0 -> l = [].
Proof.
  destruct l as [|e l]; intros H; [reflexivity|]. simpl in H.
  pose proof (rec_len_ge4 e). pose proof (recs_len_nonneg l). lia.
Qed.

Lemma cells_len_recs : forall l, cells_len (map Rec l) = recs_len l.
Proof. induction l as [|e l IH]; simpl; [reflexivity|]. rewrite IH. reflexivity. Qed.

Lemma take_bytes_zero : forall l, take_bytes 0 l = [].
Proof. destruct l; reflexivity. Qed.
Lemma drop_bytes_zero : forall l, drop_bytes 0 l = l.
Proof. destruct l; reflexivity. Qed.

Lemma take_bytes_recs : forall l rest, take_bytes (recs_len l) (map Rec l ++ rest) = map Rec l.
Proof.
  induction l as [|e l IH]; intros rest.
  - simpl. apply take_bytes_zero.
  - cbn [map app recs_len fold_right take_bytes cell_len].
    fold (recs_len l).
    pose proof (rec_len_ge4 e). pose proof (recs_len_nonneg l).
    destruct (rec_len e + recs_len l <=? 0) eqn:E1; [lia|].
    destruct (rec_len e <=? rec_len e + recs_len l) eqn:E2; [|lia].
    replace (rec_len e + recs_len l - rec_len e) with (recs_len l) by lia.
    rewrite IH. reflexivity.
Qed.

Lemma drop_bytes_recs : forall pre suf,
  drop_bytes (recs_len pre) (map Rec (pre ++ suf)) = map Rec suf.
Proof.
  induction pre as [|e pre IH]; intros suf.
  - simpl. apply drop_bytes_zero.
  - cbn [map app recs_len fold_right drop_bytes cell_len].
    fold (recs_len pre).
    pose proof (rec_len_ge4 e). pose proof (recs_len_nonneg pre).
    destruct (rec_len e + recs_len pre <=? 0) eqn:E1; [lia|].
    destruct (rec_len e <=? rec_len e + recs_len pre) eqn:E2; [|lia].
    replace (rec_len e + recs_len pre - rec_len e) with (recs_len pre) by lia.
    apply IH.
Qed.

Lemma decode_recs : forall l, (forall e, In e l -> 0 < e_len e) -> decode (map Rec l) = (l, DOk).
Proof.
  induction l as [|e l IH]; intros H; [reflexivity|].
  cbn [map decode]. 
  assert (Hl : 4 < cells_len (Rec e :: map Rec l)).
  { cbn [cells_len fold_right cell_len]. fold (cells_len (map Rec l)). rewrite cells_len_recs.
    pose proof (rec_len_gt4 e (H e (or_introl eq_refl))). pose proof (recs_len_nonneg l). lia. }
  destruct (cells_len (Rec e :: map Rec l) <=? 4) eqn:E; [lia|].
  rewrite IH; [reflexivity|]. intros x Hx. apply H. right. exact Hx.
Qed.

Lemma locate_recs : forall pre x suf rest t p,
  (forall e, In e pre -> e_ts e <= t) -> t < e_ts x ->
  locate (map Rec (pre ++ x :: suf) ++ rest) t p = Some (p + recs_len pre).
Proof.
  induction pre as [|e pre IH]; intros x suf rest t p Hpre Hx.
  - cbn [app map locate recs_len fold_right]. destruct (t <? e_ts x) eqn:E; [f_equal; lia|lia].
  - cbn [app map locate recs_len fold_right]. fold (recs_len pre).
    assert (e_ts e <= t) by (apply Hpre; left; reflexivity).
    destruct (t <? e_ts e) eqn:E; [lia|].
    rewrite IH; [f_equal; lia| |exact Hx]. intros y Hy. apply Hpre. right. exact Hy.
Qed.

(* a strictly increasing list splits at any t *)
Lemma incr_split : forall l lo t, incr lo l ->
  exists pre suf, l = pre ++ suf /\ (forall e, In e pre -> e_ts e <= t) /\ (forall e, In e suf -> t < e_ts e)
                  /\ suf = filter (fun e => t <? e_ts e) l.
Proof.
  induction l as [|x l IH]; intros lo t H.
  - exists [], []. repeat split; intros; contradiction.
  - destruct H as [H1 H2]. cbn [filter]. destruct (t <? e_ts x) eqn:E.
    + exists [], (x :: l). split; [reflexivity|]. split; [intros; contradiction|].
      assert (Hall : forall e, In e (x :: l) -> t < e_ts e).
      { intros e [->|Hin]; [lia|]. pose proof (incr_lb _ _ _ H2 Hin). lia. }
      split; [exact Hall|].
      f_equal. clear - Hall. assert (Hl : forall e, In e l -> t < e_ts e) by (intros; apply Hall; right; auto).
      clear Hall. induction l as [|y l IHl]; [reflexivity|]. cbn [filter].
      assert (t < e_ts y) by (apply Hl; left; reflexivity).
      destruct (t <? e_ts y) eqn:E; [|lia]. f_equal. apply IHl. intros; apply Hl; right; auto.
    + destruct (IH _ t H2) as [pre [suf [Heq [Hp [Hs Hf]]]]].
      exists (x :: pre), suf. split; [rewrite Heq; reflexivity|].
      split; [intros e [->|Hin]; [lia|auto]|]. split; [exact Hs|exact Hf].
Qed.
