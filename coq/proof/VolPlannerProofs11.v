(* Proofs about model/VolPlanner.v (C15), part 11: the EC half of volumeServer.evacuate
   (evacuateEcVolumes): free EC slots, per step. *)
From Coq Require Import List NArith ZArith Bool Arith Lia.
From SW Require Import model.VolPlanner.
Import ListNotations.
Local Open Scope Z_scope.

Fixpoint ec_replay (others : list ecnode) (evs : list ecevent) : list ecnode :=
  match evs with
  | [] => others
  | EcMove vid sh to :: evs' => ec_replay (ec_put others to vid sh) evs'
  | _ :: evs' => ec_replay others evs'
  end.

Lemma ec_cap_steps_app : forall T a b o,
  ec_cap_steps T o (a ++ b) = ec_cap_steps T o a && ec_cap_steps T (ec_replay o a) b.
Proof.
  intros T a. induction a as [|e a IH]; intros b o; [reflexivity|].
  destruct e as [vid sh to|vid|vid]; cbn [app ec_cap_steps ec_replay]; rewrite IH; auto.
  rewrite andb_assoc. reflexivity.
Qed.

(* every server outside the trigger set has room for [R] more shards *)
Definition EcInv (T : N -> bool) (o : list ecnode) (R : Z) : Prop :=
  forall n, In n o -> T (e_id n) = false -> R <= e_free n.

Lemma EcInv_le : forall T o R R', R' <= R -> EcInv T o R -> EcInv T o R'.
Proof. intros T o R R' H HI n Hn HT. specialize (HI n Hn HT). lia. Qed.

Lemma ec_add_id : forall n vid sh, e_id (ec_add n vid sh) = e_id n.
Proof. reflexivity. Qed.
Lemma ec_add_free : forall n vid sh, e_free n - 1 <= e_free (ec_add n vid sh).
Proof. intros. unfold ec_add. cbn [e_free]. destruct (ec_has n vid sh); lia. Qed.

Lemma ec_put_inv : forall T o R to vid sh, EcInv T o (1 + R) -> EcInv T (ec_put o to vid sh) R.
Proof.
  intros T o R to vid sh HI n' Hn' HT. unfold ec_put in Hn'. apply in_map_iff in Hn'.
  destruct Hn' as [n [E Hn]]. destruct (e_id n =? to)%N; subst n'.
  - rewrite ec_add_id in HT. pose proof (HI n Hn HT). pose proof (ec_add_free n vid sh). lia.
  - pose proof (HI n Hn HT). lia.
Qed.

Lemma ec_find_some : forall o id t, ec_find o id = Some t -> In t o /\ e_id t = id.
Proof.
  intros o id t H. unfold ec_find in H. apply find_some in H. destruct H as [H1 H2].
  apply N.eqb_eq in H2. auto.
Qed.

Lemma ec_find_in : forall es n, NoDup (map e_id es) -> In n es -> ec_find es (e_id n) = Some n.
Proof.
  induction es as [|a es IH]; intros n Hnd Hin; [destruct Hin|].
  cbn [map] in Hnd. inversion Hnd as [|? ? Hn Hd]; subst.
  unfold ec_find. cbn [find]. destruct (N.eqb_spec (e_id a) (e_id n)) as [E|E].
  - destruct Hin as [->|Hin]; auto. exfalso. apply Hn. rewrite E. apply in_map; auto.
  - destruct Hin as [->|Hin]; [congruence|]. apply IH; auto.
Qed.

Lemma ec_shards_cap : forall T vid shs o evs o' evs' R,
  0 <= R -> EcInv T o (Z.of_nat (length shs) + R) ->
  ec_shards_run o vid shs evs = Some (o', evs') ->
  exists used, evs = used ++ evs' /\ o' = ec_replay o used /\ EcInv T o' R /\
    ec_cap_steps T o used = true.
Proof.
  intros T vid shs. induction shs as [|sh shs IH]; intros o evs o' evs' R HR HI H.
  - cbn [ec_shards_run] in H. inversion H; subst. exists []. repeat split; auto.
  - cbn [ec_shards_run] in H. destruct evs as [|[v s to|v|v] evs0]; try discriminate.
    destruct ((v =? vid)%N && (s =? sh)%N && ec_target_ok o vid to) eqn:E; [|discriminate].
    apply andb_true_iff in E. destruct E as [E Htg]. apply andb_true_iff in E. destruct E as [Ev Es].
    apply N.eqb_eq in Ev. apply N.eqb_eq in Es. subst v s.
    unfold ec_target_ok in Htg. destruct (ec_find o to) as [t|] eqn:Et; [|discriminate].
    pose proof (ec_find_some _ _ _ Et) as [Hin Eid].
    assert (Z.of_nat (length (sh :: shs)) = 1 + Z.of_nat (length shs)) as El
      by (cbn [length]; lia).
    rewrite El in HI.
    assert (EcInv T (ec_put o to vid sh) (Z.of_nat (length shs) + R)) as HI'.
    { apply ec_put_inv. eapply EcInv_le; [|exact HI]. lia. }
    destruct (IH _ _ _ _ R HR HI' H) as [used [Eu [Eo [HI'' Hc]]]].
    exists (EcMove vid sh to :: used). split; [cbn [app]; f_equal; auto|].
    split; [cbn [ec_replay]; auto|]. split; auto.
    cbn [ec_cap_steps]. rewrite Et, Hc, andb_true_r.
    destruct (T to) eqn:ET; [apply orb_true_r|]. rewrite orb_false_r. apply Z.ltb_lt.
    rewrite <- Eid in ET. pose proof (HI t Hin ET). lia.
Qed.

Lemma ec_total_nonneg : forall vols, 0 <= ec_total vols.
Proof. induction vols as [|p vols IH]; cbn [ec_total fold_right]; [lia|]. unfold ec_total in IH. lia. Qed.

Lemma ec_evac_cap : forall T skip vols o evs,
  EcInv T o (ec_total vols) -> ec_evac_run o skip vols evs = true -> ec_cap_steps T o evs = true.
Proof.
  intros T skip vols. induction vols as [|[vid shs] vols IH]; intros o evs HI H.
  - cbn [ec_evac_run] in H. destruct evs; [reflexivity|discriminate].
  - assert (ec_total ((vid, shs) :: vols) = Z.of_nat (length shs) + ec_total vols) as Et by reflexivity.
    rewrite Et in HI. pose proof (ec_total_nonneg vols) as Hnn.
    assert (forall (b : bool), b = match evs with
              | EcStuck v :: evs' => skip && (v =? vid)%N && ec_evac_run o skip vols evs'
              | [EcFail v] => negb skip && (v =? vid)%N
              | _ => false end -> b = true -> ec_cap_steps T o evs = true) as Hstuck.
    { intros b Eb Hb. subst b. destruct evs as [|[v s to|v|v] evs0]; try discriminate.
      - apply andb_true_iff in Hb. destruct Hb as [_ Hrec]. cbn [ec_cap_steps].
        apply IH; auto. eapply EcInv_le; [|exact HI]. lia.
      - destruct evs0; [reflexivity|discriminate]. }
    cbn [ec_evac_run] in H. destruct o as [|o1 os]; [eapply Hstuck; [reflexivity|exact H]|].
    destruct shs as [|sh shs]; [eapply Hstuck; [reflexivity|exact H]|].
    destruct (ec_shards_run (o1 :: os) vid (sh :: shs) evs) as [[o' evs']|] eqn:Er; [|discriminate].
    destruct (ec_shards_cap T vid (sh :: shs) (o1 :: os) evs o' evs' (ec_total vols) Hnn HI Er)
      as [used [Eu [Eo [HI' Hc]]]].
    subst evs. rewrite ec_cap_steps_app, Hc, <- Eo. cbn [andb]. apply IH; auto.
Qed.

(* k=4 per step: every EC shard of an accepted evacuate plan goes to a server with a free EC slot,
   or THAT server cannot take all shards the evacuated server holds *)
Theorem ec_evac_accepts_cap_excused : forall es this skip evs,
  NoDup (map e_id es) -> ec_evac_accepts es this skip evs = true ->
  ec_cap_steps (ec_cap_trig es this) (ec_others es this) evs = true.
Proof.
  intros es this skip evs Hnd H. unfold ec_evac_accepts in H.
  destruct (ec_find es this) as [t|] eqn:Et; [|discriminate].
  apply (ec_evac_cap _ skip (e_vols t)); auto.
  intros n Hn HT. unfold ec_others in Hn. apply filter_In in Hn. destruct Hn as [Hn _].
  unfold ec_cap_trig in HT. rewrite Et, (ec_find_in es n Hnd Hn) in HT.
  apply Z.ltb_ge in HT. exact HT.
Qed.

(* the witness: n2 has no free EC slot (its only volume slot is taken) but holds no shard of
   volume 7, n3 has 18 free slots and two shards of volume 7 *)
Definition w9_ec : list ecnode :=
  [ {| e_id := 1; e_free := 7; e_vols := [(7, [0; 1; 2])] |};
    {| e_id := 2; e_free := 0; e_vols := [] |};
    {| e_id := 3; e_free := 18; e_vols := [(7, [3; 4])] |} ]%N.
Definition w9_events : list ecevent := [EcMove 7 0 2; EcMove 7 1 2; EcMove 7 2 2]%N.
Lemma w9_facts :
  NoDup (map e_id w9_ec) /\ ec_evac_accepts w9_ec 1 true w9_events = true /\
  ec_ok_cap (ec_others w9_ec 1) w9_events = false /\
  ec_cap_trig w9_ec 1 2 = true /\ ec_cap_trig w9_ec 1 3 = false /\
  (* sending the shards to n3 is not a plan of the planner *)
  ec_evac_accepts w9_ec 1 true [EcMove 7 0 3; EcMove 7 1 3; EcMove 7 2 3]%N = false.
Proof.
  split; [repeat constructor; cbn; intuition discriminate|]. vm_compute. repeat split; reflexivity.
Qed.

(* non-vacuity: an accepted plan whose every step has a free slot and no trigger *)
Definition ex_ec : list ecnode :=
  [ {| e_id := 1; e_free := 7; e_vols := [(7, [0; 1]); (8, [5])] |};
    {| e_id := 2; e_free := 10; e_vols := [(8, [0])] |};
    {| e_id := 3; e_free := 18; e_vols := [(7, [3; 4])] |} ]%N.
Lemma ex_ec_facts :
  NoDup (map e_id ex_ec) /\
  ec_evac_accepts ex_ec 1 true [EcMove 7 0 2; EcMove 7 1 2; EcMove 8 5 3]%N = true /\
  ec_ok_cap (ec_others ex_ec 1) [EcMove 7 0 2; EcMove 7 1 2; EcMove 8 5 3]%N = true /\
  ec_cap_trig ex_ec 1 2 = false /\ ec_cap_trig ex_ec 1 3 = false.
Proof.
  split; [repeat constructor; cbn; intuition discriminate|]. vm_compute. repeat split; reflexivity.
Qed.
