(* Proofs about model/Jwt.v (C34). *)
From Coq Require Import List NArith ZArith Bool String Ascii Arith Lia.
From SW Require Import model.Jwt.
Import ListNotations.
Local Open Scope string_scope.

Lemma sempty_false : forall s, sempty s = false -> s <> "".
Proof. intros [|c s] H; [discriminate|congruence]. Qed.
Lemma sempty_true : forall s, sempty s = true -> s = "".
Proof. intros [|c s] H; [reflexivity|discriminate]. Qed.

(* ---- what a successful DecodeJwt means ---- *)
Lemma decode_ok_facts : forall key t, decode_ok key t = true ->
  t_wellformed t = true /\ t_alg t = AlgHMAC /\ t_signed_with t = key /\
  t_exp_ok t = true /\ t_nbf_ok t = true /\ t_iat_ok t = true.
Proof.
  intros key t H. unfold decode_ok in H.
  repeat (apply andb_true_iff in H; destruct H as [H ?]).
  repeat split; auto.
  - destruct (t_alg t); simpl in *; congruence.
  - apply String.eqb_eq. assumption.
Qed.

Definition valid_token_for (tab : toktab) (key : string) (rq : request) (claim : string) : Prop :=
  exists t, get_jwt rq <> "" /\ lookup (get_jwt rq) tab = Some t /\
            t_wellformed t = true /\ t_alg t = AlgHMAC /\ t_signed_with t = key /\
            t_exp_ok t = true /\ t_nbf_ok t = true /\ t_iat_ok t = true /\
            t_fid t = claim.

(* ---- maybeCheckJwtAuthorization: acceptance is sound ---- *)
Theorem check_jwt_sound : forall tab cfg w rq vid fid,
  key_for cfg w <> "" -> check_jwt tab cfg w rq vid fid = true ->
  valid_token_for tab (key_for cfg w) rq (vid ++ "," ++ strip_suffix fid).
Proof.
  intros tab cfg w rq vid fid Hk H. unfold check_jwt in H.
  destruct (sempty (key_for cfg w)) eqn:Ek; [apply sempty_true in Ek; congruence|].
  destruct (sempty (get_jwt rq)) eqn:Et; [discriminate|].
  destruct (lookup (get_jwt rq) tab) as [t|] eqn:El; [|discriminate].
  destruct (decode_ok (key_for cfg w) t) eqn:Ed; [|discriminate].
  apply String.eqb_eq in H. apply decode_ok_facts in Ed.
  destruct Ed as [H1 [H2 [H3 [H4 [H5 H6]]]]].
  exists t. repeat split; auto. apply sempty_false. assumption.
Qed.

Theorem check_jwt_no_key : forall tab cfg w rq vid fid, key_for cfg w = "" -> check_jwt tab cfg w rq vid fid = true.
Proof. intros tab cfg w rq vid fid H. unfold check_jwt. rewrite H. reflexivity. Qed.

(* a missing token is refused whenever a key is configured *)
Theorem check_jwt_missing : forall tab cfg w rq vid fid, key_for cfg w <> "" -> get_jwt rq = "" ->
  check_jwt tab cfg w rq vid fid = false.
Proof.
  intros tab cfg w rq vid fid Hk Ht. unfold check_jwt.
  destruct (sempty (key_for cfg w)) eqn:Ek; [apply sempty_true in Ek; congruence|].
  rewrite Ht. reflexivity.
Qed.

(* ---- where the token comes from ---- *)
Theorem get_jwt_source : forall rq,
  (rq_query_jwt rq <> "" /\ get_jwt rq = rq_query_jwt rq) \/
  (rq_query_jwt rq = "" /\
   ((7 < String.length (rq_auth rq) /\ upper_s (substring 0 6 (rq_auth rq)) = "BEARER" /\
     get_jwt rq = substring 7 (String.length (rq_auth rq) - 7) (rq_auth rq)) \/
    get_jwt rq = "")).
Proof.
  intros rq. unfold get_jwt. destruct (sempty (rq_query_jwt rq)) eqn:Eq; simpl.
  - right. split; [apply sempty_true; assumption|].
    destruct (Nat.ltb 7 (String.length (rq_auth rq))) eqn:El; simpl; [|right; reflexivity].
    destruct (String.eqb (upper_s (substring 0 6 (rq_auth rq))) "BEARER") eqn:Eb; [|right; reflexivity].
    left. apply Nat.ltb_lt in El. apply String.eqb_eq in Eb. auto.
  - left. split; [apply sempty_false; assumption|reflexivity].
Qed.

(* ---- the sub-file suffix ---- *)
Fixpoint no_us (s : string) : bool :=
  match s with EmptyString => true | String c s' => negb (Ascii.eqb c c_us) && no_us s' end.

Lemma last_us_none : forall s, no_us s = true -> last_index_nat c_us s = None.
Proof.
  induction s as [|c s IH]; intros H; simpl in *; auto.
  apply andb_true_iff in H. destruct H as [H1 H2]. rewrite IH by assumption.
  apply negb_true_iff in H1. rewrite H1. reflexivity.
Qed.

Lemma last_us_app : forall x n, no_us n = true ->
  last_index_nat c_us (x ++ String c_us n) = Some (String.length x).
Proof.
  induction x as [|c x IH]; intros n H; simpl.
  - rewrite last_us_none by assumption. reflexivity.
  - rewrite IH by assumption. reflexivity.
Qed.

Lemma substring_prefix : forall x y, substring 0 (String.length x) (x ++ y) = x.
Proof.
  induction x as [|c x IH]; intros y; simpl.
  - destruct y; reflexivity.
  - rewrite IH. reflexivity.
Qed.

(* "<base>_<n>" is checked as "<base>" *)
Theorem strip_suffix_app : forall x n, x <> "" -> no_us n = true ->
  strip_suffix (x ++ String c_us n) = x.
Proof.
  intros x n Hx Hn. unfold strip_suffix. rewrite last_us_app by assumption.
  destruct x as [|c x]; [congruence|].
  pose proof (substring_prefix (String c x) (String c_us n)) as P.
  cbn [String.length] in *. exact P.
Qed.
Theorem strip_suffix_plain : forall x, no_us x = true -> strip_suffix x = x.
Proof. intros x H. unfold strip_suffix. rewrite last_us_none by assumption. reflexivity. Qed.

(* a token for the base file id opens every sub-file "<fid>_<n>" *)
Theorem check_jwt_suffix : forall tab cfg w rq vid base n,
  base <> "" -> no_us base = true -> no_us n = true ->
  check_jwt tab cfg w rq vid (base ++ String c_us n) = check_jwt tab cfg w rq vid base.
Proof.
  intros tab cfg w rq vid base n Hb Hnb Hn. unfold check_jwt.
  rewrite strip_suffix_app by assumption. rewrite strip_suffix_plain by assumption. reflexivity.
Qed.

(* ---- the numeric parsers ---- *)
Lemma parse_uint_bound : forall h b s v, parse_uint h b s = Some v -> (v < 2 ^ b)%N.
Proof.
  intros h b s v H. unfold parse_uint in H. destruct (sempty s); [discriminate|].
  destruct (parse_digits h s 0) as [x|]; [|discriminate].
  destruct (x <? 2 ^ b)%N eqn:E; [|discriminate]. injection H as <-. apply N.ltb_lt. assumption.
Qed.

Lemma parse_nic_bound : forall s id ck, parse_nic s = Some (id, ck) -> (id < 2 ^ 64)%N.
Proof.
  intros s id ck H. unfold parse_nic in H.
  destruct (Nat.leb (String.length s) 8); [discriminate|]. destruct (Nat.ltb 24 (String.length s)); [discriminate|].
  destruct (parse_uint true 64 (substring 0 (String.length s - 8) s)) as [x|] eqn:E1; [|discriminate].
  destruct (parse_uint true 32 (substring (String.length s - 8) 8 s)) as [y|]; [|discriminate].
  injection H as <- <-. eapply parse_uint_bound; eassumption.
Qed.

Lemma parse_nic_long : forall s p, parse_nic s = Some p -> Nat.leb (String.length s) 8 = false.
Proof. intros s p H. unfold parse_nic in H. destruct (Nat.leb (String.length s) 8); [discriminate|reflexivity]. Qed.

Lemma strip_split : forall f, strip_suffix f = fst (split_delta f).
Proof. intros f. unfold strip_suffix, split_delta. destruct (last_index_nat c_us f) as [[|i]|]; reflexivity. Qed.

Lemma substring_length_le : forall s n m, String.length (substring n m s) <= String.length s.
Proof.
  induction s as [|c s IH]; intros [|n] [|m]; simpl; try lia.
  - pose proof (IH 0 m). lia.
  - pose proof (IH n 0). lia.
  - pose proof (IH n (S m)). lia.
Qed.

Lemma strip_suffix_len : forall f, String.length (strip_suffix f) <= String.length f.
Proof.
  intros f. unfold strip_suffix. destruct (last_index_nat c_us f) as [[|i]|]; try lia. apply substring_length_le.
Qed.

(* a successful ParsePath: the base (what the token check compares) parses, the delta is added *)
Lemma parse_path_st_ok : forall f st, parse_path_st f = (st, true) ->
  exists id ck d, parse_nic (strip_suffix f) = Some (id, ck) /\ st = (((id + d) mod 2 ^ 64)%N, ck).
Proof.
  intros f st H. unfold parse_path_st in H. destruct (Nat.leb (String.length f) 8); [discriminate|].
  rewrite strip_split. destruct (split_delta f) as [base delta]. simpl fst.
  destruct (parse_nic base) as [[id ck]|] eqn:En; [|discriminate].
  destruct (sempty delta).
  - injection H as <-. exists id, ck, 0%N. split; [reflexivity|].
    rewrite N.add_0_r, N.mod_small; [reflexivity|]. eapply parse_nic_bound; eassumption.
  - destruct (parse_uint false 64 delta) as [d|]; [|discriminate]. injection H as <-.
    exists id, ck, d. split; reflexivity.
Qed.

(* whatever ParsePath leaves in n when the base parses: the base's needle, plus a delta *)
Lemma parse_path_st_base : forall f id ck, parse_nic (strip_suffix f) = Some (id, ck) ->
  exists d, fst (parse_path_st f) = (((id + d) mod 2 ^ 64)%N, ck).
Proof.
  intros f id ck H. unfold parse_path_st.
  pose proof (parse_nic_long _ _ H) as Hl. pose proof (strip_suffix_len f) as Hs.
  destruct (Nat.leb (String.length f) 8) eqn:El.
  - apply Nat.leb_le in El. apply Nat.leb_gt in Hl. lia.
  - rewrite strip_split in H. destruct (split_delta f) as [base delta]. simpl fst in H. rewrite H.
    assert (Hz : (((id + 0) mod 2 ^ 64)%N, ck) = (id, ck)).
    { rewrite N.add_0_r, N.mod_small; [reflexivity|]. eapply parse_nic_bound; eassumption. }
    destruct (sempty delta); [exists 0%N; cbn [fst]; symmetry; exact Hz|].
    destruct (parse_uint false 64 delta) as [d|]; [exists d; reflexivity|exists 0%N; cbn [fst]; symmetry; exact Hz].
Qed.

Lemma substring_full : forall y, substring 0 (String.length y) y = y.
Proof. induction y as [|c y IH]; simpl; [reflexivity|rewrite IH; reflexivity]. Qed.

Lemma substring_skip : forall x c y,
  substring (S (String.length x)) (String.length (x ++ String c y) - S (String.length x)) (x ++ String c y) = y.
Proof.
  induction x as [|a x IH]; intros c y.
  - cbn [String.length append substring]. rewrite Nat.sub_succ, Nat.sub_0_r. apply substring_full.
  - cbn [String.length append]. rewrite Nat.sub_succ.
    change (substring (S (S (String.length x))) (String.length (x ++ String c y) - S (String.length x)) (String a (x ++ String c y)))
      with (substring (S (String.length x)) (String.length (x ++ String c y) - S (String.length x)) (x ++ String c y)).
    apply IH.
Qed.

Lemma digits_no_comma : forall v acc r b, parse_digits false v acc = Some r ->
  index_nat c_comma (v ++ String c_comma b) = Some (String.length v).
Proof.
  induction v as [|c v IH]; intros acc r b H.
  - reflexivity.
  - cbn [parse_digits] in H. destruct (digit_of false c) as [d|] eqn:Ed; [|discriminate].
    cbn [append index_nat String.length]. destruct (Ascii.eqb c c_comma) eqn:Ec.
    + apply Ascii.eqb_eq in Ec. subst c. vm_compute in Ed. discriminate.
    + rewrite (IH _ _ b H). reflexivity.
Qed.

(* the claim text "<vid>,<base>" denotes, for needle.ParseFileIdFromString, exactly the numbers that
   NewVolumeId and ParseNeedleIdCookie read from its two halves *)
Theorem claim_den_app : forall v b vol id ck,
  parse_vid v = Some vol -> parse_nic b = Some (id, ck) -> claim_den (v ++ "," ++ b) = Some (vol, id, ck).
Proof.
  intros v b vol id ck Hv Hb. unfold claim_den.
  change (v ++ "," ++ b) with (v ++ String c_comma b).
  pose proof Hv as Hv'. unfold parse_vid, parse_uint in Hv'.
  destruct (sempty v) eqn:Ev; [discriminate|].
  destruct (parse_digits false v 0) as [x|] eqn:Ed; [|discriminate].
  rewrite (digits_no_comma v 0%N x b Ed).
  destruct v as [|c v0]; [discriminate|].
  cbn [String.length].
  pose proof (substring_prefix (String c v0) (String c_comma b)) as P1. cbn [String.length] in P1. rewrite P1.
  pose proof (substring_skip (String c v0) c_comma b) as P2. cbn [String.length] in P2. rewrite P2.
  rewrite Hv, Hb. reflexivity.
Qed.

(* a file id without underscore is read by ParsePath as ParseNeedleIdCookie reads it *)
Lemma parse_path_plain : forall f id ck, no_us f = true -> parse_path f = Some (id, ck) -> parse_nic f = Some (id, ck).
Proof.
  intros f id ck Hn H. unfold parse_path, parse_path_st in H.
  destruct (Nat.leb (String.length f) 8); [discriminate|].
  unfold split_delta in H. rewrite (last_us_none f Hn) in H.
  destruct (parse_nic f) as [[i c]|]; [|discriminate]. simpl in H. assumption.
Qed.

(* "<base>_<n>" addresses needle id + n (mod 2^64) with the cookie of <base> *)
Theorem parse_path_suffix_adds : forall base n id ck d,
  no_us n = true -> n <> "" -> parse_nic base = Some (id, ck) -> parse_uint false 64 n = Some d ->
  parse_path (base ++ String c_us n) = Some (((id + d) mod 2 ^ 64)%N, ck).
Proof.
  intros base n id ck d Hn Hne Hb Hd. unfold parse_path, parse_path_st.
  pose proof (parse_nic_long _ _ Hb) as Hl.
  assert (Hlen : String.length (base ++ String c_us n) = String.length base + S (String.length n)).
  { clear. induction base as [|c b IH]; simpl; [reflexivity|rewrite IH; reflexivity]. }
  destruct (Nat.leb (String.length (base ++ String c_us n)) 8) eqn:El.
  { apply Nat.leb_le in El. apply Nat.leb_gt in Hl. lia. }
  unfold split_delta. rewrite (last_us_app base n Hn).
  destruct base as [|c b]; [discriminate|].
  cbn [String.length].
  pose proof (substring_prefix (String c b) (String c_us n)) as P1. cbn [String.length] in P1. rewrite P1.
  pose proof (substring_skip (String c b) c_us n) as P2. cbn [String.length] in P2. rewrite P2.
  rewrite Hb. destruct n as [|a n0]; [congruence|]. cbn [sempty]. rewrite Hd. reflexivity.
Qed.

(* ---- the handlers: the store is reached only through a successful check ---- *)

(* Proceed v f a: v,f are parseURLPath's reading of the path, the check passed on them; a is, for EVERY
   method (reads, uploads and - since the repair of DeleteHandler - deletes), what NewVolumeId / ParsePath
   make of v / f, both without error; for an upload the needle CreateNeedleFromRequest built from its own
   reading of the path equals ParsePath f *)
Theorem proceed_authorized : forall tab cfg rq v f a, handle tab cfg rq = Proceed v f a ->
  parse_url_path (rq_path rq) = Some (v, f) /\
  check_jwt tab cfg (is_write_method (rq_method rq)) rq v f = true /\
  (exists vol id ck, parse_vid v = Some vol /\ parse_path f = Some (id, ck) /\ a = (vol, id, ck)) /\
  (is_upload (rq_method rq) = true ->
     exists u, upload_fid (rq_path rq) = Some u /\ parse_path u = parse_path f) /\
  (is_write_method (rq_method rq) = true -> rq_public rq = false /\ whitelist_blocks cfg rq = false).
Proof.
  intros tab cfg rq v f a H. unfold handle in *.
  destruct (rq_method rq) eqn:Em; cbn [is_upload is_write_method].
  1,2: unfold get_or_head in H; destruct (parse_url_path (rq_path rq)) as [[vid fid]|]; [|discriminate];
       destruct (check_jwt tab cfg false rq vid fid) eqn:Ec; simpl in H; [|discriminate];
       destruct (parse_vid vid) as [vol|] eqn:Ev; [|discriminate];
       destruct (parse_path fid) as [[id ck]|] eqn:Ep; [|discriminate];
       injection H as <- <- <-; repeat split; auto; try discriminate;
       exists vol, id, ck; rewrite Ev; auto.
  1,2: destruct (rq_public rq); [discriminate|]; destruct (whitelist_blocks cfg rq); [discriminate|];
       unfold post in H; destruct (parse_url_path (rq_path rq)) as [[vid fid]|]; [|discriminate];
       destruct (parse_vid vid) as [vol|] eqn:Ev; [|discriminate];
       destruct (check_jwt tab cfg true rq vid fid) eqn:Ec; simpl in H; [|discriminate];
       destruct (upload_fid (rq_path rq)) as [u|]; [|discriminate];
       destruct (parse_path u) as [[uid uck]|] eqn:Eu; [|discriminate];
       destruct (parse_path fid) as [[id ck]|] eqn:Ep; [|discriminate];
       destruct ((id =? uid) && (ck =? uck))%N eqn:Ee; [|discriminate];
       apply andb_true_iff in Ee; destruct Ee as [E1 E2]; apply N.eqb_eq in E1, E2; subst uid uck;
       injection H as <- <- <-; repeat split; auto; try discriminate;
       [exists vol, id, ck; rewrite Ev, Ep; auto | intros _; exists u; rewrite Ep; auto].
  destruct (rq_public rq); [discriminate|]. destruct (whitelist_blocks cfg rq); [discriminate|].
  unfold delete in H. destruct (parse_url_path (rq_path rq)) as [[vid fid]|]; [|discriminate].
  destruct (check_jwt tab cfg true rq vid fid) eqn:Ec; simpl in H; [|discriminate].
  destruct (parse_vid vid) as [vol|] eqn:Ev; [|discriminate].
  destruct (parse_path fid) as [[id ck]|] eqn:Ep; [|discriminate].
  injection H as <- <- <-. repeat split; auto; try discriminate.
  exists vol, id, ck. rewrite Ev. auto.
Qed.

Definition is_proceed (o : hresult) : bool := match o with Proceed _ _ _ => true | _ => false end.

(* a refused request is answered 401 (or 400 for an upload whose volume id does not parse,
   or is not routed at all on the public port): the store step is not reached *)
Theorem reject_before_touch : forall tab cfg rq vid fid,
  parse_url_path (rq_path rq) = Some (vid, fid) ->
  check_jwt tab cfg (is_write_method (rq_method rq)) rq vid fid = false ->
  handle tab cfg rq = Unauthorized \/
  (handle tab cfg rq = BadRequest /\ is_upload (rq_method rq) = true /\ parse_vid vid = None) \/
  (handle tab cfg rq = NoRoute /\ is_write_method (rq_method rq) = true /\ rq_public rq = true).
Proof.
  intros tab cfg rq vid fid Hp H. unfold handle in *.
  destruct (rq_method rq) eqn:Em; simpl in *.
  - left. unfold get_or_head. rewrite Hp, H. reflexivity.
  - left. unfold get_or_head. rewrite Hp, H. reflexivity.
  - destruct (rq_public rq); [right; right; auto|].
    destruct (whitelist_blocks cfg rq); [left; reflexivity|].
    unfold post. rewrite Hp. destruct (parse_vid vid); simpl; [|right; left; auto]. rewrite H. left. reflexivity.
  - destruct (rq_public rq); [right; right; auto|].
    destruct (whitelist_blocks cfg rq); [left; reflexivity|].
    unfold post. rewrite Hp. destruct (parse_vid vid); simpl; [|right; left; auto]. rewrite H. left. reflexivity.
  - destruct (rq_public rq); [right; right; auto|].
    destruct (whitelist_blocks cfg rq); [left; reflexivity|].
    unfold delete. rewrite Hp, H. left. reflexivity.
Qed.

Corollary reject_not_proceed : forall tab cfg rq vid fid,
  parse_url_path (rq_path rq) = Some (vid, fid) ->
  check_jwt tab cfg (is_write_method (rq_method rq)) rq vid fid = false ->
  is_proceed (handle tab cfg rq) = false.
Proof.
  intros tab cfg rq vid fid Hp H.
  destruct (reject_before_touch tab cfg rq vid fid Hp H) as [E|[[E _]|[E _]]]; rewrite E; reflexivity.
Qed.

(* a path on which parseURLPath panics never reaches the store either *)
Theorem panic_not_proceed : forall tab cfg rq, parse_url_path (rq_path rq) = None ->
  is_proceed (handle tab cfg rq) = false.
Proof.
  intros tab cfg rq Hp. unfold handle, get_or_head, post, delete. rewrite Hp.
  destruct (rq_method rq); try reflexivity;
    destruct (rq_public rq); try reflexivity; destruct (whitelist_blocks cfg rq); reflexivity.
Qed.

(* an upload whose own reading of the path gives another needle than the checked fid (or none) is
   refused (the repair in PostHandler) *)
Theorem upload_other_needle_refused : forall tab cfg rq v f u,
  is_upload (rq_method rq) = true ->
  parse_url_path (rq_path rq) = Some (v, f) -> upload_fid (rq_path rq) = Some u ->
  parse_path u <> parse_path f ->
  is_proceed (handle tab cfg rq) = false.
Proof.
  intros tab cfg rq v f u Hu Hp Hf Hne.
  destruct (handle tab cfg rq) as [| | | |v' f' a] eqn:Eh; try reflexivity.
  apply proceed_authorized in Eh. destruct Eh as [Hp' [_ [_ [Hup _]]]].
  rewrite Hp in Hp'. injection Hp' as <- <-.
  destruct (Hup Hu) as [u' [Hf' He]]. rewrite Hf in Hf'. injection Hf' as <-. contradiction.
Qed.

(* c34_accept_sound, FULL: with the key of the request's class configured, the store is reached
   only with a present, well-formed, unexpired HMAC token signed with THAT key whose claim is
   textually "<vid>,<fid without _suffix>" of the file the path names *)
Theorem accept_sound : forall tab cfg rq v f a,
  key_for cfg (is_write_method (rq_method rq)) <> "" ->
  handle tab cfg rq = Proceed v f a ->
  valid_token_for tab (key_for cfg (is_write_method (rq_method rq))) rq (v ++ "," ++ strip_suffix f).
Proof.
  intros tab cfg rq v f a Hk H. apply proceed_authorized in H.
  destruct H as [Hp [Hc _]]. apply check_jwt_sound; assumption.
Qed.

(* ---- "the claim names the target file", as numbers ---- *)

(* FULL (the former finding C34/0 is repaired): the text the token had to repeat denotes, for the file id
   parser ParseFileIdFromString, the volume and cookie the store operation is called with, and the needle
   id up to the added _delta - for every method *)
Theorem proceed_names_target : forall tab cfg rq v f a,
  handle tab cfg rq = Proceed v f a ->
  exists vol id ck d, claim_den (v ++ "," ++ strip_suffix f) = Some (vol, id, ck) /\
                      a = (vol, ((id + d) mod 2 ^ 64)%N, ck).
Proof.
  intros tab cfg rq v f a H. apply proceed_authorized in H.
  destruct H as [Hp [_ [Hnd _]]].
  destruct Hnd as [vol [id' [ck [Ev [Epp ->]]]]].
  unfold parse_path in Epp. destruct (parse_path_st f) as [st ok] eqn:Est.
  destruct ok; [|discriminate]. injection Epp as ->.
  destruct (parse_path_st_ok f _ Est) as [id [ck0 [d [En Hst]]]]. injection Hst as -> ->.
  exists vol, id, ck0, d. split; [apply claim_den_app; assumption|reflexivity].
Qed.

(* with a token: its claim denotes the addressed volume, cookie and (up to the delta) needle *)
Theorem accept_names_target : forall tab cfg rq v f a,
  key_for cfg (is_write_method (rq_method rq)) <> "" ->
  handle tab cfg rq = Proceed v f a ->
  exists t vol id ck d, lookup (get_jwt rq) tab = Some t /\
     decode_ok (key_for cfg (is_write_method (rq_method rq))) t = true /\
     claim_den (t_fid t) = Some (vol, id, ck) /\ a = (vol, ((id + d) mod 2 ^ 64)%N, ck).
Proof.
  intros tab cfg rq v f a Hk H.
  destruct (accept_sound tab cfg rq v f a Hk H) as [t [H1 [H2 [H3 [H4 [H5 [H6 [H7 [H8 H9]]]]]]]]].
  destruct (proceed_names_target tab cfg rq v f a H) as [vol [id [ck [d [Hc Ha]]]]].
  exists t, vol, id, ck, d. repeat split; auto.
  - unfold decode_ok. rewrite H3, H4, H5, H6, H7, H8, String.eqb_refl. reflexivity.
  - rewrite H9. assumption.
Qed.

(* the negation of the formerly refuted statement: under a configured key the store is never reached with
   a token whose claim denotes no file *)
Corollary accept_claim_denotes : forall tab cfg rq v f a,
  key_for cfg (is_write_method (rq_method rq)) <> "" ->
  handle tab cfg rq = Proceed v f a ->
  exists t, lookup (get_jwt rq) tab = Some t /\ claim_den (t_fid t) <> None.
Proof.
  intros tab cfg rq v f a Hk H.
  destruct (accept_names_target tab cfg rq v f a Hk H) as [t [vol [id [ck [d [Hl [_ [Hc _]]]]]]]].
  exists t. split; [assumption|]. rewrite Hc. discriminate.
Qed.

(* a file id without a _suffix (every method): the claim denotes exactly the addressed needle *)
Theorem proceed_names_exact : forall tab cfg rq v f a,
  handle tab cfg rq = Proceed v f a -> no_us f = true ->
  claim_den (v ++ "," ++ strip_suffix f) = Some a.
Proof.
  intros tab cfg rq v f a H Hn. apply proceed_authorized in H.
  destruct H as [_ [_ [Hnd _]]]. destruct Hnd as [vol [id [ck [Ev [Ep ->]]]]].
  rewrite (strip_suffix_plain f Hn). apply claim_den_app; [assumption|].
  apply parse_path_plain; assumption.
Qed.

(* the repair in DeleteHandler (as for reads): a path whose volume id or file id does not parse never
   reaches the store - 401 when the check fails, else 400 *)
Theorem unparsed_not_proceed : forall tab cfg rq v f,
  parse_url_path (rq_path rq) = Some (v, f) ->
  parse_vid v = None \/ parse_path f = None ->
  is_proceed (handle tab cfg rq) = false.
Proof.
  intros tab cfg rq v f Hp Hu.
  destruct (handle tab cfg rq) as [| | | |v' f' a] eqn:Eh; try reflexivity.
  apply proceed_authorized in Eh. destruct Eh as [Hp' [_ [[vol [id [ck [Ev [Ep _]]]]] _]]].
  rewrite Hp in Hp'. injection Hp' as <- <-.
  destruct Hu as [Hu|Hu]; congruence.
Qed.

Theorem delete_unparsed_bad_request : forall tab cfg rq v f,
  rq_method rq = DELETE -> rq_public rq = false -> whitelist_blocks cfg rq = false ->
  parse_url_path (rq_path rq) = Some (v, f) ->
  check_jwt tab cfg true rq v f = true ->
  parse_vid v = None \/ parse_path f = None ->
  handle tab cfg rq = BadRequest.
Proof.
  intros tab cfg rq v f Hm Hpub Hwl Hp Hc Hu. unfold handle. rewrite Hm, Hpub, Hwl.
  unfold delete. rewrite Hp, Hc. simpl.
  destruct (parse_vid v) as [vol|]; [|reflexivity].
  destruct Hu as [Hu|Hu]; [discriminate|]. rewrite Hu. reflexivity.
Qed.

(* ---- the former finding C34/0: DeleteHandler ignored the parse errors ---- *)
Definition w_key : string := "wkey".
Definition mk_tok (claim : string) : token :=
  {| t_wellformed := true; t_alg := AlgHMAC; t_signed_with := w_key; t_exp_ok := true; t_nbf_ok := true;
     t_iat_ok := true; t_fid := claim; t_den := claim_den claim; t_names_target := false |}.
Definition w_tok : token := mk_tok "3,01637037d6".
Definition w_cfg : config := {| write_key := w_key; read_key := ""; wl_active := false |}.
Definition mk_rq (m : meth) (path : string) : request :=
  {| rq_public := false; rq_method := m; rq_query_jwt := "T"; rq_auth := ""; rq_path := path; rq_wl_pass := false |}.

Definition r_rq : request := mk_rq DELETE "/x3,01637037d6".
Definition r_tab : toktab := [("T", mk_tok "x3,01637037d6")].

(* the former witnesses: a token whose claim repeats the unparsable text passes the (textual) check, and
   the request is answered 400 before the store; volume 0 / needle 1 stays; the same on GET and PUT *)
Example repaired_delete_witness :
  check_jwt r_tab w_cfg true r_rq "x3" "01637037d6" = true /\
  claim_den "x3,01637037d6" = None /\
  handle r_tab w_cfg r_rq = BadRequest /\
  store_step (handle r_tab w_cfg r_rq) DELETE
    {| w_vols := [0%N; 3%N]; w_live := [{| n_vol := 0; n_id := 1; n_ck := 1668298710; n_content := 1 |}] |}
  = {| e_status := 400; e_live := [{| n_vol := 0; n_id := 1; n_ck := 1668298710; n_content := 1 |}]; e_disclosed := [] |} /\
  handle [("T", mk_tok "3,zz637037d6")] w_cfg (mk_rq DELETE "/3,zz637037d6") = BadRequest /\
  handle [("T", mk_tok "3,01637037d6")] w_cfg (mk_rq DELETE "/3,01637037d6_x") = BadRequest /\
  handle r_tab w_cfg (mk_rq GET "/x3,01637037d6") = BadRequest /\
  handle r_tab {| write_key := ""; read_key := w_key; wl_active := false |} (mk_rq GET "/x3,01637037d6") = BadRequest /\
  handle r_tab w_cfg (mk_rq PUT "/x3,01637037d6") = BadRequest.
Proof. vm_compute. repeat split. Qed.

(* ---- the former defect of PostHandler: a token for file 1, an upload path whose file name
   carries file 2 — answered 400 before the store ---- *)
Definition w_rq : request := mk_rq PUT "/3/01637037d6/x,02637037d6".

Example repaired_witness :
  parse_url_path (rq_path w_rq) = Some ("3", "01637037d6") /\
  upload_fid (rq_path w_rq) = Some "02637037d6" /\
  parse_path "01637037d6" = Some (1, 1668298710)%N /\ parse_path "02637037d6" = Some (2, 1668298710)%N /\
  handle [("T", w_tok)] w_cfg w_rq = BadRequest.
Proof. vm_compute. repeat split. Qed.

(* non-vacuity and the textual quirk: the same token on the plain URL is fine and addresses needle 1,
   "_1" addresses needle 2 under the token of needle 1, a zero-padded volume id in the claim is refused
   although it denotes the same volume *)
Example accept_example :
  let rq := {| rq_public := false; rq_method := DELETE; rq_query_jwt := ""; rq_auth := "Bearer T";
               rq_path := "/3,01637037d6_1"; rq_wl_pass := false |} in
  let up := mk_rq PUT "/3,01637037d6.txt" in
  handle [("T", w_tok)] w_cfg rq = Proceed "3" "01637037d6_1" (3, 2, 1668298710)%N /\
  handle [("T", w_tok)] w_cfg up = Proceed "3" "01637037d6" (3, 1, 1668298710)%N /\
  claim_den "3,01637037d6" = Some (3, 1, 1668298710)%N /\ claim_den "03,01637037d6" = Some (3, 1, 1668298710)%N /\
  handle [("T", mk_tok "03,01637037d6")] w_cfg rq = Unauthorized /\
  handle [("T", {| t_wellformed := true; t_alg := AlgNone; t_signed_with := ""; t_exp_ok := true; t_nbf_ok := true;
                   t_iat_ok := true; t_fid := "3,01637037d6"; t_den := None; t_names_target := true |})] w_cfg rq = Unauthorized /\
  handle [] w_cfg rq = Unauthorized.
Proof. vm_compute. repeat split. Qed.
