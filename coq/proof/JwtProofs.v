(* Proofs about model/Jwt.v (C34). *)
From Coq Require Import List NArith ZArith Bool String Ascii Arith Lia.
From SW Require Import model.Jwt.
Import ListNotations.
Local Open Scope string_scope.

Lemma sempty_false : forall s, sempty s = false -> s <> "".
Proof. intros [|c s] H; [discriminate|congruence]. Qed.
Lemma sempty_true : forall s, sempty s = true -> s = "".
Proof. intros [|c s] H; [reflexivity|discriminate]. Qed.

(* ---- what a successful DecodeJwt means ---- *)
Lemma decode_ok_facts : forall key t, decode_ok key t = true ->
  t_wellformed t = true /\ t_alg t = AlgHMAC /\ t_signed_with t = key /\
  t_exp_ok t = true /\ t_nbf_ok t = true /\ t_iat_ok t = true.
Proof.
  intros key t H. unfold decode_ok in H.
  repeat (apply andb_true_iff in H; destruct H as [H ?]).
  repeat split; auto.
  - destruct (t_alg t); simpl in *; congruence.
  - apply String.eqb_eq. assumption.
Qed.

Definition valid_token_for (tab : toktab) (key : string) (rq : request) (claim : string) : Prop :=
  exists t, get_jwt rq <> "" /\ lookup (get_jwt rq) tab = Some t /\
            t_wellformed t = true /\ t_alg t = AlgHMAC /\ t_signed_with t = key /\
            t_exp_ok t = true /\ t_nbf_ok t = true /\ t_iat_ok t = true /\
            t_fid t = claim.

(* ---- maybeCheckJwtAuthorization: acceptance is sound ---- *)
Theorem check_jwt_sound : forall tab cfg w rq vid fid,
  key_for cfg w <> "" -> check_jwt tab cfg w rq vid fid = true ->
  valid_token_for tab (key_for cfg w) rq (vid ++ "," ++ strip_suffix fid).
Proof.
  intros tab cfg w rq vid fid Hk H. unfold check_jwt in H.
  destruct (sempty (key_for cfg w)) eqn:Ek; [apply sempty_true in Ek; congruence|].
  destruct (sempty (get_jwt rq)) eqn:Et; [discriminate|].
  destruct (lookup (get_jwt rq) tab) as [t|] eqn:El; [|discriminate].
  destruct (decode_ok (key_for cfg w) t) eqn:Ed; [|discriminate].
  apply String.eqb_eq in H. apply decode_ok_facts in Ed.
  destruct Ed as [H1 [H2 [H3 [H4 [H5 H6]]]]].
  exists t. repeat split; auto. apply sempty_false. assumption.
Qed.

Theorem check_jwt_no_key : forall tab cfg w rq vid fid, key_for cfg w = "" -> check_jwt tab cfg w rq vid fid = true.
Proof. intros tab cfg w rq vid fid H. unfold check_jwt. rewrite H. reflexivity. Qed.

(* a missing token is refused whenever a key is configured *)
Theorem check_jwt_missing : forall tab cfg w rq vid fid, key_for cfg w <> "" -> get_jwt rq = "" ->
  check_jwt tab cfg w rq vid fid = false.
Proof.
  intros tab cfg w rq vid fid Hk Ht. unfold check_jwt.
  destruct (sempty (key_for cfg w)) eqn:Ek; [apply sempty_true in Ek; congruence|].
  rewrite Ht. reflexivity.
Qed.

(* ---- where the token comes from ---- *)
Theorem get_jwt_source : forall rq,
  (rq_query_jwt rq <> "" /\ get_jwt rq = rq_query_jwt rq) \/
  (rq_query_jwt rq = "" /\
   ((7 < String.length (rq_auth rq) /\ upper_s (substring 0 6 (rq_auth rq)) = "BEARER" /\
     get_jwt rq = substring 7 (String.length (rq_auth rq) - 7) (rq_auth rq)) \/
    get_jwt rq = "")).
Proof.
  intros rq. unfold get_jwt. destruct (sempty (rq_query_jwt rq)) eqn:Eq; simpl.
  - right. split; [apply sempty_true; assumption|].
    destruct (Nat.ltb 7 (String.length (rq_auth rq))) eqn:El; simpl; [|right; reflexivity].
    destruct (String.eqb (upper_s (substring 0 6 (rq_auth rq))) "BEARER") eqn:Eb; [|right; reflexivity].
    left. apply Nat.ltb_lt in El. apply String.eqb_eq in Eb. auto.
  - left. split; [apply sempty_false; assumption|reflexivity].
Qed.

(* ---- the sub-file suffix ---- *)
Fixpoint no_us (s : string) : bool :=
  match s with EmptyString => true | String c s' => negb (Ascii.eqb c c_us) && no_us s' end.

Lemma last_us_none : forall s, no_us s = true -> last_index_nat c_us s = None.
Proof.
  induction s as [|c s IH]; intros H; simpl in *; auto.
  apply andb_true_iff in H. destruct H as [H1 H2]. rewrite IH by assumption.
  apply negb_true_iff in H1. rewrite H1. reflexivity.
Qed.

Lemma last_us_app : forall x n, no_us n = true ->
  last_index_nat c_us (x ++ String c_us n) = Some (String.length x).
Proof.
  induction x as [|c x IH]; intros n H; simpl.
  - rewrite last_us_none by assumption. reflexivity.
  - rewrite IH by assumption. reflexivity.
Qed.

Lemma substring_prefix : forall x y, substring 0 (String.length x) (x ++ y) = x.
Proof.
  induction x as [|c x IH]; intros y; simpl.
  - destruct y; reflexivity.
  - rewrite IH. reflexivity.
Qed.

(* "<base>_<n>" is checked as "<base>" *)
Theorem strip_suffix_app : forall x n, x <> "" -> no_us n = true ->
  strip_suffix (x ++ String c_us n) = x.
Proof.
  intros x n Hx Hn. unfold strip_suffix. rewrite last_us_app by assumption.
  destruct x as [|c x]; [congruence|].
  pose proof (substring_prefix (String c x) (String c_us n)) as P.
  cbn [String.length] in *. exact P.
Qed.
Theorem strip_suffix_plain : forall x, no_us x = true -> strip_suffix x = x.
Proof. intros x H. unfold strip_suffix. rewrite last_us_none by assumption. reflexivity. Qed.

(* a token for the base file id opens every sub-file "<fid>_<n>" *)
Theorem check_jwt_suffix : forall tab cfg w rq vid base n,
  base <> "" -> no_us base = true -> no_us n = true ->
  check_jwt tab cfg w rq vid (base ++ String c_us n) = check_jwt tab cfg w rq vid base.
Proof.
  intros tab cfg w rq vid base n Hb Hnb Hn. unfold check_jwt.
  rewrite strip_suffix_app by assumption. rewrite strip_suffix_plain by assumption. reflexivity.
Qed.

(* ---- the handlers: the store is reached only through a successful check ---- *)

(* Proceed v f: v,f are parseURLPath's reading of the path, the check passed on them, and for an
   upload the needle CreateNeedleFromRequest built is the needle f denotes (rq_same_needle) *)
Theorem proceed_authorized : forall tab cfg rq v f, handle tab cfg rq = Proceed v f ->
  parse_url_path (rq_path rq) = Some (v, f) /\
  check_jwt tab cfg (is_write_method (rq_method rq)) rq v f = true /\
  (is_upload (rq_method rq) = true -> rq_same_needle rq = true) /\
  (is_write_method (rq_method rq) = true -> rq_public rq = false /\ whitelist_blocks cfg rq = false).
Proof.
  intros tab cfg rq v f H. unfold handle in *.
  destruct (rq_method rq) eqn:Em; simpl.
  - unfold get_or_head in H. destruct (parse_url_path (rq_path rq)) as [[vid fid]|]; [|discriminate].
    destruct (check_jwt tab cfg false rq vid fid) eqn:Ec; simpl in H; [|discriminate].
    destruct (rq_vid_ok rq); simpl in H; [|discriminate]. destruct (rq_fid_ok rq); simpl in H; [|discriminate].
    injection H as <- <-. repeat split; auto; discriminate.
  - unfold get_or_head in H. destruct (parse_url_path (rq_path rq)) as [[vid fid]|]; [|discriminate].
    destruct (check_jwt tab cfg false rq vid fid) eqn:Ec; simpl in H; [|discriminate].
    destruct (rq_vid_ok rq); simpl in H; [|discriminate]. destruct (rq_fid_ok rq); simpl in H; [|discriminate].
    injection H as <- <-. repeat split; auto; discriminate.
  - destruct (rq_public rq); [discriminate|]. destruct (whitelist_blocks cfg rq); [discriminate|].
    unfold post in H. destruct (parse_url_path (rq_path rq)) as [[vid fid]|]; [|discriminate].
    destruct (rq_vid_ok rq); simpl in H; [|discriminate].
    destruct (check_jwt tab cfg true rq vid fid) eqn:Ec; simpl in H; [|discriminate].
    destruct (upload_fid (rq_path rq)) as [u|]; [|discriminate].
    destruct (rq_upfid_ok rq); simpl in H; [|discriminate].
    destruct (rq_same_needle rq); simpl in H; [|discriminate].
    injection H as <- <-. repeat split; auto.
  - destruct (rq_public rq); [discriminate|]. destruct (whitelist_blocks cfg rq); [discriminate|].
    unfold post in H. destruct (parse_url_path (rq_path rq)) as [[vid fid]|]; [|discriminate].
    destruct (rq_vid_ok rq); simpl in H; [|discriminate].
    destruct (check_jwt tab cfg true rq vid fid) eqn:Ec; simpl in H; [|discriminate].
    destruct (upload_fid (rq_path rq)) as [u|]; [|discriminate].
    destruct (rq_upfid_ok rq); simpl in H; [|discriminate].
    destruct (rq_same_needle rq); simpl in H; [|discriminate].
    injection H as <- <-. repeat split; auto.
  - destruct (rq_public rq); [discriminate|]. destruct (whitelist_blocks cfg rq); [discriminate|].
    unfold delete in H. destruct (parse_url_path (rq_path rq)) as [[vid fid]|]; [|discriminate].
    destruct (check_jwt tab cfg true rq vid fid) eqn:Ec; simpl in H; [|discriminate].
    injection H as <- <-. repeat split; auto; discriminate.
Qed.

Definition is_proceed (o : hresult) : bool := match o with Proceed _ _ => true | _ => false end.

(* a refused request is answered 401 (or 400 for an upload whose volume id does not parse,
   or is not routed at all on the public port): the store step is not reached *)
Theorem reject_before_touch : forall tab cfg rq vid fid,
  parse_url_path (rq_path rq) = Some (vid, fid) ->
  check_jwt tab cfg (is_write_method (rq_method rq)) rq vid fid = false ->
  handle tab cfg rq = Unauthorized \/
  (handle tab cfg rq = BadRequest /\ is_upload (rq_method rq) = true /\ rq_vid_ok rq = false) \/
  (handle tab cfg rq = NoRoute /\ is_write_method (rq_method rq) = true /\ rq_public rq = true).
Proof.
  intros tab cfg rq vid fid Hp H. unfold handle in *.
  destruct (rq_method rq) eqn:Em; simpl in *.
  - left. unfold get_or_head. rewrite Hp, H. reflexivity.
  - left. unfold get_or_head. rewrite Hp, H. reflexivity.
  - destruct (rq_public rq); [right; right; auto|].
    destruct (whitelist_blocks cfg rq); [left; reflexivity|].
    unfold post. rewrite Hp. destruct (rq_vid_ok rq); simpl; [|right; left; auto]. rewrite H. left. reflexivity.
  - destruct (rq_public rq); [right; right; auto|].
    destruct (whitelist_blocks cfg rq); [left; reflexivity|].
    unfold post. rewrite Hp. destruct (rq_vid_ok rq); simpl; [|right; left; auto]. rewrite H. left. reflexivity.
  - destruct (rq_public rq); [right; right; auto|].
    destruct (whitelist_blocks cfg rq); [left; reflexivity|].
    unfold delete. rewrite Hp, H. left. reflexivity.
Qed.

Corollary reject_not_proceed : forall tab cfg rq vid fid,
  parse_url_path (rq_path rq) = Some (vid, fid) ->
  check_jwt tab cfg (is_write_method (rq_method rq)) rq vid fid = false ->
  is_proceed (handle tab cfg rq) = false.
Proof.
  intros tab cfg rq vid fid Hp H.
  destruct (reject_before_touch tab cfg rq vid fid Hp H) as [E|[[E _]|[E _]]]; rewrite E; reflexivity.
Qed.

(* a path on which parseURLPath panics never reaches the store either *)
Theorem panic_not_proceed : forall tab cfg rq, parse_url_path (rq_path rq) = None ->
  is_proceed (handle tab cfg rq) = false.
Proof.
  intros tab cfg rq Hp. unfold handle, get_or_head, post, delete. rewrite Hp.
  destruct (rq_method rq); try reflexivity;
    destruct (rq_public rq); try reflexivity; destruct (whitelist_blocks cfg rq); reflexivity.
Qed.

(* an upload whose own reading of the path gives another needle than the checked fid is refused
   (the repair of finding C34/0) *)
Theorem upload_other_needle_refused : forall tab cfg rq,
  is_upload (rq_method rq) = true -> rq_same_needle rq = false ->
  is_proceed (handle tab cfg rq) = false.
Proof.
  intros tab cfg rq Hu Hs. unfold handle.
  destruct (rq_method rq); try discriminate;
    (destruct (rq_public rq); [reflexivity|]; destruct (whitelist_blocks cfg rq); [reflexivity|];
     unfold post; destruct (parse_url_path (rq_path rq)) as [[vid fid]|]; [|reflexivity];
     destruct (rq_vid_ok rq); [|reflexivity]; simpl;
     destruct (check_jwt tab cfg true rq vid fid); [|reflexivity]; simpl;
     destruct (upload_fid (rq_path rq)); [|reflexivity];
     destruct (rq_upfid_ok rq); [|reflexivity]; simpl; rewrite Hs; reflexivity).
Qed.

(* c34_accept_sound, FULL: with the key of the request's class configured, the store is reached
   only with a present, well-formed, unexpired HMAC token signed with THAT key whose claim is
   textually "<vid>,<fid without _suffix>" of the file the store is addressed with *)
Theorem accept_sound : forall tab cfg rq v f,
  key_for cfg (is_write_method (rq_method rq)) <> "" ->
  handle tab cfg rq = Proceed v f ->
  valid_token_for tab (key_for cfg (is_write_method (rq_method rq))) rq (v ++ "," ++ strip_suffix f).
Proof.
  intros tab cfg rq v f Hk H. apply proceed_authorized in H.
  destruct H as [Hp [Hc _]]. apply check_jwt_sound; assumption.
Qed.

(* the model's acceptance implies the reference used by the correspondence check, if a claim
   that is textually "<vid>,<fid>" of the addressed file names it (hypothesis on the oracle bit) *)
Theorem proceed_allowed : forall tab cfg rq presented v f,
  In (get_jwt rq) presented ->
  (forall t, lookup (get_jwt rq) tab = Some t ->
             t_fid t = v ++ "," ++ strip_suffix f -> t_names_target t = true) ->
  handle tab cfg rq = Proceed v f -> spec_allows tab cfg rq presented = true.
Proof.
  intros tab cfg rq presented v f Hin Hnt H. unfold spec_allows.
  destruct (sempty (key_for cfg (is_write_method (rq_method rq)))) eqn:Ek; [reflexivity|].
  simpl. apply sempty_false in Ek.
  destruct (accept_sound tab cfg rq v f Ek H) as [t [H1 [H2 [H3 [H4 [H5 [H6 [H7 [H8 H9]]]]]]]]].
  apply existsb_exists. exists (get_jwt rq). split; [assumption|].
  rewrite H2. unfold token_good. rewrite (Hnt t H2 H9).
  unfold decode_ok. rewrite H3, H4, H5, H6, H7, H8, String.eqb_refl. reflexivity.
Qed.

(* ---- the former witness of finding C34/0: a token for file 1, an upload path whose file name
   carries file 2 — now answered 400 before the store ---- *)
Definition w_key : string := "wkey".
Definition w_tok : token :=
  {| t_wellformed := true; t_alg := AlgHMAC; t_signed_with := w_key; t_exp_ok := true; t_nbf_ok := true;
     t_iat_ok := true; t_fid := "3,01637037d6"; t_names_target := false |}.
Definition w_rq : request :=
  {| rq_public := false; rq_method := PUT; rq_query_jwt := "T"; rq_auth := "";
     rq_path := "/3/01637037d6/x,02637037d6";
     rq_vid_ok := true; rq_fid_ok := true; rq_upfid_ok := true; rq_same_needle := false; rq_wl_pass := false |}.
Definition w_cfg : config := {| write_key := w_key; read_key := ""; wl_active := false |}.

Example repaired_witness :
  parse_url_path (rq_path w_rq) = Some ("3", "01637037d6") /\
  upload_fid (rq_path w_rq) = Some "02637037d6" /\
  handle [("T", w_tok)] w_cfg w_rq = BadRequest.
Proof. vm_compute. repeat split. Qed.

(* non-vacuity and the textual quirk: the same token on the plain URL is fine, a zero-padded
   volume id in the claim is refused although it denotes the same volume *)
Example accept_example :
  let rq := {| rq_public := false; rq_method := DELETE; rq_query_jwt := ""; rq_auth := "Bearer T";
               rq_path := "/3,01637037d6_1"; rq_vid_ok := true; rq_fid_ok := true; rq_upfid_ok := true;
               rq_same_needle := true; rq_wl_pass := false |} in
  let up := {| rq_public := false; rq_method := PUT; rq_query_jwt := "T"; rq_auth := "";
               rq_path := "/3,01637037d6.txt"; rq_vid_ok := true; rq_fid_ok := true; rq_upfid_ok := true;
               rq_same_needle := true; rq_wl_pass := false |} in
  handle [("T", w_tok)] w_cfg rq = Proceed "3" "01637037d6_1" /\
  handle [("T", w_tok)] w_cfg up = Proceed "3" "01637037d6" /\
  handle [("T", {| t_wellformed := true; t_alg := AlgHMAC; t_signed_with := w_key; t_exp_ok := true; t_nbf_ok := true;
                   t_iat_ok := true; t_fid := "03,01637037d6"; t_names_target := true |})] w_cfg rq = Unauthorized /\
  handle [("T", {| t_wellformed := true; t_alg := AlgNone; t_signed_with := ""; t_exp_ok := true; t_nbf_ok := true;
                   t_iat_ok := true; t_fid := "3,01637037d6"; t_names_target := true |})] w_cfg rq = Unauthorized /\
  handle [] w_cfg rq = Unauthorized.
Proof. vm_compute. repeat split. Qed.
