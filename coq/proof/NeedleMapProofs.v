(* C05 proofs, part 5: the .idx written by a run, doLoading (reload of the in-memory map),
   replay of the .idx by the LevelDB and sorted-file kinds, and the concrete witnesses. *)
From Coq Require Import List NArith ZArith Bool Lia Sorted Arith.
From Coq Require Import ZifyBool ZifyN ZifyNat.
From SW Require Import model.NeedleMap proof.EcIndexProofs proof.NeedleMapSearch proof.NeedleMapSec
  proof.NeedleMapCm proof.NeedleMapRefine.
Import ListNotations.
Local Open Scope N_scope.

(* ---------- the index entries a history appends ---------- *)
Definition entry_of_op (o : op) : list entry :=
  match o with
  | Put k off sz => [mk_entry k off sz]
  | Del k off => [mk_entry k off tombstone]
  | Get _ => []
  end.
Definition entries_of (ops : list op) : list entry := flat_map entry_of_op ops.

Lemma nm_run_idx : forall osz batch ops s,
  nm_idx (snd (nm_run osz batch s ops)) = nm_idx s ++ encode osz (entries_of ops).
Proof.
  intros osz batch ops. induction ops as [|o ops IH]; intros s.
  - simpl. symmetry. apply app_nil_r.
  - cbn [nm_run]. destruct (nm_step osz batch s o) as [s' r] eqn:E.
    specialize (IH s'). destruct (nm_run osz batch s' ops) as [rs fin]. cbn [snd] in *.
    rewrite IH. cbn [entries_of flat_map]. fold (entries_of ops). rewrite encode_app, app_assoc. f_equal.
    destruct o as [k off sz|k off|k]; cbn [nm_step] in E.
    + injection E as <- _. unfold nm_put. destruct (cm_set batch (nm_map s) k off sz) as [[cm' oo] os].
      cbn [nm_idx entry_of_op]. unfold encode. simpl. rewrite app_nil_r. reflexivity.
    + injection E as <- _. unfold nm_delete. destruct (cm_delete batch (nm_map s) k) as [cm' ret].
      cbn [nm_idx entry_of_op]. unfold encode. simpl. rewrite app_nil_r. reflexivity.
    + injection E as <- _. simpl. symmetry. apply app_nil_r.
Qed.

Lemma entries_wf : forall osz ops, forallb (op_in_range osz) ops = true ->
  Forall (wf_entry osz) (entries_of ops).
Proof.
  intros osz ops H. induction ops as [|o ops IH]; [constructor|].
  cbn [forallb] in H. apply andb_true_iff in H. destruct H as [Ho H].
  cbn [entries_of flat_map]. apply Forall_app. split; [|apply IH; assumption].
  destruct o as [k off sz|k off|k]; cbn [entry_of_op op_in_range] in *.
  - constructor; [|constructor]. unfold wf_entry, mk_entry. simpl. lia.
  - constructor; [|constructor]. unfold wf_entry, mk_entry, tombstone. simpl. lia.
  - constructor.
Qed.

Lemma keys_ok_of_range : forall osz ops, forallb (op_in_range osz) ops = true -> keys_ok ops.
Proof.
  intros osz ops H. induction ops as [|o ops IH]; [constructor|].
  cbn [forallb] in H. apply andb_true_iff in H. destruct H as [Ho H].
  constructor; [|apply IH; assumption].
  destruct o; cbn [op_in_range op_key] in *; lia.
Qed.

(* ---------- doLoading replays exactly what the running map did ---------- *)
(* the reference map of a disciplined history: nonzero offsets, keys below the recorded maximum *)
Definition ref_ok (r : rmap) (m : metric) : Prop :=
  forall k off sz, ref_get r k = Some (off, sz) -> off <> 0 /\ k <= m_max m.

Lemma m_max_maybe : forall m k, m_max (maybe_max m k) = N.max (m_max m) k.
Proof. intros m k. unfold maybe_max. destruct (N.ltb_spec (m_max m) k); simpl; lia. Qed.

Lemma maybe_max_id : forall m k, k <= m_max m -> maybe_max m k = m.
Proof. intros m k H. unfold maybe_max. destruct (N.ltb_spec (m_max m) k); [lia|reflexivity]. Qed.

Lemma m_max_log_put : forall m k old new, m_max (log_put m k old new) = N.max (m_max m) k.
Proof.
  intros. unfold log_put, log_deletion.
  destruct ((0 <? old)%Z && size_is_valid old); [destruct (0 <? old)%Z|]; simpl; apply m_max_maybe.
Qed.

Lemma nm_run_cons_snd : forall osz batch s o ops,
  snd (nm_run osz batch s (o :: ops)) = snd (nm_run osz batch (fst (nm_step osz batch s o)) ops).
Proof.
  intros. cbn [nm_run]. destruct (nm_step osz batch s o) as [s' r]. cbn [fst].
  destruct (nm_run osz batch s' ops). reflexivity.
Qed.

Lemma load_step_put : forall batch cm m k off sz, off <> 0 -> size_is_valid sz = true ->
  load_step batch (cm, m) (mk_entry k off sz) =
  let '(cm', oo, os) := cm_set batch cm k off sz in
  (cm', if negb (oo =? 0) && size_is_valid os then add_del (add_file (maybe_max m k) sz) os
        else add_file (maybe_max m k) sz).
Proof.
  intros batch cm m k off sz Hoff Hv. unfold load_step. cbn [mk_entry e_key e_off e_size].
  destruct (N.eqb_spec off 0); [contradiction|]. rewrite Hv. reflexivity.
Qed.

Lemma load_step_tomb : forall batch cm m k off,
  load_step batch (cm, m) (mk_entry k off tombstone) =
  let '(cm', os) := cm_delete batch cm k in (cm', add_del (maybe_max m k) os).
Proof.
  intros. unfold load_step. cbn [mk_entry e_key e_off e_size].
  replace (negb (off =? 0) && size_is_valid tombstone) with false by (rewrite andb_false_r; reflexivity).
  reflexivity.
Qed.

Lemma ref_step_put_fst : forall r k off sz, fst (ref_step r (Put k off sz)) = ref_put r k (off, sz).
Proof. intros. cbn [ref_step]. destruct (ref_get r k) as [[ro rs]|]; reflexivity. Qed.

Lemma ref_step_put_snd : forall r k off sz,
  snd (ref_step r (Put k off sz)) =
  match ref_get r k with Some (ro, rs) => RSet ro rs | None => RSet 0 0%Z end.
Proof. intros. cbn [ref_step]. destruct (ref_get r k) as [[ro rs]|]; reflexivity. Qed.

Lemma ref_step_del_live : forall r k off ro rs, ref_get r k = Some (ro, rs) -> (0 < rs)%Z ->
  ref_step r (Del k off) = (ref_put r k (ro, (- rs)%Z), RDel rs).
Proof.
  intros r k off ro rs G H. cbn [ref_step]. rewrite G. destruct (Z.ltb_spec 0 rs); [reflexivity|lia].
Qed.

Lemma load_matches_run : forall osz batch ops cm r m idx,
  refines batch cm r -> ref_ok r m ->
  keys_ok ops -> disciplined_from r ops = true -> trig_empty_put ops = false ->
  let fin := snd (nm_run osz batch {| nm_map := cm; nm_met := m; nm_idx := idx |} ops) in
  fold_left (load_step batch) (entries_of ops) (cm, m) = (nm_map fin, nm_met fin).
Proof.
  intros osz batch ops. induction ops as [|o ops IH]; intros cm r m idx Href Hok Hk Hd He; [reflexivity|].
  inversion Hk as [|? ? Hk1 Hk2]; subst.
  cbn [disciplined_from] in Hd. apply andb_true_iff in Hd. destruct Hd as [Hd1 Hd2].
  cbn [trig_empty_put existsb] in He. apply orb_false_iff in He. destruct He as [He1 He2].
  destruct (step_refines batch cm r o Href Hk1) as [Hnext Hres].
  destruct Href as [Hinv Hrel].
  rewrite nm_run_cons_snd. cbn [entries_of flat_map]. fold (entries_of ops). rewrite fold_left_app.
  destruct o as [k off sz|k off|k]; cbn [op_key] in Hk1.
  - (* Put *)
    apply andb_true_iff in Hd1. destruct Hd1 as [Hoff Hsz].
    assert (Hpos : (0 < sz)%Z) by lia. assert (Hoff' : off <> 0) by lia.
    assert (Hvalid : size_is_valid sz = true) by (unfold size_is_valid, tombstone; lia).
    cbn [nm_step entry_of_op fst]. cbn [fold_left]. rewrite (load_step_put batch cm m k off sz Hoff' Hvalid).
    unfold nm_put. cbn [nm_map nm_met nm_idx].
    rewrite ref_step_put_fst in Hnext, Hd2. rewrite ref_step_put_snd in Hres.
    cbn [cm_step] in Hnext, Hres.
    destruct (cm_set batch cm k off sz) as [[cm' oo] os] eqn:E. cbn [fst snd] in Hnext, Hres.
    (* the old value returned by Set is the reference's *)
    assert (Hold : (0 < os)%Z -> oo <> 0).
    { intros Hos.
      destruct (ref_get r k) as [[ro rs]|] eqn:G; injection Hres as -> ->.
      - destruct (Hok k ro rs G). assumption.
      - lia. }
    assert (Hmet : (if negb (oo =? 0) && size_is_valid os
                    then add_del (add_file (maybe_max m k) sz) os
                    else add_file (maybe_max m k) sz) = log_put m k os sz).
    { unfold log_put, log_deletion, size_is_valid, tombstone.
      destruct (Z.ltb_spec 0 os) as [Hos|Hos].
      - specialize (Hold Hos). destruct (N.eqb_spec oo 0); [contradiction|].
        destruct (Z.eqb_spec os (-1)); [lia|]. reflexivity.
      - rewrite andb_false_r. reflexivity. }
    rewrite Hmet.
    apply (IH cm' (ref_put r k (off, sz)) (log_put m k os sz) _ Hnext); auto.
    intros k' off' sz' Hg. rewrite ref_get_put in Hg.
    rewrite m_max_log_put. destruct (N.eqb_spec k' k) as [->|Hne].
    + injection Hg as <- <-. split; [assumption|lia].
    + destruct (Hok k' off' sz' Hg). split; [assumption|lia].
  - (* Delete of a live key *)
    destruct (ref_get r k) as [[ro rs]|] eqn:G; [|discriminate].
    assert (Hlive : (0 < rs)%Z) by lia.
    cbn [nm_step entry_of_op fst]. cbn [fold_left]. rewrite (load_step_tomb batch cm m k off).
    unfold nm_delete. cbn [nm_map nm_met nm_idx].
    rewrite (ref_step_del_live r k off ro rs G Hlive) in Hnext, Hres, Hd2.
    cbn [cm_step] in Hnext, Hres. cbn [fst snd] in Hd2.
    destruct (cm_delete batch cm k) as [cm' ret] eqn:E. cbn [fst snd] in Hnext, Hres.
    injection Hres as ->.
    destruct (Hok k ro rs G) as [Hro Hmax]. rewrite (maybe_max_id m k Hmax).
    assert (Hmet : add_del m rs = log_delete m rs).
    { unfold log_delete, log_deletion. destruct (Z.ltb_spec 0 rs); [reflexivity|lia]. }
    rewrite Hmet.
    apply (IH cm' (ref_put r k (ro, (- rs)%Z)) (log_delete m rs) _ Hnext); auto.
    intros k' off' sz' Hg. rewrite ref_get_put in Hg.
    assert (Hm : m_max (log_delete m rs) = m_max m).
    { unfold log_delete, log_deletion. destruct (0 <? rs)%Z; reflexivity. }
    rewrite Hm. destruct (N.eqb_spec k' k) as [->|Hne].
    + injection Hg as <- <-. split; assumption.
    + apply (Hok k' off' sz' Hg).
  - (* Get *)
    cbn [nm_step entry_of_op fst]. cbn [fold_left]. cbn [ref_step fst] in Hd2. cbn [cm_step ref_step fst] in Hnext.
    apply (IH cm r m idx Hnext); auto.
Qed.

Definition reload_ok (osz batch : N) (ops : list op) : Prop :=
  let s := snd (nm_run osz batch nm0 ops) in
  let s' := do_loading osz batch (nm_idx s) in
  nm_map s' = nm_map s /\ nm_met s' = nm_met s /\ (forall k, nm_get batch s' k = nm_get batch s k).

Theorem reload_partial : forall osz batch ops, ok_osz osz ->
  forallb (op_in_range osz) ops = true -> disciplined ops = true -> trig_empty_put ops = false ->
  reload_ok osz batch ops.
Proof.
  intros osz batch ops Hosz Hr Hd He. unfold reload_ok. cbv zeta.
  pose proof (nm_run_idx osz batch ops nm0) as Hidx. cbn [nm0 nm_idx app] in Hidx.
  unfold do_loading. rewrite Hidx. rewrite walk_encode by (try assumption; apply entries_wf; assumption).
  pose proof (load_matches_run osz batch ops [] [] metric0 [] (refines_nil batch)
                ltac:(intros k off sz H; discriminate) (keys_ok_of_range osz ops Hr) Hd He) as L.
  cbv zeta in L. fold nm0 in L.
  match goal with |- context [fold_left (load_step batch) (entries_of ops) ?init] =>
    replace (fold_left (load_step batch) (entries_of ops) init)
      with (nm_map (snd (nm_run osz batch nm0 ops)), nm_met (snd (nm_run osz batch nm0 ops)))
      by (symmetry; exact L)
  end.
  cbn [nm_map nm_met]. repeat split.
Qed.

(* the full statement fails: an empty put is a file while running and a deletion on reload *)
Definition reload_witness : list op := [Put 1 1 0%Z; Put 2 2 5%Z].

Theorem reload_refuted : exists osz batch ops, ok_osz osz /\
  forallb (op_in_range osz) ops = true /\ disciplined ops = true /\ ~ reload_ok osz batch ops.
Proof.
  exists 4, 100000, reload_witness. split; [left; reflexivity|]. split; [reflexivity|]. split; [reflexivity|].
  intros [_ [H _]]. vm_compute in H. discriminate.
Qed.

(* ---------- the former exception of the refinement, now repaired ---------- *)
(* with a section capacity of 2 three Sets suffice to reach the overflow list; the second Delete
   of the overflow entry returns 0 *)
Definition redelete_witness : list op := [Put 0 1 10%Z; Put 10 2 20%Z; Put 5 3 30%Z; Del 5 9; Del 5 9].

Lemma redelete_witness_ok :
  fst (cm_run 2 [] redelete_witness) = [RSet 0 0%Z; RSet 0 0%Z; RSet 0 0%Z; RDel 30%Z; RDel 0%Z] /\
  map (fun s => length (s_overflow s)) (snd (cm_run 2 [] redelete_witness)) = [1%nat].
Proof. vm_compute. split; reflexivity. Qed.
