(* C04 proofs, part 6: the index-based algorithm never trips the integrity check of the reload;
   the history-level form of "no resurrection"; the refutations as inequalities. *)
From Coq Require Import List NArith ZArith Bool Lia Permutation.
From SW Require Import model.Volume model.Compaction.
From SW Require Import proof.CompactionInv proof.CompactionRead proof.CompactionCopy proof.CompactionMakeup proof.CompactionProofs.
Import ListNotations.
Local Open Scope N_scope.

(* ---------- refutations as inequalities ---------- *)
Lemma refuted_empty_neq :
  Permutation [] (default_ord g4 w_empty_h1 []) /\
  ttl_consistent (g_vttl g4) 1000 (1001 * sec) w_empty_h1 = true /\
  reload_noop g4 Index 1000 [] w_empty_h1 [] = true /\
  read_of (compacted g4 Index 1000 [] w_empty_h1 []) (1001 * sec) 1 <> read_of (twin g4 w_empty_h1 []) (1001 * sec) 1.
Proof.
  destruct refuted_empty as [A [B [D [E F]]]]. repeat split; auto. rewrite E, F. discriminate.
Qed.

Lemma refuted_ttl_neq :
  Permutation [] (default_ord g4 w_ttl_h1 []) /\
  has_empty (w_ttl_h1 ++ []) = false /\
  reload_noop g4 Index 1000 [] w_ttl_h1 [] = true /\
  read_of (compacted g4 Index 1000 [] w_ttl_h1 []) (1001 * sec) 1 <> read_of (twin g4 w_ttl_h1 []) (1001 * sec) 1.
Proof.
  destruct refuted_ttl as [A [B [D [E F]]]]. repeat split; auto. rewrite E, F. discriminate.
Qed.

Lemma refuted_scan_neq :
  Permutation [] (default_ord g4 w_scan_h1 []) /\
  has_empty (w_scan_h1 ++ []) = false /\ ttl_consistent (g_vttl g4) 1000 (1001 * sec) w_scan_h1 = true /\
  read_of (compacted g4 Scan 1000 [] w_scan_h1 []) (1001 * sec) 1 <> read_of (twin g4 w_scan_h1 []) (1001 * sec) 1.
Proof.
  destruct refuted_scan as [A [B [C [_ [E F]]]]]. repeat split; auto. rewrite E, F. discriminate.
Qed.

(* ---------- the newest .idx entry passes the check ---------- *)
Definition tail_ok (R : list rec) (E : N) (I : idxlog) : Prop :=
  match I with [] => True | e :: _ => verify_entry R E e = VOk end.

Lemma tail_ok_noop : forall F, tail_ok (f_recs F) (f_end F) (f_idx F) -> check_noop (check_files F) = true.
Proof.
  intros F H. unfold check_files, tail_ok in *. destruct (f_idx F) as [|e l]; [reflexivity|].
  simpl. rewrite H. reflexivity.
Qed.

(* head of the .idx = head of the .dat, for a running volume without holes *)
Definition tinv (s : cvol) : Prop :=
  match cidx s with
  | [] => True
  | e :: _ =>
      match recs (cv s) with
      | r :: _ => r_off r + actual_size (r_size r) = dat_end (cv s) /\ ie_off e = r_off r /\
                  ((0 <= ie_size e)%Z -> Z.of_N (r_size r) = ie_size e) /\
                  ((ie_size e < 0)%Z -> r_size r = 0 /\ n_id (r_n r) = ie_key e)
      | [] => False
      end
  end.

Definition ev_nopad (ev : cevent) : Prop := match snd ev with CPad _ => False | _ => True end.

Lemma step_tinv : forall vt s ev, cinv s -> tinv s -> ev_nopad ev -> tinv (fst (c_step vt s ev)).
Proof.
  intros vt s ev H T Hn.
  destruct (c_step_adds vt s ev H) as [E|[[n [En E]]|[[id [c [_ [E _]]]]|[off [Ep _]]]]].
  - rewrite E. exact T.
  - rewrite E. unfold tinv. simpl. repeat split; auto; lia.
  - rewrite E. unfold tinv. simpl. repeat split; auto; lia.
  - unfold ev_nopad in Hn. rewrite Ep in Hn. contradiction.
Qed.

Lemma exec_tinv : forall vt h s, cinv s -> tinv s -> (forall ev, In ev h -> ev_nopad ev) -> tinv (c_exec vt s h).
Proof.
  induction h as [|ev h IH]; intros s H T Hn; [exact T|].
  unfold c_exec. simpl. apply IH; [apply c_step_inv; exact H | apply step_tinv; auto; apply Hn; left; reflexivity |].
  intros e He. apply Hn. right. exact He.
Qed.

Lemma no_pad_forall : forall h, no_pad h = true -> forall ev, In ev h -> ev_nopad ev.
Proof.
  intros h H ev Hin. unfold no_pad in H. rewrite forallb_forall in H. specialize (H ev Hin).
  unfold ev_nopad. destruct (snd ev); auto. discriminate.
Qed.

Lemma tinv_tail_ok : forall s, cinv s -> tinv s -> tail_ok (recs (cv s)) (dat_end (cv s)) (cidx s).
Proof.
  intros s H T. unfold tinv, tail_ok in *. destruct (cidx s) as [|e l]; [exact I|].
  destruct (recs (cv s)) as [|r rs] eqn:R; [contradiction|]. destruct T as [Te [To [Tp Tn]]].
  pose proof (ci_sorted _ H) as Hs. rewrite R in Hs.
  destruct (sorted_recs_bound _ _ r Hs (or_introl eq_refl)) as [H8 _].
  unfold verify_entry. assert (O : ie_off e =? 0 = false) by (apply N.eqb_neq; lia). rewrite O.
  destruct (ie_size e <? 0)%Z eqn:S.
  - apply Z.ltb_lt in S. destruct (Tn S) as [Tz Ti]. rewrite Tz in Te. rewrite actual_size_0 in Te.
    rewrite Te, Tz, Ti, !N.eqb_refl. reflexivity.
  - apply Z.ltb_ge in S. specialize (Tp S). simpl. rewrite To, N.eqb_refl, Tp, Z.eqb_refl. simpl.
    rewrite Te, N.eqb_refl. reflexivity.
Qed.

(* --- the index-based copy loop: the largest key is the last record --- *)
Definition tailacc (a : cacc) : Prop :=
  match a_recs a with
  | [] => a_db a = []
  | r :: _ => r_off r + actual_size (r_size r) = a_end a /\
              exists dbl, a_db a = dbl ++ [{| ie_key := n_id (r_n r); ie_off := r_off r; ie_size := Z.of_N (r_size r) |}]
  end.

Lemma index_tail : forall (sel : ientry -> option rec) L a, asc L ->
  (forall x r, In x L -> sel x = Some r -> n_id (r_n r) = ie_key x) ->
  tailacc a -> (forall y x, In y (a_db a) -> In x L -> ie_key y < ie_key x) ->
  tailacc (fold_left (visit sel) L a).
Proof.
  intros sel. induction L as [|x L IH]; intros a Ha Hid T Hb; [exact T|].
  simpl. apply IH.
  - eapply asc_tail; eauto.
  - intros y r Hy. apply Hid. right. exact Hy.
  - unfold visit. destruct (sel x) as [r|] eqn:Sx; [|exact T].
    unfold tailacc. simpl. split; [reflexivity|]. exists (a_db a).
    apply db_set_append. intros y Hy. simpl. rewrite (Hid x r (or_introl eq_refl) Sx). apply Hb; [exact Hy | left; reflexivity].
  - unfold visit. destruct (sel x) as [r|] eqn:Sx.
    + intros y x' Hy Hx'. simpl in Hy.
      rewrite (db_set_append (a_db a)) in Hy.
      * apply in_app_or in Hy. destruct Hy as [Hy|[<-|[]]].
        -- apply Hb; [exact Hy | right; exact Hx'].
        -- simpl. rewrite (Hid x r (or_introl eq_refl) Sx). apply (asc_head_lt L x x' Ha Hx').
      * intros z Hz. simpl. rewrite (Hid x r (or_introl eq_refl) Sx). apply Hb; [exact Hz | left; reflexivity].
    + intros y x' Hy Hx'. apply Hb; [exact Hy | right; exact Hx'].
Qed.

Lemma index_files_tail : forall vt now_s s, cinv s ->
  let F := compact Index vt now_s s in tail_ok (f_recs F) (f_end F) (f_idx F).
Proof.
  intros vt now_s s H. simpl. unfold compact_index.
  rewrite (fold_left_ext_fn _ (visit (sel_index vt now_s (cv s))) _ _ (index_visit_eq vt now_s (cv s))).
  pose proof (index_spec vt now_s s H) as CS. unfold compact_index in CS.
  rewrite (fold_left_ext_fn _ (visit (sel_index vt now_s (cv s))) _ _ (index_visit_eq vt now_s (cv s))) in CS.
  assert (T : tailacc (fold_left (visit (sel_index vt now_s (cv s))) (db_load (cidx s)) acc0)).
  { apply index_tail.
    - apply db_load_asc.
    - intros x r Hin Hsel.
      pose proof (idx_get_nodup _ _ (asc_nodup _ (db_load_asc (cidx s))) Hin) as Hg.
      rewrite db_load_get in Hg. destruct (idx_get (cidx s) (ie_key x)) as [e|] eqn:G; [|discriminate].
      destruct (entry_dead e) eqn:D; [discriminate|]. inversion Hg; subst e.
      destruct (idx_live _ _ _ H G D) as [L _].
      destruct (live_facts _ _ _ _ H L) as [_ [_ [_ [r1 [_ [_ [Hid Hrd]]]]]]].
      unfold sel_index in Hsel. rewrite D, Hrd in Hsel.
      destruct (ttl_dropped vt now_s (view_of_rec r1)); [discriminate|]. inversion Hsel; subst. exact Hid.
    - reflexivity.
    - intros y x []. }
  set (a := fold_left (visit (sel_index vt now_s (cv s))) (db_load (cidx s)) acc0) in *.
  unfold tailacc in T. unfold tail_ok, files_of. cbn [f_recs f_end f_idx].
  destruct (a_recs a) as [|r rs] eqn:R.
  - rewrite T. exact I.
  - destruct T as [Te [dbl Tdb]]. rewrite Tdb. unfold save_idx. rewrite filter_app, rev_app_distr.
    pose proof (cs_sorted _ _ _ _ CS) as Hs. rewrite R in Hs.
    destruct (sorted_recs_bound _ _ r Hs (or_introl eq_refl)) as [H8 _].
    set (e := {| ie_key := n_id (r_n r); ie_off := r_off r; ie_size := Z.of_N (r_size r) |}).
    assert (Dd : entry_dead e = false).
    { unfold entry_dead, e. simpl. apply orb_false_intro; [apply N.eqb_neq; lia|].
      destruct (size_deleted (Z.of_N (r_size r))) eqn:D; [|reflexivity]. apply size_deleted_neg in D. lia. }
    simpl. rewrite Dd. simpl. unfold verify_entry, e. simpl.
    assert (O : r_off r =? 0 = false) by (apply N.eqb_neq; lia). rewrite O.
    assert (S : (Z.of_N (r_size r) <? 0)%Z = false) by (apply Z.ltb_ge; lia). rewrite S.
    rewrite N.eqb_refl, Z.eqb_refl. simpl. rewrite Te, N.eqb_refl. reflexivity.
Qed.

(* --- makeupDiff: the last entry made up is the last record --- *)
Lemma makeup_one_tail : forall old F e, sorted_recs (f_recs F) (f_end F) ->
  ent_src old e ->
  let F' := makeup_one old F e in tail_ok (f_recs F') (f_end F') (f_idx F').
Proof.
  intros old F e Hs Hsrc. simpl. unfold makeup_one. fold (is_upd e). destruct (is_upd e) eqn:U.
  - destruct (Hsrc U) as [r [Hfr Hsz]]. rewrite Hfr. unfold tail_ok. cbn [f_recs f_end f_idx].
    pose proof (sorted_recs_end _ _ Hs) as H8.
    unfold verify_entry. cbn [ie_off ie_size ie_key].
    assert (O : f_end F =? 0 = false) by (apply N.eqb_neq; lia). rewrite O.
    unfold is_upd in U. apply andb_prop in U. destruct U as [_ V]. apply size_valid_pos in V.
    assert (S : (ie_size e <? 0)%Z = false) by (apply Z.ltb_ge; lia). rewrite S.
    simpl. rewrite N.eqb_refl. simpl. rewrite Hsz, Z.eqb_refl. simpl.
    assert (Hzn : Z.to_N (ie_size e) = r_size r) by (rewrite <- Hsz; apply N2Z.id). rewrite Hzn, N.eqb_refl. reflexivity.
  - unfold tail_ok. cbn [f_recs f_end f_idx]. reflexivity.
Qed.

Lemma makeup_tail : forall old d ord F, sorted_recs (f_recs F) (f_end F) -> f_end F mod 8 = 0 ->
  (forall k e, idx_get d k = Some e -> ent_src old e) ->
  (forall k, In k ord -> idx_get d k <> None) ->
  tail_ok (f_recs F) (f_end F) (f_idx F) ->
  let F' := fold_left (mstep old d) ord F in tail_ok (f_recs F') (f_end F') (f_idx F').
Proof.
  intros old d ord F Hs Hm Hsrc Hord T. simpl.
  destruct ord as [|k0 ord0] eqn:Eo; [exact T|]. rewrite <- Eo in *.
  assert (Hne : ord <> []) by (rewrite Eo; discriminate).
  destruct (exists_last Hne) as [ord' [k Hk]]. rewrite Hk in *. rewrite fold_left_app in *. simpl in *.
  set (F1 := fold_left (mstep old d) ord' F) in *.
  pose proof (fold_finv old d ord' F Hs Hm Hsrc) as FI. fold F1 in FI.
  assert (Hin : In k (ord' ++ [k])) by (apply in_or_app; right; left; reflexivity).
  destruct (idx_get d k) as [e|] eqn:G; [|exfalso; apply (Hord k Hin); exact G].
  unfold mstep in *. rewrite G in *.
  apply makeup_one_tail; eauto. apply (fi_sorted _ _ FI).
Qed.

Theorem index_reload_noop : forall g now_s ord h1 h2,
  Permutation ord (default_ord g h1 h2) ->
  no_pad (h1 ++ h2) = true ->
  reload_noop g Index now_s ord h1 h2 = true.
Proof.
  intros g now_s ord h1 h2 P Hnp.
  destruct (setting_intro g ord h1 h2 P) as [s1 [s2 [d S]]].
  destruct S as [E1 E2 I1 I2 G Hd Hdiff Htw Hnd Hord].
  assert (S : setting g ord h1 h2 s1 s2 d) by (constructor; assumption).
  unfold reload_noop. apply tail_ok_noop.
  rewrite (compacted_files_unfold g Index now_s ord h1 h2 s1 s2 d S) in *.
  destruct (makeup_fails (length (cidx s1)) s2).
  - simpl. apply tinv_tail_ok; [exact I2|].
    assert (Hs12 : s2 = c_exec (g_vttl g) cinit (h1 ++ h2)) by (rewrite c_exec_app, <- E1; exact E2).
    rewrite Hs12. apply exec_tinv; [apply cinv_init | exact I | apply no_pad_forall; exact Hnp].
  - pose proof (index_spec (g_vttl g) now_s s1 I1) as CS.
    assert (Hpre : forall k e, idx_get d k = Some e -> idx_get (cidx s2) k = Some e).
    { intros k e Hg. rewrite Hd, idx_get_app, Hg. reflexivity. }
    apply makeup_tail.
    + apply (cs_sorted _ _ _ _ CS).
    + apply (cs_mod8 _ _ _ _ CS).
    + intros k e Hg U. unfold is_upd in U. apply andb_prop in U. destruct U as [U V]. apply andb_prop in U. destruct U as [U1 U2].
      assert (Dd : entry_dead e = false).
      { unfold entry_dead. apply orb_false_intro; [apply negb_true_iff; exact U1|].
        destruct (size_deleted (ie_size e)) eqn:D; [|reflexivity]. apply size_deleted_neg in D. apply size_valid_pos in V. lia. }
      destruct (idx_live _ _ _ I2 (Hpre _ _ Hg) Dd) as [L _].
      destruct (live_facts _ _ _ _ I2 L) as [_ [_ [_ [r [Hf [Hsz _]]]]]]. exists r. auto.
    + intros k Hin. apply Hord. exact Hin.
    + apply index_files_tail. exact I1.
Qed.

(* ---------- no resurrection, stated on the history ---------- *)
Definition gone (s : cvol) (id : N) : Prop :=
  match nm_get (nm (cv s)) id with None => True | Some nv => (nv_size nv < 0)%Z end.
Definition nzid (s : cvol) (id : N) : Prop := forall nv, nm_get (nm (cv s)) id = Some nv -> nv_size nv <> 0%Z.
Definition writable (s : cvol) : Prop := no_write_or_delete (cv s) = false.

Definition ev_ne_on (id : N) (ev : cevent) : Prop :=
  match snd ev with CWrite n => n_id n = id -> blen (n_data n) =? 0 = false | _ => True end.

Lemma step_writable : forall vt s ev, cinv s -> writable s -> writable (fst (c_step vt s ev)).
Proof.
  intros vt s ev H W. unfold writable in *.
  destruct (c_step_adds vt s ev H) as [E|[[n [_ E]]|[[id [c [_ [E _]]]]|[off [Ep _]]]]]; try (rewrite E; simpl; exact W).
  destruct ev as [t o]. simpl in Ep. subst o. unfold c_step. cbn [fst snd]. unfold c_pad.
  destruct (dat_end (cv s) <? round8 off); simpl; exact W.
Qed.

Lemma step_nzid : forall vt s ev id, cinv s -> nzid s id -> ev_ne_on id ev -> nzid (fst (c_step vt s ev)) id.
Proof.
  intros vt s ev id H Hz Hne.
  destruct (c_step_adds vt s ev H) as [E|[[n [En E]]|[[k [c [_ [E [nv [Gk V]]]]]]|[off [_ [L [R [M [I D]]]]]]]]].
  - rewrite E. exact Hz.
  - rewrite E. intros v. simpl. destruct (n_id (adjust vt n) =? id) eqn:Eq.
    + intro Hv. inversion Hv; subst. simpl. unfold ev_ne_on in Hne. rewrite En in Hne.
      apply N.eqb_eq in Eq. rewrite adjust_id in Eq. specialize (Hne Eq).
      pose proof (needle_size_pos (adjust vt n)) as Hp. rewrite adjust_data in Hp. specialize (Hp Hne). lia.
    + apply Hz.
  - rewrite E. intros v. simpl. unfold nm_delete. rewrite Gk, V. simpl. destruct (k =? id).
    + intro Hv. inversion Hv; subst. simpl. apply size_valid_pos in V. lia.
    + apply Hz.
  - intros v. rewrite M. apply Hz.
Qed.

Lemma step_other : forall vt s ev id, cinv s -> mentions id ev = false ->
  nm_get (nm (cv (fst (c_step vt s ev)))) id = nm_get (nm (cv s)) id.
Proof.
  intros vt s ev id H Hm. unfold mentions in Hm.
  destruct (c_step_adds vt s ev H) as [E|[[n [En E]]|[[k [c [Ek [E _]]]]|[off [_ [L [R [M _]]]]]]]].
  - rewrite E. reflexivity.
  - rewrite E. simpl. rewrite En in Hm. rewrite adjust_id, Hm. reflexivity.
  - rewrite E. simpl. rewrite Ek in Hm. apply nm_get_delete_neq. apply N.eqb_neq. exact Hm.
  - rewrite M. reflexivity.
Qed.

Lemma exec_other : forall vt h s id, cinv s -> existsb (mentions id) h = false ->
  nm_get (nm (cv (c_exec vt s h))) id = nm_get (nm (cv s)) id.
Proof.
  induction h as [|ev h IH]; intros s id H Hm; [reflexivity|].
  simpl in Hm. apply orb_false_elim in Hm. destruct Hm as [M1 M2].
  unfold c_exec. simpl. fold (c_exec vt (fst (c_step vt s ev)) h).
  rewrite IH by (try apply c_step_inv; assumption). apply step_other; assumption.
Qed.

Lemma delete_gone : forall s id c t, writable s -> nzid s id -> gone (fst (fst (c_delete s id c t))) id.
Proof.
  intros s id c t W Hz. unfold c_delete. unfold writable in W. rewrite W. unfold gone.
  destruct (nm_get (nm (cv s)) id) as [nv|] eqn:G; [|simpl; rewrite G; exact I].
  destruct (size_valid (nv_size nv)) eqn:V.
  - simpl. unfold nm_delete. rewrite G, V. simpl. rewrite N.eqb_refl. simpl. apply size_valid_pos in V. lia.
  - simpl. rewrite G. specialize (Hz nv G).
    destruct (Z_lt_le_dec (nv_size nv) 0) as [Hn|Hn]; [exact Hn|].
    assert ((0 < nv_size nv)%Z) by lia. apply size_valid_pos in H. congruence.
Qed.

Lemma history_gone : forall vt h s id, cinv s -> writable s -> nzid s id ->
  last_is_delete id h = true -> (forall ev, In ev h -> ev_ne_on id ev) -> gone (c_exec vt s h) id.
Proof.
  induction h as [|ev h IH]; intros s id H W Hz Hl Hne; [discriminate|].
  simpl in Hl. unfold c_exec. simpl. fold (c_exec vt (fst (c_step vt s ev)) h).
  destruct (existsb (mentions id) h) eqn:M.
  - apply IH; auto.
    + apply c_step_inv; exact H.
    + apply step_writable; assumption.
    + apply step_nzid; auto. apply Hne. left. reflexivity.
    + intros e He. apply Hne. right. exact He.
  - unfold gone. rewrite exec_other by (try apply c_step_inv; assumption).
    destruct ev as [t o]. simpl in Hl. destruct o as [n|k c|off]; try discriminate.
    apply N.eqb_eq in Hl. subst k. unfold c_step. cbn [fst snd]. apply delete_gone; assumption.
Qed.

Lemma no_empty_on_forall : forall id h, no_empty_on id h = true -> forall ev, In ev h -> ev_ne_on id ev.
Proof.
  intros id h H ev Hin. unfold no_empty_on in H. rewrite forallb_forall in H. specialize (H ev Hin).
  unfold ev_ne_on. destruct (snd ev) as [n| |]; auto. intro Hid. apply orb_prop in H. destruct H as [H|H].
  - apply negb_true_iff, N.eqb_neq in H. contradiction.
  - apply negb_true_iff. exact H.
Qed.

(* the newest .idx entry of the key is missing or a deletion: nothing to read after the commit *)
Lemma no_resurrect_absent : forall g al now_s now_r ord h1 h2 id,
  Permutation ord (default_ord g h1 h2) ->
  nm_get (nm (twin g h1 h2)) id = None ->
  read_of (compacted g al now_s ord h1 h2) now_r id = None.
Proof.
  intros g al now_s now_r ord h1 h2 id P Gn.
  destruct (setting_intro g ord h1 h2 P) as [s1 [s2 [d S]]].
  destruct S as [E1 E2 I1 I2 G Hd Hdiff Htw Hnd Hord].
  assert (S : setting g ord h1 h2 s1 s2 d) by (constructor; assumption).
  rewrite Htw in Gn.
  assert (Hno : idx_get (cidx s2) id = None).
  { pose proof (ci_ent _ I2 id) as He. unfold ent_ok in He. rewrite Gn in He. exact He. }
  unfold read_of, compacted. apply read_dead. apply commit_dead. left.
  rewrite (compacted_files_unfold g al now_s ord h1 h2 s1 s2 d S).
  destruct (makeup_fails (length (cidx s1)) s2); [exact Hno|].
  rewrite files_of_compact.
  set (a := match al with Scan => compact_scan (g_vttl g) now_s s1 | Index => compact_index (g_vttl g) now_s s1 end) in *.
  pose proof (compact_spec al (g_vttl g) now_s s1 I1) as CS. fold a in CS. destruct CS as [Cs Ca Cm Csome Cnone].
  rewrite Hd, idx_get_app in Hno.
  destruct (idx_get d id) as [e|] eqn:Gd; [discriminate|].
  pose proof (makeup_idx (cv s2) d ord (files_of a) id Hnd) as MI. cbv zeta in MI. rewrite Gd in MI.
  rewrite MI. change (f_idx (files_of a)) with (save_idx (a_db a)). rewrite save_idx_get by exact Ca.
  destruct (idx_get (a_db a) id) as [e0|] eqn:G0; [|reflexivity]. exfalso.
  destruct (Csome id e0 G0) as [_ [_ [[nv1 [G1 Hpos]] _]]].
  pose proof (ci_ent _ I1 id) as He. unfold ent_ok in He. rewrite G1 in He. destruct He as [_ He].
  assert (Hb : (0 <=? nv_size nv1)%Z = true) by (apply Z.leb_le; exact Hpos). rewrite Hb in He. destruct He as [Hi1 _].
  congruence.
Qed.

Theorem no_resurrect_history : forall g al now_s now_r ord h1 h2 id,
  Permutation ord (default_ord g h1 h2) ->
  last_is_delete id (h1 ++ h2) = true ->
  no_empty_on id (h1 ++ h2) = true ->
  read_of (compacted g al now_s ord h1 h2) now_r id = None.
Proof.
  intros g al now_s now_r ord h1 h2 id P Hl Hne.
  assert (Hg : gone (c_exec (g_vttl g) cinit (h1 ++ h2)) id).
  { apply history_gone; auto.
    - apply cinv_init.
    - reflexivity.
    - intros nv Hn. simpl in Hn. discriminate.
    - apply no_empty_on_forall. exact Hne. }
  unfold gone in Hg. fold (twin g h1 h2) in Hg.
  destruct (nm_get (nm (twin g h1 h2)) id) as [nv|] eqn:Gn.
  - apply no_resurrect; [exact P|]. exists nv. auto.
  - apply no_resurrect_absent; assumption.
Qed.
