(* C12, registration clause and free slots (additions after the audit).
   - what a full volume heartbeat leaves registered (finding 1 and its partial theorem);
   - the narrowed trigger of finding 0 lies inside the trigger of the counting theorem;
   - free slots are exact whenever the counters are;
   - a generic "every state of a trigger-free run" lemma. *)
From Coq Require Import String List ZArith NArith Bool Arith Lia.
From SW Require Import model.TopoPlace model.TopoCount proof.TopoPlaceProofs proof.TopoCountProofs.
Import ListNotations.
Local Open Scope Z_scope.

(* ================================================================== *)
(* 1. (id, disk) registered on a data node, through [info]             *)
(* ================================================================== *)
Definition has_id (id : N) (l : list vinfo) : bool := existsb (fun v => N.eqb (v_id v) id) l.
Definition vreg (st : state) (n : path) (id : N) (d : string) : bool :=
  has_id id (i_vols (info st (n ++ [d]))).
Definition hits (id : N) (d : string) (v : vinfo) : bool := String.eqb (v_disk v) d && N.eqb (v_id v) id.

Lemma has_id_put : forall id v l, has_id id (put_vol v l) = N.eqb (v_id v) id || has_id id l.
Proof.
  intros id v. unfold has_id. induction l as [|x l IH]; cbn [put_vol existsb]; [reflexivity|].
  destruct (N.eqb (v_id x) (v_id v)) eqn:E; cbn [existsb].
  - apply N.eqb_eq in E. rewrite E. destruct (N.eqb (v_id v) id); reflexivity.
  - rewrite IH. destruct (N.eqb (v_id x) id), (N.eqb (v_id v) id); reflexivity.
Qed.

Lemma has_id_remove : forall id id' l, has_id id (remove_vol id' l) = negb (N.eqb id' id) && has_id id l.
Proof.
  intros id id'. unfold has_id, remove_vol.
  induction l as [|x l IH]; cbn [filter existsb]; [rewrite andb_false_r; reflexivity|].
  destruct (N.eqb (v_id x) id') eqn:E; cbn [negb existsb].
  - rewrite IH. apply N.eqb_eq in E. rewrite E.
    destruct (N.eqb id' id); reflexivity.
  - rewrite IH. destruct (N.eqb (v_id x) id) eqn:E2; cbn [orb]; [|reflexivity].
    apply N.eqb_eq in E2. rewrite E2 in E. rewrite N.eqb_sym, E. reflexivity.
Qed.

Lemma path_eqb_last : forall (n : path) a b, path_eqb (n ++ [a]) (n ++ [b]) = String.eqb a b.
Proof.
  induction n as [|x n IH]; intros a b; simpl.
  - apply andb_true_r.
  - rewrite String.eqb_refl. simpl. apply IH.
Qed.

Lemma vols_add : forall st n v k,
  i_vols (info (add_or_update_volume st n v) k) =
  if path_eqb (n ++ [v_disk v]) k then put_vol v (i_vols (info st k)) else i_vols (info st k).
Proof.
  intros st n v k. unfold add_or_update_volume.
  pose proof (goc_present st n (v_disk v)) as P.
  assert (G : forall k, i_vols (info (get_or_create_disk st n (v_disk v)) k) = i_vols (info st k))
    by (intro k0; apply (proj1 (info_goc_payload st n (v_disk v) k0))).
  set (st1 := get_or_create_disk st n (v_disk v)) in *. set (q := n ++ [v_disk v]) in *.
  destruct (find_vol (v_id v) (i_vols (info st1 q))) as [oldV|].
  - destruct (Bool.eqb (v_remote oldV) (v_remote v)).
    + rewrite info_upd. apply present_in in P. rewrite P.
      destruct (path_eqb q k) eqn:E; [|apply G]. apply path_eqb_eq in E. subst k. simpl. rewrite G. reflexivity.
    + rewrite info_upd.
      assert (P' : present (up_adjust st1 q [(to_dt (v_disk v),
                     mkCounts 0 (if v_remote oldV then -1 else if v_remote v then 1 else 0) 0 0 0)]) q = true).
      { apply present_in. rewrite keys_up_adjust. exact P. }
      rewrite P'. destruct (path_eqb q k) eqn:E.
      * apply path_eqb_eq in E. subst k. simpl. rewrite vols_up_adjust, G. reflexivity.
      * rewrite vols_up_adjust. apply G.
  - rewrite vols_up_adjust, info_upd. apply present_in in P. rewrite P.
    destruct (path_eqb q k) eqn:E; [|apply G]. apply path_eqb_eq in E. subst k. simpl. rewrite G. reflexivity.
Qed.

Lemma vreg_add : forall st n v id d,
  vreg (add_or_update_volume st n v) n id d = hits id d v || vreg st n id d.
Proof.
  intros. unfold vreg, hits. rewrite vols_add, path_eqb_last.
  destruct (String.eqb (v_disk v) d); simpl; [apply has_id_put|reflexivity].
Qed.

Lemma vreg_delete : forall st n v id d,
  vreg (delete_volume st n v) n id d = negb (hits id d v) && vreg st n id d.
Proof.
  intros. unfold vreg, hits. rewrite delete_volume_vols, path_eqb_last.
  destruct (String.eqb (v_disk v) d); simpl; [apply has_id_remove|reflexivity].
Qed.

Lemma vreg_add_fold : forall n id d l st,
  vreg (fold_left (fun s v => add_or_update_volume s n v) l st) n id d = existsb (hits id d) l || vreg st n id d.
Proof.
  intros n id d. induction l as [|v l IH]; intros st; simpl; [reflexivity|].
  rewrite IH, vreg_add. destruct (existsb (hits id d) l), (hits id d v); reflexivity.
Qed.

Lemma vreg_del_fold : forall n id d l st,
  vreg (fold_left (fun s v => delete_volume s n v) l st) n id d = negb (existsb (hits id d) l) && vreg st n id d.
Proof.
  intros n id d. induction l as [|v l IH]; intros st; simpl; [reflexivity|].
  rewrite IH, vreg_delete. destruct (existsb (hits id d) l), (hits id d v); reflexivity.
Qed.

(* what is registered after DataNode.UpdateVolumes, for EVERY input *)
Theorem update_volumes_vreg : forall st n actual id d,
  vreg (update_volumes st n actual) n id d =
  existsb (hits id d) actual ||
  (negb (existsb (hits id d)
           (filter (fun v => negb (existsb (fun a => N.eqb (v_id a) (v_id v)) actual)) (node_volumes st n))) &&
   vreg st n id d).
Proof.
  intros. unfold update_volumes. rewrite fold_left_cond, vreg_add_fold, vreg_del_fold. reflexivity.
Qed.

(* ---- [node_volumes] and [vreg] see the same registrations ---- *)
Lemma node_volumes_complete : forall st n d v, Struct st ->
  In v (i_vols (info st (n ++ [d]))) -> In v (node_volumes st n) /\ v_disk v = d.
Proof.
  intros st n d v Hs Hv.
  assert (Hk : In (n ++ [d]) (keys st)).
  { destruct (in_dec (list_eq_dec string_dec) (n ++ [d]) (keys st)) as [H|H]; auto.
    rewrite (info_absent st _ H) in Hv. destruct Hv. }
  split; [|apply (payload_disk_vol st (n ++ [d]) v n d Hs Hk Hv eq_refl)].
  unfold node_volumes, disks_of. apply in_flat_map.
  pose proof Hk as Hk'. unfold keys in Hk'. apply in_map_iff in Hk'. destruct Hk' as [[k i] [Ek Hin]]. simpl in Ek. subst k.
  exists (n ++ [d], i). split.
  - apply filter_In. split; auto. simpl. apply is_child_of_spec. exists d. reflexivity.
  - simpl. rewrite <- (info_in st (n ++ [d]) i (s_nodup _ Hs) Hin). exact Hv.
Qed.

Lemma has_id_in : forall id l, has_id id l = true <-> exists v, In v l /\ v_id v = id.
Proof.
  intros. unfold has_id. rewrite existsb_exists. split; intros [v [H1 H2]]; exists v; split; auto.
  - apply N.eqb_eq. exact H2.
  - apply N.eqb_eq. exact H2.
Qed.

Lemma mem_pair_vpairs : forall id d l,
  mem_pair (id, d) (vpairs l) = true <-> exists v, In v l /\ v_id v = id /\ v_disk v = d.
Proof.
  intros. unfold mem_pair, vpairs. rewrite existsb_exists. split.
  - intros [x [Hx E]]. apply in_map_iff in Hx. destruct Hx as [v [Ev Hv]]. subst x.
    unfold vpair_eqb in E. simpl in E. apply andb_prop in E. destruct E as [E1 E2].
    apply N.eqb_eq in E1. apply String.eqb_eq in E2. exists v. auto.
  - intros [v [Hv [E1 E2]]]. exists (v_id v, v_disk v). split.
    + apply in_map_iff. exists v. auto.
    + unfold vpair_eqb. simpl. subst. rewrite N.eqb_refl, String.eqb_refl. reflexivity.
Qed.

Lemma hits_exists : forall id d l,
  existsb (hits id d) l = true <-> exists v, In v l /\ v_id v = id /\ v_disk v = d.
Proof.
  intros. rewrite existsb_exists. unfold hits. split; intros [v [Hv H]]; exists v; split; auto.
  - apply andb_prop in H. destruct H as [H1 H2]. apply String.eqb_eq in H1. apply N.eqb_eq in H2. auto.
  - destruct H as [H1 H2]. subst. rewrite String.eqb_refl, N.eqb_refl. reflexivity.
Qed.

(* c12_fullvol_registered_partial: outside finding 1 a full volume heartbeat leaves exactly the
   reported (id, disk) set registered *)
Theorem full_vol_registered : forall st r n actual, Inv st r -> In n (keys st) -> length n = 3%nat ->
  trig_vol_moved st n actual = false ->
  reg_vol_ok (update_volumes st n actual) n actual = true.
Proof.
  intros st r n actual Hi Hn Hl Ht.
  destruct (update_volumes_inv st r n actual Hi Hn Hl) as [Hi' _].
  pose proof (i_struct _ _ Hi) as Hs. pose proof (i_struct _ _ Hi') as Hs'.
  set (st' := update_volumes st n actual) in *.
  unfold reg_vol_ok, same_pairs. apply andb_true_intro. split.
  - apply forallb_forall. intros [id d] Hx.
    unfold vpairs in Hx. apply in_map_iff in Hx. destruct Hx as [v' [Ev Hv']]. inversion Ev; subst id d. clear Ev.
    destruct (node_volumes_spec st' n Hs') as [Hreg _]. destruct (Hreg v' Hv') as [Hin _].
    assert (R : vreg st' n (v_id v') (v_disk v') = true).
    { unfold vreg. apply has_id_in. exists v'. auto. }
    unfold st' in R. rewrite update_volumes_vreg in R.
    apply mem_pair_vpairs.
    apply orb_prop in R. destruct R as [R|R]; [apply hits_exists; exact R|].
    apply andb_prop in R. destruct R as [Rdel Rreg].
    unfold vreg in Rreg. apply has_id_in in Rreg. destruct Rreg as [v [Hv Eid]].
    destruct (node_volumes_complete st n (v_disk v') v Hs Hv) as [Hnv Ed].
    (* v is registered, and was not deleted: its id is in the message *)
    assert (Hidin : existsb (fun a => N.eqb (v_id a) (v_id v)) actual = true).
    { destruct (existsb (fun a => N.eqb (v_id a) (v_id v)) actual) eqn:X; auto. exfalso.
      apply negb_true_iff in Rdel.
      assert (Y : existsb (hits (v_id v') (v_disk v'))
                    (filter (fun v => negb (existsb (fun a => N.eqb (v_id a) (v_id v)) actual)) (node_volumes st n)) = true).
      { apply hits_exists. exists v. split; [|auto]. apply filter_In. split; auto. rewrite X. reflexivity. }
      congruence. }
    (* no trigger: then it is reported on its disk *)
    unfold trig_vol_moved in Ht.
    assert (Z0 : (existsb (fun a => N.eqb (v_id a) (v_id v)) actual &&
                  negb (existsb (fun a => N.eqb (v_id a) (v_id v) && String.eqb (v_disk a) (v_disk v)) actual)) = false).
    { destruct (existsb (fun a => N.eqb (v_id a) (v_id v)) actual &&
                negb (existsb (fun a => N.eqb (v_id a) (v_id v) && String.eqb (v_disk a) (v_disk v)) actual)) eqn:X; auto.
      assert (Y : existsb (fun v => existsb (fun a => N.eqb (v_id a) (v_id v)) actual &&
                     negb (existsb (fun a => N.eqb (v_id a) (v_id v) && String.eqb (v_disk a) (v_disk v)) actual))
                    (node_volumes st n) = true).
      { apply existsb_exists. exists v. split; auto. }
      congruence. }
    rewrite Hidin in Z0. simpl in Z0. apply negb_false_iff in Z0.
    apply existsb_exists in Z0. destruct Z0 as [a [Ha Ea]]. apply andb_prop in Ea. destruct Ea as [E1 E2].
    apply N.eqb_eq in E1. apply String.eqb_eq in E2. exists a. split; auto. split; congruence.
  - apply forallb_forall. intros [id d] Hx.
    unfold vpairs in Hx. apply in_map_iff in Hx. destruct Hx as [a [Ea Ha]]. inversion Ea; subst id d. clear Ea.
    assert (R : vreg st' n (v_id a) (v_disk a) = true).
    { unfold st'. rewrite update_volumes_vreg. apply orb_true_iff. left. apply hits_exists. exists a. auto. }
    unfold vreg in R. apply has_id_in in R. destruct R as [v [Hv Eid]].
    destruct (node_volumes_complete st' n (v_disk a) v Hs' Hv) as [Hnv Ed].
    apply mem_pair_vpairs. exists v. auto.
Qed.

(* the same for a whole step *)
Theorem step_full_vol_registered : forall st r o order, Inv st r -> step_k1 st o = false ->
  match o with FullVol _ _ => step_reg_ok st (step order st o) o = true | _ => True end.
Proof.
  intros st r o order Hi Hk. destruct o; auto.
  unfold step_reg_ok, step_k1, addressed, step in *. cbn [op_node] in *.
  destruct (present st n && Nat.eqb (length n) 3) eqn:P; cbn [negb orb]; auto.
  simpl in Hk. apply andb_prop in P. destruct P as [P L]. apply present_in in P. apply Nat.eqb_eq in L.
  apply (full_vol_registered st r n vols Hi P L Hk).
Qed.

(* ================================================================== *)
(* 2. the narrowed trigger of finding 0 is inside the proved one       *)
(* ================================================================== *)
Lemma dup_on_disk_nodup : forall l, NoDup (map e_id l) -> dup_on_disk l = [].
Proof.
  induction l as [|a l IH]; intros H; simpl; [reflexivity|].
  inversion H; subst.
  destruct (existsb (fun b => N.eqb (e_id b) (e_id a) && String.eqb (e_disk b) (e_disk a)) l) eqn:E; [|auto].
  exfalso. apply existsb_exists in E. destruct E as [b [Hb Eb]]. apply andb_prop in Eb. destruct Eb as [E1 _].
  apply N.eqb_eq in E1. apply H2. rewrite <- E1. apply in_map. exact Hb.
Qed.

Theorem narrow_in_wide : forall st n actual,
  trig_ec_irregular st n actual = false -> trig_ec_narrow st n actual = false.
Proof.
  intros st n actual H. unfold trig_ec_irregular in H. unfold trig_ec_narrow. cbv zeta.
  apply orb_false_iff in H. destruct H as [H C2]. apply orb_false_iff in H. destruct H as [C1 _].
  rewrite C2. simpl.
  apply negb_false_iff in C1. apply (nodupb_sound _ N.eqb N.eqb_eq) in C1.
  rewrite (dup_on_disk_nodup actual C1). reflexivity.
Qed.

(* ================================================================== *)
(* 3. every state of a trigger-free run; free slots                    *)
(* ================================================================== *)
Fixpoint all2 (Q : state -> ref_state -> bool) (states : list state) (refs : list ref_state) : bool :=
  match states, refs with
  | s :: states', r :: refs' => Q s r && all2 Q states' refs'
  | _, _ => true
  end.

Theorem run_all : forall (Q : state -> ref_state -> bool), (forall st r, Inv st r -> Q st r = true) ->
  forall ops orders st r, Inv st r -> forallb wf_op ops = true ->
  first_trigger orders st ops = None ->
  all2 Q (run orders st ops) (ref_run r ops) = true.
Proof.
  intros Q HQ. induction ops as [|o ops IH]; intros orders st r Hi Hwf Ht; [reflexivity|].
  simpl in Hwf. apply andb_prop in Hwf. destruct Hwf as [Hw1 Hw2].
  cbn [first_trigger] in Ht. destruct (trigger st o) eqn:T; [discriminate|].
  cbn [run ref_run all2].
  pose proof (step_inv st r o (hd [] orders) Hi Hw1 T) as Hi'.
  rewrite (HQ _ _ Hi'). simpl. apply IH; auto.
Qed.

Lemma inv_free_exact : forall st r, Inv st r -> free_exact_b st r = true.
Proof.
  intros st r Hi. pose proof (inv_exact_b st r Hi) as Hx.
  unfold exact_b in Hx. unfold free_exact_b. cbv zeta in *.
  apply forallb_forall. intros e He. apply forallb_forall. intros t Ht.
  rewrite forallb_forall in Hx. specialize (Hx e He). rewrite forallb_forall in Hx. specialize (Hx t Ht).
  unfold exact_at in Hx. cbv zeta in Hx.
  apply andb_prop in Hx. destruct Hx as [Hx _].
  apply andb_prop in Hx. destruct Hx as [Hx X4].
  apply andb_prop in Hx. destruct Hx as [Hx X3].
  apply andb_prop in Hx. destruct Hx as [X1 X2].
  apply Z.eqb_eq in X1, X2, X3, X4.
  apply Z.eqb_eq. unfold free_space, recomputed. cbv zeta. simpl.
  rewrite X1, X2, X3, X4. reflexivity.
Qed.

Theorem run_free_exact : forall ops orders, forallb wf_op ops = true ->
  first_trigger orders init_state ops = None ->
  all2 free_exact_b (run orders init_state ops) (ref_run [] ops) = true.
Proof. intros ops orders. apply (run_all free_exact_b inv_free_exact ops orders init_state [] init_inv). Qed.

(* the registration clause of full VOLUME heartbeats along a run; [excuse] = finding 1's trigger
   excuses the event *)
Fixpoint reg_run (excuse : bool) (orders : list (list nat)) (st : state) (ops : list op) : bool :=
  match ops with
  | [] => true
  | o :: ops' =>
      let st' := step (hd [] orders) st o in
      (match o with FullVol _ _ => (excuse && step_k1 st o) || step_reg_ok st st' o | _ => true end) &&
      reg_run excuse (tl orders) st' ops'
  end.

Theorem run_full_vol_registered : forall ops orders st r, Inv st r -> forallb wf_op ops = true ->
  first_trigger orders st ops = None ->
  reg_run true orders st ops = true.
Proof.
  induction ops as [|o ops IH]; intros orders st r Hi Hwf Ht; [reflexivity|].
  simpl in Hwf. apply andb_prop in Hwf. destruct Hwf as [Hw1 Hw2].
  cbn [first_trigger] in Ht. destruct (trigger st o) eqn:T; [discriminate|].
  cbn [reg_run]. cbv zeta.
  pose proof (step_inv st r o (hd [] orders) Hi Hw1 T) as Hi'.
  apply andb_true_intro. split; [|apply (IH _ _ _ Hi'); auto].
  destruct (step_k1 st o) eqn:K; [destruct o; reflexivity|].
  pose proof (step_full_vol_registered st r o (hd [] orders) Hi K) as X.
  destruct o; auto.
Qed.

(* ================================================================== *)
(* 4. witnesses (closed by computation here, quoted by props/C12.v)    *)
(* ================================================================== *)
Definition w_n1 : path := ["dc1"; "r1"; "n1:80"]%string.
Definition w_join (maxs : list (string * Z)) : op := Join "dc1" "r1" "n1:80" maxs.
Definition refutes (k : N) (ops : list op) : Prop :=
  forallb wf_op ops = true /\ first_trigger [] init_state ops = Some k /\
  all_exact (run [] init_state ops) (ref_run [] ops) = false.
Definition repaired (ops : list op) : Prop :=
  forallb wf_op ops = true /\ first_trigger [] init_state ops = None /\
  all_exact (run [] init_state ops) (ref_run [] ops) = true.

Definition w_ec_dup : list op := [w_join [(""%string, 10)]; FullEc w_n1 [mkE 1 "" 1; mkE 1 "" 2]].
Definition w_ec_moved : list op :=
  [w_join [(""%string, 10); ("ssd"%string, 4)]; FullEc w_n1 [mkE 1 "" 1]; FullEc w_n1 [mkE 1 "ssd" 3]].
Lemma refuted_ec_duplicate : refutes 0 w_ec_dup.
Proof. exact (conj eq_refl (conj eq_refl eq_refl)). Qed.
Lemma refuted_ec_moved : refutes 0 w_ec_moved.
Proof. exact (conj eq_refl (conj eq_refl eq_refl)). Qed.
(* both witnesses are inside the NARROWED trigger as well *)
Lemma ec_witnesses_narrow :
  step_k0 (last (run [] init_state (removelast w_ec_dup)) init_state) (last w_ec_dup (Unregister [])) = true /\
  step_k0 (last (run [] init_state (removelast w_ec_moved)) init_state) (last w_ec_moved (Unregister [])) = true.
Proof. split; vm_compute; reflexivity. Qed.

(* finding 1: one volume, re-reported on another disk type of the same server, is registered and
   counted on both disks; no counter is inexact (the counting theorem applies: no trigger of
   finding 0), the registration clause fails *)
Definition w_vol_moved : list op :=
  [w_join [(""%string, 10); ("ssd"%string, 4)];
   FullVol w_n1 [mkV 1 "" false false];
   FullVol w_n1 [mkV 1 "ssd" false false]].
Lemma refuted_vol_moved :
  forallb wf_op w_vol_moved = true /\ first_trigger [] init_state w_vol_moved = None /\
  reg_run false [] init_state w_vol_moved = false /\
  reg_run true [] init_state w_vol_moved = true /\
  (exists s, nth_error (run [] init_state w_vol_moved) 2 = Some s /\
             vpairs (node_volumes s w_n1) = [(1%N, ""%string); (1%N, "ssd"%string)] /\
             volumeCount (U s [] ""%string) = 1 /\ volumeCount (U s [] "ssd"%string) = 1).
Proof.
  split; [vm_compute; reflexivity|]. split; [vm_compute; reflexivity|].
  split; [vm_compute; reflexivity|]. split; [vm_compute; reflexivity|].
  eexists. split; [vm_compute; reflexivity|]. repeat split; vm_compute; reflexivity.
Qed.

Lemma repaired_witnesses :
  repaired [w_join [(""%string, 10)]; IncVol w_n1 [] [(7%N, ""%string)]] /\
  repaired [w_join [(""%string, 10)]; FullEc w_n1 [mkE 1 "" 1; mkE 2 "" 1]; FullEc w_n1 [mkE 1 "" 3; mkE 2 "" 3]] /\
  repaired [w_join [(""%string, 10); ("ssd"%string, 5)]; AdjustMax w_n1 [(""%string, 12); ("ssd"%string, 8)]] /\
  repaired [w_join [(""%string, 10)]; FullVol w_n1 [mkV 1 "" true true]; IncVol w_n1 [] [(1%N, ""%string)]].
Proof. repeat split; vm_compute; reflexivity. Qed.

(* non-vacuity: a trigger-free history with two servers, two disk types, volumes (one remote, one
   created by volume growth), EC shards (two EC volumes changing in one full heartbeat), max counts
   of two disk types changing at once, a stale and a remote incremental delete and an unregistration *)
Definition ex_n2 : path := ["dc1"; "r2"; "n2:80"]%string.
Definition ex_history : list op :=
  [ w_join [(""%string, 5); ("ssd"%string, 3)];
    FullVol w_n1 [mkV 1 "" false false; mkV 2 "ssd" true true];
    IncVol w_n1 [(3%N, ""%string)] [(1%N, ""%string); (9%N, ""%string)];
    FullEc w_n1 [mkE 10 "" 3; mkE 11 "ssd" 1];
    IncEc w_n1 [mkE 10 "" 4] [mkE 10 "" 1];
    FullEc w_n1 [mkE 10 "" 14; mkE 11 "ssd" 3];
    AdjustMax w_n1 [(""%string, 7); ("ssd"%string, 6)];
    Join "dc1" "r2" "n2:80" [(""%string, 4)];
    FullVol ex_n2 [mkV 3 "" false false];
    Grow ex_n2 (mkV 4 "" false false);
    FullVol w_n1 [mkV 2 "ssd" true true; mkV 3 "" false false];
    Unregister w_n1 ].
Lemma example_history :
  forallb wf_op ex_history = true /\ first_trigger [] init_state ex_history = None /\
  all_exact (run [] init_state ex_history) (ref_run [] ex_history) = true /\
  all2 free_exact_b (run [] init_state ex_history) (ref_run [] ex_history) = true /\
  reg_run false [] init_state ex_history = true /\
  (exists s, nth_error (run [] init_state ex_history) 6 = Some s /\
             volumeCount (U s [] ""%string) = 1 /\ remoteVolumeCount (U s [] "ssd"%string) = 1 /\
             ecShardCount (U s ["dc1"%string] ""%string) = 3 /\ ecShardCount (U s ["dc1"%string] "ssd"%string) = 2 /\
             maxVolumeCount (U s w_n1 ""%string) = 7 /\ maxVolumeCount (U s w_n1 "ssd"%string) = 6 /\
             free_space (U s w_n1 ""%string) = 5 /\ free_space (U s w_n1 "ssd"%string) = 5).
Proof.
  split; [vm_compute; reflexivity|]. split; [vm_compute; reflexivity|]. split; [vm_compute; reflexivity|].
  split; [vm_compute; reflexivity|]. split; [vm_compute; reflexivity|].
  eexists. split; [vm_compute; reflexivity|]. repeat split; vm_compute; reflexivity.
Qed.
