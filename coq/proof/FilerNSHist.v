(* Proofs about model/FilerNS.v (C18): the rename statements, histories, the reference namespace. *)
From Coq Require Import List NArith Bool String Arith Lia Permutation.
From SW Require Import model.FilerNS proof.FilerNSBase proof.FilerNSCreate proof.FilerNSDelete proof.FilerNSRename.
Import ListNotations.
Local Open Scope list_scope.

(* ================= what the reference rename yields on a well-formed namespace ================= *)
Lemma ref_rename_cases : forall s od on nd nn se re, wf s ->
  ref_rename s od on nd nn = Some (se, re) ->
  (se = s /\ (re <> OK \/ child od on = child nd nn)) \/
  (exists eo, find s (child od on) = Some eo /\ se = ref_move s (child od on) (child nd nn) eo /\ re = OK /\
     disjoint (child od on) (child nd nn) /\
     (forall m r, find s (child nd nn ++ m :: r) = None) /\
     (forall en, find s (child nd nn) = Some en -> e_dir en = e_dir eo) /\
     has_file_ancestor s (child nd nn) = false).
Proof.
  intros s od on nd nn se re Hwf Href. unfold ref_rename in Href.
  set (oldp := child od on) in *. set (newp := child nd nn) in *.
  assert (Hop : oldp <> []) by apply child_nonnil. assert (Hnp : newp <> []) by apply child_nonnil.
  destruct (is_prefix oldp nd) eqn:Hpre; [injection Href as <- <-; left; split; auto; left; discriminate|].
  destruct (find s oldp) as [eo|] eqn:Eo; [|injection Href as <- <-; left; split; auto; left; discriminate].
  destruct (path_eqb_spec oldp newp) as [Eon|Hne]; [injection Href as <- <-; left; auto|].
  assert (Hd1 : is_prefix oldp newp = false).
  { unfold newp, child. rewrite is_prefix_snoc, Hpre. simpl. fold (child nd nn). fold newp.
    destruct (path_eqb_spec oldp newp); [congruence|reflexivity]. }
  assert (Hanc_exist : forall en, find s newp = Some en -> has_file_ancestor s newp = false).
  { intros en En. destruct (has_file_ancestor s newp) eqn:Eh; auto. exfalso.
    destruct (path_cases newp) as [E|[d [n E]]]; [congruence|]. rewrite E in Eh, En.
    apply has_file_ancestor_spec in Eh. destruct Eh as [a [fl [Ha [Hpa [Hfl Hdl]]]]].
    apply is_prefix_true in Hpa. destruct Hpa as [t ->]. rewrite <- app_assoc in En.
    rewrite (wf_file_below s (proj2 Hwf) a (t ++ [n]) fl) in En; auto; try discriminate.
    - destruct a; [discriminate|congruence].
    - destruct t; discriminate. }
  destruct (find s newp) as [en|] eqn:En.
  - destruct (e_dir eo) eqn:Deo, (e_dir en) eqn:Den; cbn [negb andb] in *;
      try (injection Href as <- <-; left; split; auto; left; discriminate).
    + destruct (has_children s newp) eqn:Hc; [discriminate|]. injection Href as <- <-.
      right. exists eo. repeat split; auto.
      * apply is_prefix_false. intros r Hr. destruct r as [|m r].
        -- rewrite app_nil_r in Hr. congruence.
        -- assert (Hch : has_children s newp = true).
           { apply has_children_spec. rewrite Hr, app_cons_assoc in Eo.
             destruct r as [|m' r'].
             - rewrite app_nil_r in Eo. eauto.
             - destruct (wf_ancestors s (proj2 Hwf) (m' :: r') (newp ++ [m]) eo Eo) as [de [Hde _]];
                 [apply snoc_nonnil|discriminate|eauto]. }
           congruence.
      * apply no_children_nothing_below; [apply Hwf|auto|]. apply has_children_false. exact Hc.
      * intros en' H. inversion H; subst. congruence.
      * eapply Hanc_exist; eauto.
    + injection Href as <- <-. right. exists eo. repeat split; auto.
      * apply is_prefix_false. intros r Hr. destruct r as [|m r].
        -- rewrite app_nil_r in Hr. congruence.
        -- rewrite Hr in Eo. rewrite (wf_file_below s (proj2 Hwf) newp (m :: r) en) in Eo; auto; discriminate.
      * intros m r. eapply wf_file_below; eauto; [apply Hwf|discriminate].
      * intros en' H. inversion H; subst. congruence.
      * eapply Hanc_exist; eauto.
  - destruct (has_file_ancestor s newp) eqn:Eh; [injection Href as <- <-; left; split; auto; left; discriminate|].
    injection Href as <- <-. right. exists eo. repeat split; auto.
    + apply is_prefix_false. intros r Hr. rewrite Hr in Eo.
      rewrite (wf_absent_below s (proj2 Hwf) newp r) in Eo; auto. discriminate.
    + intros m r. apply wf_absent_below; auto. apply Hwf.
    + intros en' H. discriminate.
Qed.

(* ================= the rename statements of C18, outside the trigger ================= *)
Lemma not_trigger : forall s od on nd nn, rename_trigger s od on nd nn = false ->
  exists se re, ref_rename s od on nd nn = Some (se, re).
Proof.
  intros s od on nd nn H. unfold rename_trigger in H.
  destruct (ref_rename s od on nd nn) as [[se re]|]; [eauto|discriminate].
Qed.

(* a successful rename moves the whole subtree: every entry below the source appears at
   the same relative path below the target, nothing stays below the source, and everything
   else is untouched apart from the implicitly created ancestors of the target *)
Theorem rename_moves_subtree : forall s od on nd nn s', wf s ->
  rename_trigger s od on nd nn = false ->
  rename s od on nd nn = (s', OK) -> child od on <> child nd nn ->
  exists eo, find s (child od on) = Some eo /\
    (forall r, find s' (child nd nn ++ r) = option_map strip_hl (find s (child od on ++ r))) /\
    (forall r, find s' (child od on ++ r) = None) /\
    (forall q, is_prefix (child nd nn) q = false -> is_prefix (child od on) q = false ->
               find s' q = with_ancestors s (child nd nn) (strip_hl eo) q).
Proof.
  intros s od on nd nn s' Hwf Htr Hren Hne.
  destruct (not_trigger _ _ _ _ _ Htr) as [se [re Href]].
  destruct (rename_ref _ _ _ _ _ _ _ Hwf Href) as [Hr Heq]. rewrite Hren in Hr, Heq. cbn [fst snd] in *. subst re.
  destruct (ref_rename_cases _ _ _ _ _ _ _ Hwf Href) as [[_ [H|H]]|[eo [Eo [-> [_ [Hdis [Hbelow [Htype Hanc]]]]]]]]; try congruence.
  exists eo. split; auto.
  assert (Hf : forall q, find s' q = moved_find s (child od on) (child nd nn) (with_ancestors s (child nd nn) (strip_hl eo)) q).
  { intro q. rewrite Heq. symmetry. apply moved_find_ref_move; auto. }
  repeat split.
  - intro r. rewrite Hf. unfold moved_find. rewrite strip_prefix_app. reflexivity.
  - intro r. rewrite Hf. unfold moved_find. rewrite (disjoint_strip _ _ r (disjoint_sym _ _ Hdis)), strip_prefix_app. reflexivity.
  - intros q H1 H2. rewrite Hf. unfold moved_find. unfold is_prefix in H1, H2.
    destruct (strip_prefix (child nd nn) q); [discriminate|]. destruct (strip_prefix (child od on) q); [discriminate|]. reflexivity.
Qed.

(* a failing rename changes nothing *)
Theorem rename_failure_atomic : forall s od on nd nn, wf s ->
  rename_trigger s od on nd nn = false ->
  snd (rename s od on nd nn) <> OK -> equiv (fst (rename s od on nd nn)) s.
Proof.
  intros s od on nd nn Hwf Htr Hr.
  destruct (not_trigger _ _ _ _ _ Htr) as [se [re Href]].
  destruct (rename_ref _ _ _ _ _ _ _ Hwf Href) as [Hr' Heq].
  destruct (ref_rename_cases _ _ _ _ _ _ _ Hwf Href) as [[-> _]|[eo [_ [_ [-> _]]]]]; [exact Heq|congruence].
Qed.

(* ----- the multiset of (relative path, entry) is preserved ----- *)
Lemma subtree_rel_In : forall s p r e, In (r, e) (subtree_rel s p) <-> In (p ++ r, e) s.
Proof.
  intros s p r e. unfold subtree_rel. rewrite in_flat_map. split.
  - intros [[k e'] [Hin H]]. simpl in H. destruct (strip_prefix p k) as [r'|] eqn:E; [|destruct H].
    destruct H as [H|[]]. inversion H; subst. apply strip_prefix_spec in E. subst. exact Hin.
  - intro Hin. exists (p ++ r, e). split; auto. simpl. rewrite strip_prefix_app. left. reflexivity.
Qed.

Lemma subtree_rel_NoDup : forall s p, NoDup (keys s) -> NoDup (map fst (subtree_rel s p)).
Proof.
  intros s p. induction s as [|[k e] s IH]; simpl; intro H; [constructor|].
  inversion H as [|? ? Hk Hnd]; subst.
  destruct (strip_prefix p k) as [r|] eqn:E; simpl; auto.
  constructor; auto. intro Hin. apply in_map_iff in Hin. destruct Hin as [[r' e'] [Hr Hin]].
  simpl in Hr. subst r'. apply subtree_rel_In in Hin.
  apply strip_prefix_spec in E. subst k. apply Hk. apply in_map_iff. exists (p ++ r, e'). auto.
Qed.

Lemma subtree_rel_find : forall s p r e, NoDup (keys s) ->
  (In (r, e) (subtree_rel s p) <-> find s (p ++ r) = Some e).
Proof.
  intros s p r e Hnd. rewrite subtree_rel_In. split; [apply In_find; auto|apply find_Some_In].
Qed.

Theorem rename_preserves_multiset : forall s od on nd nn s', wf s ->
  rename_trigger s od on nd nn = false ->
  rename s od on nd nn = (s', OK) -> child od on <> child nd nn ->
  Permutation (subtree_rel s' (child nd nn))
              (map (fun re => (fst re, strip_hl (snd re))) (subtree_rel s (child od on))) /\
  subtree_rel s' (child od on) = [].
Proof.
  intros s od on nd nn s' Hwf Htr Hren Hne.
  destruct (rename_moves_subtree _ _ _ _ _ _ Hwf Htr Hren Hne) as [eo [_ [Hnew [Hold _]]]].
  assert (Hwf' : wf s') by (pose proof (rename_wf s od on nd nn Hwf) as X; rewrite Hren in X; exact X).
  split.
  - apply NoDup_Permutation.
    + apply NoDup_fst. apply subtree_rel_NoDup. apply Hwf'.
    + apply NoDup_fst. rewrite map_map. simpl. apply subtree_rel_NoDup. apply Hwf.
    + intros [r e]. rewrite subtree_rel_find by apply Hwf'. rewrite Hnew. rewrite in_map_iff. split.
      * intro H. destruct (find s (child od on ++ r)) as [x|] eqn:Ex; [|discriminate].
        simpl in H. inversion H; subst. exists (r, x). split; auto. apply subtree_rel_find; auto. apply Hwf.
      * intros [[r' x] [H Hin]]. simpl in H. inversion H; subst.
        apply subtree_rel_find in Hin; [|apply Hwf]. rewrite Hin. reflexivity.
  - destruct (subtree_rel s' (child od on)) as [|[r e] l] eqn:E; auto.
    assert (Hin : In (r, e) (subtree_rel s' (child od on))) by (rewrite E; left; reflexivity).
    apply subtree_rel_find in Hin; [|apply Hwf']. rewrite Hold in Hin. discriminate.
Qed.

(* ================= histories ================= *)
Theorem step_wf : forall s o, wf s -> wf (fst (step s o)).
Proof.
  intros s o Hwf. destruct o; simpl.
  - apply create_entry_wf; auto.
  - apply update_entry_wf; auto.
  - apply delete_entry_wf; auto.
  - apply rename_wf; auto.
Qed.

Theorem final_wf : forall ops s, wf s -> wf (final s ops).
Proof. induction ops as [|o ops IH]; intros s H; simpl; auto. apply IH, step_wf, H. Qed.

Theorem run_wf : forall ops s, wf s -> Forall (fun sr => wf (fst sr)) (run s ops).
Proof.
  induction ops as [|o ops IH]; intros s H; simpl; constructor.
  - apply step_wf, H.
  - apply IH, step_wf, H.
Qed.

(* every ancestor of every entry exists and is a directory *)
Theorem wf_all_ancestors : forall s, wf s -> forall a r e,
  find s (a ++ r) = Some e -> a <> [] -> r <> [] -> exists d, find s a = Some d /\ e_dir d = true.
Proof. intros s [_ H] a r e. apply wf_ancestors. exact H. Qed.

(* every step outside the trigger does what the reference namespace says *)
Theorem step_ref : forall s o, wf s -> op_trigger s o = false ->
  exists se, ref_step s o = Some (se, snd (step s o)) /\ equiv (fst (step s o)) se.
Proof.
  intros s o Hwf Htr. destruct o; cbn [step ref_step op_trigger] in *.
  - destruct (create_entry_ref s p e o_excl Hwf) as [Hr He].
    exists (fst (ref_create s p e o_excl)). rewrite Hr. split; [|exact He].
    f_equal. apply surjective_pairing.
  - exists (fst (ref_update s p e)).
    replace (update_entry s p e) with (ref_update s p e) by (symmetry; apply update_entry_is_ref).
    split; [|apply equiv_refl]. f_equal. apply surjective_pairing.
  - destruct (delete_entry_ref s p rec ign Hwf) as [_ [Hr He]].
    exists (fst (ref_delete s p rec)). rewrite Hr. split; [|exact He].
    f_equal. apply surjective_pairing.
  - destruct (not_trigger _ _ _ _ _ Htr) as [se [re Href]].
    destruct (rename_ref _ _ _ _ _ _ _ Hwf Href) as [Hr He]. exists se. rewrite Hr. auto.
Qed.

Fixpoint refines (s : store) (ops : list op) : Prop :=
  match ops with
  | [] => True
  | o :: ops' =>
      (exists se, ref_step s o = Some (se, snd (step s o)) /\ equiv (fst (step s o)) se) /\
      refines (fst (step s o)) ops'
  end.

Theorem history_refines : forall ops s, wf s -> history_trigger s ops = false -> refines s ops.
Proof.
  induction ops as [|o ops IH]; intros s Hwf Htr; simpl; auto.
  simpl in Htr. apply orb_false_iff in Htr. destruct Htr as [H1 H2]. split.
  - apply step_ref; auto.
  - apply IH; auto. apply step_wf, Hwf.
Qed.

(* ----- no step replaces a file by a directory or vice versa ----- *)
Lemma ref_create_no_flip : forall s p e x q a b, q <> [] ->
  find s q = Some a -> find (fst (ref_create s p e x)) q = Some b -> e_dir b = e_dir a.
Proof.
  intros s p e x q a b Hq Ha Hb. unfold ref_create in Hb.
  destruct p as [|p0 p1] eqn:Ep; [cbn [fst] in Hb; congruence|]. rewrite <- Ep in *.
  destruct (find s p) as [old|] eqn:Eo.
  - destruct x; [cbn [fst] in Hb; congruence|].
    destruct (e_dir old && negb (e_dir e)) eqn:E1; [cbn [fst] in Hb; congruence|].
    destruct (negb (e_dir old) && e_dir e) eqn:E2; [cbn [fst] in Hb; congruence|].
    cbn [fst] in Hb. rewrite find_insert in Hb. destruct (path_eqb_spec p q) as [->|_]; [|congruence].
    inversion Hb; subst. rewrite Eo in Ha. inversion Ha; subst. apply same_type; auto.
  - destruct (has_file_ancestor s p); [cbn [fst] in Hb; congruence|].
    cbn [fst] in Hb. rewrite find_insert in Hb. destruct (path_eqb_spec p q) as [->|_]; [congruence|].
    rewrite find_add_missing_ancestors, Ha in Hb. congruence.
Qed.

Lemma ref_update_no_flip : forall s p e q a b, q <> [] ->
  find s q = Some a -> find (fst (ref_update s p e)) q = Some b -> e_dir b = e_dir a.
Proof.
  intros s p e q a b Hq Ha Hb. unfold ref_update in Hb.
  destruct (find_entry s p) as [old|] eqn:Eo; [|cbn [fst] in Hb; congruence].
  destruct (e_dir old && negb (e_dir e)) eqn:E1; [cbn [fst] in Hb; congruence|].
  destruct (negb (e_dir old) && e_dir e) eqn:E2; [cbn [fst] in Hb; congruence|].
  cbn [fst] in Hb. rewrite find_insert in Hb. destruct (path_eqb_spec p q) as [->|_]; [|congruence].
  inversion Hb; subst. rewrite find_entry_nonroot in Eo by assumption. rewrite Eo in Ha. inversion Ha; subst.
  apply same_type; auto.
Qed.

Lemma ref_delete_no_flip : forall s p rec q a b,
  find s q = Some a -> find (fst (ref_delete s p rec)) q = Some b -> b = a.
Proof.
  intros s p rec q a b Ha Hb. unfold ref_delete in Hb.
  destruct p as [|p0 p1] eqn:Ep; [cbn [fst] in Hb; congruence|]. rewrite <- Ep in *.
  destruct (find s p) as [e|]; [|cbn [fst] in Hb; congruence].
  destruct (e_dir e && negb rec && has_children s p); [cbn [fst] in Hb; congruence|].
  cbn [fst] in Hb. rewrite find_ref_remove_subtree in Hb. destruct (is_prefix p q); congruence.
Qed.

Lemma ref_rename_no_flip : forall s od on nd nn se re q a b, wf s ->
  ref_rename s od on nd nn = Some (se, re) ->
  find s q = Some a -> find se q = Some b -> e_dir b = e_dir a.
Proof.
  intros s od on nd nn se re q a b Hwf Href Ha Hb.
  destruct (ref_rename_cases _ _ _ _ _ _ _ Hwf Href) as [[-> _]|[eo [Eo [-> [_ [Hdis [Hbelow [Htype Hanc]]]]]]]]; [congruence|].
  rewrite <- moved_find_ref_move in Hb by auto. unfold moved_find in Hb.
  destruct (strip_prefix (child nd nn) q) as [r|] eqn:E1.
  - apply strip_prefix_spec in E1. subst q. destruct r as [|m r].
    + rewrite app_nil_r in *. rewrite Eo in Hb. cbn [fst] in Hb. inversion Hb; subst. simpl. symmetry. apply Htype. exact Ha.
    + rewrite Hbelow in Ha. discriminate.
  - destruct (strip_prefix (child od on) q); [discriminate|].
    unfold with_ancestors in Hb. rewrite Ha in Hb. congruence.
Qed.

Theorem step_no_type_flip : forall s o q a b, wf s -> op_trigger s o = false -> q <> [] ->
  find s q = Some a -> find (fst (step s o)) q = Some b -> e_dir b = e_dir a.
Proof.
  intros s o q a b Hwf Htr Hq Ha Hb.
  destruct (step_ref s o Hwf Htr) as [se [Href Heq]]. rewrite Heq in Hb.
  destruct o; cbn [ref_step] in Href.
  - injection Href as Hse. apply (f_equal fst) in Hse. cbn [fst] in Hse. subst se. eapply ref_create_no_flip; eauto.
  - injection Href as Hse. apply (f_equal fst) in Hse. cbn [fst] in Hse. subst se. eapply ref_update_no_flip; eauto.
  - injection Href as Hse. apply (f_equal fst) in Hse. cbn [fst] in Hse. subst se. assert (b = a) by (eapply ref_delete_no_flip; eauto). congruence.
  - eapply ref_rename_no_flip; eauto.
Qed.

(* ================= the known finding: a directory renamed onto a non-empty directory ================= *)
Definition wF (uid : N) : entry := mk_entry false 420%N uid [uid] [] 0%N [].
Definition wD (uid : N) : entry := mk_entry true 493%N uid [] [] 0%N [].

(* /a/a/a/b (uid 1) and /a/a/b (uid 2); then  mv /a/a -> /a *)
Definition w_lost : store :=
  final [] [Create ["a"; "a"; "a"; "b"]%string (wF 1) false; Create ["a"; "a"; "b"]%string (wF 2) false].

(* the rename returns OK although an entry of the moved subtree is gone *)
Theorem rename_onto_ancestor_loses_entries :
  exists s od on nd nn s' r e,
    wf s /\ is_prefix (child od on) nd = false /\ child od on <> child nd nn /\
    rename_trigger s od on nd nn = true /\
    rename s od on nd nn = (s', OK) /\
    find s (child od on ++ r) = Some e /\ find s' (child nd nn ++ r) <> Some (strip_hl e).
Proof.
  exists w_lost, ["a"%string], "a"%string, [], "a"%string. eexists. exists ["a"; "b"]%string. eexists.
  split; [apply wf_b_spec; vm_compute; reflexivity|].
  split; [vm_compute; reflexivity|].
  split; [intro H; vm_compute in H; discriminate|].
  split; [vm_compute; reflexivity|].
  split; [vm_compute; reflexivity|].
  split; [vm_compute; reflexivity|].
  vm_compute. discriminate.
Qed.

(* /a/a, /a/b, /b/a files and /b/b a directory; then  mv /a -> /b  fails on /a/b -> /b/b
   after /a/a was already moved over /b/a *)
Definition w_half : store :=
  final [] [Create ["a"; "a"]%string (wF 1) false; Create ["a"; "b"]%string (wF 2) false;
            Create ["b"; "a"]%string (wF 3) false; Create ["b"; "b"]%string (wD 4) false].

Theorem rename_merge_conflict_half_moves :
  exists s od on nd nn q,
    wf s /\ is_prefix (child od on) nd = false /\ rename_trigger s od on nd nn = true /\
    snd (rename s od on nd nn) <> OK /\ find (fst (rename s od on nd nn)) q <> find s q.
Proof.
  exists w_half, [], "a"%string, [], "b"%string, ["a"; "a"]%string.
  split; [apply wf_b_spec; vm_compute; reflexivity|].
  split; [vm_compute; reflexivity|].
  split; [vm_compute; reflexivity|].
  split; vm_compute; discriminate.
Qed.

(* ================= non-vacuity ================= *)
(* a history with nested directories, an overwrite, a recursive delete and two directory
   renames (one creating missing ancestors) that never meets the trigger *)
Definition ex_ops : list op :=
  [Create ["a"; "b"; "a"]%string (wF 1) false;
   Create ["a"; "b"; "b"]%string (wD 2) false;
   Create ["b"]%string (wF 3) false;
   Rename ["a"]%string "b"%string []%list "c"%string;
   Rename []%list "b"%string ["c"]%string "x"%string;
   Rename []%list "c"%string ["x"; "y"]%string "z"%string;
   Delete ["a"]%string false false;
   Delete ["x"; "y"; "z"; "b"]%string true false].

Example ex_history_outside_trigger :
  history_trigger [] ex_ops = false /\
  map snd (run [] ex_ops) = [OK; OK; OK; OK; OK; OK; OK; OK] /\
  store_equiv_b (final [] ex_ops)
    [(["x"]%string, implicit_dir (wF 1)); (["x"; "y"]%string, implicit_dir (wF 1));
     (["x"; "y"; "z"]%string, implicit_dir (wF 1)); (["x"; "y"; "z"; "a"]%string, wF 1);
     (["x"; "y"; "z"; "x"]%string, wF 3)] = true.
Proof. vm_compute. repeat split; reflexivity. Qed.

Example ex_rename_hypotheses :
  let s := final [] [Create ["a"; "b"; "a"]%string (wF 1) false; Create ["a"; "b"; "b"]%string (wD 2) false] in
  wf s /\ rename_trigger s ["a"]%string "b"%string []%list "c"%string = false /\
  snd (rename s ["a"]%string "b"%string []%list "c"%string) = OK /\
  child ["a"]%string "b"%string <> child []%list "c"%string.
Proof.
  cbv zeta. split; [apply final_wf, wf_nil|]. split; [vm_compute; reflexivity|].
  split; [vm_compute; reflexivity|]. intro H; vm_compute in H; discriminate.
Qed.
