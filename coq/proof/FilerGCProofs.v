(* C20: every operation of model/HardLink.v that involves neither a hard link nor a manifest
   chunk deletes no referenced chunk and schedules all the garbage it makes; the full
   statements are refuted with the witnesses of the five known findings. *)
From Coq Require Import List NArith ZArith Bool String Arith Lia Permutation.
From SW Require Import model.FilerNS proof.FilerNSBase model.Chunks model.HardLink model.FilerGC
  proof.HardLinkBase proof.HardLinkInv proof.HardLinkOps proof.HardLinkProofs
  proof.FilerGCBase proof.FilerGCGeneric.
Import ListNotations.
Local Open Scope list_scope.

(* ================= small facts ================= *)
Lemma dcinn_good : forall ev old new, good_list (h_chunks old) ->
  forall c, In c (delete_chunks_if_not_new ev old new) <-> In c (ids old) /\ ~ In c (ids new).
Proof.
  intros ev old new Hg c. unfold delete_chunks_if_not_new.
  change (filter (fun oc => negb (has_fid (h_chunks new) (c_fid oc))) (h_chunks old))
    with (do_minus (h_chunks old) (h_chunks new)).
  rewrite expand_good by (apply good_filter; exact Hg). apply In_do_minus.
Qed.

Lemma fids_app : forall a b, fids (a ++ b) = fids a ++ fids b.
Proof. intros. unfold fids. apply map_app. Qed.

Lemma good_kept : forall (g : N -> bool) cs, good_list cs -> good_list (filter (fun c => g (c_fid c)) cs ++ []).
Proof. intros. rewrite app_nil_r. now apply good_filter. Qed.

Lemma good_of_flags : forall cs, forallb chunk_ok cs = true -> forallb (fun c => negb (c_manifest c)) cs = true ->
  good_list cs.
Proof.
  intros cs H1 H2. unfold good_list. apply Forall_forall. intros c Hc.
  rewrite forallb_forall in H1, H2. split; [apply negb_true_iff, (H2 c Hc)|apply (H1 c Hc)].
Qed.

Lemma fids_place : forall cs off, fids (place_chunks off cs) = fids cs.
Proof. induction cs; simpl; intros; [reflexivity|]. now rewrite IHcs. Qed.

Definition sum_sizes (cs : list chunk) : N := fold_right (fun c acc => (c_size c + acc)%N) 0%N cs.

Lemma good_place : forall cs off, good_list cs -> (off + sum_sizes cs < max_int64)%N ->
  good_list (place_chunks off cs).
Proof.
  induction cs as [|c cs IH]; intros off Hg Hfit; [constructor|].
  inversion Hg as [|c' cs' [Hm Hok] Hcs]; subst. simpl in *.
  unfold chunk_ok in Hok. apply andb_true_iff in Hok. destruct Hok as [Hs _]. apply N.ltb_lt in Hs.
  constructor.
  - split; [exact Hm|]. unfold chunk_ok. simpl. apply andb_true_iff.
    split; apply N.ltb_lt; lia.
  - apply IH; [exact Hcs|]. lia.
Qed.

Lemma collect_plain : forall cs, (forall c, In c cs -> h_hl (snd c) = 0%N) -> snd (collect_children cs) = [].
Proof.
  induction cs as [|c cs IH]; intro H; [reflexivity|]. simpl.
  assert (IH' : snd (collect_children cs) = []) by (apply IH; intros; apply H; now right).
  destruct (h_dir (snd c)); [exact IH'|]. rewrite (H c (or_introl eq_refl)). simpl. exact IH'.
Qed.

(* the chunks doBatchDeleteFolderMetaAndData collects: those of the non-directory children *)
Lemma collect_chunks_In : forall cs, (forall c, In c cs -> h_hl (snd c) = 0%N) ->
  forall x, In x (fst (collect_children cs)) <->
            exists c, In c cs /\ h_dir (snd c) = false /\ In x (h_chunks (snd c)).
Proof.
  induction cs as [|c cs IH]; intros H x.
  - simpl. split; [contradiction|]. intros [c [[] _]].
  - assert (H' : forall c0, In c0 cs -> h_hl (snd c0) = 0%N) by (intros; apply H; now right).
    specialize (IH H' x). simpl.
    destruct (h_dir (snd c)) eqn:Ed.
    + rewrite IH. split.
      * intros [c0 [Hin R]]. exists c0. split; [now right|exact R].
      * intros [c0 [[E|Hin] [Hd R]]]; [subst; congruence|]. exists c0. auto.
    + rewrite (H c (or_introl eq_refl)). simpl. rewrite in_app_iff, IH. split.
      * intros [Hx|[c0 [Hin R]]]; [exists c; auto|exists c0; split; [now right|exact R]].
      * intros [c0 [[E|Hin] [Hd R]]]; [subst; now left|]. right. exists c0. auto.
Qed.

Lemma children_raw_complete : forall m d n e, In (d ++ [n], e) m -> In (n, e) (children_raw m d).
Proof.
  intros m d n e H. unfold children_raw. apply in_flat_map. exists (d ++ [n], e). split; [assumption|].
  simpl. unfold HardLink.strip_prefix. rewrite strip_prefix_app. now left.
Qed.

Lemma list_children_In : forall s d n e, NoDup (map fst (names s)) ->
  (In (n, e) (list_children s d) <-> nfind s (d ++ [n]) = Some e).
Proof.
  intros s d n e Hnd. split.
  - intro H. apply (Permutation_in _ (Permutation_sym (list_children_perm s d))) in H.
    apply children_raw_In in H. now apply In_nfind.
  - intro H. apply (Permutation_in _ (list_children_perm s d)).
    apply children_raw_complete. now apply nfind_In.
Qed.

Lemma PS_subset : forall s s', PS s -> NoDup (map fst (names s')) ->
  (forall q e, nfind s' q = Some e -> nfind s q = Some e) -> PS s'.
Proof.
  intros s s' P Hnd Hsub. constructor; auto.
  - intros q e H. apply (ps_plain _ P q e (Hsub q e H)).
  - intros q e H. apply (ps_good _ P q e (Hsub q e H)).
  - intros q e H. apply (ps_dir _ P q e (Hsub q e H)).
Qed.

Lemma w_delete_one_plain_names : forall s p x, h_hl x = 0%N ->
  names (w_delete_one s p x) = adel HardLink.path_eqb (names s) p.
Proof. intros. unfold w_delete_one. rewrite H. reflexivity. Qed.

(* ================= CreateEntry (gRPC) ================= *)
Lemma in_expand_cov : forall ev (g : N -> bool) cs c, good_list cs ->
  (In c (expand_delete ev ([] ++ filter (fun x => negb (g (c_fid x))) cs)) <->
   In c (fids cs) /\ g c = false).
Proof.
  intros ev g cs c Hg. simpl. rewrite expand_good by (apply good_filter; exact Hg).
  rewrite (In_fids_filter (fun f => negb (g f)) cs c). rewrite negb_true_iff. reflexivity.
Qed.

Lemma in_kept : forall (g : N -> bool) cs c,
  In c (fids (filter (fun x => g (c_fid x)) cs ++ [])) <-> In c (fids cs) /\ g c = true.
Proof. intros. rewrite app_nil_r. apply In_fids_filter. Qed.

Lemma grpc_create_good : forall ev s p e x, PS s -> Excl s -> p <> [] ->
  h_hl e = 0%N -> good_list (h_chunks e) -> (h_dir e = true -> h_chunks e = []) ->
  (forall c, In c (fids (h_chunks e)) -> In c (ids_at s p) \/ ~ In c (refs ev s)) ->
  let r := grpc_create ev s p e x in Good ev s (st_of r) (sched_of r) true.
Proof.
  intros ev s p e x P X Hp He Hg Hd Hfresh. simpl.
  destruct (cleanup_good ev None (h_chunks e) Hg) as [g Hc]; [intros o Ho; discriminate|].
  unfold grpc_create. rewrite Hc. clear Hc.
  set (kept := filter (fun c => g (c_fid c)) (h_chunks e) ++ []).
  set (cov := [] ++ filter (fun c => negb (g (c_fid c))) (h_chunks e)).
  set (e' := set_chunks e kept).
  assert (Hkept_good : good_list kept) by (apply good_kept; exact Hg).
  assert (Hkept_dir : h_dir e = true -> kept = []).
  { intro D. unfold kept. rewrite (Hd D). reflexivity. }
  unfold filer_create. rewrite (find_entry_ps ev s p P Hp).
  destruct (nfind s p) as [old|] eqn:Eo.
  - destruct x; [unfold st_of, sched_of; simpl; now apply good_same|].
    destruct (filer_update s p old e') as [s1 r1] eqn:Eu.
    destruct (filer_update_cases _ _ _ _ _ _ Eu) as [[A B]|[A B]]; subst s1.
    + destruct r1; try congruence; unfold st_of, sched_of; simpl; now apply good_same.
    + subst r1. unfold st_of, sched_of. simpl.
      apply (write_generic ev s s p); [exact P|exact X| | | | | | | | ].
      * now left.
      * reflexivity.
      * exact He.
      * exact Hkept_good.
      * simpl. intro D. now apply Hkept_dir.
      * intros c Hc. unfold ids in Hc. simpl in Hc. apply in_kept in Hc. apply Hfresh. tauto.
      * intros c Hc. apply in_app_iff in Hc. destruct Hc as [Hc|Hc].
        -- apply (dcinn_good ev old e' (ps_good _ P p old Eo)) in Hc. destruct Hc as [Hc1 Hc2].
           split; [exact Hc2|]. left. unfold ids_at. now rewrite Eo.
        -- apply (in_expand_cov ev g _ c Hg) in Hc. destruct Hc as [Hc1 Hc2]. split.
           ++ unfold ids. simpl. intro Hk. apply in_kept in Hk. destruct Hk. congruence.
           ++ now apply Hfresh.
      * intros c Hc Hn. apply in_app_iff. left.
        apply (dcinn_good ev old e' (ps_good _ P p old Eo)). unfold ids_at in Hc. rewrite Eo in Hc.
        split; [exact Hc|exact Hn].
  - destruct (ensure_parent ev s p e') as [s1 r1] eqn:Ee.
    destruct (ensure_parent_cases _ _ _ _ _ _ Ee) as [A|[A [B C]]].
    + subst s1. destruct r1; simpl; try (unfold st_of, sched_of; simpl; now apply good_same).
      unfold st_of, sched_of. simpl.
      apply (write_generic ev s s p); [exact P|exact X| | | | | | | | ].
      * now left.
      * reflexivity.
      * exact He.
      * exact Hkept_good.
      * simpl. intro D. now apply Hkept_dir.
      * intros c Hc. unfold ids in Hc. simpl in Hc. apply in_kept in Hc. apply Hfresh. tauto.
      * intros c Hc. apply (in_expand_cov ev g _ c Hg) in Hc. destruct Hc as [Hc1 Hc2]. split.
        -- unfold ids. simpl. intro Hk. apply in_kept in Hk. destruct Hk. congruence.
        -- now apply Hfresh.
      * intros c Hc. unfold ids_at in Hc. rewrite Eo in Hc. contradiction.
    + subst r1 s1. unfold st_of, sched_of. simpl.
      apply (write_generic ev s _ p); [exact P|exact X| | | | | | | | ].
      * right. eauto.
      * rewrite w_insert_nfind. destruct (peqb_spec (HardLink.parent p) p) as [E|E]; [|reflexivity].
        exfalso. now apply (parent_neq p Hp).
      * exact He.
      * exact Hkept_good.
      * simpl. intro D. now apply Hkept_dir.
      * intros c Hc. unfold ids in Hc. simpl in Hc. apply in_kept in Hc. apply Hfresh. tauto.
      * intros c Hc. apply (in_expand_cov ev g _ c Hg) in Hc. destruct Hc as [Hc1 Hc2]. split.
        -- unfold ids. simpl. intro Hk. apply in_kept in Hk. destruct Hk. congruence.
        -- now apply Hfresh.
      * intros c Hc. unfold ids_at in Hc. rewrite Eo in Hc. contradiction.
Qed.

(* ================= UpdateEntry (gRPC) ================= *)
Lemma grpc_update_good : forall ev s p e, PS s -> Excl s -> p <> [] ->
  h_hl e = 0%N -> good_list (h_chunks e) -> (h_dir e = true -> h_chunks e = []) ->
  (forall c, In c (fids (h_chunks e)) -> In c (ids_at s p) \/ ~ In c (refs ev s)) ->
  let r := grpc_update ev s p e in Good ev s (st_of r) (sched_of r) true.
Proof.
  intros ev s p e P X Hp He Hg Hd Hfresh. simpl.
  unfold grpc_update. rewrite (find_entry_ps ev s p P Hp).
  destruct (nfind s p) as [old|] eqn:Eo; [|unfold st_of, sched_of; simpl; now apply good_same].
  pose proof (ps_good _ P p old Eo) as Hog.
  destruct (cleanup_good ev (Some old) (h_chunks e) Hg) as [g Hc].
  { intros o Ho. inversion Ho; subst. exact Hog. }
  rewrite Hc. clear Hc.
  set (kept := filter (fun c => g (c_fid c)) (h_chunks e) ++ []).
  set (e' := set_chunks e kept).
  destruct (hentry_eqb old e'); [unfold st_of, sched_of; simpl; now apply good_same|].
  destruct (filer_update s p old e') as [s1 r1] eqn:Eu.
  destruct (filer_update_cases _ _ _ _ _ _ Eu) as [[A B]|[A B]]; subst s1.
  - destruct r1; try congruence; unfold st_of, sched_of; simpl; now apply good_same.
  - subst r1. unfold st_of, sched_of. simpl.
    assert (Hsched : forall c,
      In c (expand_delete ev ((do_minus (h_chunks old) (h_chunks e) ++ []) ++
                              filter (fun c0 => negb (g (c_fid c0))) (h_chunks e))) <->
      (In c (ids old) /\ ~ In c (fids (h_chunks e))) \/ (In c (fids (h_chunks e)) /\ g c = false)).
    { intro c. rewrite expand_good.
      - rewrite fids_app, app_nil_r, in_app_iff, In_do_minus.
        rewrite (In_fids_filter (fun f => negb (g f)) (h_chunks e) c), negb_true_iff. reflexivity.
      - apply good_app; [rewrite app_nil_r; apply good_filter; exact Hog|apply good_filter; exact Hg]. }
    apply (write_generic ev s s p); [exact P|exact X| | | | | | | | ].
    + now left.
    + reflexivity.
    + exact He.
    + apply good_kept; exact Hg.
    + simpl. intro D. unfold kept. rewrite (Hd D). reflexivity.
    + intros c Hc. unfold ids in Hc. simpl in Hc. apply in_kept in Hc. apply Hfresh. tauto.
    + intros c Hc. apply Hsched in Hc. destruct Hc as [[Hc1 Hc2]|[Hc1 Hc2]].
      * split; [|left; unfold ids_at; now rewrite Eo].
        unfold ids. simpl. intro Hk. apply in_kept in Hk. tauto.
      * split; [|now apply Hfresh].
        unfold ids. simpl. intro Hk. apply in_kept in Hk. destruct Hk. congruence.
    + intros c Hc Hn. apply Hsched. unfold ids_at in Hc. rewrite Eo in Hc.
      destruct (in_dec N.eq_dec c (fids (h_chunks e))) as [Hi|Hi]; [|left; auto].
      right. split; [exact Hi|]. destruct (g c) eqn:Eg; [|reflexivity].
      exfalso. apply Hn. unfold ids. simpl. apply in_kept. auto.
Qed.

(* ================= AppendToEntry ================= *)
Lemma grpc_append_good : forall ev s p cs, PS s -> Excl s -> p <> [] ->
  good_list cs ->
  (total_size (match nfind s p with Some e => h_chunks e | None => [] end) + sum_sizes cs < max_int64)%N ->
  (forall e, nfind s p = Some e -> h_dir e = false) ->
  (forall c, In c (fids cs) -> In c (ids_at s p) \/ ~ In c (refs ev s)) ->
  let r := grpc_append ev s p cs in Good ev s (st_of r) (sched_of r) true.
Proof.
  intros ev s p cs P X Hp Hg Hfit Hfile Hfresh. simpl.
  unfold grpc_append. rewrite (find_entry_ps ev s p P Hp).
  destruct (nfind s p) as [old|] eqn:Eo.
  - pose proof (ps_good _ P p old Eo) as Hog.
    set (all := h_chunks old ++ place_chunks (total_size (h_chunks old)) cs).
    assert (Hall : good_list all) by (apply good_app; [exact Hog|apply good_place; assumption]).
    destruct (filter_manifest_good all Hall) as [F1 F2]. rewrite F1, F2.
    set (e := set_chunks old ([] ++ all)).
    assert (Hv : view s old = old) by (apply view_plain, (ps_plain _ P p old Eo)).
    rewrite (filer_create_existing ev s p old e Hp Eo) by (rewrite Hv; reflexivity).
    rewrite Hv. unfold st_of, sched_of. simpl.
    assert (Hids : forall c, In c (fids all) <-> In c (ids old) \/ In c (fids cs)).
    { intro c. unfold all. rewrite fids_app, in_app_iff, fids_place. reflexivity. }
    apply (write_generic ev s s p); [exact P|exact X| | | | | | | | ].
    + now left.
    + reflexivity.
    + apply (ps_plain _ P p old Eo).
    + simpl. exact Hall.
    + simpl. intro D. rewrite (Hfile old eq_refl) in D. discriminate.
    + intros c Hc. unfold ids in Hc. simpl in Hc. apply Hids in Hc.
      destruct Hc as [Hc|Hc]; [left; unfold ids_at; now rewrite Eo|now apply Hfresh].
    + intros c Hc. apply (dcinn_good ev old e Hog) in Hc. destruct Hc as [Hc1 Hc2].
      exfalso. apply Hc2. unfold ids. simpl. apply Hids. now left.
    + intros c Hc Hn. exfalso. apply Hn. unfold ids. simpl. apply Hids. left.
      unfold ids_at in Hc. now rewrite Eo in Hc.
  - simpl in Hfit. cbn [h_chunks].
    set (all := [] ++ place_chunks (total_size []) cs).
    assert (Hall : good_list all) by (apply good_place; assumption).
    destruct (filter_manifest_good all Hall) as [F1 F2]. simpl app at 1. rewrite F1, F2.
    set (e := set_chunks _ ([] ++ all)).
    assert (Hids : forall c, In c (fids all) <-> In c (fids cs)).
    { intro c. unfold all. simpl. rewrite fids_place. reflexivity. }
    unfold filer_create. rewrite (find_entry_ps ev s p P Hp), Eo.
    destruct (ensure_parent ev s p e) as [s1 r1] eqn:Ee.
    destruct (ensure_parent_cases _ _ _ _ _ _ Ee) as [A|[A [B C]]].
    + subst s1. destruct (is_err r1); [unfold st_of, sched_of; simpl; now apply good_same|].
      unfold st_of, sched_of. simpl.
      apply (write_generic ev s s p); [exact P|exact X| | | | | | | | ].
      * now left.
      * reflexivity.
      * reflexivity.
      * simpl. exact Hall.
      * simpl. discriminate.
      * intros c Hc. unfold ids in Hc. simpl in Hc. apply Hids in Hc. now apply Hfresh.
      * intros c [].
      * intros c Hc. unfold ids_at in Hc. rewrite Eo in Hc. contradiction.
    + subst r1 s1. unfold st_of, sched_of. simpl.
      apply (write_generic ev s _ p); [exact P|exact X| | | | | | | | ].
      * right. eauto.
      * rewrite w_insert_nfind. destruct (peqb_spec (HardLink.parent p) p) as [E|E]; [|reflexivity].
        exfalso. now apply (parent_neq p Hp).
      * reflexivity.
      * simpl. exact Hall.
      * simpl. discriminate.
      * intros c Hc. unfold ids in Hc. simpl in Hc. apply Hids in Hc. now apply Hfresh.
      * intros c [].
      * intros c Hc. unfold ids_at in Hc. rewrite Eo in Hc. contradiction.
Qed.

(* ================= DeleteEntryMetaAndData ================= *)
Lemma delete_entry_good : forall ev s p rec ign data, PS s -> Excl s -> p <> [] ->
  let r := delete_entry ev s p rec ign data in Good ev s (st_of r) (sched_of r) data.
Proof.
  intros ev s p rec ign data P X Hp. simpl.
  unfold delete_entry. rewrite (find_entry_ps ev s p P Hp).
  destruct (nfind s p) as [e|] eqn:Eo; [|unfold st_of, sched_of; simpl; now apply good_same].
  set (cs := if h_dir e then list_children s p else []).
  destruct (h_dir e && negb rec && negb match cs with [] => true | _ => false end);
    [unfold st_of, sched_of; simpl; now apply good_same|].
  assert (Hcs_plain : forall c, In c cs -> h_hl (snd c) = 0%N).
  { intros [n e'] Hin. unfold cs in Hin. destruct (h_dir e); [|contradiction].
    apply (list_children_In s p n e' (ps_nd _ P)) in Hin. apply (ps_plain _ P _ _ Hin). }
  destruct (collect_children cs) as [dc hl_ids] eqn:Ec.
  assert (Hids : hl_ids = []) by (pose proof (collect_plain cs Hcs_plain) as H; now rewrite Ec in H).
  assert (Hdc : forall x, In x dc <-> exists c, In c cs /\ h_dir (snd c) = false /\ In x (h_chunks (snd c))).
  { intro x. pose proof (collect_chunks_In cs Hcs_plain x) as H. now rewrite Ec in H. }
  subst hl_ids.
  set (s1 := if h_dir e then w_delete_folder_children s p else s).
  set (s2 := w_delete_one s1 p e).
  (* the names of the final state *)
  assert (Hn2 : forall q, nfind s2 q =
            if HardLink.path_eqb p q then None
            else if h_dir e && HardLink.is_child_of p q then None else nfind s q).
  { intro q. unfold s2. rewrite w_delete_one_nfind. destruct (HardLink.path_eqb p q); [reflexivity|].
    unfold s1. destruct (h_dir e); simpl; [apply dfc_nfind|reflexivity]. }
  assert (Hnd2 : NoDup (map fst (names s2))).
  { unfold s2. rewrite w_delete_one_plain_names by (apply (ps_plain _ P p e Eo)).
    apply adel_NoDup. unfold s1. destruct (h_dir e); [|apply (ps_nd _ P)].
    simpl. apply keys_filter_NoDup', (ps_nd _ P). }
  assert (Hsub : forall q e', nfind s2 q = Some e' -> nfind s q = Some e').
  { intros q e' H. rewrite Hn2 in H. destruct (HardLink.path_eqb p q); [discriminate|].
    destruct (h_dir e && HardLink.is_child_of p q); [discriminate|exact H]. }
  assert (Hgood_all : good_list (h_chunks e ++ dc)).
  { apply good_app; [apply (ps_good _ P p e Eo)|]. apply Forall_forall. intros x Hx.
    apply Hdc in Hx. destruct Hx as [[n e'] [Hin [_ Hx]]]. simpl in Hx.
    unfold cs in Hin. destruct (h_dir e); [|contradiction].
    apply (list_children_In s p n e' (ps_nd _ P)) in Hin.
    pose proof (ps_good _ P _ _ Hin) as G. unfold good_list in G. rewrite Forall_forall in G. now apply G. }
  assert (Hfinal : Good ev s s2 (if data then expand_delete ev (h_chunks e ++ dc) else []) data).
  { apply remove_generic; auto.
    - intros c Hc. destruct data; [|contradiction].
      rewrite expand_good in Hc by exact Hgood_all. rewrite fids_app, in_app_iff in Hc.
      destruct Hc as [Hc|Hc].
      + exists p, e. split; [exact Eo|]. split; [|exact Hc]. rewrite Hn2. now rewrite path_eqb_refl.
      + unfold fids in Hc. apply in_map_iff in Hc. destruct Hc as [x [Ex Hx]].
        apply Hdc in Hx. destruct Hx as [[n e'] [Hin [_ Hx]]]. simpl in Hx.
        unfold cs in Hin. destruct (h_dir e) eqn:Ed; [|contradiction].
        apply (list_children_In s p n e' (ps_nd _ P)) in Hin.
        exists (p ++ [n]), e'. split; [exact Hin|]. split.
        * rewrite Hn2. destruct (HardLink.path_eqb p (p ++ [n])); [reflexivity|].
          assert (Hch : HardLink.is_child_of p (p ++ [n]) = true) by (apply is_child_of_spec; eauto).
          rewrite Hch. reflexivity.
        * unfold ids, fids. apply in_map_iff. eauto.
    - intros Hd q e' c Hq Hq2 Hc. subst data.
      rewrite expand_good by exact Hgood_all. rewrite fids_app, in_app_iff.
      rewrite Hn2 in Hq2. destruct (peqb_spec p q) as [Epq|Epq].
      + subst q. assert (e' = e) by congruence. subst e'. now left.
      + destruct (h_dir e) eqn:Ed; simpl in Hq2; [|congruence].
        destruct (HardLink.is_child_of p q) eqn:Ech; [|congruence].
        apply is_child_of_spec in Ech. destruct Ech as [nm Eq]. subst q. right.
        unfold ids, fids in Hc. apply in_map_iff in Hc. destruct Hc as [x [Ex Hx]].
        unfold fids. apply in_map_iff. exists x. split; [exact Ex|]. apply Hdc.
        exists (nm, e'). simpl. split; [|split; [|exact Hx]].
        * unfold cs. apply (list_children_In s p nm e' (ps_nd _ P)). exact Hq.
        * destruct (h_dir e') eqn:Ed'; [|reflexivity].
          rewrite (ps_dir _ P _ _ Hq Ed') in Hx. contradiction. }
  destruct data; unfold st_of, sched_of; simpl; exact Hfinal.
Qed.

(* ================= AtomicRenameEntry of a file ================= *)
Lemma strip_link_fields : forall e, h_hl (strip_link e) = 0%N /\ h_chunks (strip_link e) = h_chunks e /\
  h_dir (strip_link e) = h_dir e.
Proof. intros. repeat split. Qed.

Lemma move_self_good : forall ev s oldp newp eo, PS s -> Excl s -> oldp <> [] -> newp <> [] ->
  nfind s oldp = Some eo -> h_dir eo = false ->
  let r := move_self ev s oldp eo newp in Good ev s (st_of r) (sched_of r) true.
Proof.
  intros ev s oldp newp eo P X Ho Hn Eo Hfile. simpl.
  unfold move_self. destruct (peqb_spec oldp newp) as [E|Hne];
    [unfold st_of, sched_of; simpl; now apply good_same|].
  set (E0 := strip_link eo).
  (* the delete of the old name, after a successful create into s1 = w_insert s0 newp E *)
  assert (Hdel : forall s0 E d1, base_ok s s0 -> nfind s0 newp = nfind s newp ->
            h_hl E = 0%N -> h_chunks E = h_chunks eo -> h_dir E = false ->
            (forall c, In c d1 <-> In c (ids_at s newp)) ->
            let r2 := delete_entry ev (w_insert s0 newp E) oldp false false false in
            Good ev s (st_of r2) (d1 ++ sched_of r2) true).
  { intros s0 E d1 B Hsame HE Hch HEd Hd1. simpl.
    assert (P0 : PS s0).
    { destruct B as [A|[d [t [Hdn A]]]]; subst s0; [exact P|].
      apply PS_insert; auto; try (apply Forall_nil); reflexivity. }
    assert (P1 : PS (w_insert s0 newp E)).
    { apply PS_insert; auto.
      - rewrite Hch. apply (ps_good _ P oldp eo Eo).
      - intro D. congruence. }
    assert (Eo1 : nfind (w_insert s0 newp E) oldp = Some eo).
    { rewrite w_insert_nfind. destruct (peqb_spec newp oldp); [congruence|].
      apply (base_keeps s s0 oldp eo B Eo). }
    unfold delete_entry. rewrite (find_entry_ps ev _ oldp P1 Ho), Eo1, Hfile. simpl.
    unfold st_of, sched_of. simpl. rewrite app_nil_r.
    set (s2 := w_delete_one (w_insert s0 newp E) oldp eo).
    assert (Hn2 : forall q, nfind s2 q = if HardLink.path_eqb oldp q then None
                                         else if HardLink.path_eqb newp q then Some E else nfind s0 q).
    { intro q. unfold s2. rewrite w_delete_one_nfind. destruct (HardLink.path_eqb oldp q); [reflexivity|].
      apply w_insert_nfind. }
    assert (P2 : PS s2).
    { apply (PS_subset (w_insert s0 newp E)); auto.
      - unfold s2. rewrite w_delete_one_plain_names by (apply (ps_plain _ P oldp eo Eo)).
        apply adel_NoDup, (ps_nd _ P1).
      - intros q e' H. unfold s2 in H. rewrite w_delete_one_nfind in H.
        destruct (HardLink.path_eqb oldp q); [discriminate|exact H]. }
    apply (move_generic ev s s2 oldp newp eo E d1); auto.
    - rewrite Hn2. now rewrite path_eqb_refl.
    - rewrite Hn2. destruct (peqb_spec oldp newp); [contradiction|]. now rewrite path_eqb_refl.
    - unfold ids. now rewrite Hch.
    - intros q e' Hq1 Hq2 H. rewrite Hn2 in H.
      destruct (peqb_spec oldp q); [congruence|]. destruct (peqb_spec newp q); [congruence|].
      destruct (base_nfind s s0 q e' B H) as [A|[A [C _]]]; auto.
    - intros q e' Hq1 Hq2 H. rewrite Hn2.
      destruct (peqb_spec oldp q); [congruence|]. destruct (peqb_spec newp q); [congruence|].
      apply (base_keeps s s0 q e' B H). }
  unfold filer_create. rewrite (find_entry_ps ev s newp P Hn).
  destruct (nfind s newp) as [et|] eqn:Et.
  - destruct (filer_update s newp et E0) as [s1 r1] eqn:Eu.
    destruct (filer_update_cases _ _ _ _ _ _ Eu) as [[A B]|[A B]]; subst s1.
    + destruct r1; try congruence; unfold st_of, sched_of; simpl; now apply good_same.
    + subst r1. simpl.
      pose proof (Hdel s (set_crtime E0 (h_crtime et)) (delete_chunks_if_not_new ev et E0)
                    (or_introl eq_refl) Et eq_refl eq_refl Hfile) as G.
      simpl in G.
      destruct (delete_entry ev (w_insert s newp (set_crtime E0 (h_crtime et))) oldp false false false)
        as [[s2 r2] d2]. unfold st_of, sched_of in *. simpl in *. apply G.
      intro c. rewrite (dcinn_good ev et E0 (ps_good _ P newp et Et)). unfold ids_at. rewrite Et.
      split; [tauto|]. intro Hc. split; [exact Hc|].
      intro Hc2. apply (X newp et oldp eo Et Eo (not_eq_sym Hne) c Hc Hc2).
  - destruct (ensure_parent ev s newp E0) as [s1 r1] eqn:Ee.
    destruct (ensure_parent_cases _ _ _ _ _ _ Ee) as [A|[A [B C]]].
    + subst s1. destruct r1; simpl; try (unfold st_of, sched_of; simpl; now apply good_same).
      pose proof (Hdel s E0 [] (or_introl eq_refl) Et eq_refl eq_refl Hfile) as G. simpl in G.
      destruct (delete_entry ev (w_insert s newp E0) oldp false false false) as [[s2 r2] d2].
      unfold st_of, sched_of in *. simpl in *. apply G.
      intro c. unfold ids_at. rewrite Et. tauto.
    + subst r1 s1. simpl.
      assert (Hb : base_ok s (w_insert s (HardLink.parent newp) (implicit_dir E0))) by (right; eauto).
      assert (Hsame : nfind (w_insert s (HardLink.parent newp) (implicit_dir E0)) newp = nfind s newp).
      { rewrite w_insert_nfind. destruct (peqb_spec (HardLink.parent newp) newp) as [E|E]; [|reflexivity].
        exfalso. now apply (parent_neq newp Hn). }
      rewrite Et in Hsame.
      pose proof (Hdel _ E0 [] Hb Hsame eq_refl eq_refl Hfile) as G. simpl in G.
      destruct (delete_entry ev (w_insert (w_insert s (HardLink.parent newp) (implicit_dir E0)) newp E0)
                  oldp false false false) as [[s2 r2] d2].
      unfold st_of, sched_of in *. simpl in *. apply G.
      intro c. unfold ids_at. rewrite Et. tauto.
Qed.
