(* C05 proofs, part 4: CompactMap.Delete, and the refinement of the reference association
   list by every history of Set / Delete / Get. *)
From Coq Require Import List NArith ZArith Bool Lia Sorted Arith.
From Coq Require Import ZifyBool ZifyN ZifyNat.
From SW Require Import model.NeedleMap proof.NeedleMapSearch proof.NeedleMapSec proof.NeedleMapCm.
Import ListNotations.
Local Open Scope N_scope.

(* if the stored values of [cm'] at [key] are the images under [f] of those of [cm], so are the lookups *)
Lemma lookup_map : forall batch cm cm' key (f : sval -> sval),
  cm_inv batch cm -> cm_inv batch cm' -> key < two64 ->
  (forall v', stored cm' key v' <-> exists v, stored cm key v /\ v' = f v) ->
  cm_lookup batch cm' key = option_map f (cm_lookup batch cm key).
Proof.
  intros batch cm cm' key f H H' Hk E.
  destruct (cm_lookup batch cm key) as [v|] eqn:L; simpl.
  - apply (proj2 (lookup_iff batch cm' key (f v) H' Hk)). apply E. exists v. split; [|reflexivity].
    apply (proj1 (lookup_iff batch cm key v H Hk)). exact L.
  - destruct (cm_lookup batch cm' key) as [v'|] eqn:L'; [|reflexivity].
    apply (proj1 (lookup_iff batch cm' key v' H' Hk)) in L'. apply E in L'. destruct L' as [v [Hv _]].
    apply (proj2 (lookup_iff batch cm key v H Hk)) in Hv. congruence.
Qed.

(* ---------- Delete ---------- *)
Lemma sec_keys_same : forall s s',
  s_start s' = s_start s -> s_end s' = s_end s ->
  map sk (s_values s') = map sk (s_values s) -> map sk (s_overflow s') = map sk (s_overflow s) ->
  sec_keys s -> sec_keys s'.
Proof.
  intros s s' Hs He Hv Ho K v Hin.
  assert (Hk : In (sk v) (map sk (s_values s ++ s_overflow s))).
  { rewrite map_app, <- Hv, <- Ho, <- map_app. apply in_map. assumption. }
  apply in_map_iff in Hk. destruct Hk as [v0 [E Hin0]]. destruct (K v0 Hin0) as [A B].
  rewrite Hs, He, <- E. lia.
Qed.

Lemma cm_delete_spec : forall batch cm key cm' ret,
  cm_inv batch cm -> key < two64 ->
  cm_delete batch cm key = (cm', ret) ->
  cm_inv batch cm' /\
  (forall k', k' < two64 ->
     cm_lookup batch cm' k' = if k' =? key then option_map neg_if_live (cm_lookup batch cm key)
                              else cm_lookup batch cm k') /\
  ret = match cm_lookup batch cm key with
        | Some v => if (0 <? ssz v)%Z then ssz v else 0%Z
        | None => 0%Z
        end.
Proof.
  intros batch cm key cm' ret Hinv Hk Hdel. unfold cm_delete in Hdel.
  destruct (locate batch cm key) as [x|] eqn:L.
  - destruct (locate_some batch cm key x Hinv Hk L) as [s [Hx [Hs [Hl [Hnext Hsub]]]]].
    pose proof (nth_error_lt _ _ _ Hx) as Hxl.
    rewrite (nth_of_nth_error cm x empty_section s Hx) in *.
    destruct (sec_delete s key) as [s' r'] eqn:Sdel. injection Hdel as <- <-.
    pose proof (ci_wf _ _ Hinv _ _ Hx) as W.
    destruct (sec_delete_spec batch s key s' r' (sw_inv _ _ W) Sdel) as [I' [Hst [Hen [Hlen [Hlk [Hret [Kv Ko]]]]]]].
    rewrite Hsub, u32_small in Hlk, Hret by assumption.
    assert (W' : sec_wf batch s').
    { constructor; auto.
      - eapply sec_keys_same; eauto. apply (sw_keys _ _ W).
      - rewrite Hst, Hen. apply (sw_se _ _ W).
      - rewrite Hst, Hen. apply (sw_span _ _ W).
      - rewrite Hen. apply (sw_64 _ _ W). }
    assert (Hinv' : cm_inv batch (set_nth x s' cm)).
    { constructor.
      - intros i j a b Hij Ha Hb. rewrite nth_error_set_nth in Ha, Hb by assumption.
        destruct (Nat.eqb_spec i x) as [->|Hix]; destruct (Nat.eqb_spec j x) as [->|Hjx]; try lia.
        + injection Ha as <-. rewrite Hen. apply (ci_ord _ _ Hinv x j s b Hij Hx Hb).
        + injection Hb as <-. rewrite Hst. apply (ci_ord _ _ Hinv i x a s Hij Ha Hx).
        + apply (ci_ord _ _ Hinv i j a b Hij Ha Hb).
      - intros i a Ha. rewrite nth_error_set_nth in Ha by assumption.
        destruct (Nat.eqb_spec i x); [injection Ha as <-; exact W'|apply (ci_wf _ _ Hinv _ _ Ha)]. }
    assert (Hcur : cm_lookup batch cm key = sec_lookup s (key - s_start s)).
    { unfold cm_lookup. rewrite L. rewrite (nth_of_nth_error cm x empty_section s Hx). reflexivity. }
    split; [exact Hinv'|]. split.
    + intros k' Hk'.
      set (f := fun v : sval => if k' =? key then neg_if_live v else v).
      assert (M : cm_lookup batch (set_nth x s' cm) k' = option_map f (cm_lookup batch cm k')).
      { apply lookup_map; auto. intros v'. split.
        - intros [i [a [Ha [Has Hal]]]]. rewrite nth_error_set_nth in Ha by assumption.
          destruct (Nat.eqb_spec i x) as [->|Hix].
          + injection Ha as <-. rewrite Hst in *. rewrite Hlk in Hal. unfold f.
            destruct (N.eqb_spec k' key) as [->|Hne].
            * rewrite N.eqb_refl in Hal. destruct (sec_lookup s (key - s_start s)) as [v|] eqn:E; [|discriminate].
              injection Hal as <-. exists v. split; [exists x, s; auto|reflexivity].
            * destruct (N.eqb_spec (k' - s_start s) (key - s_start s)); [lia|].
              exists v'. split; [exists x, s; auto|reflexivity].
          + exists v'. split; [exists i, a; auto|].
            unfold f. destruct (N.eqb_spec k' key) as [->|Hne]; [|reflexivity].
            (* another section cannot hold the key that section x holds the range of *)
            exfalso. destruct (lookup_in_range batch a key v' (ci_wf _ _ Hinv _ _ Ha) Has Hal) as [He _].
            pose proof (stored_locate batch cm key i a Hinv Hk Ha Has He). congruence.
        - intros [v [[i [a [Ha [Has Hal]]]] ->]]. destruct (Nat.eq_dec i x) as [->|Hix].
          + rewrite Hx in Ha. injection Ha as <-. exists x, s'.
            split; [rewrite nth_error_set_nth by assumption; rewrite Nat.eqb_refl; reflexivity|].
            rewrite Hst. split; [assumption|]. rewrite Hlk. unfold f.
            destruct (N.eqb_spec k' key) as [->|Hne].
            * rewrite N.eqb_refl, Hal. reflexivity.
            * destruct (N.eqb_spec (k' - s_start s) (key - s_start s)); [lia|assumption].
          + exists i, a. split; [rewrite nth_error_set_nth by assumption; destruct (Nat.eqb_spec i x); [contradiction|assumption]|].
            split; [assumption|]. unfold f. destruct (N.eqb_spec k' key) as [->|Hne]; [|assumption].
            exfalso. destruct (lookup_in_range batch a key v (ci_wf _ _ Hinv _ _ Ha) Has Hal) as [He _].
            pose proof (stored_locate batch cm key i a Hinv Hk Ha Has He). congruence. }
      rewrite M. unfold f. destruct (N.eqb_spec k' key) as [->|Hne]; [reflexivity|].
      destruct (cm_lookup batch cm k'); reflexivity.
    + rewrite Hcur, Hret. reflexivity.
  - injection Hdel as <- <-.
    assert (Hcur : cm_lookup batch cm key = None) by (unfold cm_lookup; rewrite L; reflexivity).
    split; [exact Hinv|]. split.
    + intros k' Hk'. destruct (N.eqb_spec k' key) as [->|]; [rewrite Hcur|]; reflexivity.
    + rewrite Hcur. reflexivity.
Qed.

(* ---------- the reference association list ---------- *)
Lemma ref_get_remove : forall r k k', k' <> k -> ref_get (ref_remove r k) k' = ref_get r k'.
Proof.
  induction r as [|[a v] r IH]; intros k k' Hne; [reflexivity|]. unfold ref_remove in *. simpl.
  destruct (N.eqb_spec a k) as [->|Ha]; simpl.
  - destruct (N.eqb_spec k' k); [contradiction|]. apply IH. assumption.
  - destruct (N.eqb_spec k' a); [reflexivity|]. apply IH. assumption.
Qed.

Lemma ref_get_put : forall r k v k', ref_get (ref_put r k v) k' = if k' =? k then Some v else ref_get r k'.
Proof.
  intros r k v k'. unfold ref_put. simpl. destruct (N.eqb_spec k' k); [reflexivity|].
  apply ref_get_remove. assumption.
Qed.

(* ---------- refinement ---------- *)
Definition val (v : sval) : N * Z := (sv_off v, ssz v).
Definition refines (batch : N) (cm : cmap) (r : rmap) : Prop :=
  cm_inv batch cm /\ forall k, k < two64 -> option_map val (cm_lookup batch cm k) = ref_get r k.
Definition op_key (o : op) : N := match o with Put k _ _ => k | Del k _ => k | Get k => k end.
Definition keys_ok (ops : list op) : Prop := Forall (fun o => op_key o < two64) ops.

Lemma refines_nil : forall batch, refines batch [] [].
Proof.
  intros. split; [apply cm_inv_nil|]. intros k _. reflexivity.
Qed.

Lemma val_neg : forall v, val (neg_if_live v) = if (0 <? ssz v)%Z then (sv_off v, (- ssz v)%Z) else val v.
Proof. intros v. unfold neg_if_live, val. destruct (0 <? ssz v)%Z; reflexivity. Qed.

Lemma step_refines : forall batch cm r o, refines batch cm r -> op_key o < two64 ->
  refines batch (fst (cm_step batch cm o)) (fst (ref_step r o)) /\
  snd (cm_step batch cm o) = snd (ref_step r o).
Proof.
  intros batch cm r o [Hinv Hrel] Hk. destruct o as [k off sz|k off|k]; simpl in Hk.
  - (* Put *)
    cbn [cm_step ref_step].
    destruct (cm_set batch cm k off sz) as [[cm' oo] os] eqn:E.
    destruct (cm_set_spec batch cm k off sz cm' oo os Hinv Hk E) as [Hinv' [[v0 [Ho [Hsz Hlk]]] Hold]].
    pose proof (Hrel k Hk) as Rk.
    destruct (ref_get r k) as [[ro rs]|] eqn:G; cbn [fst snd].
    + split; [split; [exact Hinv'|]|].
      * intros k' Hk'. rewrite Hlk by assumption. rewrite ref_get_put.
        destruct (N.eqb_spec k' k); [simpl; unfold val; rewrite Ho, Hsz; reflexivity|apply Hrel; assumption].
      * destruct (cm_lookup batch cm k) as [o|]; simpl in Rk; [|discriminate].
        injection Rk as R1 R2. injection Hold as -> ->. rewrite R1, R2. reflexivity.
    + split; [split; [exact Hinv'|]|].
      * intros k' Hk'. rewrite Hlk by assumption. rewrite ref_get_put.
        destruct (N.eqb_spec k' k); [simpl; unfold val; rewrite Ho, Hsz; reflexivity|apply Hrel; assumption].
      * destruct (cm_lookup batch cm k) as [o|]; simpl in Rk; [discriminate|].
        injection Hold as -> ->. reflexivity.
  - (* Delete *)
    cbn [cm_step ref_step].
    destruct (cm_delete batch cm k) as [cm' ret] eqn:E.
    destruct (cm_delete_spec batch cm k cm' ret Hinv Hk E) as [Hinv' [Hlk Hret]].
    pose proof (Hrel k Hk) as Rk.
    destruct (cm_lookup batch cm k) as [v|] eqn:Lk; simpl in Rk.
    + rewrite <- Rk. change (val v) with (sv_off v, ssz v). cbv beta iota.
      destruct (Z.ltb_spec 0 (ssz v)) as [Hp|Hp]; cbn [fst snd].
      * split; [split; [exact Hinv'|]|].
        -- intros k' Hk'. rewrite Hlk by assumption. rewrite ref_get_put.
           destruct (N.eqb_spec k' k); [|apply Hrel; assumption].
           simpl. rewrite val_neg. destruct (Z.ltb_spec 0 (ssz v)); [reflexivity|lia].
        -- rewrite Hret. destruct (Z.ltb_spec 0 (ssz v)); [reflexivity|lia].
      * split; [split; [exact Hinv'|]|].
        -- intros k' Hk'. rewrite Hlk by assumption.
           destruct (N.eqb_spec k' k) as [->|]; [|apply Hrel; assumption].
           simpl. rewrite val_neg. destruct (Z.ltb_spec 0 (ssz v)); [lia|]. rewrite <- (Hrel k Hk), Lk. reflexivity.
        -- rewrite Hret. destruct (Z.ltb_spec 0 (ssz v)); [lia|reflexivity].
    + rewrite <- Rk. cbn [fst snd]. split; [split; [exact Hinv'|]|].
      * intros k' Hk'. rewrite Hlk by assumption.
        destruct (N.eqb_spec k' k) as [->|]; [|apply Hrel; assumption].
        simpl. rewrite <- (Hrel k Hk), Lk. reflexivity.
      * rewrite Hret. reflexivity.
  - (* Get *)
    cbn [cm_step ref_step fst snd]. split; [split; assumption|].
    rewrite (cm_get_spec batch cm k Hinv Hk). pose proof (Hrel k Hk) as Rk.
    destruct (cm_lookup batch cm k) as [v|]; simpl in Rk; rewrite <- Rk; reflexivity.
Qed.

Lemma run_refines : forall batch ops cm r, refines batch cm r -> keys_ok ops ->
  refines batch (snd (cm_run batch cm ops)) (snd (ref_run r ops)) /\
  fst (cm_run batch cm ops) = fst (ref_run r ops).
Proof.
  intros batch ops. induction ops as [|o ops IH]; intros cm r Href Hk; [split; [exact Href|reflexivity]|].
  inversion Hk as [|? ? Hk1 Hk2]; subst.
  destruct (step_refines batch cm r o Href Hk1) as [Hnext Hres].
  cbn [cm_run ref_run].
  destruct (cm_step batch cm o) as [cm' x] eqn:E1. destruct (ref_step r o) as [r' y] eqn:E2.
  cbn [fst snd] in *.
  destruct (IH cm' r' Hnext Hk2) as [Hfin Hrs].
  destruct (cm_run batch cm' ops) as [rs fin]. destruct (ref_run r' ops) as [rs' fin'].
  cbn [fst snd] in *. split; [exact Hfin|]. rewrite Hres, Hrs. reflexivity.
Qed.

(* invariants of every reachable CompactMap *)
Theorem reachable_inv : forall batch ops, keys_ok ops -> cm_inv batch (snd (cm_run batch [] ops)).
Proof.
  intros batch ops Hk. destruct (run_refines batch ops [] [] (refines_nil batch) Hk) as [[H _] _]. exact H.
Qed.

(* Get after any history = the reference *)
Theorem lookup_refines : forall batch ops key, keys_ok ops -> key < two64 ->
  cm_get batch (snd (cm_run batch [] ops)) key =
  match ref_get (snd (ref_run [] ops)) key with Some (off, sz) => Some (key, off, sz) | None => None end.
Proof.
  intros batch ops key Hk Hkey.
  destruct (run_refines batch ops [] [] (refines_nil batch) Hk) as [[Hinv Hrel] _].
  rewrite (cm_get_spec batch _ key Hinv Hkey). rewrite <- (Hrel key Hkey).
  destruct (cm_lookup batch (snd (cm_run batch [] ops)) key); reflexivity.
Qed.

(* FULL: all results (old values of Set, sizes of Delete, answers of Get) = the reference *)
Theorem results_refine : forall batch ops, keys_ok ops ->
  fst (cm_run batch [] ops) = fst (ref_run [] ops).
Proof.
  intros batch ops Hk.
  destruct (run_refines batch ops [] [] (refines_nil batch) Hk) as [_ H]. exact H.
Qed.
