(* Proofs about model/EcBalance.v (C16). *)
From Coq Require Import List NArith ZArith Bool Lia Arith.
From SW Require Import model.EcBalance.
Import ListNotations.
Local Open Scope N_scope.

Ltac inv H := inversion H; subst; clear H.

(* ====================== ShardBits ====================== *)
Lemma shiftl_1_bit : forall i j, N.testbit (N.shiftl 1 i) j = (i =? j).
Proof. intros. rewrite N.shiftl_1_l. apply N.pow2_bits_eqb. Qed.

Lemma has_add_id : forall b i j, has (add_id b i) j = has b j || (i =? j).
Proof. intros. unfold has, add_id. rewrite N.lor_spec, shiftl_1_bit. reflexivity. Qed.

Lemma has_remove_id : forall b i j, has (remove_id b i) j = has b j && negb (i =? j).
Proof. intros. unfold has, remove_id. rewrite N.ldiff_spec, shiftl_1_bit. reflexivity. Qed.

Lemma has_zero : forall j, has 0 j = false.
Proof. intros. unfold has. apply N.bits_0. Qed.

Lemma shard_ids_has : forall b s, In s (shard_ids b) -> has b s = true.
Proof. intros b s H. unfold shard_ids in H. apply filter_In in H. tauto. Qed.

Lemma shard_ids_NoDup : forall b, NoDup (shard_ids b).
Proof.
  intros. unfold shard_ids. apply NoDup_filter. unfold shard_range.
  repeat (constructor; [simpl; intuition discriminate|]). constructor.
Qed.

Lemma bit_range_NoDup : NoDup bit_range.
Proof. unfold bit_range. repeat (constructor; [simpl; intuition discriminate|]). constructor. Qed.

(* adding one index to a predicate grows a filter over a duplicate-free list by at most one *)
Definition orq (f : N -> bool) (i : N) : N -> bool := fun j => f j || (i =? j).
Lemma filter_add_le : forall (f : N -> bool) i l, NoDup l ->
  (length (filter (orq f i) l) <= length (filter f l) + 1)%nat /\
  (length (filter f l) <= length (filter (orq f i) l))%nat /\
  (~ In i l -> length (filter (orq f i) l) = length (filter f l)).
Proof.
  intros f i l. unfold orq. induction l as [|x l IH]; intros Hnd; simpl.
  - repeat split; lia.
  - inv Hnd. destruct (IH H2) as [A [B C]].
    destruct (N.eqb_spec i x) as [E|E].
    + subst x. rewrite orb_true_r. specialize (C H1).
      destruct (f i); simpl in *; repeat split; try lia; intros X; exfalso; apply X; auto.
    + rewrite orb_false_r.
      destruct (f x); simpl; repeat split; try lia; intros X; assert (Y : ~ In i l) by tauto; specialize (C Y); lia.
Qed.

Lemma filter_sub_le : forall (f g : N -> bool) l, (forall j, g j = true -> f j = true) ->
  (length (filter g l) <= length (filter f l))%nat.
Proof.
  intros f g l H. induction l as [|x l IH]; simpl; auto.
  destruct (g x) eqn:G.
  - rewrite (H x G). simpl. lia.
  - destruct (f x); simpl; lia.
Qed.

Lemma filter_ext_len : forall (f g : N -> bool) l, (forall j, f j = g j) -> length (filter f l) = length (filter g l).
Proof. intros f g l H. induction l as [|x l IH]; simpl; auto. rewrite H. destruct (g x); simpl; auto. Qed.

Lemma count_add_le : forall b i, (count (add_id b i) <= count b + 1)%Z.
Proof.
  intros. unfold count.
  rewrite (filter_ext_len (has (add_id b i)) (orq (has b) i)) by (intros; apply has_add_id).
  pose proof (filter_add_le (has b) i bit_range bit_range_NoDup) as [A _]. lia.
Qed.
Lemma count_add_ge : forall b i, (count b <= count (add_id b i))%Z.
Proof.
  intros. unfold count.
  rewrite (filter_ext_len (has (add_id b i)) (orq (has b) i)) by (intros; apply has_add_id).
  pose proof (filter_add_le (has b) i bit_range bit_range_NoDup) as [_ [A _]]. lia.
Qed.
Lemma count_remove_le : forall b i, (count (remove_id b i) <= count b)%Z.
Proof.
  intros. unfold count.
  pose proof (filter_sub_le (has b) (has (remove_id b i)) bit_range) as A.
  assert (forall j, has (remove_id b i) j = true -> has b j = true).
  { intros j. rewrite has_remove_id. intros X. apply andb_true_iff in X. tauto. }
  specialize (A H). lia.
Qed.
Lemma count_nonneg : forall b, (0 <= count b)%Z.
Proof. intros. unfold count. lia. Qed.

(* ====================== entries of one node ====================== *)
Lemma find_bits_add_in : forall es v s es' d v',
  add_in es v s = Some (es', d) ->
  find_bits es' v' = if v' =? v then add_id (find_bits es v) s else find_bits es v'.
Proof.
  induction es as [|e es IH]; intros v s es' d v' H; simpl in H; [discriminate|].
  destruct (N.eqb_spec (e_vid e) v) as [E|E].
  - inv H. simpl. rewrite N.eqb_refl.
    destruct (N.eqb_spec v' (e_vid e)); subst.
    + rewrite N.eqb_refl. reflexivity.
    + destruct (N.eqb_spec (e_vid e) v'); [congruence|reflexivity].
  - destruct (add_in es v s) as [[r d0]|] eqn:A; [|discriminate]. inv H. simpl.
    destruct (N.eqb_spec (e_vid e) v) as [|_]; [contradiction|].
    destruct (N.eqb_spec (e_vid e) v') as [E2|E2].
    + subst v'. destruct (N.eqb_spec (e_vid e) v); [contradiction|reflexivity].
    + eapply IH; eauto.
Qed.

Lemma add_in_none : forall es v s, add_in es v s = None -> find_bits es v = 0.
Proof.
  induction es as [|e es IH]; intros v s H; simpl in *; auto.
  destruct (e_vid e =? v); [discriminate|].
  destruct (add_in es v s) as [[r d]|] eqn:A; [discriminate|]. eapply IH; eauto.
Qed.

Lemma find_bits_app_new : forall es v c s v',
  add_in es v s = None ->
  find_bits (es ++ [new_entry v c s]) v' = if v' =? v then add_id 0 s else find_bits es v'.
Proof.
  induction es as [|e es IH]; intros v c s v' H; simpl in *.
  - rewrite (N.eqb_sym v v'). reflexivity.
  - destruct (N.eqb_spec (e_vid e) v) as [E|E]; [discriminate|].
    destruct (add_in es v s) as [[r d]|] eqn:A; [discriminate|].
    destruct (N.eqb_spec (e_vid e) v') as [E2|E2].
    + subst v'. destruct (N.eqb_spec (e_vid e) v); [contradiction|reflexivity].
    + apply IH; auto.
Qed.

Lemma find_bits_del_in : forall es v s v',
  find_bits (fst (del_in es v s)) v' = if v' =? v then remove_id (find_bits es v) s else find_bits es v'.
Proof.
  induction es as [|e es IH]; intros v s v'; simpl.
  - destruct (v' =? v); auto.
  - specialize (IH v s v'). destruct (del_in es v s) as [r d] eqn:D. simpl in IH.
    destruct (N.eqb_spec (e_vid e) v) as [E|E]; simpl.
    + destruct (N.eqb_spec (e_vid e) v') as [E2|E2].
      * subst. rewrite N.eqb_refl. reflexivity.
      * destruct (N.eqb_spec v' v); [congruence|]. rewrite IH.
        destruct (N.eqb_spec v' v); [congruence|reflexivity].
    + destruct (N.eqb_spec (e_vid e) v') as [E2|E2].
      * subst v'. destruct (N.eqb_spec (e_vid e) v); [contradiction|reflexivity].
      * exact IH.
Qed.

Lemma find_add_shard : forall n v c s v',
  find (add_shard v c s n) v' = if v' =? v then add_id (find n v) s else find n v'.
Proof.
  intros. unfold find, add_shard, entries. destruct (n_disk n) as [es|] eqn:D; simpl.
  - destruct (add_in es v s) as [[es' d]|] eqn:A; simpl.
    + eapply find_bits_add_in; eauto.
    + rewrite (find_bits_app_new es v c s v' A). rewrite (add_in_none _ _ _ A). reflexivity.
  - rewrite (N.eqb_sym v v'). destruct (v' =? v); reflexivity.
Qed.

Lemma find_del_shard : forall n v s v',
  find (del_shard v s n) v' = if v' =? v then remove_id (find n v) s else find n v'.
Proof.
  intros. unfold find, del_shard, entries. destruct (n_disk n) as [es|] eqn:D; simpl.
  - pose proof (find_bits_del_in es v s v') as H. destruct (del_in es v s) as [es' d]. simpl in *. exact H.
  - rewrite D. simpl. destruct (v' =? v); reflexivity.
Qed.

Lemma add_shard_id : forall v c s n, n_id (add_shard v c s n) = n_id n.
Proof. intros. unfold add_shard. destruct (n_disk n); [destruct (add_in l v s) as [[? ?]|]|]; reflexivity. Qed.
Lemma add_shard_rack : forall v c s n, n_rack (add_shard v c s n) = n_rack n.
Proof. intros. unfold add_shard. destruct (n_disk n); [destruct (add_in l v s) as [[? ?]|]|]; reflexivity. Qed.
Lemma del_shard_id : forall v s n, n_id (del_shard v s n) = n_id n.
Proof. intros. unfold del_shard. destruct (n_disk n); [destruct (del_in l v s)|]; reflexivity. Qed.
Lemma del_shard_rack : forall v s n, n_rack (del_shard v s n) = n_rack n.
Proof. intros. unfold del_shard. destruct (n_disk n); [destruct (del_in l v s)|]; reflexivity. Qed.

(* ====================== node lists ====================== *)
Definition wf_ids (ns : list node) : Prop := NoDup (map n_id ns).
Definition holds (v s : N) (n : node) : bool := has (find n v) s.
Definition b2n (b : bool) : nat := if b then 1%nat else 0%nat.

Lemma total_eq : forall ns v s, total ns v s = length (filter (holds v s) ns).
Proof. reflexivity. Qed.

Definition keeps_id_rack (f : node -> node) : Prop := forall n, n_id (f n) = n_id n /\ n_rack (f n) = n_rack n.

Lemma upd_ids : forall ns id f, keeps_id_rack f -> map n_id (upd_node ns id f) = map n_id ns.
Proof.
  intros ns id f Hf. unfold upd_node. rewrite map_map. apply map_ext. intros n.
  destruct (n_id n =? id); auto. apply Hf.
Qed.

Lemma upd_wf : forall ns id f, keeps_id_rack f -> wf_ids ns -> wf_ids (upd_node ns id f).
Proof. intros. unfold wf_ids. rewrite upd_ids; auto. Qed.

Lemma get_upd : forall ns id f id', keeps_id_rack f ->
  get_node (upd_node ns id f) id' =
  if id' =? id then option_map f (get_node ns id) else get_node ns id'.
Proof.
  induction ns as [|n ns IH]; intros id f id' Hf; simpl.
  - destruct (id' =? id); reflexivity.
  - destruct (N.eqb_spec (n_id n) id) as [E|E].
    + destruct (Hf n) as [Hi _]. rewrite Hi.
      destruct (N.eqb_spec (n_id n) id') as [E2|E2].
      * subst. rewrite N.eqb_refl. reflexivity.
      * destruct (N.eqb_spec id' id); [congruence|]. rewrite IH by auto.
        destruct (N.eqb_spec id' id); [congruence|reflexivity].
    + destruct (N.eqb_spec (n_id n) id') as [E2|E2].
      * subst id'. destruct (N.eqb_spec (n_id n) id); [contradiction|reflexivity].
      * apply IH; auto.
Qed.

Lemma get_node_in : forall ns id n, get_node ns id = Some n -> In n ns /\ n_id n = id.
Proof.
  induction ns as [|x ns IH]; intros id n H; simpl in *; [discriminate|].
  destruct (N.eqb_spec (n_id x) id).
  - inv H. auto.
  - apply IH in H. tauto.
Qed.

Lemma get_node_none_upd : forall ns id f, get_node ns id = None -> upd_node ns id f = ns.
Proof.
  induction ns as [|x ns IH]; intros id f H; simpl in *; auto.
  destruct (n_id x =? id); [discriminate|]. f_equal. apply IH; auto.
Qed.

Lemma notin_upd : forall ns id f, ~ In id (map n_id ns) -> upd_node ns id f = ns.
Proof.
  induction ns as [|x ns IH]; intros id f H; simpl in *; auto.
  destruct (N.eqb_spec (n_id x) id); [exfalso; apply H; auto|]. f_equal. apply IH. tauto.
Qed.

(* a measure that is a sum over nodes changes only at the updated node *)
Lemma filter_len_upd : forall (p : node -> bool) ns id f n, keeps_id_rack f -> wf_ids ns ->
  get_node ns id = Some n ->
  (length (filter p (upd_node ns id f)) + b2n (p n) = length (filter p ns) + b2n (p (f n)))%nat.
Proof.
  induction ns as [|x ns IH]; intros id f n Hf Hwf H; simpl in *; [discriminate|].
  inv Hwf. destruct (N.eqb_spec (n_id x) id) as [E|E].
  - inv H. rewrite notin_upd by auto. destruct (p (f n)), (p n); simpl; lia.
  - specialize (IH id f n Hf H3 H). destruct (p x); simpl; lia.
Qed.

Lemma total_upd : forall ns id f n v s, keeps_id_rack f -> wf_ids ns -> get_node ns id = Some n ->
  (total (upd_node ns id f) v s + b2n (holds v s n) = total ns v s + b2n (holds v s (f n)))%nat.
Proof. intros. rewrite !total_eq. apply filter_len_upd; auto. Qed.

Lemma keeps_add : forall v c s, keeps_id_rack (add_shard v c s).
Proof. intros v c s n. split; [apply add_shard_id|apply add_shard_rack]. Qed.
Lemma keeps_del : forall v s, keeps_id_rack (del_shard v s).
Proof. intros v s n. split; [apply del_shard_id|apply del_shard_rack]. Qed.
#[export] Hint Resolve keeps_add keeps_del : c16.

Lemma holds_add : forall v c s n v' s',
  holds v' s' (add_shard v c s n) = holds v' s' n || ((v' =? v) && (s =? s')).
Proof.
  intros. unfold holds. rewrite find_add_shard. destruct (v' =? v) eqn:E; simpl.
  - apply N.eqb_eq in E. subst. apply has_add_id.
  - rewrite orb_false_r. reflexivity.
Qed.
Lemma holds_del : forall v s n v' s',
  holds v' s' (del_shard v s n) = holds v' s' n && negb ((v' =? v) && (s =? s')).
Proof.
  intros. unfold holds. rewrite find_del_shard. destruct (v' =? v) eqn:E; simpl.
  - apply N.eqb_eq in E. subst. apply has_remove_id.
  - rewrite andb_true_r. reflexivity.
Qed.

(* node_bits / node_rack / node_free through an update *)
Lemma node_rack_upd : forall ns id f x, keeps_id_rack f -> node_rack (upd_node ns id f) x = node_rack ns x.
Proof.
  intros. unfold node_rack. rewrite get_upd by auto. destruct (N.eqb_spec x id); auto.
  subst. destruct (get_node ns id); simpl; auto. apply H.
Qed.

Lemma node_bits_upd_other : forall ns id f x v, keeps_id_rack f -> x <> id ->
  node_bits (upd_node ns id f) x v = node_bits ns x v.
Proof.
  intros. unfold node_bits. rewrite get_upd by auto. destruct (N.eqb_spec x id); [contradiction|reflexivity].
Qed.
