(* C13, snowflake sequencer: the per-pair form of the uniqueness theorem, without
   the hypothesis that the node ids are pairwise different (finding 5 is exactly
   the set of pairs left out). *)
From Coq Require Import List NArith ZArith Bool Arith Lia Sorted.
From Coq Require Import ZifyBool ZifyN ZifyNat.
From SW Require Import model.Seq proof.SeqProofs.
Import ListNotations.
Local Open Scope N_scope.

(* two ids: of the same node, or of two nodes with different 10-bit node ids *)
Definition sf_pair_ok (nids : list N) (e1 e2 : ev) : Prop :=
  match e1, e2 with
  | Ret j _ _, Ret i _ _ => (j = i \/ nth j nids 0 <> nth i nids 0) -> ev_ok e1 e2
  | _, _ => True
  end.

Definition sf_ids_ok (nids : list N) : bool := forallb (fun x => x <? 1024) nids.

Lemma sf_step_pair_ok : forall nids, sf_ids_ok nids = true ->
  forall sts past c, SFinv nids sts past -> sf_guard1 sts c = true ->
  match snd (sf_step1 nids sts c) with
  | Some x => SFinv nids (fst (sf_step1 nids sts c)) (x :: past) /\ (forall old, In old past -> sf_pair_ok nids old x)
  | None => SFinv nids (fst (sf_step1 nids sts c)) past
  end.
Proof.
  intros nids Hlt sts past c HI Hg.
  unfold sf_ids_ok in Hlt. rewrite forallb_forall in Hlt.
  assert (Hnid : forall j, nth j nids 0 < 1024).
  { intros j. destruct (Nat.ltb j (length nids)) eqn:E.
    - apply Nat.ltb_lt in E. specialize (Hlt (nth j nids 0) (nth_In _ _ E)). lia.
    - apply Nat.ltb_ge in E. rewrite nth_overflow by auto. lia. }
  unfold sf_step1. destruct (Nat.ltb (sc_node c) (length sts)) eqn:Ei; [|simpl; exact HI].
  apply Nat.ltb_lt in Ei. set (i := sc_node c) in *.
  unfold sf_guard1, sf_guard in Hg. fold i in Hg.
  set (n := nth i sts sfnode0) in *. set (nid := nth i nids 0).
  pose proof (sfi_step _ _ _ HI i) as Hstep. fold n in Hstep.
  pose proof (Hnid i) as Hnidi. fold nid in Hnidi.
  destruct (sf_generate nid n (sc_now c) (sc_spin c)) as [n' id] eqn:Eg. simpl.
  assert (Hgen : sf_step n' < 4096 /\ id = sf_time n' * 4194304 + nid * 4096 + sf_step n' /\
                 sf_time n * 4194304 + nid * 4096 + sf_step n < id).
  { unfold sf_generate in Eg. rewrite land_4095 in Eg.
    destruct (sc_now c =? sf_time n) eqn:En.
    - destruct ((sf_step n + 1) mod 4096 =? 0) eqn:Ez; inversion Eg; subst; simpl.
      + rewrite sf_id_add by lia. repeat split; try lia.
      + assert (Hs : (sf_step n + 1) mod 4096 = sf_step n + 1).
        { apply N.mod_small. assert (sf_step n + 1 <> 4096); [|lia].
          intro Hx. rewrite Hx in Ez. vm_compute in Ez. discriminate. }
        rewrite Hs. rewrite sf_id_add by lia. repeat split; lia.
    - inversion Eg; subst; simpl. rewrite sf_id_add by lia. repeat split; lia. }
  destruct Hgen as [Hs' [Hid Hgt]].
  assert (Hlen' : length (setnth sts i n') = length nids) by (rewrite length_setnth; apply (sfi_len _ _ _ HI)).
  assert (Hkey_i : sf_key nids (setnth sts i n') i = id).
  { unfold sf_key. rewrite nth_setnth_eq by auto. fold nid. lia. }
  assert (Hkey_j : forall j, j <> i -> sf_key nids (setnth sts i n') j = sf_key nids sts j).
  { intros j Hj. unfold sf_key. rewrite nth_setnth_neq by auto. reflexivity. }
  assert (Hkey_old : sf_key nids sts i < id) by (unfold sf_key; fold n nid; lia).
  assert (Hfield : (id / 4096) mod 1024 = nid).
  { rewrite Hid. apply sf_node_field; auto. }
  split.
  - constructor; auto.
    + intros j. destruct (Nat.eq_dec j i) as [->|Hj].
      * rewrite nth_setnth_eq by auto. auto.
      * rewrite nth_setnth_neq by auto. apply (sfi_step _ _ _ HI).
    + intros e [He|He].
      * subst e. rewrite Hkey_i. repeat split; auto; try lia.
        rewrite <- (sfi_len _ _ _ HI). auto.
      * pose proof (sfi_past _ _ _ HI e He) as Hp. destruct e as [j id0 c0|]; auto.
        destruct Hp as [P1 [P2 [P3 P4]]]. repeat split; auto.
        destruct (Nat.eq_dec j i) as [->|Hj]; [rewrite Hkey_i; lia|rewrite Hkey_j by auto; auto].
  - intros old Ho. pose proof (sfi_past _ _ _ HI old Ho) as Hp. destruct old as [j id0 c0|]; [|destruct Hp].
    destruct Hp as [P1 [P2 [P3 P4]]]. simpl. intros Hcond. unfold in_range. intros x.
    assert (Hne : id0 <> id).
    { destruct (Nat.eq_dec j i) as [->|Hj]; [lia|].
      intro Heq. subst id0. rewrite Hfield in P3. unfold nid in P3.
      destruct Hcond as [Hc|Hc]; [exact (Hj Hc)|]. apply Hc. symmetry. exact P3. }
    lia.
Qed.

(* every run with 10-bit node ids, monotone clocks and counts <= 1: all pairs of
   ids except those of two different nodes with the same node id *)
Theorem sf_pairs_ok : forall nids calls,
  sf_ids_ok nids = true ->
  sf_clock_ok nids (sf_init nids) calls = true ->
  sf_count_trigger calls = false ->
  ForallOrdPairs (sf_pair_ok nids) (somes (snd (sf_run nids (sf_init nids) calls))).
Proof.
  intros nids calls Hn Hc Ht. unfold sf_run.
  assert (Hg : gall (sf_step1 nids) sf_guard1 (sf_init nids) calls = true).
  { unfold sf_guard1. rewrite gall_and. unfold sf_clock_ok in Hc. rewrite Hc. simpl.
    apply sf_count_gall; auto. }
  destruct (grun_ok _ _ _ (sf_step1 nids) sf_guard1 (sf_pair_ok nids) (SFinv nids) (sf_step_pair_ok nids Hn) calls _ [] (sf_init_inv nids) Hg) as [H _].
  exact H.
Qed.
