(* C05 proofs, part 7: the counters.
   - the counters maintained while running equal the reference counters [ref_metric]
     (LevelDB kind and in-memory kind: every history);
   - newNeedleMapMetricFromIndexFile (reverse walk of the .idx with a set of seen keys)
     recomputes exactly those counters for disciplined histories that never write a key
     twice (known finding 2 otherwise). *)
From Coq Require Import List NArith ZArith Bool Lia Sorted Arith.
From Coq Require Import ZifyBool ZifyN ZifyNat.
From SW Require Import model.NeedleMap proof.EcIndexProofs proof.NeedleMapSearch proof.NeedleMapSec
  proof.NeedleMapCm proof.NeedleMapRefine proof.NeedleMapProofs proof.NeedleMapKinds.
Import ListNotations.
Local Open Scope N_scope.
Ltac Zify.zify_post_hook ::= Z.div_mod_to_equations.

(* ---------- the reverse walk as a right fold ---------- *)
Definition Rg (init : metric * list N) (E : list entry) : metric * list N :=
  fold_right (fun e acc => mfi_step acc e) init E.

Lemma mfi_rev : forall E init, fold_left mfi_step (rev E) init = Rg init E.
Proof.
  intros E init. unfold Rg. rewrite <- (rev_involutive E) at 2.
  rewrite fold_left_rev_right. reflexivity.
Qed.

Definition hask (k : N) (E : list entry) : bool := existsb (fun e => e_key e =? k) E.
Definition vsize (e : entry) : N := if size_is_valid (e_size e) then u64_of_size (e_size e) else 0.
(* the (valid) size of the last entry with key k *)
Fixpoint last_valid (k : N) (E : list entry) : N :=
  match E with
  | [] => 0
  | e :: E1 => if (e_key e =? k) && negb (hask k E1) then vsize e else last_valid k E1
  end.
Definition b2n (b : bool) : N := if b then 1 else 0.
Definition mem (x : N) (S : list N) : bool := existsb (N.eqb x) S.

Lemma last_valid_absent : forall k E, hask k E = false -> last_valid k E = 0.
Proof.
  induction E as [|e E IH]; intros H; [reflexivity|]. unfold hask in *. simpl in *.
  apply orb_false_iff in H. destruct H as [H1 H2]. rewrite H1. simpl. apply IH. assumption.
Qed.

(* one step of the walk, split into its metric part and its seen-set part *)
Definition mstep (seen : bool) (m : metric) (e : entry) : metric :=
  let m1 := if size_is_valid (e_size e) then add_fileb (maybe_max m (e_key e)) (e_size e)
            else maybe_max m (e_key e) in
  if negb seen then incr_file m1
  else if size_is_valid (e_size e) then add_delb (incr_del m1) (e_size e) else incr_del m1.

Lemma mfi_step_fst : forall m S e, fst (mfi_step (m, S) e) = mstep (mem (e_key e) S) m e.
Proof.
  intros. unfold mfi_step, mstep, mem. destruct (existsb (N.eqb (e_key e)) S); reflexivity.
Qed.
Lemma mfi_step_snd : forall m S e x,
  mem x (snd (mfi_step (m, S) e)) = (e_key e =? x) || mem x S.
Proof.
  intros m S e x. unfold mfi_step. fold (mem (e_key e) S).
  destruct (mem (e_key e) S) eqn:E; cbn [negb snd].
  - destruct (N.eqb_spec (e_key e) x) as [<-|]; [rewrite E|]; reflexivity.
  - unfold mem. cbn [existsb]. rewrite (N.eqb_sym x (e_key e)). reflexivity.
Qed.

Lemma Rg_seen : forall init E x, mem x (snd (Rg init E)) = hask x E || mem x (snd init).
Proof.
  intros init E x. induction E as [|e E IH]; [reflexivity|].
  cbn [Rg fold_right]. fold (Rg init E). destruct (Rg init E) as [m S] eqn:R.
  rewrite mfi_step_snd. cbn [snd] in IH. rewrite IH. unfold hask. cbn [existsb].
  rewrite orb_assoc. reflexivity.
Qed.

Lemma Rg_fst_cons : forall init e E,
  fst (Rg init (e :: E)) = mstep (hask (e_key e) E || mem (e_key e) (snd init)) (fst (Rg init E)) e.
Proof.
  intros init e E. cbn [Rg fold_right]. fold (Rg init E).
  pose proof (Rg_seen init E (e_key e)) as H. destruct (Rg init E) as [m S]. cbn [fst snd] in *.
  rewrite mfi_step_fst, H. reflexivity.
Qed.

(* how a start state (m1, [k]) changes the metric of the walk over E, compared with (metric0, []) *)
Definition cmp (k : N) (m1 : metric) (E : list entry) (a b : metric) : Prop :=
  (m_file a + b2n (hask k E)) mod two32 = (m_file b + m_file m1) mod two32 /\
  m_del a mod two32 = (m_del b + m_del m1 + b2n (hask k E)) mod two32 /\
  m_delb a mod two64 = (m_delb b + m_delb m1 + last_valid k E) mod two64 /\
  m_fileb a mod two64 = (m_fileb b + m_fileb m1) mod two64 /\
  m_max a = N.max (m_max b) (m_max m1).

Lemma hask_cons : forall x e E, hask x (e :: E) = (e_key e =? x) || hask x E.
Proof. reflexivity. Qed.

Ltac cmp_arith :=
  unfold mstep, add_delb, incr_del, incr_file, add_fileb, maybe_max, add64, b2n, vsize;
  cbn [negb]; cbv beta iota;
  repeat match goal with
  | |- context [if (?a <? ?b) then _ else _] => destruct (N.ltb_spec a b); cbv beta iota
  | |- context [if ?c then _ else _] =>
      lazymatch c with true => fail | false => fail | _ => destruct c end; cbv beta iota
  end;
  cbn [m_file m_del m_delb m_fileb m_max]; cbv beta iota;
  repeat match goal with |- context [u64_of_size ?s] => generalize (u64_of_size s); intro end;
  unfold two32, two64 in *; lia.

(* lia is fast on one congruence at a time: keep only the relevant induction hypothesis *)
Ltac cmp_all Hf Hd Hdb Hfb Hmx :=
  split; [clear Hd Hdb Hfb Hmx; cmp_arith|];
  split; [clear Hf Hdb Hfb Hmx; cmp_arith|];
  split; [clear Hf Hd Hfb Hmx; cmp_arith|];
  split; [clear Hf Hd Hdb Hmx; cmp_arith|];
  clear Hf Hd Hdb Hfb; cmp_arith.

Lemma cmp_walk : forall k m1 E, cmp k m1 E (fst (Rg (m1, [k]) E)) (fst (Rg (metric0, []) E)).
Proof.
  intros k m1 E. induction E as [|e E IH].
  - unfold cmp. cbn [Rg fold_right fst metric0 m_file m_del m_delb m_fileb m_max hask existsb last_valid b2n].
    repeat split; try (f_equal; lia); lia.
  - rewrite !Rg_fst_cons. cbn [snd]. unfold mem at 1 2. cbn [existsb]. rewrite !orb_false_r.
    remember (fst (Rg (m1, [k]) E)) as ma eqn:Ema. remember (fst (Rg (metric0, []) E)) as mb eqn:Emb.
    clear Ema Emb.
    destruct IH as [Hf [Hd [Hdb [Hfb Hmx]]]]. unfold cmp.
    rewrite hask_cons. cbn [last_valid]. unfold b2n in Hf, Hd.
    destruct (N.eqb_spec (e_key e) k) as [Ek|Ek].
    + (* an entry of key k *)
      rewrite Ek. rewrite orb_true_r. cbn [orb andb].
      destruct (hask k E) eqn:Hh; cbn [negb].
      * (* a later k-entry exists: seen in both walks *)
        cmp_all Hf Hd Hdb Hfb Hmx.
      * (* the last k-entry: seen only by the walk that started with k *)
        rewrite (last_valid_absent k E Hh) in Hdb.
        cmp_all Hf Hd Hdb Hfb Hmx.
    + (* an entry of another key: the same branch in both walks *)
      rewrite orb_false_r. cbn [orb andb].
      destruct (hask k E) eqn:Hhk; destruct (hask (e_key e) E) eqn:Hh; cmp_all Hf Hd Hdb Hfb Hmx.
Qed.
