(* Proofs about handle_write_fs (model/FilerWrite.v): path redirection onto a
   directory, Filer.CreateEntry refusals, and what happens to the uploaded
   chunks of a request that is not committed. *)
From Coq Require Import List NArith ZArith Bool Lia.
From SW Require Import model.FilerWrite proof.FilerWriteProofs.
Import ListNotations.

(* the slot the request resolves to / the other slot, read in a later state *)
Definition slot_after (fr : fsreq) (st st' : fsstate) : node :=
  if redirected fr st then fs_b st' else fs_a st'.
Definition other_after (fr : fsreq) (st st' : fsstate) : node :=
  if redirected fr st then fs_a st' else fs_b st'.

Lemma slot_same : forall fr st, slot_after fr st st = target fr st.
Proof. reflexivity. Qed.

Lemma slot_set : forall fr st n, slot_after fr st (set_target fr st n) = n.
Proof. intros. unfold slot_after, set_target. destruct (redirected fr st); reflexivity. Qed.

Lemma other_set : forall fr st n, other_after fr st (set_target fr st n) = other_after fr st st.
Proof. intros. unfold other_after, set_target. destruct (redirected fr st); reflexivity. Qed.

Lemma upload_of_loop : forall rq, upload_of rq = finish (loop_of rq).
Proof. reflexivity. Qed.

(* when nothing failed, the chunks returned are all the chunks uploaded *)
Lemma ok_chunks_all : forall rq, ur_failed (upload_of rq) = false ->
  ur_chunks (upload_of rq) = ur_chunks (loop_of rq).
Proof.
  intros rq H. rewrite upload_of_loop in *. rewrite finish_failed in H.
  unfold finish. rewrite H. reflexivity.
Qed.

Section WithMd5.
Variable md5 : list N -> N.

(* handle_write_fs is handle_write on the resolved slot whenever neither
   saveMetaData (append onto a directory) nor CreateEntry refuses *)
Theorem fs_refines : forall fr st,
  let rq := fr_rq fr in
  let pre := node_entry (target fr st) in
  append_onto_dir fr st = false ->
  (existing rq pre = None -> create_fails fr st = false) ->
  let r := handle_write_fs md5 fr st in
  fo_status r = fst (handle_write md5 rq pre) /\
  node_entry (slot_after fr st (fo_state r)) = snd (handle_write md5 rq pre) /\
  other_after fr st (fo_state r) = other_after fr st st.
Proof.
  intros fr st rq pre Hnd Hok r. subst r. unfold handle_write_fs, handle_write. fold rq.
  unfold existing in Hok. unfold append_onto_dir in Hnd. fold rq in Hnd.
  destruct (rq_method rq); cbn [fo_status fo_state fst snd]; try (rewrite slot_same; auto);
  (destruct (ur_failed (upload_of rq)); cbn [fo_status fo_state fst snd]; [rewrite slot_same; auto|];
   unfold save_metadata; fold pre;
   destruct (if rq_append rq then pre else None) as [e|] eqn:Hex;
   [ assert (Hd : is_dir (target fr st) = false)
       by (destruct (rq_append rq); [exact Hnd | discriminate Hex]);
     rewrite Hd;
     destruct (negb (is_nil (e_content e))); cbn [fo_status fo_state fst snd];
     [rewrite slot_same; auto| rewrite slot_set, other_set; auto]
   | rewrite (Hok eq_refl); cbn [fo_status fo_state fst snd]; rewrite slot_set, other_set; auto ]).
Qed.

(* every answer other than 201 leaves both slots as they were *)
Theorem fs_nonsuccess_no_commit : forall fr st,
  fo_status (handle_write_fs md5 fr st) <> Created ->
  fo_status (handle_write_fs md5 fr st) = Failed /\ fo_state (handle_write_fs md5 fr st) = st.
Proof.
  intros fr st. unfold handle_write_fs.
  destruct (rq_method (fr_rq fr)); cbn [fo_status fo_state]; auto;
  (destruct (ur_failed (upload_of (fr_rq fr))); cbn [fo_status fo_state]; auto;
   destruct (if rq_append (fr_rq fr) then node_entry (target fr st) else None) as [e|];
   [ destruct (is_dir (target fr st)); cbn [fo_status fo_state]; auto;
     destruct (negb (is_nil (e_content e))); cbn [fo_status fo_state]; auto; congruence
   | destruct (create_fails fr st); cbn [fo_status fo_state]; auto; congruence ]).
Qed.

(* a PUT/POST that CreateEntry accepts stores exactly the body under the resolved
   path, leaves the other path alone, leaks nothing and hands exactly the
   replaced file's chunks to DeleteChunks *)
Theorem fs_stored_equals_body : forall fr st,
  let rq := fr_rq fr in
  rq_method rq <> PostRaw -> (1 <= rq_cs rq)%Z -> rq_end rq = Eof -> no_upfail (rq_upfail rq) ->
  existing rq (node_entry (target fr st)) = None -> create_fails fr st = false ->
  let r := handle_write_fs md5 fr st in
  exists e, fo_status r = Created /\
            slot_after fr st (fo_state r) = NFile e /\
            read_entry e = rq_body rq /\
            e_size e = N.of_nat (length (rq_body rq)) /\
            e_md5 e = Some (md5 (rq_body rq)) /\
            other_after fr st (fo_state r) = other_after fr st st /\
            fo_deleted r = [] /\ fo_leaked r = [] /\
            fo_replaced r = match target fr st with NFile e0 => e_chunks e0 | _ => [] end.
Proof.
  intros fr st rq Hm Hcs Hend Hup Hex Hcf r.
  destruct (stored_equals_body md5 rq (node_entry (target fr st)) Hm Hcs Hend Hup Hex)
    as (e & Hw & Hr & Hs & Hmd).
  subst r. unfold handle_write_fs. fold rq. unfold handle_write in Hw.
  assert (Hcore : (let ur := upload_of rq in
                   if ur_failed ur then (Failed, node_entry (target fr st))
                   else let '(ok, post) := save_metadata md5 (rq_append rq) (node_entry (target fr st))
                                             (rq_body rq) ur in
                        ((if ok then Created else Failed), post)) = (Created, Some e)).
  { destruct (rq_method rq); auto; congruence. }
  clear Hw. cbv zeta in Hcore. unfold existing in Hex.
  destruct (ur_failed (upload_of rq)); [discriminate|].
  rewrite (save_new md5 _ _ _ _ Hex) in Hcore.
  inversion Hcore as [He]. clear Hcore.
  rewrite Hex, Hcf.
  exists e. rewrite <- He.
  destruct (rq_method rq); try congruence; cbn [fo_status fo_state fo_deleted fo_leaked fo_replaced];
    rewrite slot_set, other_set; rewrite He; repeat split; auto.
Qed.

(* CreateEntry refuses (a regular file above the path, or a directory at the
   path): reported as failed, nothing committed, and exactly the uploaded chunks
   are handed to DeleteChunks *)
Theorem fs_create_failure : forall fr st,
  let rq := fr_rq fr in
  rq_method rq <> PostRaw -> ur_failed (upload_of rq) = false ->
  existing rq (node_entry (target fr st)) = None -> create_fails fr st = true ->
  let r := handle_write_fs md5 fr st in
  fo_status r = Failed /\ fo_state r = st /\
  fo_deleted r = ur_chunks (loop_of rq) /\ fo_leaked r = [] /\ fo_replaced r = [].
Proof.
  intros fr st rq Hm Hok Hex Hcf r. subst r. unfold handle_write_fs. fold rq.
  unfold existing in Hex. rewrite Hok, Hex, Hcf, (ok_chunks_all rq Hok).
  destruct (rq_method rq); try congruence; repeat split; reflexivity.
Qed.

(* an upload or body-read failure: reported, nothing committed, nothing handed to
   DeleteChunks - every chunk uploaded before stays behind unreferenced *)
Theorem fs_upload_failure_leaks : forall fr st,
  let rq := fr_rq fr in
  rq_method rq <> PostRaw -> ur_failed (upload_of rq) = true ->
  let r := handle_write_fs md5 fr st in
  fo_status r = Failed /\ fo_state r = st /\
  fo_deleted r = [] /\ fo_leaked r = ur_chunks (loop_of rq).
Proof.
  intros fr st rq Hm Hf r. subst r. unfold handle_write_fs. fold rq. rewrite Hf.
  destruct (rq_method rq); try congruence; repeat split; reflexivity.
Qed.

(* append to an existing chunked FILE under the resolved path *)
Theorem fs_append_at_end : forall fr st e0,
  let rq := fr_rq fr in
  rq_method rq <> PostRaw -> (1 <= rq_cs rq)%Z -> rq_end rq = Eof -> no_upfail (rq_upfail rq) ->
  rq_append rq = true -> target fr st = NFile e0 -> e_content e0 = [] -> wf_entry e0 ->
  let r := handle_write_fs md5 fr st in
  exists e1, fo_status r = Created /\
             slot_after fr st (fo_state r) = NFile e1 /\
             read_entry e1 = read_entry e0 ++ rq_body rq /\
             file_end e1 = (file_end e0 + N.of_nat (length (rq_body rq)))%N /\
             e_size e1 = file_end e1 /\
             other_after fr st (fo_state r) = other_after fr st st /\
             fo_deleted r = [] /\ fo_leaked r = [] /\ fo_replaced r = [].
Proof.
  intros fr st e0 rq Hm Hcs Hend Hup Happ Ht Hc Hwf r.
  destruct (append_at_end md5 rq e0 Hm Hcs Hend Hup Happ Hc Hwf) as (e1 & Hw & Hr & Hfe & Hs).
  subst r. unfold handle_write_fs. fold rq. unfold handle_write in Hw.
  assert (Hcore : (let ur := upload_of rq in
                   if ur_failed ur then (Failed, Some e0)
                   else let '(ok, post) := save_metadata md5 (rq_append rq) (Some e0) (rq_body rq) ur in
                        ((if ok then Created else Failed), post)) = (Created, Some e1)).
  { destruct (rq_method rq); auto; congruence. }
  clear Hw. cbv zeta in Hcore.
  destruct (ur_failed (upload_of rq)); [discriminate|].
  unfold save_metadata in Hcore. rewrite Happ in Hcore. cbn iota in Hcore.
  rewrite Happ, Ht. cbn [node_entry is_dir].
  rewrite Hc in *. cbn [is_nil negb] in *.
  inversion Hcore as [He]. clear Hcore.
  exists e1. rewrite <- He.
  destruct (rq_method rq); try congruence; cbn [fo_status fo_state fo_deleted fo_leaked fo_replaced];
    rewrite slot_set, other_set; rewrite He; repeat split; auto.
Qed.

(* append to a file with inline content: refused, nothing committed - and the
   chunks uploaded for it stay behind *)
Theorem fs_append_inline_refused : forall fr st e0,
  let rq := fr_rq fr in
  rq_append rq = true -> node_entry (target fr st) = Some e0 -> e_content e0 <> [] ->
  let r := handle_write_fs md5 fr st in
  fo_status r = Failed /\ fo_state r = st /\
  (is_dir (target fr st) = false -> fo_deleted r = []).
Proof.
  intros fr st e0 rq Happ Ht Hc r. subst r. unfold handle_write_fs. fold rq.
  rewrite Happ, Ht.
  assert (Hn : negb (is_nil (e_content e0)) = true) by (destruct (e_content e0); [congruence|reflexivity]).
  rewrite Hn.
  destruct (rq_method rq); cbn [fo_status fo_state fo_deleted]; auto;
    destruct (ur_failed (upload_of rq)); cbn [fo_status fo_state fo_deleted]; auto;
    destruct (is_dir (target fr st)); cbn [fo_status fo_state fo_deleted]; auto;
    repeat split; auto; discriminate.
Qed.

(* ---------- ?op=append resolved to a DIRECTORY (former finding 0, repaired) ---------- *)

(* every 201 leaves a regular FILE under the resolved path *)
Theorem created_is_file : forall fr st,
  fo_status (handle_write_fs md5 fr st) = Created ->
  exists e, slot_after fr st (fo_state (handle_write_fs md5 fr st)) = NFile e.
Proof.
  intros fr st. unfold handle_write_fs.
  destruct (rq_method (fr_rq fr)); cbn [fo_status fo_state]; try discriminate;
  (destruct (ur_failed (upload_of (fr_rq fr))); cbn [fo_status fo_state]; try discriminate;
   destruct (if rq_append (fr_rq fr) then node_entry (target fr st) else None) as [e|];
   [ destruct (is_dir (target fr st)); cbn [fo_status fo_state]; try discriminate;
     destruct (negb (is_nil (e_content e))); cbn [fo_status fo_state]; try discriminate;
     rewrite slot_set; eauto
   | destruct (create_fails fr st); cbn [fo_status fo_state]; try discriminate;
     rewrite slot_set; eauto ]).
Qed.

(* no request, whatever its answer, changes a DIRECTORY entry under either path *)
Theorem fs_dir_untouched : forall fr st,
  let st' := fo_state (handle_write_fs md5 fr st) in
  (is_dir (fs_a st) = true -> fs_a st' = fs_a st) /\
  (is_dir (fs_b st) = true -> fs_b st' = fs_b st).
Proof.
  intros fr st. cbv zeta.
  assert (Hset : forall n, is_dir (target fr st) = false ->
            (is_dir (fs_a st) = true -> fs_a (set_target fr st n) = fs_a st) /\
            (is_dir (fs_b st) = true -> fs_b (set_target fr st n) = fs_b st)).
  { intros n Hd. unfold target, set_target in *.
    destruct (redirected fr st); cbn [fs_a fs_b]; split; intro H; try reflexivity; congruence. }
  unfold handle_write_fs.
  destruct (rq_method (fr_rq fr)); cbn [fo_state]; auto;
  (destruct (ur_failed (upload_of (fr_rq fr))); cbn [fo_state]; auto;
   destruct (if rq_append (fr_rq fr) then node_entry (target fr st) else None) as [e|];
   [ destruct (is_dir (target fr st)) eqn:Hd; cbn [fo_state]; auto;
     destruct (negb (is_nil (e_content e))); cbn [fo_state]; auto
   | destruct (create_fails fr st) eqn:Hcf; cbn [fo_state]; auto;
     apply Hset; unfold create_fails in Hcf;
     destruct (target fr st); [reflexivity | reflexivity | discriminate] ]).
Qed.

(* ?op=append whose resolved path holds a directory (and a body that uploads):
   reported as failed, nothing committed, exactly the uploaded chunks are handed
   to DeleteChunks, none is left behind *)
Theorem fs_append_dir_refused : forall fr st,
  let rq := fr_rq fr in
  rq_method rq <> PostRaw -> ur_failed (upload_of rq) = false ->
  append_onto_dir fr st = true ->
  let r := handle_write_fs md5 fr st in
  fo_status r = Failed /\ fo_state r = st /\
  fo_deleted r = ur_chunks (loop_of rq) /\ fo_leaked r = [] /\ fo_replaced r = [].
Proof.
  intros fr st rq Hm Hok Hap r. subst r. unfold append_onto_dir in Hap. fold rq in Hap.
  apply andb_prop in Hap. destruct Hap as [Happ Hd].
  unfold handle_write_fs. fold rq.
  rewrite Hok, Happ, Hd, (ok_chunks_all rq Hok).
  destruct (target fr st) as [|e|e]; try discriminate Hd. cbn [node_entry].
  destruct (rq_method rq); try congruence; repeat split; reflexivity.
Qed.

End WithMd5.

(* ---------- concrete instances ---------- *)

Definition mk_fr rq slash hasname pf : fsreq :=
  {| fr_rq := rq; fr_slash := slash; fr_hasname := hasname; fr_parent_file := pf |}.

Definition empty_dir : entry := {| e_size := 0; e_content := []; e_chunks := []; e_md5 := None |}.

(* PUT /d onto a directory /d: the body lands under /d/d, /d stays a directory *)
Lemma example_redirect :
  let fr := mk_fr (mk_rq Put false false 2 0 [1;2;3]%N Eof []) false true false in
  let st := {| fs_a := NDir empty_dir; fs_b := NMissing |} in
  create_fails fr st = false /\
  handle_write_fs (fun _ => 0%N) fr st =
    {| fo_status := Created;
       fo_state := {| fs_a := NDir empty_dir;
                      fs_b := NFile {| e_size := 3; e_content := [];
                                       e_chunks := [Ck 0 2 [1;2]; Ck 2 1 [3]]%N; e_md5 := Some 0%N |} |};
       fo_deleted := []; fo_leaked := []; fo_replaced := [] |}.
Proof. vm_compute. split; reflexivity. Qed.

(* PUT below a regular file: 409, nothing committed, both uploaded chunks deleted *)
Lemma example_parent_file :
  let fr := mk_fr (mk_rq Put false false 2 0 [1;2;3]%N Eof []) false true true in
  let st := {| fs_a := NMissing; fs_b := NMissing |} in
  create_fails fr st = true /\ ur_failed (upload_of (fr_rq fr)) = false /\
  handle_write_fs (fun _ => 0%N) fr st =
    {| fo_status := Failed; fo_state := st;
       fo_deleted := [Ck 0 2 [1;2]; Ck 2 1 [3]]%N; fo_leaked := []; fo_replaced := [] |}.
Proof. vm_compute. repeat split; reflexivity. Qed.

(* the second of two uploads fails: the first chunk stays behind, unreferenced *)
Lemma example_leak :
  let fr := mk_fr (mk_rq Put false false 2 0 [1;2;3]%N Eof [false;true]) false true false in
  let st := {| fs_a := NMissing; fs_b := NMissing |} in
  ur_failed (upload_of (fr_rq fr)) = true /\
  handle_write_fs (fun _ => 0%N) fr st =
    {| fo_status := Failed; fo_state := st;
       fo_deleted := []; fo_leaked := [Ck 0 2 [1;2]%N]; fo_replaced := [] |}.
Proof. vm_compute. split; reflexivity. Qed.

(* the witness of former finding 0: multipart POST without a file name, ?op=append,
   onto a directory: failed, the directory is untouched, both uploaded chunks deleted *)
Lemma example_append_dir_refused :
  let fr := mk_fr (mk_rq PostForm true false 2 0 [1;2;3]%N Eof []) false false false in
  let st := {| fs_a := NDir empty_dir; fs_b := NMissing |} in
  rq_method (fr_rq fr) <> PostRaw /\ ur_failed (upload_of (fr_rq fr)) = false /\
  append_onto_dir fr st = true /\
  handle_write_fs (fun _ => 0%N) fr st =
    {| fo_status := Failed; fo_state := st;
       fo_deleted := [Ck 0 2 [1;2]; Ck 2 1 [3]]%N; fo_leaked := []; fo_replaced := [] |}.
Proof. vm_compute. repeat split; try reflexivity; discriminate. Qed.

(* an append onto a FILE reached through a directory redirect is accepted *)
Lemma example_append_redirected :
  let fr := mk_fr (mk_rq Put true false 2 0 [9]%N Eof []) false true false in
  let st := {| fs_a := NDir empty_dir;
               fs_b := NFile {| e_size := 0; e_content := []; e_chunks := [Ck 0 3 [1;2;3]%N]; e_md5 := None |} |} in
  append_onto_dir fr st = false /\
  handle_write_fs (fun _ => 0%N) fr st =
    {| fo_status := Created;
       fo_state := {| fs_a := NDir empty_dir;
                      fs_b := NFile {| e_size := 4; e_content := [];
                                       e_chunks := [Ck 0 3 [1;2;3]; Ck 3 1 [9]]%N; e_md5 := None |} |};
       fo_deleted := []; fo_leaked := []; fo_replaced := [] |}.
Proof. vm_compute. split; reflexivity. Qed.
