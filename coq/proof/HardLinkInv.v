(* The link-record invariant of model/HardLink.v and the effect of the store wrapper's
   primitives on it.  [InvG l s]: every record's counter equals the number of names
   carrying its id PLUS the occurrences of the id in the list [l] of pending ids (ids
   whose name has already been removed but whose DeleteHardLink is still to come, or
   whose counter has already been raised for a name still to be created: the two
   multi-step operations, recursive delete and Dir.Link).  [InvG [] s] is the C21
   invariant proper. *)
From Coq Require Import List NArith ZArith Bool String Arith Lia Permutation.
From SW Require Import model.FilerNS proof.FilerNSBase model.Chunks model.HardLink proof.HardLinkBase.
Import ListNotations.
Local Open Scope list_scope.

Record InvG (l : list N) (s : st) : Prop := {
  ig_nd : NoDup (map fst (names s));
  ig_kd : NoDup (map fst (kvs s));
  ig_zero : kv_get s 0%N = None;
  ig_cnt : forall X b, kv_get s X = Some b ->
             h_hl b = X /\ h_dir b = false /\
             h_cnt b = Z.of_nat (cn (names s) X + occ X l) /\ 0 < cn (names s) X + occ X l;
  ig_pres : forall X, X <> 0%N -> 0 < cn (names s) X + occ X l -> kv_get s X <> None;
  ig_dir : forall p e, nfind s p = Some e -> h_dir e = true -> h_hl e = 0%N
}.

Definition Inv (s : st) : Prop := InvG [] s.

Lemma Inv_empty : Inv empty_st.
Proof.
  constructor; simpl.
  - constructor.
  - constructor.
  - reflexivity.
  - intros X b H. discriminate.
  - intros X _ H. unfold cn in H. simpl in H. lia.
  - intros p e H. discriminate.
Qed.

Lemma nfind_In : forall s p e, nfind s p = Some e -> In (p, e) (names s).
Proof. intros. unfold nfind in H. eapply aget_Some_In; [apply peqb_spec|eassumption]. Qed.

Lemma In_nfind : forall s p e, NoDup (map fst (names s)) -> In (p, e) (names s) -> nfind s p = Some e.
Proof. intros. unfold nfind. eapply In_aget; eauto. apply peqb_spec. Qed.

Lemma ind_zero_plain : forall e X, h_hl e = 0%N -> X <> 0%N -> ind e X = 0.
Proof. intros e X H HX. unfold ind. rewrite H. destruct (N.eqb_spec 0 X); congruence. Qed.

Lemma ind_same : forall e X, h_hl e = X -> ind e X = 1.
Proof. intros. unfold ind. rewrite H. now rewrite N.eqb_refl. Qed.

Lemma ind_other : forall e X, h_hl e <> X -> ind e X = 0.
Proof. intros. unfold ind. destruct (N.eqb_spec (h_hl e) X); congruence. Qed.

Lemma ind_le1 : forall e X, ind e X <= 1.
Proof. intros. unfold ind. destruct (N.eqb (h_hl e) X); lia. Qed.

(* a key of the KV store is never 0 *)
Lemma kv_key_nonzero : forall l s X b, InvG l s -> kv_get s X = Some b -> X <> 0%N.
Proof. intros l s X b I H E. subst. rewrite (ig_zero _ _ I) in H. discriminate. Qed.

Lemma cn_name_pos : forall s p e, nfind s p = Some e -> 0 < cn (names s) (h_hl e).
Proof. intros. eapply cn_pos_In; [eapply nfind_In; eassumption|reflexivity]. Qed.

(* a name carrying an id has its record *)
Lemma linked_has_record : forall l s p e, InvG l s -> nfind s p = Some e -> h_hl e <> 0%N ->
  exists b, kv_get s (h_hl e) = Some b.
Proof.
  intros l s p e I H Hn. destruct (kv_get s (h_hl e)) as [b|] eqn:E; [eauto|].
  exfalso. apply (ig_pres _ _ I (h_hl e) Hn); [|assumption].
  pose proof (cn_name_pos s p e H). lia.
Qed.

(* ================= names-only changes ================= *)
(* the generic step: the names change from m to m', the KV store is untouched, and the
   count of every non-zero id together with the pending list stays the same *)
Lemma InvG_names : forall l l' s m',
  InvG l s ->
  NoDup (map fst m') ->
  (forall X, X <> 0%N -> cn m' X + occ X l' = cn (names s) X + occ X l) ->
  (forall p e, aget HardLink.path_eqb m' p = Some e -> h_dir e = true -> h_hl e = 0%N) ->
  InvG l' (mk_st m' (kvs s)).
Proof.
  intros l l' s m' I Hnd Hcn Hdir. constructor; simpl; auto.
  - apply (ig_kd _ _ I).
  - apply (ig_zero _ _ I).
  - intros X b H. change (kv_get s X = Some b) in H.
    pose proof (kv_key_nonzero _ _ _ _ I H) as HX.
    destruct (ig_cnt _ _ I X b H) as [A [B [C D]]]. rewrite (Hcn X HX). auto.
  - intros X HX Hpos. rewrite (Hcn X HX) in Hpos. apply (ig_pres _ _ I X HX Hpos).
Qed.

(* raw_put of an entry that carries the same id as the blob it replaces (or a plain entry over
   a plain blob / at a new name) *)
Lemma InvG_raw_put_same : forall l s p e,
  InvG l s ->
  (forall X, X <> 0%N -> ind e X = oind (nfind s p) X) ->
  (h_dir e = true -> h_hl e = 0%N) ->
  InvG l (raw_put s p e).
Proof.
  intros l s p e I Hind Hd. unfold raw_put. apply (InvG_names l l s); auto.
  - apply aput_NoDup; [apply peqb_spec | apply (ig_nd _ _ I)].
  - intros X HX. pose proof (cn_put (names s) p e X (ig_nd _ _ I)) as H.
    specialize (Hind X HX). unfold nfind in Hind. lia.
  - intros q e' H Hdir. rewrite (aget_aput _ peqb_spec) in H.
    destruct (HardLink.path_eqb p q); [inversion H; subst; auto|].
    apply (ig_dir _ _ I q e' H Hdir).
Qed.

(* ================= DeleteHardLink with the id pending ================= *)
Lemma InvG_kv : forall l l' s k',
  InvG l s ->
  NoDup (map fst k') ->
  aget N.eqb k' 0%N = None ->
  (forall X b, aget N.eqb k' X = Some b ->
     h_hl b = X /\ h_dir b = false /\
     h_cnt b = Z.of_nat (cn (names s) X + occ X l') /\ 0 < cn (names s) X + occ X l') ->
  (forall X, X <> 0%N -> 0 < cn (names s) X + occ X l' -> aget N.eqb k' X <> None) ->
  InvG l' (mk_st (names s) k').
Proof.
  intros. constructor; simpl; auto.
  - apply (ig_nd _ _ H).
  - apply (ig_dir _ _ H).
Qed.

Lemma occ_cons_same : forall X l, occ X (X :: l) = S (occ X l).
Proof. intros. simpl. now rewrite N.eqb_refl. Qed.
Lemma occ_cons_other : forall X Y l, Y <> X -> occ X (Y :: l) = occ X l.
Proof. intros. simpl. destruct (N.eqb_spec Y X); [congruence|reflexivity]. Qed.

Lemma set_link_fields : forall b id c,
  h_hl (set_link b id c) = id /\ h_cnt (set_link b id c) = c /\ h_dir (set_link b id c) = h_dir b /\
  h_chunks (set_link b id c) = h_chunks b /\ h_mtime (set_link b id c) = h_mtime b.
Proof. intros. repeat split. Qed.

Lemma dhl_inv : forall l s X, InvG (X :: l) s -> InvG l (delete_hard_link s X).
Proof.
  intros l s X I. unfold delete_hard_link.
  destruct (kv_get s X) as [b|] eqn:E.
  - pose proof (kv_key_nonzero _ _ _ _ I E) as HX.
    destruct (ig_cnt _ _ I X b E) as [A [B [C D]]]. rewrite occ_cons_same in C, D.
    destruct (Z.leb_spec (h_cnt b - 1) 0) as [Hle|Hgt].
    + (* the record goes: no name and no pending occurrence is left *)
      assert (Hz : cn (names s) X + occ X l = 0) by lia.
      unfold kv_del. apply (InvG_kv (X :: l) l s); auto.
      * apply adel_NoDup, (ig_kd _ _ I).
      * rewrite (aget_adel _ Neqb_spec). destruct (N.eqb X 0); [reflexivity|apply (ig_zero _ _ I)].
      * intros Y b' H. rewrite (aget_adel _ Neqb_spec) in H.
        destruct (N.eqb_spec X Y); [discriminate|].
        destruct (ig_cnt _ _ I Y b' H) as [A' [B' [C' D']]].
        rewrite occ_cons_other in C', D' by assumption. auto.
      * intros Y HY Hpos. rewrite (aget_adel _ Neqb_spec).
        destruct (N.eqb_spec X Y); [subst; lia|].
        apply (ig_pres _ _ I Y HY). rewrite occ_cons_other by assumption. assumption.
    + unfold kv_put. apply (InvG_kv (X :: l) l s); auto.
      * apply aput_NoDup; [apply Neqb_spec|apply (ig_kd _ _ I)].
      * rewrite (aget_aput _ Neqb_spec). destruct (N.eqb_spec X 0); [congruence|apply (ig_zero _ _ I)].
      * intros Y b' H. rewrite (aget_aput _ Neqb_spec) in H.
        destruct (N.eqb_spec X Y).
        -- subst Y. inversion H; subst b'. simpl. repeat split; auto; lia.
        -- destruct (ig_cnt _ _ I Y b' H) as [A' [B' [C' D']]].
           rewrite occ_cons_other in C', D' by assumption. auto.
      * intros Y HY Hpos. rewrite (aget_aput _ Neqb_spec).
        destruct (N.eqb_spec X Y); [discriminate|].
        apply (ig_pres _ _ I Y HY). rewrite occ_cons_other by assumption. assumption.
  - (* no record: nothing pending for X can have been counted *)
    constructor; try apply I.
    + intros Y b H. destruct (ig_cnt _ _ I Y b H) as [A [B [C D]]].
      destruct (N.eq_dec X Y); [subst; congruence|].
      rewrite occ_cons_other in C, D by assumption. auto.
    + intros Y HY Hpos. destruct (N.eq_dec X Y).
      * subst Y. exfalso. apply (ig_pres _ _ I X HY); [rewrite occ_cons_same; lia|assumption].
      * apply (ig_pres _ _ I Y HY). rewrite occ_cons_other by assumption. assumption.
Qed.

Lemma dhl_fold_inv : forall ids l s, InvG (ids ++ l) s -> InvG l (fold_left delete_hard_link ids s).
Proof.
  induction ids as [|X ids IH]; simpl; intros l s I; [assumption|].
  apply IH. now apply dhl_inv.
Qed.

Lemma dhl_names : forall s X, names (delete_hard_link s X) = names s.
Proof.
  intros. unfold delete_hard_link. destruct (kv_get s X); [|reflexivity].
  destruct (h_cnt h - 1 <=? 0)%Z; reflexivity.
Qed.

Lemma dhl_fold_names : forall ids s, names (fold_left delete_hard_link ids s) = names s.
Proof. induction ids; simpl; intros; [reflexivity|]. now rewrite IHids, dhl_names. Qed.

(* moving an id between the pending list and the names: the multiset view *)
Lemma InvG_pending_perm : forall l l' s, (forall X, occ X l = occ X l') -> InvG l s -> InvG l' s.
Proof.
  intros l l' s H I. constructor; try apply I.
  - intros X b E. rewrite <- H. apply (ig_cnt _ _ I X b E).
  - intros X HX Hp. rewrite <- H in Hp. apply (ig_pres _ _ I X HX Hp).
Qed.

(* ================= w_delete_one ================= *)
Lemma view_plain : forall s e, h_hl e = 0%N -> view s e = e.
Proof. intros. unfold view. now rewrite H. Qed.

Lemma view_linked : forall s e b, h_hl e <> 0%N -> kv_get s (h_hl e) = Some b -> view s e = b.
Proof. intros. unfold view. destruct (N.eqb_spec (h_hl e) 0); [congruence|]. now rewrite H0. Qed.

Lemma view_hl : forall l s p e, InvG l s -> nfind s p = Some e -> h_hl (view s e) = h_hl e.
Proof.
  intros l s p e I H. destruct (N.eq_dec (h_hl e) 0) as [E|E]; [now rewrite view_plain|].
  destruct (linked_has_record _ _ _ _ I H E) as [b Hb].
  rewrite (view_linked s e b E Hb). apply (ig_cnt _ _ I _ _ Hb).
Qed.

(* removing a name: the id it carried becomes pending *)
Lemma raw_del_inv : forall l s p e, InvG l s -> nfind s p = Some e -> h_hl e <> 0%N ->
  InvG (h_hl e :: l) (raw_del s p).
Proof.
  intros l s p e I H Hn. unfold raw_del. apply (InvG_names l (h_hl e :: l) s); auto.
  - apply adel_NoDup, (ig_nd _ _ I).
  - intros X HX. pose proof (cn_adel (names s) p X (ig_nd _ _ I)) as Hc.
    unfold nfind in H. rewrite H in Hc. simpl in Hc. unfold ind in Hc. simpl.
    destruct (N.eqb (h_hl e) X); lia.
  - intros q e' Hq Hd. rewrite (aget_adel _ peqb_spec) in Hq.
    destruct (HardLink.path_eqb p q); [discriminate|]. apply (ig_dir _ _ I q e' Hq Hd).
Qed.

Lemma raw_del_inv_plain : forall l s p, InvG l s ->
  (forall e, nfind s p = Some e -> h_hl e = 0%N) -> InvG l (raw_del s p).
Proof.
  intros l s p I H. unfold raw_del. apply (InvG_names l l s); auto.
  - apply adel_NoDup, (ig_nd _ _ I).
  - intros X HX. pose proof (cn_adel (names s) p X (ig_nd _ _ I)) as Hc.
    fold (nfind s p) in Hc. destruct (nfind s p) as [e|] eqn:E; simpl in Hc; [|lia].
    rewrite (ind_zero_plain e X (H e eq_refl) HX) in Hc. lia.
  - intros q e' Hq Hd. rewrite (aget_adel _ peqb_spec) in Hq.
    destruct (HardLink.path_eqb p q); [discriminate|]. apply (ig_dir _ _ I q e' Hq Hd).
Qed.

Lemma dhl_nfind : forall s X q, nfind (delete_hard_link s X) q = nfind s q.
Proof. intros. unfold nfind. now rewrite dhl_names. Qed.

Lemma w_delete_one_inv : forall l s p e, InvG l s -> nfind s p = Some e ->
  InvG l (w_delete_one s p (view s e)).
Proof.
  intros l s p e I H. unfold w_delete_one. rewrite (view_hl _ _ _ _ I H).
  destruct (N.eqb_spec (h_hl e) 0) as [E|E].
  - apply raw_del_inv_plain; auto. intros e' H'. congruence.
  - (* DeleteHardLink first, then the name: the same as the other order *)
    assert (Hs : raw_del (delete_hard_link s (h_hl e)) p = delete_hard_link (raw_del s p) (h_hl e)).
    { unfold delete_hard_link, raw_del, kv_get. simpl.
      destruct (aget N.eqb (kvs s) (h_hl e)); [|reflexivity].
      destruct (h_cnt h - 1 <=? 0)%Z; reflexivity. }
    rewrite Hs. apply dhl_inv. apply raw_del_inv; auto.
Qed.

(* ================= DeleteFolderChildren ================= *)
Definition cnl (cs : list (name * hentry)) (X : N) : nat :=
  List.length (filter (fun c => N.eqb (h_hl (snd c)) X) cs).

Lemma cnl_cons : forall c cs X, cnl (c :: cs) X = ind (snd c) X + cnl cs X.
Proof. intros. unfold cnl, ind. simpl. destruct (N.eqb (h_hl (snd c)) X); reflexivity. Qed.

Lemma cnl_perm : forall a b X, Permutation a b -> cnl a X = cnl b X.
Proof.
  intros a b X H. induction H; auto.
  - rewrite !cnl_cons. lia.
  - rewrite !cnl_cons. lia.
  - congruence.
Qed.

Lemma insert_by_name_perm' : forall x l, Permutation (x :: l) (insert_by_name x l).
Proof.
  induction l as [|y l IH]; simpl; [apply Permutation_refl|].
  destruct (String.leb (fst x) (fst y)); [apply Permutation_refl|].
  eapply perm_trans; [apply perm_swap|]. now apply perm_skip.
Qed.

Lemma sort_perm' : forall l, Permutation l (fold_right insert_by_name [] l).
Proof.
  induction l as [|x l IH]; simpl; [constructor|].
  eapply perm_trans; [apply perm_skip, IH|apply insert_by_name_perm'].
Qed.

Definition children_raw (m : nstore) (d : path) : list (name * hentry) :=
  flat_map (fun kv => match HardLink.strip_prefix d (fst kv) with Some [n] => [(n, snd kv)] | _ => [] end) m.

Lemma list_children_perm : forall s d, Permutation (children_raw (names s) d) (list_children s d).
Proof. intros. unfold list_children. apply sort_perm'. Qed.

Lemma cnl_children_raw : forall m d X,
  cnl (children_raw m d) X = cn (filter (fun kv => HardLink.is_child_of d (fst kv)) m) X.
Proof.
  induction m as [|[q e] m IH]; intros d X; [reflexivity|].
  unfold children_raw in *. simpl. unfold HardLink.is_child_of, FilerNS.is_child_of, HardLink.strip_prefix in *. simpl.
  destruct (FilerNS.strip_prefix d q) as [[|n [|n' r]]|]; simpl; try apply IH.
  rewrite cnl_cons, cn_cons. simpl. now rewrite IH.
Qed.

(* what collect_children reports as link ids: the ids of the non-directory children that carry one *)
Lemma occ_collect : forall cs X, X <> 0%N ->
  (forall c, In c cs -> h_dir (snd c) = true -> h_hl (snd c) = 0%N) ->
  occ X (snd (collect_children cs)) = cnl cs X.
Proof.
  induction cs as [|c cs IH]; intros X HX Hd; [reflexivity|].
  simpl. rewrite cnl_cons.
  assert (IH' : occ X (snd (collect_children cs)) = cnl cs X).
  { apply IH; auto. intros. apply Hd; auto. now right. }
  destruct (h_dir (snd c)) eqn:Ed.
  - rewrite (ind_zero_plain _ X (Hd c (or_introl eq_refl) Ed) HX). simpl. exact IH'.
  - destruct (N.eqb_spec (h_hl (snd c)) 0) as [E|E]; simpl.
    + rewrite (ind_zero_plain _ X E HX). simpl. exact IH'.
    + unfold ind. rewrite IH'. reflexivity.
Qed.

Lemma children_raw_In : forall m d n e, In (n, e) (children_raw m d) -> In (d ++ [n], e) m.
Proof.
  intros m d n e H. unfold children_raw in H. apply in_flat_map in H. destruct H as [[q e'] [Hin H]].
  simpl in H. destruct (HardLink.strip_prefix d q) as [[|n' [|n'' r]]|] eqn:E; simpl in H; try contradiction.
  destruct H as [H|[]]. inversion H; subst.
  apply strip_prefix_spec in E. now subst.
Qed.

Lemma dfc_inv : forall l s d, InvG l s ->
  InvG (snd (collect_children (list_children s d)) ++ l) (w_delete_folder_children s d).
Proof.
  intros l s d I. unfold w_delete_folder_children.
  apply (InvG_names l _ s); auto.
  - apply keys_filter_NoDup', (ig_nd _ _ I).
  - intros X HX. rewrite occ_app.
    rewrite occ_collect; auto.
    + rewrite <- (cnl_perm _ _ X (list_children_perm s d)), cnl_children_raw.
      pose proof (cn_filter_split (fun kv => HardLink.is_child_of d (fst kv)) (names s) X) as Hs.
      cbv beta in Hs. simpl names. unfold HardLink.path in *. lia.
    + intros [n e] Hin Hdir. simpl in *.
      apply (Permutation_in _ (Permutation_sym (list_children_perm s d))) in Hin.
      apply children_raw_In in Hin.
      apply (ig_dir _ _ I (d ++ [n]) e); auto. apply In_nfind; [apply (ig_nd _ _ I)|assumption].
  - intros q e Hq Hd.
    rewrite (aget_filter_key _ peqb_spec (fun k => negb (HardLink.is_child_of d k))) in Hq.
    destruct (negb (HardLink.is_child_of d q)); [|discriminate].
    apply (ig_dir _ _ I q e Hq Hd).
Qed.

(* ================= w_insert ================= *)
(* a plain entry over a plain blob or at a new name leaves the KV store alone *)
Lemma huhl_plain : forall s p e, h_hl e = 0%N ->
  (forall ex, nfind s p = Some ex -> h_hl ex = 0%N) -> handle_update_to_hard_links s p e = s.
Proof.
  intros s p e H Hold. unfold handle_update_to_hard_links. rewrite H. simpl.
  destruct (nfind s p) as [ex|] eqn:E; [|reflexivity]. now rewrite (Hold ex eq_refl).
Qed.

(* replacing a blob that carries X by a plain one: X becomes pending *)
Lemma raw_put_drop_inv : forall l s p ex e, InvG l s -> nfind s p = Some ex -> h_hl ex <> 0%N ->
  h_hl e = 0%N -> InvG (h_hl ex :: l) (raw_put s p e).
Proof.
  intros l s p ex e I H Hn He. unfold raw_put. apply (InvG_names l (h_hl ex :: l) s); auto.
  - apply aput_NoDup; [apply peqb_spec|apply (ig_nd _ _ I)].
  - intros Y HY. pose proof (cn_put (names s) p e Y (ig_nd _ _ I)) as Hc.
    fold (nfind s p) in Hc. rewrite H in Hc. simpl in Hc. rewrite (ind_zero_plain e Y He HY) in Hc.
    unfold ind in Hc. simpl. destruct (N.eqb (h_hl ex) Y); lia.
  - intros q e' Hq Hd. rewrite (aget_aput _ peqb_spec) in Hq.
    destruct (HardLink.path_eqb p q); [inversion Hq; subst; assumption|].
    apply (ig_dir _ _ I q e' Hq Hd).
Qed.

(* a plain entry at any name: a link id carried by the replaced blob is decremented (the repair) *)
Lemma w_insert_plain_inv' : forall l s p e, InvG l s -> h_hl e = 0%N -> InvG l (w_insert s p e).
Proof.
  intros l s p e I He. unfold w_insert, handle_update_to_hard_links. rewrite He. simpl.
  destruct (nfind s p) as [ex|] eqn:E.
  - destruct (N.eqb_spec (h_hl ex) 0) as [Z|Z]; simpl.
    + apply InvG_raw_put_same; [exact I| |intro; exact He].
      intros X HX. rewrite E. simpl. now rewrite (ind_zero_plain e X He HX), (ind_zero_plain ex X Z HX).
    + assert (Hs : raw_put (delete_hard_link s (h_hl ex)) p e = delete_hard_link (raw_put s p e) (h_hl ex)).
      { unfold delete_hard_link, raw_put, kv_get. simpl.
        destruct (aget N.eqb (kvs s) (h_hl ex)); [|reflexivity].
        destruct (h_cnt h - 1 <=? 0)%Z; reflexivity. }
      rewrite Hs. apply dhl_inv. now apply raw_put_drop_inv.
  - apply InvG_raw_put_same; [exact I| |intro; exact He].
    intros X HX. rewrite E. simpl. apply (ind_zero_plain e X He HX).
Qed.

Lemma w_insert_plain_inv : forall l s p e, InvG l s -> h_hl e = 0%N ->
  (forall ex, nfind s p = Some ex -> h_hl ex = 0%N) ->
  InvG l (w_insert s p e).
Proof. intros l s p e I He _. now apply w_insert_plain_inv'. Qed.

Lemma kv_put_nfind : forall s k v q, nfind (kv_put s k v) q = nfind s q.
Proof. reflexivity. Qed.

(* the record of id X is (re)written with counter c; the names are untouched *)
Lemma kv_put_inv : forall l l' s X e,
  InvG l s -> X <> 0%N -> h_hl e = X -> h_dir e = false ->
  h_cnt e = Z.of_nat (cn (names s) X + occ X l') -> 0 < cn (names s) X + occ X l' ->
  (forall Y, Y <> X -> occ Y l' = occ Y l) ->
  InvG l' (kv_put s X e).
Proof.
  intros l l' s X e I HX Hh Hd Hc Hp Hocc. unfold kv_put. apply (InvG_kv l l' s); auto.
  - apply aput_NoDup; [apply Neqb_spec|apply (ig_kd _ _ I)].
  - rewrite (aget_aput _ Neqb_spec). destruct (N.eqb_spec X 0); [congruence|apply (ig_zero _ _ I)].
  - intros Y b H. rewrite (aget_aput _ Neqb_spec) in H. destruct (N.eqb_spec X Y).
    + subst Y. inversion H; subst b. auto.
    + destruct (ig_cnt _ _ I Y b H) as [A [B [C D]]]. rewrite (Hocc Y) by congruence. auto.
  - intros Y HY Hpos. rewrite (aget_aput _ Neqb_spec). destruct (N.eqb_spec X Y); [discriminate|].
    apply (ig_pres _ _ I Y HY). rewrite <- (Hocc Y) by congruence. assumption.
Qed.

(* a write through a name whose blob carries X: the record and the blob are replaced, the counter kept *)
Lemma w_insert_same_link_inv : forall l s p ex b e, InvG l s ->
  nfind s p = Some ex -> h_hl ex <> 0%N -> kv_get s (h_hl ex) = Some b ->
  h_hl e = h_hl ex -> h_cnt e = h_cnt b -> h_dir e = false ->
  InvG l (w_insert s p e).
Proof.
  intros l s p ex b e I H Hn Hb He Hc Hd. unfold w_insert, handle_update_to_hard_links.
  destruct (N.eqb_spec (h_hl e) 0) as [E|E]; [congruence|].
  rewrite kv_put_nfind, H. rewrite <- He, N.eqb_refl, andb_false_r.
  destruct (ig_cnt _ _ I _ _ Hb) as [A [B [C D]]].
  apply InvG_raw_put_same.
  - apply (kv_put_inv l l s (h_hl e) e); auto; congruence.
  - intros X HX. rewrite kv_put_nfind, H. simpl. unfold ind. now rewrite He.
  - congruence.
Qed.

(* Dir.Link, first half: the old name gets (or keeps) the id X with the counter raised by one;
   X becomes pending until the new name is there *)
Lemma w_insert_link_first_inv : forall l s p ex e X, InvG l s ->
  nfind s p = Some ex -> h_dir e = false -> h_hl e = X -> X <> 0%N ->
  ((h_hl ex = 0%N /\ kv_get s X = None /\ h_cnt e = 2%Z) \/
   (h_hl ex = X /\ exists b, kv_get s X = Some b /\ h_cnt e = (h_cnt b + 1)%Z)) ->
  InvG (X :: l) (w_insert s p e).
Proof.
  intros l s p ex e X I H Hd He HX Hcase. unfold w_insert, handle_update_to_hard_links.
  destruct (N.eqb_spec (h_hl e) 0) as [E|E]; [congruence|].
  rewrite kv_put_nfind, H. rewrite He.
  assert (Hnodrop : negb (h_hl ex =? 0)%N && negb (h_hl ex =? X)%N = false).
  { destruct Hcase as [[A _]|[A _]]; rewrite A; [reflexivity|]. now rewrite N.eqb_refl, andb_false_r. }
  rewrite Hnodrop.
  destruct Hcase as [[A [B C]]|[A [b [B C]]]].
  - (* fresh id: no name and nothing pending carried it *)
    assert (Hz : cn (names s) X + occ X l = 0).
    { destruct (cn (names s) X + occ X l) eqn:Ez; [reflexivity|].
      exfalso. apply (ig_pres _ _ I X HX); [lia|assumption]. }
    assert (I1 : InvG (X :: X :: l) (kv_put s X e)).
    { apply (kv_put_inv l _ s X e); auto.
      - rewrite !occ_cons_same. rewrite C. lia.
      - rewrite !occ_cons_same. lia.
      - intros Y HY. rewrite !occ_cons_other by congruence. reflexivity. }
    (* the name now carries X: one pending occurrence is consumed *)
    unfold raw_put. simpl.
    apply (InvG_names (X :: X :: l) (X :: l) (kv_put s X e)); auto.
    + apply aput_NoDup; [apply peqb_spec|apply (ig_nd _ _ I)].
    + intros Y HY. simpl names. pose proof (cn_put (names s) p e Y (ig_nd _ _ I)) as Hc.
      fold (nfind s p) in Hc. rewrite H in Hc. simpl in Hc.
      rewrite (ind_zero_plain ex Y A HY) in Hc.
      destruct (N.eq_dec Y X).
      * subst Y. rewrite (ind_same e X He) in Hc. rewrite !occ_cons_same. lia.
      * rewrite (ind_other e Y) in Hc by congruence. rewrite !occ_cons_other by congruence. lia.
    + intros q e' Hq Hdir. rewrite (aget_aput _ peqb_spec) in Hq.
      destruct (HardLink.path_eqb p q); [inversion Hq; subst; congruence|].
      apply (ig_dir _ _ I q e' Hq Hdir).
  - destruct (ig_cnt _ _ I _ _ B) as [A' [B' [C' D']]].
    apply InvG_raw_put_same.
    + apply (kv_put_inv l _ s X e); auto.
      * rewrite occ_cons_same. rewrite C, C'. lia.
      * rewrite occ_cons_same. lia.
      * intros Y HY. rewrite occ_cons_other by congruence. reflexivity.
    + intros Y HY. rewrite kv_put_nfind, H. simpl. unfold ind. now rewrite He, A.
    + congruence.
Qed.

(* Dir.Link, second half: the new name appears carrying the pending id *)
Lemma w_insert_link_second_inv : forall l s p b e X, InvG (X :: l) s ->
  nfind s p = None -> h_dir e = false -> h_hl e = X -> X <> 0%N ->
  kv_get s X = Some b -> h_cnt e = h_cnt b ->
  InvG l (w_insert s p e).
Proof.
  intros l s p b e X I H Hd He HX Hb Hc. unfold w_insert, handle_update_to_hard_links.
  destruct (N.eqb_spec (h_hl e) 0) as [E|E]; [congruence|].
  rewrite kv_put_nfind, H. rewrite He.
  destruct (ig_cnt _ _ I _ _ Hb) as [A' [B' [C' D']]].
  assert (I1 : InvG (X :: l) (kv_put s X e)).
  { apply (kv_put_inv (X :: l) _ s X e); auto. congruence. }
  unfold raw_put. simpl.
  apply (InvG_names (X :: l) l (kv_put s X e)); auto.
  - apply aput_NoDup; [apply peqb_spec|apply (ig_nd _ _ I)].
  - intros Y HY. simpl names. pose proof (cn_put (names s) p e Y (ig_nd _ _ I)) as Hcn.
    fold (nfind s p) in Hcn. rewrite H in Hcn. simpl in Hcn.
    destruct (N.eq_dec Y X).
    + subst Y. rewrite (ind_same e X He) in Hcn. rewrite occ_cons_same. lia.
    + rewrite (ind_other e Y) in Hcn by congruence. rewrite occ_cons_other by congruence. lia.
  - intros q e' Hq Hdir. rewrite (aget_aput _ peqb_spec) in Hq.
    destruct (HardLink.path_eqb p q); [inversion Hq; subst; congruence|].
    apply (ig_dir _ _ I q e' Hq Hdir).
Qed.
