(* Proofs about model/VolumeCrash.v (C03), part 1: byte-string lemmas, the needle maps, the
   invariant of the running volume. *)
From Coq Require Import List NArith ZArith Bool Lia ZifyBool ZifyN ZifyNat.
From SW Require Import model.Needle proof.NeedleProofs model.VolumeCrash.
Import ListNotations.
Local Open Scope N_scope.
Ltac Zify.zify_post_hook ::= Z.div_mod_to_equations.

Arguments N.add : simpl never.
Arguments N.mul : simpl never.
Arguments N.div : simpl never.
Arguments N.modulo : simpl never.
Arguments N.sub : simpl never.
Arguments N.pow : simpl never.
Arguments N.ltb : simpl never.
Arguments N.leb : simpl never.
Arguments N.eqb : simpl never.
Arguments N.land : simpl never.
Arguments Z.of_N : simpl never.
Arguments Z.to_N : simpl never.
Arguments Z.ltb : simpl never.
Arguments Z.eqb : simpl never.
Arguments Z.opp : simpl never.

(* ---------- byte strings ---------- *)
Lemma takeN_takeN : forall A (l : list A) a b, takeN a (takeN b l) = takeN (N.min a b) l.
Proof.
  intros. rewrite !takeN_firstn, firstn_firstn. f_equal. lia.
Qed.

Lemma dropN_takeN : forall A (l : list A) o m, dropN o (takeN m l) = takeN (m - o) (dropN o l).
Proof.
  intros. rewrite !takeN_firstn, !dropN_skipn, skipn_firstn_comm. f_equal. lia.
Qed.

Lemma In_takeN : forall A (l : list A) k x, In x (takeN k l) -> In x l.
Proof.
  intros A l k x H. rewrite takeN_firstn in H. rewrite <- (firstn_skipn (N.to_nat k) l).
  apply in_or_app. left. assumption.
Qed.

Lemma takeN_ge : forall A (l : list A) k, len l <= k -> takeN k l = l.
Proof. intros. rewrite takeN_firstn. apply firstn_all2. unfold len in *. lia. Qed.

Lemma takeN_app_ge : forall A (a b : list A) k, len a <= k -> takeN k (a ++ b) = a ++ takeN (k - len a) b.
Proof.
  intros A a b k H. rewrite !takeN_firstn, firstn_app. unfold len in *.
  rewrite firstn_all2 by lia. f_equal. f_equal. lia.
Qed.

(* a window of a prefix of X is either short or the same window of X *)
Lemma window_of_prefix : forall (X : list N) m o a,
  a <= len (takeN a (dropN o (takeN m X))) -> takeN a (dropN o (takeN m X)) = takeN a (dropN o X).
Proof.
  intros X m o a H. rewrite dropN_takeN, takeN_takeN in *.
  destruct (N.le_gt_cases a (m - o)) as [Hle|Hgt].
  - rewrite N.min_l in * by assumption. reflexivity.
  - rewrite N.min_r in H by lia. rewrite N.min_r by lia.
    pose proof (len_takeN_le _ (dropN o X) (m - o)). lia.
Qed.

Lemma len_repeat : forall A (x : A) k, len (repeat x k) = N.of_nat k.
Proof. intros. unfold len. rewrite repeat_length. reflexivity. Qed.

Lemma len_zeros : forall k, len (zeros k) = k.
Proof. intros. unfold zeros. rewrite len_repeat. lia. Qed.

Lemma round_up8_spec : forall x, x <= round_up8 x /\ round_up8 x mod 8 = 0 /\ (x mod 8 = 0 -> round_up8 x = x).
Proof. intros. unfold round_up8. destruct (x mod 8 =? 0) eqn:E; lia. Qed.

(* ---------- needle maps ---------- *)
Lemma size_valid_pos : forall s, size_valid s = true -> (0 < s)%Z.
Proof. intros s H. unfold size_valid, TombstoneFileSize in H. lia. Qed.

Lemma size_valid_of_N : forall x, 0 < x -> size_valid (Z.of_N x) = true.
Proof. intros. unfold size_valid, TombstoneFileSize. lia. Qed.

Lemma size_deleted_neg : forall s, size_deleted s = false -> (0 <= s)%Z.
Proof. intros s H. unfold size_deleted, TombstoneFileSize in H. lia. Qed.

Lemma nm_get_remove_same : forall m k, nm_get (nm_remove m k) k = None.
Proof.
  induction m as [|[k' v] m IH]; intros k; [reflexivity|].
  cbn [nm_remove]. destruct (k' =? k) eqn:E; [apply IH|]. cbn [nm_get]. rewrite E. apply IH.
Qed.

Lemma nm_get_remove_other : forall m k k', k' <> k -> nm_get (nm_remove m k) k' = nm_get m k'.
Proof.
  induction m as [|[k0 v] m IH]; intros k k' H; [reflexivity|].
  cbn [nm_remove nm_get]. destruct (k0 =? k) eqn:E.
  - destruct (k0 =? k') eqn:E'; [lia|]. apply IH; assumption.
  - cbn [nm_get]. destruct (k0 =? k') eqn:E'; [reflexivity|]. apply IH; assumption.
Qed.

(* every binding of a loaded map comes from an index entry: same key and offset, the size of
   the entry or (in-memory map, after a deletion) its negation *)
Definition from_entry (es : list entry) (k : N) (nv : nval) : Prop :=
  exists e, In e es /\ e_key e = k /\ nv_off nv = e_off e /\ negb (e_off e =? 0) = true /\
            ((nv_size nv = e_size e /\ (e_size e <> TombstoneFileSize)) \/
             (nv_size nv = (- e_size e)%Z /\ size_valid (e_size e) = true)).

Lemma from_entry_mono : forall es es' k nv, incl es es' -> from_entry es k nv -> from_entry es' k nv.
Proof. intros es es' k nv Hi [e [H1 H2]]. exists e. split; [apply Hi; assumption|assumption]. Qed.

Definition map_from (es : list entry) (m : nmap) : Prop :=
  forall k nv, nm_get m k = Some nv -> from_entry es k nv.

Lemma load_compact_step_from : forall es m e, map_from es m -> map_from (es ++ [e]) (load_compact_step m e).
Proof.
  intros es m e Hm k nv Hg. unfold load_compact_step in Hg.
  assert (Hinc : incl es (es ++ [e])) by (apply incl_appl, incl_refl).
  destruct (negb (e_off e =? 0) && size_valid (e_size e)) eqn:Ec.
  - unfold nm_set in Hg. cbn [nm_get] in Hg. destruct (e_key e =? k) eqn:Ek.
    + inversion Hg; subst nv; clear Hg. exists e. cbn [nv_off nv_size].
      apply andb_true_iff in Ec. destruct Ec as [Eo Es].
      split; [apply in_or_app; right; left; reflexivity|]. split; [lia|]. split; [reflexivity|].
      split; [assumption|]. left. split; [reflexivity|]. apply size_valid_pos in Es. unfold TombstoneFileSize. lia.
    + eapply from_entry_mono; eauto.
  - unfold nm_delete in Hg. destruct (nm_get m (e_key e)) as [v|] eqn:Eg; [|eapply from_entry_mono; eauto].
    destruct (size_valid (nv_size v)) eqn:Ev; [|eapply from_entry_mono; eauto].
    cbn [nm_get] in Hg. destruct (e_key e =? k) eqn:Ek; [|eapply from_entry_mono; eauto].
    inversion Hg; subst nv; clear Hg. cbn [nv_off nv_size].
    assert (Hk : e_key e = k) by lia. rewrite Hk in Eg.
    destruct (Hm k v Eg) as [e0 [Hin [Hkey [Hoff [Hnz Hsz]]]]].
    exists e0. split; [apply Hinc; assumption|]. split; [assumption|]. split; [assumption|]. split; [assumption|].
    right. destruct Hsz as [[Hs _]|[Hs Hv]].
    + rewrite <- Hs. split; [reflexivity|assumption].
    + exfalso. apply size_valid_pos in Ev. apply size_valid_pos in Hv. lia.
Qed.

Lemma load_sorted_step_from : forall es m e, map_from es m -> map_from (es ++ [e]) (load_sorted_step m e).
Proof.
  intros es m e Hm k nv Hg. unfold load_sorted_step in Hg.
  assert (Hinc : incl es (es ++ [e])) by (apply incl_appl, incl_refl).
  assert (Hrm : forall k nv, nm_get (nm_remove m (e_key e)) k = Some nv -> from_entry (es ++ [e]) k nv).
  { intros k0 nv0 H0. destruct (N.eq_dec k0 (e_key e)) as [->|Hne].
    - rewrite nm_get_remove_same in H0. discriminate.
    - rewrite nm_get_remove_other in H0 by assumption. eapply from_entry_mono; eauto. }
  destruct (negb (e_off e =? 0) && negb (e_size e =? TombstoneFileSize)%Z) eqn:Ec; [|apply Hrm; assumption].
  unfold nm_set in Hg. cbn [nm_get] in Hg. destruct (e_key e =? k) eqn:Ek; [|apply Hrm; assumption].
  inversion Hg; subst nv; clear Hg. exists e. cbn [nv_off nv_size].
  apply andb_true_iff in Ec. destruct Ec as [Eo Es].
  split; [apply in_or_app; right; left; reflexivity|]. split; [lia|]. split; [reflexivity|].
  split; [assumption|]. left. split; [reflexivity|]. lia.
Qed.

Lemma fold_from : forall (step : nmap -> entry -> nmap),
  (forall es m e, map_from es m -> map_from (es ++ [e]) (step m e)) ->
  forall es2 es1 m, map_from es1 m -> map_from (es1 ++ es2) (fold_left step es2 m).
Proof.
  intros step Hstep. induction es2 as [|e es2 IH]; intros es1 m Hm.
  - rewrite app_nil_r. assumption.
  - cbn [fold_left]. replace (es1 ++ e :: es2) with ((es1 ++ [e]) ++ es2) by (rewrite <- app_assoc; reflexivity).
    apply IH. apply Hstep. assumption.
Qed.

Lemma load_compact_from : forall es, map_from es (load_compact es).
Proof.
  intros. unfold load_compact. apply (fold_from load_compact_step load_compact_step_from es [] []).
  intros k nv H. discriminate.
Qed.

Lemma load_sorted_from : forall es, map_from es (load_sorted es).
Proof.
  intros. unfold load_sorted. apply (fold_from load_sorted_step load_sorted_step_from es [] []).
  intros k nv H. discriminate.
Qed.

Lemma load_compact_snoc : forall es e, load_compact (es ++ [e]) = load_compact_step (load_compact es) e.
Proof. intros. unfold load_compact. rewrite fold_left_app. reflexivity. Qed.

(* ---------- the records of the running volume ---------- *)
Definition cat (l : list (N * arec)) : list N := concat (map (fun p => encode Ver (a_n (snd p))) l).
Definition dat_of (l : list (N * arec)) : list N := super_block ++ cat l.
Definition idx_of (l : list (N * arec)) : list entry := map (fun p => entry_of (fst p) (snd p)) l.

(* the stored offsets are the running sum of the record lengths *)
Fixpoint lay (s : N) (l : list (N * arec)) : Prop :=
  match l with
  | [] => True
  | (o, r) :: t => o = s /\ lay (s + len (encode Ver (a_n r))) t
  end.

Lemma cat_app : forall a b, cat (a ++ b) = cat a ++ cat b.
Proof. intros. unfold cat. rewrite map_app, concat_app. reflexivity. Qed.

Lemma cat_cons : forall o r t, cat ((o, r) :: t) = encode Ver (a_n r) ++ cat t.
Proof. reflexivity. Qed.

Lemma lay_app : forall a b s, lay s (a ++ b) <-> lay s a /\ lay (s + len (cat a)) b.
Proof.
  induction a as [|[o r] a IH]; intros b s.
  - cbn [app lay cat map concat]. rewrite len_nil, N.add_0_r. tauto.
  - cbn [app lay]. rewrite cat_cons, len_app, IH, N.add_assoc. tauto.
Qed.

(* record (o, r) sits at offset o of the data file *)
Lemma lay_split : forall l s o r, lay s l -> In (o, r) l ->
  exists l1 l2, l = l1 ++ (o, r) :: l2 /\ o = s + len (cat l1).
Proof.
  induction l as [|[o0 r0] l IH]; intros s o r Hl Hin; [destruct Hin|].
  destruct Hin as [Heq|Hin].
  - inversion Heq; subst. exists [], l. destruct Hl as [Ho _]. split; [reflexivity|].
    cbn [cat map concat]. rewrite len_nil. lia.
  - destruct Hl as [Ho Hl]. destruct (IH _ o r Hl Hin) as [l1 [l2 [E1 E2]]].
    exists ((o0, r0) :: l1), l2. split; [rewrite E1; reflexivity|].
    rewrite cat_cons, len_app. lia.
Qed.

Lemma lay_find : forall l s o r, lay s l -> In (o, r) l -> find_rec l o = Some r.
Proof.
  induction l as [|[o0 r0] l IH]; intros s o r Hl Hin; [destruct Hin|].
  destruct Hl as [Ho Hl]. cbn [find_rec]. destruct Hin as [Heq|Hin].
  - inversion Heq; subst. rewrite N.eqb_refl. reflexivity.
  - destruct (lay_split _ _ _ _ Hl Hin) as [l1 [l2 [_ E2]]].
    pose proof (len_encode_ge Ver (a_n r0)).
    destruct (o0 =? o) eqn:E; [lia|]. eapply IH; eauto.
Qed.

Lemma find_rec_in : forall l o r, find_rec l o = Some r -> In (o, r) l.
Proof.
  induction l as [|[o0 r0] l IH]; intros o r H; [discriminate|].
  cbn [find_rec] in H. destruct (o0 =? o) eqn:E.
  - inversion H; subst. left. f_equal. lia.
  - right. apply IH. assumption.
Qed.

(* ---------- well-formed histories ---------- *)
Section WithCrc.
  Variable crc : list N -> N.

  (* what a caller passes: a representable needle with a payload and Checksum = NewCRC(Data) (the
     empty payload is finding 0 of C01/C02); 64/32-bit id, cookie and clock for a delete *)
  Definition wf_op (o : op) : Prop :=
    match o with
    | Write n => rec_ok n /\ data n <> [] /\ checksum n = crc (data n)
    | Delete k c ts => k < 2 ^ 64 /\ c < 2 ^ 32 /\ ts < 2 ^ 64
    end.

  Definition arec_ok (r : arec) : Prop :=
    rec_ok (a_n r) /\
    (if a_tomb r then data (a_n r) = [] else data (a_n r) <> [] /\ checksum (a_n r) = crc (data (a_n r))).

  Lemma tombstone_ok : forall k c ts, k < 2 ^ 64 -> c < 2 ^ 32 -> ts < 2 ^ 64 ->
    arec_ok {| a_n := tombstone k c ts; a_tomb := true |}.
  Proof.
    intros k c ts Hk Hc Hts. split; [|reflexivity]. split; [reflexivity|].
    unfold ranges_ok, tombstone. cbn [cookie id name last_modified pairs_size append_at_ns].
    change (body_size _) with 0. repeat split; try assumption; try reflexivity. rewrite len_nil. lia.
  Qed.

  Definition recs_ok (l : list (N * arec)) : Prop := Forall (fun p => arec_ok (snd p)) l.

  Lemma len_enc_ok : forall r, arec_ok r -> len (encode Ver (a_n r)) = actual_size (body_size (a_n r)) Ver.
  Proof. intros r [[H _] _]. apply len_encode. assumption. Qed.

  Lemma cat_aligned : forall l, recs_ok l -> len (cat l) mod 8 = 0.
  Proof.
    induction l as [|[o r] l IH]; intros H; [reflexivity|].
    inversion H as [|? ? Hr Hl]; subst. rewrite cat_cons, len_app.
    specialize (IH Hl). cbn [snd] in Hr. rewrite (len_enc_ok r Hr).
    pose proof (actual_size_aligned (body_size (a_n r)) Ver). lia.
  Qed.

  (* ---------- the invariant of the running volume ---------- *)
  Record Inv (st : pstate) : Prop := {
    inv_dat : p_dat st = dat_of (p_recs st);
    inv_lay : lay 8 (p_recs st);
    inv_idx : p_idx st = idx_of (p_recs st);
    inv_ok : recs_ok (p_recs st);
    inv_map : p_map st = load_compact (p_idx st)
  }.

  Lemma len_super_block : len super_block = 8.
  Proof. reflexivity. Qed.

  Lemma inv_init : Inv p_init.
  Proof. constructor; try reflexivity; constructor. Qed.

  Lemma len_dat_of : forall l, len (dat_of l) = 8 + len (cat l).
  Proof. intros. unfold dat_of. rewrite len_app, len_super_block. reflexivity. Qed.

  (* where a record of the volume lies in its data file *)
  Lemma rec_in_dat : forall st o r, Inv st -> In (o, r) (p_recs st) ->
    exists pre post, p_dat st = pre ++ encode Ver (a_n r) ++ post /\ len pre = o /\ o mod 8 = 0 /\ 8 <= o /\ arec_ok r.
  Proof.
    intros st o r HI Hin. destruct (lay_split _ _ _ _ (inv_lay st HI) Hin) as [l1 [l2 [E1 E2]]].
    pose proof (inv_ok st HI) as Hok. rewrite E1 in Hok. unfold recs_ok in Hok.
    apply Forall_app in Hok. destruct Hok as [Hok1 Hok2]. inversion Hok2 as [|? ? Hr _]; subst x l.
    exists (super_block ++ cat l1), (cat l2). split.
    - rewrite (inv_dat st HI), E1. unfold dat_of. rewrite cat_app, cat_cons, <- !app_assoc. reflexivity.
    - rewrite len_app, len_super_block. pose proof (cat_aligned l1 Hok1). cbn [snd] in Hr.
      split; [lia|]. split; [lia|]. split; [lia|assumption].
  Qed.

  (* every index entry of the volume is the entry of one of its records *)
  Lemma entry_in_idx : forall st e, Inv st -> In e (p_idx st) ->
    exists o r, In (o, r) (p_recs st) /\ e = entry_of o r.
  Proof.
    intros st e HI Hin. rewrite (inv_idx st HI) in Hin. unfold idx_of in Hin.
    apply in_map_iff in Hin. destruct Hin as [[o r] [E Hin]]. exists o, r. split; [assumption|]. symmetry. exact E.
  Qed.

  (* a live binding of a map loaded from (part of) the index points at a record with payload *)
  Lemma binding_record : forall st es k nv, Inv st -> incl es (p_idx st) -> from_entry es k nv ->
    (0 < nv_size nv)%Z ->
    exists o r, In (o, r) (p_recs st) /\ nv_off nv * 8 = o /\ id (a_n r) = k /\ a_tomb r = false /\
                nv_size nv = Z.of_N (body_size (a_n r)) /\ 0 < body_size (a_n r).
  Proof.
    intros st es k nv HI Hinc [e [Hin [Hk [Hoff [Hnz Hsz]]]]] Hpos.
    destruct (entry_in_idx st e HI (Hinc e Hin)) as [o [r [Hr He]]].
    destruct (rec_in_dat st o r HI Hr) as [pre [post [_ [_ [Hal [Hge _]]]]]].
    exists o, r. subst e. unfold entry_of in *. cbn [e_key e_off e_size] in *.
    split; [assumption|]. split; [rewrite Hoff; lia|]. split; [assumption|].
    unfold entry_size, TombstoneFileSize in Hsz. destruct (a_tomb r).
    - exfalso. destruct Hsz as [[Hs Hne]|[Hs Hv]]; [lia|]. discriminate Hv.
    - split; [reflexivity|]. destruct Hsz as [[Hs _]|[Hs Hv]]; [|apply size_valid_pos in Hv; lia].
      split; [assumption|]. lia.
  Qed.

  Lemma map_from_idx : forall st, Inv st -> map_from (p_idx st) (p_map st).
  Proof. intros st HI. rewrite (inv_map st HI). apply load_compact_from. Qed.

  (* a bound key of the running volume has a record whose offset lies inside the file *)
  Lemma bound_offset_lt : forall st k nv, Inv st -> nm_get (p_map st) k = Some nv ->
    nv_off nv * 8 < len (p_dat st) /\ 8 <= nv_off nv * 8.
  Proof.
    intros st k nv HI Hg. destruct (map_from_idx st HI k nv Hg) as [e [Hin [_ [Hoff _]]]].
    destruct (entry_in_idx st e HI Hin) as [o [r [Hr He]]].
    destruct (rec_in_dat st o r HI Hr) as [pre [post [Hd [Hp [Hal [Hge _]]]]]].
    subst e. unfold entry_of in Hoff. cbn [e_off] in Hoff. rewrite Hoff.
    pose proof (len_encode_ge Ver (a_n r)). rewrite Hd, !len_app. lia.
  Qed.

  Lemma inv_append : forall st r m, Inv st -> arec_ok r ->
    m = load_compact_step (p_map st) (entry_of (len (p_dat st)) r) ->
    Inv (p_append st r m true).
  Proof.
    intros st r m HI Hr Hm. unfold p_append. constructor; cbn [p_recs p_dat p_idx p_map].
    - rewrite (inv_dat st HI). unfold dat_of. rewrite cat_app, <- app_assoc. cbn [cat map concat snd].
      rewrite app_nil_r. reflexivity.
    - apply lay_app. split; [apply (inv_lay st HI)|]. cbn [lay]. split; [|exact I].
      rewrite (inv_dat st HI), len_dat_of. reflexivity.
    - rewrite (inv_idx st HI). unfold idx_of. rewrite map_app. reflexivity.
    - apply Forall_app. split; [apply (inv_ok st HI)|]. constructor; [exact Hr|constructor].
    - rewrite load_compact_snoc, <- (inv_map st HI). exact Hm.
  Qed.

  Lemma len_dat_ge8 : forall st, Inv st -> 8 <= len (p_dat st) /\ len (p_dat st) mod 8 = 0.
  Proof.
    intros st HI. rewrite (inv_dat st HI), len_dat_of. pose proof (cat_aligned _ (inv_ok st HI)). lia.
  Qed.

  Lemma body_size_pos : forall n, data n <> [] -> 0 < body_size n.
  Proof. intros n H. pose proof (data_size_lt_body n H). lia. Qed.

  Lemma inv_write : forall st n, Inv st -> wf_op (Write n) -> Inv (p_write st n).
  Proof.
    intros st n HI [Hok [Hne Hck]]. unfold p_write.
    destruct (p_unchanged st n); [assumption|].
    destruct (negb (p_cookie_ok st n)); [assumption|].
    assert (Hnewer : match nm_get (p_map st) (id n) with Some nv => nv_off nv * 8 <? len (p_dat st) | None => true end = true).
    { destruct (nm_get (p_map st) (id n)) as [nv|] eqn:Eg; [|reflexivity].
      destruct (bound_offset_lt st _ nv HI Eg). lia. }
    rewrite Hnewer. apply inv_append; [assumption| |].
    - split; [exact Hok|]. cbn [a_tomb a_n]. split; assumption.
    - unfold load_compact_step, entry_of. cbn [e_off e_size e_key a_n a_tomb entry_size].
      destruct (len_dat_ge8 st HI) as [H8 _].
      assert (E1 : negb (len (p_dat st) / 8 =? 0) = true) by lia.
      rewrite E1, (size_valid_of_N _ (body_size_pos n Hne)). reflexivity.
  Qed.

  Lemma inv_delete : forall st k c ts, Inv st -> wf_op (Delete k c ts) -> Inv (p_delete st k c ts).
  Proof.
    intros st k c ts HI [Hk [Hc Hts]]. unfold p_delete.
    destruct (nm_get (p_map st) k) as [nv|]; [|assumption].
    destruct (size_valid (nv_size nv)); [|assumption].
    apply inv_append; [assumption|apply tombstone_ok; assumption|].
    unfold load_compact_step, entry_of. cbn [e_off e_size e_key a_n a_tomb entry_size tombstone id].
    replace (size_valid TombstoneFileSize) with false by reflexivity. rewrite andb_false_r. reflexivity.
  Qed.

  Lemma inv_step : forall st o, Inv st -> wf_op o -> Inv (p_step st o).
  Proof. intros st [n|k c ts] HI Hw; [apply inv_write|apply inv_delete]; assumption. Qed.

  Lemma inv_fold : forall h st, Inv st -> Forall wf_op h -> Inv (fold_left p_step h st).
  Proof.
    induction h as [|o h IH]; intros st HI Hw; [assumption|].
    inversion Hw; subst. cbn [fold_left]. apply IH; [apply inv_step|]; assumption.
  Qed.

  Lemma inv_run : forall h, Forall wf_op h -> Inv (p_run h).
  Proof. intros. apply inv_fold; [apply inv_init|assumption]. Qed.

  (* ---------- the files only grow; records come from write operations ---------- *)
  Definition extends (st st' : pstate) : Prop :=
    exists X Y Z, p_dat st' = p_dat st ++ X /\ p_idx st' = p_idx st ++ Y /\ p_recs st' = p_recs st ++ Z /\
                  (length Y <= 1)%nat /\ length Y = length Z.

  Lemma extends_refl : forall st, extends st st.
  Proof. intros. exists [], [], []. rewrite !app_nil_r. repeat split; auto. Qed.

  Lemma step_extends : forall st o, Inv st -> extends st (p_step st o).
  Proof.
    intros st o HI. destruct o as [n|k c ts]; cbn [p_step].
    - unfold p_write. destruct (p_unchanged st n); [apply extends_refl|].
      destruct (negb (p_cookie_ok st n)); [apply extends_refl|].
      assert (Hnewer : match nm_get (p_map st) (id n) with Some nv => nv_off nv * 8 <? len (p_dat st) | None => true end = true).
      { destruct (nm_get (p_map st) (id n)) as [nv|] eqn:Eg; [|reflexivity].
        destruct (bound_offset_lt st _ nv HI Eg). lia. }
      rewrite Hnewer. unfold p_append. eexists _, [_], [_]. cbn [p_dat p_idx p_recs]. repeat split; auto.
    - unfold p_delete. destruct (nm_get (p_map st) k) as [nv|]; [|apply extends_refl].
      destruct (size_valid (nv_size nv)); [|apply extends_refl].
      unfold p_append. eexists _, [_], [_]. cbn [p_dat p_idx p_recs]. repeat split; auto.
  Qed.

  Lemma fold_extends : forall h st, Inv st -> Forall wf_op h ->
    exists X Y Z, p_dat (fold_left p_step h st) = p_dat st ++ X /\ p_idx (fold_left p_step h st) = p_idx st ++ Y /\
                  p_recs (fold_left p_step h st) = p_recs st ++ Z.
  Proof.
    induction h as [|o h IH]; intros st HI Hw.
    - exists [], [], []. cbn [fold_left]. rewrite !app_nil_r. auto.
    - inversion Hw; subst. cbn [fold_left].
      destruct (step_extends st o HI) as [X1 [Y1 [Z1 [E1 [E2 [E3 _]]]]]].
      destruct (IH (p_step st o) (inv_step st o HI H1) H2) as [X2 [Y2 [Z2 [F1 [F2 F3]]]]].
      exists (X1 ++ X2), (Y1 ++ Y2), (Z1 ++ Z2). rewrite F1, F2, F3, E1, E2, E3, !app_assoc. auto.
  Qed.

  (* a record with payload is the needle of a Write of the history *)
  Definition from_writes (h : list op) (l : list (N * arec)) : Prop :=
    forall o r, In (o, r) l -> a_tomb r = false -> In (Write (a_n r)) h.

  Lemma recs_from_writes_fold : forall h2 h1 st, from_writes h1 (p_recs st) ->
    from_writes (h1 ++ h2) (p_recs (fold_left p_step h2 st)).
  Proof.
    induction h2 as [|o h2 IH]; intros h1 st H.
    - rewrite app_nil_r. assumption.
    - cbn [fold_left]. replace (h1 ++ o :: h2) with ((h1 ++ [o]) ++ h2) by (rewrite <- app_assoc; reflexivity).
      apply IH. intros o0 r Hin Ht.
      assert (Hold : In (o0, r) (p_recs st) -> In (Write (a_n r)) (h1 ++ [o])).
      { intros Hi. apply in_or_app. left. eapply H; eauto. }
      destruct o as [n|k c ts]; cbn [p_step] in Hin.
      + unfold p_write in Hin. destruct (p_unchanged st n); [auto|].
        destruct (negb (p_cookie_ok st n)); [auto|].
        destruct (match nm_get (p_map st) (id n) with Some nv => nv_off nv * 8 <? len (p_dat st) | None => true end);
          unfold p_append in Hin; cbn [p_recs] in Hin; apply in_app_or in Hin;
          (destruct Hin as [Hi|[Hi|[]]]; [auto|]); inversion Hi; subst; cbn [a_n];
          apply in_or_app; right; left; reflexivity.
      + unfold p_delete in Hin. destruct (nm_get (p_map st) k) as [nv|]; [|auto].
        destruct (size_valid (nv_size nv)); [|auto].
        unfold p_append in Hin; cbn [p_recs] in Hin; apply in_app_or in Hin.
        destruct Hin as [Hi|[Hi|[]]]; [auto|]. inversion Hi; subst. discriminate Ht.
  Qed.

  Lemma recs_from_writes : forall h, from_writes h (p_recs (p_run h)).
  Proof.
    intros h. apply (recs_from_writes_fold h [] p_init). intros o r [].
  Qed.
End WithCrc.
