(* C38: the clock readings taken inside the critical sections do not matter when no needle carries
   a TTL.  The harness records clock reading 0 for every call (check/C38.v); the machine theorems
   quantify over all clock readings.  This file closes the gap: whatever the machine produces with
   arbitrary clock readings, the same history with every reading replaced by 0 passes the checks. *)
From Coq Require Import List NArith ZArith Bool Lia Permutation.
From SW Require Import model.Volume model.VolumeConc proof.VolumeProofs proof.VolumeConcStrict proof.VolumeConcProofs.
Import ListNotations.
Local Open Scope N_scope.

(* two volumes that differ at most in the append times of their records *)
Definition rec_sim (r r' : rec) : Prop := r_off r = r_off r' /\ r_size r = r_size r' /\ r_n r = r_n r'.
Definition vol_sim (st st' : vol) : Prop :=
  Forall2 rec_sim (recs st) (recs st') /\ nm st = nm st' /\ dat_end st = dat_end st' /\
  no_write_or_delete st = no_write_or_delete st' /\ no_write_can_delete st = no_write_can_delete st'.

(* no record carries a TTL *)
Definition no_ttl_vol (st : vol) : Prop := Forall (fun r => has_ttl (n_flags (r_n r)) = false) (recs st).
Definition no_ttl_volb (st : vol) : bool := forallb (fun r => negb (has_ttl (n_flags (r_n r)))) (recs st).

(* the three operations of the machine, writes without the TTL flag *)
Definition plain_op (o : op) : bool :=
  match o with
  | Write n => negb (has_ttl (n_flags n))
  | RawRead _ _ _ | RawDelete _ _ => true
  | _ => false
  end.

Lemma forallb_map : forall (A B : Type) (f : B -> bool) (g : A -> B) l,
  forallb f (map g l) = forallb (fun x => f (g x)) l.
Proof. induction l as [|x l IH]; cbn [map forallb]; [reflexivity|]. rewrite IH. reflexivity. Qed.

Lemma forallb_ext : forall (A : Type) (f g : A -> bool) l, (forall x, f x = g x) -> forallb f l = forallb g l.
Proof. intros A f g l H. induction l as [|x l IH]; cbn [forallb]; [reflexivity|]. rewrite H, IH. reflexivity. Qed.

Lemma no_ttl_volb_ok : forall st, no_ttl_volb st = true -> no_ttl_vol st.
Proof.
  intros st H. unfold no_ttl_vol, no_ttl_volb in *. rewrite forallb_forall in H. apply Forall_forall.
  intros r Hr. apply negb_true_iff. apply H. exact Hr.
Qed.

Lemma rec_sim_refl : forall r, rec_sim r r.
Proof. intro r. repeat split. Qed.

Lemma vol_sim_refl : forall st, vol_sim st st.
Proof.
  intro st. repeat split. induction (recs st) as [|r l IH]; constructor; [apply rec_sim_refl | exact IH].
Qed.

Lemma find_rec_sim : forall l l' off, Forall2 rec_sim l l' ->
  match find_rec l off, find_rec l' off with
  | Some r, Some r' => rec_sim r r'
  | None, None => True
  | _, _ => False
  end.
Proof.
  intros l l' off H. induction H as [|r r' l l' Hr Hl IH]; cbn [find_rec]; [exact I|].
  destruct Hr as (H1 & H2 & H3). rewrite <- H1. destruct (r_off r =? off); [repeat split; assumption | exact IH].
Qed.

Lemma find_rec_forall : forall (P : rec -> Prop) l off r, Forall P l -> find_rec l off = Some r -> P r.
Proof.
  intros P l off r H. induction H as [|x l Hx Hl IH]; cbn [find_rec]; [discriminate|].
  destruct (r_off x =? off); [intro E; inversion E; subst; exact Hx | exact IH].
Qed.

Lemma view_of_rec_sim : forall r r', rec_sim r r' -> view_of_rec r = view_of_rec r'.
Proof. intros r r' (H1 & H2 & H3). unfold view_of_rec. rewrite H2, H3. reflexivity. Qed.

Lemma not_expired : forall v a now, has_ttl (v_flags v) = false -> view_expired v a now = false.
Proof. intros v a now H. unfold view_expired. rewrite H. reflexivity. Qed.

Lemma view_of_rec_no_ttl : forall r, has_ttl (n_flags (r_n r)) = false -> has_ttl (v_flags (view_of_rec r)) = false.
Proof. intros r H. unfold view_of_rec. destruct (0 <? r_size r); [exact H | reflexivity]. Qed.

Lemma read_data_sim : forall st st' off sz, vol_sim st st' ->
  match read_data st off sz, read_data st' off sz with
  | Some r, Some r' => rec_sim r r'
  | None, None => True
  | _, _ => False
  end.
Proof.
  intros st st' off sz (H & _). unfold read_data. pose proof (find_rec_sim _ _ off H) as F.
  destruct (find_rec (recs st) off) as [r|], (find_rec (recs st') off) as [r'|]; try contradiction; [|exact I].
  destruct F as (F1 & F2 & F3). rewrite <- F2. destruct (Z.of_N (r_size r) =? sz)%Z; [repeat split; assumption | exact I].
Qed.

Lemma read_data_no_ttl : forall st off sz r, no_ttl_vol st -> read_data st off sz = Some r -> has_ttl (n_flags (r_n r)) = false.
Proof.
  intros st off sz r H. unfold read_data. destruct (find_rec (recs st) off) as [x|] eqn:E; [|discriminate].
  destruct (Z.of_N (r_size x) =? sz)%Z; [|discriminate]. intro Q. inversion Q; subst.
  exact (find_rec_forall _ _ _ _ H E).
Qed.

Lemma read_sim : forall st st' id c rd t t', vol_sim st st' -> no_ttl_vol st ->
  store_read st id c rd t = store_read st' id c rd t'.
Proof.
  intros st st' id c rd t t' S NT. pose proof S as (_ & Hnm & _). unfold store_read. rewrite <- Hnm.
  destruct (nm_get (nm st) id) as [nv|]; [|reflexivity].
  destruct (nv_off nv =? 0); [reflexivity|].
  assert (G : forall z,
    (if (z =? 0)%Z then (ENone, 0%Z, blank_view c)
     else match read_data st (nv_off nv) z with
          | None => (EOther, 0%Z, blank_view c)
          | Some r => let v := view_of_rec r in
                      if view_expired v (r_at r) t then (ENotFound, (-1)%Z, v) else (ENone, Z.of_N (blen (v_data v)), v)
          end) =
    (if (z =? 0)%Z then (ENone, 0%Z, blank_view c)
     else match read_data st' (nv_off nv) z with
          | None => (EOther, 0%Z, blank_view c)
          | Some r => let v := view_of_rec r in
                      if view_expired v (r_at r) t' then (ENotFound, (-1)%Z, v) else (ENone, Z.of_N (blen (v_data v)), v)
          end)).
  { intro z. destruct (z =? 0)%Z; [reflexivity|].
    pose proof (read_data_sim st st' (nv_off nv) z S) as RS.
    destruct (read_data st (nv_off nv) z) as [r|] eqn:E1, (read_data st' (nv_off nv) z) as [r'|]; try contradiction; [|reflexivity].
    pose proof (read_data_no_ttl _ _ _ _ NT E1) as T.
    cbv zeta. rewrite <- (view_of_rec_sim r r' RS).
    rewrite !not_expired by (apply view_of_rec_no_ttl; exact T). reflexivity. }
  destruct (size_deleted (nv_size nv)); [destruct (rd && negb (nv_size nv =? -1)%Z); [apply G | reflexivity] | apply G].
Qed.

Lemma unchanged_sim : forall st st' n, vol_sim st st' -> is_file_unchanged st n = is_file_unchanged st' n.
Proof.
  intros st st' n S. pose proof S as (_ & Hnm & _). unfold is_file_unchanged. rewrite <- Hnm.
  destruct (nm_get (nm st) (n_id n)) as [nv|]; [|reflexivity].
  destruct (negb (nv_off nv =? 0) && size_valid (nv_size nv)); [|reflexivity].
  pose proof (read_data_sim st st' (nv_off nv) (nv_size nv) S) as RS.
  destruct (read_data st (nv_off nv) (nv_size nv)) as [r|], (read_data st' (nv_off nv) (nv_size nv)) as [r'|];
    try contradiction; [|reflexivity].
  rewrite (view_of_rec_sim r r' RS). reflexivity.
Qed.

Lemma append_sim : forall st st' n t t', vol_sim st st' ->
  vol_sim (fst (fst (append st n t))) (fst (fst (append st' n t'))) /\
  snd (fst (append st n t)) = snd (fst (append st' n t')) /\ snd (append st n t) = snd (append st' n t').
Proof.
  intros st st' n t t' (H1 & H2 & H3 & H4 & H5). unfold append. cbn [fst snd]. rewrite <- H3. repeat split; cbn; auto.
  constructor; [repeat split; reflexivity | exact H1].
Qed.

Lemma with_nm_sim : forall st st' m, vol_sim st st' -> vol_sim (with_nm st m) (with_nm st' m).
Proof. intros st st' m (H1 & H2 & H3 & H4 & H5). repeat split; cbn; auto. Qed.

Lemma do_write_sim : forall st st' n t t', vol_sim st st' ->
  snd (do_write st n t) = snd (do_write st' n t') /\ vol_sim (fst (do_write st n t)) (fst (do_write st' n t')).
Proof.
  intros st st' n t t' S. pose proof S as (Hr & Hnm & Hd & _). unfold do_write.
  rewrite <- (unchanged_sim st st' n S). destruct (is_file_unchanged st n); [split; [reflexivity | exact S]|].
  rewrite <- Hnm.
  assert (CK : match nm_get (nm st) (n_id n) with
               | Some nv => match find_rec (recs st) (nv_off nv) with
                            | Some r => if n_cookie (r_n r) =? n_cookie n then ENone else ECookie
                            | None => EOther end
               | None => ENone end =
               match nm_get (nm st) (n_id n) with
               | Some nv => match find_rec (recs st') (nv_off nv) with
                            | Some r => if n_cookie (r_n r) =? n_cookie n then ENone else ECookie
                            | None => EOther end
               | None => ENone end).
  { destruct (nm_get (nm st) (n_id n)) as [nv|]; [|reflexivity].
    pose proof (find_rec_sim _ _ (nv_off nv) Hr) as F.
    destruct (find_rec (recs st) (nv_off nv)) as [r|], (find_rec (recs st') (nv_off nv)) as [r'|]; try contradiction; [|reflexivity].
    destruct F as (_ & _ & F3). rewrite F3. reflexivity. }
  rewrite <- CK.
  destruct (match nm_get (nm st) (n_id n) with
            | Some nv => match find_rec (recs st) (nv_off nv) with
                         | Some r => if n_cookie (r_n r) =? n_cookie n then ENone else ECookie
                         | None => EOther end
            | None => ENone end); try (split; [reflexivity | exact S]).
  destruct (append_sim st st' n t t' S) as (SA & E1 & E2).
  unfold append in *. cbn [fst snd] in *. rewrite <- Hd. rewrite <- ?Hd, <- ?Hnm in SA.
  destruct (match nm_get (nm st) (n_id n) with Some nv => nv_off nv <? dat_end st | None => true end);
    cbn [fst snd]; (split; [reflexivity|]).
  - cbn [nm]. rewrite <- ?Hnm. apply with_nm_sim. exact SA.
  - rewrite <- ?Hnm. exact SA.
Qed.

Lemma delete_sim : forall st st' id c t t', vol_sim st st' ->
  snd (fst (store_delete st id c t)) = snd (fst (store_delete st' id c t')) /\
  snd (store_delete st id c t) = snd (store_delete st' id c t') /\
  vol_sim (fst (fst (store_delete st id c t))) (fst (fst (store_delete st' id c t'))).
Proof.
  intros st st' id c t t' S. pose proof S as (Hr & Hnm & Hd & Hf & _). unfold store_delete. rewrite <- Hf, <- Hnm.
  destruct (no_write_or_delete st); [split; [reflexivity | split; [reflexivity | exact S]]|].
  destruct (nm_get (nm st) id) as [nv|]; [|split; [reflexivity | split; [reflexivity | exact S]]].
  destruct (size_valid (nv_size nv)); [|split; [reflexivity | split; [reflexivity | exact S]]].
  destruct (append_sim st st' (tombstone id c) t t' S) as (SA & _ & _).
  unfold append in *. cbn [fst snd] in *. rewrite <- ?Hd, <- ?Hnm in SA. rewrite <- ?Hd. split; [reflexivity | split; [reflexivity|]].
  cbn [nm]. rewrite <- ?Hnm. apply with_nm_sim. exact SA.
Qed.

(* no TTL stays no TTL *)
Lemma no_ttl_append : forall st n t, no_ttl_vol st -> has_ttl (n_flags n) = false -> no_ttl_vol (fst (fst (append st n t))).
Proof. intros st n t H Hn. unfold no_ttl_vol, append. cbn [fst recs]. constructor; [exact Hn | exact H]. Qed.

Lemma no_ttl_recs : forall st st', recs st' = recs st -> no_ttl_vol st -> no_ttl_vol st'.
Proof. intros st st' E H. unfold no_ttl_vol in *. rewrite E. exact H. Qed.

Lemma no_ttl_step : forall st t o, plain_op o = true -> no_ttl_vol st -> no_ttl_vol (fst (step st (t, o))).
Proof.
  intros st t o P NT. destruct o as [n|u|id c rd|id c|id c rd|id c|b|b]; try discriminate; unfold step.
  - cbn [plain_op] in P. apply negb_true_iff in P.
    unfold store_write. destruct (is_read_only st); [exact NT|]. unfold do_write.
    destruct (is_file_unchanged st n); [exact NT|].
    pose proof (no_ttl_append st n t NT P) as NA. unfold append in *. cbn [fst snd] in *.
    destruct (nm_get (nm st) (n_id n)) as [nv|].
    + destruct (find_rec (recs st) (nv_off nv)) as [r|]; [|exact NT].
      destruct (n_cookie (r_n r) =? n_cookie n); [|exact NT].
      destruct (nv_off nv <? dat_end st); cbn [fst]; [eapply no_ttl_recs; [|exact NA]; reflexivity | exact NA].
    + cbn [fst]. eapply no_ttl_recs; [|exact NA]. reflexivity.
  - destruct (store_read st id c rd t) as [[e cnt] v]. exact NT.
  - unfold store_delete. destruct (no_write_or_delete st); [exact NT|].
    destruct (nm_get (nm st) id) as [nv|]; [|exact NT]. destruct (size_valid (nv_size nv)); [|exact NT].
    pose proof (no_ttl_append st (tombstone id c) t NT eq_refl) as NA. unfold append in *. cbn [fst snd] in *.
    eapply no_ttl_recs; [|exact NA]. reflexivity.
Qed.

(* one step: same result, similar states, whatever the two clock readings *)
Lemma step_sim : forall st st' o t t', vol_sim st st' -> no_ttl_vol st -> plain_op o = true ->
  snd (step st (t, o)) = snd (step st' (t', o)) /\ vol_sim (fst (step st (t, o))) (fst (step st' (t', o))).
Proof.
  intros st st' o t t' S NT P. destruct o as [n|u|id c rd|id c|id c rd|id c|b|b]; try discriminate; unfold step.
  - unfold store_write, is_read_only. pose proof S as (_ & _ & _ & F1 & F2). rewrite <- F1, <- F2.
    destruct (no_write_or_delete st || no_write_can_delete st); [split; [reflexivity | exact S]|].
    destruct (do_write_sim st st' n t t' S) as [E V].
    destruct (do_write st n t) as [s1 w1], (do_write st' n t') as [s2 w2]. cbn [fst snd] in *. subst w2. split; [reflexivity | exact V].
  - rewrite (read_sim st st' id c rd t t' S NT). destruct (store_read st' id c rd t') as [[e cnt] v]. split; [reflexivity | exact S].
  - destruct (delete_sim st st' id c t t' S) as (E1 & E2 & V).
    destruct (store_delete st id c t) as [[s1 e1] z1], (store_delete st' id c t') as [[s2 e2] z2]. cbn [fst snd] in *. subst.
    split; [reflexivity | exact V].
Qed.

(* ---------- histories ---------- *)
Definition zero_clock (a : orec event out) : orec event out :=
  mk_orec (o_id a) (o_inv a) (o_res a) (0, snd (o_op a)) (o_out a).
Definition plain_hist (h : hist) : bool := forallb (fun a => plain_op (snd (o_op a))) h.

Lemma seq_ok_zero : forall (lin : hist) st s0 st',
  vol_sim st s0 -> no_ttl_vol st -> plain_hist lin = true ->
  seq_ok vol_nxt vol_acc st lin = Some st' ->
  exists s0', seq_ok vol_nxt vol_acc s0 (map zero_clock lin) = Some s0' /\ vol_sim st' s0'.
Proof.
  induction lin as [|a lin IH]; intros st s0 st' S NT P SQ; cbn [map seq_ok] in *.
  - inversion SQ; subst. exists s0. split; [reflexivity | exact S].
  - cbn [plain_hist forallb] in P. apply andb_true_iff in P. destruct P as [P1 P2].
    unfold vol_acc, vol_nxt in *. destruct (o_op a) as [t o] eqn:Eo.
    assert (P1' : plain_op o = true) by (change o with (snd (t, o)); rewrite <- Eo; exact P1).
    clear P1. rename P1' into P1.
    destruct (out_eqb (snd (step st (t, o))) (o_out a)) eqn:E; [|discriminate].
    destruct (step_sim st s0 o t 0 S NT P1) as [E1 V].
    unfold zero_clock at 1 2. cbn [o_op o_out]. rewrite Eo. cbn [snd]. rewrite <- E1, E.
    unfold zero_clock at 1. cbn [o_op]. rewrite Eo. cbn [snd].
    eapply IH; [exact V | apply no_ttl_step; assumption | exact P2 | exact SQ].
Qed.

Lemma rt_ok_zero : forall (lin : hist), rt_ok (map zero_clock lin) = rt_ok lin.
Proof.
  induction lin as [|a lin IH]; cbn [map rt_ok]; [reflexivity|]. rewrite IH. f_equal.
  unfold minimal. rewrite forallb_map. reflexivity.
Qed.

(* the observables that vol_final compares are the same on similar volumes *)
Lemma vol_final_sim : forall f st st', vol_sim st st' -> no_ttl_vol st -> vol_final f st = vol_final f st'.
Proof.
  intros f st st' S NT. pose proof S as (Hr & Hnm & Hd & _). unfold vol_final. rewrite <- Hd.
  destruct (dat_end st =? f_dat f); [|reflexivity].
  assert (E1 : forallb (nm_entry_eqb st) (f_nm f) = forallb (nm_entry_eqb st') (f_nm f)).
  { apply forallb_ext. intro e. unfold nm_entry_eqb. rewrite Hnm. reflexivity. }
  rewrite <- E1. destruct (forallb (nm_entry_eqb st) (f_nm f)); [|reflexivity].
  assert (E2 : map rsig_of (rev (recs st)) = map rsig_of (rev (recs st'))).
  { rewrite !map_rev. f_equal. clear -Hr. induction Hr as [|r r' l l' H Hl IH]; [reflexivity|].
    cbn [map]. rewrite IH. f_equal. destruct H as (H1 & H2 & H3). unfold rsig_of. rewrite H1, H2, H3. reflexivity. }
  rewrite <- E2. destruct (all2 rsig_eqb (map rsig_of (rev (recs st))) (f_recs f)); [|reflexivity].
  unfold reads_eqb. apply forallb_ext. intros [[id c] o].
  destruct (step_sim st st' (RawRead id c false) 0 0 S NT eq_refl) as [E _]. rewrite E. reflexivity.
Qed.

Lemma no_ttl_seq : forall (lin : hist) st st', no_ttl_vol st -> plain_hist lin = true ->
  seq_ok vol_nxt vol_acc st lin = Some st' -> no_ttl_vol st'.
Proof.
  induction lin as [|a lin IH]; intros st st' NT P SQ; cbn [seq_ok] in SQ.
  - inversion SQ; subst. exact NT.
  - cbn [plain_hist forallb] in P. apply andb_true_iff in P. destruct P as [P1 P2].
    destruct (vol_acc st (o_op a) (o_out a)); [|discriminate]. eapply IH; [|exact P2|exact SQ].
    unfold vol_nxt. destruct (o_op a) as [t o] eqn:Eo.
    assert (P1' : plain_op o = true) by (change o with (snd (t, o)); rewrite <- Eo; exact P1).
    apply no_ttl_step; assumption.
Qed.

Lemma plain_hist_perm : forall h h', Permutation h h' -> plain_hist h = plain_hist h'.
Proof. intros. unfold plain_hist. apply forallb_perm. assumption. Qed.

(* what the machine produces with ANY clock readings passes the volume check with every reading
   replaced by 0 (the form in which the harness records the calls), provided no needle carries the
   TTL flag *)
Theorem machine_admitted_zero : forall a b pre stop sched m f,
  mrun (minit (start_vol a b pre) stop) sched = Some m -> sync_ok sched = true -> complete m = true ->
  no_ttl_volb (start_vol a b pre) = true -> plain_hist (history m) = true ->
  vol_final f (m_vol m) = true ->
  lin_check_vol a b pre f (map zero_clock (history m)) = true.
Proof.
  intros a b pre stop sched m f Hrun Hs Hc NT0 PH Hf.
  destruct (machine_order _ _ _ _ Hrun Hs Hc) as (P & RT & SQ & _).
  apply no_ttl_volb_ok in NT0.
  assert (PL : plain_hist (apply_order m) = true) by (rewrite (plain_hist_perm _ _ P); exact PH).
  destruct (seq_ok_zero _ _ _ _ (vol_sim_refl _) NT0 PL SQ) as (s0' & SQ0 & V).
  apply lin_check_vol_complete. exists (map zero_clock (apply_order m)), s0'. repeat split.
  - apply Permutation_map. exact P.
  - rewrite rt_ok_zero. exact RT.
  - exact SQ0.
  - rewrite <- (vol_final_sim f _ _ V (no_ttl_seq _ _ _ NT0 PL SQ)). exact Hf.
Qed.

(* the history of the machine consists of the three Store calls only *)
Lemma history_plain : forall m,
  forallb (fun a => match a_op a with CWrite n _ => negb (has_ttl (n_flags n)) | _ => true end) (m_lin m) = true ->
  plain_hist (history m) = true.
Proof.
  intros m H. unfold plain_hist, history. rewrite forallb_map. rewrite forallb_forall in *.
  intros a Ha. specialize (H a Ha). unfold orec_of. cbn [o_op snd]. destruct (a_op a); exact H.
Qed.
