(* Proofs about model/VolumeCrash.v (C03), part 2: opening the volume after a crash. *)
From Coq Require Import List NArith ZArith Bool Lia ZifyBool ZifyN ZifyNat.
From SW Require Import model.Needle proof.NeedleProofs model.VolumeCrash proof.VolumeCrashProofs.
Import ListNotations.
Local Open Scope N_scope.
Ltac Zify.zify_post_hook ::= Z.div_mod_to_equations.

Arguments N.add : simpl never.
Arguments N.mul : simpl never.
Arguments N.div : simpl never.
Arguments N.modulo : simpl never.
Arguments N.sub : simpl never.
Arguments N.pow : simpl never.
Arguments N.ltb : simpl never.
Arguments N.leb : simpl never.
Arguments N.eqb : simpl never.
Arguments N.land : simpl never.
Arguments Z.of_N : simpl never.
Arguments Z.to_N : simpl never.
Arguments Z.ltb : simpl never.
Arguments Z.eqb : simpl never.
Arguments Z.opp : simpl never.

(* ---------- prefixes ---------- *)
Definition pref (P X : list N) : Prop := exists m, P = takeN m X.

Lemma pref_refl : forall X, pref X X.
Proof. intros. exists (len X). symmetry. apply takeN_ge. lia. Qed.

Lemma pref_takeN : forall X m, pref (takeN m X) X.
Proof. intros. exists m. reflexivity. Qed.

Lemma pref_trans : forall A B C, pref A B -> pref B C -> pref A C.
Proof. intros A B C [m ->] [m' ->]. rewrite takeN_takeN. eexists; reflexivity. Qed.

Lemma snoc_case : forall A (l : list A), l = [] \/ exists l' a, l = l' ++ [a].
Proof. intros A l. induction l using rev_ind; [left; reflexivity|right; eauto]. Qed.

Lemma empty_payload_of : forall n, data n <> [] -> empty_payload n = false.
Proof.
  intros n H. unfold empty_payload. destruct (len (data n) =? 0) eqn:E; [|reflexivity].
  exfalso. apply H. apply len_zero_nil. lia.
Qed.

Section WithCrc.
  Variable crc : list N -> N.

  (* ---------- the integrity check only shortens the files ---------- *)
  Lemma verify_needle_pref : forall d off key size r d',
    verify_needle crc d off key size = (r, d') -> pref (d_bytes d') (d_bytes d).
  Proof.
    intros d off key size r d' H. unfold verify_needle in H.
    destruct (len (dropN off (d_bytes d)) <? NeedleHeaderSize); [inversion H; apply pref_refl|].
    destruct (parse_header (dropN off (d_bytes d))) as [[c i] hs].
    destruct (negb (Z.of_N hs =? size)%Z); [inversion H; apply pref_refl|].
    destruct (len (dropN (NeedleHeaderSize + Z.to_N size + NeedleChecksumSize) (dropN off (d_bytes d))) <? TimestampSize);
      [inversion H; apply pref_refl|].
    destruct (d_fsize d =? off + actual_size (Z.to_N size) Ver); [inversion H; apply pref_refl|].
    destruct (off + actual_size (Z.to_N size) Ver <? d_fsize d); [inversion H; apply pref_takeN|].
    destruct (read_data crc (d_bytes d) off (Z.to_N size) Ver) as [dn st].
    destruct st; try (inversion H; apply pref_refl).
    destruct (id (d_n dn) =? key); inversion H; apply pref_refl.
  Qed.

  Lemma check_entry_pref : forall d e r d', check_entry crc d e = (r, d') -> pref (d_bytes d') (d_bytes d).
  Proof.
    intros d e r d' H. unfold check_entry in H.
    destruct (e_off e =? 0); [inversion H; apply pref_refl|].
    eapply verify_needle_pref; eauto.
  Qed.

  Lemma check_loop_pref : forall n es cnt d healthy last r d' h',
    check_loop crc n es cnt d healthy last = (r, d', h') -> pref (d_bytes d') (d_bytes d).
  Proof.
    induction n as [|n IH]; intros es cnt d healthy last r d' h' H.
    - cbn [check_loop] in H. inversion H. apply pref_refl.
    - destruct es as [|e es]; [cbn [check_loop] in H; inversion H; apply pref_refl|].
      cbn [check_loop] in H. destruct (check_entry crc d e) as [r0 d0] eqn:E.
      pose proof (check_entry_pref _ _ _ _ E) as Hp.
      destruct r0; try (inversion H; subst; assumption);
        (eapply pref_trans; [eapply IH; eauto|assumption]).
  Qed.

  Lemma check_and_fix_shrinks : forall d es err d' es',
    check_and_fix crc d es = (err, d', es') -> pref (d_bytes d') (d_bytes d) /\ incl es' es.
  Proof.
    intros d es err d' es' H. unfold check_and_fix in H. destruct es as [|e0 es0].
    - inversion H. split; [apply pref_refl|apply incl_refl].
    - remember (e0 :: es0) as es. destruct (check_loop crc 10 (rev es) (len es) d (len es) CNil) as [[r d1] healthy] eqn:E.
      pose proof (check_loop_pref _ _ _ _ _ _ _ _ _ E) as Hp.
      destruct (healthy <? len es); inversion H; subst; (split; [assumption|]).
      + intros x Hx. eapply In_takeN; eauto.
      + apply incl_refl.
  Qed.

  (* what a loaded volume is made of *)
  Lemma load_loaded : forall f L, load crc f = Loaded L ->
    pref (d_bytes (l_dat L)) (f_dat f) /\ incl (l_idx L) (f_idx f) /\ map_from (l_idx L) (l_map L).
  Proof.
    intros f L H. unfold load in H.
    destruct (len (f_dat f) <? SuperBlockSize); [discriminate|].
    destruct (check_and_fix crc (open_dat (f_dat f)) (f_idx f)) as [[err d] es] eqn:E.
    destruct (check_and_fix_shrinks _ _ _ _ _ E) as [Hp Hi].
    inversion H; subst L; clear H. cbn [l_dat l_idx l_map].
    split; [exact Hp|]. split; [exact Hi|].
    destruct err; [apply load_sorted_from|apply load_compact_from].
  Qed.

  (* ---------- reading a record through a prefix of the data file ---------- *)
  Lemma read_data_window : forall X P pre post o n,
    X = pre ++ encode Ver n ++ post -> len pre = o -> pref P X ->
    rec_ok n -> data n <> [] -> checksum n = crc (data n) ->
    read_data crc P o (body_size n) Ver = (dview Ver n, SOk) \/
    read_data crc P o (body_size n) Ver = (empty_dneedle, SShort).
  Proof.
    intros X P pre post o n HX Hpre [m HP] [Hok Hr] Hne Hck. unfold read_data.
    set (a := actual_size (body_size n) Ver).
    destruct (len (takeN a (dropN o P)) <? a) eqn:E; [right; reflexivity|left].
    assert (Hw : takeN a (dropN o P) = encode Ver n).
    { subst P. rewrite window_of_prefix by lia. subst X.
      rewrite dropN_app by assumption. apply takeN_app. apply len_encode. assumption. }
    rewrite Hw. apply roundtrip_partial; auto using empty_payload_of.
  Qed.

  (* readNeedle on a live binding whose record is (or is not) fully there *)
  Lemma l_read_live : forall L k nv n,
    nm_get (l_map L) k = Some nv -> nv_off nv <> 0 -> nv_size nv = Z.of_N (body_size n) -> 0 < body_size n ->
    (read_data crc (d_bytes (l_dat L)) (nv_off nv * 8) (body_size n) Ver = (dview Ver n, SOk) ->
       l_read crc L k = ROk (dview Ver n)) /\
    (read_data crc (d_bytes (l_dat L)) (nv_off nv * 8) (body_size n) Ver = (empty_dneedle, SShort) ->
       l_read crc L k = RErr 4).
  Proof.
    intros L k nv n Hg Hnz Hs Hpos. unfold l_read. rewrite Hg.
    destruct (nv_off nv =? 0) eqn:E0; [lia|].
    assert (Hd : size_deleted (nv_size nv) = false) by (unfold size_deleted, TombstoneFileSize; lia).
    rewrite Hd. destruct (nv_size nv =? 0)%Z eqn:Ez; [lia|].
    rewrite Hs, N2Z.id. split; intros ->; reflexivity.
  Qed.

  (* ---------- SAFETY: nothing foreign is ever served after a reopen ---------- *)
  Theorem no_foreign_data : forall h dcut icut L k d, Forall (wf_op crc) h ->
    load crc (crash (p_run h) dcut icut) = Loaded L -> l_read crc L k = ROk d ->
    exists n, In (Write n) h /\ id n = k /\ d = dview Ver n.
  Proof.
    intros h dcut icut L k d Hwf Hload Hread.
    pose proof (inv_run crc h Hwf) as HI. set (st := p_run h) in *.
    destruct (load_loaded _ _ Hload) as [Hp [Hi Hm]]. cbn [crash f_dat f_idx] in Hp, Hi.
    assert (Hp' : pref (d_bytes (l_dat L)) (p_dat st)) by (eapply pref_trans; [exact Hp|apply pref_takeN]).
    assert (Hi' : incl (l_idx L) (p_idx st)) by (intros x Hx; eapply In_takeN; apply Hi; exact Hx).
    pose proof Hread as Hread0. unfold l_read in Hread.
    destruct (nm_get (l_map L) k) as [nv|] eqn:Eg; [|discriminate].
    destruct (nv_off nv =? 0) eqn:E0; [discriminate|].
    destruct (size_deleted (nv_size nv)) eqn:Ed; [discriminate|].
    destruct (nv_size nv =? 0)%Z eqn:Ez; [discriminate|]. clear Hread.
    apply size_deleted_neg in Ed.
    destruct (binding_record crc st (l_idx L) k nv HI Hi' (Hm k nv Eg)) as [o [r [Hin [Ho [Hid [Ht [Hs Hpos]]]]]]]; [lia|].
    destruct (rec_in_dat crc st o r HI Hin) as [pre [post [HX [Hlen [_ [_ [Hrok Hpay]]]]]]].
    rewrite Ht in Hpay. destruct Hpay as [Hne Hck].
    destruct (l_read_live L k nv (a_n r) Eg ltac:(lia) Hs Hpos) as [Hok Hshort].
    rewrite Ho in Hok, Hshort.
    destruct (read_data_window (p_dat st) (d_bytes (l_dat L)) pre post o (a_n r) HX Hlen Hp' Hrok Hne Hck) as [H1|H1].
    - exists (a_n r). split; [eapply (recs_from_writes h); eauto|]. split; [assumption|].
      rewrite (Hok H1) in Hread0. inversion Hread0. reflexivity.
    - rewrite (Hshort H1) in Hread0. discriminate.
  Qed.

  (* ---------- LIVENESS at an admissible, trigger-free crash point ---------- *)
  (* the data file of the reopened volume still starts with everything the index knows about *)
  Definition good_dat (st : pstate) (D : dfile) : Prop :=
    (exists T, d_bytes D = p_dat st ++ T) /\ d_fsize D mod 8 = 0 /\ len (d_bytes D) <= d_fsize D.

  Lemma good_open : forall st T, good_dat st (open_dat (p_dat st ++ T)).
  Proof.
    intros. unfold good_dat, open_dat. cbn [d_bytes d_fsize].
    destruct (round_up8_spec (len (p_dat st ++ T))) as [H1 [H2 _]]. split; [eauto|]. split; assumption.
  Qed.

  (* the check of the last index entry of the running volume [st] against [p_dat st ++ T] *)
  Lemma check_last_entry : forall st l' o r T, Inv crc st -> p_recs st = l' ++ [(o, r)] ->
    exists D, check_entry crc (open_dat (p_dat st ++ T)) (entry_of o r) = (CNil, D) /\ good_dat st D.
  Proof.
    intros st l' o r T HI Hrecs.
    assert (Hin : In (o, r) (p_recs st)) by (rewrite Hrecs; apply in_or_app; right; left; reflexivity).
    destruct (rec_in_dat crc st o r HI Hin) as [pre0 [post0 [_ [_ [Hal [Hge [Hrok Hpay]]]]]]].
    (* the last record ends the file *)
    assert (HX : p_dat st = (super_block ++ cat l') ++ encode Ver (a_n r)).
    { rewrite (inv_dat crc st HI), Hrecs. unfold dat_of. rewrite cat_app. cbn [cat map concat snd].
      rewrite app_nil_r, app_assoc. reflexivity. }
    assert (Ho : len (super_block ++ cat l') = o).
    { pose proof (inv_lay crc st HI) as Hl. rewrite Hrecs in Hl. apply lay_app in Hl. destruct Hl as [_ [Hl _]].
      rewrite len_app, len_super_block. lia. }
    set (pre := super_block ++ cat l') in *.
    pose proof (len_enc_ok crc r (conj Hrok Hpay)) as Hle.
    assert (Hend : len (p_dat st) = o + len (encode Ver (a_n r))) by (rewrite HX, len_app; lia).
    destruct (len_dat_ge8 crc st HI) as [_ Hdal].
    unfold check_entry, entry_of. cbn [e_off e_size e_key].
    destruct (o / 8 =? 0) eqn:E0; [lia|].
    replace (o / 8 * 8) with o by lia.
    (* a tombstone is looked for with Size 0, which is the size its record has *)
    assert (Hsz : (if (entry_size r <? 0)%Z then 0%Z else entry_size r) = Z.of_N (body_size (a_n r))).
    { unfold entry_size. destruct (a_tomb r) eqn:Et.
      - destruct (body_empty (a_n r) Hpay) as [Hb _]. rewrite Hb. reflexivity.
      - replace (Z.of_N (body_size (a_n r)) <? 0)%Z with false by lia. reflexivity. }
    rewrite Hsz.
    - (* header, size and timestamp of the record are there; anything behind it is cut *)
      unfold verify_needle, open_dat. cbn [d_bytes d_fsize].
      set (bs := body_size (a_n r)) in *.
      assert (Hrest : dropN o (p_dat st ++ T) = encode Ver (a_n r) ++ T).
      { rewrite HX, <- app_assoc. apply dropN_app. assumption. }
      rewrite Hrest.
      pose proof (len_encode_ge Ver (a_n r)) as H16.
      destruct (len (encode Ver (a_n r) ++ T) <? NeedleHeaderSize) eqn:E1;
        [rewrite len_app in E1; unfold NeedleHeaderSize in E1; lia|].
      destruct Hrok as [Henc Hrng]. pose proof Hrng as [Hc [Hi [Hb31 _]]].
      assert (Hb32 : bs < 2 ^ 32) by (change (2 ^ 32) with 4294967296; change (2 ^ 31) with 2147483648 in Hb31; unfold bs; lia).
      rewrite encode_split, (parse_header_bytes (a_n r) _ Hc Hi Hb32).
      fold bs. rewrite Z.eqb_refl. cbn [negb]. rewrite N2Z.id.
      rewrite <- encode_split.
      assert (Hact : actual_size bs Ver = 16 + bs + 4 + 8 + padding_length bs Ver)
        by (unfold actual_size, body_length, ts_size, Ver, NeedleHeaderSize, NeedleChecksumSize, TimestampSize;
            change (3 =? 3) with true; cbv iota; lia).
      pose proof (padding_range bs Ver) as Hpad.
      destruct (len (dropN (NeedleHeaderSize + bs + NeedleChecksumSize) (encode Ver (a_n r) ++ T)) <? TimestampSize) eqn:E2.
      { rewrite len_dropN, len_app in E2. unfold NeedleHeaderSize, NeedleChecksumSize, TimestampSize in E2. lia. }
      destruct (round_up8_spec (len (p_dat st ++ T))) as [Hr1 [Hr2 Hr3]].
      pose proof (len_app _ (p_dat st) T) as Hla.
      destruct (round_up8 (len (p_dat st ++ T)) =? o + actual_size bs Ver) eqn:E3.
      + exists (open_dat (p_dat st ++ T)). split; [reflexivity|apply good_open].
      + destruct (o + actual_size bs Ver <? round_up8 (len (p_dat st ++ T))) eqn:E4; [|lia].
        eexists. split; [reflexivity|]. unfold good_dat, d_truncate. cbn [d_bytes d_fsize].
        replace (o + actual_size bs Ver) with (len (p_dat st)) by lia.
        rewrite takeN_app by reflexivity. split; [exists []; rewrite app_nil_r; reflexivity|]. split; [assumption|lia].
  Qed.

  Lemma idx_of_app : forall a b, idx_of (a ++ b) = idx_of a ++ idx_of b.
  Proof. intros. unfold idx_of. apply map_app. Qed.

  (* when the newest entry checks out, the loop stops there *)
  Lemma check_and_fix_last : forall d es e D, check_entry crc d e = (CNil, D) ->
    check_and_fix crc d (es ++ [e]) = (false, D, es ++ [e]).
  Proof.
    intros d es e D H. unfold check_and_fix. destruct (es ++ [e]) as [|e0 es0] eqn:E.
    - exfalso. eapply app_cons_not_nil. symmetry. exact E.
    - rewrite <- E. rewrite rev_app_distr. cbn [rev app check_loop]. rewrite H, N.ltb_irrefl. reflexivity.
  Qed.

  (* reopening [p_dat st ++ T] with the index of [st] gives back the needle map of [st] *)
  Lemma load_core : forall st T torn, Inv crc st ->
    exists D, load crc {| f_dat := p_dat st ++ T; f_idx := p_idx st; f_torn := torn |}
              = Loaded {| l_dat := D; l_idx := p_idx st; l_map := p_map st; l_nwod := false |}
              /\ good_dat st D.
  Proof.
    intros st T torn HI. unfold load. cbn [f_dat f_idx f_torn].
    destruct (len_dat_ge8 crc st HI) as [H8 _].
    destruct (len (p_dat st ++ T) <? SuperBlockSize) eqn:E1; [rewrite len_app in E1; unfold SuperBlockSize in E1; lia|].
    destruct (snoc_case _ (p_recs st)) as [Hnil|[l' [[o r] Hsnoc]]].
    - (* empty index: nothing is checked *)
      assert (Hidx : p_idx st = []) by (rewrite (inv_idx crc st HI), Hnil; reflexivity).
      rewrite Hidx. cbn [check_and_fix]. eexists. split; [|apply good_open].
      rewrite (inv_map crc st HI), Hidx. reflexivity.
    - destruct (check_last_entry st l' o r T HI Hsnoc) as [D [Hc HD]].
      assert (Hidx : p_idx st = idx_of l' ++ [entry_of o r]).
      { rewrite (inv_idx crc st HI), Hsnoc, idx_of_app. reflexivity. }
      exists D. split; [|assumption].
      assert (Hcf : check_and_fix crc (open_dat (p_dat st ++ T)) (p_idx st) = (false, D, p_idx st)).
      { rewrite Hidx. apply check_and_fix_last. assumption. }
      rewrite Hcf. rewrite (inv_map crc st HI). reflexivity.
  Qed.

  (* ... and every key reads as it did in the running volume [st] *)
  Lemma read_core : forall st D es nwod k, Inv crc st -> good_dat st D ->
    l_read crc {| l_dat := D; l_idx := es; l_map := p_map st; l_nwod := nwod |} k = p_read st k.
  Proof.
    intros st D es nwod k HI [[T HT] _]. unfold p_read.
    destruct (nm_get (p_map st) k) as [nv|] eqn:Eg; [|unfold l_read; cbn [l_map]; rewrite Eg; reflexivity].
    destruct (nv_off nv =? 0) eqn:E0; [unfold l_read; cbn [l_map]; rewrite Eg, E0; reflexivity|].
    destruct (size_deleted (nv_size nv)) eqn:Ed; [unfold l_read; cbn [l_map]; rewrite Eg, E0, Ed; reflexivity|].
    destruct (nv_size nv =? 0)%Z eqn:Ez; [unfold l_read; cbn [l_map]; rewrite Eg, E0, Ed, Ez; reflexivity|].
    apply size_deleted_neg in Ed.
    destruct (binding_record crc st (p_idx st) k nv HI (incl_refl _) (map_from_idx crc st HI k nv Eg))
      as [o [r [Hin [Ho [Hid [Ht [Hs Hpos]]]]]]]; [lia|].
    rewrite Ho, (lay_find _ _ _ _ (inv_lay crc st HI) Hin).
    destruct (rec_in_dat crc st o r HI Hin) as [pre [post [HX [Hlen [_ [_ [Hrok Hpay]]]]]]].
    rewrite Ht in Hpay. destruct Hpay as [Hne Hck]. destruct Hrok as [Henc Hrng].
    set (L := {| l_dat := D; l_idx := es; l_map := p_map st; l_nwod := nwod |}).
    destruct (l_read_live L k nv (a_n r) Eg ltac:(lia) Hs Hpos) as [Hok _]. apply Hok.
    unfold L. cbn [l_dat]. rewrite Ho, HT, HX, <- !app_assoc, <- Hlen.
    apply roundtrip_in_file; auto using empty_payload_of.
  Qed.

  (* ... and a fresh key can be written and read back *)
  Lemma write_core : forall st D es n, Inv crc st -> good_dat st D ->
    nm_get (p_map st) (id n) = None -> rec_ok n -> data n <> [] -> checksum n = crc (data n) ->
    exists L2, l_write crc {| l_dat := D; l_idx := es; l_map := p_map st; l_nwod := false |} n = (L2, WOk) /\
               l_read crc L2 (id n) = ROk (dview Ver n).
  Proof.
    intros st D es n HI [[T HT] [Hal Hle]] Hg [Henc Hrng] Hne Hck.
    unfold l_write, l_unchanged. cbn [l_nwod l_map l_dat l_idx]. rewrite Hg.
    eexists. split; [reflexivity|].
    destruct (len_dat_ge8 crc st HI) as [H8 _].
    assert (Hf8 : 8 <= d_fsize D) by (rewrite HT, len_app in Hle; lia).
    set (L2 := {| l_dat := d_append D (encode Ver n); l_idx := _; l_map := _; l_nwod := false |}).
    set (nv := {| nv_off := d_fsize D / 8; nv_size := Z.of_N (body_size n) |}).
    assert (Eg : nm_get (l_map L2) (id n) = Some nv).
    { unfold L2. cbn [l_map nm_set nm_get]. rewrite N.eqb_refl. reflexivity. }
    pose proof (body_size_pos n Hne) as Hpos.
    destruct (l_read_live L2 (id n) nv n Eg) as [Hok _]; [unfold nv; cbn [nv_off]; lia|reflexivity|assumption|].
    apply Hok. unfold nv, L2, d_append. cbn [nv_off l_dat d_bytes].
    replace (d_fsize D / 8 * 8) with (d_fsize D) by lia.
    set (Z0 := zeros (d_fsize D - len (d_bytes D))).
    assert (HZ : len (d_bytes D ++ Z0) = d_fsize D) by (unfold Z0; rewrite len_app, len_zeros; lia).
    pose proof (roundtrip_in_file crc Ver n (d_bytes D ++ Z0) [] (empty_payload_of n Hne) Henc Hrng Hck) as R.
    rewrite HZ, app_nil_r, <- app_assoc in R. exact R.
  Qed.
End WithCrc.
